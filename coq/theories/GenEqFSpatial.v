(* GenEqFSpatial.v — the float64 helpers of common/spatial (vector3.go matrix3.go point3.go line3.go quat.go), common.AlmostEqual and the functions of
   gonum's spatial/r3 they call, regenerated from the Go source (generated/GeneratedFS.v, struct values as tuples) = C20's hand-written binary64 models
   (VecF.v). [tv], [tq], [tm] turn the models' records into the tuples of the generated side. The proofs open the records and are conversion
   ([reflexivity]), or the generic [gen_feq]-style case split where the generated side duplicates a continuation. math.Hypot, Sin, Cos are the
   fields m_hypot, m_sin, m_cos of the record GeneratedF.libm; math.Sqrt is PrimFloat.sqrt; math.NaN() is nan.
   Not regenerated: UniqueAppend, MaxPoint, MinPoint (slices of pointers, range loops). *)
From Coq Require Import ZArith Bool Floats.
From SIDGen Require Import GeneratedF GeneratedFS.
From SID Require Import F64 VecF GenFTac.
Open Scope float_scope.

Definition tv (v : fvec) : float * float * float := (fx v, fy v, fz v).
Definition tq (q : fquat) : float * float * float * float := (fqw q, fqx q, fqy q, fqz q).
Definition tm (a : fmat) : (float * float * float) * (float * float * float) * (float * float * float) :=
  ((f00 a, f01 a, f02 a), (f10 a, f11 a, f12 a), (f20 a, f21 a, f22 a)).

Ltac open_records :=
  repeat match goal with
         | v : fvec |- _ => destruct v
         | q : fquat |- _ => destruct q
         | a : fmat |- _ => destruct a
         end.
(* [models]: unfolds the model side *)
Ltac gen_fs models :=
  intros; open_records;
  first [ reflexivity
        | repeat autounfold with sidgenfs; models; unfold tv, tq, tm; cbn [fx fy fz fqw fqx fqy fqz f00 f01 f02 f10 f11 f12 f20 f21 f22];
          cbv beta iota zeta; first [ fcong | cbv beta iota zeta delta [negb andb orb]; fsolve ] ].

(* common.AlmostEqual *)
Lemma gen_AlmostEqual_eq : forall x y tol, GeneratedFS.AlmostEqual x y tol = almost_equal x y tol.
Proof. gen_fs ltac:(unfold almost_equal). Qed.

(* gonum r3 (v0.15.1 in go.mod) *)
Lemma gen_r3_Add_eq : forall p q, GeneratedFS.r3_Add (tv p) (tv q) = tv (fadd p q).
Proof. gen_fs ltac:(unfold fadd). Qed.
Lemma gen_r3_Sub_eq : forall p q, GeneratedFS.r3_Sub (tv p) (tv q) = tv (fsub p q).
Proof. gen_fs ltac:(unfold fsub). Qed.
Lemma gen_r3_Scale_eq : forall f p, GeneratedFS.r3_Scale f (tv p) = tv (fscale f p).
Proof. gen_fs ltac:(unfold fscale). Qed.
Lemma gen_r3_Dot_eq : forall p q, GeneratedFS.r3_Dot (tv p) (tv q) = fdot p q.
Proof. gen_fs ltac:(unfold fdot). Qed.
Lemma gen_r3_Cross_eq : forall p q, GeneratedFS.r3_Cross (tv p) (tv q) = tv (fcross p q).
Proof. gen_fs ltac:(unfold fcross). Qed.
Lemma gen_r3_Norm_eq : forall M p, GeneratedFS.r3_Norm M (tv p) = fnorm (m_hypot M) p.
Proof. gen_fs ltac:(unfold fnorm). Qed.
Lemma gen_r3_Unit_eq : forall M p, GeneratedFS.r3_Unit M (tv p) = tv (funit (m_hypot M) p).
Proof. gen_fs ltac:(unfold funit, fnanv, fscale, fnorm). Qed.
Lemma gen_r3_Cos_eq : forall M p q, GeneratedFS.r3_Cos M (tv p) (tv q) = fcosv (m_hypot M) p q.
Proof. gen_fs ltac:(unfold fcosv, fdot, fnorm). Qed.

(* vector3.go *)
Lemma gen_NewVectorFromPoints_eq : forall p q, GeneratedFS.NewVectorFromPoints (tv p) (tv q) = tv (fvec_from_points p q).
Proof. gen_fs ltac:(unfold fvec_from_points, fsub). Qed.
Lemma gen_Vector3_Add_eq : forall a b, GeneratedFS.Vector3_Add (tv a) (tv b) = tv (fadd a b).
Proof. gen_fs ltac:(unfold fadd). Qed.
Lemma gen_Vector3_Sub_eq : forall a b, GeneratedFS.Vector3_Sub (tv a) (tv b) = tv (fsub a b).
Proof. gen_fs ltac:(unfold fsub). Qed.
Lemma gen_Vector3_Scale_eq : forall a f, GeneratedFS.Vector3_Scale (tv a) f = tv (fscale f a).
Proof. gen_fs ltac:(unfold fscale). Qed.
Lemma gen_Vector3_Dot_eq : forall a b, GeneratedFS.Vector3_Dot (tv a) (tv b) = fdot a b.
Proof. gen_fs ltac:(unfold fdot). Qed.
Lemma gen_Vector3_Cross_eq : forall a b, GeneratedFS.Vector3_Cross (tv a) (tv b) = tv (fcross a b).
Proof. gen_fs ltac:(unfold fcross). Qed.
Lemma gen_Vector3_Norm_eq : forall M a, GeneratedFS.Vector3_Norm M (tv a) = fnorm (m_hypot M) a.
Proof. gen_fs ltac:(unfold fnorm). Qed.
Lemma gen_Vector3_L1Norm_eq : forall a, GeneratedFS.Vector3_L1Norm (tv a) = fl1norm a.
Proof. gen_fs ltac:(unfold fl1norm). Qed.
Lemma gen_Vector3_Unit_eq : forall M a, GeneratedFS.Vector3_Unit M (tv a) = tv (funit (m_hypot M) a).
Proof. gen_fs ltac:(unfold funit, fnanv, fscale, fnorm). Qed.
Lemma gen_Vector3_Cos_eq : forall M a b, GeneratedFS.Vector3_Cos M (tv a) (tv b) = fcosv (m_hypot M) a b.
Proof. gen_fs ltac:(unfold fcosv, fdot, fnorm). Qed.

(* matrix3.go *)
Lemma gen_NewMatrix3_eq : forall a b c d e f g h i, GeneratedFS.NewMatrix3 a b c d e f g h i = tm (FM a b c d e f g h i).
Proof. gen_fs ltac:(idtac). Qed.
Lemma gen_NewUnitMatrix3_eq : GeneratedFS.NewUnitMatrix3 = tm fmunit.
Proof. gen_fs ltac:(unfold fmunit). Qed.
Lemma gen_Matrix3_Mul_eq : forall a b, GeneratedFS.Matrix3_Mul (tm a) (tm b) = tm (fmmul a b).
Proof. gen_fs ltac:(unfold fmmul). Qed.
Lemma gen_Matrix3_MulVec_eq : forall a v, GeneratedFS.Matrix3_MulVec (tm a) (tv v) = tv (fmulvec a v).
Proof. gen_fs ltac:(unfold fmulvec). Qed.

(* point3.go *)
Lemma gen_Point3_IsClose_eq : forall p q eps, GeneratedFS.Point3_IsClose (tv p) (tv q) eps = fis_close p q eps.
Proof. gen_fs ltac:(unfold fis_close, almost_equal). Qed.
Lemma gen_Point3_Translate_eq : forall p a, GeneratedFS.Point3_Translate (tv p) (tv a) = tv (ftranslate p a).
Proof. gen_fs ltac:(unfold ftranslate, fadd). Qed.
Lemma gen_Point3_DistancePoint_eq : forall M p q, GeneratedFS.Point3_DistancePoint M (tv p) (tv q) = fdistance (m_hypot M) p q.
Proof. gen_fs ltac:(unfold fdistance, fvec_from_points, fsub, fnorm). Qed.

(* line3.go: a line is (start point, direction) *)
Lemma gen_NewLineFromPoints_eq : forall s e, GeneratedFS.NewLineFromPoints (tv s) (tv e) = (tv s, tv (fvec_from_points s e)).
Proof. gen_fs ltac:(unfold fvec_from_points, fsub). Qed.
Lemma gen_Line3_ToPoint_eq : forall p d t, GeneratedFS.Line3_ToPoint (tv p, tv d) t = tv (fline_to_point p d t).
Proof. gen_fs ltac:(unfold fline_to_point, ftranslate, fadd, fscale). Qed.
Lemma gen_Line3_End_eq : forall p d, GeneratedFS.Line3_End (tv p, tv d) = tv (fline_end p d).
Proof. gen_fs ltac:(unfold fline_end, ftranslate, fadd). Qed.
Lemma gen_Line3_Start_eq : forall p d, GeneratedFS.Line3_Start (tv p, tv d) = tv p.
Proof. gen_fs ltac:(idtac). Qed.

(* quat.go *)
Lemma gen_QuatFromAxisAngle_eq : forall M axis angle,
  GeneratedFS.QuatFromAxisAngle M (tv axis) angle = tq (fquat_axis_angle (m_hypot M) (m_sin M) (m_cos M) axis angle).
Proof. gen_fs ltac:(unfold fquat_axis_angle, funit, fnanv, fscale, fnorm, c_half). Qed.
(* RotateBetweenVector: the callees are rewritten into the models (lemmas above), then the two conditions are decided *)
Lemma gen_RotateBetweenVector_eq : forall M a b,
  GeneratedFS.RotateBetweenVector M (tv a) (tv b) = tq (frotate_between (m_hypot M) (m_sin M) (m_cos M) a b).
Proof.
  intros M a b. unfold GeneratedFS.RotateBetweenVector. cbv zeta.
  rewrite !gen_Vector3_Unit_eq, !gen_Vector3_Cos_eq, !gen_Vector3_Cross_eq.
  change ((0x0p+0)%float, (0x0p+0)%float, (0x1p+0)%float) with (tv (FV 0 0 1)).
  change ((0x1p+0)%float, (0x0p+0)%float, (0x0p+0)%float) with (tv (FV 1 0 0)).
  rewrite !gen_Vector3_Cross_eq, ?gen_Vector3_Norm_eq.
  unfold frotate_between. cbv zeta.
  change (0x1.b7cdfd9d7bdbbp-34)%float with c_minima.
  destruct (fcosv (m_hypot M) (funit (m_hypot M) a) (funit (m_hypot M) b) + 1 <? c_minima).
  - destruct (fnorm (m_hypot M) (fcross (funit (m_hypot M) a) (FV 0 0 1)) <? c_minima); rewrite gen_QuatFromAxisAngle_eq; reflexivity.
  - reflexivity.
Qed.
