(* GenEqFSpatial.v — umbrella, kept for backward compatibility: the lemmas live in one file per Go source file. Import the narrow file, not this one. *)
From SID Require Export GenEqFSTac GenEqFSCommon GenEqFSR3 GenEqFSVector GenEqFSMatrix GenEqFSPoint GenEqFSLine GenEqFSQuat.
