(* GenC10.v — the C10 facts that mention the translator's output (generated/Generated.v) or the GenEq* lemmas.
   Imported by properties/C10.v only; NOT by DC10.v / Dispatch.v (nothing on the dispatch side may depend on the SIDGen library or on the GenEq / GenTac files). *)
From Coq Require Import ZArith String Ascii List.
From SIDGen Require Generated.
From SID Require Import Base Str Ids GenEqConstDelim Notation.
Import ListNotations.
Open Scope Z_scope.

(* the "/" at which the parser model splits and the printer model joins is consts.SpatialIDDelimiter of the Go code *)
Theorem delimiter_is_generated :
  bytes_to_string Generated.SpatialIDDelimiter = String slash EmptyString /\
  Generated.SpatialIDDelimiter = [Z.of_nat (nat_of_ascii slash)] /\
  (forall i, print_eid i = String.concat (bytes_to_string Generated.SpatialIDDelimiter)
                                        [print (eh i); print (ex i); print (ey i); print (ev i); print (ef i)]) /\
  (forall l, join l = String.concat (bytes_to_string Generated.SpatialIDDelimiter) l).
Proof.
  rewrite gen_SpatialIDDelimiter_eq. split; [reflexivity|]. split; [reflexivity|]. split.
  - intros i. unfold print_eid. apply join_concat.
  - apply join_concat.
Qed.
