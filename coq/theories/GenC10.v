(* GenC10.v — the C10 facts that mention the translator's output (generated/Generated.v) or the GenEq* lemmas.
   Imported by properties/C10.v only; NOT by DC10.v / Dispatch.v (nothing on the dispatch side may depend on the SIDGen library or on the GenEq / GenTac files). *)
From Coq Require Import ZArith String Ascii List.
From SIDGen Require Generated.
From SID Require Import Base Str Ids GenEqConstDelim Notation.
Import ListNotations.
Open Scope Z_scope.

(* the "/" at which the parser model splits and the printer model joins is consts.SpatialIDDelimiter of the Go code *)
Theorem delimiter_is_generated :
  bytes_to_string Generated.SpatialIDDelimiter = String slash EmptyString /\
  Generated.SpatialIDDelimiter = [Z.of_nat (nat_of_ascii slash)] /\
  (forall i, print_eid i = String.concat (bytes_to_string Generated.SpatialIDDelimiter)
                                        [print (eh i); print (ex i); print (ey i); print (ev i); print (ef i)]) /\
  (forall l, join l = String.concat (bytes_to_string Generated.SpatialIDDelimiter) l).
Proof.
  rewrite gen_SpatialIDDelimiter_eq. split; [reflexivity|]. split; [reflexivity|]. split.
  - intros i. unfold print_eid. apply join_concat.
  - apply join_concat.
Qed.

(* ---- the two integer kernels of the expansion ConvertExtendedSpatialIDToSpatialIDs (integrate.HorizontalZoomMinMax for hZoom < vZoom,
   the bounds of integrate.VerticalZoom for hZoom > vZoom) as REGENERATED WITH GO'S int64 SEMANTICS (generated/Generated64.v): on every
   valid ID they do not panic (Some), no intermediate leaves the int64 range (flag true) and the value is the one the model expand_rec /
   expand_eid uses (ZoomCore.hzoom_minmax / vzoom_minmax). This is the sentence "there no intermediate exceeds 2^36 and int64 cannot
   wrap" of meta/C10.json as a theorem for these kernels; the loops over the ranges, the string formatting and the object accessors
   stay hand-written (tied by the differential runs). ---- *)
From Coq Require Import Lia.
From SIDGen Require Generated64.
From SID Require Import ZoomCore GenEqZoom GenEq64Zoom.
Theorem int64_expansion_kernels_fit_on_valid_ids i : valid i ->
  Generated64.HorizontalZoomMinMax (eh i) (Ids.ex i) (ey i) (ev i) = Some (hzoom_minmax (eh i) (Ids.ex i) (ey i) (ev i), true) /\
  Generated64.VerticalZoom_minmax (ev i) (ef i) (eh i) = Some (vzoom_minmax (ev i) (ef i) (eh i), true).
Proof.
  intros (Vh & Vv & Vx & Vy & Vf). split.
  - rewrite gen64_HorizontalZoomMinMax_fits by lia. now rewrite gen_HorizontalZoomMinMax_eq.
  - rewrite gen64_VerticalZoom_minmax_fits by lia. now rewrite gen_VerticalZoom_minmax_eq.
Qed.
(* outside the grid the int64 code wraps where the unbounded model does not: x = 2^62 at zoom 0 expanded to zoom 2 *)
Example int64_expansion_wraps_outside_the_grid :
  Generated64.HorizontalZoomMinMax 0 (2 ^ 62) 0 2 = Some ((0, 0, 3, 3), false) /\
  Generated.HorizontalZoomMinMax 0 (2 ^ 62) 0 2 = (2 ^ 64, 0, 2 ^ 64 + 3, 3).
Proof. vm_compute. split; reflexivity. Qed.
