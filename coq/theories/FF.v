(* FF.v — C01, altitude axis: the vertical index computed by getVerticalTileIdOnAltitude (PointF.f_f, bit-exact model)
   is the exact floor of alt * 2^v / 2^25 — floor, not truncation, below ground — for every finite altitude whose quotient
   does not fall into the denormal range (finding class alt_underflow, D12), with the refutation witness for that class. *)
From Coq Require Import ZArith Reals Lia Lra Floats List Bool.
From Flocq Require Import Core BinarySingleNaN Mult_error.
From Flocq Require PrimFloat.
From SID Require Import Base F64 ExactRef PointF PtBridge.
Import ListNotations.
Open Scope Z_scope.

(* the specification over the reals *)
Definition F_exact (v : Z) (alt : R) : Z := Zfloor (alt * bpow radix2 v / bpow radix2 25).

Lemma F_exact_alt v alt : F_exact v alt = Zfloor (alt * bpow radix2 (v - 25)).
Proof.
  unfold F_exact. f_equal. unfold Zminus. rewrite bpow_plus, bpow_opp. unfold Rdiv. ring.
Qed.
(* the same number in the normalised coordinates of Voxel.inR (a = alt / 2^25) *)
Lemma F_exact_norm v alt : F_exact v alt = Zfloor (bpow radix2 v * (alt / bpow radix2 25)).
Proof. unfold F_exact. f_equal. unfold Rdiv. ring. Qed.

(* finding class alt_underflow: a non-zero altitude so small that alt / 2^(25-v) is a denormal number (|alt| < 2^(-997-v)) *)
Definition alt_underflow (alt : pfloat) (v : Z) : Prop :=
  fval alt <> 0%R /\ (Rabs (fval alt) < bpow radix2 (-997 - v))%R.
Definition alt_underflow_b (alt : pfloat) (v : Z) : bool :=
  negb (alt =? 0)%float && (abs alt <? pow2f (-997 - v))%float.

Lemma alt_underflow_b_spec alt v : 0 <= v <= 35 -> ffin alt = true ->
  alt_underflow_b alt v = true <-> alt_underflow alt v.
Proof.
  intros Hv Fa. unfold alt_underflow_b, alt_underflow.
  destruct zero_val as [Z0v Z0f]. destruct (abs_val alt) as [Av Af].
  destruct (pow2f_value_lo (-997 - v) ltac:(lia)) as [Pv Pf].
  rewrite (eqb_val alt 0 Fa Z0f), Z0v.
  rewrite (ltb_val (abs alt) (pow2f (-997 - v)) ltac:(rewrite Af; exact Fa) Pf), Av, Pv.
  rewrite andb_true_iff, negb_true_iff.
  destruct (Req_bool_spec (fval alt) 0) as [E|N]; destruct (Rlt_bool_spec (Rabs (fval alt)) (bpow radix2 (-997 - v))) as [L|L];
    split; intros [A B]; try discriminate; try (split; [assumption || reflexivity | assumption || reflexivity]); try lra; try contradiction.
Qed.

(* 2^25 / 2^v = 2^(25-v), exactly *)
Lemma res_val v : 0 <= v <= 35 ->
  fval (pow2f 25 / pow2f v) = bpow radix2 (25 - v) /\ ffin (pow2f 25 / pow2f v) = true.
Proof.
  intros Hv. destruct (pow2f_value 25 ltac:(lia)) as [V25 F25]. destruct (pow2f_value v ltac:(lia)) as [Vv Fv].
  assert (E : (bpow radix2 25 / bpow radix2 v = bpow radix2 (25 - v))%R).
  { unfold Zminus. rewrite bpow_plus, bpow_opp. reflexivity. }
  assert (G : rnd (bpow radix2 25 / bpow radix2 v) = bpow radix2 (25 - v)).
  { rewrite E. apply rnd_fmt. replace (bpow radix2 (25 - v)) with (IZR 1 * bpow radix2 (25 - v))%R by ring.
    apply fmt_int; [simpl; lia | lia]. }
  destruct (div_val (pow2f 25) (pow2f v) F25) as [V F].
  - rewrite Vv. apply Rgt_not_eq, bpow_gt_0.
  - rewrite V25, Vv, G. rewrite Rabs_pos_eq by apply bpow_ge_0. apply bpow_lt. lia.
  - rewrite V25, Vv, G in V. auto.
Qed.

(* floor, not truncation, below ground: exact for every finite altitude (|alt| <= 2^40, far beyond the documented 2^25)
   outside the underflow class *)
Theorem f_f_exact (alt : pfloat) (v : Z) : 0 <= v <= 35 ->
  ffin alt = true -> (Rabs (fval alt) <= bpow radix2 40)%R -> ~ alt_underflow alt v ->
  f_f alt v = Some (F_exact v (fval alt)).
Proof.
  intros Hv Fa Hb Hu. unfold f_f. destruct (res_val v Hv) as [Rv Rf].
  set (res := (pow2f 25 / pow2f v)%float) in *.
  assert (Ediv : (fval alt / bpow radix2 (25 - v) = fval alt * bpow radix2 (v - 25))%R).
  { unfold Rdiv. rewrite <- bpow_opp. f_equal. f_equal. lia. }
  assert (G : fmt (fval alt * bpow radix2 (v - 25))).
  { destruct (Req_dec (fval alt) 0) as [E0|N0].
    - rewrite E0, Rmult_0_l. apply generic_format_0.
    - apply fmt_scale; [apply fmt_fval|].
      assert (M : -996 - v <= mag radix2 (fval alt)).
      { apply mag_ge_bpow. replace (-996 - v - 1) with (-997 - v) by lia.
        destruct (Rle_or_lt (bpow radix2 (-997 - v)) (Rabs (fval alt))) as [L|L]; [exact L|].
        exfalso. apply Hu. split; assumption. }
      lia. }
  assert (Bq : (Rabs (fval alt * bpow radix2 (v - 25)) <= bpow radix2 50)%R).
  { rewrite Rabs_mult, (Rabs_pos_eq (bpow radix2 (v - 25))) by apply bpow_ge_0.
    replace 50 with (40 + 10) by lia. rewrite bpow_plus.
    apply Rmult_le_compat; [apply Rabs_pos | apply bpow_ge_0 | exact Hb | apply bpow_le; lia]. }
  destruct (div_val alt res Fa) as [V F].
  - rewrite Rv. apply Rgt_not_eq, bpow_gt_0.
  - rewrite Rv, Ediv, (rnd_fmt _ G). apply Rle_lt_trans with (1 := Bq). apply bpow_lt. lia.
  - rewrite Rv, Ediv, (rnd_fmt _ G) in V.
    rewrite Ztrunc_ffloor; [| exact F |].
    + rewrite V, F_exact_alt. reflexivity.
    + rewrite V. apply Rle_lt_trans with (1 := Bq). apply bpow_lt. lia.
Qed.

(* the altitude index is defined for every finite altitude of the theorem domain, inside the class too *)
Lemma f_f_defined (alt : pfloat) (v : Z) : 0 <= v <= 35 -> ffin alt = true -> (Rabs (fval alt) <= bpow radix2 40)%R ->
  exists f, f_f alt v = Some f.
Proof.
  intros Hv Fa Hb. unfold f_f. destruct (res_val v Hv) as [Rv Rf].
  set (res := (pow2f 25 / pow2f v)%float) in *.
  assert (Ediv : (fval alt / bpow radix2 (25 - v) = fval alt * bpow radix2 (v - 25))%R).
  { unfold Rdiv. rewrite <- bpow_opp. f_equal. f_equal. lia. }
  assert (Bq : (Rabs (fval alt * bpow radix2 (v - 25)) <= bpow radix2 50)%R).
  { rewrite Rabs_mult, (Rabs_pos_eq (bpow radix2 (v - 25))) by apply bpow_ge_0.
    replace 50 with (40 + 10) by lia. rewrite bpow_plus.
    apply Rmult_le_compat; [apply Rabs_pos | apply bpow_ge_0 | exact Hb | apply bpow_le; lia]. }
  assert (Br : (Rabs (rnd (fval alt * bpow radix2 (v - 25))) <= bpow radix2 50)%R) by (apply rnd_abs_le; [lia | exact Bq]).
  destruct (div_val alt res Fa) as [V F].
  - rewrite Rv. apply Rgt_not_eq, bpow_gt_0.
  - rewrite Rv, Ediv. apply Rle_lt_trans with (1 := Br). apply bpow_lt. lia.
  - rewrite Rv, Ediv in V. eexists. apply Ztrunc_ffloor; [exact F|].
    rewrite V. apply Rle_lt_trans with (1 := Br). apply bpow_lt. lia.
Qed.

(* the class is not empty and the statement is false on it: the smallest negative denormal at vertical zoom 0 gives 0, the floor is -1 *)
Definition alt_witness : pfloat := (-0x1p-1074)%float.
Lemma alt_witness_val : fval alt_witness = (- bpow radix2 (-1074))%R /\ ffin alt_witness = true.
Proof.
  rewrite fval_SF, ffin_SF. replace (Prim2SF alt_witness) with (S754_finite true 1 (-1074)) by (vm_compute; reflexivity).
  split; [|reflexivity]. cbn [SF2R cond_Zopp]. unfold F2R. cbn [Fnum Fexp]. rewrite opp_IZR. ring.
Qed.
Theorem f_f_underflow_refuted :
  exists alt v, 0 <= v <= 35 /\ ffin alt = true /\ (Rabs (fval alt) <= bpow radix2 25)%R /\ alt_underflow alt v /\
                f_f alt v = Some 0 /\ F_exact v (fval alt) = -1.
Proof.
  exists alt_witness, 0. destruct alt_witness_val as [V F].
  assert (P : (0 < bpow radix2 (-1074))%R) by apply bpow_gt_0.
  assert (Q : (bpow radix2 (-1074) < bpow radix2 (-997))%R) by (apply bpow_lt; lia).
  assert (Q2 : (bpow radix2 (-997) < bpow radix2 25)%R) by (apply bpow_lt; lia).
  split; [lia|]. split; [exact F|]. unfold alt_underflow. rewrite V. rewrite Rabs_Ropp, Rabs_pos_eq by lra.
  change (-997 - 0) with (-997).
  split; [lra|]. split; [split; lra|].
  split; [vm_compute; reflexivity|].
  rewrite F_exact_alt. apply Zfloor_imp. simpl Zminus.
  assert (S : (0 < bpow radix2 (-1074) * bpow radix2 (-25) < 1)%R).
  { rewrite <- bpow_plus. split; [apply bpow_gt_0|]. change 1%R with (bpow radix2 0). apply bpow_lt. lia. }
  change (IZR (-1)) with (-1)%R. change (IZR (-1 + 1)) with 0%R. lra.
Qed.

(* the independent rational reference of the run-time checker (ExactRef.exact_f) is the same number *)
Lemma dyadic_val (f : pfloat) : ffin f = true -> exists m e, dyadic f = Some (m, e) /\ fval f = (IZR m * bpow radix2 e)%R.
Proof.
  rewrite ffin_SF, fval_SF. unfold dyadic. destruct (Prim2SF f) as [s|s| |s m e]; try discriminate; intros _.
  - exists 0, 0. split; [reflexivity|]. simpl. ring.
  - exists (if s then Z.neg m else Z.pos m), e. split; [reflexivity|].
    cbn [SF2R]. unfold F2R. cbn [Fnum Fexp]. destruct s; reflexivity.
Qed.
Lemma floor_scaled_spec m e k : floor_scaled m e k = Zfloor (IZR m * bpow radix2 (e + k)).
Proof.
  unfold floor_scaled. rewrite floor_F2R. destruct (e + k) as [|p|p] eqn:E.
  - simpl. lia.
  - change (0 <=? Z.pos p) with true. cbn iota. reflexivity.
  - change (0 <=? Z.neg p) with false. cbn iota. reflexivity.
Qed.
Theorem exact_f_spec (alt : pfloat) (v : Z) : ffin alt = true -> exact_f alt v = Some (F_exact v (fval alt)).
Proof.
  intros Fa. destruct (dyadic_val alt Fa) as (m & e & D & V). unfold exact_f. rewrite D. f_equal.
  rewrite floor_scaled_spec, F_exact_alt, V. f_equal. rewrite bpow_plus. ring.
Qed.

(* the index of a point of the documented range is inside the vertical index range of its zoom *)
Lemma F_exact_range v alt : 0 <= v -> (- bpow radix2 25 <= alt < bpow radix2 25)%R -> - 2 ^ v <= F_exact v alt < 2 ^ v.
Proof.
  intros Hv [H1 H2]. rewrite F_exact_norm.
  assert (P25 : (0 < bpow radix2 25)%R) by apply bpow_gt_0.
  assert (Pv : (0 < bpow radix2 v)%R) by apply bpow_gt_0.
  assert (A : (-1 <= alt / bpow radix2 25 < 1)%R).
  { split.
    - apply Rmult_le_reg_r with (1 := P25). unfold Rdiv. rewrite Rmult_assoc, Rinv_l by lra. lra.
    - apply Rmult_lt_reg_r with (1 := P25). unfold Rdiv. rewrite Rmult_assoc, Rinv_l by lra. lra. }
  set (a := (alt / bpow radix2 25)%R) in *.
  split.
  - apply Zfloor_lub. rewrite opp_IZR, IZR_pow2 by exact Hv. nra.
  - apply lt_IZR. apply Rle_lt_trans with (bpow radix2 v * a)%R; [apply Zfloor_lb|]. rewrite IZR_pow2 by exact Hv. nra.
Qed.

(* floor, not truncation: half a metre below ground at the zoom of one-metre cells is cell -1 (truncation would give 0) *)
Example f_f_below_ground : f_f (-0.5)%float 25 = Some (-1).
Proof. vm_compute. reflexivity. Qed.

(* the closed top edge of the documented domain: alt = 2^25 exactly is the first layer ABOVE the grid, f = 2^v
   (not a valid index: valid means -2^v <= f < 2^v); every altitude below 2^25 gets a valid index (F_exact_range) *)
Theorem f_f_top_edge v : 0 <= v <= 35 -> f_f 33554432%float v = Some (2 ^ v) /\ F_exact v (bpow radix2 25) = 2 ^ v.
Proof.
  intros Hv.
  assert (V : fval 33554432%float = bpow radix2 25 /\ ffin 33554432%float = true) by exact (pow2f_value 25 ltac:(lia)).
  destruct V as [V F].
  assert (E : F_exact v (bpow radix2 25) = 2 ^ v).
  { unfold F_exact. replace (bpow radix2 25 * bpow radix2 v / bpow radix2 25)%R with (bpow radix2 v).
    - rewrite <- IZR_pow2 by lia. apply Zfloor_IZR.
    - field. apply Rgt_not_eq, bpow_gt_0. }
  split; [|exact E]. rewrite <- E, <- V. apply f_f_exact; [exact Hv | exact F | |].
  - rewrite V, Rabs_pos_eq by apply bpow_ge_0. apply bpow_le. lia.
  - unfold alt_underflow. rewrite V, Rabs_pos_eq by apply bpow_ge_0. intros [_ C].
    apply (Rlt_irrefl (bpow radix2 25)). apply Rlt_trans with (1 := C). apply bpow_lt. lia.
Qed.
