(* VertexCheck.v — C02: exact references and boolean checkers applied to the implementation's observed output.
   The references are independent of the float model: edges are decided by integer arithmetic on the float's exact
   dyadic value (ExactRef.dyadic), never by a float computation. Soundness of the checkers is proved in VertexProofs.v. *)
From Coq Require Import ZArith Floats Bool List String.
From SID Require Import Base Str Ids F64 ExactRef.
Import ListNotations.
Open Scope Z_scope.

(* the finite float f has exactly the value n / 2^k  (k >= 0) *)
Definition dy_eq (f : float) (n k : Z) : bool :=
  match dyadic f with
  | Some (m, e) => if 0 <=? e then (m * 2 ^ e * 2 ^ k =? n) else (m * 2 ^ k =? n * 2 ^ (- e))
  | None => false
  end.

(* the real-number box of the voxel (h,x,y,v,f), as numerators over a power of two:
   west  = (360 x - 180 2^h) / 2^h          east = (360 (x+1) - 180 2^h) / 2^h        centre = (180 (2x+1) - 180 2^h) / 2^h
   bottom = f 2^25 / 2^v                     top  = (f+1) 2^25 / 2^v                  centre = (2f+1) 2^25 / 2^(v+1)          *)
Definition west_num (h x : Z) : Z := 360 * x - 180 * 2 ^ h.
Definition clon_num (h x : Z) : Z := 180 * (2 * x + 1) - 180 * 2 ^ h.
Definition alt_num (f : Z) : Z := f * 2 ^ 25.
Definition is_west (h x : Z) (lon : float) : bool := dy_eq lon (west_num h x) h.
Definition is_east (h x : Z) (lon : float) : bool := dy_eq lon (west_num h (x + 1)) h.
Definition is_bottom (v f : Z) (alt : float) : bool := dy_eq alt (alt_num f) v.
Definition is_top (v f : Z) (alt : float) : bool := dy_eq alt (alt_num (f + 1)) v.
Definition is_clon (h x : Z) (lon : float) : bool := dy_eq lon (clon_num h x) h.
Definition is_calt (v f : Z) (alt : float) : bool := dy_eq alt (alt_num (2 * f + 1)) (v + 1).

Definition lat_in_range (lat : float) : bool := (abs lat <=? c_latmax)%float.

(* eight corners of a valid ID, documented order: NW NE SE SW at the bottom, then the same at the top.
   longitudes and altitudes: exact box edges; latitudes: one value for the four northern corners, one (strictly smaller) for the
   four southern ones, both inside the latitude limit. *)
Definition check_vertices (i : eid) (ps : list point) : bool :=
  match ps with
  | [p0; p1; p2; p3; p4; p5; p6; p7] =>
      let h := eh i in let x := ex i in let v := ev i in let f := ef i in
      is_west h x (plon p0) && is_east h x (plon p1) && is_east h x (plon p2) && is_west h x (plon p3) &&
      is_west h x (plon p4) && is_east h x (plon p5) && is_east h x (plon p6) && is_west h x (plon p7) &&
      is_bottom v f (palt p0) && is_bottom v f (palt p1) && is_bottom v f (palt p2) && is_bottom v f (palt p3) &&
      is_top v f (palt p4) && is_top v f (palt p5) && is_top v f (palt p6) && is_top v f (palt p7) &&
      feqb_bits (plat p1) (plat p0) && feqb_bits (plat p4) (plat p0) && feqb_bits (plat p5) (plat p0) &&
      feqb_bits (plat p3) (plat p2) && feqb_bits (plat p6) (plat p2) && feqb_bits (plat p7) (plat p2) &&
      (plat p2 <? plat p0)%float && lat_in_range (plat p0) && lat_in_range (plat p2)
  | _ => false
  end.

(* centre of a valid ID: exact midpoints on the longitude and altitude axes, latitude inside the limit
   (its position between the row's edges is decided by the round trip, see check_roundtrip) *)
Definition check_centre (i : eid) (ps : list point) : bool :=
  match ps with
  | [c] => is_clon (eh i) (ex i) (plon c) && is_calt (ev i) (ef i) (palt c) && lat_in_range (plat c)
  | _ => false
  end.

(* the reported edge latitudes are tied to their rows through a row function (at run time: the library's own point -> row formula,
   PointF.y_f fed by Go's math.Tan/Cos/Log): a latitude is stored cut toward zero by < 1e-10 degrees, so the stored north edge of row y
   lies in row y (northern hemisphere) or y-1 (southern), the stored south edge in row y+1 or y *)
Definition row_tie (rowf : float -> option Z) (y : Z) (n s : float) : bool :=
  match rowf n, rowf s with
  | Some rn, Some rs => (y - 1 <=? rn) && (rn <=? y) && (y <=? rs) && (rs <=? y + 1)
  | _, _ => false
  end.
Definition check_rows (rowf : float -> option Z) (i : eid) (ps : list point) : bool :=
  match ps with
  | p0 :: _ :: p2 :: _ => row_tie rowf (ey i) (plat p0) (plat p2)
  | _ => false
  end.

(* the centre latitude against the corner latitudes of the same voxel (all observed): strictly between them, and bit for bit the
   midpoint in degrees of the two reported edges after the documented truncation *)
Definition check_centre_lat (n s c : float) : bool :=
  ((s <? c) && (c <? n))%float && feqb_bits c (setlat_trunc ((n + s) / 2)%float).

(* round trip: the ID obtained from the centre at the same zooms is the original ID (in normal form) *)
Definition check_roundtrip (i : eid) (back : string) : bool := String.eqb back (print_eid i).

(* ---- shared faces: two vertex lists of face-adjacent voxels; axis 0: B = A + (1,0,0) (east of A), 1: B = A + (0,1,0) (south of A),
        2: B = A + (0,0,1) (above A): the four corners of the common face must be bit-identical points; 3: antimeridian. ---- *)
Definition point_eqb_bits (p q : point) : bool :=
  feqb_bits (plon p) (plon q) && feqb_bits (plat p) (plat q) && feqb_bits (palt p) (palt q).
(* the antimeridian: the east face of the last column reports +180, the west face of column 0 reports -180 (the same meridian);
   latitude and altitude of the four corners are bit-identical *)
Definition anti_pair (a b : point) : bool :=
  feqb_bits (plon a) 180%float && feqb_bits (plon b) (-180)%float && feqb_bits (plat a) (plat b) && feqb_bits (palt a) (palt b).
Definition check_shared (axis : Z) (a b : list point) : bool :=
  match a, b with
  | [a0; a1; a2; a3; a4; a5; a6; a7], [b0; b1; b2; b3; b4; b5; b6; b7] =>
      if axis =? 0 then point_eqb_bits a1 b0 && point_eqb_bits a2 b3 && point_eqb_bits a5 b4 && point_eqb_bits a6 b7
      else if axis =? 1 then point_eqb_bits a3 b0 && point_eqb_bits a2 b1 && point_eqb_bits a7 b4 && point_eqb_bits a6 b5
      else if axis =? 2 then point_eqb_bits a4 b0 && point_eqb_bits a5 b1 && point_eqb_bits a6 b2 && point_eqb_bits a7 b3
      else if axis =? 3 then anti_pair a1 b0 && anti_pair a2 b3 && anti_pair a5 b4 && anti_pair a6 b7
      else false
  | _, _ => false
  end.
(* axis 0: east neighbour, 1: south neighbour, 2: upper neighbour, 3: the cyclic east neighbour of the last column (column 0) *)
Definition neighbour (axis : Z) (i : eid) : eid :=
  if axis =? 0 then mk (eh i) (ex i + 1) (ey i) (ev i) (ef i)
  else if axis =? 1 then mk (eh i) (ex i) (ey i + 1) (ev i) (ef i)
  else if axis =? 2 then mk (eh i) (ex i) (ey i) (ev i) (ef i + 1)
  else mk (eh i) 0 (ey i) (ev i) (ef i).
Definition neighbour_ok (axis : Z) (i : eid) : bool :=
  (0 <=? axis) && (axis <=? 3) && (if axis =? 3 then ex i =? 2 ^ eh i - 1 else true).
