(* I64.v — Go's int64 arithmetic made explicit: the vocabulary of generated/Generated64.v (written by the translator in its int64 mode).
   A computation is [M A = option (A * bool)]: [None] = the Go program panics at run time (negative shift count, division by zero);
   [Some (a, e)] = it returns a, and e says that no operation so far has left the int64 range (every intermediate equals its mathematical
   value). Values are always inside the range (wrapped two's complement). The definitions of [i64 w64 M ret bind ex] are, on purpose,
   the ones of AltKey.v (C12's hand-written int64 model), so that the two are convertible.

   Trusted (Go specification + amd64, checked by running Go on this machine, not proved):
   - + - * and unary - wrap modulo 2^64; x / y truncates, MinInt64 / -1 wraps to MinInt64, x % y has the sign of x; y = 0 panics;
   - x << s, x >> s with a signed count: s < 0 panics; s >= 64 gives 0, resp. -1 or 0 (the sign); with the count written uint64(s) a negative s is
     the count 2^64 + s: no panic, result as for s >= 64;
   - int64(math.Pow(2, float64(e))) = 2^e for 0 <= e <= 62, 0 for e < 0, and MinInt64 for every e >= 63 (amd64's CVTTSD2SQ answers
     0x8000000000000000 for a value outside the range, +Inf included); the same after math.Abs of the exponent (Abs(float64(MinInt64)) = 2^63). *)
From Coq Require Import ZArith Bool Lia.
Open Scope Z_scope.

Definition i64 (x : Z) : bool := (- 2 ^ 63 <=? x) && (x <? 2 ^ 63).
Definition w64 (x : Z) : Z := (x + 2 ^ 63) mod 2 ^ 64 - 2 ^ 63.

Definition M (A : Type) : Type := option (A * bool).
Definition ret {A} (a : A) : M A := Some (a, true).
Definition bind {A B} (m : M A) (k : A -> M B) : M B :=
  match m with
  | None => None
  | Some (a, e) => match k a with None => None | Some (b, e') => Some (b, e && e') end
  end.
Notation "x <- m ;; k" := (bind m (fun x => k)) (at level 61, m at next level, right associativity).
Notation "' p <- m ;; k" := (bind m (fun p => k)) (at level 61, p pattern, m at next level, right associativity).

(* the int64 result of an operation whose mathematical result is x *)
Definition ex (x : Z) : M Z := Some (w64 x, i64 x).

Definition add64 (a b : Z) : M Z := ex (a + b).
Definition sub64 (a b : Z) : M Z := ex (a - b).
Definition mul64 (a b : Z) : M Z := ex (a * b).
Definition neg64 (a : Z) : M Z := ex (- a).
(* x << s: the bits shifted out are lost; exact iff nothing but sign copies is lost *)
Definition shl64 (a s : Z) : M Z :=
  if s <? 0 then None else if 64 <=? s then Some (0, a =? 0) else ex (a * 2 ^ s).
(* x >> s (arithmetic): always the mathematical floor(x / 2^s) *)
Definition shr64 (a s : Z) : M Z :=
  if s <? 0 then None else if 64 <=? s then Some ((if a <? 0 then -1 else 0), i64 a) else ret (a / 2 ^ s).
(* the count wrapped in uint64(..): a negative s is the count 2^64 + s >= 64, no panic; the unbounded kernel (which drops the conversion)
   says something else there, so the flag is off *)
Definition shl64u (a s : Z) : M Z := if s <? 0 then Some (0, false) else shl64 a s.
Definition shr64u (a s : Z) : M Z := if s <? 0 then Some ((if a <? 0 then -1 else 0), false) else shr64 a s.
Definition quot64 (a b : Z) : M Z := if b =? 0 then None else ex (Z.quot a b).
Definition rem64 (a b : Z) : M Z := if b =? 0 then None else ret (Z.rem a b).
(* int64(math.Pow(2, float64(e))) and int64(math.Pow(2, math.Abs(float64(e)))) *)
Definition pow2_64 (e : Z) : M Z := if e <? 63 then ret (2 ^ e) else Some (- 2 ^ 63, false).
Definition pow2abs_64 (e : Z) : M Z := pow2_64 (Z.abs e).
(* && and || evaluate their right operand only when needed *)
Definition and64 (a : bool) (mb : M bool) : M bool := if a then mb else ret false.
Definition or64 (a : bool) (mb : M bool) : M bool := if a then ret true else mb.

(* what Go returns (None = panic) and whether it is the mathematical result *)
Definition go_value {A} (m : M A) : option A := match m with Some (a, _) => Some a | None => None end.
Definition fits {A} (m : M A) : bool := match m with Some (_, e) => e | None => false end.

(* ---- range ---- *)
Lemma i64_spec x : i64 x = true <-> - 2 ^ 63 <= x < 2 ^ 63.
Proof. unfold i64. rewrite andb_true_iff, Z.leb_le, Z.ltb_lt. tauto. Qed.
Lemma w64_id x : i64 x = true -> w64 x = x.
Proof. rewrite i64_spec. intros H. unfold w64. rewrite Z.mod_small; lia. Qed.
Lemma w64_i64 x : i64 (w64 x) = true.
Proof. apply i64_spec. unfold w64. pose proof (Z.mod_pos_bound (x + 2 ^ 63) (2 ^ 64) ltac:(lia)). lia. Qed.
Lemma w64_w64 x : w64 (w64 x) = w64 x.
Proof. apply w64_id, w64_i64. Qed.
(* wrapping is a ring morphism modulo 2^64: the operands of + - * may be wrapped or not *)
Lemma w64_mod x : (w64 x) mod 2 ^ 64 = x mod 2 ^ 64.
Proof.
  unfold w64. replace ((x + 2 ^ 63) mod 2 ^ 64 - 2 ^ 63) with ((x + 2 ^ 63) mod 2 ^ 64 + (- 2 ^ 63)) by ring.
  rewrite Zplus_mod_idemp_l. f_equal. ring.
Qed.
Lemma w64_eq_mod x y : x mod 2 ^ 64 = y mod 2 ^ 64 -> w64 x = w64 y.
Proof. intros H. unfold w64. f_equal. rewrite <- (Zplus_mod_idemp_l x), <- (Zplus_mod_idemp_l y), H. reflexivity. Qed.
Lemma w64_mul_l x y : w64 (w64 x * y) = w64 (x * y).
Proof. apply w64_eq_mod. rewrite <- Zmult_mod_idemp_l, w64_mod, Zmult_mod_idemp_l. reflexivity. Qed.
Lemma w64_mul_r x y : w64 (x * w64 y) = w64 (x * y).
Proof. rewrite (Z.mul_comm x), w64_mul_l, Z.mul_comm. reflexivity. Qed.
Lemma w64_add_l x y : w64 (w64 x + y) = w64 (x + y).
Proof. apply w64_eq_mod. rewrite <- Zplus_mod_idemp_l, w64_mod, Zplus_mod_idemp_l. reflexivity. Qed.
Lemma w64_add_r x y : w64 (x + w64 y) = w64 (x + y).
Proof. rewrite (Z.add_comm x), w64_add_l, Z.add_comm. reflexivity. Qed.

(* ---- the monad ---- *)
Lemma bind_ret_l {A B} (a : A) (k : A -> M B) : bind (ret a) k = k a.
Proof. unfold bind, ret. destruct (k a) as [[b e]|]; reflexivity. Qed.
Lemma bind_ret_r {A} (m : M A) : bind m ret = m.
Proof. destruct m as [[a e]|]; cbn; [rewrite andb_true_r|]; reflexivity. Qed.
Lemma bind_assoc {A B C} (m : M A) (f : A -> M B) (g : B -> M C) : bind (bind m f) g = bind m (fun a => bind (f a) g).
Proof.
  destruct m as [[a e]|]; cbn; [|reflexivity]. destruct (f a) as [[b e']|]; cbn; [|reflexivity].
  destruct (g b) as [[c e'']|]; cbn; [rewrite andb_assoc|]; reflexivity.
Qed.
Lemma bind_ok {A B} (m : M A) (k : A -> M B) a : m = Some (a, true) -> bind m k = k a.
Proof. intros ->. apply bind_ret_l. Qed.

(* ---- with the flag set, every operation is the unbounded one (Generated.v's vocabulary) ---- *)
Lemma bind_inv {A B} (m : M A) (k : A -> M B) b : bind m k = Some (b, true) -> exists a, m = Some (a, true) /\ k a = Some (b, true).
Proof.
  unfold bind. destruct m as [[a e]|]; [|discriminate]. destruct (k a) as [[b' e']|] eqn:Hk; [|discriminate].
  intros H. injection H as -> H. apply andb_true_iff in H. destruct H as [-> ->]. exists a. split; [reflexivity|exact Hk].
Qed.
Lemma ret_inv {A} (a b : A) : ret a = Some (b, true) -> b = a.
Proof. unfold ret. intros H. now injection H. Qed.
Lemma ex_inv x v : ex x = Some (v, true) -> v = x.
Proof. unfold ex. intros H. injection H as <- H. now apply w64_id. Qed.
Lemma add64_inv a b v : add64 a b = Some (v, true) -> v = Z.add a b. Proof. apply ex_inv. Qed.
Lemma sub64_inv a b v : sub64 a b = Some (v, true) -> v = Z.sub a b. Proof. apply ex_inv. Qed.
Lemma mul64_inv a b v : mul64 a b = Some (v, true) -> v = Z.mul a b. Proof. apply ex_inv. Qed.
Lemma neg64_inv a v : neg64 a = Some (v, true) -> v = Z.opp a. Proof. apply ex_inv. Qed.
Lemma shl64_inv a s v : shl64 a s = Some (v, true) -> v = Z.shiftl a s.
Proof.
  unfold shl64. destruct (Z.ltb_spec s 0); [discriminate|]. destruct (Z.leb_spec 64 s).
  - intros H'. injection H' as <- H'. apply Z.eqb_eq in H'. subst. now rewrite Z.shiftl_0_l.
  - intros H'. apply ex_inv in H'. subst. now rewrite Z.shiftl_mul_pow2.
Qed.
Lemma div_pow_big i n : i64 i = true -> 64 <= n -> i / 2 ^ n = if i <? 0 then -1 else 0.
Proof.
  rewrite i64_spec. intros Hi Hn. assert (Hp : 2 ^ 64 <= 2 ^ n) by (apply Z.pow_le_mono_r; lia).
  assert (2 ^ 63 < 2 ^ 64) by (apply Z.pow_lt_mono_r; lia).
  destruct (Z.ltb_spec i 0).
  - symmetry. apply Z.div_unique with (r := i + 2 ^ n); lia.
  - apply Z.div_small. lia.
Qed.
Lemma shr64_inv a s v : shr64 a s = Some (v, true) -> v = Z.shiftr a s.
Proof.
  unfold shr64. destruct (Z.ltb_spec s 0); [discriminate|]. rewrite Z.shiftr_div_pow2 by lia. destruct (Z.leb_spec 64 s).
  - intros H'. injection H' as <- H'. symmetry. now apply div_pow_big.
  - intros H'. apply ret_inv in H'. now subst.
Qed.
Lemma shl64u_inv a s v : shl64u a s = Some (v, true) -> v = Z.shiftl a s.
Proof. unfold shl64u. destruct (s <? 0); [discriminate|apply shl64_inv]. Qed.
Lemma shr64u_inv a s v : shr64u a s = Some (v, true) -> v = Z.shiftr a s.
Proof. unfold shr64u. destruct (s <? 0); [discriminate|apply shr64_inv]. Qed.
Lemma quot64_inv a b v : quot64 a b = Some (v, true) -> v = Z.quot a b.
Proof. unfold quot64. destruct (b =? 0); [discriminate|]. apply ex_inv. Qed.
Lemma rem64_inv a b v : rem64 a b = Some (v, true) -> v = Z.rem a b.
Proof. unfold rem64. destruct (b =? 0); [discriminate|]. apply ret_inv. Qed.
Lemma pow2_64_inv e v : pow2_64 e = Some (v, true) -> v = Z.pow 2 e.
Proof. unfold pow2_64. destruct (e <? 63); [apply ret_inv|discriminate]. Qed.
Lemma pow2abs_64_inv e v : pow2abs_64 e = Some (v, true) -> v = Z.pow 2 (Z.abs e).
Proof. apply pow2_64_inv. Qed.
Lemma and64_inv a mb v : and64 a mb = Some (v, true) -> (a = true /\ mb = Some (v, true)) \/ (a = false /\ v = false).
Proof. unfold and64. destruct a; [left|right; apply ret_inv in H]; auto. Qed.
Lemma or64_inv a mb v : or64 a mb = Some (v, true) -> (a = false /\ mb = Some (v, true)) \/ (a = true /\ v = true).
Proof. unfold or64. destruct a; [right; apply ret_inv in H|left]; auto. Qed.

(* ---- and where the mathematical result is in range, the operation is exact (for the [fits] lemmas) ---- *)
Lemma ex_ok x : - 2 ^ 63 <= x < 2 ^ 63 -> ex x = Some (x, true).
Proof. intros H. apply i64_spec in H. unfold ex. now rewrite H, w64_id. Qed.
Lemma add64_ok a b : - 2 ^ 63 <= a + b < 2 ^ 63 -> add64 a b = ret (a + b). Proof. apply ex_ok. Qed.
Lemma sub64_ok a b : - 2 ^ 63 <= a - b < 2 ^ 63 -> sub64 a b = ret (a - b). Proof. apply ex_ok. Qed.
Lemma mul64_ok a b : - 2 ^ 63 <= a * b < 2 ^ 63 -> mul64 a b = ret (a * b). Proof. apply ex_ok. Qed.
Lemma neg64_ok a : - 2 ^ 63 < a <= 2 ^ 63 -> neg64 a = ret (- a). Proof. intros H. apply ex_ok. lia. Qed.
Lemma shl64_ok a s : 0 <= s < 64 -> - 2 ^ 63 <= a * 2 ^ s < 2 ^ 63 -> shl64 a s = ret (Z.shiftl a s).
Proof.
  intros Hs H. unfold shl64. destruct (Z.ltb_spec s 0); [lia|]. destruct (Z.leb_spec 64 s); [lia|].
  rewrite Z.shiftl_mul_pow2 by lia. now apply ex_ok.
Qed.
Lemma shr64_ok a s : 0 <= s < 64 -> shr64 a s = ret (Z.shiftr a s).
Proof.
  intros Hs. unfold shr64. destruct (Z.ltb_spec s 0); [lia|]. destruct (Z.leb_spec 64 s); [lia|].
  now rewrite Z.shiftr_div_pow2 by lia.
Qed.
Lemma shr64u_ok a s : 0 <= s < 64 -> shr64u a s = ret (Z.shiftr a s).
Proof. intros Hs. unfold shr64u. destruct (Z.ltb_spec s 0); [lia|now apply shr64_ok]. Qed.
Lemma shl64u_ok a s : 0 <= s < 64 -> - 2 ^ 63 <= a * 2 ^ s < 2 ^ 63 -> shl64u a s = ret (Z.shiftl a s).
Proof. intros Hs H. unfold shl64u. destruct (Z.ltb_spec s 0); [lia|now apply shl64_ok]. Qed.
Lemma quot64_ok a b : b <> 0 -> - 2 ^ 63 <= Z.quot a b < 2 ^ 63 -> quot64 a b = ret (Z.quot a b).
Proof. intros Hb H. unfold quot64. destruct (Z.eqb_spec b 0); [contradiction|]. now apply ex_ok. Qed.
Lemma pow2_64_ok e : e <= 62 -> pow2_64 e = ret (2 ^ e).
Proof. intros H. unfold pow2_64. destruct (Z.ltb_spec e 63); [reflexivity|lia]. Qed.
Lemma pow2abs_64_ok e : - 62 <= e <= 62 -> pow2abs_64 e = ret (2 ^ Z.abs e).
Proof. intros H. apply pow2_64_ok. lia. Qed.

Lemma fits_exact {A} (m : M A) : fits m = true -> exists a, m = Some (a, true).
Proof. destruct m as [[a []]|]; cbn; try discriminate. eauto. Qed.
