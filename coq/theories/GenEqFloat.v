(* GenEqFloat.v — the float64 kernels regenerated from the Go source (generated/GeneratedF.v) equal the hand-written binary64 models, split by
   kernel so that an edit of one Go kernel breaks only the lemmas (and the property files) that depend on it:
   GenFTac (tactic, commutativity of + and * ), GenEqFPoint (point -> index, Point.SetLon/SetLat), GenEqFVertex (voxel -> corners),
   GenEqFBit (bit-form altitudes), GenEqFShift (GetShiftingSpatialID's last index). *)
From SID Require Export GenFTac GenEqFPoint GenEqFVertex GenEqFBit GenEqFShift.
