(* Cases.v — second evaluator (DESIGN.md 4.4): the same cases the extracted OCaml model judged are evaluated again by vm_compute inside Coq.
   A case carries the oracle answers that were given during the run (the Go code's own answers), so the evaluation is closed. *)
From Coq Require Import ZArith String List Bool Floats Ascii.
From SID Require Import Wire Dispatch.
Import ListNotations.

(* float from its IEEE-754 fields: kind 0 = zero, 1 = finite (mantissa m > 0, exponent e: value m * 2^e), 2 = infinity, 3 = NaN *)
Definition fb (kind : Z) (neg : bool) (m e : Z) : float :=
  match kind with
  | 0%Z => SF2Prim (S754_zero neg)
  | 1%Z => match m with Zpos p => SF2Prim (S754_finite neg p e) | _ => nan end
  | 2%Z => SF2Prim (S754_infinity neg)
  | _ => nan
  end.
(* string from its bytes *)
Fixpoint sb (l : list N) : string :=
  match l with [] => EmptyString | b :: r => String (ascii_of_N b) (sb r) end.

Definition feq (a b : float) : bool :=
  match Prim2SF a, Prim2SF b with
  | S754_zero s, S754_zero t => Bool.eqb s t
  | S754_infinity s, S754_infinity t => Bool.eqb s t
  | S754_nan, S754_nan => true
  | S754_finite s m e, S754_finite t n f => Bool.eqb s t && Pos.eqb m n && Z.eqb e f
  | _, _ => false
  end.
Fixpoint val_eqb (a b : val) {struct a} : bool :=
  match a, b with
  | VZ x, VZ y => Z.eqb x y
  | VS x, VS y => String.eqb x y
  | VF x, VF y => feq x y
  | VB x, VB y => Bool.eqb x y
  | VL x, VL y => (fix go (l k : list val) : bool :=
                     match l, k with
                     | [], [] => true
                     | p :: l', q :: k' => val_eqb p q && go l' k'
                     | _, _ => false
                     end) x y
  | VE x, VE y => val_eqb x y
  | VNil, VNil => true
  | VPanic, VPanic => true
  | VTimeout, VTimeout => true
  | _, _ => false
  end.

Record qa := { q_name : string; q_args : list val; q_ans : val }.
Definition oracle_of (log : list qa) : oracle_t :=
  fun name args =>
    match find (fun e => String.eqb (q_name e) name && val_eqb (VL (q_args e)) (VL args)) log with
    | Some e => q_ans e
    | None => VPanic
    end.

Record case := { c_id : Z; c_prop : string; c_fn : string; c_args : list val; c_obs : val; c_log : list qa;
                 c_corr : bool; c_pr : bool; c_class : string }.

(* ids of the cases on which the kernel's evaluation of the model disagrees with what the extracted code answered *)
Definition mismatches (cs : list case) : list Z :=
  flat_map (fun c =>
    let v := dispatch (oracle_of (c_log c)) (c_prop c) (c_fn c) (c_args c) (c_obs c) in
    if Bool.eqb (v_corr v) (c_corr c) && Bool.eqb (v_prop v) (c_pr c) && String.eqb (v_class v) (c_class c) then [] else [c_id c]) cs.
