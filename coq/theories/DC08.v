(* DC08.v — dispatch entries of property C08: (arguments, observed output) ↦ verdict.
   corr = the executable model's output equals the implementation's observed output on the projected observables:
          Get6/8/26: the exact list (the Go loop order is fixed, the model enumerates in that order);
          GetN: the set of members + their number (Go map order in Unique is unspecified), the error flag, and that nothing but
                a nil/empty list accompanies an error;
   prop = the property's boolean checker (NeighbourChk.check_fixed3 / check_N3, proved sound there) on the observed output.
   Outside the domain (IDs that parse but are not valid — e.g. "-1/0/0/0/0", on which the library does not return; layer counts beyond the
   capacity bound; non-canonical spellings in the symmetry entries) the entries answer bad_case: never a silent pass; not generated. *)
From Coq Require Import ZArith String List Bool.
From SID Require Import Base Str Ids Wire Shift Neighbour NeighbourChk.
Import ListNotations.
Open Scope string_scope.

Definition corr_set (m o : list string) : bool := set_eq m o && Nat.eqb (List.length m) (List.length o).
Definition of_opt_bool (corr : bool) (p : option bool) (m : val) : verdict :=
  match p with Some b => mkv corr b "-" m | None => bad_case end.

(* Get6spatialIdsAdjacentToFaces / Get8spatialIdsAroundHorizontal / Get26spatialIdsAroundVoxel: no error result *)
Definition d_fixed (model : string -> list string) (offs : list off) (args : list val) (obs : val) : verdict :=
  match args, as_LS obs with
  | [VS id], Some o =>
      let m := model id in
      of_opt_bool (same_list m o) (check_fixed3 offs id o) (of_LS m)
  | _, _ => bad_case
  end.

(* GetNspatialIdsAroundVoxcels: (list, error).  Observed: error flag + the list that came with it. *)
Definition obs_result (obs : val) : option (bool * list string) :=
  match obs with
  | VE p => match as_LS p with Some l => Some (true, l) | None => None end
  | _ => match as_LS obs with Some l => Some (false, l) | None => None end
  end.
Definition res_val (r : result (list string)) : val := match r with Ok l => of_LS l | Err => VE VNil end.
Definition corr_res (m : result (list string)) (err : bool) (o : list string) : bool :=
  match m with
  | Ok a => negb err && corr_set a o
  | Err => err && match o with [] => true | _ => false end
  end.
Definition d_N (args : list val) (obs : val) : verdict :=
  match args with
  | [ids; VZ H; VZ V] =>
      match as_LS ids, obs_result obs with
      | Some l, Some (err, o) =>
          match check_N3 l H V err o with
          | Some p => let m := nN_api l H V in mkv (corr_res m err o) p "-" (res_val m)
          | None => bad_case
          end
      | _, _ => bad_case
      end
  | _ => bad_case
  end.

(* symmetry, observed on the implementation: the members j of nb(id) with id not in nb(j); must be empty.
   Only canonical valid IDs (members are compared with the input string). *)
Definition sym_dom (id : string) : bool :=
  match parse_eid id with Some i => validb i && String.eqb (print_eid i) id | None => false end.
Definition check_sym (o : list string) : bool := match o with [] => true | _ => false end.
Definition d_sym (nb : string -> list string) (args : list val) (obs : val) : verdict :=
  match args, as_LS obs with
  | [VS id], Some o =>
      if sym_dom id then let m := asym nb id in mkv (same_list m o) (check_sym o) "-" (of_LS m) else bad_case
  | _, _ => bad_case
  end.
Definition d_symN (args : list val) (obs : val) : verdict :=
  match args, as_LS obs with
  | [VS id; VZ H; VZ V], Some o =>
      if sym_dom id && capacity_okb H V && (capacity H V <=? 729)%Z
      then let m := asym (nN1 H V) id in mkv (corr_set m o) (check_sym o) "-" (of_LS m)
      else bad_case
  | _, _ => bad_case
  end.

Definition table_C08 : table :=
  [("Get6spatialIdsAdjacentToFaces", fun _ => d_fixed n6_api offs6);
   ("Get8spatialIdsAroundHorizontal", fun _ => d_fixed n8_api offs8);
   ("Get26spatialIdsAroundVoxel", fun _ => d_fixed n26_api offs26);
   ("GetNspatialIdsAroundVoxcels", fun _ => d_N);
   ("Sym6", fun _ => d_sym n6_api);
   ("Sym8", fun _ => d_sym n8_api);
   ("Sym26", fun _ => d_sym n26_api);
   ("SymN", fun _ => d_symN)].
