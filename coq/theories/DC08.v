(* DC08.v — dispatch entries of property C08: (arguments, observed output) ↦ verdict.
   corr = the executable model's output equals the implementation's observed output on the projected observables
          (ID lists as sets + number of members; error as a flag);
   prop = the property's boolean checker (Neighbour.check_fixed / check_N, proved sound there) accepts the observed output. *)
From Coq Require Import ZArith String List Bool.
From SID Require Import Base Str Ids Wire Shift Neighbour.
Import ListNotations.
Open Scope string_scope.

Definition corr_list (m o : list string) : bool := set_eq m o && Nat.eqb (List.length m) (List.length o).

(* Get6spatialIdsAdjacentToFaces / Get8spatialIdsAroundHorizontal / Get26spatialIdsAroundVoxel: no error result *)
Definition d_fixed (model : string -> list string) (offs : list off) (args : list val) (obs : val) : verdict :=
  match args, as_LS obs with
  | [VS id], Some o =>
      let m := model id in
      mkv (corr_list m o) (check_fixed offs id o) "-" (of_LS m)
  | _, _ => bad_case
  end.

(* GetNspatialIdsAroundVoxcels: (list, error) *)
Definition obs_result (obs : val) : option (result (list string)) :=
  match obs with
  | VE _ => Some Err
  | _ => match as_LS obs with Some l => Some (Ok l) | None => None end
  end.
Definition res_val (r : result (list string)) : val := match r with Ok l => of_LS l | Err => VE VNil end.
Definition corr_res (m o : result (list string)) : bool :=
  match m, o with
  | Ok a, Ok b => corr_list a b
  | Err, Err => true
  | _, _ => false
  end.
Definition d_N (args : list val) (obs : val) : verdict :=
  match args with
  | [ids; VZ H; VZ V] =>
      match as_LS ids, obs_result obs with
      | Some l, Some o =>
          let m := nN_api l H V in
          mkv (corr_res m o) (check_N l H V o) "-" (res_val m)
      | _, _ => bad_case
      end
  | _ => bad_case
  end.

(* symmetry, observed on the implementation: the members j of nb(id) with id not in nb(j); must be empty for a valid ID *)
Definition check_sym (id : string) (o : list string) : bool :=
  match parse_eid id with
  | Some i => if validb i then match o with [] => true | _ => false end else true
  | None => true
  end.
Definition d_sym (nb : string -> list string) (args : list val) (obs : val) : verdict :=
  match args, as_LS obs with
  | [VS id], Some o =>
      let m := asym nb id in
      mkv (corr_list m o) (check_sym id o) "-" (of_LS m)
  | _, _ => bad_case
  end.
Definition d_symN (args : list val) (obs : val) : verdict :=
  match args, as_LS obs with
  | [VS id; VZ H; VZ V], Some o =>
      let m := asym (nN1 H V) id in
      mkv (corr_list m o) (if (H <? 0)%Z || (V <? 0)%Z then true else check_sym id o) "-" (of_LS m)
  | _, _ => bad_case
  end.

(* the symmetry checker accepts exactly the empty list on valid IDs, which is what the theorems n*_asym_nil state of the model *)
Lemma check_sym_sound i o : valid i -> check_sym (print_eid i) o = true -> o = [].
Proof.
  intros Hv. unfold check_sym. rewrite parse_print_eid by now apply valid_fields_ok.
  rewrite (proj2 (validb_spec i) Hv). destruct o; [reflexivity|discriminate].
Qed.

Definition table_C08 : table :=
  [("Get6spatialIdsAdjacentToFaces", fun _ => d_fixed n6_api offs6);
   ("Get8spatialIdsAroundHorizontal", fun _ => d_fixed n8_api offs8);
   ("Get26spatialIdsAroundVoxel", fun _ => d_fixed n26_api offs26);
   ("GetNspatialIdsAroundVoxcels", fun _ => d_N);
   ("Sym6", fun _ => d_sym n6_api);
   ("Sym8", fun _ => d_sym n8_api);
   ("Sym26", fun _ => d_sym n26_api);
   ("SymN", fun _ => d_symN)].
