(* DC08.v — dispatch entries of property C08: (arguments, observed output) ↦ verdict.
   corr = the executable model's output equals the implementation's observed output on the projected observables:
          Get6/8/26: the exact list (the Go loop order is fixed, the model enumerates in that order);
          GetN: the set of members + their number (Go map order in Unique is unspecified), the error flag, and that nothing but
                a nil/empty list accompanies an error;
   prop = the property's boolean checker (NeighbourChk.check_fixed3 / check_N3, proved sound there) on the observed output.
   Outside the domain (IDs that parse but are not valid — e.g. "-1/0/0/0/0", on which the library does not return; layer counts beyond the
   capacity bound; non-canonical spellings in the symmetry entries) the entries answer bad_case: never a silent pass; not generated. *)
From Coq Require Import ZArith String List Bool.
From SID Require Import Base Str Ids Wire Shift Neighbour NeighbourChk.
Import ListNotations.
Open Scope string_scope.
Open Scope list_scope.

Definition corr_set (m o : list string) : bool := set_eq m o && Nat.eqb (List.length m) (List.length o).
Definition of_opt_bool (corr : bool) (p : option bool) (m : val) : verdict :=
  match p with Some b => mkv corr b "-" m | None => bad_case end.

(* Get6spatialIdsAdjacentToFaces / Get8spatialIdsAroundHorizontal / Get26spatialIdsAroundVoxel: no error result *)
Definition d_fixed (model : string -> list string) (offs : list off) (args : list val) (obs : val) : verdict :=
  match args, as_LS obs with
  | [VS id], Some o =>
      let m := model id in
      of_opt_bool (same_list m o) (check_fixed3 offs id o) (of_LS m)
  | _, _ => bad_case
  end.

(* GetNspatialIdsAroundVoxcels: (list, error).  Observed: error flag + the list that came with it. *)
Definition obs_result (obs : val) : option (bool * list string) :=
  match obs with
  | VE p => match as_LS p with Some l => Some (true, l) | None => None end
  | _ => match as_LS obs with Some l => Some (false, l) | None => None end
  end.
Definition res_val (r : result (list string)) : val := match r with Ok l => of_LS l | Err => VE VNil end.
Definition corr_res (m : result (list string)) (err : bool) (o : list string) : bool :=
  match m with
  | Ok a => negb err && corr_set a o
  | Err => err && match o with [] => true | _ => false end
  end.
Definition d_N (args : list val) (obs : val) : verdict :=
  match args with
  | [ids; VZ H; VZ V] =>
      match as_LS ids, obs_result obs with
      | Some l, Some (err, o) =>
          match check_N3 l H V err o with
          | Some p => let m := nN_api l H V in mkv (corr_res m err o) p "-" (res_val m)
          | None => bad_case
          end
      | _, _ => bad_case
      end
  | _ => bad_case
  end.

(* symmetry, observed on the implementation: the members j of nb(id) with id not in nb(j); must be empty.
   Only canonical valid IDs (members are compared with the input string). *)
Definition sym_dom (id : string) : bool :=
  match parse_eid id with Some i => validb i && String.eqb (print_eid i) id | None => false end.
Definition check_sym (o : list string) : bool := match o with [] => true | _ => false end.
Definition d_sym (nb : string -> list string) (args : list val) (obs : val) : verdict :=
  match args, as_LS obs with
  | [VS id], Some o =>
      if sym_dom id then let m := asym nb id in mkv (same_list m o) (check_sym o) "-" (of_LS m) else bad_case
  | _, _ => bad_case
  end.
Definition d_symN (args : list val) (obs : val) : verdict :=
  match args, as_LS obs with
  | [VS id; VZ H; VZ V], Some o =>
      if sym_dom id && capacity_okb H V && (capacity H V <=? 729)%Z
      then let m := asym (nN1 H V) id in mkv (corr_set m o) (check_sym o) "-" (of_LS m)
      else bad_case
  | _, _ => bad_case
  end.

(* ---- History entry --------------------------------------------------------------------------------------------------------------
   The property quantifies over every history of exported calls.  One case of this entry is a whole history, performed back to back by
   the invoker in one call (after a fixed unrelated priming prefix, so that a replay in a fresh process runs the same history):
     steps = list of  [fname; <arguments of the plain entry fname>; <caller-side options>]   with
       Get6/Get8/Get26 : [VS fname; VS id; VZ mut]                     mut <> 0: the caller overwrites the slice it was handed, after reading it
       GetN            : [VS fname; ids; VZ H; VZ V; VZ mut; VL over]  mut as above; over: strings the caller writes into ITS OWN argument
                                                                        slice after the call (element-wise)
       OwnParseAndMutate : [VS "OwnParseAndMutate"; VS id; VL ops]      the caller parses id itself (object.NewExtendedSpatialID) and mutates ITS
                                                                        OWN object: [SetX n] [SetY n] [SetZ n] [SetZoom h v] [ResetExtendedSpatialID s]
   observed = the list of the results in order (VNil for OwnParseAndMutate).  The models are pure functions of a step's own arguments, so
   every step is judged exactly like the standalone call of the plain entry (step_verdict / history_* theorems below): whatever the caller
   did to its own slices and objects, and whatever was asked before, cannot change what a call must return. *)
Definition plain_table : table :=
  [("Get6spatialIdsAdjacentToFaces", fun _ => d_fixed n6_api offs6);
   ("Get8spatialIdsAroundHorizontal", fun _ => d_fixed n8_api offs8);
   ("Get26spatialIdsAroundVoxel", fun _ => d_fixed n26_api offs26);
   ("GetNspatialIdsAroundVoxcels", fun _ => d_N)].
Definition no_oracle : oracle_t := fun _ _ => VNil.
Definition own_op_ok (v : val) : bool :=
  match v with
  | VL [VS name; VZ n] => existsb (String.eqb name) ["SetX"; "SetY"; "SetZ"] && int64_ok n
  | VL [VS name; VZ h; VZ v] => String.eqb name "SetZoom" && int64_ok h && int64_ok v
  | VL [VS name; VS _] => String.eqb name "ResetExtendedSpatialID"
  | _ => false
  end.
Definition all_strings (l : list val) : bool := forallb (fun v => match v with VS _ => true | _ => false end) l.
(* the plain call a step stands for: entry name and the arguments of that entry (caller-side options stripped); None = not a call *)
Definition step_plain (s : val) : option (string * list val) :=
  match s with
  | VL [VS fn; VS id; VZ _] =>
      if existsb (String.eqb fn) ["Get6spatialIdsAdjacentToFaces"; "Get8spatialIdsAroundHorizontal"; "Get26spatialIdsAroundVoxel"]
      then Some (fn, [VS id]) else None
  | VL [VS fn; ids; VZ H; VZ V; VZ _; VL over] =>
      if String.eqb fn "GetNspatialIdsAroundVoxcels" && all_strings over then Some (fn, [ids; VZ H; VZ V]) else None
  | _ => None
  end.
Definition is_own_step (s : val) : bool :=
  match s with
  | VL [VS fn; VS _; VL ops] => String.eqb fn "OwnParseAndMutate" && forallb own_op_ok ops
  | _ => false
  end.
Definition step_verdict (s o : val) : verdict :=
  match step_plain s with
  | Some (fn, a) => run_table plain_table no_oracle fn a o
  | None => if is_own_step s then match o with VNil => mkv true true "-" VNil | _ => bad_case end else bad_case
  end.
Fixpoint hist_verdicts (steps obs : list val) : option (list verdict) :=
  match steps, obs with
  | [], [] => Some []
  | s :: st, o :: ob => match hist_verdicts st ob with Some r => Some (step_verdict s o :: r) | None => None end
  | _, _ => None
  end.
Definition is_bad (v : verdict) : bool := negb (String.eqb (v_class v) "-").
Definition d_history (args : list val) (obs : val) : verdict :=
  match args, obs with
  | [VL steps], VL ob =>
      match hist_verdicts steps ob with
      | Some vs =>
          if existsb is_bad vs then bad_case
          else mkv (forallb v_corr vs) (forallb v_prop vs) "-" (VL (map v_model vs))
      | None => bad_case
      end
  | _, _ => bad_case
  end.

(* a step that stands for a call is judged by the plain entry on the call's own arguments, whatever the caller-side options *)
Theorem step_is_plain_call_fixed fn id mut o :
  existsb (String.eqb fn) ["Get6spatialIdsAdjacentToFaces"; "Get8spatialIdsAroundHorizontal"; "Get26spatialIdsAroundVoxel"] = true ->
  step_verdict (VL [VS fn; VS id; VZ mut]) o = run_table plain_table no_oracle fn [VS id] o.
Proof. intros H. unfold step_verdict, step_plain. now rewrite H. Qed.
Theorem step_is_plain_call_N ids H V mut over o : all_strings over = true ->
  step_verdict (VL [VS "GetNspatialIdsAroundVoxcels"; ids; VZ H; VZ V; VZ mut; VL over]) o = d_N [ids; VZ H; VZ V] o.
Proof.
  intros A. unfold step_verdict, step_plain.
  destruct ids; cbn [String.eqb Ascii.eqb Bool.eqb andb]; rewrite ?A; reflexivity.
Qed.
(* history independence: the verdict (and the expected answer) of a step does not depend on what precedes or follows it *)
Theorem history_independent pre post s opre opost o : List.length pre = List.length opre ->
  exists vpre, hist_verdicts pre opre = Some vpre /\
    forall vpost, hist_verdicts post opost = Some vpost ->
      hist_verdicts (pre ++ s :: post) (opre ++ o :: opost) = Some (vpre ++ step_verdict s o :: vpost).
Proof.
  revert opre. induction pre as [|a pre IH]; intros [|b opre] L; try discriminate.
  - exists []. split; [reflexivity|]. intros vpost E. cbn. now rewrite E.
  - injection L as L. destruct (IH opre L) as (vpre & E1 & E2).
    exists (step_verdict a b :: vpre). split; [cbn; now rewrite E1|].
    intros vpost E. cbn. now rewrite (E2 vpost E).
Qed.
(* a whole history passes exactly when every step passes as a standalone call *)
Theorem history_passes_iff steps ob vs : hist_verdicts steps ob = Some vs -> existsb is_bad vs = false ->
  (v_corr (d_history [VL steps] (VL ob)) = true /\ v_prop (d_history [VL steps] (VL ob)) = true <->
   forall v, In v vs -> v_corr v = true /\ v_prop v = true).
Proof.
  intros E B. unfold d_history. rewrite E, B. cbn [v_corr v_prop mkv]. rewrite !forallb_forall. split.
  - intros [A C] v Hv. auto.
  - intros H. split; intros v Hv; now apply H.
Qed.

Definition table_C08 : table :=
  [("Get6spatialIdsAdjacentToFaces", fun _ => d_fixed n6_api offs6);
   ("Get8spatialIdsAroundHorizontal", fun _ => d_fixed n8_api offs8);
   ("Get26spatialIdsAroundVoxel", fun _ => d_fixed n26_api offs26);
   ("GetNspatialIdsAroundVoxcels", fun _ => d_N);
   ("Sym6", fun _ => d_sym n6_api);
   ("Sym8", fun _ => d_sym n8_api);
   ("Sym26", fun _ => d_sym n26_api);
   ("SymN", fun _ => d_symN);
   ("History", fun _ => d_history)].
