(* Quat.v — real-number model of common/spatial/quat.go: RotateBetweenVector and QuatFromAxisAngle.
   rot q v = q v q* (Hamilton product; the formula of the commented-out Quat.TransformVec3).
   Proved: in the generic branch (1 + cos >= Minima) the result is a unit quaternion that carries unit(a) onto unit(b);
   in the fallback branch (1 + cos < Minima), with either of the two fallback axes, it is a unit quaternion that carries unit(a)
   onto -unit(a) — which is unit(b) exactly when b is opposite to a. Nearly-but-not-exactly opposite vectors also take the fallback
   branch and are therefore NOT carried onto b: `rotate_between_near_opposite_refuted` (finding class quat_near_opposite). *)
From Coq Require Import Reals Lra Psatz.
From SID Require Import Vec.
Open Scope R_scope.

Record quat := Q { qw : R; qx : R; qy : R; qz : R }.
Definition qnorm2 (q : quat) : R := qw q * qw q + qx q * qx q + qy q * qy q + qz q * qz q.
(* Hamilton product p * q *)
Definition qmul (p q : quat) : quat :=
  Q (qw p * qw q - qx p * qx q - qy p * qy q - qz p * qz q)
    (qw p * qx q + qx p * qw q + qy p * qz q - qz p * qy q)
    (qw p * qy q - qx p * qz q + qy p * qw q + qz p * qx q)
    (qw p * qz q + qx p * qy q - qy p * qx q + qz p * qw q).
Definition qconj (q : quat) : quat := Q (qw q) (- qx q) (- qy q) (- qz q).
Definition qvec (q : quat) : vec := V (qx q) (qy q) (qz q).
Definition qpure (v : vec) : quat := Q 0 (vx v) (vy v) (vz v).
Definition rot (q : quat) (v : vec) : vec := qvec (qmul (qmul q (qpure v)) (qconj q)).

(* consts.Minima *)
Definition minima : R := / 10 ^ 10.

Definition quat_from_axis_angle (axis : vec) (angle : R) : quat :=
  let u := vunit axis in
  let sh := sin (angle * (1 / 2)) in
  Q (cos (angle * (1 / 2))) (vx u * sh) (vy u * sh) (vz u * sh).

Definition rotate_between (a b : vec) : quat :=
  let su := vunit a in
  let eu := vunit b in
  let c := vcos su eu in
  let axis := vcross su eu in
  if Rlt_dec (c + 1) minima then
    let ax1 := vcross su (V 0 0 1) in
    let ax := if Rlt_dec (vnorm ax1) minima then vcross a (V 1 0 0) else ax1 in
    quat_from_axis_angle ax PI
  else
    let s := sqrt (2 * (1 + c)) in
    let inv := 1 / s in
    Q (s * (1 / 2)) (vx axis * inv) (vy axis * inv) (vz axis * inv).

(* q v q* = (w^2 - u.u) v + 2 (u.v) u + 2 w (u x v),  u = vector part of q *)
Lemma rot_formula q v :
  rot q v = vadd (vadd (vscale (qw q * qw q - vdot (qvec q) (qvec q)) v) (vscale (2 * vdot (qvec q) v) (qvec q)))
                 (vscale (2 * qw q) (vcross (qvec q) v)).
Proof. destruct q, v. apply vec_eq; unfold vdot; cbn; ring. Qed.
(* rotations preserve length (scaled by |q|^2) *)
Theorem rot_norm q v : vdot (rot q v) (rot q v) = qnorm2 q * qnorm2 q * vdot v v.
Proof. destruct q, v. unfold vdot, qnorm2; cbn. ring. Qed.
Theorem rot_linear q u v s : rot q (vadd (vscale s u) v) = vadd (vscale s (rot q u)) (rot q v).
Proof. destruct q, u, v. apply vec_eq; cbn; ring. Qed.

(* ---- generic branch ---- *)
Lemma generic_core a b s :
  vdot a a = 1 -> vdot b b = 1 -> 0 < s -> s * s = 2 * (1 + vdot a b) ->
  let x := vcross a b in
  let q := Q (s * (1 / 2)) (vx x * (1 / s)) (vy x * (1 / s)) (vz x * (1 / s)) in
  qnorm2 q = 1 /\ rot q a = b.
Proof.
  intros Ha Hb Hs S x q.
  set (c := vdot a b) in *.
  assert (Hc : 1 + c <> 0) by nra.
  assert (L : vdot x x = 1 - c * c) by (unfold x; rewrite lagrange, Ha, Hb; unfold c; ring).
  assert (U : qvec q = vscale (1 / s) x) by (apply vec_eq; cbn; ring).
  assert (UU : vdot (qvec q) (qvec q) = (1 - c) / 2).
  { rewrite U, vdot_scale_l, vdot_comm, vdot_scale_l, L.
    replace (1 / s * (1 / s * (1 - c * c))) with ((1 - c * c) / (s * s)) by (field; lra).
    rewrite S. field. exact Hc. }
  assert (WW : qw q * qw q = (1 + c) / 2).
  { cbn. replace (s * (1 / 2) * (s * (1 / 2))) with (s * s / 4) by field. rewrite S. field. }
  split.
  - replace (qnorm2 q) with (qw q * qw q + vdot (qvec q) (qvec q)) by (unfold qnorm2, vdot; cbn; ring).
    rewrite UU, WW. field.
  - rewrite rot_formula, UU, WW.
    assert (UA : vdot (qvec q) a = 0).
    { rewrite U, vdot_scale_l, vdot_comm. unfold x. rewrite vcross_perp_l. ring. }
    rewrite UA.
    assert (XA : vcross x a = vsub (vscale (vdot a a) b) (vscale c a)).
    { unfold x, c. destruct a, b. apply vec_eq; unfold vdot; cbn; ring. }
    rewrite U, vcross_scale_l, XA, Ha.
    destruct a as [a1 a2 a3], b as [b1 b2 b3]. apply vec_eq; cbn; field; lra.
Qed.

Lemma vcos_units a b : nonzero a -> nonzero b -> vcos (vunit a) (vunit b) = vdot (vunit a) (vunit b).
Proof. intros Ha Hb. apply vcos_unit; now apply vunit_vnorm. Qed.
Lemma minima_pos : 0 < minima.
Proof. unfold minima. apply Rinv_0_lt_compat. lra. Qed.

Theorem rotate_between_generic a b : nonzero a -> nonzero b -> minima <= 1 + vcos (vunit a) (vunit b) ->
  qnorm2 (rotate_between a b) = 1 /\ rot (rotate_between a b) (vunit a) = vunit b.
Proof.
  intros Ha Hb Hc. unfold rotate_between.
  destruct (Rlt_dec (vcos (vunit a) (vunit b) + 1) minima) as [Hlt|_]; [lra|].
  pose proof minima_pos as MP.
  rewrite (vcos_units a b Ha Hb) in *.
  apply generic_core.
  - now apply vunit_norm.
  - now apply vunit_norm.
  - apply sqrt_lt_R0. lra.
  - apply sqrt_sqrt. lra.
Qed.

(* ---- fallback branch: rotation by PI about a unit axis perpendicular to a ---- *)
Lemma half_turn_core a ax : vdot a a = 1 -> nonzero ax -> vdot ax a = 0 ->
  qnorm2 (quat_from_axis_angle ax PI) = 1 /\ rot (quat_from_axis_angle ax PI) a = vneg a.
Proof.
  intros Ha Hax Hp. unfold quat_from_axis_angle.
  replace (PI * (1 / 2)) with (PI / 2) by field. rewrite cos_PI2, sin_PI2.
  pose proof (vunit_norm ax Hax) as U1.
  set (u := vunit ax) in *.
  assert (UA : vdot u a = 0) by (unfold u, vunit; rewrite vdot_scale_l, Hp; ring).
  clearbody u.
  assert (QV : qvec (Q 0 (vx u * 1) (vy u * 1) (vz u * 1)) = u) by (destruct u; apply vec_eq; cbn; ring).
  split.
  - unfold qnorm2; cbn. unfold vdot in U1. transitivity (vx u * vx u + vy u * vy u + vz u * vz u); [ring|exact U1].
  - rewrite rot_formula, QV, UA, U1. destruct a, u. apply vec_eq; cbn; ring.
Qed.

(* the axis chosen by the code is never zero and is perpendicular to a: first choice unit(a) x e_z, second choice a x e_x *)
Lemma fallback_axis a : nonzero a ->
  let ax1 := vcross (vunit a) (V 0 0 1) in
  let ax := if Rlt_dec (vnorm ax1) minima then vcross a (V 1 0 0) else ax1 in
  nonzero ax /\ vdot ax (vunit a) = 0.
Proof.
  intros Ha ax1 ax. pose proof minima_pos as MP. pose proof (nonzero_norm a Ha) as N.
  pose proof (vunit_norm a Ha) as U1.
  unfold ax. destruct (Rlt_dec (vnorm ax1) minima) as [Hlt|Hge].
  - (* unit(a) is within 1e-10 of the z axis: use a x e_x *)
    split.
    + assert (S1 : vdot ax1 ax1 < 1).
      { rewrite <- vnorm_sq. pose proof (vnorm_nonneg ax1). assert (minima < 1) by (unfold minima; lra). nra. }
      assert (Z : vz (vunit a) <> 0).
      { intros Z0. unfold ax1, vdot in S1, U1; cbn in S1, U1. cbn in Z0. rewrite Z0 in *. nra. }
      apply dot_pos_nonzero. unfold vdot; cbn.
      assert (vz a <> 0). { intros E. apply Z. cbn. rewrite E. ring. }
      nra.
    + unfold vunit, vdot; cbn. field. lra.
  - split.
    + intros E. apply Hge. rewrite E, vnorm_sqrt. replace (vdot vzero vzero) with 0 by (unfold vdot, vzero; cbn; ring).
      rewrite sqrt_0. exact MP.
    + unfold ax1. rewrite vdot_comm. apply vcross_perp_l.
Qed.

Theorem rotate_between_fallback a b : nonzero a -> nonzero b -> 1 + vcos (vunit a) (vunit b) < minima ->
  qnorm2 (rotate_between a b) = 1 /\ rot (rotate_between a b) (vunit a) = vneg (vunit a).
Proof.
  intros Ha Hb Hc. unfold rotate_between.
  destruct (Rlt_dec (vcos (vunit a) (vunit b) + 1) minima) as [_|Hge]; [|lra].
  destruct (fallback_axis a Ha) as [H1 H2].
  apply half_turn_core; [now apply vunit_norm | exact H1 | exact H2].
Qed.

Theorem rotate_between_fallback_half_turn a b : nonzero a -> nonzero b -> 1 + vcos (vunit a) (vunit b) < minima ->
  rot (rotate_between a b) (vunit a) = vneg (vunit a).
Proof. intros Ha Hb Hc. exact (proj2 (rotate_between_fallback a b Ha Hb Hc)). Qed.

(* b opposite to a *)
Definition opposite (a b : vec) : Prop := exists k, 0 < k /\ b = vscale (- k) a.
Lemma opposite_unit a b : nonzero a -> opposite a b -> nonzero b /\ vunit b = vneg (vunit a).
Proof.
  intros Ha (k & Hk & ->). pose proof (nonzero_norm a Ha) as N.
  assert (E : vscale (- k) a = vscale k (vneg a)) by (destruct a; apply vec_eq; cbn; ring).
  assert (Hn : nonzero (vneg a)).
  { apply dot_pos_nonzero. replace (vdot (vneg a) (vneg a)) with (vdot a a) by (unfold vdot; cbn; ring). now apply nonzero_dot. }
  split.
  - rewrite E. apply dot_pos_nonzero. rewrite vdot_scale_l, vdot_comm, vdot_scale_l.
    pose proof (nonzero_dot _ Hn). apply Rmult_lt_0_compat; [lra|apply Rmult_lt_0_compat; lra].
  - rewrite E, vunit_scale by assumption. unfold vunit.
    replace (vnorm (vneg a)) with (vnorm a) by (rewrite !vnorm_sqrt; f_equal; unfold vdot; cbn; ring).
    destruct a; apply vec_eq; cbn; ring.
Qed.
Theorem rotate_between_opposite a b : nonzero a -> opposite a b ->
  qnorm2 (rotate_between a b) = 1 /\ rot (rotate_between a b) (vunit a) = vunit b.
Proof.
  intros Ha Ho. destruct (opposite_unit a b Ha Ho) as [Hb Hu]. rewrite Hu.
  apply rotate_between_fallback; [exact Ha | exact Hb |].
  rewrite (vcos_units a b Ha Hb), Hu.
  replace (vdot (vunit a) (vneg (vunit a))) with (- vdot (vunit a) (vunit a)) by (unfold vdot; cbn; ring).
  rewrite (vunit_norm a Ha). pose proof minima_pos. lra.
Qed.

(* the property on the part of the domain where the faithful model satisfies it *)
Theorem rotate_between_partial a b : nonzero a -> nonzero b ->
  minima <= 1 + vcos (vunit a) (vunit b) \/ opposite a b ->
  qnorm2 (rotate_between a b) = 1 /\ rot (rotate_between a b) (vunit a) = vunit b.
Proof.
  intros Ha Hb [H|H]; [now apply rotate_between_generic | now apply rotate_between_opposite].
Qed.
(* the quaternion is a unit for all non-zero arguments *)
Theorem rotate_between_unit a b : nonzero a -> nonzero b -> qnorm2 (rotate_between a b) = 1.
Proof.
  intros Ha Hb. destruct (Rlt_dec (1 + vcos (vunit a) (vunit b)) minima) as [H|H].
  - now apply rotate_between_fallback.
  - apply rotate_between_generic; [exact Ha|exact Hb|lra].
Qed.

(* ---- refutation on nearly opposite vectors: a = (1,0,0), b = (-(1-t^2), 2t, 0), t = 10^-6, |b| = 1+t^2 ---- *)
Definition wit_t : R := / 10 ^ 6.
Definition wit_a : vec := V 1 0 0.
Definition wit_b : vec := V (- (1 - wit_t * wit_t)) (2 * wit_t) 0.
Theorem rotate_between_near_opposite_refuted :
  exists a b, nonzero a /\ nonzero b /\ rot (rotate_between a b) (vunit a) <> vunit b.
Proof.
  exists wit_a, wit_b.
  assert (T : 0 < wit_t) by (unfold wit_t; apply Rinv_0_lt_compat; lra).
  assert (T6 : wit_t * 10 ^ 6 = 1) by (unfold wit_t; field).
  assert (T2 : wit_t * wit_t = / 10 ^ 12) by (unfold wit_t; field).
  assert (P12 : 0 < / 10 ^ 12) by (apply Rinv_0_lt_compat; lra).
  assert (Ha : nonzero wit_a) by (apply dot_pos_nonzero; unfold vdot, wit_a; cbn; lra).
  assert (Db : vdot wit_b wit_b = (1 + wit_t * wit_t) * (1 + wit_t * wit_t)) by (unfold vdot, wit_b; cbn; ring).
  assert (Hb : nonzero wit_b) by (apply dot_pos_nonzero; rewrite Db; nra).
  assert (Na : vnorm wit_a = 1).
  { rewrite vnorm_sqrt. replace (vdot wit_a wit_a) with 1 by (unfold vdot, wit_a; cbn; ring). apply sqrt_1. }
  assert (Nb : vnorm wit_b = 1 + wit_t * wit_t).
  { rewrite vnorm_sqrt, Db. apply sqrt_square. nra. }
  assert (Ua : vunit wit_a = wit_a).
  { unfold vunit. rewrite Na. unfold wit_a. apply vec_eq; cbn; field. }
  repeat split; [exact Ha | exact Hb |].
  assert (Hc : 1 + vcos (vunit wit_a) (vunit wit_b) < minima).
  { rewrite (vcos_units _ _ Ha Hb), Ua. unfold vunit. rewrite vdot_comm, vdot_scale_l, Nb.
    replace (vdot wit_b wit_a) with (- (1 - wit_t * wit_t)) by (unfold vdot, wit_a, wit_b; cbn; ring).
    replace (1 + 1 / (1 + wit_t * wit_t) * - (1 - wit_t * wit_t)) with (2 * (wit_t * wit_t) / (1 + wit_t * wit_t)) by (field; nra).
    unfold minima. apply Rlt_trans with (2 * (wit_t * wit_t)).
    - apply Rmult_lt_reg_r with (1 + wit_t * wit_t); [nra|].
      replace (2 * (wit_t * wit_t) / (1 + wit_t * wit_t) * (1 + wit_t * wit_t)) with (2 * (wit_t * wit_t)) by (field; nra). nra.
    - rewrite T2. replace (/ 10 ^ 10) with (100 * / 10 ^ 12) by field. lra. }
  destruct (rotate_between_fallback _ _ Ha Hb Hc) as [_ R]. rewrite R, Ua.
  intros E. apply (f_equal vy) in E. unfold vunit in E. rewrite Nb in E. cbn in E.
  assert (0 < 1 / (1 + wit_t * wit_t) * (2 * wit_t)).
  { apply Rmult_lt_0_compat; [|lra]. apply Rdiv_lt_0_compat; nra. }
  lra.
Qed.

(* non-vacuity of the generic disjunct of rotate_between_partial: perpendicular vectors *)
Example generic_case_inhabited :
  nonzero (V 1 0 0) /\ nonzero (V 0 1 0) /\ minima <= 1 + vcos (vunit (V 1 0 0)) (vunit (V 0 1 0)).
Proof.
  assert (Ha : nonzero (V 1 0 0)) by (apply dot_pos_nonzero; unfold vdot; cbn; lra).
  assert (Hb : nonzero (V 0 1 0)) by (apply dot_pos_nonzero; unfold vdot; cbn; lra).
  repeat split; [exact Ha|exact Hb|].
  rewrite (vcos_units _ _ Ha Hb). unfold vunit. rewrite vdot_scale_l, vdot_comm, vdot_scale_l.
  replace (vdot (V 0 1 0) (V 1 0 0)) with 0 by (unfold vdot; cbn; ring).
  assert (minima < 1) by (unfold minima; apply Rmult_lt_reg_r with (10 ^ 10); [lra|]; rewrite Rinv_l by lra; lra).
  lra.
Qed.
