(* Shift.v — operated.GetShiftingSpatialID: wrap loop model, closed form, modular algebra (C07) *)
From Coq Require Import ZArith Lia List Bool String.
From SID Require Import Base Str Ids.
Import ListNotations.
Open Scope Z_scope.
Ltac Zify.zify_post_hook ::= Z.div_mod_to_equations.

(* ---- faithful model of the horizontal wrap ---- *)
(* for s < 0 { s += w }  — fuel-bounded, then math.Mod(float64(s), w) (exact below 2^53) *)
Fixpoint addloop (fuel : nat) (s w : Z) : option Z :=
  match fuel with
  | O => None
  | S n => if s <? 0 then addloop n (s + w) w else Some s
  end.
Definition wrap_loop (fuel : nat) (i d w : Z) : option Z :=
  let s := i + d in
  if (w - 1 <? s) || (s <? 0)
  then option_map (fun t => Z.rem t w) (addloop fuel s w)
  else Some s.
(* executable closed form (a unary fuel of data-dependent size cannot be run) *)
Definition wrap (i d w : Z) : Z :=
  let s := i + d in
  if (w - 1 <? s) || (s <? 0) then s mod w else s.

Lemma addloop_spec fuel : forall s w t, 0 < w -> addloop fuel s w = Some t ->
  0 <= t /\ t mod w = s mod w.
Proof.
  induction fuel as [|n IH]; intros s w t Hw; cbn [addloop]; [discriminate|].
  destruct (Z.ltb_spec s 0).
  - intros H1. destruct (IH _ _ _ Hw H1) as [A B]. split; [exact A|].
    rewrite B. rewrite <- (Z.mod_add s 1 w) by lia. f_equal. lia.
  - intros [= <-]. split; [lia|reflexivity].
Qed.

(* the loop, whenever it terminates within the fuel, computes the closed form *)
Theorem wrap_loop_closed fuel i d w t : 0 < w -> wrap_loop fuel i d w = Some t -> t = wrap i d w.
Proof.
  intros Hw. unfold wrap_loop, wrap.
  destruct ((w - 1 <? i + d) || (i + d <? 0)) eqn:E.
  - destruct (addloop fuel (i + d) w) as [u|] eqn:A; [|discriminate]. intros [= <-].
    destruct (addloop_spec _ _ _ _ Hw A) as [U1 U2]. rewrite Z.rem_mod_nonneg by lia. exact U2.
  - intros [= <-]. reflexivity.
Qed.

Lemma wrap_mod i d w : 0 < w -> wrap i d w = (i + d) mod w.
Proof.
  intros Hw. unfold wrap. destruct ((w - 1 <? i + d) || (i + d <? 0)) eqn:E; [reflexivity|].
  apply orb_false_iff in E. destruct E as [E1 E2]. apply Z.ltb_ge in E1, E2.
  symmetry. apply Z.mod_small. lia.
Qed.

(* the loop needs ceil(-s/w) iterations: fuel bound, so the loop terminates for every input *)
Lemma addloop_fuel fuel : forall s w, 0 < w -> Z.max 0 ((- s) / w + 1) + 1 <= Z.of_nat fuel -> addloop fuel s w <> None.
Proof.
  induction fuel as [|n IH]; intros s w Hw Hf; cbn [addloop]; [lia|].
  destruct (Z.ltb_spec s 0); [|discriminate].
  apply IH; [exact Hw|]. rewrite Nat2Z.inj_succ in Hf.
  replace (- (s + w)) with (- s + (-1) * w) by lia. rewrite Z.div_add by lia.
  assert (0 <= - s / w) by (apply Z.div_pos; lia). lia.
Qed.
Theorem wrap_loop_terminates i d w : 0 < w -> exists fuel t, wrap_loop fuel i d w = Some t.
Proof.
  intros Hw. exists (Z.to_nat (Z.max 0 ((- (i + d)) / w + 1) + 1)). unfold wrap_loop.
  destruct ((w - 1 <? i + d) || (i + d <? 0)); [|eauto].
  destruct (addloop _ (i + d) w) as [u|] eqn:A; [cbn; eauto|].
  exfalso. revert A. apply addloop_fuel; [exact Hw|]. lia.
Qed.

(* ---- algebra of the modular shift (spec level) ---- *)
Definition sh (w i d : Z) : Z := (i + d) mod w.

Lemma sh_zero w i : 0 < w -> 0 <= i < w -> sh w i 0 = i.
Proof. intros. unfold sh. rewrite Z.add_0_r. apply Z.mod_small. lia. Qed.
Lemma sh_compose w i a b : 0 < w -> sh w (sh w i a) b = sh w i (a + b).
Proof. intros. unfold sh. rewrite Zplus_mod_idemp_l. f_equal. lia. Qed.
Lemma sh_range w i d : 0 < w -> 0 <= sh w i d < w.
Proof. intros. unfold sh. apply Z.mod_pos_bound. lia. Qed.
Lemma sh_inj w i a b : 0 < w -> Z.abs (a - b) < w -> sh w i a = sh w i b -> a = b.
Proof.
  unfold sh. intros Hw Hab E.
  assert (H : (a - b) mod w = 0).
  { replace (a - b) with ((i + a) - (i + b)) by lia. rewrite Zminus_mod, E, Z.sub_diag. apply Z.mod_0_l. lia. }
  apply Z.mod_divide in H; [|lia]. destruct H as [k Hk].
  assert (k = 0) by nia. subst k. lia.
Qed.

(* ---- the API function on records and on strings ---- *)
Definition shift_eid (i : eid) (dx dy dv : Z) : eid :=
  let w := 2 ^ eh i in
  {| eh := eh i; ex := wrap (ex i) dx w; ey := wrap (ey i) dy w; ev := ev i; ef := ef i + dv |}.
(* the specification: modular translation *)
Definition shift_spec (i : eid) (dx dy dv : Z) : eid :=
  let w := 2 ^ eh i in
  {| eh := eh i; ex := sh w (ex i) dx; ey := sh w (ey i) dy; ev := ev i; ef := ef i + dv |}.
(* operated.GetShiftingSpatialID: "" on a malformed ID *)
Definition shift_api (id : string) (dx dy dv : Z) : string :=
  match parse_eid id with
  | None => EmptyString
  | Some i => print_eid (shift_eid i dx dy dv)
  end.

Theorem shift_eid_spec i dx dy dv : 0 <= eh i -> shift_eid i dx dy dv = shift_spec i dx dy dv.
Proof.
  intros Hh. unfold shift_eid, shift_spec, sh. pose proof (pow2_pos _ Hh).
  cbv zeta. now rewrite !wrap_mod by assumption.
Qed.

Theorem shift_valid i dx dy dv : valid i -> - 2 ^ ev i <= ef i + dv < 2 ^ ev i -> valid (shift_spec i dx dy dv).
Proof.
  intros (Hh & Hv & Hx & Hy & Hf) Hdv. unfold valid, shift_spec; cbn.
  pose proof (pow2_pos (eh i) ltac:(lia)) as Hw.
  pose proof (sh_range (2 ^ eh i) (ex i) dx Hw). pose proof (sh_range (2 ^ eh i) (ey i) dy Hw). lia.
Qed.
(* horizontal components are always in range, whatever the vertical shift *)
Theorem shift_in_range i dx dy dv : 0 <= eh i ->
  0 <= ex (shift_spec i dx dy dv) < 2 ^ eh i /\ 0 <= ey (shift_spec i dx dy dv) < 2 ^ eh i /\
  eh (shift_spec i dx dy dv) = eh i /\ ev (shift_spec i dx dy dv) = ev i /\ ef (shift_spec i dx dy dv) = ef i + dv.
Proof.
  intros Hh. pose proof (pow2_pos _ Hh) as Hw. unfold shift_spec; cbn.
  pose proof (sh_range (2 ^ eh i) (ex i) dx Hw). pose proof (sh_range (2 ^ eh i) (ey i) dy Hw). lia.
Qed.
Theorem shift_zero i : valid i -> shift_spec i 0 0 0 = i.
Proof.
  intros (Hh & Hv & Hx & Hy & Hf). unfold shift_spec. pose proof (pow2_pos (eh i) ltac:(lia)) as Hw.
  cbv zeta. rewrite !sh_zero by assumption. rewrite Z.add_0_r. destruct i; reflexivity.
Qed.
Theorem shift_compose i a b c a' b' c' : 0 <= eh i ->
  shift_spec (shift_spec i a b c) a' b' c' = shift_spec i (a + a') (b + b') (c + c').
Proof.
  intros Hh. pose proof (pow2_pos _ Hh) as Hw. unfold shift_spec; cbn.
  rewrite !sh_compose by assumption. f_equal. lia.
Qed.
Theorem shift_inverse i a b c : valid i -> shift_spec (shift_spec i a b c) (- a) (- b) (- c) = i.
Proof.
  intros Hv. rewrite shift_compose by (destruct Hv; lia).
  replace (a + - a) with 0 by lia. replace (b + - b) with 0 by lia. replace (c + - c) with 0 by lia.
  now apply shift_zero.
Qed.

(* string level: on a printed valid ID the API returns the printed specification result *)
Theorem shift_api_spec i dx dy dv : valid i ->
  shift_api (print_eid i) dx dy dv = print_eid (shift_spec i dx dy dv).
Proof.
  intros Hv. unfold shift_api. rewrite parse_print_eid by now apply valid_fields_ok.
  rewrite shift_eid_spec by (destruct Hv; lia). reflexivity.
Qed.
Theorem shift_api_malformed s dx dy dv : parse_eid s = None -> shift_api s dx dy dv = EmptyString.
Proof. intros H. unfold shift_api. now rewrite H. Qed.

(* boolean checker used on the implementation's observed output *)
Definition check_shift (id : string) (dx dy dv : Z) (obs : string) : bool :=
  match parse_eid id with
  | None => String.eqb obs EmptyString
  | Some i => String.eqb obs (print_eid (shift_spec i dx dy dv))
  end.
Theorem check_shift_model id dx dy dv :
  (forall i, parse_eid id = Some i -> 0 <= eh i) -> check_shift id dx dy dv (shift_api id dx dy dv) = true.
Proof.
  intros Hh. unfold check_shift, shift_api. destruct (parse_eid id) as [i|] eqn:E.
  - rewrite shift_eid_spec by (apply Hh; reflexivity). apply String.eqb_refl.
  - reflexivity.
Qed.

(* ---- string-level laws between calls (what a user of the API observes) ---- *)
Definition vshift_ok (i : eid) (dv : Z) : Prop := - 2 ^ 63 <= ef i + dv < 2 ^ 63.

Lemma shift_spec_fields_ok i dx dy dv : valid i -> vshift_ok i dv -> fields_ok (shift_spec i dx dy dv) = true.
Proof.
  intros Hv Hdv. pose proof (valid_fields_ok i Hv) as F. destruct Hv as (Hh & Hvv & Hx & Hy & Hf).
  destruct (shift_in_range i dx dy dv ltac:(lia)) as (X & Y & E1 & E2 & E3).
  unfold fields_ok, int64_ok in *. rewrite E1, E2, E3.
  rewrite !andb_true_iff, !Z.leb_le, !Z.ltb_lt in *. unfold vshift_ok in Hdv.
  assert (2 ^ eh i <= 2 ^ 35) by (apply Z.pow_le_mono_r; lia).
  assert (2 ^ 35 < 2 ^ 63) by (apply Z.pow_lt_mono_r; lia). lia.
Qed.

Theorem shift_api_compose i a b c a' b' c' : valid i -> vshift_ok i c ->
  shift_api (shift_api (print_eid i) a b c) a' b' c' = shift_api (print_eid i) (a + a') (b + b') (c + c').
Proof.
  intros Hv Hc. rewrite (shift_api_spec i a b c Hv). unfold shift_api at 1.
  rewrite parse_print_eid by now apply shift_spec_fields_ok.
  rewrite shift_eid_spec by (cbn; destruct Hv; lia).
  rewrite shift_compose by (destruct Hv; lia).
  now rewrite shift_api_spec.
Qed.
Theorem shift_api_zero i : valid i -> shift_api (print_eid i) 0 0 0 = print_eid i.
Proof. intros Hv. rewrite shift_api_spec by assumption. now rewrite shift_zero. Qed.
Theorem shift_api_inverse i a b c : valid i -> vshift_ok i c ->
  shift_api (shift_api (print_eid i) a b c) (- a) (- b) (- c) = print_eid i.
Proof.
  intros Hv Hc. rewrite shift_api_compose by assumption.
  replace (a + - a) with 0 by lia. replace (b + - b) with 0 by lia. replace (c + - c) with 0 by lia.
  now apply shift_api_zero.
Qed.

Theorem check_shift_sound i dx dy dv obs : valid i ->
  check_shift (print_eid i) dx dy dv obs = true <-> obs = print_eid (shift_spec i dx dy dv).
Proof.
  intros Hv. unfold check_shift. rewrite parse_print_eid by now apply valid_fields_ok.
  apply String.eqb_eq.
Qed.
