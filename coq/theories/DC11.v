(* DC11.v — dispatch entries of property C11 (quadkeys): (arguments, observed output) ↦ verdict.
   corr = the executable model's output equals the implementation's observed output (projected observables: keys as integers;
          groups in order as (zooms, parameters, pair list as a set); ID lists as sets; error as a flag);
   prop = the property's boolean checker accepts the implementation's observed output. The checkers compute their references
          independently of the loop models (Z.testbit interleaving, value-level decoder, ZoomCore zoom change) and are proved
          equivalent to the Prop-level statements below. Outside the property's quantifier (malformed / invalid IDs, zooms outside
          1..31 x 0..35, keys >= 4^zoom) the checker accepts; the error flag is still compared with the model (corr). *)
From Coq Require Import ZArith Lia String List Bool Floats.
From SID Require Import Base Str Ids ZoomCore AltKeyCore Wire F64 Quadkey QuadkeyConv.
Import ListNotations.
Open Scope Z_scope.

(* ---------- boolean finite-set helpers with their specifications ---------- *)
Section BoolSets.
  Context {A : Type} (eqb : A -> A -> bool).
  Hypothesis eqb_spec : forall a b, reflect (a = b) (eqb a b).
  Definition inclb (a b : list A) : bool := forallb (fun x => memb eqb x b) a.
  Fixpoint nodup_b (l : list A) : bool := match l with [] => true | a :: r => negb (memb eqb a r) && nodup_b r end.
  Definition seteqb (a b : list A) : bool := inclb a b && inclb b a.
  Lemma inclb_spec a b : inclb a b = true <-> forall x, In x a -> In x b.
  Proof.
    unfold inclb. rewrite forallb_forall. split; intros H x Hx.
    - apply (memb_In eqb eqb_spec). now apply H.
    - apply (memb_In eqb eqb_spec). now apply H.
  Qed.
  Lemma nodup_b_spec l : nodup_b l = true <-> NoDup l.
  Proof.
    induction l as [|a r IH]; cbn [nodup_b]; [split; [constructor|reflexivity]|].
    rewrite andb_true_iff, negb_true_iff, IH. split.
    - intros [M N]. constructor; [|exact N]. rewrite <- (memb_In eqb eqb_spec). congruence.
    - intros N. inversion N as [|? ? Ha Hr]; subst. split; [|exact Hr].
      destruct (memb eqb a r) eqn:E; [|reflexivity]. apply (memb_In eqb eqb_spec) in E. contradiction.
  Qed.
  Lemma seteqb_spec a b : seteqb a b = true <-> forall x, In x a <-> In x b.
  Proof.
    unfold seteqb. rewrite andb_true_iff, !inclb_spec. split.
    - intros [H1 H2] x. split; auto.
    - intros H. split; intros x; apply H.
  Qed.
End BoolSets.

Definition str_seteqb := seteqb String.eqb.
Definition str_nodupb := nodup_b String.eqb.
Definition pair_seteqb := seteqb pair_eqb.
Definition pair_nodupb := nodup_b pair_eqb.

(* ====================================================================================================== *)
(* bit level *)
Definition key_domain (h x y : Z) : bool :=
  (1 <=? h) && (h <=? 31) && (0 <=? x) && (x <? 2 ^ h) && (0 <=? y) && (y <? 2 ^ h).
(* the key of tile (x, y) at zoom h: interleaving reference via Z.testbit, and the bound *)
Definition check_key (h x y key : Z) : bool :=
  if key_domain h x y then (key =? interleave h x y) && (0 <=? key) && (key <? 4 ^ h) else true.
(* the tile of key q at zoom z: inside the grid and with that key (the unique such tile) *)
Definition check_tile (q z x y : Z) : bool :=
  if (1 <=? z) && (z <=? 31) && (0 <=? q) && (q <? 4 ^ z)
  then (0 <=? x) && (x <? 2 ^ z) && (0 <=? y) && (y <? 2 ^ z) && (interleave z x y =? q) else true.
Definition check_rt (h x y key x' y' : Z) : bool :=
  if key_domain h x y then check_key h x y key && (x' =? x) && (y' =? y) else true.

Lemma key_domain_spec h x y : key_domain h x y = true <-> 1 <= h <= 31 /\ 0 <= x < 2 ^ h /\ 0 <= y < 2 ^ h.
Proof. unfold key_domain. rewrite !andb_true_iff, !Z.leb_le, !Z.ltb_lt. tauto. Qed.

Theorem check_key_sound h x y key : 1 <= h <= 31 -> 0 <= x < 2 ^ h -> 0 <= y < 2 ^ h ->
  check_key h x y key = true <-> key = interleave h x y /\ 0 <= key < 4 ^ h.
Proof.
  intros Hh Hx Hy. unfold check_key. rewrite (proj2 (key_domain_spec h x y)) by tauto.
  rewrite !andb_true_iff, Z.eqb_eq, Z.leb_le, Z.ltb_lt. tauto.
Qed.
(* the model's own output always passes: the code's loops compute the interleaving, inside the bound *)
Theorem check_key_model h x y : check_key h x y (encode h x y) = true.
Proof.
  unfold check_key. destruct (key_domain h x y) eqn:D; [|reflexivity]. apply key_domain_spec in D.
  rewrite !andb_true_iff, Z.eqb_eq, Z.leb_le, Z.ltb_lt.
  pose proof (encode_bound h x y ltac:(lia) ltac:(lia) ltac:(lia)). rewrite encode_interleave by lia. rewrite <- encode_interleave by lia. lia.
Qed.
Theorem check_tile_sound q z x y : 1 <= z <= 31 -> 0 <= q < 4 ^ z ->
  check_tile q z x y = true <-> (x, y) = decode q z.
Proof.
  intros Hz Hq. unfold check_tile.
  replace ((1 <=? z) && (z <=? 31) && (0 <=? q) && (q <? 4 ^ z)) with true
    by (symmetry; rewrite !andb_true_iff, !Z.leb_le, Z.ltb_lt; lia).
  rewrite !andb_true_iff, !Z.leb_le, !Z.ltb_lt, Z.eqb_eq.
  pose proof (encode_decode z q ltac:(lia) Hq) as D. destruct (decode q z) as [x0 y0]. destruct D as (E & Bx & By).
  split.
  - intros ((((A1 & A2) & A3) & A4) & A5). rewrite <- encode_interleave in A5 by lia. rewrite <- E in A5.
    apply encode_injective in A5; try lia. destruct A5; subst; reflexivity.
  - intros [= -> ->]. rewrite <- encode_interleave by lia. repeat split; lia.
Qed.
Theorem check_rt_sound h x y key x' y' : 1 <= h <= 31 -> 0 <= x < 2 ^ h -> 0 <= y < 2 ^ h ->
  check_rt h x y key x' y' = true <-> key = interleave h x y /\ 0 <= key < 4 ^ h /\ x' = x /\ y' = y.
Proof.
  intros Hh Hx Hy. unfold check_rt. rewrite (proj2 (key_domain_spec h x y)) by tauto.
  rewrite !andb_true_iff, !Z.eqb_eq, check_key_sound by assumption. tauto.
Qed.

(* ---------- size guards ----------
   The generators bound the output size of every call; the shrinker of the runner does not. A case whose output would be huge is not
   evaluated (bad-case: the runner then discards the shrink candidate; on a generated case it is reported as a model error, never silently). *)
Definition cost_limit : Z := 2000.
Definition small_zoom (z : Z) : bool := (-64 <=? z) && (z <=? 64).
(* number of IDs one ID expands to under (h, v) -> (oh, ov); None: absurdly many *)
Definition cost1 (h v oh ov : Z) : option Z :=
  let dh := Z.max 0 (oh - h) in
  let dv := Z.max 0 (ov - v) in
  if (dh <=? 8) && (dv <=? 16) then Some (4 ^ dh * 2 ^ dv) else None.
Fixpoint sum_cost (l : list (option Z)) : option Z :=
  match l with
  | [] => Some 0
  | Some c :: r => match sum_cost r with Some t => Some (c + t) | None => None end
  | None :: _ => None
  end.
Definition cost_ok (l : list (option Z)) : bool :=
  match sum_cost l with Some t => t <=? cost_limit | None => false end.
Definition ids_cost (ids : list string) (oh ov : Z) (mult : Z) : list (option Z) :=
  map (fun s => match parse_eid s with
                | Some i => match cost1 (eh i) (ev i) oh ov with Some c => Some (c * mult) | None => None end
                | None => Some 0
                end) ids.
Definition ids_cost_alt (ids : list string) (oq oa ze zo : Z) : list (option Z) :=
  map (fun s => match parse_eid s with
                | Some i =>
                    if small_zoom (ev i) && small_zoom oa && small_zoom ze then
                      match cost1 (eh i) 0 oq 0, z2key (ef i) (ev i) oa ze zo with
                      | Some c, Ok (mn, mx) => Some (c * Z.max 0 (mx - mn + 1))
                      | Some c, Err => Some 0
                      | None, _ => None
                      end
                    else None
                | None => Some 0
                end) ids.
Definition items_cost (items : list qitem) (oh ov : Z) : list (option Z) :=
  map (fun it => cost1 (qz it) (qvz it) oh ov) items.

(* ---------- entries: hooks ---------- *)
Definition d_encode (args : list val) (obs : val) : verdict :=
  match args, obs with
  | [VS s], VZ key =>
      match (match split s with a :: _ => if small_zoom (pz a) then encode_str s else None | [] => None end) with
      | Some k =>
          let p := match split s with
                   | [a; b; c] => match parse a, parse b, parse c with
                                  | Some h, Some x, Some y => check_key h x y key
                                  | _, _, _ => true
                                  end
                   | _ => true
                   end in
          mkv (k =? key) p "-" (VZ k)
      | None => bad_case
      end
  | _, _ => bad_case
  end.

Definition d_decode (args : list val) (obs : val) : verdict :=
  match args, obs with
  | [VZ q; VZ z], VL [VZ x; VZ y] =>
      if negb (small_zoom z) then bad_case else
      let m := decode q z in
      mkv ((fst m =? x) && (snd m =? y)) (check_tile q z x y) "-" (VL [VZ (fst m); VZ (snd m)])
  | _, _ => bad_case
  end.

(* key := convertHorizontalIDToQuadkey("h/x/y"); (x', y') := convertQuadkeyToHorizontalID(key, h); observed [key; x'; y'] *)
Definition d_roundtrip_key (args : list val) (obs : val) : verdict :=
  match args, obs with
  | [VZ h; VZ x; VZ y], VL [VZ key; VZ x'; VZ y'] =>
      if negb (small_zoom h) then bad_case else
      let k := encode h x y in
      let m := decode k h in
      mkv ((k =? key) && (fst m =? x') && (snd m =? y')) (check_rt h x y key x' y') "-" (VL [VZ k; VZ (fst m); VZ (snd m)])
  | _, _ => bad_case
  end.

Definition check_dedup (inp obs : list string) : bool := str_nodupb obs && str_seteqb obs inp.
Theorem check_dedup_sound inp obs : check_dedup inp obs = true <-> NoDup obs /\ forall s, In s obs <-> In s inp.
Proof.
  unfold check_dedup, str_nodupb, str_seteqb.
  rewrite andb_true_iff, (nodup_b_spec String.eqb String.eqb_spec), (seteqb_spec String.eqb String.eqb_spec). tauto.
Qed.
Theorem check_dedup_model inp : check_dedup inp (dedup_strings inp) = true.
Proof. apply check_dedup_sound. split; [apply dedup_strings_NoDup|]. intros s. apply dedup_strings_In. Qed.
Definition d_dedup (args : list val) (obs : val) : verdict :=
  match args with
  | [l] => match as_LS l, as_LS obs with
           | Some inp, Some o =>
               let m := dedup_strings inp in
               mkv (same_set m o && Nat.eqb (List.length m) (List.length o)) (check_dedup inp o) "-" (of_LS m)
           | _, _ => bad_case
           end
  | _ => bad_case
  end.

Definition d_qcheck (args : list val) (obs : val) : verdict :=
  match args, obs with
  | [VZ h; VZ v], VB b => let m := qcheck h v in mkv (Bool.eqb m b) (Bool.eqb m b) "-" (VB m)
  | _, _ => bad_case
  end.

(* ====================================================================================================== *)
(* list level: decoding of the wire values *)
Definition par := (val * val)%type.
Definition val_eqb (a b : val) : bool :=
  match a, b with
  | VZ x, VZ y => x =? y
  | VF x, VF y => feqb_bits x y
  | _, _ => false
  end.
Definition par_eqb (a b : par) : bool := val_eqb (fst a) (fst b) && val_eqb (snd a) (snd b).

Definition dec_pair (v : val) : option pair := match v with VL [VZ q; VZ f] => Some (q, f) | _ => None end.
Definition dec_group (v : val) : option (group par) :=
  match v with
  | VL [VZ hz; VZ vz; p1; p2; ps] =>
      match as_L ps with
      | Some l => match all_opt (map dec_pair l) with
                  | Some k => Some (mkg hz vz (p1, p2) k)
                  | None => None
                  end
      | None => None
      end
  | _ => None
  end.
Definition dec_groups (v : val) : option (list (group par)) :=
  match as_L v with Some l => all_opt (map dec_group l) | None => None end.
Definition enc_group (g : group par) : val :=
  VL [VZ (g_hz g); VZ (g_vz g); fst (g_par g); snd (g_par g); VL (map (fun p => VL [VZ (fst p); VZ (snd p)]) (g_pairs g))].
Definition enc_groups (r : result (list (group par))) : val :=
  match r with Ok gs => VL (map enc_group gs) | Err => VE VNil end.
Definition enc_strs (r : result (list string)) : val := match r with Ok l => of_LS l | Err => VE VNil end.

(* items of the inverse conversion: [quadkeyZoom; quadkey; vZoom; vIndex; maxHeight; minHeight]; None: a height range
   (maxHeight > minHeight) is requested — the binary-subdivision branch, not part of this property *)
Definition dec_item (v : val) : option qitem :=
  match v with
  | VL [VZ z; VZ k; VZ vz; VZ vi; VF mx; VF mn] =>
      if (mx =? mn)%float then Some (mkq z k vz vi true)
      else if (mn <? mx)%float then None
      else Some (mkq z k vz vi false)
  | _ => None
  end.
Definition dec_items (v : val) : option (list qitem) :=
  match as_L v with Some l => all_opt (map dec_item l) | None => None end.
(* Some true: index form; Some false: refused (maxHeight < minHeight or NaN); None: height range *)
Definition height_mode (mx mn : float) : option bool :=
  if (mx =? mn)%float then Some true else if (mn <? mx)%float then None else Some false.

(* groups, in the order returned: same zooms, same parameters, same pairs (as sets, equal sizes) *)
Definition group_eqb (a b : group par) : bool :=
  (g_hz a =? g_hz b) && (g_vz a =? g_vz b) && par_eqb (g_par a) (g_par b) &&
  Nat.eqb (List.length (g_pairs a)) (List.length (g_pairs b)) && pair_seteqb (g_pairs a) (g_pairs b).
Definition corr_groups (m : result (list (group par))) (obs : val) : bool :=
  match m with
  | Err => is_err obs
  | Ok gs => if is_err obs then false else
             match dec_groups obs with
             | Some os => list_eqb group_eqb gs os &&
                          Nat.eqb (List.length (List.concat (map g_pairs gs))) (List.length (List.concat (map g_pairs os)))
             | None => false
             end
  end.
Definition corr_strs (m : result (list string)) (obs : val) : bool :=
  match m with
  | Err => is_err obs
  | Ok l => if is_err obs then false else
            match as_LS obs with Some o => same_set l o && Nat.eqb (List.length l) (List.length o) | None => false end
  end.

(* ---------- references, computed from ZoomCore and the Z.testbit interleaving only ---------- *)
Definition zoom_ids (oh ov : Z) (i : eid) : list eid :=
  flat_map (fun hp => map (fun f => mk oh (fst hp) (snd hp) ov f) (vzoom (ev i) (ef i) ov)) (hzoom (eh i) (ex i) (ey i) oh).
Lemma zoom_ids_spec oh ov i j : valid i -> 0 <= oh -> 0 <= ov -> In j (zoom_ids oh ov i) <-> zrel i oh ov j.
Proof.
  intros (Hh & Hv & Hx & Hy & Hf) Hoh Hov. unfold zoom_ids. rewrite in_flat_map. split.
  - intros ([x' y'] & Hp & Hj). apply in_map_iff in Hj. destruct Hj as (f & <- & Hfz).
    apply hzoom_exact in Hp; try lia. apply vzoom_exact in Hfz; try lia. unfold zrel. cbn. tauto.
  - intros (Eh & Ev & Rx & Ry & Rf). exists (ex j, ey j). split; [apply hzoom_exact; try lia; auto|].
    apply in_map_iff. exists (ef j). split; [|apply vzoom_exact; try lia; auto].
    cbn [fst snd]. destruct j; cbn in *; subst; reflexivity.
Qed.
Definition ref_pairs (oh ov : Z) (es : list eid) : list pair :=
  map (fun j => (interleave oh (ex j) (ey j), ef j)) (flat_map (zoom_ids oh ov) es).
Lemma ref_pairs_spec oh ov es q f : Forall valid es -> 0 <= oh -> 0 <= ov ->
  In (q, f) (ref_pairs oh ov es) <-> exists i j, In i es /\ zrel i oh ov j /\ q = interleave oh (ex j) (ey j) /\ f = ef j.
Proof.
  intros V Hoh Hov. rewrite Forall_forall in V. unfold ref_pairs. rewrite in_map_iff. split.
  - intros (j & [= <- <-] & Hj). apply in_flat_map in Hj. destruct Hj as (i & Hi & Hj).
    apply zoom_ids_spec in Hj; auto. exists i, j. auto.
  - intros (i & j & Hi & Z & -> & ->). exists j. split; [reflexivity|]. apply in_flat_map. exists i. split; [exact Hi|].
    apply zoom_ids_spec; auto.
Qed.

(* ---------- checker of a list of groups against a reference pair set ---------- *)
Definition check_groups (oh ov : Z) (p : par) (exp : list pair) (gs : list (group par)) : bool :=
  forallb (fun g => (g_hz g =? oh) && (g_vz g =? ov) && par_eqb (g_par g) p && negb (Nat.eqb (List.length (g_pairs g)) 0)) gs &&
  pair_nodupb (List.concat (map g_pairs gs)) &&
  pair_seteqb (List.concat (map g_pairs gs)) exp.
Theorem check_groups_sound oh ov p exp gs : check_groups oh ov p exp gs = true <->
  (forall g, In g gs -> g_hz g = oh /\ g_vz g = ov /\ par_eqb (g_par g) p = true /\ g_pairs g <> []) /\
  NoDup (List.concat (map g_pairs gs)) /\
  (forall x, In x (List.concat (map g_pairs gs)) <-> In x exp).
Proof.
  unfold check_groups, pair_nodupb, pair_seteqb.
  rewrite !andb_true_iff, forallb_forall, (nodup_b_spec pair_eqb pair_eqb_spec), (seteqb_spec pair_eqb pair_eqb_spec).
  assert (E : (forall g, In g gs -> (g_hz g =? oh) && (g_vz g =? ov) && par_eqb (g_par g) p && negb (Nat.eqb (List.length (g_pairs g)) 0) = true) <->
              (forall g, In g gs -> g_hz g = oh /\ g_vz g = ov /\ par_eqb (g_par g) p = true /\ g_pairs g <> [])).
  { split; intros H g Hg; specialize (H g Hg).
    - rewrite !andb_true_iff, !Z.eqb_eq, negb_true_iff, Nat.eqb_neq in H. destruct H as (((A & B) & C) & D).
      repeat split; auto. intros N. rewrite N in D. now apply D.
    - rewrite !andb_true_iff, !Z.eqb_eq, negb_true_iff, Nat.eqb_neq. destruct H as (A & B & C & D).
      repeat split; auto. destruct (g_pairs g); [congruence|discriminate]. }
  rewrite E. tauto.
Qed.

(* ---------- ConvertExtendedSpatialIDsToQuadkeysAndVerticalIDs / ConvertSpatialIDsToQuadkeysAndVerticalIDs ---------- *)
(* the property's domain: every ID is the canonical text of a valid ID; output zooms in 1..31 x 0..35; no height range *)
Definition ids_domain (ids : list string) : option (list eid) :=
  match parse_all ids with
  | Some es => if forallb validb es then Some es else None
  | None => None
  end.
Definition check_e2q (ids : list string) (oh ov : Z) (p : par) (obs : val) : bool :=
  match ids_domain ids with
  | Some es =>
      if qcheck oh ov then
        if is_err obs then false else
        match dec_groups obs with
        | Some gs => check_groups oh ov p (ref_pairs oh ov es) gs
        | None => false
        end
      else true
  | None => true
  end.

(* the invoker's own size guard answered instead of the implementation *)
Definition is_skipped (obs : val) : bool := match obs with VS _ => true | _ => false end.

Definition d_e2q_gen (conv_ids : list string -> result (list string)) (args : list val) (obs : val) : verdict :=
  match args with
  | [l; VZ oh; VZ ov; VF mx; VF mn] =>
      match as_LS l, height_mode mx mn with
      | Some ids0, Some idx =>
          match conv_ids ids0 with
          | Err => mkv (is_err obs) true "-" (VE VNil)
          | Ok ids =>
              if negb (cost_ok (ids_cost ids oh ov 1)) || is_skipped obs then bad_case else
              let m := e2q (VF mx, VF mn) idx ids oh ov in
              mkv (corr_groups m obs) (if idx then check_e2q ids oh ov (VF mx, VF mn) obs else true) "-" (enc_groups m)
          end
      | _, _ => bad_case
      end
  | _ => bad_case
  end.
Definition d_e2q := d_e2q_gen (fun l => Ok l).
Definition d_s2q := d_e2q_gen sids_to_eids.

(* ---------- ConvertExtendedSpatialIDsToQuadkeysAndAltitudekeys ---------- *)
Definition ref_pairs_alt (oq oa E O : Z) (es : list eid) : option (list pair) :=
  match all_opt (map (fun i => match z2key (ef i) (ev i) oa E O with
                               | Ok (mn, mx) => Some (list_prod (map (fun hp => interleave oq (fst hp) (snd hp)) (hzoom (eh i) (ex i) (ey i) oq)) (zrange mn mx))
                               | Err => None
                               end) es) with
  | Some pss => Some (List.concat pss)
  | None => None
  end.
Definition check_e2qa (ids : list string) (oq oa E O : Z) (obs : val) : bool :=
  match ids_domain ids with
  | Some es =>
      if qcheck oq oa then
        match ref_pairs_alt oq oa E O es with
        | Some exp =>
            if is_err obs then false else
            match dec_groups obs with
            | Some gs => check_groups oq oa (VZ E, VZ O) exp gs
            | None => false
            end
        | None => true        (* some altitude range does not exist at the output zoom: an error is the documented answer *)
        end
      else true
  | None => true
  end.
Definition lift_par (g : group (Z * Z)) : group par := mkg (g_hz g) (g_vz g) (VZ (fst (g_par g)), VZ (snd (g_par g))) (g_pairs g).
Definition d_e2qa (args : list val) (obs : val) : verdict :=
  match args with
  | [l; VZ oq; VZ oa; VZ ze; VZ zo] =>
      match as_LS l with
      | Some ids =>
          if negb (cost_ok (ids_cost_alt ids oq oa ze zo)) || is_skipped obs then bad_case else
          let m := match e2qa ids oq oa ze zo with Ok gs => Ok (map lift_par gs) | Err => Err end in
          mkv (corr_groups m obs) (check_e2qa ids oq oa ze zo obs) "-" (enc_groups m)
      | None => bad_case
      end
  | _ => bad_case
  end.

(* ---------- ConvertQuadkeysAndVerticalIDsToExtendedSpatialIDs / ...ToSpatialIDs ---------- *)
(* reference tile of a key: the value-level decoder (not the string walk) *)
Definition tile_ref (it : qitem) : eid :=
  let xy := dec (Z.to_nat (qz it)) (qk it) in mk (qz it) (fst xy) (snd xy) (qvz it) (qvi it).
Definition qvalidb (it : qitem) : bool :=
  qcheck (qz it) (qvz it) && (0 <=? qk it) && (qk it <? 4 ^ qz it) && qidx it.
Lemma qvalidb_spec it : qvalidb it = true <-> qvalid it.
Proof. unfold qvalidb, qvalid. rewrite !andb_true_iff, Z.leb_le, Z.ltb_lt. tauto. Qed.
Lemma tile_ref_of it : qvalid it -> tile_ref it = tile_of it.
Proof.
  intros (Hc & Hk & _). apply qcheck_spec in Hc. unfold tile_ref, tile_of.
  rewrite <- (decode_dec (Z.to_nat (qz it)) (qk it)) by (rewrite ?Z2Nat.id; lia). now rewrite Z2Nat.id by lia.
Qed.
Definition ref_ids (oh ov : Z) (items : list qitem) : list eid := flat_map (fun it => zoom_ids oh ov (tile_ref it)) items.

Lemma tile_of_valid_h it : qvalid it -> 0 <= eh (tile_of it) /\ 0 <= ev (tile_of it) /\ 0 <= ex (tile_of it) /\ 0 <= ey (tile_of it).
Proof.
  intros V. pose proof (tile_of_valid it V) as (Bx & By & _). destruct V as (Hc & _). apply qcheck_spec in Hc.
  unfold tile_of in *. cbn [eh ev ex ey mk] in *. lia.
Qed.
(* zoom_ids needs only non-negative zooms and horizontal indices *)
Lemma zoom_ids_spec' oh ov i j : 0 <= eh i -> 0 <= ev i -> 0 <= ex i -> 0 <= ey i -> 0 <= oh -> 0 <= ov ->
  In j (zoom_ids oh ov i) <-> zrel i oh ov j.
Proof.
  intros Hh Hv Hx Hy Hoh Hov. unfold zoom_ids. rewrite in_flat_map. split.
  - intros ([x' y'] & Hp & Hj). apply in_map_iff in Hj. destruct Hj as (f & <- & Hfz).
    apply hzoom_exact in Hp; try lia. apply vzoom_exact in Hfz; try lia. unfold zrel. cbn. tauto.
  - intros (Eh & Ev & Rx & Ry & Rf). exists (ex j, ey j). split; [apply hzoom_exact; try lia; auto|].
    apply in_map_iff. exists (ef j). split; [|apply vzoom_exact; try lia; auto].
    cbn [fst snd]. destruct j; cbn in *; subst; reflexivity.
Qed.
Lemma ref_ids_spec oh ov items j : Forall qvalid items -> 0 <= oh -> 0 <= ov ->
  In j (ref_ids oh ov items) <-> exists it, In it items /\ zrel (tile_of it) oh ov j.
Proof.
  intros F Hoh Hov. rewrite Forall_forall in F. unfold ref_ids. rewrite in_flat_map. split.
  - intros (it & Hit & Hj). rewrite (tile_ref_of it (F it Hit)) in Hj.
    destruct (tile_of_valid_h it (F it Hit)) as (A & B & C & D). apply zoom_ids_spec' in Hj; try lia. eauto.
  - intros (it & Hit & Z). exists it. split; [exact Hit|]. rewrite (tile_ref_of it (F it Hit)).
    destruct (tile_of_valid_h it (F it Hit)) as (A & B & C & D). apply zoom_ids_spec'; try lia. exact Z.
Qed.

Definition check_strs (exp obs : list string) : bool := str_nodupb obs && str_seteqb obs exp.
Theorem check_strs_sound exp obs : check_strs exp obs = true <-> NoDup obs /\ forall s, In s obs <-> In s exp.
Proof. exact (check_dedup_sound exp obs). Qed.

Definition check_q2e (items : list qitem) (oh ov : Z) (obs : val) : bool :=
  if forallb qvalidb items && echeck oh ov then
    if is_err obs then false else
    match as_LS obs with
    | Some o => check_strs (map print_eid (ref_ids oh ov items)) o
    | None => false
    end
  else true.
Definition check_q2s (items : list qitem) (z : Z) (obs : val) : bool :=
  if forallb qvalidb items && echeck z z then
    if is_err obs then false else
    match as_LS obs with
    | Some o => check_strs (map (fun j => print_sid z (ef j) (ex j) (ey j)) (ref_ids z z items)) o
    | None => false
    end
  else true.

Definition d_q2e (args : list val) (obs : val) : verdict :=
  match args with
  | [l; VZ oh; VZ ov] =>
      match dec_items l with
      | Some items => if negb (cost_ok (items_cost items oh ov)) || is_skipped obs then bad_case else
                      let m := q2e items oh ov in mkv (corr_strs m obs) (check_q2e items oh ov obs) "-" (enc_strs m)
      | None => bad_case
      end
  | _ => bad_case
  end.
Definition d_q2s (args : list val) (obs : val) : verdict :=
  match args with
  | [l; VZ z] =>
      match dec_items l with
      | Some items => if negb (cost_ok (items_cost items z z)) || is_skipped obs then bad_case else
                      let m := q2s items z in mkv (corr_strs m obs) (check_q2s items z obs) "-" (enc_strs m)
      | None => bad_case
      end
  | _ => bad_case
  end.

(* ---------- round trip: IDs -> groups at (oh, ov) -> IDs at (bh, bv); observed [groups; back] ---------- *)
Definition same_zooms (es : list eid) (oh ov bh bv : Z) : bool :=
  forallb (fun i => (eh i =? oh) && (ev i =? ov)) es && (bh =? oh) && (bv =? ov).
Definition check_roundtrip (ids : list string) (oh ov bh bv : Z) (p : par) (obs : val) : bool :=
  match ids_domain ids with
  | Some es =>
      if qcheck oh ov && echeck bh bv then
        match obs with
        | VL [og; ob] =>
            match as_LS ob with
            | Some back =>
                check_e2q ids oh ov p og &&
                check_strs (map print_eid (flat_map (zoom_ids bh bv) (flat_map (zoom_ids oh ov) es))) back &&
                (if same_zooms es oh ov bh bv then str_seteqb back (map print_eid es) else true)
            | None => false
            end
        | _ => false
        end
      else true
  | None => true
  end.
Definition roundtrip_model (ids : list string) (oh ov bh bv : Z) (p : par) : result (list (group par) * list string) :=
  match e2q p true ids oh ov with
  | Err => Err
  | Ok gs => match q2e (items_of gs) bh bv with Err => Err | Ok back => Ok (gs, back) end
  end.
Definition d_roundtrip (args : list val) (obs : val) : verdict :=
  match args with
  | [l; VZ oh; VZ ov; VF mx; VF mn; VZ bh; VZ bv] =>
      match as_LS l, height_mode mx mn with
      | Some ids, Some true =>
          if negb (match cost1 oh ov bh bv with Some c => cost_ok (ids_cost ids oh ov c) | None => false end) || is_skipped obs then bad_case else
          let p := (VF mx, VF mn) in
          match roundtrip_model ids oh ov bh bv p with
          | Err => mkv (is_err obs) (check_roundtrip ids oh ov bh bv p obs) "-" (VE VNil)
          | Ok (gs, back) =>
              let c := match obs with
                       | VL [og; ob] => corr_groups (Ok gs) og && corr_strs (Ok back) ob
                       | _ => false
                       end in
              mkv c (check_roundtrip ids oh ov bh bv p obs) "-" (VL [enc_groups (Ok gs); of_LS back])
          end
      | _, _ => bad_case
      end
  | _ => bad_case
  end.

(* ====================================================================================================== *)
(* soundness of the list-level checkers: acceptance = the Prop-level statement on the observed output *)
Lemma ids_domain_spec ids es : ids_domain ids = Some es -> parse_all ids = Some es /\ Forall valid es.
Proof.
  unfold ids_domain. destruct (parse_all ids) as [l|]; [|discriminate]. destruct (forallb validb l) eqn:V; [|discriminate].
  intros [= <-]. split; [reflexivity|]. apply Forall_forall. intros i Hi. apply validb_spec. rewrite forallb_forall in V. now apply V.
Qed.

Theorem check_e2q_sound ids es oh ov p gs obs : ids_domain ids = Some es -> qcheck oh ov = true ->
  is_err obs = false -> dec_groups obs = Some gs ->
  check_e2q ids oh ov p obs = true <->
  (forall g, In g gs -> g_hz g = oh /\ g_vz g = ov /\ par_eqb (g_par g) p = true /\ g_pairs g <> []) /\
  NoDup (List.concat (map g_pairs gs)) /\
  (forall q f, In (q, f) (List.concat (map g_pairs gs)) <->
     exists i j, In i es /\ zrel i oh ov j /\ q = interleave oh (ex j) (ey j) /\ f = ef j).
Proof.
  intros D Hq He Hg. unfold check_e2q. rewrite D, Hq, He, Hg. rewrite check_groups_sound.
  destruct (ids_domain_spec ids es D) as (_ & V). apply qcheck_spec in Hq.
  split; intros (A & B & C); (split; [exact A|split; [exact B|]]).
  - intros q f. rewrite C. apply ref_pairs_spec; auto; lia.
  - intros [q f]. rewrite C. symmetry. apply ref_pairs_spec; auto; lia.
Qed.
(* in the domain an error is rejected *)
Theorem check_e2q_rejects_error ids es oh ov p obs : ids_domain ids = Some es -> qcheck oh ov = true -> is_err obs = true ->
  check_e2q ids oh ov p obs = false.
Proof. intros D Hq He. unfold check_e2q. now rewrite D, Hq, He. Qed.

Theorem check_q2e_sound items oh ov o obs : Forall qvalid items -> echeck oh ov = true -> is_err obs = false -> as_LS obs = Some o ->
  check_q2e items oh ov obs = true <->
  NoDup o /\ forall s, In s o <-> exists it j, In it items /\ zrel (tile_of it) oh ov j /\ s = print_eid j.
Proof.
  intros F He Hn Ho. unfold check_q2e.
  assert (Fb : forallb qvalidb items = true).
  { apply forallb_forall. intros it Hit. apply qvalidb_spec. rewrite Forall_forall in F. now apply F. }
  rewrite Fb, He, Hn, Ho. cbn [andb]. rewrite check_strs_sound. apply echeck_spec in He.
  assert (R : forall s, In s (map print_eid (ref_ids oh ov items)) <-> exists it j, In it items /\ zrel (tile_of it) oh ov j /\ s = print_eid j).
  { intros s. rewrite in_map_iff. split.
    - intros (j & <- & Hj). apply ref_ids_spec in Hj; auto; try lia. destruct Hj as (it & Hit & Z). eauto.
    - intros (it & j & Hit & Z & ->). exists j. split; [reflexivity|]. apply ref_ids_spec; auto; try lia. eauto. }
  split; intros (A & B); (split; [exact A|]); intros s; rewrite B; [apply R|symmetry; apply R].
Qed.

Lemma all_opt_concat_In {A B} (f : A -> option (list B)) l : forall r x, all_opt (map f l) = Some r ->
  (In x (List.concat r) <-> exists a ps, In a l /\ f a = Some ps /\ In x ps).
Proof.
  induction l as [|a l IH]; cbn [map all_opt]; intros r x.
  - intros [= <-]. cbn. split; [contradiction|]. intros (a & ps & [] & _).
  - destruct (f a) as [b|] eqn:E; [|discriminate]. destruct (all_opt (map f l)) as [t|] eqn:Et; [|discriminate].
    intros [= <-]. cbn [List.concat]. rewrite in_app_iff, (IH t x eq_refl). split.
    + intros [H|(a' & ps' & Hin & HR & Hx)]; [exists a, b|exists a', ps']; cbn [In]; auto.
    + intros (a' & ps' & [<-|Hin] & HR & Hx).
      * left. rewrite E in HR. injection HR as <-. exact Hx.
      * right. eauto.
Qed.

Lemma ref_pairs_alt_spec oq oa E O es exp q k : Forall valid es -> 0 <= oq -> ref_pairs_alt oq oa E O es = Some exp ->
  In (q, k) exp <-> exists i x' y' mn mx, In i es /\ rel1 (eh i) (ex i) oq x' /\ rel1 (eh i) (ey i) oq y' /\ q = interleave oq x' y' /\
                      z2key (ef i) (ev i) oa E O = Ok (mn, mx) /\ mn <= k <= mx.
Proof.
  intros V Hoq. rewrite Forall_forall in V. unfold ref_pairs_alt.
  match goal with |- context [all_opt (map ?f es)] => set (F := f) end.
  destruct (all_opt (map F es)) as [pss|] eqn:Ea; [|discriminate]. intros [= <-].
  rewrite (all_opt_concat_In F es pss (q, k) Ea). split.
  - intros (i & ps & Hi & Hf & Hin). unfold F in Hf.
    destruct (z2key (ef i) (ev i) oa E O) as [[mn mx]|] eqn:Ez; [|discriminate]. injection Hf as <-.
    apply in_prod_iff in Hin. destruct Hin as [Hq Hk]. apply in_map_iff in Hq. destruct Hq as ([x' y'] & <- & Hh).
    pose proof (V i Hi) as (Hh0 & Hv0 & Hx & Hy & _). apply hzoom_exact in Hh; try lia. apply in_zrange in Hk.
    exists i, x', y', mn, mx. cbn [fst snd]. tauto.
  - intros (i & x' & y' & mn & mx & Hi & Rx & Ry & -> & Ez & Hk).
    exists i. eexists. split; [exact Hi|]. unfold F. rewrite Ez. split; [reflexivity|].
    pose proof (V i Hi) as (Hh0 & Hv0 & Hx & Hy & _).
    apply in_prod_iff. split; [|apply in_zrange; lia].
    apply in_map_iff. exists (x', y'). split; [reflexivity|]. apply hzoom_exact; try lia. auto.
Qed.
Lemma all_opt_None {A B} (f : A -> option B) l : all_opt (map f l) = None -> exists a, In a l /\ f a = None.
Proof.
  induction l as [|a l IH]; cbn [map all_opt]; [discriminate|].
  destruct (f a) eqn:E; [|intros _; exists a; split; [now left|exact E]].
  destruct (all_opt (map f l)); [discriminate|]. intros _. destruct (IH eq_refl) as (b0 & Hb & Eb). exists b0. split; [now right|exact Eb].
Qed.
Lemma ref_pairs_alt_none oq oa E O es : ref_pairs_alt oq oa E O es = None -> exists i, In i es /\ z2key (ef i) (ev i) oa E O = Err.
Proof.
  unfold ref_pairs_alt.
  match goal with |- context [all_opt (map ?f es)] => set (F := f) end.
  destruct (all_opt (map F es)) eqn:Ea; [discriminate|]. intros _.
  destruct (all_opt_None F es Ea) as (i & Hi & Hf). exists i. split; [exact Hi|].
  unfold F in Hf. destruct (z2key (ef i) (ev i) oa E O) as [[mn mx]|]; [discriminate|reflexivity].
Qed.

(* the altitude-key checker: acceptance = the statement of C11_ids_to_altitudekey_pairs on the observed groups *)
Theorem check_e2qa_sound ids es oq oa E O exp gs obs : ids_domain ids = Some es -> qcheck oq oa = true ->
  ref_pairs_alt oq oa E O es = Some exp -> is_err obs = false -> dec_groups obs = Some gs ->
  check_e2qa ids oq oa E O obs = true <->
  (forall g, In g gs -> g_hz g = oq /\ g_vz g = oa /\ par_eqb (g_par g) (VZ E, VZ O) = true /\ g_pairs g <> []) /\
  NoDup (List.concat (map g_pairs gs)) /\
  (forall q k, In (q, k) (List.concat (map g_pairs gs)) <->
     exists i x' y' mn mx, In i es /\ rel1 (eh i) (ex i) oq x' /\ rel1 (eh i) (ey i) oq y' /\ q = interleave oq x' y' /\
       z2key (ef i) (ev i) oa E O = Ok (mn, mx) /\ mn <= k <= mx).
Proof.
  intros D Hq Hr He Hg. unfold check_e2qa. rewrite D, Hq, Hr, He, Hg. rewrite check_groups_sound.
  destruct (ids_domain_spec ids es D) as (_ & V). apply qcheck_spec in Hq.
  split; intros (A & B & C); (split; [exact A|split; [exact B|]]).
  - intros q k. rewrite C. apply ref_pairs_alt_spec; auto; lia.
  - intros [q k]. rewrite C. symmetry. apply ref_pairs_alt_spec; auto; lia.
Qed.

(* two successive zoom changes, as computed by the round-trip checker *)
Lemma zoom2_spec es oh ov bh bv j : Forall valid es -> 0 <= oh -> 0 <= ov -> 0 <= bh -> 0 <= bv ->
  In j (flat_map (zoom_ids bh bv) (flat_map (zoom_ids oh ov) es)) <->
  exists i m, In i es /\ zrel i oh ov m /\ zrel m bh bv j.
Proof.
  intros V Hoh Hov Hbh Hbv. rewrite Forall_forall in V. rewrite in_flat_map. split.
  - intros (m & Hm & Hj). apply in_flat_map in Hm. destruct Hm as (i & Hi & Hm).
    apply zoom_ids_spec in Hm; auto. destruct (zrel_valid_h i oh ov m (V i Hi) Hoh Hm) as (Bx & By).
    pose proof Hm as (Eh & Ev & _). apply zoom_ids_spec' in Hj; try lia. eauto.
  - intros (i & m & Hi & Zm & Zj). exists m. split.
    + apply in_flat_map. exists i. split; [exact Hi|]. apply zoom_ids_spec; auto.
    + destruct (zrel_valid_h i oh ov m (V i Hi) Hoh Zm) as (Bx & By). pose proof Zm as (Eh & Ev & _).
      apply zoom_ids_spec'; try lia. exact Zj.
Qed.

(* the round-trip checker: acceptance = the statements of C11_ids_to_pairs, C11_round_trip_is_zoom_change and (same zooms)
   C11_round_trip_exact on the observed groups and IDs *)
Theorem check_roundtrip_sound ids es oh ov bh bv p og ob gs back : ids_domain ids = Some es ->
  qcheck oh ov = true -> echeck bh bv = true -> is_err og = false -> dec_groups og = Some gs -> as_LS ob = Some back ->
  check_roundtrip ids oh ov bh bv p (VL [og; ob]) = true <->
  ((forall g, In g gs -> g_hz g = oh /\ g_vz g = ov /\ par_eqb (g_par g) p = true /\ g_pairs g <> []) /\
   NoDup (List.concat (map g_pairs gs)) /\
   (forall q f, In (q, f) (List.concat (map g_pairs gs)) <->
      exists i j, In i es /\ zrel i oh ov j /\ q = interleave oh (ex j) (ey j) /\ f = ef j)) /\
  NoDup back /\
  (forall s, In s back <-> exists i m j, In i es /\ zrel i oh ov m /\ zrel m bh bv j /\ s = print_eid j) /\
  (same_zooms es oh ov bh bv = true -> forall s, In s back <-> In s (map print_eid es)).
Proof.
  intros D Hq He Hn Hg Hb. unfold check_roundtrip. rewrite D, Hq, He, Hb. cbn [andb].
  rewrite !andb_true_iff, (check_e2q_sound ids es oh ov p gs og D Hq Hn Hg), check_strs_sound.
  destruct (ids_domain_spec ids es D) as (_ & V). apply qcheck_spec in Hq. apply echeck_spec in He.
  assert (R : forall s, In s (map print_eid (flat_map (zoom_ids bh bv) (flat_map (zoom_ids oh ov) es))) <->
                        exists i m j, In i es /\ zrel i oh ov m /\ zrel m bh bv j /\ s = print_eid j).
  { intros s. rewrite in_map_iff. split.
    - intros (j & <- & Hj). apply zoom2_spec in Hj; auto; try lia. destruct Hj as (i & m & A & B & C). exists i, m, j. auto.
    - intros (i & m & j & A & B & C & ->). exists j. split; [reflexivity|]. apply zoom2_spec; auto; try lia. eauto. }
  assert (S : (if same_zooms es oh ov bh bv then str_seteqb back (map print_eid es) else true) = true <->
              (same_zooms es oh ov bh bv = true -> forall s, In s back <-> In s (map print_eid es))).
  { destruct (same_zooms es oh ov bh bv).
    - unfold str_seteqb. rewrite (seteqb_spec String.eqb String.eqb_spec). tauto.
    - split; [discriminate|reflexivity]. }
  rewrite S. split.
  - intros ((A & (N & B)) & C). split; [exact A|split; [exact N|split; [|exact C]]]. intros s. rewrite B. apply R.
  - intros (A & N & B & C). split; [split; [exact A|split; [exact N|]]|exact C]. intros s. rewrite B. symmetry. apply R.
Qed.

Theorem check_q2s_sound items z o obs : Forall qvalid items -> echeck z z = true -> is_err obs = false -> as_LS obs = Some o ->
  check_q2s items z obs = true <->
  NoDup o /\ forall s, In s o <-> exists it j, In it items /\ zrel (tile_of it) z z j /\ s = print_sid z (ef j) (ex j) (ey j).
Proof.
  intros F He Hn Ho. unfold check_q2s.
  assert (Fb : forallb qvalidb items = true).
  { apply forallb_forall. intros it Hit. apply qvalidb_spec. rewrite Forall_forall in F. now apply F. }
  rewrite Fb, He, Hn, Ho. cbn [andb]. rewrite check_strs_sound. apply echeck_spec in He.
  assert (R : forall s, In s (map (fun j => print_sid z (ef j) (ex j) (ey j)) (ref_ids z z items)) <->
                        exists it j, In it items /\ zrel (tile_of it) z z j /\ s = print_sid z (ef j) (ex j) (ey j)).
  { intros s. rewrite in_map_iff. split.
    - intros (j & <- & Hj). apply ref_ids_spec in Hj; auto; try lia. destruct Hj as (it & Hit & Z). eauto.
    - intros (it & j & Hit & Z & ->). exists j. split; [reflexivity|]. apply ref_ids_spec; auto; try lia. eauto. }
  split; intros (A & B); (split; [exact A|]); intros s; rewrite B; [apply R|symmetry; apply R].
Qed.

Definition table_C11 : table :=
  [("HorizontalIDToQuadkey", fun _ => d_encode); ("QuadkeyToHorizontalID", fun _ => d_decode);
   ("QuadkeyRoundTrip", fun _ => d_roundtrip_key); ("DeleteDuplicationList", fun _ => d_dedup);
   ("QuadkeyCheckZoom", fun _ => d_qcheck);
   ("E2Q", fun _ => d_e2q); ("S2Q", fun _ => d_s2q); ("E2QA", fun _ => d_e2qa);
   ("Q2E", fun _ => d_q2e); ("Q2S", fun _ => d_q2s); ("RoundTrip", fun _ => d_roundtrip)]%string.
