(* DC11.v — dispatch entries of property C11 (quadkeys): (arguments, observed output) ↦ verdict.
   corr = the executable model's output equals the implementation's observed output (projected observables: keys as integers;
          groups in order as (zooms, parameters, pair list as a set); ID lists as sets; error as a flag);
   prop = the property's boolean checker accepts the implementation's observed output.
   References used by the checkers: keys by the Z.testbit interleaving `interleave` and tiles by the value-level decoder `dec` (both
   independent of the loop models); the zoom change is ZoomCore.hzoom/vzoom (shared with the model, tied to the relation `rel1` by
   hzoom_exact/vzoom_exact). Checking is PER ELEMENT: a valid ID / key is judged against the reference, an element outside the property's
   quantifier that the library nevertheless accepts (index outside the grid, key >= 4^zoom, negative key) against the model's own answer
   for that element; a request the model refuses (theorems C11_*_refused) must be answered with an error. The int64 boundary (zoom > 31
   for the encoder hook, indices beyond 2^40) and over-size calls are not judged: bad-case, resp. class "skipped". *)
From Coq Require Import ZArith Lia String List Bool Floats.
From SID Require Import Base Str Ids ZoomCore AltKeyCore Wire F64 Quadkey QuadkeyConv QuadkeyObj.
Import ListNotations.
Open Scope Z_scope.

(* ---------- boolean finite-set helpers with their specifications ---------- *)
Section BoolSets.
  Context {A : Type} (eqb : A -> A -> bool).
  Hypothesis eqb_spec : forall a b, reflect (a = b) (eqb a b).
  Definition inclb (a b : list A) : bool := forallb (fun x => memb eqb x b) a.
  Fixpoint nodup_b (l : list A) : bool := match l with [] => true | a :: r => negb (memb eqb a r) && nodup_b r end.
  Definition seteqb (a b : list A) : bool := inclb a b && inclb b a.
  Lemma inclb_spec a b : inclb a b = true <-> forall x, In x a -> In x b.
  Proof.
    unfold inclb. rewrite forallb_forall. split; intros H x Hx.
    - apply (memb_In eqb eqb_spec). now apply H.
    - apply (memb_In eqb eqb_spec). now apply H.
  Qed.
  Lemma nodup_b_spec l : nodup_b l = true <-> NoDup l.
  Proof.
    induction l as [|a r IH]; cbn [nodup_b]; [split; [constructor|reflexivity]|].
    rewrite andb_true_iff, negb_true_iff, IH. split.
    - intros [M N]. constructor; [|exact N]. rewrite <- (memb_In eqb eqb_spec). congruence.
    - intros N. inversion N as [|? ? Ha Hr]; subst. split; [|exact Hr].
      destruct (memb eqb a r) eqn:E; [|reflexivity]. apply (memb_In eqb eqb_spec) in E. contradiction.
  Qed.
  Lemma seteqb_spec a b : seteqb a b = true <-> forall x, In x a <-> In x b.
  Proof.
    unfold seteqb. rewrite andb_true_iff, !inclb_spec. split.
    - intros [H1 H2] x. split; auto.
    - intros H. split; intros x; apply H.
  Qed.
End BoolSets.

Definition str_seteqb := seteqb String.eqb.
Definition str_nodupb := nodup_b String.eqb.
Definition pair_seteqb := seteqb pair_eqb.
Definition pair_nodupb := nodup_b pair_eqb.

(* ====================================================================================================== *)
(* bit level *)
Definition key_domain (h x y : Z) : bool :=
  (1 <=? h) && (h <=? 31) && (0 <=? x) && (x <? 2 ^ h) && (0 <=? y) && (y <? 2 ^ h).
(* the key of (x, y) at zoom h: interleaving reference via Z.testbit and the bound. Stated for every input of the hook: negative indices
   count as 0 (their loop never starts), indices wider than the zoom lose their high bits, a zoom below 1 gives key 0 *)
Definition check_key (h x y key : Z) : bool :=
  (key =? interleave h (Z.max 0 x) (Z.max 0 y)) && (0 <=? key) && (key <? 4 ^ Z.max 0 h).
(* the tile of key q at zoom z: inside the grid and with that key (the unique such tile) *)
Definition tile_domain (q z : Z) : bool := (1 <=? z) && (z <=? 31) && (0 <=? q) && (q <? 4 ^ z).
(* a key wider than the zoom (outside the quantifier, accepted by the code): the first z base-4 digits are read, i.e. the tile of
   q / 4^(digits - z). Extra run-time reference, no theorem. *)
Definition wide_ref (q z : Z) : Z * Z := dec (Z.to_nat z) (q / 4 ^ (Z.log2 q / 2 + 1 - z)).
Definition check_tile (q z x y : Z) : bool :=
  if tile_domain q z
  then (0 <=? x) && (x <? 2 ^ z) && (0 <=? y) && (y <? 2 ^ z) && (interleave z x y =? q)
  else if (1 <=? z) && (z <=? 31) && (4 ^ z <=? q) then (fst (wide_ref q z) =? x) && (snd (wide_ref q z) =? y)
  else true.       (* negative key or zoom outside 1..31: outside the quantifier; judged by corr only *)
Definition check_rt (h x y key x' y' : Z) : bool := check_key h x y key && (x' =? x) && (y' =? y).

Lemma key_domain_spec h x y : key_domain h x y = true <-> 1 <= h <= 31 /\ 0 <= x < 2 ^ h /\ 0 <= y < 2 ^ h.
Proof. unfold key_domain. rewrite !andb_true_iff, !Z.leb_le, !Z.ltb_lt. tauto. Qed.

Theorem check_key_sound h x y key : 1 <= h <= 31 -> 0 <= x < 2 ^ h -> 0 <= y < 2 ^ h ->
  check_key h x y key = true <-> key = interleave h x y /\ 0 <= key < 4 ^ h.
Proof.
  intros Hh Hx Hy. unfold check_key. rewrite !Z.max_r by lia.
  rewrite !andb_true_iff, Z.eqb_eq, Z.leb_le, Z.ltb_lt. tauto.
Qed.
(* the model's own output passes for EVERY input: the code's loops compute the interleaving of the clamped indices, inside the bound *)
Theorem check_key_model h x y : check_key h x y (encode h x y) = true.
Proof.
  unfold check_key. rewrite !andb_true_iff, Z.eqb_eq, Z.leb_le, Z.ltb_lt.
  destruct (Z.le_gt_cases 0 h) as [Hh|Hh].
  - rewrite (Z.max_r 0 h) by lia. rewrite encode_clamp.
    pose proof (encode_bound h (Z.max 0 x) (Z.max 0 y) Hh ltac:(lia) ltac:(lia)).
    rewrite <- encode_interleave by lia. lia.
  - rewrite (Z.max_l 0 h) by lia. rewrite encode_nonpos_zoom by lia. unfold interleave. replace (Z.to_nat h) with 0%nat by lia. cbn. lia.
Qed.
Theorem check_tile_sound q z x y : 1 <= z <= 31 -> 0 <= q < 4 ^ z ->
  check_tile q z x y = true <-> (x, y) = decode q z.
Proof.
  intros Hz Hq. unfold check_tile, tile_domain.
  replace ((1 <=? z) && (z <=? 31) && (0 <=? q) && (q <? 4 ^ z)) with true
    by (symmetry; rewrite !andb_true_iff, !Z.leb_le, Z.ltb_lt; lia).
  rewrite !andb_true_iff, !Z.leb_le, !Z.ltb_lt, Z.eqb_eq.
  pose proof (encode_decode z q ltac:(lia) Hq) as D. destruct (decode q z) as [x0 y0]. destruct D as (E & Bx & By).
  split.
  - intros ((((A1 & A2) & A3) & A4) & A5). rewrite <- encode_interleave in A5 by lia. rewrite <- E in A5.
    apply encode_injective in A5; try lia. destruct A5; subst; reflexivity.
  - intros [= -> ->]. rewrite <- encode_interleave by lia. repeat split; lia.
Qed.
Theorem check_rt_sound h x y key x' y' : 1 <= h <= 31 -> 0 <= x < 2 ^ h -> 0 <= y < 2 ^ h ->
  check_rt h x y key x' y' = true <-> key = interleave h x y /\ 0 <= key < 4 ^ h /\ x' = x /\ y' = y.
Proof.
  intros Hh Hx Hy. unfold check_rt.
  rewrite !andb_true_iff, !Z.eqb_eq, check_key_sound by assumption. tauto.
Qed.

(* ---------- size guards ----------
   The generators bound the output size of every call; the shrinker of the runner does not. The invoker refuses an over-size call with a
   marker value; the entry recomputes the estimate: marker and estimate above the cap -> class "skipped" (neither an evaluation nor a pass);
   marker without an over-size estimate, or an over-size estimate without marker -> bad-case. *)
Definition cost_limit : Z := 2000.
Definition small_zoom (z : Z) : bool := (-64 <=? z) && (z <=? 64).
(* number of IDs one ID expands to under (h, v) -> (oh, ov); None: absurdly many *)
Definition cost1 (h v oh ov : Z) : option Z :=
  let dh := Z.max 0 (oh - h) in
  let dv := Z.max 0 (ov - v) in
  if (dh <=? 8) && (dv <=? 16) then Some (4 ^ dh * 2 ^ dv) else None.
Fixpoint sum_cost (l : list (option Z)) : option Z :=
  match l with
  | [] => Some 0
  | Some c :: r => match sum_cost r with Some t => Some (c + t) | None => None end
  | None :: _ => None
  end.
Definition cost_ok (l : list (option Z)) : bool :=
  match sum_cost l with Some t => t <=? cost_limit | None => false end.
Definition ids_cost (ids : list string) (oh ov : Z) (mult : Z) : list (option Z) :=
  map (fun s => match parse_eid s with
                | Some i => match cost1 (eh i) (ev i) oh ov with Some c => Some (c * mult) | None => None end
                | None => Some 0
                end) ids.
Definition ids_cost_alt (ids : list string) (oq oa ze zo : Z) : list (option Z) :=
  map (fun s => match parse_eid s with
                | Some i =>
                    if small_zoom (ev i) && small_zoom oa && small_zoom ze then
                      match cost1 (eh i) 0 oq 0, z2key (ef i) (ev i) oa ze zo with
                      | Some c, Ok (mn, mx) => Some (c * Z.max 0 (mx - mn + 1))
                      | Some c, Err => Some 0
                      | None, _ => None
                      end
                    else None
                | None => Some 0
                end) ids.
Definition items_cost (items : list qitem) (oh ov : Z) : list (option Z) :=
  map (fun it => cost1 (qz it) (qvz it) oh ov) items.

Definition sids_cost (sids : list string) (oh ov : Z) : list (option Z) :=
  map (fun s => match sid_to_eid_str s with
                | Some e => match parse_eid e with
                            | Some i => cost1 (eh i) (ev i) oh ov
                            | None => Some 0
                            end
                | None => Some 0
                end) sids.
Definition is_skipped (obs : val) : bool := match obs with VS _ => true | _ => false end.
Definition skipped_v : verdict := mkv true true "skipped" VNil.
Definition guarded (fits : bool) (obs : val) (k : unit -> verdict) : verdict :=
  match fits, is_skipped obs with
  | false, true => skipped_v
  | true, false => k tt
  | _, _ => bad_case
  end.
(* indices so large that Go's int64 products in HorizontalZoom / VerticalZoom could wrap are not modelled (unbounded Z here) *)
Definition sane_id (s : string) : bool :=
  match parse_eid s with
  | Some i => (Z.abs (ex i) <? 2 ^ 40) && (Z.abs (ey i) <? 2 ^ 40) && (Z.abs (ef i) <? 2 ^ 40)
  | None => true
  end.

(* ---------- entries: hooks ---------- *)
(* the encoder hook is judged for zooms <= 31 only: from zoom 32 on Go's int64 sum wraps, which the unbounded model does not follow *)
Definition d_encode (args : list val) (obs : val) : verdict :=
  match args, obs with
  | [VS s], VZ key =>
      match split s with
      | [a; b; c] =>
          match parse a, parse b, parse c, encode_str s with
          | Some h, Some x, Some y, Some k =>
              if (-64 <=? h) && (h <=? 31) then mkv (k =? key) (check_key h x y key) "-" (VZ k) else bad_case
          | _, _, _, _ => bad_case
          end
      | _ => bad_case
      end
  | _, _ => bad_case
  end.

Definition d_decode (args : list val) (obs : val) : verdict :=
  match args, obs with
  | [VZ q; VZ z], VL [VZ x; VZ y] =>
      if negb (small_zoom z) then bad_case else
      let m := decode q z in
      mkv ((fst m =? x) && (snd m =? y)) (check_tile q z x y) "-" (VL [VZ (fst m); VZ (snd m)])
  | _, _ => bad_case
  end.

(* key := convertHorizontalIDToQuadkey("h/x/y"); (x', y') := convertQuadkeyToHorizontalID(key, h); observed [key; x'; y']; tiles of the grid only *)
Definition d_roundtrip_key (args : list val) (obs : val) : verdict :=
  match args, obs with
  | [VZ h; VZ x; VZ y], VL [VZ key; VZ x'; VZ y'] =>
      if negb (key_domain h x y) then bad_case else
      let k := encode h x y in
      let m := decode k h in
      mkv ((k =? key) && (fst m =? x') && (snd m =? y')) (check_rt h x y key x' y') "-" (VL [VZ k; VZ (fst m); VZ (snd m)])
  | _, _ => bad_case
  end.

Definition check_dedup (inp obs : list string) : bool := str_nodupb obs && str_seteqb obs inp.
Theorem check_dedup_sound inp obs : check_dedup inp obs = true <-> NoDup obs /\ forall s, In s obs <-> In s inp.
Proof.
  unfold check_dedup, str_nodupb, str_seteqb.
  rewrite andb_true_iff, (nodup_b_spec String.eqb String.eqb_spec), (seteqb_spec String.eqb String.eqb_spec). tauto.
Qed.
Theorem check_dedup_model inp : check_dedup inp (dedup_strings inp) = true.
Proof. apply check_dedup_sound. split; [apply dedup_strings_NoDup|]. intros s. apply dedup_strings_In. Qed.
Definition d_dedup (args : list val) (obs : val) : verdict :=
  match args with
  | [l] => match as_LS l, as_LS obs with
           | Some inp, Some o =>
               let m := dedup_strings inp in
               mkv (same_set m o && Nat.eqb (List.length m) (List.length o)) (check_dedup inp o) "-" (of_LS m)
           | _, _ => bad_case
           end
  | _ => bad_case
  end.

(* quadkeyCheckZoom: the model IS the specification (1 <= h <= 31 and 0 <= v <= 35 as integer comparisons) *)
Definition d_qcheck (args : list val) (obs : val) : verdict :=
  match args, obs with
  | [VZ h; VZ v], VB b => let m := qcheck h v in mkv (Bool.eqb m b) (Bool.eqb m b) "-" (VB m)
  | _, _ => bad_case
  end.

(* ====================================================================================================== *)
(* list level: decoding of the wire values *)
Definition par := (val * val)%type.
Definition val_eqb (a b : val) : bool :=
  match a, b with
  | VZ x, VZ y => x =? y
  | VF x, VF y => feqb_bits x y
  | _, _ => false
  end.
Definition par_eqb (a b : par) : bool := val_eqb (fst a) (fst b) && val_eqb (snd a) (snd b).

Definition dec_pair (v : val) : option pair := match v with VL [VZ q; VZ f] => Some (q, f) | _ => None end.
Definition dec_group (v : val) : option (group par) :=
  match v with
  | VL [VZ hz; VZ vz; p1; p2; ps] =>
      match as_L ps with
      | Some l => match all_opt (map dec_pair l) with
                  | Some k => Some (mkg hz vz (p1, p2) k)
                  | None => None
                  end
      | None => None
      end
  | _ => None
  end.
Definition dec_groups (v : val) : option (list (group par)) :=
  match as_L v with Some l => all_opt (map dec_group l) | None => None end.
Definition enc_group (g : group par) : val :=
  VL [VZ (g_hz g); VZ (g_vz g); fst (g_par g); snd (g_par g); VL (map (fun p => VL [VZ (fst p); VZ (snd p)]) (g_pairs g))].
Definition enc_groups (r : result (list (group par))) : val :=
  match r with Ok gs => VL (map enc_group gs) | Err => VE VNil end.
Definition enc_strs (r : result (list string)) : val := match r with Ok l => of_LS l | Err => VE VNil end.

(* items of the inverse conversion: [quadkeyZoom; quadkey; vZoom; vIndex; maxHeight; minHeight]; None: a height range
   (maxHeight > minHeight) is requested — the binary-subdivision branch, not part of this property *)
Definition dec_item (v : val) : option qitem :=
  match v with
  | VL [VZ z; VZ k; VZ vz; VZ vi; VF mx; VF mn] =>
      if (mx =? mn)%float then Some (mkq z k vz vi true)
      else if (mn <? mx)%float then None
      else Some (mkq z k vz vi false)
  | _ => None
  end.
Definition dec_items (v : val) : option (list qitem) :=
  match as_L v with Some l => all_opt (map dec_item l) | None => None end.
(* Some true: index form; Some false: refused (maxHeight < minHeight or NaN); None: height range *)
Definition height_mode (mx mn : float) : option bool :=
  if (mx =? mn)%float then Some true else if (mn <? mx)%float then None else Some false.

(* groups, in the order returned: same zooms, same parameters, same pairs (as sets, equal sizes) *)
Definition group_eqb (a b : group par) : bool :=
  (g_hz a =? g_hz b) && (g_vz a =? g_vz b) && par_eqb (g_par a) (g_par b) &&
  Nat.eqb (List.length (g_pairs a)) (List.length (g_pairs b)) && pair_seteqb (g_pairs a) (g_pairs b).
Definition corr_groups (m : result (list (group par))) (obs : val) : bool :=
  match m with
  | Err => is_err obs
  | Ok gs => if is_err obs then false else
             match dec_groups obs with
             | Some os => list_eqb group_eqb gs os &&
                          Nat.eqb (List.length (List.concat (map g_pairs gs))) (List.length (List.concat (map g_pairs os)))
             | None => false
             end
  end.
Definition corr_strs (m : result (list string)) (obs : val) : bool :=
  match m with
  | Err => is_err obs
  | Ok l => if is_err obs then false else
            match as_LS obs with Some o => same_set l o && Nat.eqb (List.length l) (List.length o) | None => false end
  end.

(* ---------- references ---------- *)
Definition zoom_ids (oh ov : Z) (i : eid) : list eid :=
  flat_map (fun hp => map (fun f => mk oh (fst hp) (snd hp) ov f) (vzoom (ev i) (ef i) ov)) (hzoom (eh i) (ex i) (ey i) oh).
(* zoom_ids needs only non-negative zooms and horizontal indices *)
Lemma zoom_ids_spec' oh ov i j : 0 <= eh i -> 0 <= ev i -> 0 <= ex i -> 0 <= ey i -> 0 <= oh -> 0 <= ov ->
  In j (zoom_ids oh ov i) <-> zrel i oh ov j.
Proof.
  intros Hh Hv Hx Hy Hoh Hov. unfold zoom_ids. rewrite in_flat_map. split.
  - intros ([x' y'] & Hp & Hj). apply in_map_iff in Hj. destruct Hj as (f & <- & Hfz).
    apply hzoom_exact in Hp; try lia. apply vzoom_exact in Hfz; try lia. unfold zrel. cbn. tauto.
  - intros (Eh & Ev & Rx & Ry & Rf). exists (ex j, ey j). split; [apply hzoom_exact; try lia; auto|].
    apply in_map_iff. exists (ef j). split; [|apply vzoom_exact; try lia; auto].
    cbn [fst snd]. destruct j; cbn in *; subst; reflexivity.
Qed.
Lemma zoom_ids_spec oh ov i j : valid i -> 0 <= oh -> 0 <= ov -> In j (zoom_ids oh ov i) <-> zrel i oh ov j.
Proof. intros (Hh & Hv & Hx & Hy & Hf). apply zoom_ids_spec'; lia. Qed.
Definition ref_pairs1 (oh ov : Z) (i : eid) : list pair := map (fun j => (interleave oh (ex j) (ey j), ef j)) (zoom_ids oh ov i).
Definition ref_pairs (oh ov : Z) (es : list eid) : list pair := flat_map (ref_pairs1 oh ov) es.
Lemma ref_pairs_spec oh ov es q f : Forall valid es -> 0 <= oh -> 0 <= ov ->
  In (q, f) (ref_pairs oh ov es) <-> exists i j, In i es /\ zrel i oh ov j /\ q = interleave oh (ex j) (ey j) /\ f = ef j.
Proof.
  intros V Hoh Hov. rewrite Forall_forall in V. unfold ref_pairs, ref_pairs1. rewrite in_flat_map. split.
  - intros (i & Hi & Hj). apply in_map_iff in Hj. destruct Hj as (j & [= <- <-] & Hj).
    apply zoom_ids_spec in Hj; auto. exists i, j. auto.
  - intros (i & j & Hi & Z & -> & ->). exists i. split; [exact Hi|]. apply in_map_iff. exists j. split; [reflexivity|].
    apply zoom_ids_spec; auto.
Qed.
Lemma flat_map_ext_in {A B} (f g : A -> list B) l : (forall a, In a l -> f a = g a) -> flat_map f l = flat_map g l.
Proof. induction l as [|a r IH]; cbn; intros H; [reflexivity|]. rewrite (H a (or_introl eq_refl)), IH; [reflexivity|]. intros b Hb. apply H. now right. Qed.
Lemma parse_all_Forall2 ids : forall es, parse_all ids = Some es -> Forall2 (fun s i => parse_eid s = Some i) ids es.
Proof.
  induction ids as [|s r IH]; cbn [parse_all]; intros es.
  - intros [= <-]. constructor.
  - destruct (parse_eid s) as [i|] eqn:E; [|discriminate]. destruct (parse_all r) as [t|]; [|discriminate].
    intros [= <-]. constructor; [exact E|]. now apply IH.
Qed.

(* ---------- checker of a list of groups against a reference pair set ---------- *)
Definition check_groups (oh ov : Z) (p : par) (exp : list pair) (gs : list (group par)) : bool :=
  forallb (fun g => (g_hz g =? oh) && (g_vz g =? ov) && par_eqb (g_par g) p && negb (Nat.eqb (List.length (g_pairs g)) 0)) gs &&
  pair_nodupb (List.concat (map g_pairs gs)) &&
  pair_seteqb (List.concat (map g_pairs gs)) exp.
Theorem check_groups_sound oh ov p exp gs : check_groups oh ov p exp gs = true <->
  (forall g, In g gs -> g_hz g = oh /\ g_vz g = ov /\ par_eqb (g_par g) p = true /\ g_pairs g <> []) /\
  NoDup (List.concat (map g_pairs gs)) /\
  (forall x, In x (List.concat (map g_pairs gs)) <-> In x exp).
Proof.
  unfold check_groups, pair_nodupb, pair_seteqb.
  rewrite !andb_true_iff, forallb_forall, (nodup_b_spec pair_eqb pair_eqb_spec), (seteqb_spec pair_eqb pair_eqb_spec).
  assert (E : (forall g, In g gs -> (g_hz g =? oh) && (g_vz g =? ov) && par_eqb (g_par g) p && negb (Nat.eqb (List.length (g_pairs g)) 0) = true) <->
              (forall g, In g gs -> g_hz g = oh /\ g_vz g = ov /\ par_eqb (g_par g) p = true /\ g_pairs g <> [])).
  { split; intros H g Hg; specialize (H g Hg).
    - rewrite !andb_true_iff, !Z.eqb_eq, negb_true_iff, Nat.eqb_neq in H. destruct H as (((A & B) & C) & D).
      repeat split; auto. intros N. rewrite N in D. now apply D.
    - rewrite !andb_true_iff, !Z.eqb_eq, negb_true_iff, Nat.eqb_neq. destruct H as (A & B & C & D).
      repeat split; auto. destruct (g_pairs g); [congruence|discriminate]. }
  rewrite E. tauto.
Qed.

(* ---------- ConvertExtendedSpatialIDsToQuadkeysAndVerticalIDs / ConvertSpatialIDsToQuadkeysAndVerticalIDs ---------- *)
(* the property's domain: every ID is the text of a valid ID *)
Definition ids_domain (ids : list string) : option (list eid) :=
  match parse_all ids with
  | Some es => if forallb validb es then Some es else None
  | None => None
  end.
Lemma ids_domain_spec ids es : ids_domain ids = Some es -> parse_all ids = Some es /\ Forall valid es.
Proof.
  unfold ids_domain. destruct (parse_all ids) as [l|]; [|discriminate]. destruct (forallb validb l) eqn:V; [|discriminate].
  intros [= <-]. split; [reflexivity|]. apply Forall_forall. intros i Hi. apply validb_spec. rewrite forallb_forall in V. now apply V.
Qed.

(* requests the model refuses: output zooms outside 1..31 x 0..35; an ID that is malformed or has a zoom outside 0..35; inverted heights
   (or NaN) with at least one ID *)
Definition id_refused (s : string) : bool :=
  match parse_eid s with None => true | Some i => negb (echeck (eh i) (ev i)) end.
Definition must_err_e2q (ids : list string) (oh ov : Z) (idx : bool) : bool :=
  negb (qcheck oh ov) || existsb id_refused ids || (negb idx && match ids with [] => false | _ => true end).
Theorem must_err_e2q_sound {P} (par : P) ids oh ov idx : must_err_e2q ids oh ov idx = true -> e2q par idx ids oh ov = Err.
Proof.
  unfold must_err_e2q. rewrite !orb_true_iff. intros [[H|H]|H].
  - apply e2q_bad_zoom. now apply negb_true_iff.
  - apply existsb_exists in H. destruct H as (s & Hs & Hr). unfold e2q. apply (conv_refuses _ _ _ _ ids s Hs).
    unfold id_refused in Hr. unfold id_pairs. destruct (parse_eid s) as [i|]; [|reflexivity]. now rewrite Hr.
  - apply andb_true_iff in H. destruct H as [Hi Hn]. apply negb_true_iff in Hi. subst idx.
    apply e2q_inverted_heights. destruct ids; [discriminate|discriminate].
Qed.
Lemma domain_not_refused ids es : ids_domain ids = Some es -> existsb id_refused ids = false.
Proof.
  intros D. destruct (ids_domain_spec ids es D) as (Pa & V). apply parse_all_Forall2 in Pa. clear D.
  induction Pa as [|s i r t Hs F IH]; [reflexivity|]. cbn [existsb]. inversion V as [|? ? Vi Vt]; subst.
  rewrite (IH Vt), orb_false_r. unfold id_refused. rewrite Hs. destruct (valid_nonneg i Vi) as (_ & E & _). now rewrite E.
Qed.

(* expected pairs, per element: a valid ID by the reference, an accepted ID outside the grid by the model's own per-ID answer *)
Definition elem_pairs (oh ov : Z) (i : eid) : list pair :=
  if validb i then ref_pairs1 oh ov i else list_prod (hkeys oh i) (nodupb Z.eqb (vzoom (ev i) (ef i) ov)).
Definition exp_pairs (oh ov : Z) (es : list eid) : list pair := flat_map (elem_pairs oh ov) es.
Lemma exp_pairs_valid oh ov es : Forall valid es -> exp_pairs oh ov es = ref_pairs oh ov es.
Proof.
  intros V. rewrite Forall_forall in V. apply flat_map_ext_in. intros i Hi. unfold elem_pairs.
  now rewrite (proj2 (validb_spec i) (V i Hi)).
Qed.

Definition check_e2q (ids : list string) (oh ov : Z) (idx : bool) (p : par) (obs : val) : bool :=
  if must_err_e2q ids oh ov idx then is_err obs
  else match parse_all ids with
       | Some es =>
           if is_err obs then false else
           match dec_groups obs with
           | Some gs => check_groups oh ov p (exp_pairs oh ov es) gs
           | None => false
           end
       | None => false
       end.

Definition d_e2q_gen (sid : bool) (args : list val) (obs : val) : verdict :=
  match args with
  | [l; VZ oh; VZ ov; VF mx; VF mn] =>
      match as_LS l, height_mode mx mn with
      | Some ids0, Some idx =>
          let conv := if sid then sids_to_eids ids0 else Ok ids0 in
          let cost := if sid then sids_cost ids0 oh ov else ids_cost ids0 oh ov 1 in
          guarded (cost_ok cost) obs (fun _ =>
            match conv with
            | Err => mkv (is_err obs) (is_err obs) "-" (VE VNil)        (* a spatial ID without four fields: refused (C11_malformed_spatial_id_refused) *)
            | Ok ids =>
                if negb (forallb sane_id ids) then bad_case else
                let m := e2q (VF mx, VF mn) idx ids oh ov in
                mkv (corr_groups m obs) (check_e2q ids oh ov idx (VF mx, VF mn) obs) "-" (enc_groups m)
            end)
      | _, _ => bad_case
      end
  | _ => bad_case
  end.
Definition d_e2q := d_e2q_gen false.
Definition d_s2q := d_e2q_gen true.

(* ---------- ConvertExtendedSpatialIDsToQuadkeysAndAltitudekeys ---------- *)
Definition alt_refused (oa ze zo : Z) (s : string) : bool :=
  match parse_eid s with
  | None => true
  | Some i => negb (echeck (eh i) (ev i)) || negb (is_ok (z2key (ef i) (ev i) oa ze zo))
  end.
Definition must_err_e2qa (ids : list string) (oq oa ze zo : Z) : bool :=
  negb (qcheck oq oa) || existsb (alt_refused oa ze zo) ids.
Theorem must_err_e2qa_sound ids oq oa ze zo : must_err_e2qa ids oq oa ze zo = true -> e2qa ids oq oa ze zo = Err.
Proof.
  unfold must_err_e2qa. rewrite orb_true_iff. intros [H|H].
  - unfold e2qa, conv. now rewrite H.
  - apply existsb_exists in H. destruct H as (s & Hs & Hr). unfold e2qa. apply (conv_refuses _ _ _ _ ids s Hs).
    unfold alt_refused in Hr. unfold id_pairs, vert_alt. destruct (parse_eid s) as [i|]; [|reflexivity].
    destruct (negb (echeck (eh i) (ev i))); [reflexivity|]. cbn [orb] in Hr.
    destruct (z2key (ef i) (ev i) oa ze zo) as [[mn mx]|]; [discriminate|reflexivity].
Qed.
Definition elem_pairs_alt (oq oa ze zo : Z) (i : eid) : list pair :=
  match z2key (ef i) (ev i) oa ze zo with
  | Ok (mn, mx) =>
      list_prod (if validb i then map (fun hp => interleave oq (fst hp) (snd hp)) (hzoom (eh i) (ex i) (ey i) oq) else hkeys oq i) (zrange mn mx)
  | Err => []
  end.
Definition check_e2qa (ids : list string) (oq oa ze zo : Z) (obs : val) : bool :=
  if must_err_e2qa ids oq oa ze zo then is_err obs
  else match parse_all ids with
       | Some es =>
           if is_err obs then false else
           match dec_groups obs with
           | Some gs => check_groups oq oa (VZ ze, VZ zo) (flat_map (elem_pairs_alt oq oa ze zo) es) gs
           | None => false
           end
       | None => false
       end.
Definition lift_par (g : group (Z * Z)) : group par := mkg (g_hz g) (g_vz g) (VZ (fst (g_par g)), VZ (snd (g_par g))) (g_pairs g).
Definition d_e2qa (args : list val) (obs : val) : verdict :=
  match args with
  | [l; VZ oq; VZ oa; VZ ze; VZ zo] =>
      match as_LS l with
      | Some ids =>
          guarded (cost_ok (ids_cost_alt ids oq oa ze zo)) obs (fun _ =>
            if negb (forallb sane_id ids) || negb (Z.abs zo <? 2 ^ 40) then bad_case else
            let m := match e2qa ids oq oa ze zo with Ok gs => Ok (map lift_par gs) | Err => Err end in
            mkv (corr_groups m obs) (check_e2qa ids oq oa ze zo obs) "-" (enc_groups m))
      | None => bad_case
      end
  | _ => bad_case
  end.

(* ---------- ConvertQuadkeysAndVerticalIDsToExtendedSpatialIDs / ...ToSpatialIDs ---------- *)
(* reference tile of a key: the value-level decoder (not the string walk) *)
Definition tile_ref (it : qitem) : eid :=
  let xy := dec (Z.to_nat (qz it)) (qk it) in mk (qz it) (fst xy) (snd xy) (qvz it) (qvi it).
Definition qvalidb (it : qitem) : bool :=
  qcheck (qz it) (qvz it) && (0 <=? qk it) && (qk it <? 4 ^ qz it) && qidx it.
Lemma qvalidb_spec it : qvalidb it = true <-> qvalid it.
Proof. unfold qvalidb, qvalid. rewrite !andb_true_iff, Z.leb_le, Z.ltb_lt. tauto. Qed.
Lemma tile_ref_of it : qvalid it -> tile_ref it = tile_of it.
Proof.
  intros (Hc & Hk & _). apply qcheck_spec in Hc. unfold tile_ref, tile_of.
  rewrite <- (decode_dec (Z.to_nat (qz it)) (qk it)) by (rewrite ?Z2Nat.id; lia). now rewrite Z2Nat.id by lia.
Qed.
Definition ref_ids (oh ov : Z) (items : list qitem) : list eid := flat_map (fun it => zoom_ids oh ov (tile_ref it)) items.

Lemma tile_of_valid_h it : qvalid it -> 0 <= eh (tile_of it) /\ 0 <= ev (tile_of it) /\ 0 <= ex (tile_of it) /\ 0 <= ey (tile_of it).
Proof.
  intros V. pose proof (tile_of_valid it V) as (Bx & By & _). destruct V as (Hc & _). apply qcheck_spec in Hc.
  unfold tile_of in *. cbn [eh ev ex ey mk] in *. lia.
Qed.
Lemma ref_ids_spec oh ov items j : Forall qvalid items -> 0 <= oh -> 0 <= ov ->
  In j (ref_ids oh ov items) <-> exists it, In it items /\ zrel (tile_of it) oh ov j.
Proof.
  intros F Hoh Hov. rewrite Forall_forall in F. unfold ref_ids. rewrite in_flat_map. split.
  - intros (it & Hit & Hj). rewrite (tile_ref_of it (F it Hit)) in Hj.
    destruct (tile_of_valid_h it (F it Hit)) as (A & B & C & D). apply zoom_ids_spec' in Hj; try lia. eauto.
  - intros (it & Hit & Z). exists it. split; [exact Hit|]. rewrite (tile_ref_of it (F it Hit)).
    destruct (tile_of_valid_h it (F it Hit)) as (A & B & C & D). apply zoom_ids_spec'; try lia. exact Z.
Qed.

Definition check_strs (exp obs : list string) : bool := str_nodupb obs && str_seteqb obs exp.
Theorem check_strs_sound exp obs : check_strs exp obs = true <-> NoDup obs /\ forall s, In s obs <-> In s exp.
Proof. exact (check_dedup_sound exp obs). Qed.

(* requests the model refuses: output zooms outside 0..35; an element with zooms outside 1..31 x 0..35, a key above the literal limit, or
   inverted heights *)
Definition must_err_q2e (items : list qitem) (oh ov : Z) : bool := negb (echeck oh ov) || existsb item_refused items.
Theorem must_err_q2e_sound items oh ov : must_err_q2e items oh ov = true -> q2e items oh ov = Err.
Proof.
  unfold must_err_q2e. rewrite orb_true_iff. intros [H|H].
  - apply q2e_bad_zoom. now apply negb_true_iff.
  - apply existsb_exists in H. destruct H as (it & Hit & Hr). now apply (q2e_refuses items oh ov it).
Qed.
Lemma qvalid_not_refused items : Forall qvalid items -> existsb item_refused items = false.
Proof.
  induction 1 as [|it r V F IH]; [reflexivity|]. cbn [existsb]. rewrite IH, orb_false_r.
  destruct V as (Hc & Hk & Hi). unfold item_refused. rewrite Hc, Hi. cbn [negb orb]. rewrite orb_false_r.
  apply Z.ltb_ge. pose proof Hc as Hc'. apply qcheck_spec in Hc'. pose proof (pow4_le_limit (qz it) ltac:(lia)). lia.
Qed.
(* per element: a valid key by the reference decoder, an accepted key outside [0, 4^zoom) by the model's own decoder *)
Definition elem_ids (oh ov : Z) (it : qitem) : list eid := zoom_ids oh ov (if qvalidb it then tile_ref it else tile_of it).
Lemma elem_ids_valid oh ov items : Forall qvalid items -> flat_map (elem_ids oh ov) items = ref_ids oh ov items.
Proof.
  intros F. rewrite Forall_forall in F. apply flat_map_ext_in. intros it Hit. unfold elem_ids.
  now rewrite (proj2 (qvalidb_spec it) (F it Hit)).
Qed.

Definition check_q2e (items : list qitem) (oh ov : Z) (obs : val) : bool :=
  if must_err_q2e items oh ov then is_err obs
  else if is_err obs then false else
    match as_LS obs with
    | Some o => check_strs (map print_eid (flat_map (elem_ids oh ov) items)) o
    | None => false
    end.
Definition check_q2s (items : list qitem) (z : Z) (obs : val) : bool :=
  if must_err_q2e items z z then is_err obs
  else if is_err obs then false else
    match as_LS obs with
    | Some o => check_strs (map (fun j => print_sid z (ef j) (ex j) (ey j)) (flat_map (elem_ids z z) items)) o
    | None => false
    end.

Definition sane_item (it : qitem) : bool := Z.abs (qvi it) <? 2 ^ 40.
Definition d_q2e (args : list val) (obs : val) : verdict :=
  match args with
  | [l; VZ oh; VZ ov] =>
      match dec_items l with
      | Some items => guarded (cost_ok (items_cost items oh ov)) obs (fun _ =>
                        if negb (forallb sane_item items) then bad_case else
                        let m := q2e items oh ov in mkv (corr_strs m obs) (check_q2e items oh ov obs) "-" (enc_strs m))
      | None => bad_case
      end
  | _ => bad_case
  end.
Definition d_q2s (args : list val) (obs : val) : verdict :=
  match args with
  | [l; VZ z] =>
      match dec_items l with
      | Some items => guarded (cost_ok (items_cost items z z)) obs (fun _ =>
                        if negb (forallb sane_item items) then bad_case else
                        let m := q2s items z in mkv (corr_strs m obs) (check_q2s items z obs) "-" (enc_strs m))
      | None => bad_case
      end
  | _ => bad_case
  end.

(* ---------- round trip: IDs -> groups at (oh, ov) -> IDs at (bh, bv); observed [groups; back], or an error if either call failed ---------- *)
Definition same_zooms (es : list eid) (oh ov bh bv : Z) : bool :=
  forallb (fun i => (eh i =? oh) && (ev i =? ov)) es && (bh =? oh) && (bv =? ov).
Definition exp2 (oh ov bh bv : Z) (es : list eid) : list string :=
  map print_eid (flat_map (zoom_ids bh bv) (flat_map (zoom_ids oh ov) es)).
Definition check_roundtrip (ids : list string) (oh ov bh bv : Z) (p : par) (obs : val) : bool :=
  if must_err_e2q ids oh ov true || negb (echeck bh bv) then is_err obs
  else match parse_all ids with
       | Some es =>
           match obs with
           | VL [og; ob] =>
               match as_LS ob with
               | Some back =>
                   check_e2q ids oh ov true p og &&
                   (if forallb validb es
                    then check_strs (exp2 oh ov bh bv es) back &&
                         (if same_zooms es oh ov bh bv then str_seteqb back (map print_eid es) else true)
                    else (* a member outside the grid was accepted: no ID twice, and the valid members' IDs are all there *)
                         str_nodupb back && inclb String.eqb (exp2 oh ov bh bv (filter validb es)) back)
               | None => false
               end
           | _ => false
           end
       | None => false
       end.
Definition roundtrip_model (ids : list string) (oh ov bh bv : Z) (p : par) : result (list (group par) * list string) :=
  match e2q p true ids oh ov with
  | Err => Err
  | Ok gs => match q2e (items_of gs) bh bv with Err => Err | Ok back => Ok (gs, back) end
  end.
Definition d_roundtrip (args : list val) (obs : val) : verdict :=
  match args with
  | [l; VZ oh; VZ ov; VF mx; VF mn; VZ bh; VZ bv] =>
      match as_LS l, height_mode mx mn with
      | Some ids, Some true =>
          guarded (match cost1 oh ov bh bv with Some c => cost_ok (ids_cost ids oh ov c) | None => false end) obs (fun _ =>
            if negb (forallb sane_id ids) then bad_case else
            let p := (VF mx, VF mn) in
            match roundtrip_model ids oh ov bh bv p with
            | Err => mkv (is_err obs) (check_roundtrip ids oh ov bh bv p obs) "-" (VE VNil)
            | Ok (gs, back) =>
                let c := match obs with
                         | VL [og; ob] => corr_groups (Ok gs) og && corr_strs (Ok back) ob
                         | _ => false
                         end in
                mkv c (check_roundtrip ids oh ov bh bv p obs) "-" (VL [enc_groups (Ok gs); of_LS back])
            end)
      | _, _ => bad_case
      end
  | _ => bad_case
  end.

(* ====================================================================================================== *)
(* soundness of the list-level checkers: inside the quantifier, acceptance = the Prop-level statement on the observed output *)
Lemma domain_e2q ids es oh ov : ids_domain ids = Some es -> qcheck oh ov = true ->
  must_err_e2q ids oh ov true = false /\ parse_all ids = Some es /\ exp_pairs oh ov es = ref_pairs oh ov es /\ forallb validb es = true.
Proof.
  intros D Hq. destruct (ids_domain_spec ids es D) as (Pa & V). unfold must_err_e2q.
  rewrite Hq, (domain_not_refused ids es D). cbn. repeat split; auto. now apply exp_pairs_valid.
  apply forallb_forall. intros i Hi. apply validb_spec. rewrite Forall_forall in V. now apply V.
Qed.

Theorem check_e2q_sound ids es oh ov p gs obs : ids_domain ids = Some es -> qcheck oh ov = true ->
  is_err obs = false -> dec_groups obs = Some gs ->
  check_e2q ids oh ov true p obs = true <->
  (forall g, In g gs -> g_hz g = oh /\ g_vz g = ov /\ par_eqb (g_par g) p = true /\ g_pairs g <> []) /\
  NoDup (List.concat (map g_pairs gs)) /\
  (forall q f, In (q, f) (List.concat (map g_pairs gs)) <->
     exists i j, In i es /\ zrel i oh ov j /\ q = interleave oh (ex j) (ey j) /\ f = ef j).
Proof.
  intros D Hq He Hg. destruct (domain_e2q ids es oh ov D Hq) as (M & Pa & Ex & _).
  unfold check_e2q. rewrite M, Pa, He, Hg, Ex. rewrite check_groups_sound.
  destruct (ids_domain_spec ids es D) as (_ & V). apply qcheck_spec in Hq.
  split; intros (A & B & C); (split; [exact A|split; [exact B|]]).
  - intros q f. rewrite C. apply ref_pairs_spec; auto; lia.
  - intros [q f]. rewrite C. symmetry. apply ref_pairs_spec; auto; lia.
Qed.
(* in the domain an error is rejected; a refused request must be answered with an error *)
Theorem check_e2q_rejects_error ids es oh ov p obs : ids_domain ids = Some es -> qcheck oh ov = true -> is_err obs = true ->
  check_e2q ids oh ov true p obs = false.
Proof. intros D Hq He. destruct (domain_e2q ids es oh ov D Hq) as (M & Pa & _). unfold check_e2q. now rewrite M, Pa, He. Qed.
Theorem check_e2q_demands_error ids oh ov idx p obs : must_err_e2q ids oh ov idx = true -> check_e2q ids oh ov idx p obs = is_err obs.
Proof. intros M. unfold check_e2q. now rewrite M. Qed.

Theorem check_q2e_sound items oh ov o obs : Forall qvalid items -> echeck oh ov = true -> is_err obs = false -> as_LS obs = Some o ->
  check_q2e items oh ov obs = true <->
  NoDup o /\ forall s, In s o <-> exists it j, In it items /\ zrel (tile_of it) oh ov j /\ s = print_eid j.
Proof.
  intros F He Hn Ho. unfold check_q2e, must_err_q2e. rewrite He, (qvalid_not_refused items F). cbn [negb orb].
  rewrite Hn, Ho, (elem_ids_valid oh ov items F). rewrite check_strs_sound. apply echeck_spec in He.
  assert (R : forall s, In s (map print_eid (ref_ids oh ov items)) <-> exists it j, In it items /\ zrel (tile_of it) oh ov j /\ s = print_eid j).
  { intros s. rewrite in_map_iff. split.
    - intros (j & <- & Hj). apply ref_ids_spec in Hj; auto; try lia. destruct Hj as (it & Hit & Z). eauto.
    - intros (it & j & Hit & Z & ->). exists j. split; [reflexivity|]. apply ref_ids_spec; auto; try lia. eauto. }
  split; intros (A & B); (split; [exact A|]); intros s; rewrite B; [apply R|symmetry; apply R].
Qed.
Theorem check_q2e_demands_error items oh ov obs : must_err_q2e items oh ov = true -> check_q2e items oh ov obs = is_err obs.
Proof. intros M. unfold check_q2e. now rewrite M. Qed.

Theorem check_q2s_sound items z o obs : Forall qvalid items -> echeck z z = true -> is_err obs = false -> as_LS obs = Some o ->
  check_q2s items z obs = true <->
  NoDup o /\ forall s, In s o <-> exists it j, In it items /\ zrel (tile_of it) z z j /\ s = print_sid z (ef j) (ex j) (ey j).
Proof.
  intros F He Hn Ho. unfold check_q2s, must_err_q2e. rewrite He, (qvalid_not_refused items F). cbn [negb orb].
  rewrite Hn, Ho, (elem_ids_valid z z items F). rewrite check_strs_sound. apply echeck_spec in He.
  assert (R : forall s, In s (map (fun j => print_sid z (ef j) (ex j) (ey j)) (ref_ids z z items)) <->
                        exists it j, In it items /\ zrel (tile_of it) z z j /\ s = print_sid z (ef j) (ex j) (ey j)).
  { intros s. rewrite in_map_iff. split.
    - intros (j & <- & Hj). apply ref_ids_spec in Hj; auto; try lia. destruct Hj as (it & Hit & Z). eauto.
    - intros (it & j & Hit & Z & ->). exists j. split; [reflexivity|]. apply ref_ids_spec; auto; try lia. eauto. }
  split; intros (A & B); (split; [exact A|]); intros s; rewrite B; [apply R|symmetry; apply R].
Qed.

(* the altitude-key checker: acceptance = the statement of C11_ids_to_altitudekey_pairs on the observed groups *)
Lemma elem_pairs_alt_spec oq oa E O es q k : Forall valid es -> 0 <= oq ->
  In (q, k) (flat_map (elem_pairs_alt oq oa E O) es) <->
  exists i x' y' mn mx, In i es /\ rel1 (eh i) (ex i) oq x' /\ rel1 (eh i) (ey i) oq y' /\ q = interleave oq x' y' /\
                      z2key (ef i) (ev i) oa E O = Ok (mn, mx) /\ mn <= k <= mx.
Proof.
  intros V Hoq. rewrite Forall_forall in V. rewrite in_flat_map. unfold elem_pairs_alt. split.
  - intros (i & Hi & Hin). rewrite (proj2 (validb_spec i) (V i Hi)) in Hin.
    destruct (z2key (ef i) (ev i) oa E O) as [[mn mx]|] eqn:Ez; [|contradiction].
    apply in_prod_iff in Hin. destruct Hin as [Hq Hk]. apply in_map_iff in Hq. destruct Hq as ([x' y'] & <- & Hh).
    pose proof (V i Hi) as (Hh0 & Hv0 & Hx & Hy & _). apply hzoom_exact in Hh; try lia. apply in_zrange in Hk.
    exists i, x', y', mn, mx. cbn [fst snd]. tauto.
  - intros (i & x' & y' & mn & mx & Hi & Rx & Ry & -> & Ez & Hk).
    exists i. split; [exact Hi|]. rewrite Ez, (proj2 (validb_spec i) (V i Hi)).
    pose proof (V i Hi) as (Hh0 & Hv0 & Hx & Hy & _).
    apply in_prod_iff. split; [|apply in_zrange; lia].
    apply in_map_iff. exists (x', y'). split; [reflexivity|]. apply hzoom_exact; try lia. auto.
Qed.
Theorem check_e2qa_sound ids es oq oa E O gs obs : ids_domain ids = Some es -> qcheck oq oa = true ->
  (forall i, In i es -> is_ok (z2key (ef i) (ev i) oa E O) = true) -> is_err obs = false -> dec_groups obs = Some gs ->
  check_e2qa ids oq oa E O obs = true <->
  (forall g, In g gs -> g_hz g = oq /\ g_vz g = oa /\ par_eqb (g_par g) (VZ E, VZ O) = true /\ g_pairs g <> []) /\
  NoDup (List.concat (map g_pairs gs)) /\
  (forall q k, In (q, k) (List.concat (map g_pairs gs)) <->
     exists i x' y' mn mx, In i es /\ rel1 (eh i) (ex i) oq x' /\ rel1 (eh i) (ey i) oq y' /\ q = interleave oq x' y' /\
       z2key (ef i) (ev i) oa E O = Ok (mn, mx) /\ mn <= k <= mx).
Proof.
  intros D Hq Hz He Hg. destruct (ids_domain_spec ids es D) as (Pa & V).
  assert (M : must_err_e2qa ids oq oa E O = false).
  { unfold must_err_e2qa. rewrite Hq. cbn [negb orb]. pose proof Pa as F2. apply parse_all_Forall2 in F2.
    clear Pa D. induction F2 as [|s i r t Hs F IH]; [reflexivity|]. cbn [existsb]. inversion V as [|? ? Vi Vt]; subst.
    rewrite IH; [|intros j Hj; apply Hz; now right|exact Vt]. rewrite orb_false_r. unfold alt_refused. rewrite Hs.
    destruct (valid_nonneg i Vi) as (_ & E' & _). rewrite E', (Hz i (or_introl eq_refl)). reflexivity. }
  unfold check_e2qa. rewrite M, Pa, He, Hg. rewrite check_groups_sound. apply qcheck_spec in Hq.
  split; intros (A & B & C); (split; [exact A|split; [exact B|]]).
  - intros q k. rewrite C. apply elem_pairs_alt_spec; auto; lia.
  - intros [q k]. rewrite C. symmetry. apply elem_pairs_alt_spec; auto; lia.
Qed.
Theorem check_e2qa_demands_error ids oq oa E O obs : must_err_e2qa ids oq oa E O = true -> check_e2qa ids oq oa E O obs = is_err obs.
Proof. intros M. unfold check_e2qa. now rewrite M. Qed.

(* two successive zoom changes, as computed by the round-trip checker *)
Lemma zoom2_spec es oh ov bh bv j : Forall valid es -> 0 <= oh -> 0 <= ov -> 0 <= bh -> 0 <= bv ->
  In j (flat_map (zoom_ids bh bv) (flat_map (zoom_ids oh ov) es)) <->
  exists i m, In i es /\ zrel i oh ov m /\ zrel m bh bv j.
Proof.
  intros V Hoh Hov Hbh Hbv. rewrite Forall_forall in V. rewrite in_flat_map. split.
  - intros (m & Hm & Hj). apply in_flat_map in Hm. destruct Hm as (i & Hi & Hm).
    apply zoom_ids_spec in Hm; auto. destruct (zrel_valid_h i oh ov m (V i Hi) Hoh Hm) as (Bx & By).
    pose proof Hm as (Eh & Ev & _). apply zoom_ids_spec' in Hj; try lia. eauto.
  - intros (i & m & Hi & Zm & Zj). exists m. split.
    + apply in_flat_map. exists i. split; [exact Hi|]. apply zoom_ids_spec; auto.
    + destruct (zrel_valid_h i oh ov m (V i Hi) Hoh Zm) as (Bx & By). pose proof Zm as (Eh & Ev & _).
      apply zoom_ids_spec'; try lia. exact Zj.
Qed.

(* the round-trip checker: acceptance = the statements of C11_ids_to_pairs, C11_round_trip_is_zoom_change and (same zooms)
   C11_round_trip_exact on the observed groups and IDs *)
Theorem check_roundtrip_sound ids es oh ov bh bv p og ob gs back : ids_domain ids = Some es ->
  qcheck oh ov = true -> echeck bh bv = true -> is_err og = false -> dec_groups og = Some gs -> as_LS ob = Some back ->
  check_roundtrip ids oh ov bh bv p (VL [og; ob]) = true <->
  ((forall g, In g gs -> g_hz g = oh /\ g_vz g = ov /\ par_eqb (g_par g) p = true /\ g_pairs g <> []) /\
   NoDup (List.concat (map g_pairs gs)) /\
   (forall q f, In (q, f) (List.concat (map g_pairs gs)) <->
      exists i j, In i es /\ zrel i oh ov j /\ q = interleave oh (ex j) (ey j) /\ f = ef j)) /\
  NoDup back /\
  (forall s, In s back <-> exists i m j, In i es /\ zrel i oh ov m /\ zrel m bh bv j /\ s = print_eid j) /\
  (same_zooms es oh ov bh bv = true -> forall s, In s back <-> In s (map print_eid es)).
Proof.
  intros D Hq He Hn Hg Hb. destruct (domain_e2q ids es oh ov D Hq) as (M & Pa & _ & Fv).
  unfold check_roundtrip. rewrite M, He, Pa, Hb, Fv. cbn [negb orb].
  rewrite !andb_true_iff, (check_e2q_sound ids es oh ov p gs og D Hq Hn Hg), check_strs_sound.
  destruct (ids_domain_spec ids es D) as (_ & V). apply qcheck_spec in Hq. apply echeck_spec in He.
  assert (R : forall s, In s (exp2 oh ov bh bv es) <-> exists i m j, In i es /\ zrel i oh ov m /\ zrel m bh bv j /\ s = print_eid j).
  { intros s. unfold exp2. rewrite in_map_iff. split.
    - intros (j & <- & Hj). apply zoom2_spec in Hj; auto; try lia. destruct Hj as (i & m & A & B & C). exists i, m, j. auto.
    - intros (i & m & j & A & B & C & ->). exists j. split; [reflexivity|]. apply zoom2_spec; auto; try lia. eauto. }
  assert (S : (if same_zooms es oh ov bh bv then str_seteqb back (map print_eid es) else true) = true <->
              (same_zooms es oh ov bh bv = true -> forall s, In s back <-> In s (map print_eid es))).
  { destruct (same_zooms es oh ov bh bv).
    - unfold str_seteqb. rewrite (seteqb_spec String.eqb String.eqb_spec). tauto.
    - split; [discriminate|reflexivity]. }
  rewrite S. split.
  - intros (A & ((N & B) & C)). split; [exact A|split; [exact N|split; [|exact C]]]. intros s. rewrite B. apply R.
  - intros (A & N & B & C). split; [exact A|split; [split; [exact N|]|exact C]]. intros s. rewrite B. symmetry. apply R.
Qed.

(* ---------- Params: the quadkey-side objects, constructor + setter sequences read back through every getter ----------
   args [slices; steps]: slices = the caller's [][2]int64 values; step = [target slot 0/1; kind; ...] (see dec_step).
   observed [snapshots; final slices]: after every step both objects through all their getters ([int64 getters; float getters; InnerIDList()]),
   at the end the caller's slices (a write through the slice a getter returned must be visible to the caller: same backing array).
   The specification of these record-like objects is the model itself (QuadkeyObj.v: each setter updates exactly its field, heights bit for bit
   and independent of each other, the slice is stored without copying); corr = prop = observation equals the model's read-back. *)
Definition dec_nat (v : val) : option nat := match v with VZ z => if 0 <=? z then Some (Z.to_nat z) else None | _ => None end.
Definition dec_ref (v : val) : option (option nat) :=
  match v with VZ z => if z =? -1 then Some None else if 0 <=? z then Some (Some (Z.to_nat z)) else None | _ => None end.
Definition dec_step (v : val) : option (bool * step) :=
  match v with
  | VL (VZ t :: VS k :: a) =>
      let tb := negb (t =? 0) in
      match a with
      | [VZ qz; r; VZ vz; VF mx; VF mn] =>
          if String.eqb k "NewV" then match dec_ref r with Some rr => Some (tb, SNewV qz rr vz mx mn) | None => None end else None
      | [VZ qz; r; VZ az; VZ e; VZ off] =>
          if String.eqb k "NewA" then match dec_ref r with Some rr => Some (tb, SNewA qz rr az e off) | None => None end else None
      | [VZ qz; VZ key; VZ vz; VZ vi; VF mx; VF mn] => if String.eqb k "NewQ" then Some (tb, SNewQ qz key vz vi mx mn) else None
      | [VS name; VZ z] => if String.eqb k "SetZ" then Some (tb, SSetZ name z) else None
      | [VS name; VF f] => if String.eqb k "SetF" then Some (tb, SSetF name f) else None
      | [r] => if String.eqb k "SetInner" then match dec_ref r with Some rr => Some (tb, SSetInner rr) | None => None end else None
      | [sid; idx; VZ q; VZ kk] =>
          if String.eqb k "CallerWrite" then match dec_nat sid, dec_nat idx with Some a1, Some a2 => Some (tb, SCallerWrite a1 a2 (q, kk)) | _, _ => None end
          else None
      | [idx; VZ q; VZ kk] =>
          if String.eqb k "GetterWrite" then match dec_nat idx with Some a2 => Some (tb, SGetterWrite a2 (q, kk)) | None => None end else None
      | _ => None
      end
  | _ => None
  end.
Definition dec_pairs (v : val) : option (list pair) := match as_L v with Some l => all_opt (map dec_pair l) | None => None end.
Definition dec_store (v : val) : option store := match as_L v with Some l => all_opt (map dec_pairs l) | None => None end.
Definition enc_pairs (l : list pair) : val := VL (map (fun p => VL [VZ (fst p); VZ (snd p)]) l).
Definition enc_snap (sn : snap) : val := let '(zs, fs, ps) := sn in VL [of_LZ zs; VL (map VF fs); enc_pairs ps].
Definition snap_eqb (sn : snap) (v : val) : bool :=
  let '(zs, fs, ps) := sn in
  match v with
  | VL [oz; VL ofs; op] =>
      match as_LZ oz, all_opt (map as_F ofs), dec_pairs op with
      | Some z', Some f', Some p' => list_eqb Z.eqb zs z' && list_eqb feqb_bits fs f' && list_eqb pair_eqb ps p'
      | _, _, _ => false
      end
  | _ => false
  end.
Fixpoint all2 {A B} (f : A -> B -> bool) (la : list A) (lb : list B) : bool :=
  match la, lb with
  | [], [] => true
  | a :: ra, b :: rb => f a b && all2 f ra rb
  | _, _ => false
  end.
Definition params_eqb (m : list (snap * snap) * store) (obs : val) : bool :=
  match obs with
  | VL [VL osn; ost] =>
      all2 (fun sn v => match v with VL [a; b] => snap_eqb (fst sn) a && snap_eqb (snd sn) b | _ => false end) (fst m) osn &&
      match dec_store ost with Some st => list_eqb (list_eqb pair_eqb) (snd m) st | None => false end
  | _ => false
  end.
Definition d_params (args : list val) (obs : val) : verdict :=
  if is_skipped obs then bad_case else       (* the invoker refused a step list that is not well formed (shrinker only) *)
  match args with
  | [sl; VL steps] =>
      match dec_store sl, all_opt (map dec_step steps) with
      | Some st, Some l =>
          if Nat.ltb 64 (List.length l) then bad_case else
          match run_steps None None st l with
          | Some m => let ok := params_eqb m obs in
                      mkv ok ok "-" (VL [VL (map (fun sn => VL [enc_snap (fst sn); enc_snap (snd sn)]) (fst m)); VL (map enc_pairs (snd m))])
          | None => bad_case
          end
      | _, _ => bad_case
      end
  | _ => bad_case
  end.

Definition table_C11 : table :=
  [("HorizontalIDToQuadkey", fun _ => d_encode); ("QuadkeyToHorizontalID", fun _ => d_decode);
   ("QuadkeyRoundTrip", fun _ => d_roundtrip_key); ("DeleteDuplicationList", fun _ => d_dedup);
   ("QuadkeyCheckZoom", fun _ => d_qcheck);
   ("E2Q", fun _ => d_e2q); ("S2Q", fun _ => d_s2q); ("E2QA", fun _ => d_e2qa);
   ("Q2E", fun _ => d_q2e); ("Q2S", fun _ => d_q2s); ("RoundTrip", fun _ => d_roundtrip); ("Params", fun _ => d_params)]%string.
