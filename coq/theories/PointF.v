(* PointF.v — shape.GetExtendedSpatialIdsOnPoints / GetSpatialIdsOnPoints: point -> voxel ID, operation by operation on binary64.
   math.Tan / math.Cos / math.Log are not transcribed: they enter as an oracle answered by Go's math package at run time. *)
From Coq Require Import ZArith Floats Uint63 Bool List String.
From SID Require Import Base Str Ids F64.
Import ListNotations.
Open Scope float_scope.

Section WithOracle.
  (* transcendental functions of Go's math package *)
  Variable m_tan m_cos m_log : float -> float.

  (* getHorizontalTileIdOnPoint, longitude column (including the fold of +180 onto -180 and the clamp into the last column) *)
  Definition x_f (lon : float) (h : Z) : option Z :=
    let lon := if lon =? 180 then - lon else lon in
    let idx := ffloor (pow2f h * ((lon + 180) / 360)) in
    let mx := pow2f h - 1 in
    let idx := if mx <? idx then mx else idx in
    Ztrunc_f idx.
  (* latitude row *)
  Definition y_f (lat : float) (h : Z) : option Z :=
    let r := lat * c_deg2rad in
    let idx := ffloor (pow2f h * (1 - m_log (m_tan r + 1 / m_cos r) / c_pi) / 2) in
    Ztrunc_f idx.
  (* getVerticalTileIdOnAltitude *)
  Definition f_f (alt : float) (v : Z) : option Z :=
    let res := pow2f 25 / pow2f v in
    Ztrunc_f (ffloor (alt / res)).

  Definition point_eid (p : point) (h v : Z) : option eid :=
    match x_f (plon p) h, y_f (plat p) h, f_f (palt p) v with
    | Some x, Some y, Some f => Some (mk h x y v f)
    | _, _, _ => None
    end.
  Fixpoint points_eids (l : list point) (h v : Z) : option (list eid) :=
    match l with
    | [] => Some []
    | p :: r => match point_eid p h v, points_eids r h v with
                | Some i, Some t => Some (i :: t)
                | _, _ => None
                end
    end.
  (* GetExtendedSpatialIdsOnPoints on non-nil points (a nil point is an error, decided by the harness-side flag `has_nil`) *)
  Definition points_api (has_nil : bool) (l : list point) (h v : Z) : result (list string) :=
    if negb (check_zoom h && check_zoom v) then Err
    else if has_nil then Err
    else match points_eids l h v with
         | Some r => Ok (map print_eid r)
         | None => Err   (* non-finite intermediate: outside the property's domain; never Ok *)
         end.
  Definition points_sid_api (has_nil : bool) (l : list point) (z : Z) : result (list string) :=
    match points_api has_nil l z z with
    | Ok ids => eids_to_sids ids
    | Err => Err
    end.
End WithOracle.
