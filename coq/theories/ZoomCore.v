(* ZoomCore.v — shared executable models of the per-axis zoom arithmetic (integrate/change_zoom.go: HorizontalZoomMinMax,
   HorizontalZoom, VerticalZoom) and of ExtendedSpatialID.Higher. Definitions and their one-axis characterisations only;
   list-level theorems live in the files of the properties that use them. Go `/` on int64 is Z.quot. *)
From Coq Require Import ZArith Lia List Bool.
From SID Require Import Base Ids.
Import ListNotations.
Open Scope Z_scope.

(* int64(math.Pow(2, math.Abs(float64(d)))) — exact for |d| <= 62 *)
Definition vnum (d : Z) : Z := 2 ^ Z.abs d.

(* HorizontalZoomMinMax(inputZoom, xIndex, yIndex, outputZoom) = (minX, minY, maxX, maxY) *)
Definition hzoom_minmax (zin x y zout : Z) : Z * Z * Z * Z :=
  let d := zout - zin in
  let n := vnum d in
  if 0 <? d then (x * n, y * n, x * n + n - 1, y * n + n - 1)
  else if d <? 0 then (Z.quot x n, Z.quot y n, Z.quot x n, Z.quot y n)
  else (x, y, x, y).

(* HorizontalZoom: the (x, y) pairs in the order of the Go loops (y outer, x inner); every result is at zoom zout *)
Definition hzoom (zin x y zout : Z) : list (Z * Z) :=
  let '(x0, y0, x1, y1) := hzoom_minmax zin x y zout in
  flat_map (fun yy => map (fun xx => (xx, yy)) (zrange x0 x1)) (zrange y0 y1).

(* VerticalZoom: (min, max) and the index list; zoom-out uses common.CalculateArithmeticShift (floor), after the repair e394a21 *)
Definition vzoom_minmax (zin f zout : Z) : Z * Z :=
  let d := zout - zin in
  let n := vnum d in
  if 0 <? d then (f * n, f * n + n - 1)
  else if d <? 0 then (ashift f d, ashift f d)
  else (f, f).
Definition vzoom (zin f zout : Z) : list Z := let '(lo, hi) := vzoom_minmax zin f zout in zrange lo hi.

(* ---- one-axis characterisations ---- *)
Lemma vzoom_exact zin f zout o : 0 <= zin -> 0 <= zout -> In o (vzoom zin f zout) <-> rel1 zin f zout o.
Proof.
  intros Hin Hout. unfold vzoom, vzoom_minmax, rel1, vnum, anc.
  destruct (Z.ltb_spec 0 (zout - zin)) as [Hup|Hup].
  - rewrite in_zrange. destruct (Z.leb_spec zin zout); [|lia].
    rewrite Z.abs_eq by lia. pose proof (pow2_pos (zout - zin) ltac:(lia)) as Hp.
    generalize dependent (2 ^ (zout - zin)). intros p Hp. split; intros H0.
    + symmetry. apply Z.div_unique with (r := o - f * p); lia.
    + pose proof (Z.div_mod o p ltac:(lia)). pose proof (Z.mod_pos_bound o p Hp). nia.
  - destruct (Z.ltb_spec (zout - zin) 0) as [Hdn|Hdn].
    + rewrite in_zrange. destruct (Z.leb_spec zin zout); [lia|].
      rewrite ashift_neg by lia. replace (- (zout - zin)) with (zin - zout) by lia.
      split; intros; lia.
    + assert (zout = zin) by lia. subst. rewrite in_zrange. rewrite Z.leb_refl.
      replace (zin - zin) with 0 by lia. change (2 ^ 0) with 1. rewrite Z.div_1_r. split; intros; lia.
Qed.

(* for non-negative indices truncated division is floor division, so the horizontal axes obey the same law *)
Lemma hzoom_minmax_x zin x y zout ox : 0 <= zin -> 0 <= zout -> 0 <= x ->
  (let '(x0, _, x1, _) := hzoom_minmax zin x y zout in x0 <= ox <= x1) <-> rel1 zin x zout ox.
Proof.
  intros Hin Hout Hx. unfold hzoom_minmax, rel1, vnum, anc.
  destruct (Z.ltb_spec 0 (zout - zin)) as [Hup|Hup].
  - destruct (Z.leb_spec zin zout); [|lia].
    rewrite Z.abs_eq by lia. pose proof (pow2_pos (zout - zin) ltac:(lia)) as Hp.
    generalize dependent (2 ^ (zout - zin)). intros p Hp. split; intros H0.
    + symmetry. apply Z.div_unique with (r := ox - x * p); lia.
    + pose proof (Z.div_mod ox p ltac:(lia)). pose proof (Z.mod_pos_bound ox p Hp). nia.
  - destruct (Z.ltb_spec (zout - zin) 0) as [Hdn|Hdn].
    + destruct (Z.leb_spec zin zout); [lia|].
      rewrite Z.abs_neq by lia. replace (- (zout - zin)) with (zin - zout) by lia.
      pose proof (pow2_pos (zin - zout) ltac:(lia)). rewrite Z.quot_div_nonneg by lia. split; intros; lia.
    + assert (zout = zin) by lia. subst. rewrite Z.leb_refl.
      replace (zin - zin) with 0 by lia. change (2 ^ 0) with 1. rewrite Z.div_1_r. split; intros; lia.
Qed.
Lemma hzoom_minmax_y zin x y zout oy : 0 <= zin -> 0 <= zout -> 0 <= y ->
  (let '(_, y0, _, y1) := hzoom_minmax zin x y zout in y0 <= oy <= y1) <-> rel1 zin y zout oy.
Proof.
  intros Hin Hout Hy. unfold hzoom_minmax, rel1, vnum, anc.
  destruct (Z.ltb_spec 0 (zout - zin)) as [Hup|Hup].
  - destruct (Z.leb_spec zin zout); [|lia].
    rewrite Z.abs_eq by lia. pose proof (pow2_pos (zout - zin) ltac:(lia)) as Hp.
    generalize dependent (2 ^ (zout - zin)). intros p Hp. split; intros H0.
    + symmetry. apply Z.div_unique with (r := oy - y * p); lia.
    + pose proof (Z.div_mod oy p ltac:(lia)). pose proof (Z.mod_pos_bound oy p Hp). nia.
  - destruct (Z.ltb_spec (zout - zin) 0) as [Hdn|Hdn].
    + destruct (Z.leb_spec zin zout); [lia|].
      rewrite Z.abs_neq by lia. replace (- (zout - zin)) with (zin - zout) by lia.
      pose proof (pow2_pos (zin - zout) ltac:(lia)). rewrite Z.quot_div_nonneg by lia. split; intros; lia.
    + assert (zout = zin) by lia. subst. rewrite Z.leb_refl.
      replace (zin - zin) with 0 by lia. change (2 ^ 0) with 1. rewrite Z.div_1_r. split; intros; lia.
Qed.
Lemma hzoom_exact zin x y zout ox oy : 0 <= zin -> 0 <= zout -> 0 <= x -> 0 <= y ->
  In (ox, oy) (hzoom zin x y zout) <-> rel1 zin x zout ox /\ rel1 zin y zout oy.
Proof.
  intros Hin Hout Hx Hy. unfold hzoom.
  rewrite <- (hzoom_minmax_x zin x y zout ox Hin Hout Hx), <- (hzoom_minmax_y zin x y zout oy Hin Hout Hy).
  destruct (hzoom_minmax zin x y zout) as [[[x0 y0] x1] y1].
  rewrite in_flat_map. split.
  - intros (yy & Hyy & Hm). apply in_map_iff in Hm. destruct Hm as (xx & [= <- <-] & Hxx).
    apply in_zrange in Hyy, Hxx. tauto.
  - intros [Hxx Hyy]. exists oy. split; [now apply in_zrange|]. apply in_map_iff. exists ox. split; [reflexivity|now apply in_zrange].
Qed.

(* ---- ExtendedSpatialID.Higher(hDiff, vDiff): x / 2^hDiff, y / 2^hDiff (Go `/`: truncation), z >> vDiff (after the repair 27792ec) ---- *)
Definition higher (i : eid) (hd vd : Z) : eid :=
  {| eh := eh i - hd; ex := Z.quot (ex i) (2 ^ hd); ey := Z.quot (ey i) (2 ^ hd); ev := ev i - vd; ef := Z.shiftr (ef i) vd |}.
Lemma higher_anc i hd vd : 0 <= hd -> 0 <= vd -> 0 <= ex i -> 0 <= ey i ->
  higher i hd vd = {| eh := eh i - hd; ex := anc hd (ex i); ey := anc hd (ey i); ev := ev i - vd; ef := anc vd (ef i) |}.
Proof.
  intros Hh Hv Hx Hy. unfold higher, anc. pose proof (pow2_pos hd Hh).
  now rewrite Z.shiftr_div_pow2, !Z.quot_div_nonneg by lia.
Qed.
