(* VertexF.v — shape.GetPointOnExtendedSpatialId / GetPointOnSpatialId: voxel ID -> eight corners / centre, on binary64.
   math.Sinh / math.Atan enter as oracles answered by Go's math package. *)
From Coq Require Import ZArith Floats Uint63 Bool List String.
From SID Require Import Base Str Ids F64.
Import ListNotations.
Open Scope float_scope.

Section WithOracle.
  Variable m_sinh m_atan : float -> float.

  (* getAltitudeOnVerticalIndexAndZoom *)
  Definition vres (v : Z) : float := pow2f 25 / pow2f v.
  Definition valt (f v : Z) : float := of_Z f * vres v.

  Definition edge_lat (yf hlimit : float) : float :=
    m_atan (m_sinh (c_pi * (1 - 2 * yf / hlimit))) * c_rad2deg.

  Definition pt_of (lon lat alt : float) : point := fst (new_point lon lat alt).

  (* getVertexOnVoxelOffset: NW, NE, SE, SW at the bottom, then the same at the top *)
  Definition vertices (h x y : Z) (alt res : float) : list point :=
    let hl := pow2f h in
    let xf := of_Z x in
    let yf := of_Z y in
    let yf := if (hl - 1) <=? yf then hl - 1 else if yf <? 0 then 0 else yf in
    let north := edge_lat yf hl in
    let south := edge_lat (yf + 1) hl in
    let xf := if ((hl - 1) <=? xf) || (xf <? 0)
              then (match Zfloor_f hl with
                    | Some w => of_Z (Z.modulo x w)      (* closed form of `for x < 0 { x += w }; math.Mod(x, w)` on integral values *)
                    | None => nan end)
              else xf in
    let west := xf * 360 / hl - 180 in
    let east := (xf + 1) * 360 / hl - 180 in
    let top := alt + res in
    [pt_of west north alt; pt_of east north alt; pt_of east south alt; pt_of west south alt;
     pt_of west north top; pt_of east north top; pt_of east south top; pt_of west south top].

  Definition fmin_list (l : list float) (d : float) : float := fold_left (fun a b => if b <? a then b else a) l d.
  Definition fmax_list (l : list float) (d : float) : float := fold_left (fun a b => if a <? b then b else a) l d.
  (* getCenterPointOnVoxelOffset: midpoint of the extreme coordinates of the eight vertices (sort.Float64s then first/last) *)
  Definition centre (h x y : Z) (alt res : float) : point :=
    let ps := vertices h x y alt res in
    match ps with
    | p0 :: _ =>
        let lons := map plon ps in let lats := map plat ps in let alts := map palt ps in
        let c a b := (a + b) / 2 in
        pt_of (c (fmax_list lons (plon p0)) (fmin_list lons (plon p0)))
              (c (fmax_list lats (plat p0)) (fmin_list lats (plat p0)))
              (c (fmax_list alts (palt p0)) (fmin_list alts (palt p0)))
    | [] => zero_point
    end.

  (* GetPointOnExtendedSpatialId: option 0 = Vertex, 1 = Center, anything else is an error *)
  Definition point_on_eid_api (id : string) (option : Z) : result (list point) :=
    match parse_eid id with
    | None => Err
    | Some i =>
        if negb (check_zoom (eh i) && check_zoom (ev i)) then Err
        else let alt := valt (ef i) (ev i) in let res := vres (ev i) in
             if (option =? 1)%Z then Ok [centre (eh i) (ex i) (ey i) alt res]
             else if (option =? 0)%Z then Ok (vertices (eh i) (ex i) (ey i) alt res)
             else Err
    end.
  (* GetPointOnSpatialId: notation change first (arity error), then the same *)
  Definition point_on_sid_api (id : string) (option : Z) : result (list point) :=
    match sid_to_eid_str id with
    | None => Err
    | Some e => point_on_eid_api e option
    end.
End WithOracle.
