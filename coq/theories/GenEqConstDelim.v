(* GenEqConstDelim.v — generated constants = the literals the models use: the ID delimiter "/" of common/consts, as its list of bytes (cited by C10). *)
From Coq Require Import ZArith Bool Lia.
From SIDGen Require Import Generated.
Open Scope Z_scope.

Lemma gen_SpatialIDDelimiter_eq : Generated.SpatialIDDelimiter = cons 47 nil. Proof. reflexivity. Qed.
