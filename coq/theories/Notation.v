(* Notation.v — C10: conversions between the ID notations lose nothing.
   Models (function by function, as the Go code is written):
     shape.ConvertSpatialIdsToExtendedSpatialIds / ConvertExtendedSpatialIdsToSpatialIds   (Ids.sids_to_eids / Ids.eids_to_sids: checked
        line by line against shape/point.go — split on "/", arity test `!= 4` resp. `!= 5`, permutation [c0;c2;c3;c0;c1] resp. [c0;c4;c1;c2],
        no numeric check at all, first bad element aborts with an error)
     object.NewExtendedSpatialID / ResetExtendedSpatialID / ID() / FieldParams() / accessors  (new_eid, Ids.print_eid, field_params)
     transform.ConvertExtendedSpatialIDToSpatialIDs                                           (expand_eid, record form expand_rec)
     transform.GetVoxelIDfromSpatialID                                                        (voxel_id; parse errors ignored, short input gives the empty list)
     ResetExtendedSpatialID applied repeatedly to one object                                  (reset_seq)
   Theorems: both round trips, length/order, arity error, parse ∘ ID, normalisation, and for the expansion: NoDup, target zoom = max h v,
   4^d resp. 2^d results, exact partition of the voxel's region (Voxel.inR), pairwise disjointness; soundness of the run-time checkers. *)
From Coq Require Import ZArith String Ascii List Bool Lia Permutation DecimalString Decimal Reals Sorting.Mergesort Orders Sorted.
From Flocq Require Import Core.
From SID Require Import Base Str Ids Voxel ZoomCore.
Import ListNotations.
Open Scope Z_scope.

(* =====================================================================================================================
   1. strings.Split / strings.Join: the facts the field permutations rest on
   ===================================================================================================================== *)
Lemma split_fields_noslash s : forallb noslash (split s) = true.
Proof.
  induction s as [|c r IH]; [reflexivity|]. cbn [split].
  destruct (Ascii.eqb c slash) eqn:E.
  - cbn. exact IH.
  - destruct (split r) as [|h t] eqn:Es.
    + cbn. now rewrite E.
    + cbn in IH |- *. apply andb_true_iff in IH. destruct IH as [Hh Ht]. now rewrite E, Hh, Ht.
Qed.

Lemma join_cons a b r : join (a :: b :: r) = (a ++ String slash (join (b :: r)))%string.
Proof. reflexivity. Qed.

(* Join is a left inverse of Split for every string *)
Theorem join_split s : join (split s) = s.
Proof.
  induction s as [|c r IH]; [reflexivity|]. cbn [split].
  destruct (Ascii.eqb c slash) eqn:E.
  - apply Ascii.eqb_eq in E. subst c. pose proof (split_nonempty r) as Hne.
    destruct (split r) as [|b t] eqn:Es; [congruence|]. rewrite join_cons, IH. reflexivity.
  - pose proof (split_nonempty r) as Hne. destruct (split r) as [|h t] eqn:Es; [congruence|].
    destruct t as [|b t'].
    + cbn in IH |- *. now rewrite IH.
    + rewrite join_cons. cbn [append]. f_equal. rewrite <- join_cons. exact IH.
Qed.

Lemma split_inj s t : split s = split t -> s = t.
Proof. intros H. rewrite <- (join_split s), <- (join_split t), H. reflexivity. Qed.

Lemma noslash_of_split s l a : split s = l -> In a l -> noslash a = true.
Proof. intros <- Hin. pose proof (split_fields_noslash s) as H. rewrite forallb_forall in H. now apply H. Qed.

(* =====================================================================================================================
   2. the two list conversions: element functions, round trips, length, order, arity
   ===================================================================================================================== *)
(* what the pair of conversions does to an extended ID whose vertical-zoom field differs from the horizontal one:
   ConvertExtendedSpatialIdsToSpatialIds drops field 3 (vZoom) without looking at it; coming back, field 0 is copied into field 3 *)
Definition collapse_v (s : string) : string :=
  match split s with
  | [h; x; y; v; f] => join [h; x; y; h; f]
  | _ => s
  end.

Lemma sid_to_eid_arity s : sid_to_eid_str s <> None <-> length (split s) = 4%nat.
Proof.
  unfold sid_to_eid_str. destruct (split s) as [|a [|b [|c [|d [|e r]]]]]; cbn; split; intros H; try congruence; try discriminate.
Qed.
Lemma eid_to_sid_arity s : eid_to_sid_str s <> None <-> length (split s) = 5%nat.
Proof.
  unfold eid_to_sid_str. destruct (split s) as [|a [|b [|c [|d [|e [|g r]]]]]]; cbn; split; intros H; try congruence; try discriminate.
Qed.

(* the fields of the output are the fields of the input, permuted (no reference to Join: this is the run-time specification) *)
Definition s2e_rel (s e : string) : Prop := exists z f x y, split s = [z; f; x; y] /\ split e = [z; x; y; z; f].
Definition e2s_rel (e s : string) : Prop := exists h x y v f, split e = [h; x; y; v; f] /\ split s = [h; f; x; y].

Lemma sid_to_eid_fields s e : sid_to_eid_str s = Some e <-> s2e_rel s e.
Proof.
  unfold sid_to_eid_str, s2e_rel. split.
  - destruct (split s) as [|z [|f [|x [|y [|w r]]]]] eqn:Es; try discriminate. intros [= <-].
    exists z, f, x, y. split; [reflexivity|]. apply (split_join [z; x; y; z; f]); [discriminate|].
    pose proof (split_fields_noslash s) as H. rewrite Es in H. cbn in H |- *.
    rewrite !andb_true_iff in H. destruct H as (Hz & Hf & Hx & Hy & _). now rewrite Hz, Hf, Hx, Hy.
  - intros (z & f & x & y & Es & Ee). rewrite Es. f_equal. apply split_inj. rewrite Ee.
    apply (split_join [z; x; y; z; f]); [discriminate|].
    pose proof (split_fields_noslash s) as H. rewrite Es in H. cbn in H |- *.
    rewrite !andb_true_iff in H. destruct H as (Hz & Hf & Hx & Hy & _). now rewrite Hz, Hf, Hx, Hy.
Qed.
Lemma eid_to_sid_fields e s : eid_to_sid_str e = Some s <-> e2s_rel e s.
Proof.
  unfold eid_to_sid_str, e2s_rel. split.
  - destruct (split e) as [|h [|x [|y [|v [|f [|w r]]]]]] eqn:Es; try discriminate. intros [= <-].
    exists h, x, y, v, f. split; [reflexivity|]. apply (split_join [h; f; x; y]); [discriminate|].
    pose proof (split_fields_noslash e) as H. rewrite Es in H. cbn in H |- *.
    rewrite !andb_true_iff in H. destruct H as (Hh & Hx & Hy & Hv & Hf & _). now rewrite Hh, Hf, Hx, Hy.
  - intros (h & x & y & v & f & Es & Ee). rewrite Es. f_equal. apply split_inj. rewrite Ee.
    apply (split_join [h; f; x; y]); [discriminate|].
    pose proof (split_fields_noslash e) as H. rewrite Es in H. cbn in H |- *.
    rewrite !andb_true_iff in H. destruct H as (Hh & Hx & Hy & Hv & Hf & _). now rewrite Hh, Hf, Hx, Hy.
Qed.

(* spatial -> extended -> spatial is the identity on EVERY string the first conversion accepts (characters, not only numbers) *)
Theorem sid_eid_sid s e : sid_to_eid_str s = Some e -> eid_to_sid_str e = Some s.
Proof.
  intros H. apply sid_to_eid_fields in H. destruct H as (z & f & x & y & Es & Ee).
  apply eid_to_sid_fields. exists z, x, y, z, f. split; [exact Ee|exact Es].
Qed.

(* extended -> spatial -> extended: field 3 (vZoom) is replaced by field 0 (hZoom); everything else is kept *)
Theorem eid_sid_eid e s : eid_to_sid_str e = Some s -> sid_to_eid_str s = Some (collapse_v e).
Proof.
  intros H. apply eid_to_sid_fields in H. destruct H as (h & x & y & v & f & Ee & Es).
  apply sid_to_eid_fields. exists h, f, x, y. split; [exact Es|].
  unfold collapse_v. rewrite Ee. apply (split_join [h; x; y; h; f]); [discriminate|].
  pose proof (split_fields_noslash e) as H. rewrite Ee in H. cbn in H |- *.
  rewrite !andb_true_iff in H. destruct H as (Hh & Hx & Hy & Hv & Hf & _). now rewrite Hh, Hf, Hx, Hy.
Qed.
(* ... and that is the identity exactly when the two zoom fields coincide *)
Theorem collapse_v_id e h x y v f : split e = [h; x; y; v; f] -> (collapse_v e = e <-> v = h).
Proof.
  intros Ee. unfold collapse_v. rewrite Ee. split.
  - intros H. apply (f_equal split) in H. rewrite Ee in H. rewrite (split_join [h; x; y; h; f]) in H; [congruence|discriminate|].
    pose proof (split_fields_noslash e) as H0. rewrite Ee in H0. cbn in H0 |- *.
    rewrite !andb_true_iff in H0. destruct H0 as (Hh & Hx & Hy & Hv & Hf & _). now rewrite Hh, Hf, Hx, Hy.
  - intros ->. rewrite <- Ee. apply join_split.
Qed.

(* ---- lists ---- *)
Lemma map_opt_compose {A B C} (f : A -> option B) (g : B -> option C) (k : A -> C) l r :
  (forall a b, f a = Some b -> g b = Some (k a)) -> map_opt f l = Some r -> map_opt g r = Some (map k l).
Proof.
  intros Hfg. revert r. induction l as [|a l IH]; cbn; intros r.
  - intros [= <-]. reflexivity.
  - destruct (f a) as [b|] eqn:E; [|discriminate]. destruct (map_opt f l) as [t|]; [|discriminate].
    intros [= <-]. cbn. rewrite (Hfg _ _ E), (IH t eq_refl). reflexivity.
Qed.
Lemma map_opt_Some_iff {A B} (f : A -> option B) l : (exists r, map_opt f l = Some r) <-> Forall (fun a => f a <> None) l.
Proof.
  induction l as [|a l IH]; cbn.
  - split; [constructor|eauto].
  - split.
    + intros (r & H). destruct (f a) eqn:E; [|discriminate]. destruct (map_opt f l) eqn:E2; [|discriminate].
      constructor; [congruence|]. apply IH. eauto.
    + intros H. inversion H as [|? ? Ha Hl]; subst. apply IH in Hl. destruct Hl as (t & ->).
      destruct (f a); [eauto|congruence].
Qed.
Lemma map_opt_Forall2 {A B} (f : A -> option B) l r : map_opt f l = Some r <-> Forall2 (fun a b => f a = Some b) l r.
Proof.
  revert r. induction l as [|a l IH]; cbn; intros r.
  - split; [intros [= <-]; constructor|intros H; inversion H; reflexivity].
  - split.
    + destruct (f a) eqn:E; [|discriminate]. destruct (map_opt f l) eqn:E2; [|discriminate]. intros [= <-].
      constructor; [exact E|]. now apply IH.
    + intros H. inversion H as [|? b ? t Hab Hlt]; subst. rewrite Hab. apply IH in Hlt. now rewrite Hlt.
Qed.

Theorem sids_eids_sids l r : sids_to_eids l = Ok r -> eids_to_sids r = Ok l.
Proof.
  unfold sids_to_eids, eids_to_sids. destruct (map_opt sid_to_eid_str l) as [t|] eqn:E; [|discriminate]. intros [= <-].
  rewrite (map_opt_compose _ _ (fun s => s) l t sid_eid_sid E), map_id. reflexivity.
Qed.
Theorem eids_sids_eids l r : eids_to_sids l = Ok r -> sids_to_eids r = Ok (map collapse_v l).
Proof.
  unfold sids_to_eids, eids_to_sids. destruct (map_opt eid_to_sid_str l) as [t|] eqn:E; [|discriminate]. intros [= <-].
  now rewrite (map_opt_compose _ _ collapse_v l t eid_sid_eid E).
Qed.
(* when every ID of the list has equal zoom fields, the second round trip is the identity too *)
Definition zooms_coincide (e : string) : Prop := exists h x y f, split e = [h; x; y; h; f].
Theorem eids_sids_eids_id l r : Forall zooms_coincide l -> eids_to_sids l = Ok r -> sids_to_eids r = Ok l.
Proof.
  intros Hz H. rewrite (eids_sids_eids l r H). f_equal.
  rewrite <- (map_id l) at 2. apply map_ext_in. intros e He. rewrite Forall_forall in Hz.
  destruct (Hz e He) as (h & x & y & f & Ee). now apply (collapse_v_id e h x y h f Ee).
Qed.

(* length and order: position n of the output is the conversion of position n of the input *)
Theorem sids_to_eids_positions l r : sids_to_eids l = Ok r ->
  length r = length l /\ forall n s, nth_error l n = Some s -> exists e, nth_error r n = Some e /\ sid_to_eid_str s = Some e.
Proof.
  unfold sids_to_eids. destruct (map_opt sid_to_eid_str l) as [t|] eqn:E; [|discriminate]. intros [= <-]. split.
  - eapply map_opt_length; eauto.
  - intros n s Hn. eapply map_opt_nth; eauto.
Qed.
Theorem eids_to_sids_positions l r : eids_to_sids l = Ok r ->
  length r = length l /\ forall n e, nth_error l n = Some e -> exists s, nth_error r n = Some s /\ eid_to_sid_str e = Some s.
Proof.
  unfold eids_to_sids. destruct (map_opt eid_to_sid_str l) as [t|] eqn:E; [|discriminate]. intros [= <-]. split.
  - eapply map_opt_length; eauto.
  - intros n s Hn. eapply map_opt_nth; eauto.
Qed.

(* arity: the conversion fails iff some element does not have exactly 4 (resp. 5) fields — nothing else is examined *)
Theorem sids_to_eids_err l : sids_to_eids l = Err <-> exists s, In s l /\ length (split s) <> 4%nat.
Proof.
  unfold sids_to_eids. split.
  - destruct (map_opt sid_to_eid_str l) as [t|] eqn:E; [discriminate|]. intros _.
    assert (N : ~ Forall (fun a => sid_to_eid_str a <> None) l).
    { intros F. apply map_opt_Some_iff in F. destruct F as (r & Hr). congruence. }
    rewrite <- Exists_Forall_neg in N by (intros x; destruct (sid_to_eid_str x); [left|right]; congruence).
    apply Exists_exists in N. destruct N as (s & Hin & Hs). exists s. split; [exact Hin|].
    intros H4. apply Hs. now apply sid_to_eid_arity.
  - intros (s & Hin & Hs). rewrite (map_opt_None _ l s Hin); [reflexivity|].
    destruct (sid_to_eid_str s) eqn:E; [|reflexivity]. exfalso. apply Hs. apply sid_to_eid_arity. congruence.
Qed.
Theorem eids_to_sids_err l : eids_to_sids l = Err <-> exists s, In s l /\ length (split s) <> 5%nat.
Proof.
  unfold eids_to_sids. split.
  - destruct (map_opt eid_to_sid_str l) as [t|] eqn:E; [discriminate|]. intros _.
    assert (N : ~ Forall (fun a => eid_to_sid_str a <> None) l).
    { intros F. apply map_opt_Some_iff in F. destruct F as (r & Hr). congruence. }
    rewrite <- Exists_Forall_neg in N by (intros x; destruct (eid_to_sid_str x); [left|right]; congruence).
    apply Exists_exists in N. destruct N as (s & Hin & Hs). exists s. split; [exact Hin|].
    intros H5. apply Hs. now apply eid_to_sid_arity.
  - intros (s & Hin & Hs). rewrite (map_opt_None _ l s Hin); [reflexivity|].
    destruct (eid_to_sid_str s) eqn:E; [|reflexivity]. exfalso. apply Hs. apply eid_to_sid_arity. congruence.
Qed.

(* =====================================================================================================================
   3. numbers: strconv.ParseInt / FormatInt on the fields; the object model (NewExtendedSpatialID, ID(), FieldParams(), accessors)
   ===================================================================================================================== *)
(* a spatial ID z/f/x/y read as numbers; it denotes the voxel with both zooms z *)
Definition parse_sid (s : string) : option eid :=
  match split s with
  | [a; b; c; d] =>
      match parse a, parse b, parse c, parse d with
      | Some z, Some f, Some x, Some y => Some (mk z x y z f)
      | _, _, _, _ => None
      end
  | _ => None
  end.
(* the spatial-ID string of a voxel with equal zooms (zoom taken from the horizontal field, as the Go code does) *)
Definition print_sid (j : eid) : string := join [print (eh j); print (ef j); print (ex j); print (ey j)].

Lemma parse_int64 s z : parse s = Some z -> int64_ok z = true.
Proof.
  unfold parse. destruct (NilZero.int_of_string _) as [d|]; [|discriminate].
  destruct (int64_ok (Z.of_int d)) eqn:E; [|discriminate]. now intros [= <-].
Qed.
Lemma parse_eid_fields_ok s i : parse_eid s = Some i -> fields_ok i = true.
Proof.
  unfold parse_eid. destruct (split s) as [|a [|b [|c [|d [|e [|g r]]]]]]; try discriminate.
  destruct (parse a) eqn:Ea; [|discriminate]. destruct (parse b) eqn:Eb; [|discriminate]. destruct (parse c) eqn:Ec; [|discriminate].
  destruct (parse d) eqn:Ed; [|discriminate]. destruct (parse e) eqn:Ee; [|discriminate]. intros [= <-].
  unfold fields_ok; cbn. now rewrite (parse_int64 _ _ Ea), (parse_int64 _ _ Eb), (parse_int64 _ _ Ec), (parse_int64 _ _ Ed), (parse_int64 _ _ Ee).
Qed.

Lemma parse_print_sid j : fields_ok j = true -> eh j = ev j -> parse_sid (print_sid j) = Some j.
Proof.
  unfold fields_ok. rewrite !andb_true_iff. intros ((((H1 & H2) & H3) & H4) & H5) Hz.
  unfold parse_sid, print_sid. rewrite (split_join [print (eh j); print (ef j); print (ex j); print (ey j)]).
  - rewrite !parse_print by assumption. destruct j; cbn in *. subst. reflexivity.
  - discriminate.
  - cbn. rewrite !print_noslash. reflexivity.
Qed.

(* component by component, on the printed (canonical) form: for ALL integers, also outside the grid *)
Theorem sid_to_eid_print z f x y :
  sid_to_eid_str (print_sid (mk z x y z f)) = Some (print_eid (mk z x y z f)).
Proof.
  apply sid_to_eid_fields. exists (print z), (print f), (print x), (print y). unfold print_sid, print_eid; cbn [eh ex ey ev ef mk]. split.
  - apply (split_join [print z; print f; print x; print y]); [discriminate|]. cbn. now rewrite !print_noslash.
  - apply (split_join [print z; print x; print y; print z; print f]); [discriminate|]. cbn. now rewrite !print_noslash.
Qed.
(* the vertical zoom of the input does not occur in the output: the result is the spatial ID h/f/x/y *)
Theorem eid_to_sid_print i : eid_to_sid_str (print_eid i) = Some (print_sid i).
Proof.
  apply eid_to_sid_fields. exists (print (eh i)), (print (ex i)), (print (ey i)), (print (ev i)), (print (ef i)). unfold print_sid, print_eid. split.
  - apply (split_join [print (eh i); print (ex i); print (ey i); print (ev i); print (ef i)]); [discriminate|]. cbn. now rewrite !print_noslash.
  - apply (split_join [print (eh i); print (ef i); print (ex i); print (ey i)]); [discriminate|]. cbn. now rewrite !print_noslash.
Qed.

(* component by component on every well-formed ID, canonical or not ("+1", "007" in a field): the same numbers, permuted *)
Theorem sid_to_eid_numbers s j : parse_sid s = Some j -> exists e, sid_to_eid_str s = Some e /\ parse_eid e = Some j.
Proof.
  unfold parse_sid. destruct (split s) as [|a [|b [|c [|d [|g r]]]]] eqn:Es; try discriminate.
  destruct (parse a) as [z|] eqn:Ea; [|discriminate]. destruct (parse b) as [f|] eqn:Eb; [|discriminate].
  destruct (parse c) as [x|] eqn:Ec; [|discriminate]. destruct (parse d) as [y|] eqn:Ed; [|discriminate]. intros [= <-].
  exists (join [a; c; d; a; b]). split; [unfold sid_to_eid_str; now rewrite Es|].
  assert (E : sid_to_eid_str s = Some (join [a; c; d; a; b])) by (unfold sid_to_eid_str; now rewrite Es).
  apply sid_to_eid_fields in E. destruct E as (z' & f' & x' & y' & Es' & Ee). rewrite Es in Es'. injection Es' as <- <- <- <-.
  unfold parse_eid. rewrite Ee, Ea, Eb, Ec, Ed. reflexivity.
Qed.
Theorem eid_to_sid_numbers e i : parse_eid e = Some i ->
  exists s, eid_to_sid_str e = Some s /\ parse_sid s = Some (mk (eh i) (ex i) (ey i) (eh i) (ef i)).
Proof.
  unfold parse_eid. destruct (split e) as [|a [|b [|c [|d [|g [|w r]]]]]] eqn:Es; try discriminate.
  destruct (parse a) as [h|] eqn:Ea; [|discriminate]. destruct (parse b) as [x|] eqn:Eb; [|discriminate].
  destruct (parse c) as [y|] eqn:Ec; [|discriminate]. destruct (parse d) as [v|] eqn:Ed; [|discriminate].
  destruct (parse g) as [f|] eqn:Eg; [|discriminate]. intros [= <-].
  exists (join [a; g; b; c]). split; [unfold eid_to_sid_str; now rewrite Es|].
  assert (E : eid_to_sid_str e = Some (join [a; g; b; c])) by (unfold eid_to_sid_str; now rewrite Es).
  apply eid_to_sid_fields in E. destruct E as (h' & x' & y' & v' & f' & Es' & Ee). rewrite Es in Es'. injection Es' as <- <- <- <- <-.
  unfold parse_sid. rewrite Ee, Ea, Eb, Ec, Eg. reflexivity.
Qed.
(* numbers under the second round trip: the vertical zoom becomes the horizontal zoom, the other four numbers stay *)
Theorem collapse_v_numbers e i : parse_eid e = Some i -> parse_eid (collapse_v e) = Some (mk (eh i) (ex i) (ey i) (eh i) (ef i)).
Proof.
  intros H. destruct (eid_to_sid_numbers e i H) as (s & Hs & Hp).
  destruct (sid_to_eid_numbers s _ Hp) as (e' & He' & Hp'). rewrite (eid_sid_eid e s Hs) in He'. now injection He' as <-.
Qed.

(* ---- the object: NewExtendedSpatialID(s) = ResetExtendedSpatialID on a zero object; result = (object, error?) ---- *)
Definition new_eid (s : string) : result eid := match parse_eid s with Some i => Ok i | None => Err end.
(* FieldParams(): [hZoom, x, y, vZoom, z];  accessors HZoom() X() Y() VZoom() Z() in that order *)
Definition field_params (i : eid) : list Z := [eh i; ex i; ey i; ev i; ef i].

(* printing an object and parsing the string returns the same five numbers in the same positions (all int64 values) *)
Theorem new_eid_ID i : fields_ok i = true -> new_eid (print_eid i) = Ok i.
Proof. intros H. unfold new_eid. now rewrite parse_print_eid. Qed.
(* parsing a string and printing the object: the numbers are kept, the characters are normalised (canonical decimal form);
   re-parsing the printed form gives the same object, so ID() ∘ New is idempotent *)
Theorem ID_new_eid s i : new_eid s = Ok i -> new_eid (print_eid i) = Ok i.
Proof.
  unfold new_eid. destruct (parse_eid s) as [j|] eqn:E; [|discriminate]. intros [= <-].
  rewrite parse_print_eid; [reflexivity|]. eapply parse_eid_fields_ok; eauto.
Qed.
Lemma print_eid_inj i j : fields_ok i = true -> fields_ok j = true -> print_eid i = print_eid j -> i = j.
Proof. intros Hi Hj H. apply parse_print_eid in Hi, Hj. rewrite H in Hi. congruence. Qed.
Lemma print_sid_inj i j : fields_ok i = true -> fields_ok j = true -> eh i = ev i -> eh j = ev j -> print_sid i = print_sid j -> i = j.
Proof. intros Hi Hj Zi Zj H. apply parse_print_sid in Hi, Hj; try assumption. rewrite H in Hi. congruence. Qed.

(* numbers, not characters: "+1" and "007" are accepted by strconv.ParseInt and printed back as "1" and "7"; "-0" as "0" *)
Example normalises_plus_and_zeros :
  parse_eid "+1/007/-0/+0012/-05" = Some (mk 1 7 0 12 (-5)) /\ print_eid (mk 1 7 0 12 (-5)) = "1/7/0/12/-5"%string /\
  parse "+-1" = None /\ parse "" = None /\ parse "+" = None /\ parse "-" = None /\ parse "1_0" = None /\ parse " 1" = None /\
  parse "9223372036854775807" = Some (2 ^ 63 - 1) /\ parse "9223372036854775808" = None /\ parse "-9223372036854775808" = Some (- 2 ^ 63).
Proof. vm_compute. repeat split; reflexivity. Qed.

(* =====================================================================================================================
   4. transform.ConvertExtendedSpatialIDToSpatialIDs: raise the coarser axis to the finer zoom
   ===================================================================================================================== *)
(* integrate.VerticalZoom returns the strings "zoom/index" *)
Definition vzoom_strs (zin f zout : Z) : list string :=
  map (fun v => (print zout ++ "/" ++ print v)%string) (vzoom zin f zout).

(* the function as written: `switch` with the cases h < v (x outer loop, y inner loop), h > v (loop over VerticalZoom), h == v *)
Definition expand_eid (i : eid) : list string :=
  if eh i <? ev i then
    let t := ev i in
    let '(x0, y0, x1, y1) := hzoom_minmax (eh i) (ex i) (ey i) t in
    flat_map (fun x => map (fun y => (print t ++ "/" ++ print (ef i) ++ "/" ++ print x ++ "/" ++ print y)%string) (zrange y0 y1)) (zrange x0 x1)
  else if ev i <? eh i then
    let t := eh i in
    map (fun vid => (vid ++ "/" ++ print (ex i) ++ "/" ++ print (ey i))%string) (vzoom_strs (ev i) (ef i) t)
  else [(print (eh i) ++ "/" ++ print (ef i) ++ "/" ++ print (ex i) ++ "/" ++ print (ey i))%string].

(* the same on records: every result has both zooms equal to the target zoom *)
Definition expand_rec (i : eid) : list eid :=
  if eh i <? ev i then
    let t := ev i in
    let '(x0, y0, x1, y1) := hzoom_minmax (eh i) (ex i) (ey i) t in
    flat_map (fun x => map (fun y => mk t x y t (ef i)) (zrange y0 y1)) (zrange x0 x1)
  else if ev i <? eh i then
    let t := eh i in map (fun f => mk t (ex i) (ey i) t f) (vzoom (ev i) (ef i) t)
  else [mk (eh i) (ex i) (ey i) (eh i) (ef i)].

(* the API function takes the object; through the string interface used by the harness: New, then expand *)
Definition expand_api (s : string) : result (list string) :=
  match parse_eid s with Some i => Ok (expand_eid i) | None => Err end.

Lemma append_assoc' (a b c : string) : ((a ++ b) ++ c = a ++ (b ++ c))%string.
Proof. induction a as [|ch a IH]; cbn; [reflexivity|]. now rewrite IH. Qed.
Lemma map_flat_map' {A B C} (g : B -> C) (f : A -> list B) l : map g (flat_map f l) = flat_map (fun x => map g (f x)) l.
Proof. induction l as [|a l IH]; cbn; [reflexivity|]. now rewrite map_app, IH. Qed.

Theorem expand_eid_rec i : expand_eid i = map print_sid (expand_rec i).
Proof.
  unfold expand_eid, expand_rec. destruct (eh i <? ev i).
  - destruct (hzoom_minmax (eh i) (ex i) (ey i) (ev i)) as [[[x0 y0] x1] y1].
    rewrite map_flat_map'. apply flat_map_ext. intros x. rewrite map_map. apply map_ext. intros y. reflexivity.
  - destruct (ev i <? eh i).
    + unfold vzoom_strs. rewrite !map_map. apply map_ext. intros f. unfold print_sid; cbn [eh ex ey ev ef mk join].
      rewrite append_assoc'. reflexivity.
    + reflexivity.
Qed.

(* ---- membership: the results are exactly the voxels at the target zoom (on both axes) that overlap the input ---- *)
Lemma rel1_same z a b : rel1 z a z b <-> b = a.
Proof. unfold rel1. rewrite Z.leb_refl, Z.sub_diag, anc_0. tauto. Qed.

Definition tzoom (i : eid) : Z := Z.max (eh i) (ev i).

Theorem expand_rec_spec i j : 0 <= eh i -> 0 <= ev i -> 0 <= ex i -> 0 <= ey i ->
  In j (expand_rec i) <-> eh j = tzoom i /\ ev j = tzoom i /\ overlaps i j.
Proof.
  intros Hh Hv Hx Hy. unfold expand_rec, tzoom, overlaps. destruct (Z.ltb_spec (eh i) (ev i)) as [L|L].
  - rewrite Z.max_r by lia.
    pose proof (hzoom_minmax_x (eh i) (ex i) (ey i) (ev i)) as HX. pose proof (hzoom_minmax_y (eh i) (ex i) (ey i) (ev i)) as HY.
    destruct (hzoom_minmax (eh i) (ex i) (ey i) (ev i)) as [[[x0 y0] x1] y1].
    rewrite in_flat_map. split.
    + intros (x & Hxin & Hm). apply in_map_iff in Hm. destruct Hm as (y & <- & Hyin). cbn [eh ex ey ev ef mk].
      apply in_zrange in Hxin, Hyin. repeat split; try reflexivity.
      * apply (HX x); [lia|lia|lia|exact Hxin].
      * apply (HY y); [lia|lia|lia|exact Hyin].
      * now apply rel1_same.
    + destruct j as [jh jx jy jv jf]; cbn [eh ex ey ev ef]. intros (-> & -> & Rx & Ry & Rf).
      apply rel1_same in Rf. subst jf.
      exists jx. split; [apply in_zrange; apply (HX jx); [lia|lia|lia|exact Rx]|].
      apply in_map_iff. exists jy. split; [reflexivity|]. apply in_zrange. apply (HY jy); [lia|lia|lia|exact Ry].
  - destruct (Z.ltb_spec (ev i) (eh i)) as [G|G].
    + rewrite Z.max_l by lia. rewrite in_map_iff. split.
      * intros (f & <- & Hf). cbn [eh ex ey ev ef mk]. apply vzoom_exact in Hf; [|lia|lia].
        repeat split; try reflexivity; try (now apply rel1_same). exact Hf.
      * destruct j as [jh jx jy jv jf]; cbn [eh ex ey ev ef]. intros (-> & -> & Rx & Ry & Rf).
        apply rel1_same in Rx, Ry. subst jx jy. exists jf. split; [reflexivity|]. apply vzoom_exact; [lia|lia|exact Rf].
    + assert (E : ev i = eh i) by lia. rewrite E, Z.max_id. cbn [In]. split.
      * intros [<-|[]]. cbn [eh ex ey ev ef mk]. repeat split; try reflexivity; now apply rel1_same.
      * destruct j as [jh jx jy jv jf]; cbn [eh ex ey ev ef]. intros (-> & -> & Rx & Ry & Rf).
        apply rel1_same in Rx, Ry, Rf. subst. left. reflexivity.
Qed.

(* a finer index related to an index in range is in range at its own zoom *)
Lemma rel1_up_bounds z1 i1 z2 i2 : 0 <= z1 <= z2 -> rel1 z1 i1 z2 i2 ->
  (0 <= i1 < 2 ^ z1 -> 0 <= i2 < 2 ^ z2) /\ (- 2 ^ z1 <= i1 < 2 ^ z1 -> - 2 ^ z2 <= i2 < 2 ^ z2).
Proof.
  intros Hz. unfold rel1. destruct (Z.leb_spec z1 z2); [|lia]. intros E.
  apply desc_iff in E; [|lia]. pose proof (pow2_pos (z2 - z1) ltac:(lia)) as Hp. pose proof (pow2_pos z1 ltac:(lia)) as Hp1.
  assert (E2 : 2 ^ z2 = 2 ^ z1 * 2 ^ (z2 - z1)) by (rewrite <- Z.pow_add_r by lia; f_equal; lia).
  rewrite E2. generalize dependent (2 ^ (z2 - z1)). generalize dependent (2 ^ z1). intros a Ha b E Hb _. split; intros; nia.
Qed.

(* every result is a valid spatial ID at the larger of the two zooms *)
Theorem expand_rec_valid i j : valid i -> In j (expand_rec i) -> valid j /\ eh j = tzoom i /\ ev j = tzoom i.
Proof.
  intros (Hh & Hv & Hx & Hy & Hf) Hin. apply expand_rec_spec in Hin; try lia.
  destruct Hin as (Eh & Ev & Rx & Ry & Rf). split; [|tauto]. unfold valid. rewrite Eh, Ev in *. unfold tzoom in *.
  assert (T1 : eh i <= Z.max (eh i) (ev i)) by lia. assert (T2 : ev i <= Z.max (eh i) (ev i)) by lia.
  assert (T3 : Z.max (eh i) (ev i) <= 35) by lia.
  destruct (rel1_up_bounds _ _ _ _ (conj (proj1 Hh) T1) Rx) as [Bx _]. destruct (rel1_up_bounds _ _ _ _ (conj (proj1 Hh) T1) Ry) as [By _].
  destruct (rel1_up_bounds _ _ _ _ (conj (proj1 Hv) T2) Rf) as [_ Bf].
  specialize (Bx Hx). specialize (By Hy). specialize (Bf Hf). lia.
Qed.

(* ---- number of results: 4^d when the horizontal zoom is raised by d, 2^d when the vertical zoom is raised by d ---- *)
Definition expand_count (i : eid) : Z := if eh i <=? ev i then 4 ^ (ev i - eh i) else 2 ^ (eh i - ev i).

Lemma flat_map_length_const {A B} (f : A -> list B) n l : (forall a, length (f a) = n) -> length (flat_map f l) = (length l * n)%nat.
Proof. intros H. induction l as [|a l IH]; cbn; [reflexivity|]. now rewrite app_length, H, IH. Qed.

Theorem expand_rec_length i : length (expand_rec i) = Z.to_nat (expand_count i).
Proof.
  unfold expand_rec, expand_count. destruct (Z.ltb_spec (eh i) (ev i)) as [L|L].
  - destruct (Z.leb_spec (eh i) (ev i)); [|lia]. unfold hzoom_minmax, vnum.
    destruct (Z.ltb_spec 0 (ev i - eh i)); [|lia]. rewrite Z.abs_eq by lia.
    pose proof (pow2_pos (ev i - eh i) ltac:(lia)) as Hp. set (n := 2 ^ (ev i - eh i)) in *.
    rewrite (flat_map_length_const _ (Z.to_nat n)) by (intros; rewrite map_length, zrange_length; f_equal; lia).
    rewrite zrange_length. replace (ex i * n + n - 1 - ex i * n + 1) with n by lia.
    rewrite <- Z2Nat.inj_mul by lia. f_equal. change 4 with (2 * 2). rewrite Z.pow_mul_l. reflexivity.
  - destruct (Z.ltb_spec (ev i) (eh i)) as [G|G].
    + destruct (Z.leb_spec (eh i) (ev i)); [lia|]. rewrite map_length. unfold vzoom, vzoom_minmax, vnum.
      destruct (Z.ltb_spec 0 (eh i - ev i)); [|lia]. rewrite Z.abs_eq by lia. rewrite zrange_length. f_equal. lia.
    + destruct (Z.leb_spec (eh i) (ev i)); [|lia]. replace (ev i - eh i) with 0 by lia. reflexivity.
Qed.

(* ---- no duplicates ---- *)
Lemma flat_map_as_prod {A} (g : Z -> Z -> A) xs ys :
  flat_map (fun x => map (g x) ys) xs = map (fun p => g (fst p) (snd p)) (list_prod xs ys).
Proof. induction xs as [|x xs IH]; cbn; [reflexivity|]. rewrite map_app, map_map, IH. reflexivity. Qed.
Lemma NoDup_map_in {A B} (f : A -> B) l : (forall a b, In a l -> In b l -> f a = f b -> a = b) -> NoDup l -> NoDup (map f l).
Proof.
  intros Hinj H. induction H as [|a l Ha Hl IH]; cbn; [constructor|]. constructor.
  - rewrite in_map_iff. intros (b & Hb & Hin). apply Hinj in Hb; [subst; contradiction|now right|now left].
  - apply IH. intros x y Hx Hy. apply Hinj; now right.
Qed.

Theorem expand_rec_NoDup i : NoDup (expand_rec i).
Proof.
  unfold expand_rec. destruct (eh i <? ev i).
  - destruct (hzoom_minmax (eh i) (ex i) (ey i) (ev i)) as [[[x0 y0] x1] y1].
    rewrite (flat_map_as_prod (fun x y => mk (ev i) x y (ev i) (ef i))).
    apply NoDup_map_in; [|apply NoDup_list_prod; apply zrange_NoDup].
    intros [a b] [c d] _ _ [= -> ->]. reflexivity.
  - destruct (ev i <? eh i).
    + apply NoDup_map_in; [|unfold vzoom; destruct (vzoom_minmax _ _ _); apply zrange_NoDup]. intros a b _ _ [= ->]. reflexivity.
    + constructor; [intros []|constructor].
Qed.

Lemma valid_zoom_eq_fields j : valid j -> fields_ok j = true.
Proof. apply valid_fields_ok. Qed.

(* the strings returned by the Go function: no string twice; every string is the canonical spatial ID of a result record *)
Theorem expand_eid_NoDup i : valid i -> NoDup (expand_eid i).
Proof.
  intros Hv. rewrite expand_eid_rec. apply NoDup_map_in; [|apply expand_rec_NoDup].
  intros a b Ha Hb. destruct (expand_rec_valid i a Hv Ha) as (Va & Ea1 & Ea2). destruct (expand_rec_valid i b Hv Hb) as (Vb & Eb1 & Eb2).
  apply print_sid_inj; try (now apply valid_fields_ok); congruence.
Qed.
Theorem expand_eid_members i s : valid i -> In s (expand_eid i) ->
  exists j, parse_sid s = Some j /\ s = print_sid j /\ In j (expand_rec i) /\ valid j /\ eh j = tzoom i /\ ev j = tzoom i.
Proof.
  intros Hv. rewrite expand_eid_rec, in_map_iff. intros (j & <- & Hj). exists j.
  destruct (expand_rec_valid i j Hv Hj) as (Vj & E1 & E2).
  split; [apply parse_print_sid; [now apply valid_fields_ok|congruence]|].
  split; [reflexivity|]. split; [exact Hj|]. split; [exact Vj|]. split; assumption.
Qed.
Theorem expand_eid_length i : length (expand_eid i) = Z.to_nat (expand_count i).
Proof. rewrite expand_eid_rec, map_length. apply expand_rec_length. Qed.

(* ---- regions: the results partition the region of the input voxel ---- *)
Theorem expand_region i p : 0 <= eh i -> 0 <= ev i -> 0 <= ex i -> 0 <= ey i ->
  inR i p <-> exists j, In j (expand_rec i) /\ inR j p.
Proof.
  intros Hh Hv Hx Hy. assert (Ht1 : eh i <= tzoom i) by (unfold tzoom; lia). assert (Ht2 : ev i <= tzoom i) by (unfold tzoom; lia).
  destruct p as [[u w] a]. split.
  - intros Hi.
    set (j := mk (tzoom i) (Zfloor (bpow radix2 (tzoom i) * u)) (Zfloor (bpow radix2 (tzoom i) * w)) (tzoom i) (Zfloor (bpow radix2 (tzoom i) * a))).
    assert (Hj : inR j (u, w, a)) by (cbn; auto).
    exists j. split; [|exact Hj]. apply expand_rec_spec; try assumption. split; [reflexivity|]. split; [reflexivity|].
    apply (meet_overlaps i j (u, w, a)); try assumption; cbn; lia.
  - intros (j & Hin & Hj). apply expand_rec_spec in Hin; try assumption. destruct Hin as (E1 & E2 & Rx & Ry & Rf).
    cbn in Hj |- *. destruct Hj as (X & Y & F). rewrite E1 in X, Y, Rx, Ry. rewrite E2 in F, Rf.
    unfold rel1 in Rx, Ry, Rf. destruct (Z.leb_spec (eh i) (tzoom i)); [|lia]. destruct (Z.leb_spec (ev i) (tzoom i)); [|lia].
    rewrite (nested_floor u (eh i) (tzoom i)), (nested_floor w (eh i) (tzoom i)), (nested_floor a (ev i) (tzoom i)) by lia.
    rewrite X, Y, F. auto.
Qed.
Theorem expand_disjoint i j1 j2 p : 0 <= eh i -> 0 <= ev i -> 0 <= ex i -> 0 <= ey i ->
  In j1 (expand_rec i) -> In j2 (expand_rec i) -> inR j1 p -> inR j2 p -> j1 = j2.
Proof.
  intros Hh Hv Hx Hy H1 H2. apply expand_rec_spec in H1, H2; try assumption.
  destruct H1 as (A1 & A2 & _), H2 as (B1 & B2 & _). destruct p as [[u w] a]. cbn.
  destruct j1, j2; cbn in *. subst. intros (<- & <- & <-) (<- & <- & <-). reflexivity.
Qed.
(* the same, read on the strings the Go function returns *)
Theorem expand_eid_region i p : valid i ->
  inR i p <-> exists s j, In s (expand_eid i) /\ parse_sid s = Some j /\ inR j p.
Proof.
  intros Hv. pose proof Hv as (Hh & Hvv & Hx & Hy & _). rewrite (expand_region i p) by lia. split.
  - intros (j & Hj & Hp). exists (print_sid j), j. destruct (expand_rec_valid i j Hv Hj) as (Vj & E1 & E2). repeat split.
    + rewrite expand_eid_rec. now apply in_map.
    + apply parse_print_sid; [now apply valid_fields_ok|congruence].
    + exact Hp.
  - intros (s & j & Hs & Hj & Hp). destruct (expand_eid_members i s Hv Hs) as (j' & Hj' & _ & Hin & _).
    rewrite Hj in Hj'. injection Hj' as <-. eauto.
Qed.

(* ---- what ConvertExtendedSpatialIdsToSpatialIds does when hZoom <> vZoom ----
   It never looks at field 3: the output is h/f/x/y, i.e. the vertical index f is re-read at zoom h. The output denotes the input voxel
   iff the two zooms coincide; otherwise it denotes a different region (no error is raised). The lossless conversion for h <> v is
   ConvertExtendedSpatialIDToSpatialIDs above. *)
Theorem e2s_denotes i : fields_ok i = true ->
  exists s, eid_to_sid_str (print_eid i) = Some s /\ parse_sid s = Some (mk (eh i) (ex i) (ey i) (eh i) (ef i)).
Proof.
  intros H. apply eid_to_sid_numbers. now apply parse_print_eid.
Qed.
Example e2s_changes_region_when_zooms_differ :
  let i := mk 3 1 1 5 7 in
  valid i /\ eid_to_sid_str (print_eid i) = Some "3/7/1/1"%string /\ parse_sid "3/7/1/1" = Some (mk 3 1 1 3 7) /\
  forall p, inR i p -> ~ inR (mk 3 1 1 3 7) p.
Proof.
  cbv zeta. split; [unfold valid; cbn; lia|]. split; [vm_compute; reflexivity|]. split; [vm_compute; reflexivity|].
  intros p H1 H2. assert (O : overlaps (mk 3 1 1 5 7) (mk 3 1 1 3 7)).
  { apply (meet_overlaps _ _ p); cbn; try lia; assumption. }
  destruct O as (_ & _ & O). vm_compute in O. discriminate.
Qed.

(* =====================================================================================================================
   5. transform.GetVoxelIDfromSpatialID: [x, y, f] of an extended ID; conversion errors are discarded, short input gives []
   ===================================================================================================================== *)
Definition parse_body (s : string) : string :=
  match s with String "+"%char r => match r with String "-"%char _ | String "+"%char _ => EmptyString | _ => r end | _ => s end.
Lemma parse_unfold s : parse s =
  match NilZero.int_of_string (parse_body s) with
  | Some d => let z := Z.of_int d in if int64_ok z then Some z else None
  | None => None
  end.
Proof. reflexivity. Qed.
(* `n, _ := strconv.ParseInt(s, 10, 64)` with the error discarded. strconv scans the digits LEFT TO RIGHT: a byte that is not a digit gives
   (0, syntax error); as soon as the accumulated value leaves uint64 it returns the saturated value with a range error WITHOUT looking at the
   remaining bytes ("99999999999999999999x" gives MaxInt64, "18446744073709551615x" gives 0); a value inside uint64 but outside int64 is
   saturated after the scan. On success the value is Str.parse's. *)
Inductive ures := USyntax | URange | UVal (n : Z).
Definition digit_of (c : ascii) : option Z :=
  let k := Z.of_nat (nat_of_ascii c) in if (48 <=? k) && (k <=? 57) then Some (k - 48) else None.
Fixpoint scan_uint (s : string) (n : Z) : ures :=
  match s with
  | EmptyString => UVal n
  | String c r => match digit_of c with
                  | None => USyntax
                  | Some d => if 2 ^ 64 <=? n * 10 + d then URange else scan_uint r (n * 10 + d)
                  end
  end.
Definition parse_uint (s : string) : ures := match s with EmptyString => USyntax | _ => scan_uint s 0 end.
Definition parse_failed_value (s : string) : Z :=
  match s with
  | EmptyString => 0
  | String c r =>
      let neg := Ascii.eqb c "-"%char in
      let body := if Ascii.eqb c "+"%char || neg then r else s in
      match parse_uint body with
      | USyntax => 0
      | URange => if neg then - 2 ^ 63 else 2 ^ 63 - 1
      | UVal un => if neg then (if 2 ^ 63 <? un then - 2 ^ 63 else - un) else (if 2 ^ 63 <=? un then 2 ^ 63 - 1 else un)
      end
  end.
Definition parse_lenient (s : string) : Z := match parse s with Some z => z | None => parse_failed_value s end.
Lemma parse_lenient_ok s z : parse s = Some z -> parse_lenient s = z.
Proof. unfold parse_lenient. now intros ->. Qed.
Example parse_lenient_examples :
  map parse_lenient ["99999999999999999999x"; "-99999999999999999999 "; "18446744073709551616_"; "18446744073709551615x"; "9223372036854775808x";
                     "9223372036854775808"; "-9223372036854775809"; "x99999999999999999999"; "+99999999999999999999";
                     "00000000000000000000000007"; "0000000000000000000018446744073709551616x"; "-"; "+"; ""; "1_0"; "+-1"; "-007"]%string
  = [2 ^ 63 - 1; - 2 ^ 63; 2 ^ 63 - 1; 0; 0; 2 ^ 63 - 1; - 2 ^ 63; 0; 2 ^ 63 - 1; 7; 2 ^ 63 - 1; 0; 0; 0; 0; 0; -7].
Proof. vm_compute. reflexivity. Qed.
(* fewer than five fields: the empty slice (after the repair c5e2aa4; before it the index expression ids[4] panicked) *)
Definition voxel_id (s : string) : list Z :=
  match split s with
  | _ :: x :: y :: _ :: f :: _ => [parse_lenient x; parse_lenient y; parse_lenient f]
  | _ => []
  end.
Theorem voxel_id_spec s i : parse_eid s = Some i -> voxel_id s = [ex i; ey i; ef i].
Proof.
  unfold parse_eid, voxel_id. destruct (split s) as [|a [|b [|c [|d [|e [|g r]]]]]]; try discriminate.
  destruct (parse a) eqn:Ea; [|discriminate]. destruct (parse b) eqn:Eb; [|discriminate]. destruct (parse c) eqn:Ec; [|discriminate].
  destruct (parse d) eqn:Ed; [|discriminate]. destruct (parse e) eqn:Ee; [|discriminate]. intros [= <-]. cbn [ex ey ef].
  now rewrite (parse_lenient_ok _ _ Eb), (parse_lenient_ok _ _ Ec), (parse_lenient_ok _ _ Ee).
Qed.
Theorem voxel_id_print i : fields_ok i = true -> voxel_id (print_eid i) = [ex i; ey i; ef i].
Proof. intros H. apply voxel_id_spec. now apply parse_print_eid. Qed.
Theorem voxel_id_empty s : voxel_id s = [] <-> (length (split s) < 5)%nat.
Proof.
  unfold voxel_id. destruct (split s) as [|a [|b [|c [|d [|e r]]]]]; cbn; split; intros H; try reflexivity; try discriminate; try lia.
Qed.
Example voxel_id_ignores_errors :
  voxel_id "1/x/99999999999999999999/1/-99999999999999999999/9/9" = [0; 2 ^ 63 - 1; - 2 ^ 63] /\ voxel_id "1/2/3/4" = [] /\
  voxel_id "1/99999999999999999999x/-99999999999999999999 /1/18446744073709551616_" = [2 ^ 63 - 1; - 2 ^ 63; 2 ^ 63 - 1].
Proof. vm_compute. repeat split; reflexivity. Qed.

(* =====================================================================================================================
   6. run-time checkers (boolean), applied by DC10.v to the implementation's observed output, with soundness proofs.
      An observation is `Some v` (no error) or `None` (the call returned an error).
   ===================================================================================================================== *)
Definition res_opt {A} (r : result A) : option A := match r with Ok a => Some a | Err => None end.

Fixpoint forall2b {A B} (r : A -> B -> bool) (l : list A) (k : list B) : bool :=
  match l, k with
  | [], [] => true
  | a :: l', b :: k' => r a b && forall2b r l' k'
  | _, _ => false
  end.
Lemma forall2b_spec {A B} (r : A -> B -> bool) (R : A -> B -> Prop) (H : forall a b, r a b = true <-> R a b) l k :
  forall2b r l k = true <-> Forall2 R l k.
Proof.
  revert k. induction l as [|a l IH]; destruct k as [|b k]; cbn; split; intros H0; try discriminate; try constructor; try (now inversion H0).
  - apply andb_true_iff in H0. now apply H.
  - apply andb_true_iff in H0. now apply IH.
  - inversion H0; subst. apply andb_true_iff. split; [now apply H|now apply IH].
Qed.

Definition arity_okb (n : nat) (l : list string) : bool := forallb (fun s => Nat.eqb (length (split s)) n) l.
Lemma arity_okb_false n l : arity_okb n l = false <-> exists s, In s l /\ length (split s) <> n.
Proof.
  unfold arity_okb. split.
  - intros H. induction l as [|a l IH]; [discriminate|]. cbn in H. apply andb_false_iff in H. destruct H as [H|H].
    + exists a. split; [now left|]. now apply Nat.eqb_neq.
    + destruct (IH H) as (s & Hs & Hn). exists s. split; [now right|exact Hn].
  - intros (s & Hin & Hn). apply not_true_is_false. intros H. rewrite forallb_forall in H. apply H in Hin. apply Nat.eqb_eq in Hin. contradiction.
Qed.

Definition s2e_relb (s e : string) : bool :=
  match split s, split e with
  | [z; f; x; y], [a; b; c; d; g] => String.eqb z a && String.eqb x b && String.eqb y c && String.eqb z d && String.eqb f g
  | _, _ => false
  end.
Definition e2s_relb (e s : string) : bool :=
  match split e, split s with
  | [h; x; y; v; f], [a; b; c; d] => String.eqb h a && String.eqb f b && String.eqb x c && String.eqb y d
  | _, _ => false
  end.
Lemma s2e_relb_spec s e : s2e_relb s e = true <-> s2e_rel s e.
Proof.
  unfold s2e_relb, s2e_rel. split.
  - destruct (split s) as [|z [|f [|x [|y [|w r]]]]]; try discriminate.
    destruct (split e) as [|a [|b [|c [|d [|g [|w r]]]]]]; try discriminate.
    rewrite !andb_true_iff, !String.eqb_eq. intros ((((-> & ->) & ->) & <-) & ->). now exists a, g, b, c.
  - intros (z & f & x & y & -> & ->). now rewrite !String.eqb_refl.
Qed.
Lemma e2s_relb_spec e s : e2s_relb e s = true <-> e2s_rel e s.
Proof.
  unfold e2s_relb, e2s_rel. split.
  - destruct (split e) as [|h [|x [|y [|v [|f [|w r]]]]]]; try discriminate.
    destruct (split s) as [|a [|b [|c [|d [|w r]]]]]; try discriminate.
    rewrite !andb_true_iff, !String.eqb_eq. intros (((-> & ->) & ->) & ->). now exists a, c, d, v, b.
  - intros (h & x & y & v & f & -> & ->). now rewrite !String.eqb_refl.
Qed.

(* the statement decided for ConvertSpatialIdsToExtendedSpatialIds on an observed output *)
Definition s2e_spec (l : list string) (obs : option (list string)) : Prop :=
  match obs with
  | Some o => Forall2 s2e_rel l o                                  (* same length, same order, fields permuted *)
  | None => exists s, In s l /\ length (split s) <> 4%nat           (* an error only for a wrong number of fields *)
  end.
Definition e2s_spec (l : list string) (obs : option (list string)) : Prop :=
  match obs with
  | Some o => Forall2 e2s_rel l o
  | None => exists s, In s l /\ length (split s) <> 5%nat
  end.
Definition check_s2e (l : list string) (obs : option (list string)) : bool :=
  match obs with Some o => forall2b s2e_relb l o | None => negb (arity_okb 4 l) end.
Definition check_e2s (l : list string) (obs : option (list string)) : bool :=
  match obs with Some o => forall2b e2s_relb l o | None => negb (arity_okb 5 l) end.

Theorem check_s2e_sound l obs : check_s2e l obs = true <-> s2e_spec l obs.
Proof.
  unfold check_s2e, s2e_spec. destruct obs as [o|].
  - apply forall2b_spec. apply s2e_relb_spec.
  - rewrite negb_true_iff. apply arity_okb_false.
Qed.
Theorem check_e2s_sound l obs : check_e2s l obs = true <-> e2s_spec l obs.
Proof.
  unfold check_e2s, e2s_spec. destruct obs as [o|].
  - apply forall2b_spec. apply e2s_relb_spec.
  - rewrite negb_true_iff. apply arity_okb_false.
Qed.
Lemma Forall2_imp {A B} (R1 R2 : A -> B -> Prop) l k : (forall a b, R1 a b -> R2 a b) -> Forall2 R1 l k -> Forall2 R2 l k.
Proof. intros H. induction 1; constructor; auto. Qed.
(* the specification determines the output: it holds of exactly one observation, the model's *)
Theorem s2e_spec_model l obs : s2e_spec l obs <-> obs = res_opt (sids_to_eids l).
Proof.
  unfold s2e_spec. destruct obs as [o|].
  - assert (E : Forall2 s2e_rel l o <-> map_opt sid_to_eid_str l = Some o).
    { rewrite map_opt_Forall2. split; apply Forall2_imp; intros a b; apply sid_to_eid_fields. }
    rewrite E. unfold sids_to_eids. destruct (map_opt sid_to_eid_str l); cbn; split; congruence.
  - rewrite <- sids_to_eids_err. destruct (sids_to_eids l); cbn; split; congruence.
Qed.
Theorem e2s_spec_model l obs : e2s_spec l obs <-> obs = res_opt (eids_to_sids l).
Proof.
  unfold e2s_spec. destruct obs as [o|].
  - assert (E : Forall2 e2s_rel l o <-> map_opt eid_to_sid_str l = Some o).
    { rewrite map_opt_Forall2. split; apply Forall2_imp; intros a b; apply eid_to_sid_fields. }
    rewrite E. unfold eids_to_sids. destruct (map_opt eid_to_sid_str l); cbn; split; congruence.
  - rewrite <- eids_to_sids_err. destruct (eids_to_sids l); cbn; split; congruence.
Qed.

(* what the two list conversions return TOGETHER WITH the error: the conversions of the elements before the first bad one *)
Fixpoint map_opt_prefix {A B} (f : A -> option B) (l : list A) : list B :=
  match l with [] => [] | a :: r => match f a with Some b => b :: map_opt_prefix f r | None => [] end end.
Lemma map_opt_prefix_all {A B} (f : A -> option B) l r : map_opt f l = Some r -> map_opt_prefix f l = r.
Proof.
  revert r. induction l as [|a l IH]; cbn; intros r; [now intros [= <-]|].
  destruct (f a); [|discriminate]. destruct (map_opt f l) as [t|]; [|discriminate]. intros [= <-]. now rewrite (IH t).
Qed.

(* ---- both directions in one call: dir = true: spatial -> extended -> spatial; dir = false: extended -> spatial -> extended ---- *)
Definition roundtrip_model (dir : bool) (l : list string) : result (list string * list string) :=
  if dir then match sids_to_eids l with Ok r1 => match eids_to_sids r1 with Ok r2 => Ok (r1, r2) | Err => Err end | Err => Err end
  else match eids_to_sids l with Ok r1 => match sids_to_eids r1 with Ok r2 => Ok (r1, r2) | Err => Err end | Err => Err end.
Definition roundtrip_spec (dir : bool) (l : list string) (obs : option (list string * list string)) : Prop :=
  match obs with
  | Some (r1, r2) => Forall2 (if dir then s2e_rel else e2s_rel) l r1 /\ r2 = (if dir then l else map collapse_v l)
  | None => exists s, In s l /\ length (split s) <> (if dir then 4 else 5)%nat
  end.
Definition check_roundtrip (dir : bool) (l : list string) (obs : option (list string * list string)) : bool :=
  match obs with
  | Some (r1, r2) => forall2b (if dir then s2e_relb else e2s_relb) l r1 && same_list r2 (if dir then l else map collapse_v l)
  | None => negb (arity_okb (if dir then 4 else 5)%nat l)
  end.
Lemma same_list_spec a b : same_list a b = true <-> a = b.
Proof. unfold same_list. destruct (list_eqb_spec String.eqb String.eqb_spec a b); split; congruence. Qed.
Theorem check_roundtrip_sound dir l obs : check_roundtrip dir l obs = true <-> roundtrip_spec dir l obs.
Proof.
  unfold check_roundtrip, roundtrip_spec. destruct obs as [[r1 r2]|].
  - rewrite andb_true_iff, same_list_spec.
    destruct dir; [rewrite (forall2b_spec _ _ s2e_relb_spec)|rewrite (forall2b_spec _ _ e2s_relb_spec)]; tauto.
  - rewrite negb_true_iff. apply arity_okb_false.
Qed.
Lemma arity_okb_true_s2e l : arity_okb 4 l = true <-> exists r, sids_to_eids l = Ok r.
Proof.
  destruct (arity_okb 4 l) eqn:E.
  - split; [intros _|reflexivity]. destruct (sids_to_eids l) as [r|] eqn:Er; [eauto|].
    apply sids_to_eids_err in Er. apply arity_okb_false in Er. congruence.
  - split; [discriminate|]. intros (r & Hr). apply arity_okb_false, sids_to_eids_err in E. congruence.
Qed.
Lemma arity_okb_true_e2s l : arity_okb 5 l = true <-> exists r, eids_to_sids l = Ok r.
Proof.
  destruct (arity_okb 5 l) eqn:E.
  - split; [intros _|reflexivity]. destruct (eids_to_sids l) as [r|] eqn:Er; [eauto|].
    apply eids_to_sids_err in Er. apply arity_okb_false in Er. congruence.
  - split; [discriminate|]. intros (r & Hr). apply arity_okb_false, eids_to_sids_err in E. congruence.
Qed.
(* the model of the two conversions satisfies the round-trip statement for every list of strings (no well-formedness needed) *)
Theorem roundtrip_model_spec dir l : roundtrip_spec dir l (res_opt (roundtrip_model dir l)).
Proof.
  unfold roundtrip_model. destruct dir.
  - destruct (sids_to_eids l) as [r1|] eqn:E1.
    + rewrite (sids_eids_sids l r1 E1). cbn. split; [|reflexivity].
      apply (proj2 (s2e_spec_model l (Some r1))). now rewrite E1.
    + cbn. now apply sids_to_eids_err.
  - destruct (eids_to_sids l) as [r1|] eqn:E1.
    + rewrite (eids_sids_eids l r1 E1). cbn. split; [|reflexivity].
      apply (proj2 (e2s_spec_model l (Some r1))). now rewrite E1.
    + cbn. now apply eids_to_sids_err.
Qed.

(* ---- NewExtendedSpatialID(s) observed as (ID(), [HZoom(); X(); Y(); VZoom(); Z()], FieldParams()) ---- *)
Definition parseprint_model (s : string) : result (string * list Z * list Z) :=
  match new_eid s with Ok i => Ok (print_eid i, field_params i, field_params i) | Err => Err end.
Definition parseprint_spec (s : string) (obs : option (string * list Z * list Z)) : Prop :=
  match parse_eid s, obs with
  | Some i, Some (id, acc, fp) => parse_eid id = Some i /\ acc = [eh i; ex i; ey i; ev i; ef i] /\ fp = [eh i; ex i; ey i; ev i; ef i]
  | None, None => True
  | _, _ => False
  end.
Definition check_parseprint (s : string) (obs : option (string * list Z * list Z)) : bool :=
  match parse_eid s, obs with
  | Some i, Some (id, acc, fp) =>
      match parse_eid id with Some j => eid_eqb j i | None => false end &&
      list_eqb Z.eqb acc (field_params i) && list_eqb Z.eqb fp (field_params i)
  | None, None => true
  | _, _ => false
  end.
Lemma Zlist_eqb_spec a b : list_eqb Z.eqb a b = true <-> a = b.
Proof. destruct (list_eqb_spec Z.eqb Z.eqb_spec a b); split; congruence. Qed.
Theorem check_parseprint_sound s obs : check_parseprint s obs = true <-> parseprint_spec s obs.
Proof.
  unfold check_parseprint, parseprint_spec. destruct (parse_eid s) as [i|], obs as [[[id acc] fp]|]; try tauto; try (split; [discriminate|tauto]).
  rewrite !andb_true_iff, !Zlist_eqb_spec. unfold field_params.
  destruct (parse_eid id) as [j|]; [|split; [intros [[H _] _]; discriminate|intros [H _]; discriminate]].
  destruct (eid_eqb_spec j i); split; intros H; try tauto; try (destruct H as [[H _] _]; discriminate).
  - subst. tauto.
  - destruct H as [H _]. congruence.
Qed.
Theorem parseprint_model_spec s : parseprint_spec s (res_opt (parseprint_model s)).
Proof.
  unfold parseprint_spec, parseprint_model, new_eid. destruct (parse_eid s) as [i|] eqn:E; cbn; [|exact I].
  split; [|split; reflexivity]. apply parse_print_eid. eapply parse_eid_fields_ok; eauto.
Qed.

(* ---- the expansion, observed as a list of strings: all at the target zoom, each overlapping the input, no voxel twice, count = closed form ---- *)
(* the same decision as Ids.eid_eqb, comparing first the fields that differ between the members of one expansion *)
Definition eid_eqb_f (a b : eid) : bool :=
  (ef a =? ef b) && (ey a =? ey b) && (ex a =? ex b) && (eh a =? eh b) && (ev a =? ev b).
Lemma eid_eqb_f_spec a b : reflect (a = b) (eid_eqb_f a b).
Proof.
  destruct a as [a1 a2 a3 a4 a5], b as [b1 b2 b3 b4 b5]. unfold eid_eqb_f; cbn.
  destruct (Z.eqb_spec a5 b5), (Z.eqb_spec a3 b3), (Z.eqb_spec a2 b2), (Z.eqb_spec a1 b1), (Z.eqb_spec a4 b4);
    cbn; constructor; congruence.
Qed.

(* duplicate test in O(n log n): sort integer keys and require strictly increasing neighbours (the quadratic test costs seconds on the
   4096 results of a zoom difference 12) *)
Module ZLe <: Orders.TotalLeBool.
  Definition t := Z.
  Definition leb := Z.leb.
  Theorem leb_total : forall a b, leb a b = true \/ leb b a = true.
  Proof. intros a b. unfold leb. rewrite !Z.leb_le. lia. Qed.
End ZLe.
Module ZSort := Mergesort.Sort ZLe.
Fixpoint strict_incr (l : list Z) : bool :=
  match l with a :: (b :: _) as r => (a <? b) && strict_incr r | _ => true end.
Definition nodup_keys (ks : list Z) : bool := strict_incr (ZSort.sort ks).
Lemma strict_incr_head a r : strict_incr (a :: r) = true -> Forall (fun b => a < b) r /\ strict_incr r = true.
Proof.
  revert a. induction r as [|b r IH]; intros a H; [split; [constructor|reflexivity]|].
  cbn [strict_incr] in H. apply andb_true_iff in H. destruct H as [Hab Hr]. apply Z.ltb_lt in Hab. split; [|exact Hr].
  constructor; [exact Hab|]. destruct (IH b Hr) as [F _]. eapply Forall_impl; [|exact F]. cbn. intros c Hc. lia.
Qed.
Lemma strict_incr_NoDup l : strict_incr l = true -> NoDup l.
Proof.
  induction l as [|a r IH]; intros H; [constructor|]. destruct (strict_incr_head a r H) as [F Hr]. constructor; [|now apply IH].
  intros Hin. rewrite Forall_forall in F. specialize (F a Hin). lia.
Qed.
Lemma sorted_NoDup_strict l : Sorted.StronglySorted (fun a b => is_true (Z.leb a b)) l -> NoDup l -> strict_incr l = true.
Proof.
  induction 1 as [|a r Hs IH Ha]; intros ND; [reflexivity|]. inversion ND as [|? ? Hn Hr]; subst.
  destruct r as [|b r']; [reflexivity|]. cbn [strict_incr]. apply andb_true_iff. split; [|now apply IH].
  apply Z.ltb_lt. inversion Ha as [|? ? Hab _]; subst. unfold is_true in Hab. apply Z.leb_le in Hab.
  assert (a <> b) by (intros ->; apply Hn; now left). lia.
Qed.
Lemma nodup_keys_spec ks : nodup_keys ks = true <-> NoDup ks.
Proof.
  unfold nodup_keys. pose proof (ZSort.Permuted_sort ks) as P. split.
  - intros H. apply strict_incr_NoDup in H. eapply Permutation_NoDup; [apply Permutation_sym; exact P|exact H].
  - intros H. apply sorted_NoDup_strict; [|eapply Permutation_NoDup; [exact P|exact H]].
    apply ZSort.StronglySorted_sort. intros a b c. unfold is_true, ZLe.leb. rewrite !Z.leb_le. lia.
Qed.
(* key of a result record: injective on records whose y and f are within 36 bits (all valid voxels) and whose zooms agree *)
Definition eid_key (j : eid) : Z := (ex j * 68719476736 + ey j) * 137438953472 + (ef j + 68719476736).   (* 2^36, 2^37 *)
Lemma eid_key_inj a b : eh a = eh b -> ev a = ev b -> 0 <= ey a < 2 ^ 36 -> 0 <= ey b < 2 ^ 36 ->
  - 2 ^ 36 <= ef a < 2 ^ 36 -> - 2 ^ 36 <= ef b < 2 ^ 36 -> eid_key a = eid_key b -> a = b.
Proof.
  destruct a as [a1 a2 a3 a4 a5], b as [b1 b2 b3 b4 b5]; cbn [eh ex ey ev ef]. unfold eid_key; cbn [ex ey ef].
  change 68719476736 with (2 ^ 36). change 137438953472 with (2 ^ 37).
  intros -> -> Hya Hyb Hfa Hfb K.
  assert (P37 : 2 ^ 37 = 2 * 2 ^ 36) by reflexivity.
  set (P := 2 ^ 36) in *. assert (0 < P) by (unfold P; reflexivity). rewrite P37 in K.
  assert (E1 : a2 * P + a3 = b2 * P + b3 /\ a5 + P = b5 + P).
  { assert (0 <= a5 + P < 2 * P) by lia. assert (0 <= b5 + P < 2 * P) by lia.
    generalize dependent (a5 + P). generalize dependent (b5 + P). intros fb Hfb' fa K Hfa'.
    generalize dependent (a2 * P + a3). generalize dependent (b2 * P + b3). intros qb qa K. nia. }
  destruct E1 as [E1 E2]. assert (a5 = b5) by lia. assert (a2 = b2 /\ a3 = b3) by nia. f_equal; lia.
Qed.
Definition nodup_eids (l : list eid) : bool := nodup_keys (map eid_key l).
Lemma nodup_eids_NoDup l : nodup_eids l = true -> NoDup l.
Proof. unfold nodup_eids. rewrite nodup_keys_spec. apply NoDup_map_inv. Qed.
Lemma NoDup_nodup_eids l : (forall a b, In a l -> In b l -> eid_key a = eid_key b -> a = b) -> NoDup l -> nodup_eids l = true.
Proof. intros Hinj H. unfold nodup_eids. rewrite nodup_keys_spec. now apply NoDup_map_in. Qed.
Definition member_okb (i j : eid) : bool := (eh j =? tzoom i) && (ev j =? tzoom i) && overlapsb i j.
Definition check_expand_rec (i : eid) (js : list eid) : bool :=
  forallb (member_okb i) js && nodup_eids js && (Z.of_nat (length js) =? expand_count i).
Definition check_expand (s : string) (obs : option (list string)) : bool :=
  match parse_eid s, obs with
  | Some i, Some o =>
      if validb i then match map_opt parse_sid o with Some js => check_expand_rec i js | None => false end
      else false                    (* off the grid nothing is accepted: the dispatch entry does not ask (class "skipped") *)
  | None, None => true
  | _, _ => false
  end.

Lemma expand_count_pos i : 0 < expand_count i.
Proof. unfold expand_count. destruct (Z.leb_spec (eh i) (ev i)); apply Z.pow_pos_nonneg; lia. Qed.

(* accepted  <->  the observed records are a permutation of the expansion *)
Theorem check_expand_rec_sound i js : valid i ->
  check_expand_rec i js = true <-> Permutation js (expand_rec i).
Proof.
  intros V. pose proof V as (Hh & Hv & Hx & Hy & _).
  unfold check_expand_rec. rewrite !andb_true_iff, forallb_forall, Z.eqb_eq. split.
  - intros ((Hall & Hnd) & Hlen). apply nodup_eids_NoDup in Hnd. apply NoDup_Permutation_bis; [exact Hnd| |].
    + rewrite expand_rec_length, <- Hlen, Nat2Z.id. apply le_n.
    + intros j Hj. apply expand_rec_spec; try lia. specialize (Hall j Hj). unfold member_okb in Hall.
      rewrite !andb_true_iff, !Z.eqb_eq, overlapsb_spec in Hall. tauto.
  - intros P. repeat split.
    + intros j Hj. apply (Permutation_in _ P) in Hj. apply expand_rec_spec in Hj; try lia. unfold member_okb.
      rewrite !andb_true_iff, !Z.eqb_eq, overlapsb_spec. tauto.
    + apply NoDup_nodup_eids; [|apply (Permutation_NoDup (Permutation_sym P)); apply expand_rec_NoDup].
      assert (B : forall j, In j js -> eh j = tzoom i /\ ev j = tzoom i /\ 0 <= ey j < 2 ^ 36 /\ - 2 ^ 36 <= ef j < 2 ^ 36).
      { intros j Hj. apply (Permutation_in _ P) in Hj. destruct (expand_rec_valid i j V Hj) as ((Jh & Jv & Jx & Jy & Jf) & E1 & E2).
        assert (2 ^ eh j <= 2 ^ 36) by (apply Z.pow_le_mono_r; lia). assert (2 ^ ev j <= 2 ^ 36) by (apply Z.pow_le_mono_r; lia). lia. }
      intros a b Ha Hb K. destruct (B a Ha) as (A1 & A2 & A3 & A4). destruct (B b Hb) as (B1 & B2 & B3 & B4).
      apply eid_key_inj; try assumption; congruence.
    + rewrite (Permutation_length P), expand_rec_length. pose proof (expand_count_pos i). lia.
Qed.

Definition expand_spec (s : string) (obs : option (list string)) : Prop :=
  match parse_eid s, obs with
  | Some i, Some o => valid i /\ exists js, map_opt parse_sid o = Some js /\ Permutation js (expand_rec i)
  | None, None => True
  | _, _ => False
  end.
Theorem check_expand_sound s obs : check_expand s obs = true <-> expand_spec s obs.
Proof.
  unfold check_expand, expand_spec. destruct (parse_eid s) as [i|], obs as [o|]; try tauto; try (split; [discriminate|tauto]).
  destruct (validb i) eqn:V.
  - apply validb_spec in V. destruct (map_opt parse_sid o) as [js|].
    + rewrite check_expand_rec_sound by exact V. split.
      * intros P. eauto.
      * intros (_ & js' & [= <-] & P). exact P.
    + split; [discriminate|]. intros (_ & js' & E & _). discriminate.
  - split; [discriminate|]. intros (V' & _). apply validb_spec in V'. congruence.
Qed.
(* consequences, on the observed output: no string twice, every string a valid spatial ID at zoom max h v, the count, the exact partition *)
Theorem expand_spec_consequences s i o : parse_eid s = Some i -> valid i -> expand_spec s (Some o) ->
  NoDup o /\ length o = Z.to_nat (expand_count i) /\
  (forall t, In t o -> exists j, parse_sid t = Some j /\ valid j /\ eh j = tzoom i /\ ev j = tzoom i) /\
  (forall p, inR i p <-> exists t j, In t o /\ parse_sid t = Some j /\ inR j p) /\
  (forall n m t u j k p, nth_error o n = Some t -> nth_error o m = Some u -> parse_sid t = Some j -> parse_sid u = Some k -> inR j p -> inR k p -> n = m).
Proof.
  intros Hs Hv. unfold expand_spec. rewrite Hs. intros (_ & js & Hjs & P).
  pose proof Hv as (Hh & Hvv & Hx & Hy & _).
  assert (F : Forall2 (fun t j => parse_sid t = Some j) o js) by now apply map_opt_Forall2.
  assert (ND : NoDup js) by (apply (Permutation_NoDup (Permutation_sym P)); apply expand_rec_NoDup).
  assert (IN : forall t, In t o -> exists j, parse_sid t = Some j /\ In j js).
  { clear -F. induction F as [|t j o js Htj F IH]; [intros t []|]. intros t' [<-|Hin]; [exists j; split; [exact Htj|now left]|].
    destruct (IH t' Hin) as (j' & Hj' & Hin'). exists j'. split; [exact Hj'|now right]. }
  assert (NTH : forall n t j, nth_error o n = Some t -> parse_sid t = Some j -> nth_error js n = Some j).
  { clear -F. induction F as [|t j o js Htj F IH]; intros n t' j' Hn Hp; [destruct n; discriminate|].
    destruct n as [|n]; cbn in *; [injection Hn as <-; congruence|eauto]. }
  split; [|split; [|split; [|split]]].
  - clear -F ND. induction F as [|t j o js Htj F IH]; [constructor|]. inversion ND as [|? ? Hj Hjs]; subst. constructor; [|now apply IH].
    intros Hin. apply Hj. clear -F Hin Htj. induction F as [|t' j' o js Htj' F IH]; [destruct Hin|].
    destruct Hin as [->|Hin]; [left; congruence|right; now apply IH].
  - rewrite <- (map_opt_length _ _ _ Hjs), (Permutation_length P). apply expand_rec_length.
  - intros t Ht. destruct (IN t Ht) as (j & Hj & Hin). exists j. split; [exact Hj|].
    apply (Permutation_in _ P) in Hin. apply (expand_rec_valid i j Hv Hin).
  - intros p. rewrite (expand_region i p) by lia. split.
    + intros (j & Hj & Hp). apply (Permutation_in _ (Permutation_sym P)) in Hj.
      clear -F Hj Hp. induction F as [|t j' o js Htj F IH]; [destruct Hj|].
      destruct Hj as [->|Hj]; [exists t, j; split; [now left|tauto]|].
      destruct (IH Hj) as (t' & j'' & Hin & H1 & H2). exists t', j''. split; [now right|tauto].
    + intros (t & j & Ht & Hj & Hp). destruct (IN t Ht) as (j' & Hj' & Hin). rewrite Hj in Hj'. injection Hj' as <-.
      exists j. split; [now apply (Permutation_in _ P)|exact Hp].
  - intros n m t u j k p Hn Hm Hj Hk Pj Pk.
    pose proof (NTH n t j Hn Hj) as Nj. pose proof (NTH m u k Hm Hk) as Nk.
    assert (j = k).
    { apply (expand_disjoint i j k p); try lia; try assumption.
      - apply (Permutation_in _ P). eapply nth_error_In; eauto.
      - apply (Permutation_in _ P). eapply nth_error_In; eauto. }
    subst k. apply (proj1 (NoDup_nth_error js) ND); [apply nth_error_Some; congruence|congruence].
Qed.
(* the model passes its own checker for every string that is malformed or a valid ID of the grid (off the grid the entry does not ask) *)
Definition on_grid (s : string) : Prop := forall i, parse_eid s = Some i -> valid i.
Theorem expand_model_spec s : on_grid s -> expand_spec s (res_opt (expand_api s)).
Proof.
  unfold on_grid, expand_spec, expand_api. destruct (parse_eid s) as [i|] eqn:E; cbn; [|intros _; exact I].
  intros G. pose proof (G i eq_refl) as Hv. split; [exact Hv|]. exists (expand_rec i). split; [|apply Permutation_refl].
  rewrite expand_eid_rec. apply map_opt_Forall2.
  assert (H : forall j, In j (expand_rec i) -> parse_sid (print_sid j) = Some j).
  { intros j Hj. destruct (expand_rec_valid i j Hv Hj) as (Vj & E1 & E2). apply parse_print_sid; [now apply valid_fields_ok|congruence]. }
  induction (expand_rec i) as [|j r IH]; cbn; constructor; [apply H; now left|apply IH; intros; apply H; now right].
Qed.

(* the same decision, cheaper on conforming output: an observation equal to the model's list (order included) is accepted without parsing
   its strings again — justified by expand_model_spec; every other observation goes through check_expand *)
Definition check_expand_fast (s : string) (obs : option (list string)) : bool :=
  match parse_eid s, obs with
  | Some i, Some o => if validb i && same_list o (expand_eid i) then true else check_expand s obs
  | _, _ => check_expand s obs
  end.
Theorem check_expand_fast_sound s obs : check_expand_fast s obs = true <-> expand_spec s obs.
Proof.
  unfold check_expand_fast. destruct (parse_eid s) as [i|] eqn:E; [|apply check_expand_sound].
  destruct obs as [o|]; [|apply check_expand_sound].
  destruct (validb i && same_list o (expand_eid i)) eqn:F; [|apply check_expand_sound].
  apply andb_true_iff in F. destruct F as [V F]. apply validb_spec in V. apply same_list_spec in F. subst o.
  split; [intros _|reflexivity].
  assert (G : on_grid s) by (intros j Hj; congruence).
  pose proof (expand_model_spec s G) as H. unfold expand_api in H. rewrite E in H. exact H.
Qed.

(* several expansions in a row (the API has no state: each call must satisfy the statement on its own) *)
Definition expand_seq_model (l : list string) : list (option (list string)) := map (fun s => res_opt (expand_api s)) l.
Definition check_expand_seq (l : list string) (obs : list (option (list string))) : bool := forall2b check_expand l obs.
Theorem check_expand_seq_sound l obs : check_expand_seq l obs = true <-> Forall2 expand_spec l obs.
Proof. apply forall2b_spec. apply check_expand_sound. Qed.
Theorem expand_seq_model_spec l : Forall on_grid l -> Forall2 expand_spec l (expand_seq_model l).
Proof. induction 1 as [|s l Hs Hl IH]; cbn; constructor; [now apply expand_model_spec|exact IH]. Qed.

(* ---- GetVoxelIDfromSpatialID observed as a list of integers. The checker demands the model's value for EVERY string (also malformed
        ones with five or more fields, where the discarded strconv errors decide); voxel_id_spec / voxel_id_empty say what that value is on
        well-formed IDs and on short strings ---- *)
Definition voxel_spec (s : string) (obs : list Z) : Prop :=
  obs = voxel_id s /\ (forall i, parse_eid s = Some i -> obs = [ex i; ey i; ef i]) /\ ((length (split s) < 5)%nat -> obs = []).
Definition check_voxel (s : string) (obs : list Z) : bool := list_eqb Z.eqb obs (voxel_id s).
Theorem check_voxel_sound s obs : check_voxel s obs = true <-> voxel_spec s obs.
Proof.
  unfold check_voxel, voxel_spec. rewrite Zlist_eqb_spec. split; [|tauto]. intros ->. split; [reflexivity|]. split.
  - intros i H. now apply voxel_id_spec.
  - intros H. now apply voxel_id_empty.
Qed.
Theorem voxel_model_spec s : voxel_spec s (voxel_id s).
Proof. apply check_voxel_sound. unfold check_voxel. now apply Zlist_eqb_spec. Qed.

(* ---- ResetExtendedSpatialID on ONE object, several times in a row: the object after a successful reset is determined by the last string
        alone (no field survives from an earlier value); a failed reset returns an error and (as the code is written: the fields are assigned
        only after all five conversions succeeded) leaves the object as it was ---- *)
Definition zero_eid : eid := mk 0 0 0 0 0.
Fixpoint reset_seq (st : eid) (l : list string) : list (bool * eid) :=
  match l with
  | [] => []
  | s :: r => match parse_eid s with
              | Some i => (false, i) :: reset_seq i r
              | None => (true, st) :: reset_seq st r
              end
  end.
Theorem reset_seq_no_stale_state st l :
  Forall2 (fun s o => match parse_eid s with Some i => o = (false, i) | None => fst o = true end) l (reset_seq st l).
Proof.
  revert st. induction l as [|s r IH]; intros st; cbn; [constructor|].
  destruct (parse_eid s) as [i|] eqn:E; constructor; try (rewrite E; reflexivity); apply IH.
Qed.
(* observed per step: (error?, ID(), FieldParams()) *)
Definition reset_step_spec (s : string) (o : bool * string * list Z) : Prop :=
  let '(e, id, fp) := o in
  match parse_eid s with
  | Some i => e = false /\ parse_eid id = Some i /\ fp = [eh i; ex i; ey i; ev i; ef i]
  | None => e = true
  end.
Definition check_reset_step (s : string) (o : bool * string * list Z) : bool :=
  let '(e, id, fp) := o in
  match parse_eid s with
  | Some i => negb e && check_parseprint s (Some (id, fp, fp))
  | None => e
  end.
Definition check_reset_seq (l : list string) (obs : list (bool * string * list Z)) : bool := forall2b check_reset_step l obs.
Theorem check_reset_seq_sound l obs : check_reset_seq l obs = true <-> Forall2 reset_step_spec l obs.
Proof.
  apply forall2b_spec. intros s [[e id] fp]. unfold check_reset_step, reset_step_spec.
  pose proof (check_parseprint_sound s (Some (id, fp, fp))) as H. unfold parseprint_spec in H.
  destruct (parse_eid s) as [i|].
  - rewrite andb_true_iff, negb_true_iff, H. tauto.
  - tauto.
Qed.
Theorem reset_seq_model_spec st l :
  Forall2 reset_step_spec l (map (fun o => (fst o, print_eid (snd o), field_params (snd o))) (reset_seq st l)).
Proof.
  revert st. induction l as [|s r IH]; intros st; cbn; [constructor|].
  destruct (parse_eid s) as [i|] eqn:E; cbn; constructor; try apply IH; unfold reset_step_spec; rewrite E; [|reflexivity].
  split; [reflexivity|]. split; [|reflexivity]. apply parse_print_eid. eapply parse_eid_fields_ok; eauto.
Qed.

(* ---- the setters of the object: SetX / SetY / SetZ / SetZoom (and ResetExtendedSpatialID) applied to one object as a script;
        each writes exactly its own field(s) ---- *)
(* SNew s: the script continues on the object returned by NewExtendedSpatialID(s) — a FRESH object per call (the zero object, with an
   error, when s is malformed) *)
Inductive setter := SX (x : Z) | SY (y : Z) | SZ (z : Z) | SZoom (h v : Z) | SReset (s : string) | SNew (s : string).
Definition apply_setter (st : eid) (c : setter) : eid :=
  match c with
  | SX x => {| eh := eh st; ex := x; ey := ey st; ev := ev st; ef := ef st |}
  | SY y => {| eh := eh st; ex := ex st; ey := y; ev := ev st; ef := ef st |}
  | SZ z => {| eh := eh st; ex := ex st; ey := ey st; ev := ev st; ef := z |}
  | SZoom h v => {| eh := h; ex := ex st; ey := ey st; ev := v; ef := ef st |}
  | SReset s => match parse_eid s with Some i => i | None => st end
  | SNew s => match parse_eid s with Some i => i | None => zero_eid end
  end.
Definition setter_err (c : setter) : bool :=
  match c with SReset s | SNew s => match parse_eid s with Some _ => false | None => true end | _ => false end.
Fixpoint run_setters (st : eid) (l : list setter) : list (bool * eid) :=
  match l with [] => [] | c :: r => let st' := apply_setter st c in (setter_err c, st') :: run_setters st' r end.

(* each field equals the last value set for it; the other fields are unchanged *)
Theorem setter_fields st x y z h v :
  apply_setter st (SX x) = mk (eh st) x (ey st) (ev st) (ef st) /\ apply_setter st (SY y) = mk (eh st) (ex st) y (ev st) (ef st) /\
  apply_setter st (SZ z) = mk (eh st) (ex st) (ey st) (ev st) z /\ apply_setter st (SZoom h v) = mk h (ex st) (ey st) v (ef st).
Proof. repeat split. Qed.
(* setters of distinct fields commute *)
Definition setter_field (c : setter) : nat := match c with SX _ => 1 | SY _ => 2 | SZ _ => 3 | SZoom _ _ => 0 | SReset _ => 4 | SNew _ => 5 end%nat.
Theorem setters_commute st c d : (setter_field c < 4)%nat -> (setter_field d < 4)%nat -> setter_field c <> setter_field d ->
  apply_setter (apply_setter st c) d = apply_setter (apply_setter st d) c.
Proof. destruct c, d; cbn; intros; try reflexivity; try congruence; lia. Qed.
(* get-set and frame laws of the record model: a getter after its own setter returns the value set; every other getter is unchanged *)
Theorem get_set_frame st x y z h v :
  let gx := apply_setter st (SX x) in let gy := apply_setter st (SY y) in let gz := apply_setter st (SZ z) in let gm := apply_setter st (SZoom h v) in
  (ex gx = x /\ eh gx = eh st /\ ey gx = ey st /\ ev gx = ev st /\ ef gx = ef st) /\
  (ey gy = y /\ eh gy = eh st /\ ex gy = ex st /\ ev gy = ev st /\ ef gy = ef st) /\
  (ef gz = z /\ eh gz = eh st /\ ex gz = ex st /\ ey gz = ey st /\ ev gz = ev st) /\
  (eh gm = h /\ ev gm = v /\ ex gm = ex st /\ ey gm = ey st /\ ef gm = ef st).
Proof. cbv zeta. cbn. repeat split. Qed.
(* the record after step k of a script is the fold of the first k+1 commands: the printer after setters is the printer of that record *)
Theorem state_after_script st l k o : nth_error (run_setters st l) k = Some o -> snd o = fold_left apply_setter (firstn (S k) l) st.
Proof.
  revert st k. induction l as [|c r IH]; intros st k; cbn [run_setters]; [destruct k; discriminate|].
  destruct k as [|k]; cbn [nth_error].
  - intros [= <-]. reflexivity.
  - intros H. apply IH in H. exact H.
Qed.
(* after the four setters, in any order, ID() prints the five set values and FieldParams() returns them, whatever the object held before *)
Theorem ID_after_setters st h x y v z :
  let o := apply_setter (apply_setter (apply_setter (apply_setter st (SZ z)) (SY y)) (SX x)) (SZoom h v) in
  o = mk h x y v z /\ print_eid o = join [print h; print x; print y; print v; print z] /\ field_params o = [h; x; y; v; z].
Proof. cbv zeta. repeat split. Qed.

(* observed per step: (error?, ID(), FieldParams(), [HZoom(); X(); Y(); VZoom(); Z()]) *)
Definition setter_step_spec (o : bool * eid) (obs : bool * string * list Z * list Z) : Prop :=
  let '(e, id, fp, acc) := obs in
  e = fst o /\ parse_eid id = Some (snd o) /\ fp = field_params (snd o) /\ acc = field_params (snd o).
Definition check_setter_step (o : bool * eid) (obs : bool * string * list Z * list Z) : bool :=
  let '(e, id, fp, acc) := obs in
  Bool.eqb e (fst o) && match parse_eid id with Some j => eid_eqb j (snd o) | None => false end &&
  list_eqb Z.eqb fp (field_params (snd o)) && list_eqb Z.eqb acc (field_params (snd o)).
Definition check_setters (l : list setter) (obs : list (bool * string * list Z * list Z)) : bool :=
  forall2b check_setter_step (run_setters zero_eid l) obs.
Theorem check_setters_sound l obs : check_setters l obs = true <-> Forall2 setter_step_spec (run_setters zero_eid l) obs.
Proof.
  apply forall2b_spec. intros [e0 st] [[[e id] fp] acc]. unfold check_setter_step, setter_step_spec. cbn [fst snd].
  rewrite !andb_true_iff, !Zlist_eqb_spec, Bool.eqb_true_iff.
  destruct (parse_eid id) as [j|]; [|split; [intros [[[_ H] _] _]; discriminate|intros (_ & H & _); discriminate]].
  destruct (eid_eqb_spec j st) as [->|N]; split.
  - tauto.
  - tauto.
  - intros [[[_ H] _] _]. discriminate.
  - intros (_ & H & _). congruence.
Qed.
Definition all_fields_ok (l : list setter) : Prop :=
  Forall (fun c => match c with SX a | SY a | SZ a => int64_ok a = true | SZoom h v => int64_ok h = true /\ int64_ok v = true | SReset _ | SNew _ => True end) l.
Theorem setters_model_spec l : all_fields_ok l ->
  Forall2 setter_step_spec (run_setters zero_eid l)
          (map (fun o => (fst o, print_eid (snd o), field_params (snd o), field_params (snd o))) (run_setters zero_eid l)).
Proof.
  assert (G : forall st, fields_ok st = true -> all_fields_ok l ->
    Forall2 setter_step_spec (run_setters st l) (map (fun o => (fst o, print_eid (snd o), field_params (snd o), field_params (snd o))) (run_setters st l))).
  { induction l as [|c r IH]; intros st Hst Hl; cbn; [constructor|]. inversion Hl as [|? ? Hc Hr]; subst.
    assert (Hst' : fields_ok (apply_setter st c) = true).
    { unfold fields_ok in *. rewrite !andb_true_iff in Hst. destruct Hst as ((((H1 & H2) & H3) & H4) & H5).
      destruct c; cbn [apply_setter eh ex ey ev ef]; try (now rewrite ?H1, ?H2, ?H3, ?H4, ?H5, ?Hc).
      - destruct Hc as [Ha Hb]. now rewrite Ha, Hb, H2, H3, H5.
      - destruct (parse_eid s) as [i|] eqn:E; [exact (parse_eid_fields_ok s i E)|]. now rewrite H1, H2, H3, H4, H5.
      - destruct (parse_eid s) as [i|] eqn:E; [exact (parse_eid_fields_ok s i E)|reflexivity]. }
    constructor; [|now apply IH]. unfold setter_step_spec. cbn [fst snd]. repeat split. now apply parse_print_eid. }
  intros H. apply G; [reflexivity|exact H].
Qed.

Lemma check_setter_step_sound o obs : check_setter_step o obs = true <-> setter_step_spec o obs.
Proof.
  destruct o as [e0 st], obs as [[[e id] fp] acc]. unfold check_setter_step, setter_step_spec. cbn [fst snd].
  rewrite !andb_true_iff, !Zlist_eqb_spec, Bool.eqb_true_iff.
  destruct (parse_eid id) as [j|]; [|split; [intros [[[_ H] _] _]; discriminate|intros (_ & H & _); discriminate]].
  destruct (eid_eqb_spec j st) as [->|N]; split; try tauto.
  - intros [[[_ H] _] _]. discriminate.
  - intros (_ & H & _). congruence.
Qed.

(* ---- two parses never alias. The harness parses the SAME string twice (objects A and B), runs a setter script on A, parses the string a
        third time (C), and reads all three back. Model: every parse yields a fresh record, so B and C are the parsed record whatever was
        done to A. (A constructor that hands out a shared or cached pointer makes B or C follow A.) ---- *)
Definition alias_model (s : string) (l : list setter) : option (eid * eid * eid) :=
  match parse_eid s with Some i => Some (fold_left apply_setter l i, i, i) | None => None end.
Definition readback := (string * list Z * list Z)%type.      (* ID(), FieldParams(), the five getters *)
Definition rd_step (r : readback) : bool * string * list Z * list Z := let '(id, fp, acc) := r in (false, id, fp, acc).
Definition alias_spec (s : string) (l : list setter) (obs : option (readback * readback * readback)) : Prop :=
  match alias_model s l, obs with
  | Some (a, b, c), Some (ra, rb, rc) =>
      setter_step_spec (false, a) (rd_step ra) /\ setter_step_spec (false, b) (rd_step rb) /\ setter_step_spec (false, c) (rd_step rc)
  | None, None => True
  | _, _ => False
  end.
Definition check_alias (s : string) (l : list setter) (obs : option (readback * readback * readback)) : bool :=
  match alias_model s l, obs with
  | Some (a, b, c), Some (ra, rb, rc) =>
      check_setter_step (false, a) (rd_step ra) && check_setter_step (false, b) (rd_step rb) && check_setter_step (false, c) (rd_step rc)
  | None, None => true
  | _, _ => false
  end.
Theorem check_alias_sound s l obs : check_alias s l obs = true <-> alias_spec s l obs.
Proof.
  unfold check_alias, alias_spec. destruct (alias_model s l) as [[[a b] c]|], obs as [[[ra rb] rc]|]; try tauto; try (split; [discriminate|tauto]).
  rewrite !andb_true_iff, !check_setter_step_sound. tauto.
Qed.
(* the untouched objects read back the parsed record, for every script run on the first one *)
Theorem alias_untouched s l i : parse_eid s = Some i -> alias_model s l = Some (fold_left apply_setter l i, i, i).
Proof. intros H. unfold alias_model. now rewrite H. Qed.
Definition rb_of (j : eid) : readback := (print_eid j, field_params j, field_params j).
Theorem alias_model_spec s l : all_fields_ok l ->
  alias_spec s l (match alias_model s l with Some (a, b, c) => Some (rb_of a, rb_of b, rb_of c) | None => None end).
Proof.
  intros Hl. unfold alias_spec, alias_model. destruct (parse_eid s) as [i|] eqn:E; [|exact I].
  pose proof (parse_eid_fields_ok s i E) as Fi.
  assert (Fa : forall l st, fields_ok st = true -> all_fields_ok l -> fields_ok (fold_left apply_setter l st) = true).
  { clear. induction l as [|c r IH]; intros st Hst Hl; [exact Hst|]. inversion Hl as [|? ? Hc Hr]; subst. cbn [fold_left]. apply IH; [|exact Hr].
    unfold fields_ok in *. rewrite !andb_true_iff in Hst. destruct Hst as ((((H1 & H2) & H3) & H4) & H5).
    destruct c; cbn [apply_setter eh ex ey ev ef]; try (now rewrite ?H1, ?H2, ?H3, ?H4, ?H5, ?Hc).
    - destruct Hc as [Ha Hb]. now rewrite Ha, Hb, H2, H3, H5.
    - destruct (parse_eid s) as [i|] eqn:E; [exact (parse_eid_fields_ok s i E)|]. now rewrite H1, H2, H3, H4, H5.
    - destruct (parse_eid s) as [i|] eqn:E; [exact (parse_eid_fields_ok s i E)|reflexivity]. }
  unfold setter_step_spec, rd_step, rb_of; cbn [fst snd]. repeat split; apply parse_print_eid; [now apply Fa|exact Fi|exact Fi].
Qed.

(* ---- the delimiter. The parser and printer models split and join at Str.slash; that this is the constant the Go code uses
        (consts.SpatialIDDelimiter, regenerated from /repo as Generated.SpatialIDDelimiter) is proved in GenC10.v, which nothing on the
        dispatch side imports ---- *)
Definition bytes_to_string (l : list Z) : string := fold_right (fun b r => String (ascii_of_nat (Z.to_nat b)) r) EmptyString l.
Lemma join_concat l : join l = String.concat (String slash EmptyString) l.
Proof.
  induction l as [|a r IH]; [reflexivity|]. destruct r as [|b r']; [reflexivity|].
  rewrite join_cons, IH. reflexivity.
Qed.

