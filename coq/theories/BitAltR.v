(* BitAltR.v — C17: the exact-arithmetic twin of calcBitIndex (the same loop over the real numbers) computes the clamped floor of the
   normalised altitude; hence the emitted run covers the voxel; and the integer reference of BitAltRef.v (the one the run-time checker
   evaluates on the floats' dyadic values) is that same number. *)
From Coq Require Import ZArith Reals Lia Lra Psatz List Bool.
From Flocq Require Import Core.
From SID Require Import Base BitAlt BitAltRef.
Open Scope R_scope.

Definition geR (a b : R) : bool := Rle_bool b a.
Definition halfR (mx mn : R) : R := (mx - mn) / 2 + mn.
Definition bitsR := bits R geR halfR.
(* the loop of calcBitIndex run on real numbers *)
Definition calcR (alt : R) (n : Z) (mx mn : R) : Z := bitsR (Z.to_nat n) alt mx mn 0.

Lemma geR_spec a b : geR a b = true <-> b <= a.
Proof. unfold geR. destruct (Rle_bool_spec b a); split; auto; try discriminate; lra. Qed.
Lemma geR_trans a b c : geR a b = true -> geR b c = true -> geR a c = true.
Proof. rewrite !geR_spec. lra. Qed.

Lemma floor_add (x : R) (k : Z) : Zfloor (x + IZR k) = (Zfloor x + k)%Z.
Proof.
  apply Zfloor_imp. rewrite !plus_IZR. pose proof (Zfloor_lb x). pose proof (Zfloor_ub x). split; lra.
Qed.

Theorem bitsR_exact (n : nat) : forall alt mx mn acc, mn < mx ->
  bitsR n alt mx mn acc =
  (acc * 2 ^ Z.of_nat n + clampZ 0 (2 ^ Z.of_nat n - 1) (Zfloor ((alt - mn) / (mx - mn) * IZR (2 ^ Z.of_nat n))))%Z.
Proof.
  induction n as [|m IH]; intros alt mx mn acc Hlt.
  - cbn [bitsR bits Z.of_nat]. change (2 ^ 0)%Z with 1%Z. unfold clampZ. lia.
  - unfold bitsR in *. cbn [bits]. set (b := halfR mx mn).
    assert (Hb : mn < b < mx) by (unfold b, halfR; lra).
    rewrite Nat2Z.inj_succ, Z.pow_succ_r by lia.
    set (P := (2 ^ Z.of_nat m)%Z) in *.
    assert (HP : (0 < P)%Z) by (apply Z.pow_pos_nonneg; lia).
    assert (HPR : 0 < IZR P) by (apply IZR_lt; exact HP).
    set (t := (alt - mn) / (mx - mn)).
    assert (Et : alt - mn = t * (mx - mn)) by (unfold t; field; lra).
    rewrite mult_IZR. set (F := Zfloor (t * (2 * IZR P))).
    pose proof (Zfloor_lb (t * (2 * IZR P))) as Flb. pose proof (Zfloor_ub (t * (2 * IZR P))) as Fub. fold F in Flb, Fub.
    destruct (geR alt b) eqn:G.
    + (* upper half: t >= 1/2, floor(2tP) >= P *)
      apply geR_spec in G. rewrite IH by lra.
      assert (T : (alt - b) / (mx - b) = 2 * t - 1) by (unfold t, b, halfR; field; lra).
      rewrite T.
      replace ((2 * t - 1) * IZR P) with (t * (2 * IZR P) + IZR (- P)) by (rewrite opp_IZR; ring).
      rewrite floor_add. fold F.
      assert (Ht : 1 / 2 <= t) by (unfold b, halfR in G; nra).
      assert (HF : (P <= F)%Z).
      { apply Zlt_succ_le, lt_IZR. unfold Z.succ. rewrite plus_IZR. apply Rle_lt_trans with (2 := Fub). nra. }
      unfold clampZ. lia.
    + (* lower half: t < 1/2, floor(2tP) < P *)
      assert (G' : alt < b). { destruct (Rlt_or_le alt b) as [L|L]; [exact L|]. apply geR_spec in L. congruence. }
      rewrite IH by lra.
      assert (T : (alt - mn) / (b - mn) = 2 * t) by (unfold t, b, halfR; field; lra).
      rewrite T. replace (2 * t * IZR P) with (t * (2 * IZR P)) by ring. fold F.
      assert (Ht : t < 1 / 2) by (unfold b, halfR in G'; nra).
      assert (HF : (F < P)%Z) by (apply lt_IZR; apply Rle_lt_trans with (1 := Flb); nra).
      unfold clampZ. lia.
Qed.

(* the index is the clamped floor of the normalised altitude *)
Theorem calcR_exact alt n mx mn : (0 <= n)%Z -> mn < mx ->
  calcR alt n mx mn = clampZ 0 (2 ^ n - 1) (Zfloor ((alt - mn) / (mx - mn) * IZR (2 ^ n))).
Proof.
  intros Hn Hlt. unfold calcR. rewrite bitsR_exact by exact Hlt. rewrite Z2Nat.id by exact Hn. lia.
Qed.
Theorem calcR_mono a1 a2 n mx mn : a1 <= a2 -> (calcR a1 n mx mn <= calcR a2 n mx mn)%Z.
Proof. intros H. unfold calcR, bitsR. apply bits_mono; [exact geR_trans | now apply geR_spec]. Qed.

(* cell i of the 2^n-fold subdivision of [mn, mx) *)
Definition in_cell (i n : Z) (mx mn a : R) : Prop :=
  mn + IZR i * ((mx - mn) / IZR (2 ^ n)) <= a < mn + (IZR i + 1) * ((mx - mn) / IZR (2 ^ n)).

(* an altitude inside the range lies in the cell whose number the loop returns *)
Theorem calcR_in_cell a n mx mn : (0 <= n)%Z -> mn <= a < mx -> in_cell (calcR a n mx mn) n mx mn a.
Proof.
  intros Hn [Hlo Hhi]. assert (Hlt : mn < mx) by lra. rewrite calcR_exact by assumption.
  set (P := (2 ^ n)%Z). assert (HP : (0 < P)%Z) by (apply Z.pow_pos_nonneg; lia).
  assert (HPR : 0 < IZR P) by (apply IZR_lt; exact HP).
  set (t := (a - mn) / (mx - mn)).
  assert (Ht : 0 <= t < 1).
  { unfold t. split; [apply Rmult_le_pos; [lra | left; apply Rinv_0_lt_compat; lra]|].
    apply Rmult_lt_reg_r with (mx - mn); [lra|]. unfold Rdiv. rewrite Rmult_assoc, Rinv_l by lra. lra. }
  pose proof (Zfloor_lb (t * IZR P)) as Flb. pose proof (Zfloor_ub (t * IZR P)) as Fub.
  set (F := Zfloor (t * IZR P)) in *.
  assert (HF0 : (0 <= F)%Z).
  { apply Zlt_succ_le, lt_IZR. unfold Z.succ. rewrite plus_IZR. apply Rle_lt_trans with (2 := Fub). nra. }
  assert (HF1 : (F < P)%Z) by (apply lt_IZR; apply Rle_lt_trans with (1 := Flb); nra).
  unfold clampZ. rewrite Z.min_r, Z.max_r by lia.
  unfold in_cell. fold P.
  set (w := (mx - mn) / IZR P).
  assert (Hw : 0 < w) by (unfold w; apply Rmult_lt_0_compat; [lra | now apply Rinv_0_lt_compat]).
  assert (Ea : a = mn + (t * IZR P) * w) by (unfold t, w; field; lra).
  rewrite Ea. split; nra.
Qed.

(* COVERAGE: every altitude of the voxel [lo, hi] that lies inside the height range is in a cell of the emitted run
   calcR lo .. calcR hi; altitudes below (above) the range fall to the first (last) cell, which the run then contains. *)
Theorem run_covers lo hi a n mx mn : (0 <= n)%Z -> mn < mx -> lo <= a <= hi ->
  (calcR lo n mx mn <= calcR a n mx mn <= calcR hi n mx mn)%Z /\
  (0 <= calcR a n mx mn < 2 ^ n)%Z /\
  (mn <= a < mx -> in_cell (calcR a n mx mn) n mx mn a) /\
  (a < mn -> calcR a n mx mn = 0%Z) /\ (mx <= a -> calcR a n mx mn = (2 ^ n - 1)%Z).
Proof.
  intros Hn Hlt [H1 H2].
  assert (HP : (0 < 2 ^ n)%Z) by (apply Z.pow_pos_nonneg; lia).
  assert (HPR : 0 < IZR (2 ^ n)) by (apply IZR_lt; exact HP).
  split; [split; now apply calcR_mono|]. split.
  { rewrite calcR_exact by assumption. unfold clampZ. lia. }
  split; [intros; now apply calcR_in_cell|]. split; intros Ha; rewrite calcR_exact by assumption; unfold clampZ.
  - assert ((Zfloor ((a - mn) / (mx - mn) * IZR (2 ^ n)) < 0)%Z); [|lia].
    apply lt_IZR. eapply Rle_lt_trans; [apply Zfloor_lb|].
    assert ((a - mn) / (mx - mn) < 0); [|nra].
    unfold Rdiv. assert (0 < / (mx - mn)) by (apply Rinv_0_lt_compat; lra). nra.
  - assert ((2 ^ n <= Zfloor ((a - mn) / (mx - mn) * IZR (2 ^ n)))%Z); [|lia].
    apply Zfloor_lub.
    assert (1 <= (a - mn) / (mx - mn)); [|nra].
    apply Rmult_le_reg_r with (mx - mn); [lra|]. unfold Rdiv. rewrite Rmult_assoc, Rinv_l by lra. lra.
Qed.

(* ---------------- the integer reference of BitAltRef.v is the same number ---------------- *)
Definition dval (d : dy) : R := IZR (fst d) * bpow radix2 (snd d).

Lemma IZR_pow2 d : (0 <= d)%Z -> IZR (2 ^ d) = bpow radix2 d.
Proof. intros H. rewrite <- IZR_Zpower by exact H. reflexivity. Qed.
Lemma dnum_val d E : (E <= snd d)%Z -> IZR (dnum d E) * bpow radix2 E = dval d.
Proof.
  intros H. unfold dnum, dval. rewrite mult_IZR, IZR_pow2 by lia. rewrite Rmult_assoc, <- bpow_plus. f_equal. f_equal. lia.
Qed.
Lemma dlt_spec a b : dlt a b = true <-> dval a < dval b.
Proof.
  unfold dlt. set (E := Z.min (snd a) (snd b)). rewrite Z.ltb_lt.
  rewrite <- (dnum_val a E), <- (dnum_val b E) by (unfold E; lia).
  pose proof (bpow_gt_0 radix2 E). split; intros H0.
  - apply Rmult_lt_compat_r; [assumption | now apply IZR_lt].
  - apply lt_IZR. now apply Rmult_lt_reg_r with (bpow radix2 E).
Qed.

Theorem idx_ref_real a mn mx n : (0 <= n)%Z -> dval mn < dval mx ->
  idx_ref a mn mx n = clampZ 0 (2 ^ n - 1) (Zfloor ((dval a - dval mn) / (dval mx - dval mn) * IZR (2 ^ n))).
Proof.
  intros Hn Hlt. unfold idx_ref. set (E := Z.min (snd a) (Z.min (snd mn) (snd mx))).
  f_equal.
  rewrite <- (dnum_val a E), <- (dnum_val mn E), <- (dnum_val mx E) in * by (unfold E; lia).
  set (A := dnum a E) in *. set (Mn := dnum mn E) in *. set (Mx := dnum mx E) in *.
  pose proof (bpow_gt_0 radix2 E) as HE.
  assert (HM : (Mn < Mx)%Z) by (apply lt_IZR; now apply Rmult_lt_reg_r with (bpow radix2 E)).
  assert (HMR : 0 < IZR Mx - IZR Mn) by (apply IZR_lt in HM; lra).
  replace ((IZR A * bpow radix2 E - IZR Mn * bpow radix2 E) / (IZR Mx * bpow radix2 E - IZR Mn * bpow radix2 E) * IZR (2 ^ n))
    with (IZR ((A - Mn) * 2 ^ n) / IZR (Mx - Mn)).
  - rewrite Zfloor_div by lia. reflexivity.
  - rewrite mult_IZR, !minus_IZR. field. split; lra.
Qed.
(* ... hence it equals the real-number loop, run on the dyadic values *)
Corollary idx_ref_is_calcR a mn mx n : (0 <= n)%Z -> dval mn < dval mx ->
  idx_ref a mn mx n = calcR (dval a) n (dval mx) (dval mn).
Proof. intros Hn Hlt. rewrite calcR_exact by assumption. now apply idx_ref_real. Qed.

(* reverse direction: the vertical index of an altitude is the floor of altitude * 2^oz / 2^25, and the cell bounds are the exact ones *)
Lemma vidx_ref_real a oz : vidx_ref a oz = Zfloor (dval a * bpow radix2 (oz - 25)).
Proof.
  unfold vidx_ref, ExactRef.floor_scaled, dval. destruct a as [m e]. cbn [fst snd].
  rewrite Rmult_assoc, <- bpow_plus.
  destruct (Z.leb_spec 0 (e + (oz - 25))) as [H|H].
  - rewrite <- IZR_pow2 by exact H. rewrite <- mult_IZR. now rewrite Zfloor_IZR.
  - replace (bpow radix2 (e + (oz - 25))) with (/ IZR (2 ^ (- (e + (oz - 25))))).
    + change (IZR m * / IZR (2 ^ (- (e + (oz - 25))))) with (IZR m / IZR (2 ^ (- (e + (oz - 25))))).
      rewrite Zfloor_div; [reflexivity|]. apply Z.pow_nonzero; lia.
    + rewrite IZR_pow2 by lia. rewrite <- bpow_opp. f_equal. lia.
Qed.
Lemma cell_dy_real k vz mn mx : (0 <= vz)%Z ->
  dval (cell_dy k vz mn mx) = dval mn + IZR k * ((dval mx - dval mn) / IZR (2 ^ vz)).
Proof.
  intros Hv. unfold cell_dy. set (E := Z.min (snd mn) (snd mx)).
  rewrite <- (dnum_val mn E), <- (dnum_val mx E) by (unfold E; lia).
  unfold dval. cbn [fst snd]. rewrite plus_IZR, !mult_IZR, minus_IZR, IZR_pow2 by exact Hv.
  replace (bpow radix2 (E - vz)) with (bpow radix2 E * / bpow radix2 vz).
  - field. apply Rgt_not_eq, bpow_gt_0.
  - rewrite <- bpow_opp, <- bpow_plus. f_equal.
Qed.
