(* DC12.v — dispatch entries of property C12 (altitude-key conversions): (arguments, observed output) ↦ verdict.
   corr  = the int64 model (AltKey.z2key64m / key2z64m / z2minkey64m / validatem: what Go computes, wrap-around and panic included)
           returns the observed value;
   prop  = the integer-only checker AltKey.check_conv (proved <-> conv_spec over the reals) accepts the OBSERVED value, on the property's
           domain (zooms and base exponent in 0..35; any offset); outside the domain C12 says nothing (prop = true, corr still compared);
   class = "int64_overflow" iff some int64 operation of the computation wraps (or the shift count -MinInt64 panics): there the Go code
           does not compute the unbounded model (finding; witness ConvertZToMinMaxAltitudekey(0,25,35,0,1<<29) = (0, 2^35-1, nil)). *)
From Coq Require Import ZArith String List Bool.
From SID Require Import Base Wire AltKeyCore AltKey.
Import ListNotations.
Open Scope string_scope.
Open Scope Z_scope.

Definition zoom_ok (z : Z) : bool := (0 <=? z) && (z <=? 35).
Definition cls {A} (m : M A) : string := if exact64 m then "-" else "int64_overflow".

Definition res_val (m : option (result (Z * Z))) : val :=
  match m with
  | None => VPanic
  | Some Err => VE (VL [VZ 0; VZ 0])
  | Some (Ok (a, b)) => VL [VZ a; VZ b]
  end.
Definition obs_res (v : val) : option (result (Z * Z)) :=
  match v with
  | VL [VZ a; VZ b] => Some (Ok (a, b))
  | VE _ => Some Err
  | _ => None
  end.
Definition same_res (m : option (result (Z * Z))) (o : result (Z * Z)) : bool :=
  match m, o with
  | Some (Ok (a, b)), Ok (c, d) => (a =? c) && (b =? d)
  | Some Err, Err => true
  | _, _ => false
  end.

(* one conversion call: fwd = ConvertZToMinMaxAltitudekey (i, zs = inputZoom, zt = outputZoom), else ConvertAltitudekeyToMinMaxZ *)
Definition conv_model (fwd : bool) (i zs zt E O : Z) : M (result (Z * Z)) :=
  if fwd then z2key64m i zs zt E O else key2z64m i zs zt E O.
Definition conv_src (fwd : bool) (zs E O : Z) : scale := if fwd then sid_scale zs else key_scale zs E O.
Definition conv_tgt (fwd : bool) (zt E O : Z) : scale := if fwd then key_scale zt E O else sid_scale zt.
Definition conv_dom (zs zt E : Z) : bool := zoom_ok zs && zoom_ok zt && zoom_ok E.
Definition conv_prop (fwd : bool) (i zs zt E O : Z) (o : result (Z * Z)) : bool :=
  if conv_dom zs zt E then check_conv (conv_src fwd zs E O) i (conv_tgt fwd zt E O) o else true.

Definition d_conv (fwd : bool) (args : list val) (obs : val) : verdict :=
  match args with
  | [VZ i; VZ zs; VZ zt; VZ E; VZ Of] =>
      let m := conv_model fwd i zs zt E Of in
      match obs with
      | VPanic => match m with None => mkv true true "int64_overflow" VPanic | Some _ => bad_case end
      | _ => match obs_res obs with
             | Some o => mkv (same_res (go_result m) o) (conv_prop fwd i zs zt E Of o) (cls m) (res_val (go_result m))
             | None => bad_case
             end
      end
  | _ => bad_case
  end.

(* convertZToMinAltitudekey *)
Definition d_minkey (args : list val) (obs : val) : verdict :=
  match args with
  | [VZ f; VZ z; VZ out; VZ E; VZ Of] =>
      let m := z2minkey64m f z out E Of in
      let mv := match go_result m with None => VPanic | Some Err => VE (VZ 0) | Some (Ok o) => VZ o end in
      match obs with
      | VPanic => match m with None => mkv true true "int64_overflow" VPanic | Some _ => bad_case end
      | _ => match (match obs with VZ o => Some (Ok o) | VE _ => Some Err | _ => None end) with
             | Some o =>
                 mkv (match go_result m, o with Some (Ok a), Ok b => a =? b | Some Err, Err => true | _, _ => false end)
                     (if conv_dom z out E then check_minkey (sid_scale z) f (key_scale out E Of) o else true) (cls m) mv
             | None => bad_case
             end
      end
  | _ => bad_case
  end.

(* validateIndexExists: observed = VB true (nil error, true) or VE (VB false) (error, false) *)
Definition d_validate (args : list val) (obs : val) : verdict :=
  match args with
  | [VZ i; VZ z; VB neg] =>
      let m := validatem i z neg in
      let mv := match go_result m with None => VPanic | Some true => VB true | Some false => VE (VB false) end in
      match obs with
      | VPanic => match m with None => mkv true true "int64_overflow" VPanic | Some _ => bad_case end
      | VB true | VE (VB false) =>
          let b := negb (is_err obs) in
          mkv (match go_result m with Some b' => Bool.eqb b b' | None => false end)
              (if zoom_ok z then Bool.eqb b (in_rangeb (mkscale z 0 0 neg) i) else true) (cls m) mv
      | VB false | VE (VB true) => mkv false false "-" mv        (* error flag and boolean disagree *)
      | _ => bad_case
      end
  | _ => bad_case
  end.

(* mutual consistency on observed results: zr = range of keys returned for f, kr = range of indices returned for key k *)
Definition mutual_ok (exact : bool) (f k : Z) (zr kr : result (Z * Z)) : bool :=
  match zr, kr with
  | Ok (a, b), Ok (c, d) =>
      let kin := (a <=? k) && (k <=? b) in let fin := (c <=? f) && (f <=? d) in
      implb kin fin && (if exact then implb fin kin else true)
  | _, _ => true
  end.

(* round trips. first = the call (fwd) on (i, zs, zt, E, O); then for each returned index j (and its two outer neighbours) the opposite
   call on (j, zt, zs, E, O).  observed = [first; [[j; result_j] ...]] *)
Fixpoint all_pairs (l : list val) : option (list (Z * result (Z * Z))) :=
  match l with
  | [] => Some []
  | VL [VZ j; r] :: t => match obs_res r, all_pairs t with Some o, Some u => Some ((j, o) :: u) | _, _ => None end
  | _ => None
  end.
Definition d_roundtrip (fwd : bool) (args : list val) (obs : val) : verdict :=
  match args, obs with
  | [VZ i; VZ zs; VZ zt; VZ E; VZ Of], VPanic =>
      if exact64 (conv_model fwd i zs zt E Of) then bad_case else mkv true true "int64_overflow" VPanic
  | [VZ i; VZ zs; VZ zt; VZ E; VZ Of], VL [first; VL rest] =>
      match obs_res first, all_pairs rest with
      | Some o0, Some ps =>
          let m0 := conv_model fwd i zs zt E Of in
          let ms := map (fun p => conv_model (negb fwd) (fst p) zt zs E Of) ps in
          let exact := exact64 m0 && forallb exact64 ms in
          (* exact regime of the backward direction: key cells at least 1 m tall, or spatial-ID cells at least 1 m tall *)
          let kz := if fwd then zt else zs in let z := if fwd then zs else zt in
          let regime := (kz <=? E) || (z <=? zorigin) in
          let corr := same_res (go_result m0) o0 && forallb (fun pm => same_res (go_result (snd pm)) (snd (fst pm))) (combine ps ms) in
          let prop := conv_prop fwd i zs zt E Of o0
                      && forallb (fun p => conv_prop (negb fwd) (fst p) zt zs E Of (snd p)
                                           && (if fwd then mutual_ok regime i (fst p) o0 (snd p) else mutual_ok regime (fst p) i (snd p) o0)) ps in
          mkv corr prop (if exact then "-" else "int64_overflow")
              (VL [res_val (go_result m0); VL (map (fun pm => VL [VZ (fst (fst pm)); res_val (go_result (snd pm))]) (combine ps ms))])
      | _, _ => bad_case
      end
  | _, _ => bad_case
  end.

Definition table_C12 : table :=
  [("ConvertZToMinMaxAltitudekey", fun _ => d_conv true);
   ("ConvertAltitudekeyToMinMaxZ", fun _ => d_conv false);
   ("convertZToMinAltitudekey", fun _ => d_minkey);
   ("validateIndexExists", fun _ => d_validate);
   ("RoundTripZ", fun _ => d_roundtrip true);
   ("RoundTripK", fun _ => d_roundtrip false)].

(* the law checked on round trips holds of the models (so a rejection is a defect of the implementation, not of the checker) *)
Lemma mutual_ok_model f z k kz E O : mutual_ok ((kz <=? E) || (z <=? zorigin)) f k (z2key f z kz E O) (key2z k kz z E O) = true.
Proof.
  destruct (z2key f z kz E O) as [[a b]|] eqn:H1; [|reflexivity]. destruct (key2z k kz z E O) as [[c d]|] eqn:H2; [|reflexivity].
  cbn [mutual_ok]. pose proof (mutual_never_loses f z k kz E O a b c d H1 H2) as N.
  pose proof (mutual_exact f z k kz E O a b c d H1 H2) as X.
  apply andb_true_iff. split.
  - apply Bool.implb_true_iff. rewrite !andb_true_iff, !Z.leb_le. exact N.
  - destruct ((kz <=? E) || (z <=? zorigin)) eqn:R; [|reflexivity].
    apply Bool.implb_true_iff. rewrite !andb_true_iff, !Z.leb_le. apply X.
    apply orb_true_iff in R. rewrite !Z.leb_le in R. exact R.
Qed.
