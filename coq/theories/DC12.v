(* DC12.v — dispatch entries of property C12 (altitude-key conversions): (arguments, observed output) ↦ verdict.
   corr  = the int64 model (AltKey.z2key64m / key2z64m / z2minkey64m / validatem: what Go computes, wrap-around and panic included)
           returns the observed value;
   prop  = the integer-only checker AltKey.check_conv (proved <-> conv_spec over the reals) accepts the OBSERVED value: for the two exported
           conversions a zoom outside 0..35 must give an error (any base exponent / offset); with zooms in 0..35 and |zBaseExponent| <= 64
           the full cover specification; for larger exponents see conv_prop. Soundness of prop: conv_prop_sound.
           The unexported helpers (convertZToMinAltitudekey, validateIndexExists) have no zoom guard, their specifications none either;
   class = "int64_overflow" only when the int64 model AGREES with the observation (a predicted panic included), some int64 operation of
           it wrapped, and prop fails (verdict_of, panic_verdict). Witnesses: ConvertZToMinMaxAltitudekey(0,25,35,0,1<<29) = (0, 2^35-1, nil),
           ConvertAltitudekeyToMinMaxZ(0,0,35,0,1<<54) = (0,1023,nil), ConvertZToMinMaxAltitudekey(0,25,10,MinInt64+10,0) panics. *)
From Coq Require Import ZArith String List Bool.
From SID Require Import Base Wire AltKeyCore AltKey AltKeyList.
Import ListNotations.
Open Scope string_scope.
Open Scope Z_scope.

(* zoom_ok (0..35) is AltKeyCore's, the guard of the two exported conversions *)

(* THE FINDING CLASS IS NARROW: it is granted only when (1) the int64-faithful model agrees with the observation (corr, a predicted panic
   included), (2) some int64 operation of that computation wrapped, and (3) the property check on the observed value fails. A disagreement
   between the int64 model and the code is never excused (class "-"), nor is a wrap that leaves the property intact (plain pass). *)
Definition verdict_of (corr prop exact : bool) (model : val) : verdict :=
  mkv corr prop (if corr && negb prop && negb exact then "int64_overflow" else "-") model.
(* observed panic: excused only when the int64 model predicts the panic (the negation of a shift count equal to MinInt64 wraps) *)
Definition panic_verdict (predicted : bool) : verdict := if predicted then mkv true false "int64_overflow" VPanic else bad_case.

Definition small (n : Z) : bool := (- 64 <=? n) && (n <=? 64).      (* size guard of the integer checkers: they cost 2^|n| *)

Definition res_val (m : option (result (Z * Z))) : val :=
  match m with
  | None => VPanic
  | Some Err => VE (VL [VZ 0; VZ 0])
  | Some (Ok (a, b)) => VL [VZ a; VZ b]
  end.
Definition obs_res (v : val) : option (result (Z * Z)) :=
  match v with
  | VL [VZ a; VZ b] => Some (Ok (a, b))
  | VE _ => Some Err
  | _ => None
  end.
Definition same_res (m : option (result (Z * Z))) (o : result (Z * Z)) : bool :=
  match m, o with
  | Some (Ok (a, b)), Ok (c, d) => (a =? c) && (b =? d)
  | Some Err, Err => true
  | _, _ => false
  end.

(* one conversion call: fwd = ConvertZToMinMaxAltitudekey (i, zs = inputZoom, zt = outputZoom), else ConvertAltitudekeyToMinMaxZ *)
Definition conv_model (fwd : bool) (i zs zt E O : Z) : M (result (Z * Z)) :=
  if fwd then z2key64m i zs zt E O else key2z64m i zs zt E O.
Definition conv_src (fwd : bool) (zs E O : Z) : scale := if fwd then sid_scale zs else key_scale zs E O.
Definition conv_tgt (fwd : bool) (zt E O : Z) : scale := if fwd then key_scale zt E O else sid_scale zt.
(* the property on the observed value o (m = the int64 model of the same call):
   - a zoom outside 0..35 must be answered with an error (= check_conv there, lemma check_conv_bad_zoom; no 2^zoom is evaluated);
   - zooms in 0..35 and |zBaseExponent| <= 64: the full check_conv (the theorems hold for every exponent; C12's own quantifier is 0..35);
   - |zBaseExponent| > 64 (check_conv would cost 2^|E|): the property holds if the int64 model ran without any wrap and the observation
     equals it — then the observation IS the unbounded model's result, which meets conv_spec (lemma conv_prop_large_exponent_sound);
     otherwise it is not decided and counts as failed (class int64_overflow only if the int64 model still agrees with the code). *)
Definition conv_prop (fwd : bool) (i zs zt E O : Z) (m : M (result (Z * Z))) (o : result (Z * Z)) : bool :=
  if negb (zoom_ok zs && zoom_ok zt) then (match o with Err => true | Ok _ => false end)
  else if small E then check_conv (conv_src fwd zs E O) i (conv_tgt fwd zt E O) o
  else exact64 m && same_res (go_result m) o.

Definition d_conv (fwd : bool) (args : list val) (obs : val) : verdict :=
  match args with
  | [VZ i; VZ zs; VZ zt; VZ E; VZ Of] =>
      let m := conv_model fwd i zs zt E Of in
      match obs with
      | VPanic => panic_verdict (match m with None => true | Some _ => false end)
      | _ => match obs_res obs with
             | Some o => verdict_of (same_res (go_result m) o) (conv_prop fwd i zs zt E Of m o) (exact64 m) (res_val (go_result m))
             | None => bad_case
             end
      end
  | _ => bad_case
  end.

(* convertZToMinAltitudekey (no zoom guard in the code, none in minkey_spec): check_minkey when all three exponents are small, otherwise
   "no wrap and equal to the int64 model" as above *)
Definition same_min (m : option (result Z)) (o : result Z) : bool :=
  match m, o with Some (Ok a), Ok b => a =? b | Some Err, Err => true | _, _ => false end.
Definition d_minkey (args : list val) (obs : val) : verdict :=
  match args with
  | [VZ f; VZ z; VZ out; VZ E; VZ Of] =>
      let m := z2minkey64m f z out E Of in
      let mv := match go_result m with None => VPanic | Some Err => VE (VZ 0) | Some (Ok o) => VZ o end in
      match obs with
      | VPanic => panic_verdict (match m with None => true | Some _ => false end)
      | _ => match (match obs with VZ o => Some (Ok o) | VE _ => Some Err | _ => None end) with
             | Some o =>
                 let corr := same_min (go_result m) o in
                 verdict_of corr
                   (if small z && small out && small E then check_minkey (sid_scale z) f (key_scale out E Of) o else exact64 m && corr)
                   (exact64 m) mv
             | None => bad_case
             end
      end
  | _ => bad_case
  end.

(* validateIndexExists: observed = VB true (nil error, true) or VE (VB false) (error, false) *)
Definition d_validate (args : list val) (obs : val) : verdict :=
  match args with
  | [VZ i; VZ z; VB neg] =>
      let m := validatem i z neg in
      let mv := match go_result m with None => VPanic | Some true => VB true | Some false => VE (VB false) end in
      match obs with
      | VPanic => panic_verdict (match m with None => true | Some _ => false end)
      | VB true | VE (VB false) =>
          let b := negb (is_err obs) in
          let corr := match go_result m with Some b' => Bool.eqb b b' | None => false end in
          verdict_of corr (if small z then Bool.eqb b (in_rangeb (mkscale z 0 0 neg) i) else exact64 m && corr) (exact64 m) mv
      | VB false | VE (VB true) => mkv false false "-" mv        (* error flag and boolean disagree *)
      | _ => bad_case
      end
  | _ => bad_case
  end.

(* mutual consistency on observed results: zr = range of keys returned for f, kr = range of indices returned for key k *)
Definition mutual_ok (exact : bool) (f k : Z) (zr kr : result (Z * Z)) : bool :=
  match zr, kr with
  | Ok (a, b), Ok (c, d) =>
      let kin := (a <=? k) && (k <=? b) in let fin := (c <=? f) && (f <=? d) in
      implb kin fin && (if exact then implb fin kin else true)
  | _, _ => true
  end.

(* round trips. first = the call (fwd) on (i, zs, zt, E, O); then the opposite call on (j, zt, zs, E, O) for every probe j of the returned
   range (harness/props/c12: the whole range and its two outer neighbours when short, else both ends, their neighbours and 8 evenly
   spaced interior points).  observed = [first; [[j; result_j] ...]] *)
Definition probes (mn mx : Z) : list Z :=
  if mx <? mn then []
  else if mx - mn <=? 20 then zrange (mn - 1) (mx + 1)
  else [mn - 1; mn; mn + 1] ++ map (fun q => mn + (mx - mn) * q / 9) [1; 2; 3; 4; 5; 6; 7; 8] ++ [mx - 1; mx; mx + 1].
Fixpoint list_eqZ (a b : list Z) : bool :=
  match a, b with [], [] => true | x :: a', y :: b' => (x =? y) && list_eqZ a' b' | _, _ => false end.
Fixpoint all_pairs (l : list val) : option (list (Z * result (Z * Z))) :=
  match l with
  | [] => Some []
  | VL [VZ j; r] :: t => match obs_res r, all_pairs t with Some o, Some u => Some ((j, o) :: u) | _, _ => None end
  | _ => None
  end.
Definition d_roundtrip (fwd : bool) (args : list val) (obs : val) : verdict :=
  match args, obs with
  | [VZ i; VZ zs; VZ zt; VZ E; VZ Of], VPanic =>
      (* a panic is excused only if the int64 model predicts it: in the first call, or in a back call on one of the probes *)
      let m0 := conv_model fwd i zs zt E Of in
      panic_verdict (match m0 with
                     | None => true
                     | Some (Ok (mn, mx), _) =>
                         existsb (fun j => match conv_model (negb fwd) j zt zs E Of with None => true | Some _ => false end) (probes mn mx)
                     | Some (Err, _) => false
                     end)
  | [VZ i; VZ zs; VZ zt; VZ E; VZ Of], VL [first; VL rest] =>
      match obs_res first, all_pairs rest with
      | Some o0, Some ps =>
          let m0 := conv_model fwd i zs zt E Of in
          let ms := map (fun p => conv_model (negb fwd) (fst p) zt zs E Of) ps in
          let exact := exact64 m0 && forallb exact64 ms in
          (* exact regime of the backward direction: key cells at least 1 m tall, or spatial-ID cells at least 1 m tall *)
          let kz := if fwd then zt else zs in let z := if fwd then zs else zt in
          let regime := (kz <=? E) || (z <=? zorigin) in
          let expected := match o0 with Ok (mn, mx) => probes mn mx | Err => [] end in
          let corr := same_res (go_result m0) o0 && list_eqZ (map fst ps) expected
                      && forallb (fun pm => same_res (go_result (snd pm)) (snd (fst pm))) (combine ps ms) in
          let prop := conv_prop fwd i zs zt E Of m0 o0
                      && forallb (fun pm => let p := fst pm in
                                            conv_prop (negb fwd) (fst p) zt zs E Of (snd pm) (snd p)
                                            && (if fwd then mutual_ok regime i (fst p) o0 (snd p) else mutual_ok regime (fst p) i (snd p) o0))
                                 (combine ps ms) in
          verdict_of corr prop exact
              (VL [res_val (go_result m0); VL (map (fun pm => VL [VZ (fst (fst pm)); res_val (go_result (snd pm))]) (combine ps ms))])
      | _, _ => bad_case
      end
  | _, _ => bad_case
  end.

(* ---- call histories. The property quantifies over every history of calls: a package-level memo keyed on a subset of the arguments, a
   value stored before it was validated, a scratch buffer that is not reset ... only show on a SEQUENCE of related calls. A case of the
   entry "CallSequence" carries the whole sequence in its arguments: steps = [[name; arg ...] ...] with name one of the four plain entries;
   the invoker issues a fixed, unrelated priming call of each function (so a replay in a fresh process and every shrinker candidate see
   the same initial library state), then the steps back to back, and returns the list of their observations (a panicking step is
   recorded as VPanic in its place). The models are Coq functions, hence pure: each step is judged exactly like a standalone case of its
   entry (step_verdict = the entry of plain_table), whatever came before it — theorems sequence_history_independent, sequence_passes_iff. *)
Definition plain_table : table :=
  [("ConvertZToMinMaxAltitudekey", fun _ => d_conv true);
   ("ConvertAltitudekeyToMinMaxZ", fun _ => d_conv false);
   ("convertZToMinAltitudekey", fun _ => d_minkey);
   ("validateIndexExists", fun _ => d_validate)].
Definition no_oracle : oracle_t := fun _ _ => VNil.
Definition is_bad (v : verdict) : bool := String.eqb (v_class v) "bad-case".
Definition step_verdict (st o : val) : verdict :=
  match st with
  | VL (VS fn :: args) =>
      let v := run_table plain_table no_oracle fn args o in
      (* a panic the int64 model does not predict is a failure of that step, not a malformed case *)
      match o with VPanic => if is_bad v then mkv false false "-" VNil else v | _ => v end
  | _ => bad_case
  end.
Definition step_verdicts (h : list (val * val)) : list verdict := map (fun so => step_verdict (fst so) (snd so)) h.
Definition seq_verdict (vs : list verdict) : verdict :=
  if existsb is_bad vs then bad_case
  else
    let corr := forallb v_corr vs in let prop := forallb v_prop vs in
    (* the finding class is granted only if every failing step is itself in the class (and no step disagrees with the int64 model) *)
    let excused := forallb (fun v => v_prop v || String.eqb (v_class v) "int64_overflow") vs in
    mkv corr prop (if corr && negb prop && excused then "int64_overflow" else "-") (VL (map v_model vs)).
Definition d_sequence (args : list val) (obs : val) : verdict :=
  match args, obs with
  | [VL steps], VL os => if Nat.eqb (length steps) (length os) then seq_verdict (step_verdicts (combine steps os)) else bad_case
  | _, _ => bad_case
  end.

(* ---- the list API ConvertExtendedSpatialIDsToQuadkeysAndAltitudekeys, projected to the altitude keys (AltKeyList.v) ----
   arguments [ids = [[hZoom; x; y; vZoom; f] ...]; qZoom; kZoom; E; O] with hZoom = qZoom for every ID (one quadkey per ID) and x, y inside the tile
   grid; observed = the groups in order, each [label; keys] with label = position of the first input ID on the same tile, or VE.
   Size guard (the API enumerates every key): the invoker refuses, and this entry confirms, a call outside zBaseExponent 0..35,
   |zBaseOffset| <= 2^27 (there the key ranges are the exact covers, at most 2^max(0,(25-vZoom)-(E-kZoom)) + 1 keys each — no int64 wrap can
   blow a range up), more than 64 IDs or an estimated total of more than 2048 keys. *)
Definition as_lid (v : val) : option lid :=
  match v with VL [VZ h; VZ x; VZ y; VZ vz; VZ f] => Some (h, x, y, vz, f) | _ => None end.
Definition est_keys (kz E : Z) (i : lid) : Z :=
  if zoom_ok (lv i) && zoom_ok kz then 2 ^ Z.max 0 ((zorigin - lv i) - (E - kz)) + 2 else 0.
Definition list_guard (kz E Of : Z) (ids : list lid) : bool :=      (* true = the call is refused *)
  negb (zoom_ok E) || (2 ^ 27 <? Z.abs Of) || (64 <? Z.of_nat (length ids)) || (2048 <? fold_right Z.add 0 (map (est_keys kz E) ids)).
Definition id_model64 (kz E Of : Z) (i : lid) : M (result (Z * Z)) :=
  if zoom_ok (lh i) && zoom_ok (lv i) then z2key64m (lf i) (lv i) kz E Of else ret Err.
(* Go stops at the first ID that fails: the IDs after it are not evaluated *)
Fixpoint list_model64 (kz E Of : Z) (ids : list lid) : M (result (list (Z * Z))) :=
  match ids with
  | [] => ret (Ok [])
  | i :: rest =>
      r <- id_model64 kz E Of i ;;
      match r with
      | Err => ret Err
      | Ok p => t <- list_model64 kz E Of rest ;; ret (match t with Ok l => Ok (p :: l) | Err => Err end)
      end
  end.
Definition as_group (v : val) : option (Z * list Z) :=
  match v with VL [VZ label; ks] => match as_LZ ks with Some l => Some (label, l) | None => None end | _ => None end.
Definition obs_groups (v : val) : option (result (list (Z * list Z))) :=
  match v with
  | VE _ => Some Err
  | _ => match as_L v with Some l => match all_opt (map as_group l) with Some gs => Some (Ok gs) | None => None end | None => None end
  end.
Definition groups_val (gs : list (Z * list Z)) : val := VL (map (fun g => VL [VZ (fst g); of_LZ (snd g)]) gs).
Fixpoint groups_eqb (a b : list (Z * list Z)) : bool :=
  match a, b with
  | [], [] => true
  | g :: a', h :: b' => (fst g =? fst h) && list_eqZ (snd g) (snd h) && groups_eqb a' b'
  | _, _ => false
  end.
Definition lid_wellformed (qz : Z) (i : lid) : bool :=
  negb (zoom_ok (lh i)) || ((lh i =? qz) && (0 <=? lx i) && (lx i <? 2 ^ lh i) && (0 <=? ly i) && (ly i <? 2 ^ lh i)).
Definition d_list (args : list val) (obs : val) : verdict :=
  match args with
  | [VL idvs; VZ qz; VZ kz; VZ E; VZ Of] =>
      match all_opt (map as_lid idvs) with
      | Some ids =>
          if negb (forallb (lid_wellformed qz) ids) then bad_case
          else match obs with
          | VS "oversize" => if list_guard kz E Of ids then mkv true true "skipped" VNil else bad_case
          | _ =>
            if list_guard kz E Of ids then bad_case
            else
              let m := if qcheck_list qz kz then list_model64 kz E Of ids else ret Err in
              match obs, go_result m with
              | VPanic, None => panic_verdict true
              | VPanic, Some _ => bad_case
              | _, None => mkv false false "-" VPanic
              | _, Some mr =>
                  match obs_groups obs with
                  | Some o =>
                      let mg := match mr with Ok rs => Ok (groups ids rs) | Err => Err end in
                      let corr := match mg, o with Ok a, Ok b => groups_eqb a b | Err, Err => true | _, _ => false end in
                      verdict_of corr (list_prop qz kz E Of ids o) (exact64 m)
                                 (match mg with Ok a => groups_val a | Err => VE VNil end)
                  | None => bad_case
                  end
              end
          end
      | None => bad_case
      end
  | _ => bad_case
  end.

Definition table_C12 : table :=
  (plain_table ++
   [("RoundTripZ", fun _ => d_roundtrip true);
    ("RoundTripK", fun _ => d_roundtrip false);
    ("CallSequence", fun _ => d_sequence);
    ("ListAltitudekeys", fun _ => d_list)])%list.

(* a step is judged by the very dispatch entry that judges a standalone case of the same function *)
Lemma step_verdict_standalone fn args o : In fn ["ConvertZToMinMaxAltitudekey"; "ConvertAltitudekeyToMinMaxZ"; "convertZToMinAltitudekey"; "validateIndexExists"] ->
  o <> VPanic -> step_verdict (VL (VS fn :: args)) o = run_table table_C12 no_oracle fn args o.
Proof.
  intros Hin Ho. unfold step_verdict.
  assert (E : run_table plain_table no_oracle fn args o = run_table table_C12 no_oracle fn args o).
  { cbn in Hin. destruct Hin as [<-|[<-|[<-|[<-|[]]]]]; reflexivity. }
  rewrite E. destruct o; try reflexivity. congruence.
Qed.
(* HISTORY INDEPENDENCE: the verdict of a step after any history h is the verdict of the same step after any other history h' —
   it is step_verdict of the step's own arguments and observation *)
Theorem sequence_history_independent (h h' : list (val * val)) st o :
  nth (length h) (step_verdicts (h ++ [(st, o)])) bad_case = step_verdict st o /\
  nth (length h) (step_verdicts (h ++ [(st, o)])) bad_case = nth (length h') (step_verdicts (h' ++ [(st, o)])) bad_case.
Proof.
  assert (N : forall k : list (val * val), nth (length k) (step_verdicts (k ++ [(st, o)])) bad_case = step_verdict st o).
  { intros k. unfold step_verdicts. rewrite map_app, app_nth2 by (rewrite map_length; apply le_n). rewrite map_length, Nat.sub_diag. reflexivity. }
  split; [apply N|]. now rewrite !N.
Qed.
(* a sequence case without malformed steps passes (corr and prop) exactly when each of its steps passes as a standalone case;
   with a malformed step (wrong shape of a step or of its observation) the whole case is the malformed-case verdict *)
Theorem sequence_passes_iff (h : list (val * val)) : existsb is_bad (step_verdicts h) = false ->
  ((v_corr (seq_verdict (step_verdicts h)) = true /\ v_prop (seq_verdict (step_verdicts h)) = true) <->
   Forall (fun so => v_corr (step_verdict (fst so) (snd so)) = true /\ v_prop (step_verdict (fst so) (snd so)) = true) h).
Proof.
  intros B. unfold seq_verdict. rewrite B. unfold step_verdicts, mkv. cbn [v_corr v_prop]. rewrite Forall_forall, !forallb_forall. split.
  - intros [C P] so Hso. split; [apply C|apply P]; apply in_map_iff; exists so; auto.
  - intros H. split; intros v Hv; apply in_map_iff in Hv; destruct Hv as (so & <- & Hso); apply (H so Hso).
Qed.
Lemma sequence_malformed (h : list (val * val)) : existsb is_bad (step_verdicts h) = true -> seq_verdict (step_verdicts h) = bad_case.
Proof. intros B. unfold seq_verdict. now rewrite B. Qed.
(* the finding class of a sequence is granted only when every failing step is itself in the class and all steps agree with the int64 model *)
Lemma sequence_class (vs : list verdict) : v_class (seq_verdict vs) = "int64_overflow" ->
  forallb v_corr vs = true /\ forall v, In v vs -> v_prop v = true \/ v_class v = "int64_overflow".
Proof.
  unfold seq_verdict. destruct (existsb is_bad vs); [discriminate|]. unfold mkv. cbn [v_class].
  destruct (forallb v_corr vs); cbn [andb]; [|discriminate]. destruct (negb (forallb v_prop vs)); cbn [andb]; [|discriminate].
  destruct (forallb _ vs) eqn:X; [|discriminate]. intros _. split; [reflexivity|]. intros v Hv.
  rewrite forallb_forall in X. specialize (X v Hv). apply orb_true_iff in X. destruct X as [X|X]; [now left|right; now apply String.eqb_eq].
Qed.

(* with no wrap the int64 list model is the unbounded per-ID map of AltKeyList.v *)
Lemma id_model64_exact kz E O i r : id_model64 kz E O i = Some (r, true) -> r = id_range kz E O i.
Proof.
  unfold id_model64, id_range. destruct (zoom_ok (lh i) && zoom_ok (lv i)); [apply z2key64m_exact|intros H; now apply ret_inv in H].
Qed.
Lemma list_model64_exact kz E O ids r : list_model64 kz E O ids = Some (r, true) -> r = list_ranges kz E O ids.
Proof.
  revert r. induction ids as [|i rest IH]; intros r H; cbn [list_model64 list_ranges] in *.
  - now apply ret_inv in H.
  - apply bind_inv in H. destruct H as (ri & Hi & H). apply id_model64_exact in Hi. subst ri.
    destruct (id_range kz E O i) as [p|]; [|now apply ret_inv in H].
    apply bind_inv in H. destruct H as (t & Ht & H). apply IH in Ht. subst t. apply ret_inv in H. subst r.
    destruct (list_ranges kz E O rest); reflexivity.
Qed.

Lemma check_conv_bad_zoom s i t r : zooms_okb s t = false -> check_conv s i t r = match r with Err => true | Ok _ => false end.
Proof. intros H. destruct r as [[mn mx]|]; cbn [check_conv]; rewrite H; reflexivity. Qed.
(* conv_prop is check_conv for small exponents and for bad zooms ... *)
Lemma conv_prop_is_check_conv fwd i zs zt E O m o : small E = true \/ zoom_ok zs && zoom_ok zt = false ->
  conv_prop fwd i zs zt E O m o = check_conv (conv_src fwd zs E O) i (conv_tgt fwd zt E O) o.
Proof.
  intros H. unfold conv_prop. destruct (zoom_ok zs && zoom_ok zt) eqn:Z; cbn [negb].
  - destruct H as [->|H]; [reflexivity|discriminate].
  - symmetry. apply check_conv_bad_zoom. unfold zooms_okb. destruct fwd; exact Z.
Qed.
(* ... and for every other exponent its answer `true` is justified by the int64 exactness theorems: no wrap + equal to the int64 model
   means the observation is the unbounded model's result, which meets the specification *)
Lemma same_res_eq m o : same_res m o = true -> m = Some o.
Proof.
  destruct m as [[[a b]|]|], o as [[c d]|]; cbn; try discriminate; [|reflexivity].
  rewrite andb_true_iff, !Z.eqb_eq. intros [-> ->]. reflexivity.
Qed.
Lemma conv_prop_large_exponent_sound fwd i zs zt E O o :
  exact64 (conv_model fwd i zs zt E O) && same_res (go_result (conv_model fwd i zs zt E O)) o = true ->
  conv_spec (conv_src fwd zs E O) i (conv_tgt fwd zt E O) o.
Proof.
  rewrite andb_true_iff. intros [X S]. apply same_res_eq in S. destruct fwd; cbn [conv_model conv_src conv_tgt] in *.
  - destruct (z2key64_meets_spec i zs zt E O X) as (r & R & _ & C). rewrite R in S. injection S as <-. exact C.
  - destruct (key2z64_meets_spec i zs zt E O X) as (r & R & _ & C). rewrite R in S. injection S as <-. exact C.
Qed.
Theorem conv_prop_sound fwd i zs zt E O o :
  conv_prop fwd i zs zt E O (conv_model fwd i zs zt E O) o = true -> conv_spec (conv_src fwd zs E O) i (conv_tgt fwd zt E O) o.
Proof.
  intros H. destruct (zoom_ok zs && zoom_ok zt) eqn:Z; [destruct (small E) eqn:S|].
  - rewrite conv_prop_is_check_conv in H by (left; exact S). now apply check_conv_sound.
  - unfold conv_prop in H. rewrite Z, S in H. cbn [negb] in H. now apply conv_prop_large_exponent_sound.
  - rewrite conv_prop_is_check_conv in H by (right; exact Z). now apply check_conv_sound.
Qed.

(* the law checked on round trips holds of the models (so a rejection is a defect of the implementation, not of the checker) *)
Lemma mutual_ok_model f z k kz E O : mutual_ok ((kz <=? E) || (z <=? zorigin)) f k (z2key f z kz E O) (key2z k kz z E O) = true.
Proof.
  destruct (z2key f z kz E O) as [[a b]|] eqn:H1; [|reflexivity]. destruct (key2z k kz z E O) as [[c d]|] eqn:H2; [|reflexivity].
  cbn [mutual_ok]. pose proof (mutual_never_loses f z k kz E O a b c d H1 H2) as N.
  pose proof (mutual_exact f z k kz E O a b c d H1 H2) as X.
  apply andb_true_iff. split.
  - apply Bool.implb_true_iff. rewrite !andb_true_iff, !Z.leb_le. exact N.
  - destruct ((kz <=? E) || (z <=? zorigin)) eqn:R; [|reflexivity].
    apply Bool.implb_true_iff. rewrite !andb_true_iff, !Z.leb_le. apply X.
    apply orb_true_iff in R. rewrite !Z.leb_le in R. exact R.
Qed.
