(* GenC02.v — C02: the main results restated over the float64 kernels REGENERATED from the Go source (SIDGen.GeneratedF, rewritten on every run
   by the translator). Each statement mentions the generated definitions of shape/point.go (getVertexOnVoxelOffset's locals, getAltitudeOnVerticalIndexAndZoom,
   getCenterPointOnVoxelOffset's midpoints, the point -> index kernels used by the centre round trip, Point.SetLon / SetLat) and is obtained from the
   theorems on the hand model (West.v, VertexProofs.v) through the equalities of GenEqFVertex.v / GenEqFPoint.v. A semantic edit of one of these kernels
   breaks the corresponding gen_ lemma, hence everything below. Not regenerated (see GenEqFVertex.v): the wrap of the column index, NewPoint's sequence,
   the sort of the eight coordinates. M : GeneratedF.libm carries math.Sinh / Atan / Tan / Cos / Log as arbitrary functions. *)
From Coq Require Import ZArith Reals Lia Lra Floats List Bool String.
From Flocq Require Import Core BinarySingleNaN.
From SIDGen Require Import GeneratedF.
From SID Require Import Base Str Ids F64 PointF VertexF VxBridge West VertexCheck VertexProofs GenEqFVertex GenEqFPoint.
Import ListNotations.
Open Scope Z_scope.

Notation g_west := GeneratedF.getVertexOnVoxelOffset_westLon.
Notation g_east := GeneratedF.getVertexOnVoxelOffset_eastLon.
Notation g_north := GeneratedF.getVertexOnVoxelOffset_northLat.
Notation g_south := GeneratedF.getVertexOnVoxelOffset_southLat.
Notation g_top := GeneratedF.getVertexOnVoxelOffset_vTopAlt.
Notation g_alt := GeneratedF.getAltitudeOnVerticalIndexAndZoom.
Notation g_clon := GeneratedF.getCenterPointOnVoxelOffset_centerLon.
Notation g_clat := GeneratedF.getCenterPointOnVoxelOffset_centerLat.
Notation g_calt := GeneratedF.getCenterPointOnVoxelOffset_centerAlt.
Notation g_lonIndex := GeneratedF.getHorizontalTileIdOnPoint_lonIndex.
Notation g_latIndex := GeneratedF.getHorizontalTileIdOnPoint_latIndex.
Notation g_vIndex := GeneratedF.getVerticalTileIdOnAltitude_vIndex.

(* the hand-written closed forms of GenEqFVertex are the ones VertexProofs reasons about *)
Lemma wrap_col_xwrap x h : wrap_col x h = xwrap h x.  Proof. reflexivity. Qed.
Lemma clamp_row_yclamp y h : clamp_row y h = yclamp h y.  Proof. reflexivity. Qed.

(* ---- the generated westLon / eastLon / altitude expressions are the grid planes ---- *)
Lemma gen_west_plane x y h alt res : g_west x y h alt res (of_Z x) = lonplane h x.
Proof. rewrite gen_getVertexOnVoxelOffset_westLon_eq. reflexivity. Qed.
Lemma gen_east_plane x y h alt res : 0 <= h <= 35 -> 0 <= x <= 2 ^ h -> g_east x y h alt res (of_Z x) = lonplane h (x + 1).
Proof.
  intros Hh Hx. rewrite gen_getVertexOnVoxelOffset_eastLon_eq. change ((of_Z x + 1) * 360 / pow2f h - 180)%float with (eastf h x).
  now apply east_next.
Qed.
Lemma gen_alt_plane f v : g_alt f v = (altplane v f, vres v).
Proof. rewrite gen_getAltitudeOnVerticalIndexAndZoom_eq. reflexivity. Qed.
Lemma gen_top_plane x y h f v : 0 <= v <= 35 -> - 2 ^ v <= f < 2 ^ v ->
  g_top x y h (fst (g_alt f v)) (snd (g_alt f v)) = altplane v (f + 1).
Proof.
  intros Hv Hf. rewrite gen_alt_plane, gen_getVertexOnVoxelOffset_vTopAlt_eq. cbn [fst snd].
  change (altplane v f + vres v)%float with (topf v f). now apply top_is_next_bottom.
Qed.

(* (2) exactness: the regenerated expressions compute the real-number box edges with no rounding, every zoom, every index *)
Theorem gen_west_exact x y h alt res : 0 <= h <= 35 -> 0 <= x <= 2 ^ h -> isR (g_west x y h alt res (of_Z x)) (lonR h x).
Proof. intros Hh Hx. rewrite gen_west_plane. now apply lonplane_exact. Qed.
Theorem gen_east_exact x y h alt res : 0 <= h <= 35 -> 0 <= x < 2 ^ h -> isR (g_east x y h alt res (of_Z x)) (lonR h (x + 1)).
Proof. intros Hh Hx. rewrite gen_east_plane by lia. apply lonplane_exact; lia. Qed.
Theorem gen_altitude_exact x y h f v : 0 <= v <= 35 -> - 2 ^ v <= f < 2 ^ v ->
  isR (fst (g_alt f v)) (altR v f) /\ isR (g_top x y h (fst (g_alt f v)) (snd (g_alt f v))) (altR v (f + 1)).
Proof.
  intros Hv Hf. split.
  - rewrite gen_alt_plane. cbn [fst]. apply altplane_exact; lia.
  - rewrite gen_top_plane by assumption. apply altplane_exact; lia.
Qed.

(* (3) shared faces on the regenerated kernels: east(x) = west(x+1), top(f) = bottom(f+1), south(y) = north(y+1) (any libm) *)
Theorem gen_east_is_next_west x y y' h alt res alt' res' : 0 <= h <= 35 -> 0 <= x <= 2 ^ h ->
  g_east x y h alt res (of_Z x) = g_west (x + 1) y' h alt' res' (of_Z (x + 1)).
Proof. intros Hh Hx. rewrite gen_east_plane by assumption. now rewrite gen_west_plane. Qed.
Theorem gen_top_is_next_bottom x y h f v : 0 <= v <= 35 -> - 2 ^ v <= f < 2 ^ v ->
  g_top x y h (fst (g_alt f v)) (snd (g_alt f v)) = fst (g_alt (f + 1) v).
Proof. intros Hv Hf. rewrite gen_top_plane by assumption. now rewrite gen_alt_plane. Qed.
Theorem gen_south_is_next_north (M : libm) x x' y h alt res alt' res' : 0 <= h <= 35 -> 0 <= y -> y + 1 < 2 ^ h ->
  g_south M x y h alt res = g_north M x' (y + 1) h alt' res'.
Proof.
  intros Hh Hy Hy1. rewrite gen_getVertexOnVoxelOffset_southLat_eq, gen_getVertexOnVoxelOffset_northLat_eq.
  rewrite !clamp_row_yclamp, (yclamp_valid h y Hh ltac:(lia)), (yclamp_valid h (y + 1) Hh ltac:(lia)).
  now rewrite (succ_float h y Hh ltac:(lia)).
Qed.
(* the antimeridian: the regenerated east edge of the last column is the float +180, the west edge of column 0 the float -180 *)
Theorem gen_antimeridian y h alt res : 0 <= h <= 35 ->
  g_east (2 ^ h - 1) y h alt res (of_Z (2 ^ h - 1)) = 180%float /\ g_west 0 y h alt res (of_Z 0) = (-180)%float.
Proof.
  intros Hh. pose proof (pow_le35' h Hh). destruct (antimeridian_planes h Hh) as [A B]. split.
  - rewrite gen_east_plane by lia. replace (2 ^ h - 1 + 1) with (2 ^ h) by lia. exact A.
  - rewrite gen_west_plane. exact B.
Qed.

(* (1) the eight corners of a valid ID, in the documented order, out of the regenerated pieces *)
Theorem gen_corners (M : libm) (i : eid) : valid i ->
  let alt := fst (g_alt (ef i) (ev i)) in let res := snd (g_alt (ef i) (ev i)) in
  vertices (m_sinh M) (m_atan M) (eh i) (ex i) (ey i) alt res =
  box_corners (g_west (ex i) (ey i) (eh i) alt res (of_Z (ex i))) (g_east (ex i) (ey i) (eh i) alt res (of_Z (ex i)))
              (g_north M (ex i) (ey i) (eh i) alt res) (g_south M (ex i) (ey i) (eh i) alt res)
              alt (g_top (ex i) (ey i) (eh i) alt res).
Proof.
  intros V. cbv zeta. rewrite vertices_over_generated. cbv zeta. destruct V as (Hh & Hv & Hx & Hy & Hf).
  rewrite wrap_col_xwrap, (xwrap_valid _ _ Hh Hx). reflexivity.
Qed.
(* ... which are the six planes: the corner list of VertexProofs, with every plane read off the regenerated kernels *)
Theorem gen_corners_are_planes (M : libm) (i : eid) : valid i ->
  let alt := fst (g_alt (ef i) (ev i)) in let res := snd (g_alt (ef i) (ev i)) in
  g_west (ex i) (ey i) (eh i) alt res (of_Z (ex i)) = lonplane (eh i) (ex i) /\
  g_east (ex i) (ey i) (eh i) alt res (of_Z (ex i)) = lonplane (eh i) (ex i + 1) /\
  g_north M (ex i) (ey i) (eh i) alt res = rowlat (m_sinh M) (m_atan M) (eh i) (ey i) /\
  g_south M (ex i) (ey i) (eh i) alt res = rowlat (m_sinh M) (m_atan M) (eh i) (ey i + 1) /\
  alt = altplane (ev i) (ef i) /\ g_top (ex i) (ey i) (eh i) alt res = altplane (ev i) (ef i + 1).
Proof.
  intros (Hh & Hv & Hx & Hy & Hf). cbv zeta. refine (conj _ (conj _ (conj _ (conj _ (conj _ _))))).
  - apply gen_west_plane.
  - apply gen_east_plane; lia.
  - rewrite gen_getVertexOnVoxelOffset_northLat_eq, clamp_row_yclamp, (yclamp_valid _ _ Hh Hy). reflexivity.
  - rewrite gen_getVertexOnVoxelOffset_southLat_eq, clamp_row_yclamp, (yclamp_valid _ _ Hh Hy), (succ_float (eh i) (ey i) Hh ltac:(lia)). reflexivity.
  - now rewrite gen_alt_plane.
  - now apply gen_top_plane.
Qed.

(* ---- NewPoint's two checked setters, regenerated: a plane longitude and an accepted latitude are stored, no error ---- *)
Theorem gen_setters_store_corner h k lat : 0 <= h <= 35 -> 0 <= k <= 2 ^ h -> lat_acc lat = true ->
  GeneratedF.Point_SetLon 0 0 0 (lonplane h k) = (lonplane h k, 0%float, 0%float, false) /\
  GeneratedF.Point_SetLat (lonplane h k) 0 0 lat = (lonplane h k, setlat_trunc lat, 0%float, false).
Proof.
  intros Hh Hk Ha. rewrite gen_Point_SetLon_eq, gen_Point_SetLat_eq.
  rewrite (ltb_false _ _ _ _ isR_180 (abs_isR _ _ (lonplane_exact h k Hh Hk)) (lonR_range h k ltac:(lia) Hk)).
  unfold lat_acc in Ha. apply negb_true_iff in Ha. rewrite Ha. split; reflexivity.
Qed.

(* ---- (4) the centre: regenerated midpoints; exact on longitude and altitude; back through the regenerated point -> index kernels ---- *)
Section Centre.
  Variables (x y h f v : Z).
  Hypothesis Hh : 0 <= h <= 35.
  Hypothesis Hv : 0 <= v <= 35.
  Hypothesis Hx : 0 <= x < 2 ^ h.
  Hypothesis Hf : - 2 ^ v <= f < 2 ^ v.
  Let alt := fst (g_alt f v).
  Let res := snd (g_alt f v).
  (* centerLon of (lonMax, lonMin) = (east, west), centerAlt of (altMax, altMin) = (top, bottom), all regenerated *)
  Definition g_centre_lon : pfloat := g_clon x y h alt res (g_east x y h alt res (of_Z x)) (g_west x y h alt res (of_Z x)).
  Definition g_centre_alt : pfloat := g_calt x y h alt res (g_top x y h alt res) alt.

  Lemma g_centre_lon_clonf : g_centre_lon = clonf h x.
  Proof.
    unfold g_centre_lon. rewrite gen_getCenterPointOnVoxelOffset_centerLon_eq, gen_east_plane, gen_west_plane by lia.
    unfold clonf, mid, lonplane. now rewrite (east_next h x Hh ltac:(lia)).
  Qed.
  Lemma g_centre_alt_caltf : g_centre_alt = caltf v f.
  Proof.
    unfold g_centre_alt, alt, res. rewrite gen_getCenterPointOnVoxelOffset_centerAlt_eq, gen_top_plane by assumption.
    rewrite gen_alt_plane. cbn [fst]. unfold caltf, mid, altplane. now rewrite (top_is_next_bottom v f Hv Hf).
  Qed.
  Theorem gen_centre_exact : isR g_centre_lon (clonR h x) /\ isR g_centre_alt (caltR v f).
  Proof.
    rewrite g_centre_lon_clonf, g_centre_alt_caltf. split.
    - rewrite <- clon_num_R by lia. unfold clon_num. now apply clonf_isR.
    - rewrite <- calt_num_R by lia. unfold alt_num. now apply caltf_isR.
  Qed.
  (* round trip on the regenerated kernels of both directions: int64(lonIndex) of the centre longitude is x (whatever the latitude argument),
     int64(vIndex) of the centre altitude is f — every zoom, every index, no oracle involved *)
  Theorem gen_roundtrip_longitude lat : Ztrunc_f (g_lonIndex g_centre_lon lat h) = Some x.
  Proof. rewrite gen_getHorizontalTileIdOnPoint_lonIndex_eq, g_centre_lon_clonf. now apply x_of_centre. Qed.
  Theorem gen_roundtrip_altitude : Ztrunc_f (g_vIndex g_centre_alt v) = Some f.
  Proof. rewrite gen_getVerticalTileIdOnAltitude_vIndex_eq, g_centre_alt_caltf. now apply f_of_centre. Qed.
End Centre.

Section CentreModel.
  Variable M : libm.
  Notation centre_of := (centre_of (m_sinh M) (m_atan M)).
  (* the model's centre point, for every libm: its longitude is the regenerated midpoint and goes back to x through the regenerated kernel *)
  Theorem gen_centre_point_longitude i lat : valid i ->
    plon (centre_of i) = g_centre_lon (ex i) (ey i) (eh i) (ef i) (ev i) /\
    Ztrunc_f (g_lonIndex (plon (centre_of i)) lat (eh i)) = Some (ex i).
  Proof.
    intros V. pose proof (centre_lon_any_oracle (m_sinh M) (m_atan M) i V) as E. destruct V as (Hh & Hv & Hx & Hy & Hf).
    rewrite E, (g_centre_lon_clonf _ (ey i) _ (ef i) (ev i) Hh Hx). split; [reflexivity|].
    rewrite gen_getHorizontalTileIdOnPoint_lonIndex_eq. now apply x_of_centre.
  Qed.
  (* altitude: under acceptance of the three latitudes by NewPoint (oracle hypothesis, validated at run time) *)
  Theorem gen_centre_point_altitude i : valid i ->
    lat_acc (rowlat (m_sinh M) (m_atan M) (eh i) (ey i)) = true -> lat_acc (rowlat (m_sinh M) (m_atan M) (eh i) (ey i + 1)) = true ->
    lat_acc (centre_lat_raw (m_sinh M) (m_atan M) i) = true ->
    palt (centre_of i) = g_centre_alt (ex i) (ey i) (eh i) (ef i) (ev i) /\
    Ztrunc_f (g_vIndex (palt (centre_of i)) (ev i)) = Some (ef i).
  Proof.
    intros V HN HS HC. pose proof (centre_alt_accepted (m_sinh M) (m_atan M) i V HN HS HC) as E. destruct V as (Hh & Hv & Hx & Hy & Hf).
    rewrite E, (g_centre_alt_caltf (ex i) (ey i) (eh i) _ _ Hv Hf). split; [reflexivity|].
    rewrite gen_getVerticalTileIdOnAltitude_vIndex_eq. now apply f_of_centre.
  Qed.
  (* PARTIAL (row): the ID of the centre through the regenerated latIndex kernel equals the original except possibly the row *)
  Theorem gen_centre_roundtrip_partial i lon Y : valid i -> lat_hyp (m_sinh M) (m_atan M) i -> centre_lat_hyp (m_sinh M) (m_atan M) i ->
    Ztrunc_f (g_latIndex M lon (plat (centre_of i)) (eh i)) = Some Y ->
    points_api (m_tan M) (m_cos M) (m_log M) false [centre_of i] (eh i) (ev i) = Ok [print_eid (mk (eh i) (ex i) Y (ev i) (ef i))].
  Proof.
    intros V L C HY. rewrite gen_getHorizontalTileIdOnPoint_latIndex_eq in HY.
    now apply centre_roundtrip_partial.
  Qed.
End CentreModel.

(* ---- the centre as a whole over the regenerated code: VertexF.centre (the model of getCenterPointOnVoxelOffset that the entries run) is the
   three REGENERATED midpoint expressions centerLon / centerLat / centerAlt applied to the extreme coordinates of the eight vertices, and
   each of the three is the float (max + min) / 2 — the latitude included (GenEqFVertex.centre_over_generated and the three
   gen_getCenterPointOnVoxelOffset_center*_eq). Not regenerated: the scan for the extremes (a range loop over the vertex slice). ---- *)
Theorem gen_centre_is_generated_midpoints ms ma h x y alt res :
  centre ms ma h x y alt res =
  match vertices ms ma h x y alt res with
  | p0 :: _ =>
      let ps := vertices ms ma h x y alt res in
      let lons := map plon ps in let lats := map plat ps in let alts := map palt ps in
      pt_of (g_clon x y h alt res (fmax_list lons (plon p0)) (fmin_list lons (plon p0)))
            (g_clat x y h alt res (fmax_list lats (plat p0)) (fmin_list lats (plat p0)))
            (g_calt x y h alt res (fmax_list alts (palt p0)) (fmin_list alts (palt p0)))
  | [] => zero_point
  end.
Proof. exact (centre_over_generated ms ma h x y alt res). Qed.
Theorem gen_centre_coordinates_are_float_midpoints x y h alt res (mx mn : pfloat) :
  g_clon x y h alt res mx mn = ((mx + mn) / 2)%float /\ g_clat x y h alt res mx mn = ((mx + mn) / 2)%float /\
  g_calt x y h alt res mx mn = ((mx + mn) / 2)%float.
Proof.
  split; [apply gen_getCenterPointOnVoxelOffset_centerLon_eq|]. split; [apply gen_getCenterPointOnVoxelOffset_centerLat_eq|].
  apply gen_getCenterPointOnVoxelOffset_centerAlt_eq.
Qed.

(* ---- the row index of getVertexOnVoxelOffset as regenerated (the local latIndexFloat after the clamp): it is GenEqFVertex.clamp_row — rows
   below 0 give row 0, rows from 2^h - 1 on give the last row, every row in between is itself (evaluated at the ends of three zooms) ---- *)
Theorem gen_row_is_the_clamped_row x y h alt res : GeneratedF.getVertexOnVoxelOffset_latIndexFloat x y h alt res = clamp_row y h.
Proof. exact (gen_getVertexOnVoxelOffset_latIndexFloat_eq x y h alt res). Qed.
Example gen_row_clamp_evaluated :
  map (fun y => GeneratedF.getVertexOnVoxelOffset_latIndexFloat 0 y 3 0%float 1%float) [-5; -1; 0; 1; 6; 7; 8; 100]
    = [0; 0; 0; 1; 6; 7; 7; 7]%float /\
  GeneratedF.getVertexOnVoxelOffset_latIndexFloat 0 (2 ^ 35 - 1) 35 0%float 1%float = of_Z (2 ^ 35 - 1) /\
  GeneratedF.getVertexOnVoxelOffset_latIndexFloat 0 (2 ^ 35) 35 0%float 1%float = of_Z (2 ^ 35 - 1) /\
  GeneratedF.getVertexOnVoxelOffset_latIndexFloat 0 5 0 0%float 1%float = 0%float.
Proof. repeat split; vm_compute; reflexivity. Qed.
