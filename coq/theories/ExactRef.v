(* ExactRef.v — exact rational references for the point -> ID axes that the float code approximates:
   x = floor(2^h (lon+180)/360) with 180 folded onto -180, f = floor(alt 2^v / 2^25), evaluated on the float's exact dyadic value. *)
From Coq Require Import ZArith Floats Bool.
From SID Require Import Base F64.
Open Scope Z_scope.

(* a finite float as (signed mantissa, exponent): value = m * 2^e *)
Definition dyadic (f : float) : option (Z * Z) :=
  match Prim2SF f with
  | S754_zero _ => Some (0, 0)
  | S754_finite s m e => Some ((if s then Z.neg m else Z.pos m), e)
  | _ => None
  end.

(* floor (m * 2^e * 2^k) *)
Definition floor_scaled (m e k : Z) : Z :=
  let s := e + k in if 0 <=? s then m * 2 ^ s else m / 2 ^ (- s).

Definition exact_f (alt : float) (v : Z) : option Z :=
  match dyadic alt with
  | Some (m, e) => Some (floor_scaled m e (v - 25))
  | None => None
  end.

(* floor ((m*2^e + 180) * 2^h / 360) *)
Definition exact_x (lon : float) (h : Z) : option Z :=
  match dyadic lon with
  | Some (m, e) =>
      let '(m, e) := if (m * 2 ^ e =? 180) && (0 <=? e) then (-180, 0)
                     else if (e <? 0) && (m =? 180 * 2 ^ (- e)) then (-180, 0) else (m, e) in
      if 0 <=? e then Some (((m * 2 ^ e + 180) * 2 ^ h) / 360)
      else Some (((m + 180 * 2 ^ (- e)) * 2 ^ h) / (360 * 2 ^ (- e)))
  | None => None
  end.

(* exact comparison of two dyadic values: a*2^ea <= b*2^eb *)
Definition dy_le (a ea b eb : Z) : bool :=
  let e := Z.min ea eb in (a * 2 ^ (ea - e) <=? b * 2 ^ (eb - e)).
(* 0 <= |lat| - |stored| < 1e-10, decided exactly on the dyadic values *)
Definition exact_cut_ok (lat stored : float) : bool :=
  match dyadic lat, dyadic stored with
  | Some (a, ea), Some (b, eb) =>
      let a := Z.abs a in let b := Z.abs b in
      let e := Z.min ea eb in
      let d := a * 2 ^ (ea - e) - b * 2 ^ (eb - e) in       (* |lat| - |stored| = d * 2^e *)
      (0 <=? d) && (if 0 <=? e then d * 2 ^ e * 10 ^ 10 <? 1 else d * 10 ^ 10 <? 2 ^ (- e))
  | _, _ => false
  end.
