(* GenC09.v — property C09 over the float64 kernels REGENERATED from the Go source (coq/generated/GeneratedF.v, written by vtrans on every
   run): the nesting theorems of Consistency.v restated about
     GeneratedF.getHorizontalTileIdOnPoint_lonIndex / _latIndex   (shape/point.go, the locals lonIndex / latIndex before int64(..))
     GeneratedF.getVerticalTileIdOnAltitude_vIndex                (shape/point.go, the local vIndex before int64(..))
   through GenEqFPoint.gen_getHorizontalTileIdOnPoint_lonIndex_eq, gen_getHorizontalTileIdOnPoint_latIndex_eq and
   gen_getVerticalTileIdOnAltitude_vIndex_eq (generated definition = hand-written model PointF.x_f / y_f / f_f). A semantic edit of one of
   these kernels in the source changes GeneratedF.v, breaks the gen_ lemma and with it every theorem of this file.
   `M : GeneratedF.libm` is the record of Go's math functions: every statement holds for ALL records (any Tan, Cos, Log).
   Not needed by DC09.v. *)
From Coq Require Import ZArith Reals Lia String List Bool Floats.
From Flocq Require Import Core.
From SIDGen Require Import GeneratedF.
From SID Require Import Base Str Ids Voxel ZoomCore ChangeZoom F64 ExactRef PointF PtBridge FF XF YF GenEqFPoint Consistency.
Import ListNotations.
Open Scope Z_scope.

(* the three indices as the generated code computes them: int64(local) *)
Definition gen_x (lon lat : pfloat) (h : Z) : option Z := Ztrunc_f (GeneratedF.getHorizontalTileIdOnPoint_lonIndex lon lat h).
Definition gen_y (M : libm) (lon lat : pfloat) (h : Z) : option Z := Ztrunc_f (GeneratedF.getHorizontalTileIdOnPoint_latIndex M lon lat h).
Definition gen_f (alt : pfloat) (v : Z) : option Z := Ztrunc_f (GeneratedF.getVerticalTileIdOnAltitude_vIndex alt v).
(* the Mercator float of the generated code's libm record *)
Definition gen_m (M : libm) (lat : pfloat) : pfloat := merc_m (m_tan M) (m_cos M) (m_log M) lat.

Lemma gen_x_is_x_f lon lat h : gen_x lon lat h = x_f lon h.
Proof. apply gen_getHorizontalTileIdOnPoint_lonIndex_eq. Qed.
Lemma gen_y_is_y_f M lon lat h : gen_y M lon lat h = y_f (m_tan M) (m_cos M) (m_log M) lat h.
Proof. apply gen_getHorizontalTileIdOnPoint_latIndex_eq. Qed.
Lemma gen_f_is_f_f alt v : gen_f alt v = f_f alt v.
Proof. apply gen_getVerticalTileIdOnAltitude_vIndex_eq. Qed.

(* the voxel of a stored point assembled from the three generated kernels (GetExtendedSpatialIdsOnPoints joins exactly these numbers) *)
Definition gen_point_eid (M : libm) (p : point) (h v : Z) : option eid :=
  match gen_x (plon p) (plat p) h, gen_y M (plon p) (plat p) h, gen_f (palt p) v with
  | Some x, Some y, Some f => Some (mk h x y v f)
  | _, _, _ => None
  end.
Lemma gen_point_eid_is_point_eid M p h v : gen_point_eid M p h v = point_eid (m_tan M) (m_cos M) (m_log M) p h v.
Proof. unfold gen_point_eid, point_eid. now rewrite gen_x_is_x_f, gen_y_is_y_f, gen_f_is_f_f. Qed.

(* ---- longitude: every finite longitude of the domain, whatever the latitude argument ---- *)
Theorem gen_x_nested lon lat h h' : 0 <= h' <= h -> h <= 35 -> ffin lon = true -> (-180 <= fval lon <= 180)%R ->
  exists x, gen_x lon lat h = Some x /\ gen_x lon lat h' = Some (anc (h - h') x) /\ 0 <= x < 2 ^ h.
Proof. rewrite !gen_x_is_x_f. apply x_nested. Qed.

(* ---- latitude: every libm record whose Mercator float is finite in [0,2) ---- *)
Theorem gen_y_nested M lon lat h h' : 0 <= h' <= h -> h <= 35 -> ffin (gen_m M lat) = true -> (0 <= fval (gen_m M lat) < 2)%R ->
  exists y, gen_y M lon lat h = Some y /\ gen_y M lon lat h' = Some (anc (h - h') y) /\ 0 <= y < 2 ^ h.
Proof. rewrite !gen_y_is_y_f. apply y_nested. Qed.
Theorem gen_y_nested_from_row35 M lon lat r h h' : ffin (gen_m M lat) = true -> (Rabs (fval (gen_m M lat)) <= 4)%R ->
  gen_y M lon lat 35 = Some r -> 0 <= r < 2 ^ 35 -> 0 <= h' <= h -> h <= 35 ->
  gen_y M lon lat h = Some (anc (35 - h) r) /\ gen_y M lon lat h' = Some (anc (h - h') (anc (35 - h) r)).
Proof. rewrite !gen_y_is_y_f. apply y_nested_from_row35. Qed.

(* ---- altitude ---- *)
Theorem gen_f_exact_outside_the_defect alt v : 0 <= v <= 35 -> ffin alt = true -> (Rabs (fval alt) <= bpow radix2 40)%R ->
  ~ alt_vanishes alt v -> gen_f alt v = Some (F_exact v (fval alt)).
Proof. rewrite gen_f_is_f_f. apply f_f_exact_sharp. Qed.
Theorem gen_f_defect alt v : 0 <= v <= 35 -> ffin alt = true -> (Rabs (fval alt) <= bpow radix2 40)%R ->
  alt_vanishes alt v -> gen_f alt v = Some 0 /\ F_exact v (fval alt) = -1.
Proof. rewrite gen_f_is_f_f. apply vanishes_is_the_defect. Qed.
Theorem gen_f_nested_partial alt v v' : 0 <= v' <= v -> v <= 35 ->
  ffin alt = true -> (Rabs (fval alt) <= bpow radix2 40)%R -> ~ alt_vanishes alt v' ->
  exists f, gen_f alt v = Some f /\ gen_f alt v' = Some (anc (v - v') f).
Proof. rewrite !gen_f_is_f_f. apply f_nested_partial. Qed.
Theorem gen_f_nesting_underflow_refuted :
  exists alt v v', 0 <= v' <= v /\ v <= 35 /\ ffin alt = true /\ (Rabs (fval alt) <= bpow radix2 25)%R /\ alt_vanishes alt v' /\
    gen_f alt v = Some (-1) /\ gen_f alt v' = Some 0 /\ anc (v - v') (-1) <> 0 /\ ~ rel1 v (-1) v' 0.
Proof.
  destruct f_nesting_underflow_refuted as (alt & v & v' & H). exists alt, v, v'. now rewrite !gen_f_is_f_f.
Qed.

(* ---- the whole point, over the three generated kernels ---- *)
Definition gen_pt_dom (M : libm) (p : point) : Prop := pt_dom (m_tan M) (m_cos M) (m_log M) p.

Theorem gen_point_nesting_partial M p h v h' v' : 0 <= h' <= h -> h <= 35 -> 0 <= v' <= v -> v <= 35 ->
  gen_pt_dom M p -> ~ alt_vanishes (palt p) v' ->
  exists i i', gen_point_eid M p h v = Some i /\ gen_point_eid M p h' v' = Some i' /\ valid i /\ valid i' /\
               eh i = h /\ ev i = v /\ eh i' = h' /\ ev i' = v' /\
               ex i' = anc (h - h') (ex i) /\ ey i' = anc (h - h') (ey i) /\ ef i' = anc (v - v') (ef i) /\
               change_eids [i] h' v' = [i'].
Proof. rewrite !gen_point_eid_is_point_eid. apply point_nesting_partial. Qed.

Theorem gen_point_regions_nested_partial M p h v h' v' : 0 <= h' <= h -> h <= 35 -> 0 <= v' <= v -> v <= 35 ->
  gen_pt_dom M p -> ~ alt_vanishes (palt p) v' ->
  exists i i', gen_point_eid M p h v = Some i /\ gen_point_eid M p h' v' = Some i' /\ forall q, inR i q -> inR i' q.
Proof. rewrite !gen_point_eid_is_point_eid. apply point_regions_nested_partial. Qed.

Theorem gen_point_voxels_overlap_partial M p h1 v1 h2 v2 : 0 <= h1 <= 35 -> 0 <= v1 <= 35 -> 0 <= h2 <= 35 -> 0 <= v2 <= 35 ->
  gen_pt_dom M p -> ~ alt_vanishes (palt p) (Z.min v1 v2) ->
  exists i j, gen_point_eid M p h1 v1 = Some i /\ gen_point_eid M p h2 v2 = Some j /\ overlaps i j /\
              overlap_check_api (print_eid i) (print_eid j) = Ok true.
Proof. rewrite !gen_point_eid_is_point_eid. apply point_voxels_overlap_partial. Qed.

Theorem gen_point_nesting_underflow_refuted M :
  exists p, ffin (plon p) = true /\ ffin (palt p) = true /\ (Rabs (fval (palt p)) <= bpow radix2 25)%R /\ alt_vanishes (palt p) 24 /\
    forall h i j, gen_point_eid M p h 25 = Some i -> gen_point_eid M p h 24 = Some j -> ef i = -1 /\ ef j = 0 /\ ~ overlaps i j.
Proof.
  destruct (point_nesting_underflow_refuted (m_tan M) (m_cos M) (m_log M)) as (p & A & B & C & D & E).
  exists p. repeat (split; [assumption|]). intros h i j. rewrite !gen_point_eid_is_point_eid. apply E.
Qed.

(* ---- non-vacuity: a libm record (tan = 0, cos = 1, log = 0: the equator for every latitude) and a point below ground in the domain ---- *)
Definition flat_libm : libm :=
  let i := fun x : pfloat => x in
  mk_libm i i i (fun _ => 1%float) i i (fun _ => 0%float) i i i i i i (fun _ => 0%float) i i (fun a _ => a) (fun a _ => a) (fun a _ => a) (fun a _ => a).
Example gen_pt_dom_example :
  gen_pt_dom flat_libm example_point /\ ~ alt_vanishes (palt example_point) 0 /\
  gen_point_eid flat_libm example_point 20 25 = Some (mk 20 931339 524288 25 (-76)) /\ gen_point_eid flat_libm example_point 4 24 = Some (mk 4 14 8 24 (-38)).
Proof.
  destruct pt_dom_example_concrete as [D N].
  split; [exact D|]. split; [exact N|]. split; vm_compute; reflexivity.
Qed.
