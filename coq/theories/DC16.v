(* DC16.v — dispatch entries of property C16 (determinism, order-blindness, no duplicates, inputs unmodified).

   One entry "Det:<Function>" per set-valued exported operation.  The Go invoker (harness/props/c16), in ONE process,
     (1) copies the argument slices (and the objects behind pointer arguments),
     (2) calls the function 9 times with the same arguments, two other calls of the same function between two repeats (decoys:
         part of the arguments equal, e.g. the same zooms and radius at another latitude; in alternating order A, X, B, A, B', X', A:
         a memo keyed on part of the arguments is refilled by B only when X evicted it first),
     (3) calls it on permutations of each input list (coarse-first, fine-first, two seeded shuffles) and on the list with
         entries repeated (every entry twice in place, one entry three times in place, the list appended to itself),
     (4) compares every input slice byte for byte with the copy after each call,
   and reports   VL [VB inputs_unmodified; VL repeats; VL permuted; VL duplicated; VZ refused_permuted; VZ refused_duplicated]
   (or VS "skipped:too-large" when a size guard refuses the first call: only the shared shrinker proposes such calls, the generators
   draw again; the entry answers class "skipped" only when its own estimate confirms the excess, otherwise bad-case).

   One result is  VE _  (the call returned an error)  or  VL items,  an item being  VS id  or a group  VL [VS header; VL [VS pair…]]
   (key conversions: header = output zooms and parameters of the group).  A boolean answer b is the one-item list [VS "true"/"false"].

   prop (check_det, proved sound below):
     - the flag is true; there are at least two repeats; when an input list has two or more entries there is at least one permuted
       and one duplicated run;
     - the 9 repeats are equal as multisets of canonical items (a group's canonical form: header + its sorted pairs);
     - every permuted / duplicated run has the same SET of flattened members (header|pair for groups: which group a pair lands in
       legitimately depends on the input order, see DeterminismMore.run_groups_depend_on_order) as the first repeat;
       for Difference / Intersect the duplicated runs legitimately keep the multiplicity of the list they filter — sets only;
     - when the operation is documented as de-duplicated: no flattened member twice in any result;
     - error results must be errors in all runs.
   corr: the first repeat has the members of the executable model's result where a model is run (15 entries: zoom change, merge,
     neighbourhoods, Get6/8/26, expansion, set helpers, overlap); for the other 12 (line, corridor, key and tile conversions) no model is
     run here and corr = prop. *)
From Coq Require Import ZArith String List Bool Permutation Floats.
From SID Require Import Base Str Ids Wire ZoomCore Shift ChangeZoom Merge MergeApi Neighbour Notation SetOps Overlap QuadkeyConv Tile Determinism.
Import ListNotations.
Open Scope string_scope.

(* ------------------------------------------------------------------------------------------------ decoded results *)
Inductive res :=
| RErr
| ROk (flat : list string) (keys : list string).   (* flattened members; canonical items *)

Definition item_flat (v : val) : option (list string) :=
  match v with
  | VS s => Some [s]
  | VL [VS h; ps] => match as_LS ps with Some l => Some (map (fun p => h ++ "|" ++ p) l) | None => None end
  | _ => None
  end.
Definition item_key (v : val) : option string :=
  match v with
  | VS s => Some s
  | VL [VS h; ps] => match as_LS ps with Some l => Some (h ++ "|" ++ String.concat "," (sort_strings l)) | None => None end
  | _ => None
  end.
Definition decode_res (v : val) : option res :=
  match v with
  | VE _ => Some RErr
  | VPanic | VTimeout | VZ _ | VS _ | VF _ | VB _ => None
  | _ => match as_L v with
         | Some items =>
             match all_opt (map item_flat items), all_opt (map item_key items) with
             | Some fl, Some ks => Some (ROk (List.concat fl) ks)
             | _, _ => None
             end
         | None => None
         end
  end.

(* ------------------------------------------------------------------------------------------------ the checker *)
(* Every result is normalised once (one sort), then compared with the normal form of the first repeat. *)
Definition res_same_bag (r1 r2 : res) : bool :=
  match r1, r2 with RErr, RErr => true | ROk _ k1, ROk _ k2 => same_bag_S k1 k2 | _, _ => false end.
Definition res_same_set (r1 r2 : res) : bool :=
  match r1, r2 with RErr, RErr => true | ROk f1 _, ROk f2 _ => same_set f1 f2 | _, _ => false end.
Definition res_nodup (r : res) : bool := match r with RErr => true | ROk f _ => nodup_chk f end.

(* normal forms: None = error result *)
Definition bag_nf (r : res) : option (list string) := match r with RErr => None | ROk _ k => Some (sort_strings k) end.
Definition set_nf (r : res) : option (list string) := match r with RErr => None | ROk f _ => Some (canon f) end.
Definition nf_eqb (a b : option (list string)) : bool :=
  match a, b with None, None => true | Some x, Some y => list_eqb String.eqb x y | _, _ => false end.
Lemma bag_nf_eqb r1 r2 : nf_eqb (bag_nf r1) (bag_nf r2) = res_same_bag r1 r2.
Proof. destruct r1, r2; reflexivity. Qed.
Lemma set_nf_eqb r1 r2 : nf_eqb (set_nf r1) (set_nf r2) = res_same_set r1 r2.
Proof. destruct r1, r2; reflexivity. Qed.

Definition decode_all (l : list val) : option (list res) := all_opt (map decode_res l).

(* need = some input list has two or more entries: then at least one permuted and one duplicated run must have been made *)
Definition nonempty {A} (l : list A) : bool := match l with [] => false | _ => true end.
Definition check_runs (nodup need : bool) (un : bool) (reps perms dups : list res) : bool :=
  match reps with
  | [] => false
  | r0 :: rs =>
      let b0 := bag_nf r0 in
      let s0 := set_nf r0 in
      un && nonempty rs && (if need then nonempty perms && nonempty dups else true) && forallb (fun r => nf_eqb b0 (bag_nf r)) rs && forallb (fun r => nf_eqb s0 (set_nf r)) (perms ++ dups)
         && (if nodup then forallb res_nodup (reps ++ perms ++ dups) else true)
  end.

(* the two counters at the end report the permuted / duplicated runs that a size guard of the harness refused (visible in replays) *)
Definition check_det (nodup need : bool) (obs : val) : bool :=
  match obs with
  | VL [VB un; VL reps; VL perms; VL dups; VZ _; VZ _] =>
      match decode_all reps, decode_all perms, decode_all dups with
      | Some r, Some p, Some d => check_runs nodup need un r p d
      | _, _, _ => false
      end
  | _ => false
  end.

(* ---- what an accepted observation means ---- *)
Definition res_equal_bags (r1 r2 : res) : Prop :=
  match r1, r2 with RErr, RErr => True | ROk _ k1, ROk _ k2 => Permutation k1 k2 | _, _ => False end.
Definition res_equal_sets (r1 r2 : res) : Prop :=
  match r1, r2 with RErr, RErr => True | ROk f1 _, ROk f2 _ => forall s, In s f1 <-> In s f2 | _, _ => False end.
Definition res_NoDup (r : res) : Prop := match r with RErr => True | ROk f _ => NoDup f end.

Definition det_spec (nodup need un : bool) (reps perms dups : list res) : Prop :=
  exists r0 rs, reps = r0 :: rs /\ un = true /\ rs <> [] /\ (need = true -> perms <> [] /\ dups <> []) /\
    (forall r, In r rs -> res_equal_bags r0 r) /\
    (forall r, In r (perms ++ dups) -> res_equal_sets r0 r) /\
    (nodup = true -> forall r, In r (reps ++ perms ++ dups) -> res_NoDup r).

Lemma res_same_bag_sound r1 r2 : res_same_bag r1 r2 = true -> res_equal_bags r1 r2.
Proof. destruct r1, r2; cbn; try discriminate; auto. apply same_bag_S_perm. Qed.
Lemma res_same_set_sound r1 r2 : res_same_set r1 r2 = true -> res_equal_sets r1 r2.
Proof. destruct r1, r2; cbn; try discriminate; auto. apply same_set_sound. Qed.
Lemma res_nodup_sound r : res_nodup r = true -> res_NoDup r.
Proof. destruct r; cbn; auto. apply nodup_chk_sound. Qed.

Lemma nonempty_spec {A} (l : list A) : nonempty l = true -> l <> [].
Proof. destruct l; [discriminate|discriminate]. Qed.
Theorem check_runs_sound nodup need un reps perms dups : check_runs nodup need un reps perms dups = true -> det_spec nodup need un reps perms dups.
Proof.
  unfold check_runs, det_spec. destruct reps as [|r0 rs]; [discriminate|]. cbv zeta. rewrite !andb_true_iff, !forallb_forall.
  intros [[[[[U R] Nd] B] S] N]. exists r0, rs. split; [reflexivity|]. split; [exact U|]. split; [now apply nonempty_spec|].
  split; [intros ->; apply andb_true_iff in Nd; destruct Nd; split; now apply nonempty_spec|]. split; [|split].
  - intros r Hr. apply res_same_bag_sound. rewrite <- bag_nf_eqb. apply B, Hr.
  - intros r Hr. apply res_same_set_sound. rewrite <- set_nf_eqb. apply S, Hr.
  - intros -> r Hr. rewrite forallb_forall in N. apply res_nodup_sound, N, Hr.
Qed.
(* the dispatch verdict on wire values *)
Theorem check_det_sound nodup need obs : check_det nodup need obs = true ->
  exists un reps perms dups dp dd r p d, obs = VL [VB un; VL reps; VL perms; VL dups; VZ dp; VZ dd] /\
    decode_all reps = Some r /\ decode_all perms = Some p /\ decode_all dups = Some d /\ det_spec nodup need un r p d.
Proof.
  unfold check_det. destruct obs as [| | | |l| | | |]; try discriminate.
  destruct l as [|a l]; [discriminate|]. destruct a as [| | |un| | | | |]; try discriminate.
  destruct l as [|a l]; [discriminate|]. destruct a as [| | | |reps| | | |]; try discriminate.
  destruct l as [|a l]; [discriminate|]. destruct a as [| | | |perms| | | |]; try discriminate.
  destruct l as [|a l]; [discriminate|]. destruct a as [| | | |dups| | | |]; try discriminate.
  destruct l as [|a l]; [discriminate|]. destruct a as [dp| | | | | | | |]; try discriminate.
  destruct l as [|a l]; [discriminate|]. destruct a as [dd| | | | | | | |]; try discriminate.
  destruct l as [|a l]; [|discriminate].
  destruct (decode_all reps) as [r|] eqn:E1; [|discriminate]. destruct (decode_all perms) as [p|] eqn:E2; [|discriminate].
  destruct (decode_all dups) as [d|] eqn:E3; [|discriminate]. intros C.
  exists un, reps, perms, dups, dp, dd, r, p, d. repeat split; try assumption. now apply check_runs_sound.
Qed.
(* the checker accepts what the theorems of Determinism.v describe: identical duplicate-free runs *)
Example check_runs_accepts : check_runs true true true [ROk ["a"; "b"] ["a"; "b"]; ROk ["b"; "a"] ["b"; "a"]] [ROk ["b"; "a"] ["b"; "a"]] [ROk ["a"; "b"] ["a"; "b"]] = true.
Proof. vm_compute. reflexivity. Qed.
Example check_runs_rejects_other_set : check_runs false false true [ROk ["a"; "b"] ["a"; "b"]; ROk ["a"; "b"] ["a"; "b"]] [ROk ["a"] ["a"]] [] = false.
Proof. vm_compute. reflexivity. Qed.
Example check_runs_rejects_duplicate : check_runs true false true [ROk ["a"; "a"] ["a"; "a"]; ROk ["a"; "a"] ["a"; "a"]] [] [] = false.
Proof. vm_compute. reflexivity. Qed.
Example check_runs_accepts_without_nodup : check_runs false false true [ROk ["a"; "a"] ["a"; "a"]; ROk ["a"; "a"] ["a"; "a"]] [] [] = true.
Proof. vm_compute. reflexivity. Qed.
Example check_runs_rejects_missing_variants : check_runs false true true [ROk ["a"] ["a"]; ROk ["a"] ["a"]] [] [] = false.
Proof. vm_compute. reflexivity. Qed.
Example check_runs_rejects_modified_input : check_runs false false false [ROk ["a"] ["a"]; ROk ["a"] ["a"]] [] [] = false.
Proof. vm_compute. reflexivity. Qed.

(* ------------------------------------------------------------------------------------------------ models for corr *)
Definition of_result (r : result (list string)) : res := match r with Ok l => ROk l l | Err => RErr end.
Definition of_bool (r : result bool) : res :=
  match r with Ok true => ROk ["true"] ["true"] | Ok false => ROk ["false"] ["false"] | Err => RErr end.

Definition small_eid (i : eid) : bool :=
  check_zoom (eh i) && check_zoom (ev i) && (Z.abs (ex i) <? 2 ^ 36)%Z && (Z.abs (ey i) <? 2 ^ 36)%Z && (Z.abs (ef i) <? 2 ^ 36)%Z.
Definition est_one (H V : Z) (i : eid) : Z := (4 ^ Z.max 0 (H - eh i) * 2 ^ Z.max 0 (V - ev i))%Z.
Definition est (es : list eid) (H V : Z) : Z := fold_right (fun i acc => est_one H V i + acc)%Z 0%Z es.

(* zoom change: the API model; on valid IDs computed on records (ChangeZoom.change_ext_api_parsed: the same list) *)
Definition m_change_ext (sl : list string) (H V : Z) : option res :=
  match parse_all sl with
  | Some es =>
      if negb (forallb small_eid es) || (4000 <? est es H V)%Z then None
      else if check_zoom H && check_zoom V && forallb validb es then Some (of_result (Ok (map print_eid (change_eids es H V))))
      else Some (of_result (change_ext_api sl H V))
  | None => Some (of_result (change_ext_api sl H V))
  end.
Definition m_change_sid (sl : list string) (z : Z) : option res :=
  match map_opt ChangeZoom.parse_sid sl with
  | Some es =>
      if negb (forallb small_eid es) || (4000 <? est es z z)%Z then None
      else if check_zoom z && forallb validb es then Some (of_result (Ok (map ChangeZoom.print_sid (change_eids es z z))))
      else Some (of_result (change_sid_api sl z))
  | None => Some (of_result (change_sid_api sl z))
  end.
(* merge: within the shared work bound only *)
Definition runnable (ids : list string) (H V : Z) : bool :=
  if check_zoom H && check_zoom V then
    match parse_all ids with Some l => within_bound H V l | None => true end
  else true.
Definition m_merge_ext (sl : list string) (H V : Z) : option res :=
  if runnable sl H V then Some (of_result (merge_ext_api sl H V)) else None.
Definition m_merge_sid (sl : list string) (z : Z) : option res :=
  let e := match sids_to_eids sl with Ok e => e | Err => [] end in
  if runnable e z z then Some (of_result (merge_sid_api sl z)) else None.

Definition m_strs1 (f : list string -> list string) (a : list val) : option res :=
  match a with [l] => match as_LS l with Some sl => Some (let r := f sl in ROk r r) | None => None end | _ => None end.
Definition m_strs2 (f : list string -> list string -> list string) (a : list val) : option res :=
  match a with
  | [l1; l2] => match as_LS l1, as_LS l2 with Some s1, Some s2 => Some (let r := f s1 s2 in ROk r r) | _, _ => None end
  | _ => None
  end.
Definition idord (l : list string) : list string := l.

(* ---- key conversions (QuadkeyConv.v, C11/C12), tile conversions (Tile.v, C13), per-axis helpers (ZoomCore, C03) ---- *)
(* a group is reported by the invoker as [header; pairs] with header "hz/vz/=" when the group carries the request's parameters
   unchanged (anything else is spelled out and cannot match), a pair as "quadkey,vertical" *)
Definition pair_str (p : QuadkeyConv.pair) : string := (print (fst p) ++ "," ++ print (snd p))%string.
Definition group_flat {P} (g : group P) : list string :=
  let h := (print (g_hz g) ++ "/" ++ print (g_vz g) ++ "/=")%string in map (fun p => (h ++ "|" ++ pair_str p)%string) (g_pairs g).
Definition of_groups {P} (r : result (list (group P))) : res :=
  match r with Ok gs => let f := flat_map group_flat gs in ROk f f | Err => RErr end.
(* Some true: index form (maxHeight = minHeight); Some false: refused (maxHeight < minHeight or NaN); None: a height range, the
   binary-subdivision form of C17 (float model with oracles): no model is run here *)
Definition height_mode (mx mn : float) : option bool :=
  if (mx =? mn)%float then Some true else if (mn <? mx)%float then None else Some false.
Definition sane_ids (ids : list string) : bool :=
  forallb (fun s => match parse_eid s with Some i => small_eid i | None => true end) ids.
Definition m_e2q (sid : bool) (a : list val) : option res :=
  match a with
  | [l; VZ oh; VZ ov; VF mx; VF mn] =>
      match as_LS l, height_mode mx mn with
      | Some ids, Some idx =>
          if sid then match sids_to_eids ids with
                      | Ok e => if sane_ids e then Some (of_groups (s2q tt idx ids oh ov)) else None
                      | Err => Some RErr
                      end
          else if sane_ids ids then Some (of_groups (e2q tt idx ids oh ov)) else None
      | _, _ => None
      end
  | _ => None
  end.
Definition m_e2qa (a : list val) : option res :=
  match a with
  | [l; VZ oq; VZ oa; VZ E; VZ zo] =>
      match as_LS l with
      | Some ids => if sane_ids ids && (Z.abs oa <? 64)%Z && (Z.abs E <? 64)%Z then Some (of_groups (e2qa ids oq oa E zo)) else None
      | None => None
      end
  | _ => None
  end.
Definition dec_item (v : val) : option qitem :=
  match v with
  | VL [VZ z; VZ k; VZ vz; VZ vi; VF mx; VF mn] =>
      match height_mode mx mn with Some idx => Some (mkq z k vz vi idx) | None => None end
  | _ => None
  end.
Definition dec_items (v : val) : option (list qitem) := match as_L v with Some l => all_opt (map dec_item l) | None => None end.
Definition small_item (it : qitem) : bool := (Z.abs (qz it) <? 64)%Z && (Z.abs (qvz it) <? 64)%Z && (Z.abs (qvi it) <? 2 ^ 40)%Z.
Definition m_q2e (sid : bool) (a : list val) : option res :=
  match a with
  | [its; VZ oh; VZ ov] => if sid then None else
      match dec_items its with Some items => if forallb small_item items then Some (of_result (q2e items oh ov)) else None | None => None end
  | [its; VZ z] => if sid then
      match dec_items its with Some items => if forallb small_item items then Some (of_result (q2s items z)) else None | None => None end
      else None
  | _ => None
  end.
Definition dec_tile (v : val) : option tile :=
  match v with
  | VL [VZ h; VZ x; VZ y; VZ vz; VZ z] => match new_tile h x y vz z with Ok t => Some t | Err => None end
  | _ => None
  end.
Definition dec_tiles (v : val) : option (list tile) := match as_L v with Some l => all_opt (map dec_tile l) | None => None end.
Definition small_tile (t : tile) : bool := (Z.abs (tx t) <? 2 ^ 40)%Z && (Z.abs (ty t) <? 2 ^ 40)%Z && (Z.abs (tz t) <? 2 ^ 40)%Z.
Definition m_tiles (spatial : bool) (a : list val) : option res :=
  match a with
  | [ts; VZ E; VZ zo; VZ ov] =>
      match dec_tiles ts with
      | Some l =>
          if forallb small_tile l && (Z.abs E <? 64)%Z && (Z.abs ov <? 64)%Z then
            Some (if spatial then of_result (tiles_to_sids l E zo ov)
                  else of_result (match tiles_to_eids l E zo ov with Ok r => Ok (map print_eid r) | Err => Err end))
          else None
      | None => None
      end
  | _ => None
  end.
Definition small_idx (z : Z) : bool := (Z.abs z <? 2 ^ 36)%Z.
Definition m_hzoom (a : list val) : option res :=
  match a with
  | [VZ zin; VZ x; VZ y; VZ zout] =>
      if check_zoom zin && check_zoom zout && small_idx x && small_idx y && (zout - zin <=? 6)%Z
      then Some (let r := hzoom_strs zin x y zout in ROk r r) else None
  | _ => None
  end.
Definition m_vzoom (a : list val) : option res :=
  match a with
  | [VZ zin; VZ f; VZ zout] =>
      if check_zoom zin && check_zoom zout && small_idx f && (zout - zin <=? 12)%Z
      then Some (let r := vzoom_strs zin f zout in ROk r r) else None
  | _ => None
  end.

Definition model_of (fn : string) (a : list val) : option res :=
  if String.eqb fn "ChangeExtendedSpatialIdsZoom" then
    match a with [l; VZ H; VZ V] => match as_LS l with Some sl => m_change_ext sl H V | None => None end | _ => None end
  else if String.eqb fn "ChangeSpatialIdsZoom" then
    match a with [l; VZ z] => match as_LS l with Some sl => m_change_sid sl z | None => None end | _ => None end
  else if String.eqb fn "MergeExtendedSpatialIds" then
    match a with [l; VZ H; VZ V] => match as_LS l with Some sl => m_merge_ext sl H V | None => None end | _ => None end
  else if String.eqb fn "MergeSpatialIds" then
    match a with [l; VZ z] => match as_LS l with Some sl => m_merge_sid sl z | None => None end | _ => None end
  else if String.eqb fn "GetNspatialIdsAroundVoxcels" then
    match a with [l; VZ H; VZ V] => match as_LS l with Some sl => Some (of_result (nN_api sl H V)) | None => None end | _ => None end
  else if String.eqb fn "Get6spatialIdsAdjacentToFaces" then
    match a with [VS id] => Some (let r := n6_api id in ROk r r) | _ => None end
  else if String.eqb fn "Get8spatialIdsAroundHorizontal" then
    match a with [VS id] => Some (let r := n8_api id in ROk r r) | _ => None end
  else if String.eqb fn "Get26spatialIdsAroundVoxel" then
    match a with [VS id] => Some (let r := n26_api id in ROk r r) | _ => None end
  else if String.eqb fn "ConvertExtendedSpatialIDToSpatialIDs" then
    match a with
    | [VS id] => match parse_eid id with
                 | Some i => if validb i && (Z.abs (eh i - ev i) <=? 6)%Z then Some (of_result (expand_api id)) else None
                 | None => None
                 end
    | _ => None
    end
  else if String.eqb fn "Unique" then m_strs1 (SetOps.unique String.eqb idord) a
  else if String.eqb fn "Union" then m_strs2 (SetOps.union String.eqb idord) a
  else if String.eqb fn "Difference" then m_strs2 (SetOps.difference String.eqb) a
  else if String.eqb fn "Intersect" then m_strs2 (SetOps.intersect String.eqb) a
  else if String.eqb fn "CheckExtendedSpatialIdsOverlap" then
    match a with [VS x; VS y] => Some (of_bool (ext_overlap x y)) | _ => None end
  else if String.eqb fn "CheckExtendedSpatialIdsArrayOverlap" then
    match a with [l1; l2] => match as_LS l1, as_LS l2 with Some s1, Some s2 => Some (of_bool (ext_array s1 s2)) | _, _ => None end | _ => None end
  else if String.eqb fn "CheckSpatialIdsOverlap" then
    match a with [VS x; VS y] => Some (of_bool (sp_overlap x y)) | _ => None end
  else if String.eqb fn "CheckSpatialIdsArrayOverlap" then
    match a with [l1; l2] => match as_LS l1, as_LS l2 with Some s1, Some s2 => Some (of_bool (sp_array s1 s2)) | _, _ => None end | _ => None end
  else if String.eqb fn "ConvertExtendedSpatialIDsToQuadkeysAndVerticalIDs" then m_e2q false a
  else if String.eqb fn "ConvertSpatialIDsToQuadkeysAndVerticalIDs" then m_e2q true a
  else if String.eqb fn "ConvertExtendedSpatialIDsToQuadkeysAndAltitudekeys" then m_e2qa a
  else if String.eqb fn "ConvertQuadkeysAndVerticalIDsToExtendedSpatialIDs" then m_q2e false a
  else if String.eqb fn "ConvertQuadkeysAndVerticalIDsToSpatialIDs" then m_q2e true a
  else if String.eqb fn "ConvertTileXYZsToExtendedSpatialIDs" then m_tiles false a
  else if String.eqb fn "ConvertTileXYZsToSpatialIDs" then m_tiles true a
  else if String.eqb fn "HorizontalZoom" then m_hzoom a
  else if String.eqb fn "VerticalZoom" then m_vzoom a
  else None.

(* ------------------------------------------------------------------------------------------------ the entries *)
(* A refused call.  The invoker answers VS "skipped:too-large" when a size guard refused the FIRST call (the generators draw again in
   that case, so only the shared shrinker produces such calls).  The entry recomputes the estimate where the model side has one and
   answers class "skipped" only when it confirms the excess; any other string (unconfirmed skip, "builder-panic", "bad-shape") is a
   bad case: never a pass. *)
Definition skip_marker : string := "skipped:too-large".
Definition big40 (z : Z) : bool := (2 ^ 40 <? Z.abs z)%Z.
Definition big_eid (i : eid) : bool := big40 (eh i) || big40 (ex i) || big40 (ey i) || big40 (ev i) || big40 (ef i).
Definition cost_limit : Z := 3000.
Definition oversize (fn : string) (a : list val) : bool :=
  if String.eqb fn "ChangeExtendedSpatialIdsZoom" then
    match a with
    | [l; VZ H; VZ V] => match as_LS l with
                         | Some sl => match parse_all sl with
                                      | Some es => check_zoom H && check_zoom V && (existsb big_eid es || (cost_limit <? est es H V)%Z)
                                      | None => false
                                      end
                         | None => false
                         end
    | _ => false
    end
  else if String.eqb fn "ChangeSpatialIdsZoom" then
    match a with
    | [l; VZ z] => match as_LS l with
                   | Some sl => match map_opt ChangeZoom.parse_sid sl with
                                | Some es => check_zoom z && (existsb big_eid es || (cost_limit <? est es z z)%Z)
                                | None => false
                                end
                   | None => false
                   end
    | _ => false
    end
  else if String.eqb fn "MergeExtendedSpatialIds" then
    match a with [l; VZ H; VZ V] => match as_LS l with Some sl => negb (runnable sl H V) | None => false end | _ => false end
  else if String.eqb fn "MergeSpatialIds" then
    match a with
    | [l; VZ z] => match as_LS l with
                   | Some sl => match sids_to_eids sl with Ok e => negb (runnable e z z) | Err => false end
                   | None => false
                   end
    | _ => false
    end
  else if String.eqb fn "GetNspatialIdsAroundVoxcels" then
    match a with
    | [l; VZ H; VZ V] => match as_LS l with
                         | Some sl => (4 <? H)%Z || (4 <? V)%Z ||
                                      ((0 <=? H)%Z && (0 <=? V)%Z && (cost_limit <? Z.of_nat (List.length sl) * ((2 * H + 1) * (2 * H + 1) * (2 * V + 1)))%Z)
                         | None => false
                         end
    | _ => false
    end
  else if String.eqb fn "HorizontalZoom" then
    match a with [VZ zin; VZ x; VZ y; VZ zout] => (5 <? zout - zin)%Z || big40 x || big40 y | _ => false end
  else if String.eqb fn "VerticalZoom" then
    match a with [VZ zin; VZ f; VZ zout] => (11 <? zout - zin)%Z || big40 f | _ => false end
  else false.

Definition first_rep (obs : val) : option res :=
  match obs with VL (_ :: VL (r :: _) :: _) => decode_res r | _ => None end.
Definition res_val (r : res) : val := match r with RErr => VE VNil | ROk f _ => of_LS f end.

(* some permutable list argument has two or more entries *)
Definition long_list (v : val) : bool := match as_L v with Some (_ :: _ :: _) => true | _ => false end.
Definition needs_variants (lists : list nat) (fargs : list val) : bool :=
  existsb (fun i => match nth_error fargs i with Some v => long_list v | None => false end) lists.

(* args = [VL fargs; VL decoys; VZ seed] *)
Definition d_det (fn : string) (nodup : bool) (lists : list nat) (args : list val) (obs : val) : verdict :=
  match args with
  | [VL fargs; VL _; VZ _] =>
      match obs with
      | VS s => if String.eqb s skip_marker && oversize fn fargs then mkv true true "skipped" VNil else bad_case
      | _ =>
        let p := check_det nodup (needs_variants lists fargs) obs in
        match model_of fn fargs, first_rep obs with
        | Some m, Some r0 => mkv (res_same_set m r0) p "-" (res_val m)
        | Some m, None => mkv false p "-" (res_val m)
        | None, _ => mkv p p "-" VNil
        end
      end
  | _ => bad_case
  end.

Definition det (fn : string) (nodup : bool) (lists : list nat) : entry := (("Det:" ++ fn)%string, fun _ => d_det fn nodup lists).

Definition table_C16 : table :=
  [ (* documented as de-duplicated / a set ("IDの重複は解消された形で返却される", Unique at the end, a map used as a set) *)
    det "ChangeExtendedSpatialIdsZoom" true [0%nat]; det "ChangeSpatialIdsZoom" true [0%nat];
    det "MergeExtendedSpatialIds" true [0%nat]; det "MergeSpatialIds" true [0%nat];
    det "GetExtendedSpatialIdsOnLine" true []; det "GetSpatialIdsOnLine" true [];
    det "GetExtendedSpatialIdsWithinRadiusOfLine" true [];
    det "GetNspatialIdsAroundVoxcels" true [0%nat];
    det "ConvertExtendedSpatialIDsToQuadkeysAndVerticalIDs" true [0%nat]; det "ConvertExtendedSpatialIDsToQuadkeysAndAltitudekeys" true [0%nat];
    det "ConvertSpatialIDsToQuadkeysAndVerticalIDs" true [0%nat];
    det "ConvertQuadkeysAndVerticalIDsToExtendedSpatialIDs" true [0%nat]; det "ConvertQuadkeysAndVerticalIDsToSpatialIDs" true [0%nat];
    det "ConvertTileXYZsToExtendedSpatialIDs" true [0%nat];
    det "ConvertExtendedSpatialIDToSpatialIDs" true [];
    det "Unique" true [0%nat]; det "Union" true [0%nat; 1%nat];
    (* exported per-axis helpers of the zoom change: one ID, repeats and decoys only *)
    det "HorizontalZoom" true []; det "VerticalZoom" true [];
    (* not documented as de-duplicated: fixed-size stencils (members coincide on a grid narrower than the stencil), expansions of
       several tiles, filters that keep the multiplicity of one argument, boolean answers *)
    det "Get6spatialIdsAdjacentToFaces" false []; det "Get8spatialIdsAroundHorizontal" false []; det "Get26spatialIdsAroundVoxel" false [];
    det "ConvertTileXYZsToSpatialIDs" false [0%nat];
    det "Difference" false [0%nat; 1%nat]; det "Intersect" false [0%nat; 1%nat];
    det "CheckExtendedSpatialIdsOverlap" false []; det "CheckExtendedSpatialIdsArrayOverlap" false [0%nat; 1%nat];
    det "CheckSpatialIdsOverlap" false []; det "CheckSpatialIdsArrayOverlap" false [0%nat; 1%nat] ].
