(* GenEqFShift.v — operated.GetShiftingSpatialID, float layer: the local maxIndex = int64(math.Pow(2, float64(hZoom)) - 1), as a function of the
   final value of the local hZoom, = ShiftF.max_index_f. Not regenerated: the wrap itself (a loop of additions and int64(math.Mod(..)) inside a
   conditional; ShiftF.wrap_f is its hand-written twin), the method calls that read the ID, the formatting. *)
From Coq Require Import ZArith Bool Floats.
From SIDGen Require Import GeneratedF.
From SID Require Import F64 ShiftF GenFTac.
Open Scope float_scope.

Lemma gen_GetShiftingSpatialID_maxIndex_eq : forall dx dy dv h,
  GeneratedF.GetShiftingSpatialID_maxIndex dx dy dv h = max_index_f h.
Proof. gen_feq ltac:(unfold max_index_f). Qed.
