(* PtMerc.v — C01, latitude axis over the reals: the Web-Mercator fraction of a latitude,
   w(lat) = (1 - asinh(tan lat) / pi) / 2 = (1 - ln(tan lat + 1/cos lat) / pi) / 2   (the form the Go code evaluates),
   lies strictly inside (0,1) on the documented domain |lat| <= 85.0511287798 (CoqInterval), so the exact row
   Y = floor(2^h * w) satisfies 0 <= Y < 2^h at every zoom, including the two limit latitudes. *)
From Coq Require Import ZArith Reals Lra Lia Psatz.
From Flocq Require Import Core.
From Interval Require Import Tactic.
Open Scope R_scope.

(* Mercator fraction of a latitude in radians, as written in shape/point.go *)
Definition mfrac (phi : R) : R := (1 - ln (tan phi + 1 / cos phi) / PI) / 2.
(* of a latitude in degrees (common.DegreeToRadian) *)
Definition wfrac (lat : R) : R := mfrac (lat * (PI / 180)).
Definition Y_exact (h : Z) (lat : R) : Z := Zfloor (bpow radix2 h * wfrac lat).

Lemma mfrac_0 : mfrac 0 = 1 / 2.
Proof. unfold mfrac. rewrite tan_0, cos_0. replace (0 + 1 / 1) with 1 by field. rewrite ln_1. pose proof PI_RGT_0. field. lra. Qed.
Lemma wfrac_0 : wfrac 0 = 1 / 2.
Proof. unfold wfrac. rewrite Rmult_0_l. apply mfrac_0. Qed.
(* the equator is the boundary between the two middle rows: latitude 0 belongs to row 2^(h-1) *)
Lemma Y_exact_equator h : (1 <= h)%Z -> Y_exact h 0 = (2 ^ (h - 1))%Z.
Proof.
  intros Hh. unfold Y_exact. rewrite wfrac_0.
  replace (bpow radix2 h * (1 / 2)) with (bpow radix2 (h - 1)).
  - rewrite <- IZR_Zpower by lia. apply Zfloor_IZR.
  - assert (E : bpow radix2 h = bpow radix2 (h - 1) * 2).
    { replace (bpow radix2 h) with (bpow radix2 ((h - 1) + 1)) by (f_equal; lia). rewrite bpow_plus. reflexivity. }
    rewrite E. field.
Qed.

Lemma sec_plus_tan_pos phi : - (PI / 2) < phi < PI / 2 -> 0 < tan phi + 1 / cos phi.
Proof.
  intros H. pose proof (cos_gt_0 phi ltac:(lra) ltac:(lra)) as Hc.
  unfold tan. replace (sin phi / cos phi + 1 / cos phi) with ((1 + sin phi) / cos phi) by (field; lra).
  apply Rdiv_lt_0_compat; [|exact Hc].
  pose proof (SIN_bound phi) as [Hs _].
  destruct (Req_dec (sin phi) (-1)) as [E|N]; [|lra].
  exfalso. pose proof (sin2_cos2 phi) as S. unfold Rsqr in S. rewrite E in S. nra.
Qed.

(* the property text writes asinh(tan lat); the code writes ln(tan lat + 1/cos lat): the same number *)
Lemma asinh_tan phi : - (PI / 2) < phi < PI / 2 -> arcsinh (tan phi) = ln (tan phi + 1 / cos phi).
Proof.
  intros H. pose proof (cos_gt_0 phi ltac:(lra) ltac:(lra)) as Hc. unfold arcsinh. f_equal. f_equal.
  assert (E : tan phi ^ 2 + 1 = (1 / cos phi) ^ 2).
  { unfold tan. pose proof (sin2_cos2 phi) as S. unfold Rsqr in S. field_simplify_eq; [|lra]. nra. }
  rewrite E. simpl. rewrite Rmult_1_r. apply sqrt_square. apply Rlt_le, Rdiv_lt_0_compat; lra.
Qed.

(* symmetry about the equator *)
Lemma mfrac_neg phi : - (PI / 2) < phi < PI / 2 -> mfrac (- phi) = 1 - mfrac phi.
Proof.
  intros H. unfold mfrac. rewrite tan_neg, cos_neg.
  pose proof (cos_gt_0 phi ltac:(lra) ltac:(lra)) as Hc.
  pose proof (sec_plus_tan_pos phi H) as Hp.
  assert (I : - tan phi + 1 / cos phi = / (tan phi + 1 / cos phi)).
  { apply Rmult_eq_reg_l with (tan phi + 1 / cos phi); [|lra]. rewrite Rinv_r by lra.
    unfold tan. pose proof (sin2_cos2 phi) as SC. unfold Rsqr in SC.
    transitivity ((1 - sin phi * sin phi) / (cos phi * cos phi)); [field; lra|].
    replace (1 - sin phi * sin phi) with (cos phi * cos phi) by lra. field. lra. }
  rewrite I, ln_Rinv by exact Hp. pose proof PI_RGT_0. field. lra.
Qed.

Definition lat_limit : R := 85.05112877980001.     (* just above both the decimal 85.0511287798 and its nearest binary64 *)

Lemma lat_rad_range lat : Rabs lat <= lat_limit -> - (PI / 2) < lat * (PI / 180) < PI / 2.
Proof.
  intros H. apply Rabs_le_inv in H. unfold lat_limit in H. pose proof PI_RGT_0 as P.
  assert (P180 : 0 < PI / 180) by lra.
  split.
  - apply Rlt_le_trans with (-86 * (PI / 180)); [lra|]. apply Rmult_le_compat_r; lra.
  - apply Rle_lt_trans with (86 * (PI / 180)); [|lra]. apply Rmult_le_compat_r; lra.
Qed.

Lemma wfrac_lower lat : Rabs lat <= lat_limit -> 2 / 10 ^ 13 < wfrac lat.
Proof.
  intros H. apply Rabs_le_inv in H. unfold lat_limit in H. unfold wfrac, mfrac.
  interval with (i_bisect lat, i_prec 80, i_depth 70).
Qed.
(* (4) strictly inside (0,1), with the margin 2e-13 that the limit latitude leaves *)
Theorem wfrac_range lat : Rabs lat <= lat_limit -> 2 / 10 ^ 13 < wfrac lat < 1 - 2 / 10 ^ 13.
Proof.
  intros H. split; [apply wfrac_lower, H|].
  assert (Hn : Rabs (- lat) <= lat_limit) by (rewrite Rabs_Ropp; exact H).
  pose proof (wfrac_lower (- lat) Hn) as L. unfold wfrac in L |- *.
  replace (- lat * (PI / 180)) with (- (lat * (PI / 180))) in L by ring.
  rewrite mfrac_neg in L by (apply lat_rad_range, H). lra.
Qed.
Theorem Y_exact_range h lat : (0 <= h)%Z -> Rabs lat <= lat_limit -> (0 <= Y_exact h lat < 2 ^ h)%Z.
Proof.
  intros Hh H. pose proof (wfrac_range lat H) as [W0 W1]. unfold Y_exact.
  assert (P : 0 < bpow radix2 h) by apply bpow_gt_0.
  assert (T : 0 < 2 / 10 ^ 13) by lra.
  split.
  - apply Zfloor_lub. simpl. nra.
  - apply lt_IZR. apply Rle_lt_trans with (bpow radix2 h * wfrac lat); [apply Zfloor_lb|].
    rewrite <- IZR_Zpower by exact Hh. change (IZR (radix2 ^ h)) with (IZR (2 ^ h)).
    rewrite (IZR_Zpower radix2) by exact Hh. nra.
Qed.
