(* SetOps.v — common.Union / Difference / Intersect / Unique / Include (generic, [T comparable]) and common.Max / Min (int64),
   and the exact characterisation of common.CalculateArithmeticShift (model: Base.ashift).
   Results that come out of a Go map (`for key := range s`) pass through an order oracle `ord` about which only
   `Permutation (ord l) l` is assumed; every theorem holds for every such oracle. Difference and Intersect do not range over a map:
   they keep the order and the multiplicity of the list they filter (l1 for Difference, l2 for Intersect). *)
From Coq Require Import List Bool Permutation ZArith Lia String Sorting.Mergesort Orders.
From SID Require Import Base Str.
Import ListNotations.
Local Open Scope list_scope.

Section SetOps.
  Context {A : Type} (eqb : A -> A -> bool).
  Hypothesis eqb_spec : forall a b, reflect (a = b) (eqb a b).
  Variable ord : list A -> list A.
  Hypothesis ord_perm : forall l, Permutation (ord l) l.

  (* func Include(slice, target): linear search *)
  Definition include (l : list A) (a : A) : bool := memb eqb a l.
  (* func Unique(target): keys of the map filled from target, in map order *)
  Definition unique (l : list A) : list A := ord (nodupb eqb l).
  (* func Union(l1, l2): keys of the map filled from l1 then l2, in map order *)
  Definition union (l1 l2 : list A) : list A := ord (nodupb eqb (l1 ++ l2)).
  (* func Difference(l1, l2): the elements of l1 (in order, with repetitions) that are not keys of the map built from l2 *)
  Definition difference (l1 l2 : list A) : list A := filter (fun x => negb (memb eqb x l2)) l1.
  (* func Intersect(l1, l2): the elements of l2 (in order, with repetitions) that are keys of the map built from l1 *)
  Definition intersect (l1 l2 : list A) : list A := filter (fun x => memb eqb x l1) l2.

  Lemma ord_In a l : In a (ord l) <-> In a l.
  Proof. split; apply Permutation_in; [apply ord_perm | apply Permutation_sym, ord_perm]. Qed.

  Theorem include_spec l a : include l a = true <-> In a l.
  Proof. apply memb_In, eqb_spec. Qed.
  Theorem include_false l a : include l a = false <-> ~ In a l.
  Proof. rewrite <- include_spec. destruct (include l a); split; congruence. Qed.

  Theorem unique_spec l a : In a (unique l) <-> In a l.
  Proof. unfold unique. rewrite ord_In. apply nodupb_In, eqb_spec. Qed.
  Theorem unique_NoDup l : NoDup (unique l).
  Proof. unfold unique. eapply Permutation_NoDup; [apply Permutation_sym, ord_perm | apply nodupb_NoDup, eqb_spec]. Qed.
  Theorem unique_id_perm l : NoDup l -> Permutation (unique l) l.
  Proof. intros H. unfold unique. rewrite ord_perm. rewrite (nodupb_id eqb eqb_spec l H). reflexivity. Qed.
  Theorem unique_length l : (List.length (unique l) <= List.length l)%nat.
  Proof.
    unfold unique. rewrite (Permutation_length (ord_perm _)).
    induction l as [|a r IH]; cbn; [lia|]. destruct (memb eqb a r); cbn; lia.
  Qed.

  Theorem union_spec l1 l2 a : In a (union l1 l2) <-> In a l1 \/ In a l2.
  Proof. unfold union. rewrite ord_In, (nodupb_In eqb eqb_spec), in_app_iff. tauto. Qed.
  Theorem union_NoDup l1 l2 : NoDup (union l1 l2).
  Proof. unfold union. eapply Permutation_NoDup; [apply Permutation_sym, ord_perm | apply nodupb_NoDup, eqb_spec]. Qed.

  (* two duplicate-free lists with the same members are permutations of each other: hence the order oracle is the only freedom *)
  Theorem union_comm_perm l1 l2 : Permutation (union l1 l2) (union l2 l1).
  Proof.
    apply NoDup_Permutation; [apply union_NoDup | apply union_NoDup |].
    intros x. rewrite !union_spec. tauto.
  Qed.
  Theorem union_unique_perm l : Permutation (union l l) (unique l).
  Proof.
    apply NoDup_Permutation; [apply union_NoDup | apply unique_NoDup |].
    intros x. rewrite union_spec, unique_spec. tauto.
  Qed.

  Theorem difference_spec l1 l2 a : In a (difference l1 l2) <-> In a l1 /\ ~ In a l2.
  Proof.
    unfold difference. rewrite filter_In, negb_true_iff. fold (include l2 a). rewrite include_false. tauto.
  Qed.
  Theorem intersect_spec l1 l2 a : In a (intersect l1 l2) <-> In a l1 /\ In a l2.
  Proof. unfold intersect. rewrite filter_In. fold (include l1 a). rewrite include_spec. tauto. Qed.

  (* order and multiplicity: Difference is l1 with exactly the occurrences of members of l2 deleted *)
  Theorem difference_nil l2 : difference [] l2 = [].
  Proof. reflexivity. Qed.
  Theorem difference_cons_in x l1 l2 : In x l2 -> difference (x :: l1) l2 = difference l1 l2.
  Proof. intros H. unfold difference. cbn. apply (memb_In eqb eqb_spec) in H. now rewrite H. Qed.
  Theorem difference_cons_notin x l1 l2 : ~ In x l2 -> difference (x :: l1) l2 = x :: difference l1 l2.
  Proof.
    intros H. unfold difference. cbn. destruct (memb eqb x l2) eqn:E; [apply (memb_In eqb eqb_spec) in E; contradiction|reflexivity].
  Qed.
  Theorem difference_app l1 l1' l2 : difference (l1 ++ l1') l2 = difference l1 l2 ++ difference l1' l2.
  Proof. unfold difference. apply filter_app. Qed.
  (* the same for Intersect, which follows l2 *)
  Theorem intersect_nil l1 : intersect l1 [] = [].
  Proof. reflexivity. Qed.
  Theorem intersect_cons_in x l1 l2 : In x l1 -> intersect l1 (x :: l2) = x :: intersect l1 l2.
  Proof. intros H. unfold intersect. cbn. apply (memb_In eqb eqb_spec) in H. now rewrite H. Qed.
  Theorem intersect_cons_notin x l1 l2 : ~ In x l1 -> intersect l1 (x :: l2) = intersect l1 l2.
  Proof.
    intros H. unfold intersect. cbn. destruct (memb eqb x l1) eqn:E; [apply (memb_In eqb eqb_spec) in E; contradiction|reflexivity].
  Qed.
  Theorem intersect_app l1 l2 l2' : intersect l1 (l2 ++ l2') = intersect l1 l2 ++ intersect l1 l2'.
  Proof. unfold intersect. apply filter_app. Qed.

  Theorem difference_order_multiplicity l1 l1' l2 x :
    difference [] l2 = [] /\
    difference (l1 ++ l1') l2 = difference l1 l2 ++ difference l1' l2 /\
    (In x l2 -> difference (x :: l1) l2 = difference l1 l2) /\
    (~ In x l2 -> difference (x :: l1) l2 = x :: difference l1 l2).
  Proof.
    exact (conj (difference_nil l2) (conj (difference_app l1 l1' l2) (conj (difference_cons_in x l1 l2) (difference_cons_notin x l1 l2)))).
  Qed.
  Theorem intersect_order_multiplicity l1 l2 l2' x :
    intersect l1 [] = [] /\
    intersect l1 (l2 ++ l2') = intersect l1 l2 ++ intersect l1 l2' /\
    (In x l1 -> intersect l1 (x :: l2) = x :: intersect l1 l2) /\
    (~ In x l1 -> intersect l1 (x :: l2) = intersect l1 l2).
  Proof.
    exact (conj (intersect_nil l1) (conj (intersect_app l1 l2 l2') (conj (intersect_cons_in x l1 l2) (intersect_cons_notin x l1 l2)))).
  Qed.
  (* the two filters split l1: every occurrence goes to exactly one side *)
  Theorem difference_intersect_partition l1 l2 :
    Permutation (difference l1 l2 ++ intersect l2 l1) l1.
  Proof.
    unfold difference, intersect. induction l1 as [|a r IH]; cbn; [constructor|].
    destruct (memb eqb a l2); cbn.
    - apply Permutation_sym, Permutation_cons_app, Permutation_sym, IH.
    - now constructor.
  Qed.
  Theorem difference_NoDup l1 l2 : NoDup l1 -> NoDup (difference l1 l2).
  Proof. apply NoDup_filter. Qed.
  Theorem intersect_NoDup l1 l2 : NoDup l2 -> NoDup (intersect l1 l2).
  Proof. apply NoDup_filter. Qed.
  Theorem difference_self l : difference l l = [].
  Proof.
    destruct (difference l l) as [|x r] eqn:E; [reflexivity|].
    assert (H : In x (difference l l)) by (rewrite E; now left). apply difference_spec in H. tauto.
  Qed.
  Theorem difference_empty_r l : difference l [] = l.
  Proof. unfold difference. cbn. induction l as [|a r IH]; cbn; congruence. Qed.

  (* ---- boolean checkers used at run time on the implementation's outputs, and their meaning ---- *)
  (* o is duplicate free and has exactly the members of l *)
  Definition subsetb (a b : list A) : bool := forallb (fun x => memb eqb x b) a.
  Definition nodup_b (l : list A) : bool := Nat.eqb (List.length (nodupb eqb l)) (List.length l).
  Definition is_set_of (l o : list A) : bool := nodup_b o && subsetb o l && subsetb l o.

  Lemma subsetb_spec a b : subsetb a b = true <-> (forall x, In x a -> In x b).
  Proof.
    unfold subsetb. rewrite forallb_forall. split; intros H x Hx.
    - apply (memb_In eqb eqb_spec), H, Hx.
    - apply (memb_In eqb eqb_spec), H, Hx.
  Qed.
  Lemma nodupb_length_le l : (List.length (nodupb eqb l) <= List.length l)%nat.
  Proof. induction l as [|a r IH]; cbn; [lia|]. destruct (memb eqb a r); cbn; lia. Qed.
  Lemma nodup_b_spec l : nodup_b l = true <-> NoDup l.
  Proof.
    unfold nodup_b. rewrite Nat.eqb_eq. split.
    - induction l as [|a r IH]; cbn; [constructor|]. destruct (memb eqb a r) eqn:E.
      + pose proof (nodupb_length_le r). lia.
      + cbn. intros [= H]. constructor; [|auto]. intros Hin. apply (memb_In eqb eqb_spec) in Hin. congruence.
    - intros H. now rewrite (nodupb_id eqb eqb_spec l H).
  Qed.
  Theorem is_set_of_spec l o : is_set_of l o = true <-> NoDup o /\ forall x, In x o <-> In x l.
  Proof.
    unfold is_set_of. rewrite !andb_true_iff, nodup_b_spec, !subsetb_spec. split.
    - intros [[H1 H2] H3]. split; [exact H1|]. intros x. split; auto.
    - intros [H1 H2]. repeat split; [exact H1| |]; intros x; apply H2.
  Qed.
  (* hence: the checker accepts exactly the outputs the model can produce under some order oracle *)
  Theorem is_set_of_unique l o : is_set_of l o = true <-> Permutation o (nodupb eqb l).
  Proof.
    rewrite is_set_of_spec. split.
    - intros [H1 H2]. apply NoDup_Permutation; [exact H1 | apply nodupb_NoDup, eqb_spec |].
      intros x. rewrite H2. symmetry. apply nodupb_In, eqb_spec.
    - intros H. split.
      + eapply Permutation_NoDup; [apply Permutation_sym, H | apply nodupb_NoDup, eqb_spec].
      + intros x. rewrite <- (nodupb_In eqb eqb_spec x l). split; apply Permutation_in; [exact H | now apply Permutation_sym].
  Qed.
  (* o = filter keep l, decided by walking both lists (used for Difference / Intersect, whose order and multiplicity are fixed) *)
  Fixpoint follows (keep : A -> bool) (l o : list A) : bool :=
    match l with
    | [] => match o with [] => true | _ => false end
    | x :: r => if keep x then match o with y :: o' => eqb x y && follows keep r o' | [] => false end else follows keep r o
    end.
  Theorem follows_spec keep l : forall o, follows keep l o = true <-> o = filter keep l.
  Proof.
    induction l as [|x r IH]; intros o; cbn.
    - destruct o; split; congruence.
    - destruct (keep x).
      + destruct o as [|y o']; [split; congruence|]. rewrite andb_true_iff, IH.
        destruct (eqb_spec x y) as [->|N].
        * split; [intros [_ ->]; reflexivity | intros [= ->]; auto].
        * split; [intros [H _]; discriminate | intros [= E _]; congruence].
      + apply IH.
  Qed.
  Theorem follows_difference l1 l2 o : follows (fun x => negb (memb eqb x l2)) l1 o = true <-> o = difference l1 l2.
  Proof. apply follows_spec. Qed.
  Theorem follows_intersect l1 l2 o : follows (fun x => memb eqb x l1) l2 o = true <-> o = intersect l1 l2.
  Proof. apply follows_spec. Qed.
End SetOps.

(* ---- common.Max / common.Min at int64 (Z) ---- *)
Open Scope Z_scope.
Definition fmax (l : list Z) (m : Z) : Z := fold_left (fun m x => if m <? x then x else m) l m.
Definition fmin (l : list Z) (m : Z) : Z := fold_left (fun m x => if m >? x then x else m) l m.
(* `max := numbers[0]; for _, number := range numbers { if max < number { max = number } }`; empty slice => error *)
Definition maxl (l : list Z) : result Z := match l with [] => Err | a :: r => Ok (fmax (a :: r) a) end.
Definition minl (l : list Z) : result Z := match l with [] => Err | a :: r => Ok (fmin (a :: r) a) end.

Lemma fmax_spec l : forall m, m <= fmax l m /\ (forall x, In x l -> x <= fmax l m) /\ (fmax l m = m \/ In (fmax l m) l).
Proof.
  unfold fmax. induction l as [|a r IH]; intros m; cbn [fold_left]; [repeat split; [lia|intros x []|now left]|].
  destruct (IH (if m <? a then a else m)) as (H1 & H2 & H3).
  destruct (Z.ltb_spec m a).
  - repeat split; [lia| intros x [<-|Hx]; [lia|auto] | destruct H3 as [H3|H3]; [right; left; now rewrite H3 | right; now right]].
  - repeat split; [lia| intros x [<-|Hx]; [lia|auto] | destruct H3 as [H3|H3]; [left; exact H3 | right; now right]].
Qed.
Lemma fmin_spec l : forall m, fmin l m <= m /\ (forall x, In x l -> fmin l m <= x) /\ (fmin l m = m \/ In (fmin l m) l).
Proof.
  unfold fmin. induction l as [|a r IH]; intros m; cbn [fold_left]; [repeat split; [lia|intros x []|now left]|].
  destruct (IH (if m >? a then a else m)) as (H1 & H2 & H3).
  destruct (Z.gtb_spec m a).
  - repeat split; [lia| intros x [<-|Hx]; [lia|auto] | destruct H3 as [H3|H3]; [right; left; now rewrite H3 | right; now right]].
  - repeat split; [lia| intros x [<-|Hx]; [lia|auto] | destruct H3 as [H3|H3]; [left; exact H3 | right; now right]].
Qed.
Theorem maxl_spec l m : maxl l = Ok m -> In m l /\ forall x, In x l -> x <= m.
Proof.
  destruct l as [|a r]; [discriminate|]. unfold maxl. generalize (fmax_spec (a :: r) a). generalize (fmax (a :: r) a).
  intros z (H1 & H2 & H3) [= <-]. split; [|exact H2]. destruct H3 as [->|H3]; [now left|exact H3].
Qed.
Theorem minl_spec l m : minl l = Ok m -> In m l /\ forall x, In x l -> m <= x.
Proof.
  destruct l as [|a r]; [discriminate|]. unfold minl. generalize (fmin_spec (a :: r) a). generalize (fmin (a :: r) a).
  intros z (H1 & H2 & H3) [= <-]. split; [|exact H2]. destruct H3 as [->|H3]; [now left|exact H3].
Qed.
Theorem maxl_err l : maxl l = Err <-> l = [].
Proof. destruct l; cbn; split; congruence. Qed.
Theorem minl_err l : minl l = Err <-> l = [].
Proof. destruct l; cbn; split; congruence. Qed.
(* the value is determined by the two laws (so "an element bounding all others" fixes the result) *)
Theorem max_unique l m m' : In m l -> (forall x, In x l -> x <= m) -> In m' l -> (forall x, In x l -> x <= m') -> m = m'.
Proof. intros H1 H2 H3 H4. pose proof (H2 _ H3). pose proof (H4 _ H1). lia. Qed.

Definition check_max (l : list Z) (o : Z) : bool := memb Z.eqb o l && forallb (fun x => x <=? o) l.
Definition check_min (l : list Z) (o : Z) : bool := memb Z.eqb o l && forallb (fun x => o <=? x) l.
Theorem check_max_spec l o : check_max l o = true <-> In o l /\ forall x, In x l -> x <= o.
Proof.
  unfold check_max. rewrite andb_true_iff, (memb_In Z.eqb Z.eqb_spec), forallb_forall.
  split; intros [H1 H2]; (split; [exact H1|]); intros x Hx; apply Z.leb_le; auto.
Qed.
Theorem check_min_spec l o : check_min l o = true <-> In o l /\ forall x, In x l -> o <= x.
Proof.
  unfold check_min. rewrite andb_true_iff, (memb_In Z.eqb Z.eqb_spec), forallb_forall.
  split; intros [H1 H2]; (split; [exact H1|]); intros x Hx; apply Z.leb_le; auto.
Qed.
Theorem check_max_model l o : l <> [] -> (check_max l o = true <-> maxl l = Ok o).
Proof.
  intros Hl. rewrite check_max_spec. split.
  - intros [H1 H2]. destruct (maxl l) as [m|] eqn:E; [|apply maxl_err in E; contradiction].
    destruct (maxl_spec _ _ E) as [H3 H4]. f_equal. eapply max_unique; eauto.
  - apply maxl_spec.
Qed.
Theorem check_min_model l o : l <> [] -> (check_min l o = true <-> minl l = Ok o).
Proof.
  intros Hl. rewrite check_min_spec. split.
  - intros [H1 H2]. destruct (minl l) as [m|] eqn:E; [|apply minl_err in E; contradiction].
    destruct (minl_spec _ _ E) as [H3 H4]. f_equal. pose proof (H2 _ H3). pose proof (H4 _ H1). lia.
  - apply minl_spec.
Qed.

(* ---- common.CalculateArithmeticShift = floor (index * 2^shift), both signs of both arguments ---- *)
(* o = floor(i * 2^s)  <=>  o <= i * 2^s < o + 1; multiplied out so that no division occurs *)
Definition is_floor_shift (i s o : Z) : Prop :=
  if 0 <=? s then o = i * 2 ^ s else o * 2 ^ (- s) <= i < (o + 1) * 2 ^ (- s).
Definition check_ashift (i s o : Z) : bool :=
  if 0 <=? s then o =? i * 2 ^ s else (o * 2 ^ (- s) <=? i) && (i <? (o + 1) * 2 ^ (- s)).
Theorem check_ashift_spec i s o : check_ashift i s o = true <-> is_floor_shift i s o.
Proof.
  unfold check_ashift, is_floor_shift. destruct (0 <=? s); [apply Z.eqb_eq|].
  rewrite andb_true_iff, Z.leb_le, Z.ltb_lt. tauto.
Qed.
Theorem ashift_is_floor i s : is_floor_shift i s (ashift i s).
Proof.
  unfold is_floor_shift. destruct (Z.leb_spec 0 s) as [H|H].
  - apply ashift_nonneg, H.
  - rewrite ashift_neg by lia. apply (desc_iff (- s) (i / 2 ^ (- s)) i); [lia|reflexivity].
Qed.
Theorem is_floor_shift_unique i s o : is_floor_shift i s o <-> o = ashift i s.
Proof.
  split; [|intros ->; apply ashift_is_floor].
  unfold is_floor_shift. destruct (Z.leb_spec 0 s) as [H|H].
  - intros ->. symmetry. apply ashift_nonneg, H.
  - intros Hf. rewrite ashift_neg by lia. symmetry. apply (desc_iff (- s) o i); [lia|exact Hf].
Qed.
Theorem ashift_right_floor i s : s < 0 -> ashift i s * 2 ^ (- s) <= i < (ashift i s + 1) * 2 ^ (- s).
Proof. intros H. pose proof (ashift_is_floor i s) as F. unfold is_floor_shift in F. destruct (Z.leb_spec 0 s); [lia|exact F]. Qed.
Theorem check_ashift_model i s o : check_ashift i s o = true <-> o = ashift i s.
Proof. rewrite check_ashift_spec. apply is_floor_shift_unique. Qed.
(* negative index with negative shift rounds toward minus infinity, not toward zero: -1 >> k = -1, and truncation differs *)
Theorem ashift_neg1 s : s <= 0 -> ashift (-1) s = -1.
Proof. intros H. rewrite ashift_neg by exact H. apply anc_neg1. lia. Qed.
Theorem ashift_not_truncation : ashift (-3) (-1) = -2 /\ Z.quot (-3) (2 ^ 1) = -1.
Proof. split; reflexivity. Qed.
(* on the property's domain (result representable) the unbounded model is what the 64-bit code computes: no wrap-around *)
Theorem ashift_in_int64 i s : s <= 0 -> - 2 ^ 63 <= i < 2 ^ 63 -> - 2 ^ 63 <= ashift i s < 2 ^ 63.
Proof.
  intros Hs Hi. rewrite ashift_neg by exact Hs. assert (0 < 2 ^ (- s)) by (apply pow2_pos; lia).
  split.
  - apply Z.div_le_lower_bound; [lia|]. nia.
  - apply Z.div_lt_upper_bound; [lia|]. nia.
Qed.

(* ---- instances used by the executable dispatch entries (int64 and string); map order := first-occurrence order ---- *)
Module ZOrder <: TotalLeBool.
  Definition t := Z.
  Definition leb := Z.leb.
  Theorem leb_total : forall a b, leb a b = true \/ leb b a = true.
  Proof. intros a b. unfold leb. rewrite !Z.leb_le. lia. Qed.
End ZOrder.
Module ZSort := Sort ZOrder.
Definition sort_Z (l : list Z) : list Z := ZSort.sort l.
Lemma sort_Z_perm l : Permutation (sort_Z l) l.
Proof. apply Permutation_sym, ZSort.Permuted_sort. Qed.
Definition same_list_Z (a b : list Z) : bool := list_eqb Z.eqb a b.
(* equal as multisets *)
Definition same_bag_Z (a b : list Z) : bool := same_list_Z (sort_Z a) (sort_Z b).
Definition same_bag_S (a b : list string) : bool := same_list (sort_strings a) (sort_strings b).
Lemma same_list_Z_eq a b : same_list_Z a b = true <-> a = b.
Proof. unfold same_list_Z. destruct (list_eqb_spec Z.eqb Z.eqb_spec a b); split; congruence. Qed.
Theorem same_bag_Z_perm a b : same_bag_Z a b = true -> Permutation a b.
Proof.
  unfold same_bag_Z. rewrite same_list_Z_eq. intros H.
  rewrite <- (sort_Z_perm a), <- (sort_Z_perm b), H. reflexivity.
Qed.
Theorem same_bag_S_perm a b : same_bag_S a b = true -> Permutation a b.
Proof.
  unfold same_bag_S, same_list. intros H.
  destruct (list_eqb_spec String.eqb String.eqb_spec (sort_strings a) (sort_strings b)) as [E|]; [|discriminate].
  rewrite <- (sort_strings_perm a), <- (sort_strings_perm b), E. reflexivity.
Qed.
