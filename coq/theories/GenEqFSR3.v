(* GenEqFSR3.v — gonum spatial/r3 (the version go.mod requires, read from the module cache) regenerated = the vector primitives of VecF.v. *)
From Coq Require Import ZArith Bool Floats.
From SIDGen Require Import GeneratedF GeneratedFS.
From SID Require Import F64 VecF GenFTac GenEqFSTac.
Open Scope float_scope.

(* gonum r3 (v0.15.1 in go.mod) *)
Lemma gen_r3_Add_eq : forall p q, GeneratedFS.r3_Add (tv p) (tv q) = tv (fadd p q).
Proof. gen_fs ltac:(unfold fadd). Qed.
Lemma gen_r3_Sub_eq : forall p q, GeneratedFS.r3_Sub (tv p) (tv q) = tv (fsub p q).
Proof. gen_fs ltac:(unfold fsub). Qed.
Lemma gen_r3_Scale_eq : forall f p, GeneratedFS.r3_Scale f (tv p) = tv (fscale f p).
Proof. gen_fs ltac:(unfold fscale). Qed.
Lemma gen_r3_Dot_eq : forall p q, GeneratedFS.r3_Dot (tv p) (tv q) = fdot p q.
Proof. gen_fs ltac:(unfold fdot). Qed.
Lemma gen_r3_Cross_eq : forall p q, GeneratedFS.r3_Cross (tv p) (tv q) = tv (fcross p q).
Proof. gen_fs ltac:(unfold fcross). Qed.
Lemma gen_r3_Norm_eq : forall M p, GeneratedFS.r3_Norm M (tv p) = fnorm (m_hypot M) p.
Proof. gen_fs ltac:(unfold fnorm). Qed.
Lemma gen_r3_Unit_eq : forall M p, GeneratedFS.r3_Unit M (tv p) = tv (funit (m_hypot M) p).
Proof. gen_fs ltac:(unfold funit, fnanv, fscale, fnorm). Qed.
Lemma gen_r3_Cos_eq : forall M p q, GeneratedFS.r3_Cos M (tv p) (tv q) = fcosv (m_hypot M) p q.
Proof. gen_fs ltac:(unfold fcosv, fdot, fnorm). Qed.

