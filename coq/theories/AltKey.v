(* AltKey.v — property C12: the altitude-key conversions never lose altitude and are exact where they can be.

   Go code:  transform/convert_quadkey_and_Vertical_id.go
               ConvertZToMinMaxAltitudekey (repaired by 84c8b2c), ConvertAltitudekeyToMinMaxZ, convertZToMinAltitudekey, validateIndexExists
             common/util.go CalculateArithmeticShift, common/consts/consts.go ZOriginValue = 25
   Models:   AltKeyCore.v (index_exists, z2key, z2minkey, key2z over unbounded Z)  +  the int64 models of this file (z2key64 ...), which
             wrap around exactly like Go and are proved equal to the unbounded ones whenever no intermediate value leaves int64.

   Vocabulary.  A *scale* (zoom z, base exponent E, base offset O) cuts the altitude axis into cells; cell i is the half-open interval
        [ i * 2^(E-z) - O ,  (i+1) * 2^(E-z) - O )   metres               (1 m tall at zoom E, index O at 0 m for z = E)
   The spatial-ID altitude scale at zoom z is (z, 25, 0) with signed indices -2^z .. 2^z-1; an altitude-key scale is (z, E, O) with
   indices 0 .. 2^z-1.  `pos t a` is the coordinate of altitude a on scale t (cell j of t = { a | j <= pos t a < j+1 }).

   For a source interval [A,B) and a target scale t:
        exact cover    cov_min = floor(pos t A),            cov_max = ceil(pos t B) - 1
        widened cover  wid_min = floor(pos t (floor A)),    wid_max = ceil(pos t (ceil B)) - 1       (A, B widened outward to whole metres)
   All statements are over the reals (Flocq's Zfloor/Zceil); the run-time checker `check_conv` is integer-only and proved equivalent. *)
From Coq Require Import ZArith Reals Lia Lra Bool List.
From Flocq Require Import Core.
From SID Require Import Base AltKeyCore.
Import ListNotations.
Open Scope Z_scope.

(* ------------------------------------------------------------------------------------------------------------------------------ *)
(** * 1. Reals: powers of two, floor/ceil of dyadics                                                                                *)

Lemma IZR_pow2 d : 0 <= d -> IZR (2 ^ d) = bpow radix2 d.
Proof. intros H. rewrite <- IZR_Zpower by exact H. reflexivity. Qed.

Lemma bpow_pos2 e : (0 < bpow radix2 e)%R.
Proof. apply bpow_gt_0. Qed.

Lemma bpow_inv_l e : (bpow radix2 e * bpow radix2 (- e) = 1)%R.
Proof. rewrite <- bpow_plus. replace (e + - e) with 0 by lia. reflexivity. Qed.

(* the signed shift is floor(i * 2^s) for either sign of i and s *)
Lemma ashift_floor i s : ashift i s = Zfloor (IZR i * bpow radix2 s).
Proof.
  unfold ashift. destruct (Z.leb_spec 0 s) as [H|H].
  - rewrite Z.shiftl_mul_pow2 by lia. rewrite <- IZR_pow2 by lia. rewrite <- mult_IZR. now rewrite Zfloor_IZR.
  - rewrite Z.shiftr_div_pow2 by lia. symmetry. apply Zfloor_imp.
    assert (Hp : 0 < 2 ^ (- s)) by (apply Z.pow_pos_nonneg; lia).
    pose proof (Z.div_mod i (2 ^ (- s)) ltac:(lia)) as Hdm.
    pose proof (Z.mod_pos_bound i (2 ^ (- s)) Hp) as Hm.
    set (q := i / 2 ^ (- s)) in *.
    assert (E : bpow radix2 s = (/ IZR (2 ^ (- s)))%R).
    { rewrite IZR_pow2 by lia. rewrite <- bpow_opp. f_equal. lia. }
    rewrite E. assert (Hpr : (0 < IZR (2 ^ (- s)))%R) by (apply IZR_lt; exact Hp).
    assert (H1 : (IZR q * IZR (2 ^ (- s)) <= IZR i)%R) by (rewrite <- mult_IZR; apply IZR_le; lia).
    assert (H2 : (IZR i < IZR (q + 1) * IZR (2 ^ (- s)))%R) by (rewrite <- mult_IZR; apply IZR_lt; lia).
    split.
    + apply Rmult_le_reg_r with (1 := Hpr). rewrite Rmult_assoc, Rinv_l by lra. lra.
    + apply Rmult_lt_reg_r with (1 := Hpr). rewrite Rmult_assoc, Rinv_l by lra. lra.
Qed.

(* ... and  - ashift (-i) s  is ceil(i * 2^s) *)
Lemma ashift_ceil i s : - ashift (- i) s = Zceil (IZR i * bpow radix2 s).
Proof. unfold Zceil. rewrite ashift_floor. rewrite opp_IZR. now rewrite Ropp_mult_distr_l. Qed.

Lemma Zfloor_ge_iff (m : Z) (x : R) : m <= Zfloor x <-> (IZR m <= x)%R.
Proof.
  split.
  - intros H. apply Rle_trans with (IZR (Zfloor x)); [apply IZR_le; exact H|apply Zfloor_lb].
  - apply Zfloor_lub.
Qed.
Lemma Zfloor_lt_iff (m : Z) (x : R) : Zfloor x < m <-> (x < IZR m)%R.
Proof.
  split.
  - intros H. apply Rlt_le_trans with (IZR (Zfloor x) + 1)%R; [apply Zfloor_ub|]. rewrite <- plus_IZR. apply IZR_le. lia.
  - intros H. destruct (Z_lt_le_dec (Zfloor x) m) as [L|L]; [exact L|]. exfalso.
    apply Zfloor_ge_iff in L. lra.
Qed.
Lemma Zceil_le_iff (m : Z) (x : R) : Zceil x <= m <-> (x <= IZR m)%R.
Proof.
  split.
  - intros H. apply Rle_trans with (IZR (Zceil x)); [apply Zceil_ub|apply IZR_le; exact H].
  - apply Zceil_glb.
Qed.
Lemma Zceil_gt_iff (m : Z) (x : R) : m < Zceil x <-> (IZR m < x)%R.
Proof.
  split.
  - intros H. destruct (Rlt_or_le (IZR m) x) as [L|L]; [exact L|]. exfalso. apply Zceil_le_iff in L. lia.
  - intros H. destruct (Z_lt_le_dec m (Zceil x)) as [L|L]; [exact L|]. exfalso. apply Zceil_le_iff in L. lra.
Qed.

Lemma Zfloor_plus_IZR (x : R) (n : Z) : Zfloor (x + IZR n) = Zfloor x + n.
Proof.
  apply Zfloor_imp. rewrite !plus_IZR. pose proof (Zfloor_lb x). pose proof (Zfloor_ub x). lra.
Qed.
Lemma Zceil_plus_IZR (x : R) (n : Z) : Zceil (x + IZR n) = Zceil x + n.
Proof.
  unfold Zceil. replace (- (x + IZR n))%R with (- x + IZR (- n))%R by (rewrite opp_IZR; ring).
  rewrite Zfloor_plus_IZR. lia.
Qed.

(* nested floor / ceil: rounding to an integer first is harmless when the scale is then coarsened (e <= 0) *)
Lemma nested_floor_dy (x : R) (e : Z) : e <= 0 -> Zfloor (IZR (Zfloor x) * bpow radix2 e) = Zfloor (x * bpow radix2 e).
Proof.
  intros He. apply Zfloor_imp.
  set (q := Zfloor (x * bpow radix2 e)).
  pose proof (Zfloor_lb (x * bpow radix2 e)) as Hl. pose proof (Zfloor_ub (x * bpow radix2 e)) as Hu. fold q in Hl, Hu.
  pose proof (bpow_pos2 e) as Hpe. pose proof (bpow_pos2 (- e)) as Hpm. pose proof (bpow_inv_l e) as Hi.
  assert (Em : bpow radix2 (- e) = IZR (2 ^ (- e))) by (rewrite IZR_pow2 by lia; reflexivity).
  (* q * 2^-e <= x, an integer, hence <= floor x *)
  assert (H1 : (IZR (q * 2 ^ (- e)) <= x)%R).
  { rewrite mult_IZR, <- Em. apply Rmult_le_reg_r with (1 := Hpe). rewrite Rmult_assoc, (Rmult_comm (bpow radix2 (- e))), Hi. lra. }
  apply Zfloor_lub in H1.
  split.
  - apply Rmult_le_reg_r with (1 := Hpm). rewrite Rmult_assoc, Hi, Rmult_1_r. rewrite Em, <- mult_IZR. apply IZR_le. exact H1.
  - apply Rle_lt_trans with (x * bpow radix2 e)%R; [|rewrite plus_IZR; exact Hu].
    apply Rmult_le_compat_r; [lra|apply Zfloor_lb].
Qed.
Lemma nested_ceil_dy (x : R) (e : Z) : e <= 0 -> Zceil (IZR (Zceil x) * bpow radix2 e) = Zceil (x * bpow radix2 e).
Proof.
  intros He. unfold Zceil at 1 3. f_equal.
  replace (- (IZR (Zceil x) * bpow radix2 e))%R with (IZR (Zfloor (- x)) * bpow radix2 e)%R
    by (unfold Zceil; rewrite opp_IZR; ring).
  rewrite nested_floor_dy by exact He. f_equal. ring.
Qed.

(* coverage: an integer cell k = [k,k+1) meets the interval [lo,hi) iff floor lo <= k <= ceil hi - 1 *)
Lemma cover_iff (lo hi : R) (k : Z) : (lo < hi)%R ->
  ((IZR k < hi)%R /\ (lo < IZR k + 1)%R) <-> (Zfloor lo <= k <= Zceil hi - 1).
Proof.
  intros Hlh. rewrite <- plus_IZR. rewrite <- Zceil_gt_iff, <- Zfloor_lt_iff. lia.
Qed.

(* comparing an integer with a dyadic n * 2^e by integer arithmetic only *)
Definition zle_dy (m n e : Z) : bool := m * 2 ^ Z.max 0 (- e) <=? n * 2 ^ Z.max 0 e.     (* m <= n * 2^e *)
Definition zlt_dy (m n e : Z) : bool := m * 2 ^ Z.max 0 (- e) <? n * 2 ^ Z.max 0 e.      (* m <  n * 2^e *)
Definition dy_le_z (n e m : Z) : bool := n * 2 ^ Z.max 0 e <=? m * 2 ^ Z.max 0 (- e).    (* n * 2^e <= m *)
Definition dy_lt_z (n e m : Z) : bool := n * 2 ^ Z.max 0 e <? m * 2 ^ Z.max 0 (- e).     (* n * 2^e <  m *)

Lemma dy_scale (m n e : Z) :
  (IZR m * bpow radix2 (Z.max 0 (- e)) = IZR (m * 2 ^ Z.max 0 (- e)))%R /\
  (IZR n * bpow radix2 e * bpow radix2 (Z.max 0 (- e)) = IZR (n * 2 ^ Z.max 0 e))%R.
Proof.
  split.
  - rewrite mult_IZR, IZR_pow2 by lia. reflexivity.
  - rewrite mult_IZR, IZR_pow2 by lia. rewrite Rmult_assoc, <- bpow_plus. do 2 f_equal. lia.
Qed.
Lemma zle_dy_spec m n e : zle_dy m n e = true <-> (IZR m <= IZR n * bpow radix2 e)%R.
Proof.
  unfold zle_dy. rewrite Z.leb_le. destruct (dy_scale m n e) as [E1 E2]. pose proof (bpow_pos2 (Z.max 0 (- e))) as Hp. split.
  - intros H. apply IZR_le in H. rewrite <- E1, <- E2 in H. apply Rmult_le_reg_r with (1 := Hp). exact H.
  - intros H. apply le_IZR. rewrite <- E1, <- E2. apply Rmult_le_compat_r; [lra|exact H].
Qed.
Lemma zlt_dy_spec m n e : zlt_dy m n e = true <-> (IZR m < IZR n * bpow radix2 e)%R.
Proof.
  unfold zlt_dy. rewrite Z.ltb_lt. destruct (dy_scale m n e) as [E1 E2]. pose proof (bpow_pos2 (Z.max 0 (- e))) as Hp. split.
  - intros H. apply IZR_lt in H. rewrite <- E1, <- E2 in H. apply Rmult_lt_reg_r with (1 := Hp). exact H.
  - intros H. apply lt_IZR. rewrite <- E1, <- E2. apply Rmult_lt_compat_r; [lra|exact H].
Qed.
Lemma dy_le_z_spec n e m : dy_le_z n e m = true <-> (IZR n * bpow radix2 e <= IZR m)%R.
Proof.
  unfold dy_le_z. rewrite Z.leb_le. destruct (dy_scale m n e) as [E1 E2]. pose proof (bpow_pos2 (Z.max 0 (- e))) as Hp. split.
  - intros H. apply IZR_le in H. rewrite <- E1, <- E2 in H. apply Rmult_le_reg_r with (1 := Hp). exact H.
  - intros H. apply le_IZR. rewrite <- E1, <- E2. apply Rmult_le_compat_r; [lra|exact H].
Qed.
Lemma dy_lt_z_spec n e m : dy_lt_z n e m = true <-> (IZR n * bpow radix2 e < IZR m)%R.
Proof.
  unfold dy_lt_z. rewrite Z.ltb_lt. destruct (dy_scale m n e) as [E1 E2]. pose proof (bpow_pos2 (Z.max 0 (- e))) as Hp. split.
  - intros H. apply IZR_lt in H. rewrite <- E1, <- E2 in H. apply Rmult_lt_reg_r with (1 := Hp). exact H.
  - intros H. apply lt_IZR. rewrite <- E1, <- E2. apply Rmult_lt_compat_r; [lra|exact H].
Qed.

(* ------------------------------------------------------------------------------------------------------------------------------ *)
(** * 2. Scales, cells, covers (specification)                                                                                      *)

Record scale := mkscale { sz : Z;        (* zoom level *)
                          se : Z;        (* base exponent: the zoom at which cells are 1 m tall *)
                          so : Z;        (* base offset: index of altitude 0 m at zoom = base exponent *)
                          sneg : bool }. (* true: indices -2^z .. 2^z-1 (spatial-ID f), false: 0 .. 2^z-1 (altitude key) *)
Definition sid_scale (z : Z) : scale := mkscale z zorigin 0 true.              (* spatial-ID altitude axis: 1 m at zoom 25, index 0 at 0 m *)
Definition key_scale (z E O : Z) : scale := mkscale z E O false.

Definition cell_lo (s : scale) (i : Z) : R := (IZR i * bpow radix2 (se s - sz s) - IZR (so s))%R.     (* metres *)
Definition cell_hi (s : scale) (i : Z) : R := cell_lo s (i + 1).
Definition pos (t : scale) (a : R) : R := ((a + IZR (so t)) * bpow radix2 (sz t - se t))%R.
(* index range of a scale. NB: in Coq 2^z = 0 for z < 0, so at a negative zoom no index is in range — exactly what the code does. *)
Definition in_range (s : scale) (i : Z) : Prop := (if sneg s then - 2 ^ sz s else 0) <= i < 2 ^ sz s.
Definition in_rangeb (s : scale) (i : Z) : bool := ((if sneg s then - 2 ^ sz s else 0) <=? i) && (i <? 2 ^ sz s).

Definition cov_min (t : scale) (A : R) : Z := Zfloor (pos t A).
Definition cov_max (t : scale) (B : R) : Z := Zceil (pos t B) - 1.
Definition wid_min (t : scale) (A : R) : Z := Zfloor (pos t (IZR (Zfloor A))).
Definition wid_max (t : scale) (B : R) : Z := Zceil (pos t (IZR (Zceil B))) - 1.

(* altitude a lies in cell j of scale t *)
Definition in_cell (t : scale) (j : Z) (a : R) : Prop := (cell_lo t j <= a < cell_hi t j)%R.

(* both zoom levels are in the documented range 0..35 (shape.CheckZoom, applied by the two exported conversions since 9dab435) *)
Definition zooms_ok (s t : scale) : Prop := 0 <= sz s <= 35 /\ 0 <= sz t <= 35.
Definition zooms_okb (s t : scale) : bool := zoom_ok (sz s) && zoom_ok (sz t).

(* what a conversion of cell i of scale s to scale t may return *)
Definition conv_spec (s : scale) (i : Z) (t : scale) (r : result (Z * Z)) : Prop :=
  let A := cell_lo s i in let B := cell_hi s i in
  match r with
  | Ok (mn, mx) => zooms_ok s t /\ in_range s i /\ in_range t mn /\ in_range t mx /\ mn <= mx /\
                   wid_min t A <= mn <= cov_min t A /\ cov_max t B <= mx <= wid_max t B
  | Err => ~ (zooms_ok s t /\ in_range s i /\ in_range t (wid_min t A) /\ in_range t (wid_max t B))
  end.

Lemma zoom_ok_spec z : zoom_ok z = true <-> 0 <= z <= 35.
Proof. unfold zoom_ok. rewrite andb_true_iff, !Z.leb_le. tauto. Qed.
Lemma zooms_okb_spec s t : zooms_okb s t = true <-> zooms_ok s t.
Proof. unfold zooms_okb, zooms_ok. rewrite andb_true_iff, !zoom_ok_spec. tauto. Qed.

Lemma in_rangeb_spec s i : in_rangeb s i = true <-> in_range s i.
Proof. unfold in_rangeb, in_range. rewrite andb_true_iff, Z.leb_le, Z.ltb_lt. tauto. Qed.

Lemma pos_cell_lo s i : pos s (cell_lo s i) = IZR i.
Proof.
  unfold pos, cell_lo. replace (IZR i * bpow radix2 (se s - sz s) - IZR (so s) + IZR (so s))%R with (IZR i * bpow radix2 (se s - sz s))%R by ring.
  rewrite Rmult_assoc, <- bpow_plus. replace (se s - sz s + (sz s - se s)) with 0 by lia. cbn. ring.
Qed.
Lemma pos_lt s a b : (a < b)%R <-> (pos s a < pos s b)%R.
Proof.
  unfold pos. pose proof (bpow_pos2 (sz s - se s)) as Hp. split.
  - intros H. apply Rmult_lt_compat_r; [exact Hp|lra].
  - intros H. apply Rmult_lt_reg_r in H; [lra|exact Hp].
Qed.
Lemma pos_le s a b : (a <= b)%R <-> (pos s a <= pos s b)%R.
Proof.
  unfold pos. pose proof (bpow_pos2 (sz s - se s)) as Hp. split.
  - intros H. apply Rmult_le_compat_r; [lra|lra].
  - intros H. apply Rmult_le_reg_r in H; [lra|exact Hp].
Qed.
Lemma pos_lt_mono s a b : (a < b)%R -> (pos s a < pos s b)%R.  Proof. apply pos_lt. Qed.
Lemma pos_lt_inv s a b : (pos s a < pos s b)%R -> (a < b)%R.   Proof. apply pos_lt. Qed.
Lemma pos_le_mono s a b : (a <= b)%R -> (pos s a <= pos s b)%R. Proof. apply pos_le. Qed.
Lemma pos_le_inv s a b : (pos s a <= pos s b)%R -> (a <= b)%R.  Proof. apply pos_le. Qed.
Lemma cell_lo_lt s i j : i < j -> (cell_lo s i < cell_lo s j)%R.
Proof. intros H. apply (pos_lt_inv s). rewrite !pos_cell_lo. apply IZR_lt. exact H. Qed.
Lemma cell_nonempty s i : (cell_lo s i < cell_hi s i)%R.
Proof. apply cell_lo_lt. lia. Qed.

(* cell j of t is exactly the set of altitudes whose t-coordinate floors to j *)
Lemma in_cell_iff t j a : in_cell t j a <-> Zfloor (pos t a) = j.
Proof.
  unfold in_cell, cell_hi. split.
  - intros [H1 H2]. apply Zfloor_imp. apply (pos_le_mono t) in H1. apply (pos_lt_mono t) in H2. rewrite pos_cell_lo in H1, H2. tauto.
  - intros <-. pose proof (Zfloor_lb (pos t a)) as H1. pose proof (Zfloor_ub (pos t a)) as H2. rewrite <- plus_IZR in H2.
    rewrite <- (pos_cell_lo t (Zfloor (pos t a))) in H1 at 1. rewrite <- (pos_cell_lo t (Zfloor (pos t a) + 1)) in H2.
    apply (pos_le_inv t) in H1. apply (pos_lt_inv t) in H2. tauto.
Qed.

(* ---- general facts about the covers of an interval [A,B) ---- *)
Lemma wid_min_le_cov t A : wid_min t A <= cov_min t A.
Proof. unfold wid_min, cov_min. apply Zfloor_le. apply (pos_le_mono t). apply Zfloor_lb. Qed.
Lemma cov_max_le_wid t B : cov_max t B <= wid_max t B.
Proof. unfold wid_max, cov_max. apply Z.sub_le_mono_r. apply Zceil_le. apply (pos_le_mono t). apply Zceil_ub. Qed.
Lemma cov_min_le_max t A B : (A < B)%R -> cov_min t A <= cov_max t B.
Proof.
  intros H. unfold cov_min, cov_max. apply (pos_lt_mono t) in H.
  assert (Zfloor (pos t A) < Zceil (pos t B)); [|lia].
  apply lt_IZR. apply Rle_lt_trans with (pos t A); [apply Zfloor_lb|]. apply Rlt_le_trans with (pos t B); [exact H|apply Zceil_ub].
Qed.

(* THE MEANING OF THE EXACT COVER: target cell j intersects [A,B) iff cov_min <= j <= cov_max *)
Theorem cover_meets t A B j : (A < B)%R ->
  (exists a, (A <= a < B)%R /\ in_cell t j a) <-> cov_min t A <= j <= cov_max t B.
Proof.
  intros HAB. unfold cov_min, cov_max. rewrite <- cover_iff by (apply (pos_lt_mono t); exact HAB). split.
  - intros (a & [Ha1 Ha2] & [Hc1 Hc2]). unfold cell_hi in Hc2. split.
    + apply Rle_lt_trans with (pos t a); [|apply (pos_lt_mono t); exact Ha2]. rewrite <- (pos_cell_lo t j). apply (pos_le_mono t). exact Hc1.
    + apply Rle_lt_trans with (pos t a); [apply (pos_le_mono t); exact Ha1|]. rewrite <- plus_IZR, <- (pos_cell_lo t (j + 1)). apply (pos_lt_mono t). exact Hc2.
  - intros [H1 H2]. rewrite <- plus_IZR in H2. rewrite <- (pos_cell_lo t j) in H1. rewrite <- (pos_cell_lo t (j + 1)) in H2.
    apply (pos_lt_inv t) in H1. apply (pos_lt_inv t) in H2. pose proof (cell_nonempty t j) as Hne. unfold cell_hi in Hne.
    exists (Rmax A (cell_lo t j)). unfold in_cell, cell_hi. repeat split.
    + apply Rmax_l.
    + apply Rmax_lub_lt; assumption.
    + apply Rmax_r.
    + apply Rmax_lub_lt; assumption.
Qed.

(* hence a result between the exact and the widened cover never loses altitude: every point of [A,B) falls in a returned cell *)
Corollary cover_never_loses t A B mn mx a : mn <= cov_min t A -> cov_max t B <= mx -> (A <= a < B)%R -> mn <= Zfloor (pos t a) <= mx.
Proof.
  intros H1 H2 Ha. assert (HAB : (A < B)%R) by lra.
  assert (cov_min t A <= Zfloor (pos t a) <= cov_max t B); [|lia].
  apply (cover_meets t A B _ HAB). exists a. split; [exact Ha|]. now apply in_cell_iff.
Qed.

(* ... and never reports a cell that misses the interval widened to whole metres *)
Corollary cover_within_widened t A B mn mx j : wid_min t A <= mn -> mx <= wid_max t B -> (A < B)%R -> mn <= j <= mx ->
  exists a, (IZR (Zfloor A) <= a < IZR (Zceil B))%R /\ in_cell t j a.
Proof.
  intros H1 H2 HAB Hj.
  assert (HW : (IZR (Zfloor A) < IZR (Zceil B))%R).
  { apply Rle_lt_trans with A; [apply Zfloor_lb|]. apply Rlt_le_trans with B; [exact HAB|apply Zceil_ub]. }
  apply (cover_meets t _ _ j HW). unfold wid_min, wid_max, cov_min, cov_max in *. lia.
Qed.

(* the two covers coincide when the interval has whole-metre ends, or when the target cells are at least 1 m tall *)
Lemma wid_eq_cov_min t A : (IZR (Zfloor A) = A \/ sz t <= se t) -> wid_min t A = cov_min t A.
Proof.
  unfold wid_min, cov_min. intros [H|H]; [now rewrite H|].
  unfold pos. rewrite <- plus_IZR, <- Zfloor_plus_IZR. apply nested_floor_dy. lia.
Qed.
Lemma wid_eq_cov_max t B : (IZR (Zceil B) = B \/ sz t <= se t) -> wid_max t B = cov_max t B.
Proof.
  unfold wid_max, cov_max. intros [H|H]; [now rewrite H|]. f_equal.
  unfold pos. rewrite <- plus_IZR, <- Zceil_plus_IZR. apply nested_ceil_dy. lia.
Qed.
(* cells of a scale with zoom <= base exponent (at least 1 m tall) have whole-metre ends *)
Lemma cell_lo_integer s i : sz s <= se s -> cell_lo s i = IZR (i * 2 ^ (se s - sz s) - so s).
Proof. intros H. unfold cell_lo. rewrite minus_IZR, mult_IZR, IZR_pow2 by lia. reflexivity. Qed.
Lemma wid_eq_cov s i t : (sz s <= se s \/ sz t <= se t) ->
  wid_min t (cell_lo s i) = cov_min t (cell_lo s i) /\ wid_max t (cell_hi s i) = cov_max t (cell_hi s i).
Proof.
  intros [H|H]; split.
  - apply wid_eq_cov_min. left. rewrite (cell_lo_integer s i H). now rewrite Zfloor_IZR.
  - apply wid_eq_cov_max. left. unfold cell_hi. rewrite (cell_lo_integer s (i + 1) H). now rewrite Zceil_IZR.
  - apply wid_eq_cov_min. now right.
  - apply wid_eq_cov_max. now right.
Qed.

Lemma IZR_lt_pos t j a : (IZR j < pos t a)%R <-> (cell_lo t j < a)%R.
Proof. rewrite <- (pos_cell_lo t j). symmetry. apply pos_lt. Qed.
Lemma pos_lt_IZR t a j : (pos t a < IZR j)%R <-> (a < cell_lo t j)%R.
Proof. rewrite <- (pos_cell_lo t j). symmetry. apply pos_lt. Qed.

(* MUTUAL CONSISTENCY of exact covers: j is in the exact cover of cell i on scale t iff i is in the exact cover of cell j on scale s
   (both say: the two cells intersect) *)
Theorem cover_symmetric s i t j :
  cov_min t (cell_lo s i) <= j <= cov_max t (cell_hi s i) <-> cov_min s (cell_lo t j) <= i <= cov_max s (cell_hi t j).
Proof.
  unfold cov_min, cov_max.
  rewrite <- cover_iff by (apply (pos_lt_mono t); apply cell_nonempty).
  rewrite <- cover_iff by (apply (pos_lt_mono s); apply cell_nonempty).
  rewrite <- !plus_IZR. rewrite !IZR_lt_pos, !pos_lt_IZR. unfold cell_hi. tauto.
Qed.

(* ------------------------------------------------------------------------------------------------------------------------------ *)
(** * 3. The same covers by integer arithmetic only, and the run-time checker                                                        *)

(* Everything is scaled by the common power of two 2^(cden s): the ends of source cell i, seen from scale t, are
   cnum s t i * 2^(cexp s t)  and  cnum s t (i+1) * 2^(cexp s t)  with integer numerators. *)
Definition cden (s : scale) : Z := Z.max 0 (sz s - se s).       (* fractional bits of a source cell end (0 when the cell is >= 1 m) *)
Definition cnum (s t : scale) (i : Z) : Z := i * 2 ^ (se s - sz s + cden s) + (so t - so s) * 2 ^ cden s.
Definition cexp (s t : scale) : Z := sz t - se t - cden s.
Definition floor_lo (s : scale) (i : Z) : Z := ashift i (se s - sz s) - so s.               (* floor of the lower end, whole metres *)
Definition ceil_hi (s : scale) (i : Z) : Z := - ashift (- (i + 1)) (se s - sz s) - so s.    (* ceiling of the upper end, whole metres *)
Definition cov_min_z (s t : scale) (i : Z) : Z := ashift (cnum s t i) (cexp s t).
Definition cov_max_z (s t : scale) (i : Z) : Z := - ashift (- cnum s t (i + 1)) (cexp s t) - 1.
Definition wid_min_z (s t : scale) (i : Z) : Z := ashift (floor_lo s i + so t) (sz t - se t).
Definition wid_max_z (s t : scale) (i : Z) : Z := - ashift (- (ceil_hi s i + so t)) (sz t - se t) - 1.

Lemma pos_cnum s t i : pos t (cell_lo s i) = (IZR (cnum s t i) * bpow radix2 (cexp s t))%R.
Proof.
  unfold pos, cell_lo, cnum, cexp. set (p := cden s). set (d := se s - sz s).
  assert (Hp : 0 <= p) by (unfold p, cden; lia). assert (Hdp : 0 <= d + p) by (unfold p, d, cden; lia).
  rewrite plus_IZR, !mult_IZR, minus_IZR, !IZR_pow2 by assumption.
  replace (sz t - se t - p) with ((sz t - se t) + - p) by lia. rewrite !bpow_plus.
  pose proof (bpow_inv_l p) as I.
  transitivity ((IZR i * bpow radix2 d - IZR (so s) + IZR (so t)) * bpow radix2 (sz t - se t) * (bpow radix2 p * bpow radix2 (- p)))%R.
  - rewrite I. ring.
  - ring.
Qed.
Lemma pos_IZR t n : pos t (IZR n) = (IZR (n + so t) * bpow radix2 (sz t - se t))%R.
Proof. unfold pos. now rewrite plus_IZR. Qed.
Lemma floor_lo_spec s i : Zfloor (cell_lo s i) = floor_lo s i.
Proof.
  unfold cell_lo, floor_lo. replace (IZR i * bpow radix2 (se s - sz s) - IZR (so s))%R with (IZR i * bpow radix2 (se s - sz s) + IZR (- so s))%R
    by (rewrite opp_IZR; ring).
  rewrite Zfloor_plus_IZR, <- ashift_floor. lia.
Qed.
Lemma ceil_hi_spec s i : Zceil (cell_hi s i) = ceil_hi s i.
Proof.
  unfold cell_hi, cell_lo, ceil_hi.
  replace (IZR (i + 1) * bpow radix2 (se s - sz s) - IZR (so s))%R with (IZR (i + 1) * bpow radix2 (se s - sz s) + IZR (- so s))%R
    by (rewrite opp_IZR; ring).
  rewrite Zceil_plus_IZR, <- ashift_ceil. lia.
Qed.
Lemma cov_min_z_spec s t i : cov_min t (cell_lo s i) = cov_min_z s t i.
Proof. unfold cov_min, cov_min_z. now rewrite pos_cnum, <- ashift_floor. Qed.
Lemma cov_max_z_spec s t i : cov_max t (cell_hi s i) = cov_max_z s t i.
Proof. unfold cov_max, cov_max_z, cell_hi. now rewrite pos_cnum, <- ashift_ceil. Qed.
Lemma wid_min_z_spec s t i : wid_min t (cell_lo s i) = wid_min_z s t i.
Proof. unfold wid_min, wid_min_z. now rewrite floor_lo_spec, pos_IZR, <- ashift_floor. Qed.
Lemma wid_max_z_spec s t i : wid_max t (cell_hi s i) = wid_max_z s t i.
Proof. unfold wid_max, wid_max_z. now rewrite ceil_hi_spec, pos_IZR, <- ashift_ceil. Qed.

(* floor-free test of   mn <= mx,  wid_min <= mn <= cov_min,  cov_max <= mx <= wid_max   *)
Definition check_cover (s : scale) (i : Z) (t : scale) (mn mx : Z) : bool :=
  (mn <=? mx)
  && dy_lt_z (floor_lo s i + so t) (sz t - se t) (mn + 1)        (* pos t (floor A) < mn + 1      <->  wid_min <= mn *)
  && zle_dy mn (cnum s t i) (cexp s t)                           (* mn <= pos t A                 <->  mn <= cov_min *)
  && dy_le_z (cnum s t (i + 1)) (cexp s t) (mx + 1)              (* pos t B <= mx + 1             <->  cov_max <= mx *)
  && zlt_dy mx (ceil_hi s i + so t) (sz t - se t).               (* mx < pos t (ceil B)           <->  mx <= wid_max *)

Definition check_conv (s : scale) (i : Z) (t : scale) (r : result (Z * Z)) : bool :=
  match r with
  | Ok (mn, mx) => zooms_okb s t && in_rangeb s i && in_rangeb t mn && in_rangeb t mx && check_cover s i t mn mx
  | Err => negb (zooms_okb s t && in_rangeb s i && in_rangeb t (wid_min_z s t i) && in_rangeb t (wid_max_z s t i))
  end.

Lemma check_cover_spec s i t mn mx :
  check_cover s i t mn mx = true <->
  mn <= mx /\ wid_min t (cell_lo s i) <= mn <= cov_min t (cell_lo s i) /\ cov_max t (cell_hi s i) <= mx <= wid_max t (cell_hi s i).
Proof.
  unfold check_cover. rewrite !andb_true_iff, Z.leb_le, dy_lt_z_spec, zle_dy_spec, dy_le_z_spec, zlt_dy_spec.
  rewrite <- !pos_cnum, <- !pos_IZR. fold (cell_hi s i).
  rewrite <- floor_lo_spec, <- ceil_hi_spec.
  rewrite <- Zfloor_lt_iff, <- Zfloor_ge_iff, <- Zceil_le_iff, <- Zceil_gt_iff.
  unfold wid_min, wid_max, cov_min, cov_max. lia.
Qed.

(* THE CHECKER DECIDES THE SPECIFICATION (no hypothesis on any argument) *)
Theorem check_conv_sound s i t r : check_conv s i t r = true <-> conv_spec s i t r.
Proof.
  destruct r as [[mn mx]|]; cbn [check_conv conv_spec].
  - rewrite !andb_true_iff, !in_rangeb_spec, zooms_okb_spec, check_cover_spec. tauto.
  - rewrite negb_true_iff, <- not_true_iff_false, !andb_true_iff, !in_rangeb_spec, zooms_okb_spec, <- wid_min_z_spec, <- wid_max_z_spec. tauto.
Qed.

(* ------------------------------------------------------------------------------------------------------------------------------ *)
(** * 4. The models (unbounded Z) meet the specification — for all integers, no domain hypothesis                                    *)

Lemma ashift_1 z : ashift 1 z = 2 ^ z.
Proof.
  destruct (Z.le_gt_cases 0 z) as [H|H].
  - rewrite ashift_nonneg by exact H. lia.
  - rewrite ashift_neg by lia. rewrite (Z.pow_neg_r 2 z) by lia.
    apply Z.div_small. split; [lia|]. replace 1 with (2 ^ 0) at 1 by reflexivity. apply Z.pow_lt_mono_r; lia.
Qed.

(* validateIndexExists = membership in the index range of the zoom (at a negative zoom no index exists) *)
Lemma index_exists_eq i z neg e o : index_exists i z neg = in_rangeb (mkscale z e o neg) i.
Proof.
  unfold index_exists, in_rangeb. cbn [sz sneg]. rewrite ashift_1. set (r := 2 ^ z).
  destruct neg; destruct (Z.ltb_spec (r - 1) i), (Z.ltb_spec i r); cbn;
    repeat match goal with |- context [Z.ltb ?a ?b] => destruct (Z.ltb_spec a b) | |- context [Z.leb ?a ?b] => destruct (Z.leb_spec a b) end;
    cbn; try reflexivity; lia.
Qed.
Theorem index_exists_spec i z neg : index_exists i z neg = true <-> (if neg then - 2 ^ z else 0) <= i < 2 ^ z.
Proof. rewrite (index_exists_eq i z neg 0 0), in_rangeb_spec. reflexivity. Qed.

Lemma ashift_opp_nonneg i e : 0 <= e -> - ashift (- i) e = ashift i e.
Proof. intros H. rewrite !ashift_nonneg by exact H. ring. Qed.
Lemma ceil_succ_div k m : 0 < m -> - ((- (k + 1)) / m) = k / m + 1.
Proof.
  intros Hm. pose proof (Z.div_mod k m ltac:(lia)) as E1. pose proof (Z.mod_pos_bound k m Hm) as B1.
  assert (E : (- (k + 1)) / m = - (k / m) - 1); [|lia].
  symmetry. apply Z.div_unique with (r := m - 1 - k mod m); [lia|]. lia.
Qed.
Lemma ashift_opp_succ i e : e <= 0 -> - ashift (- (i + 1)) e = ashift i e + 1.
Proof. intros H. rewrite !ashift_neg by exact H. apply ceil_succ_div. apply Z.pow_pos_nonneg; lia. Qed.

(* ---- ConvertZToMinMaxAltitudekey: the two keys are the exact cover ---- *)
Lemma z2key_raw_spec f z out E O :
  z2key_raw f z out E O = (cov_min_z (sid_scale z) (key_scale out E O) f, cov_max_z (sid_scale z) (key_scale out E O) f).
Proof.
  unfold z2key_raw, cov_min_z, cov_max_z, cnum, cexp, cden, sid_scale, key_scale. cbn [sz se so].
  assert (Ep : (if z - zorigin <? 0 then 0 else z - zorigin) = Z.max 0 (z - zorigin)) by (destruct (Z.ltb_spec (z - zorigin) 0); lia).
  rewrite Ep. set (p := Z.max 0 (z - zorigin)).
  assert (Hp : 0 <= p) by (unfold p; lia). assert (Hu : 0 <= zorigin - z + p) by (unfold p; lia).
  rewrite (ashift_nonneg f), (ashift_nonneg (f + 1)), (ashift_nonneg O) by assumption.
  rewrite Z.sub_0_r. reflexivity.
Qed.
Theorem z2key_raw_exact f z out E O :
  z2key_raw f z out E O = (cov_min (key_scale out E O) (cell_lo (sid_scale z) f), cov_max (key_scale out E O) (cell_hi (sid_scale z) f)).
Proof. now rewrite z2key_raw_spec, cov_min_z_spec, cov_max_z_spec. Qed.

(* ---- ConvertAltitudekeyToMinMaxZ: the two indices are the metre-widened cover ---- *)
Definition key2z_raw (k kz out E O : Z) : Z * Z :=
  let zd := E - kz in
  let imin := ashift k zd in
  let imax := if 0 <? zd then ashift (k + 1) zd - 1 else imin in
  let od := out - zorigin in
  (ashift (imin - O) od, if 0 <? od then ashift (imax - O + 1) od - 1 else ashift (imax - O) od).
Lemma key2z_unfold k kz out E O :
  key2z k kz out E O =
  if negb (zoom_ok kz) || negb (zoom_ok out) then Err
  else if negb (index_exists k kz false) then Err
  else let '(mn, mx) := key2z_raw k kz out E O in if (2 ^ out - 1 <? mx) || (mn <? - 2 ^ out) then Err else Ok (mn, mx).
Proof.
  unfold key2z, key2z_raw, index_exists. rewrite !ashift_1. cbv zeta.
  destruct (negb (zoom_ok kz) || negb (zoom_ok out)); [reflexivity|].
  destruct ((2 ^ kz - 1 <? k) || (k <? 0)); reflexivity.
Qed.
(* the zoom guard of the two exported conversions, as a statement about scales *)
Lemma zoom_guard_eq zs zt (s t : scale) : sz s = zs -> sz t = zt -> negb (zoom_ok zs) || negb (zoom_ok zt) = negb (zooms_okb s t).
Proof. intros <- <-. unfold zooms_okb. now rewrite negb_andb. Qed.
Lemma key2z_raw_spec k kz out E O :
  key2z_raw k kz out E O = (wid_min_z (key_scale kz E O) (sid_scale out) k, wid_max_z (key_scale kz E O) (sid_scale out) k).
Proof.
  unfold key2z_raw, wid_min_z, wid_max_z, floor_lo, ceil_hi, sid_scale, key_scale. cbn [sz se so]. cbv zeta.
  rewrite !Z.add_0_r. f_equal.
  set (zd := E - kz). set (od := out - zorigin).
  set (C := - ashift (- (k + 1)) zd - O).
  assert (EC : (if 0 <? zd then ashift (k + 1) zd - 1 else ashift k zd) - O + 1 = C).
  { unfold C. destruct (Z.ltb_spec 0 zd).
    - rewrite ashift_opp_nonneg by lia. lia.
    - rewrite ashift_opp_succ by lia. lia. }
  destruct (Z.ltb_spec 0 od).
  - rewrite EC. rewrite ashift_opp_nonneg by lia. reflexivity.
  - replace ((if 0 <? zd then ashift (k + 1) zd - 1 else ashift k zd) - O) with (C - 1) by lia.
    replace (- C) with (- ((C - 1) + 1)) by lia. rewrite ashift_opp_succ by lia. lia.
Qed.
Theorem key2z_raw_widened k kz out E O :
  key2z_raw k kz out E O = (wid_min (sid_scale out) (cell_lo (key_scale kz E O) k), wid_max (sid_scale out) (cell_hi (key_scale kz E O) k)).
Proof. now rewrite key2z_raw_spec, wid_min_z_spec, wid_max_z_spec. Qed.

Lemma cover_chain s i t :
  wid_min t (cell_lo s i) <= cov_min t (cell_lo s i) /\ cov_min t (cell_lo s i) <= cov_max t (cell_hi s i) /\
  cov_max t (cell_hi s i) <= wid_max t (cell_hi s i).
Proof. split; [apply wid_min_le_cov|split; [apply cov_min_le_max, cell_nonempty|apply cov_max_le_wid]]. Qed.

(* MAIN THEOREM, forward direction *)
Theorem z2key_conv f z out E O : conv_spec (sid_scale z) f (key_scale out E O) (z2key f z out E O).
Proof.
  unfold z2key. rewrite (zoom_guard_eq z out (sid_scale z) (key_scale out E O) eq_refl eq_refl).
  destruct (zooms_okb (sid_scale z) (key_scale out E O)) eqn:Hz; cbn [negb].
  2:{ cbn. intros [H _]. apply zooms_okb_spec in H. congruence. }
  apply zooms_okb_spec in Hz.
  rewrite (index_exists_eq f z true zorigin 0). fold (sid_scale z).
  destruct (in_rangeb (sid_scale z) f) eqn:Hs; cbn [negb].
  2:{ cbn. intros (_ & H & _). apply in_rangeb_spec in H. congruence. }
  rewrite z2key_raw_exact. rewrite !(index_exists_eq _ out false E O). fold (key_scale out E O).
  pose proof (cover_chain (sid_scale z) f (key_scale out E O)) as (C1 & C2 & C3).
  destruct (in_rangeb (key_scale out E O) (cov_min _ _)) eqn:H1; [destruct (in_rangeb (key_scale out E O) (cov_max _ _)) eqn:H2|]; cbn [andb].
  - cbn [conv_spec]. apply in_rangeb_spec in Hs, H1, H2. split; [exact Hz|]. repeat split; try assumption; try lia; apply H1 || apply H2 || apply Hs.
  - cbn [conv_spec]. intros (_ & _ & W1 & W2). apply not_true_iff_false in H2. apply H2. apply in_rangeb_spec. apply in_rangeb_spec in H1.
    unfold in_range in *. cbn [sneg key_scale sz] in *. lia.
  - cbn [conv_spec]. intros (_ & _ & W1 & W2). apply not_true_iff_false in H1. apply H1. apply in_rangeb_spec.
    unfold in_range in *. cbn [sneg key_scale sz] in *. lia.
Qed.

(* MAIN THEOREM, backward direction *)
Theorem key2z_conv k kz out E O : conv_spec (key_scale kz E O) k (sid_scale out) (key2z k kz out E O).
Proof.
  rewrite key2z_unfold. rewrite (zoom_guard_eq kz out (key_scale kz E O) (sid_scale out) eq_refl eq_refl).
  destruct (zooms_okb (key_scale kz E O) (sid_scale out)) eqn:Hz; cbn [negb].
  2:{ cbn. intros [H _]. apply zooms_okb_spec in H. congruence. }
  apply zooms_okb_spec in Hz.
  rewrite (index_exists_eq k kz false E O). fold (key_scale kz E O).
  destruct (in_rangeb (key_scale kz E O) k) eqn:Hs; cbn [negb].
  2:{ cbn. intros (_ & H & _). apply in_rangeb_spec in H. congruence. }
  rewrite key2z_raw_widened.
  pose proof (cover_chain (key_scale kz E O) k (sid_scale out)) as (C1 & C2 & C3).
  set (wmn := wid_min _ _) in *. set (wmx := wid_max _ _) in *.
  destruct (Z.ltb_spec (2 ^ out - 1) wmx) as [H1|H1]; [|destruct (Z.ltb_spec wmn (- 2 ^ out)) as [H2|H2]]; cbn [orb conv_spec].
  - intros (_ & _ & _ & W). unfold in_range in W. cbn [sneg sid_scale sz] in W. lia.
  - intros (_ & _ & W & _). unfold in_range in W. cbn [sneg sid_scale sz] in W. lia.
  - apply in_rangeb_spec in Hs. unfold in_range. cbn [sneg sid_scale sz]. split; [exact Hz|]. repeat split; try lia; apply Hs.
Qed.

(* ------------------------------------------------------------------------------------------------------------------------------ *)
(** * 5. Consequences in the words of the property                                                                                  *)

(* anything satisfying conv_spec: error is forced when a zoom is outside 0..35, the source index does not exist or the exact cover leaves
   the target range, and excluded when the zooms are in 0..35, the source exists and even the widened cover fits *)
Lemma conv_spec_must_err s i t r : conv_spec s i t r ->
  (~ zooms_ok s t \/ ~ in_range s i \/ ~ (in_range t (cov_min t (cell_lo s i)) /\ in_range t (cov_max t (cell_hi s i)))) -> r = Err.
Proof.
  destruct r as [[mn mx]|]; [|reflexivity]. cbn [conv_spec]. intros (Hz & Hs & H1 & H2 & Hle & Hmn & Hmx) [N|[N|N]]; [tauto|tauto|]. exfalso. apply N.
  pose proof (cover_chain s i t) as (C1 & C2 & C3). unfold in_range in *. destruct (sneg t); lia.
Qed.
Lemma conv_spec_must_ok s i t r : conv_spec s i t r ->
  zooms_ok s t -> in_range s i -> in_range t (wid_min t (cell_lo s i)) -> in_range t (wid_max t (cell_hi s i)) -> exists mn mx, r = Ok (mn, mx).
Proof. destruct r as [[mn mx]|]; [intros; now exists mn, mx|]. cbn [conv_spec]. tauto. Qed.

(* -- zoom levels outside 0..35 are refused by both exported conversions (fix 9dab435) -- *)
Theorem z2key_bad_zoom f z out E O : ~ (0 <= z <= 35 /\ 0 <= out <= 35) -> z2key f z out E O = Err.
Proof.
  intros N. apply (conv_spec_must_err (sid_scale z) f (key_scale out E O) _ (z2key_conv f z out E O)). left. exact N.
Qed.
Theorem key2z_bad_zoom k kz out E O : ~ (0 <= kz <= 35 /\ 0 <= out <= 35) -> key2z k kz out E O = Err.
Proof.
  intros N. apply (conv_spec_must_err (key_scale kz E O) k (sid_scale out) _ (key2z_conv k kz out E O)). left. exact N.
Qed.

(* -- forward: ConvertZToMinMaxAltitudekey -- *)
Theorem z2key_ok f z out E O mn mx : z2key f z out E O = Ok (mn, mx) ->
  let s := sid_scale z in let t := key_scale out E O in
  mn = cov_min t (cell_lo s f) /\ mx = cov_max t (cell_hi s f) /\ mn <= mx /\
  (- 2 ^ z <= f < 2 ^ z) /\ 0 <= mn /\ mx < 2 ^ out /\ 0 <= z <= 35 /\ 0 <= out <= 35.
Proof.
  intros H s t. pose proof (z2key_conv f z out E O) as C. rewrite H in C. cbn [conv_spec] in C. fold s t in C.
  destruct C as (Hz & Hs & H1 & H2 & Hle & _ & _).
  unfold z2key in H. destruct (negb (zoom_ok z) || negb (zoom_ok out)); [discriminate|].
  destruct (negb (index_exists f z true)); [discriminate|].
  rewrite z2key_raw_exact in H. fold s t in H. destruct (_ && _); [|discriminate]. injection H as <- <-.
  unfold in_range, zooms_ok in *. cbn [s t sid_scale key_scale sneg sz] in *. repeat split; lia.
Qed.
Theorem z2key_err_iff f z out E O :
  let s := sid_scale z in let t := key_scale out E O in
  z2key f z out E O = Err <->
  ~ (0 <= z <= 35 /\ 0 <= out <= 35) \/ ~ (- 2 ^ z <= f < 2 ^ z) \/ ~ (0 <= cov_min t (cell_lo s f) /\ cov_max t (cell_hi s f) < 2 ^ out).
Proof.
  intros s t. split.
  - intros H. unfold z2key in H. rewrite (zoom_guard_eq z out s t eq_refl eq_refl) in H.
    destruct (zooms_okb s t) eqn:Hz; cbn [negb] in H.
    2:{ left. intros N. apply not_true_iff_false in Hz. apply Hz. apply zooms_okb_spec. exact N. }
    right. rewrite (index_exists_eq f z true zorigin 0) in H. fold (sid_scale z) in H. fold s in H.
    destruct (in_rangeb s f) eqn:Hs; cbn [negb] in H.
    + right. rewrite z2key_raw_exact in H. fold s t in H. rewrite !(index_exists_eq _ out false E O) in H. fold (key_scale out E O) in H. fold t in H.
      destruct (in_rangeb t (cov_min t (cell_lo s f)) && in_rangeb t (cov_max t (cell_hi s f))) eqn:Hb; [discriminate|].
      intros [N1 N2]. apply not_true_iff_false in Hb. apply Hb. rewrite andb_true_iff, !in_rangeb_spec.
      pose proof (cover_chain s f t) as (C1 & C2 & C3). unfold in_range. cbn [t key_scale sneg sz]. lia.
    + left. intros N. apply not_true_iff_false in Hs. apply Hs. apply in_rangeb_spec. exact N.
  - intros H. apply (conv_spec_must_err s f t _ (z2key_conv f z out E O)). destruct H as [H|[H|H]]; [left; exact H|right; left; exact H|right; right].
    intros [N1 N2]. apply H. unfold in_range in N1, N2. cbn [t key_scale sneg sz] in N1, N2. lia.
Qed.

(* -- backward: ConvertAltitudekeyToMinMaxZ -- *)
Theorem key2z_ok k kz out E O mn mx : key2z k kz out E O = Ok (mn, mx) ->
  let s := key_scale kz E O in let t := sid_scale out in
  mn = wid_min t (cell_lo s k) /\ mx = wid_max t (cell_hi s k) /\
  mn <= cov_min t (cell_lo s k) /\ cov_max t (cell_hi s k) <= mx /\ mn <= mx /\
  ((kz <= E \/ out <= zorigin) -> mn = cov_min t (cell_lo s k) /\ mx = cov_max t (cell_hi s k)) /\
  0 <= k < 2 ^ kz /\ - 2 ^ out <= mn /\ mx < 2 ^ out /\ 0 <= kz <= 35 /\ 0 <= out <= 35.
Proof.
  intros H s t. pose proof (key2z_conv k kz out E O) as C. rewrite H in C. cbn [conv_spec] in C. fold s t in C.
  destruct C as (Hz & Hs & H1 & H2 & Hle & Hmn & Hmx).
  rewrite key2z_unfold in H. destruct (negb (zoom_ok kz) || negb (zoom_ok out)); [discriminate|].
  destruct (negb (index_exists k kz false)); [discriminate|].
  rewrite key2z_raw_widened in H. fold s t in H. destruct (_ || _); [discriminate|]. injection H as <- <-.
  unfold in_range, zooms_ok in *. cbn [s t sid_scale key_scale sneg sz] in *. repeat split; try lia.
  - apply (wid_eq_cov s k t). exact H.
  - apply (wid_eq_cov s k t). exact H.
Qed.
Theorem key2z_err_iff k kz out E O :
  let s := key_scale kz E O in let t := sid_scale out in
  key2z k kz out E O = Err <->
  ~ (0 <= kz <= 35 /\ 0 <= out <= 35) \/ ~ (0 <= k < 2 ^ kz) \/ ~ (- 2 ^ out <= wid_min t (cell_lo s k) /\ wid_max t (cell_hi s k) < 2 ^ out).
Proof.
  intros s t. pose proof (key2z_conv k kz out E O) as C. fold s t in C.
  pose proof (cover_chain s k t) as (C1 & C2 & C3).
  destruct (key2z k kz out E O) as [[mn mx]|] eqn:H.
  - split; [discriminate|]. intros N. exfalso. apply key2z_ok in H. fold s t in H. destruct H as (-> & -> & _ & _ & _ & _ & Hk & L & U & Z1 & Z2).
    destruct N as [N|[N|N]]; apply N; lia.
  - split; [|reflexivity]. intros _. cbn [conv_spec] in C.
    destruct (Z_le_dec 0 kz), (Z_le_dec kz 35), (Z_le_dec 0 out), (Z_le_dec out 35); try (left; lia).
    right. destruct (Z_le_dec 0 k), (Z_lt_dec k (2 ^ kz)); try (left; lia). right. intros [N1 N2]. apply C.
    unfold in_range, zooms_ok. cbn [s t sid_scale key_scale sneg sz]. lia.
Qed.
(* the band: an error is forced when the exact cover leaves the index range *)
Corollary key2z_err_when_exact_cover_leaves k kz out E O :
  let s := key_scale kz E O in let t := sid_scale out in
  ~ (- 2 ^ out <= cov_min t (cell_lo s k) /\ cov_max t (cell_hi s k) < 2 ^ out) -> key2z k kz out E O = Err.
Proof.
  intros s t N. apply (conv_spec_must_err s k t _ (key2z_conv k kz out E O)). right. right. intros [N1 N2]. apply N.
  unfold in_range in N1, N2. cbn [t sid_scale sneg sz] in N1, N2. lia.
Qed.

(* -- convertZToMinAltitudekey: lower key of the metre-widened cover (equal to the exact lower key when no sub-metre cell is involved) -- *)
Lemma z2minkey_unfold f z out E O :
  z2minkey f z out E O =
  if negb (in_rangeb (sid_scale z) f) then Err
  else let o := wid_min_z (sid_scale z) (key_scale out E O) f in if in_rangeb (key_scale out E O) o then Ok o else Err.
Proof.
  unfold z2minkey. rewrite (index_exists_eq f z true zorigin 0). fold (sid_scale z).
  destruct (negb (in_rangeb (sid_scale z) f)); [reflexivity|]. cbv zeta.
  rewrite (index_exists_eq _ out false E O). fold (key_scale out E O).
  unfold wid_min_z, floor_lo, sid_scale, key_scale. cbn [sz se so].
  replace (- (z - zorigin)) with (zorigin - z) by lia. rewrite Z.sub_0_r. reflexivity.
Qed.
Definition minkey_spec (s : scale) (i : Z) (t : scale) (r : result Z) : Prop :=
  match r with
  | Ok o => in_range s i /\ in_range t o /\ wid_min t (cell_lo s i) <= o <= cov_min t (cell_lo s i)
  | Err => ~ (in_range s i /\ in_range t (wid_min t (cell_lo s i)))
  end.
Definition check_minkey (s : scale) (i : Z) (t : scale) (r : result Z) : bool :=
  match r with
  | Ok o => in_rangeb s i && in_rangeb t o && dy_lt_z (floor_lo s i + so t) (sz t - se t) (o + 1) && zle_dy o (cnum s t i) (cexp s t)
  | Err => negb (in_rangeb s i && in_rangeb t (wid_min_z s t i))
  end.
Theorem check_minkey_sound s i t r : check_minkey s i t r = true <-> minkey_spec s i t r.
Proof.
  destruct r as [o|]; cbn [check_minkey minkey_spec].
  - rewrite !andb_true_iff, !in_rangeb_spec, dy_lt_z_spec, zle_dy_spec.
    rewrite <- pos_cnum, <- pos_IZR, <- floor_lo_spec, <- Zfloor_lt_iff, <- Zfloor_ge_iff. unfold wid_min, cov_min. intuition lia.
  - rewrite negb_true_iff, <- not_true_iff_false, !andb_true_iff, !in_rangeb_spec, <- wid_min_z_spec. tauto.
Qed.
Theorem z2minkey_conv f z out E O : minkey_spec (sid_scale z) f (key_scale out E O) (z2minkey f z out E O).
Proof.
  rewrite z2minkey_unfold. destruct (in_rangeb (sid_scale z) f) eqn:Hs; cbn [negb].
  2:{ cbn. intros [H _]. apply in_rangeb_spec in H. congruence. }
  cbv zeta. rewrite <- wid_min_z_spec. destruct (in_rangeb _ (wid_min _ _)) eqn:H1; cbn [minkey_spec].
  - apply in_rangeb_spec in Hs, H1. pose proof (wid_min_le_cov (key_scale out E O) (cell_lo (sid_scale z) f)). repeat split; try assumption; try lia; apply Hs || apply H1.
  - intros [_ W]. apply in_rangeb_spec in W. congruence.
Qed.
Theorem z2minkey_ok f z out E O o : z2minkey f z out E O = Ok o ->
  let s := sid_scale z in let t := key_scale out E O in
  o = wid_min t (cell_lo s f) /\ o <= cov_min t (cell_lo s f) /\ ((z <= zorigin \/ out <= E) -> o = cov_min t (cell_lo s f)) /\
  (- 2 ^ z <= f < 2 ^ z) /\ 0 <= o < 2 ^ out.
Proof.
  intros H s t. pose proof (z2minkey_conv f z out E O) as C. rewrite H in C. cbn [minkey_spec] in C. fold s t in C. destruct C as (Hs & H1 & H2).
  rewrite z2minkey_unfold in H. destruct (negb _); [discriminate|]. cbv zeta in H. rewrite <- wid_min_z_spec in H. fold s t in H.
  destruct (in_rangeb t _); [|discriminate]. injection H as <-.
  unfold in_range in *. cbn [s t sid_scale key_scale sneg sz] in *. repeat split; try lia.
  intros R. apply (wid_eq_cov s f t). exact R.
Qed.

(* -- mutual consistency of the two directions (same key scale (kz,E,O), spatial zoom z) -- *)
Theorem mutual_never_loses f z k kz E O a b c d :
  z2key f z kz E O = Ok (a, b) -> key2z k kz z E O = Ok (c, d) -> a <= k <= b -> c <= f <= d.
Proof.
  intros H1 H2 Hk. apply z2key_ok in H1. apply key2z_ok in H2. cbv zeta in H1, H2.
  destruct H1 as (-> & -> & _). destruct H2 as (_ & _ & L & U & _).
  apply (cover_symmetric (sid_scale z) f (key_scale kz E O) k) in Hk. lia.
Qed.
Theorem mutual_exact f z k kz E O a b c d :
  z2key f z kz E O = Ok (a, b) -> key2z k kz z E O = Ok (c, d) -> (kz <= E \/ z <= zorigin) -> (a <= k <= b <-> c <= f <= d).
Proof.
  intros H1 H2 R. apply z2key_ok in H1. apply key2z_ok in H2. cbv zeta in H1, H2.
  destruct H1 as (-> & -> & _). destruct H2 as (_ & _ & _ & _ & _ & X & _). destruct (X R) as [-> ->].
  apply (cover_symmetric (sid_scale z) f (key_scale kz E O) k).
Qed.
(* without error results: the raw ranges *)
Theorem mutual_raw f z k kz E O : (kz <= E \/ z <= zorigin) ->
  (fst (z2key_raw f z kz E O) <= k <= snd (z2key_raw f z kz E O) <-> fst (key2z_raw k kz z E O) <= f <= snd (key2z_raw k kz z E O)).
Proof.
  intros R. rewrite z2key_raw_exact, key2z_raw_widened. cbn [fst snd].
  destruct (wid_eq_cov (key_scale kz E O) k (sid_scale z) R) as [-> ->].
  apply (cover_symmetric (sid_scale z) f (key_scale kz E O) k).
Qed.

(* ------------------------------------------------------------------------------------------------------------------------------ *)
(** * 6. int64: what the Go code computes when values wrap, and when it coincides with the unbounded model                           *)

(* The models above use unbounded integers. Go's int64 wraps silently, `x << s` is 0 for s >= 64, `x >> n` is the sign for n >= 64 and
   a negative shift count panics ("negative shift amount": only reachable through CalculateArithmeticShift(_, MinInt64), where -shift
   wraps to MinInt64). The monadic models below compute exactly what Go computes — value, or panic (None) — together with a flag that
   is true iff no operation wrapped; with the flag set the result is the unbounded model's result (proved), hence meets conv_spec. *)
Definition i64 (x : Z) : bool := (- 2 ^ 63 <=? x) && (x <? 2 ^ 63).
Definition w64 (x : Z) : Z := (x + 2 ^ 63) mod 2 ^ 64 - 2 ^ 63.
Lemma i64_spec x : i64 x = true <-> - 2 ^ 63 <= x < 2 ^ 63.
Proof. unfold i64. rewrite andb_true_iff, Z.leb_le, Z.ltb_lt. tauto. Qed.
Lemma w64_id x : i64 x = true -> w64 x = x.
Proof. rewrite i64_spec. intros H. unfold w64. rewrite Z.mod_small; lia. Qed.
Lemma w64_i64 x : i64 (w64 x) = true.
Proof. apply i64_spec. unfold w64. pose proof (Z.mod_pos_bound (x + 2 ^ 63) (2 ^ 64) ltac:(lia)). lia. Qed.

Definition M (A : Type) : Type := option (A * bool).          (* None = run-time panic; flag = every operation so far was exact *)
Definition ret {A} (a : A) : M A := Some (a, true).
Definition bind {A B} (m : M A) (k : A -> M B) : M B :=
  match m with
  | None => None
  | Some (a, e) => match k a with None => None | Some (b, e') => Some (b, e && e') end
  end.
Notation "x <- m ;; k" := (bind m (fun x => k)) (at level 61, m at next level, right associativity).
Definition ex (x : Z) : M Z := Some (w64 x, i64 x).          (* int64 result of an operation whose mathematical result is x *)

(* common.CalculateArithmeticShift on int64 *)
Definition shiftm (i s : Z) : M Z :=
  if 0 <=? s then (if 64 <=? s then Some (0, i =? 0) else ex (i * 2 ^ s))
  else n <- ex (- s) ;;
       if n <? 0 then None
       else if 64 <=? n then Some ((if i <? 0 then -1 else 0), i64 i) else ret (i / 2 ^ n).

(* validateIndexExists *)
Definition validatem (i z : Z) (neg : bool) : M bool :=
  r <- shiftm 1 z ;; mx <- ex (r - 1) ;; mn <- (if neg then ex (- r) else ret 0) ;;
  ret (negb ((mx <? i) || (i <? mn))).

(* ConvertZToMinMaxAltitudekey *)
Definition z2key64m (f z out E O : Z) : M (result (Z * Z)) :=
  if negb (zoom_ok z) || negb (zoom_ok out) then ret Err else        (* shape.CheckZoom on both zooms *)
  ok <- validatem f z true ;;
  if negb ok then ret Err else
  d <- ex (z - zorigin) ;;
  let fraction := if d <? 0 then 0 else d in
  u0 <- ex (zorigin - z) ;; toUnit <- ex (u0 + fraction) ;;
  lower <- shiftm f toUnit ;;
  f1 <- ex (f + 1) ;; upper <- shiftm f1 toUnit ;;
  offset <- shiftm O fraction ;;
  k0 <- ex (out - E) ;; toKey <- ex (k0 - fraction) ;;
  lo <- ex (lower + offset) ;; mn <- shiftm lo toKey ;;
  up <- ex (upper + offset) ;; nup <- ex (- up) ;; b <- shiftm nup toKey ;; nb <- ex (- b) ;; mx <- ex (nb - 1) ;;
  ok1 <- validatem mn out false ;;
  ok2 <- (if ok1 then validatem mx out false else ret false) ;;
  ret (if ok2 then Ok (mn, mx) else Err).

(* convertZToMinAltitudekey *)
Definition z2minkey64m (f z out E O : Z) : M (result Z) :=
  ok <- validatem f z true ;;
  if negb ok then ret Err else
  d <- ex (z - zorigin) ;; nd <- ex (- d) ;;
  a <- shiftm f nd ;; a' <- ex (a + O) ;;
  k0 <- ex (out - E) ;; o <- shiftm a' k0 ;;
  ok1 <- validatem o out false ;;
  ret (if ok1 then Ok o else Err).

(* ConvertAltitudekeyToMinMaxZ *)
Definition key2z64m (k kz out E O : Z) : M (result (Z * Z)) :=
  if negb (zoom_ok kz) || negb (zoom_ok out) then ret Err else       (* shape.CheckZoom on both zooms *)
  inres <- shiftm 1 kz ;; maxin <- ex (inres - 1) ;;
  if (maxin <? k) || (k <? 0) then ret Err else
  zd <- ex (E - kz) ;;
  imin <- shiftm k zd ;;
  imax <- (if 0 <? zd then (k1 <- ex (k + 1) ;; x <- shiftm k1 zd ;; ex (x - 1)) else ret imin) ;;
  od <- ex (out - zorigin) ;;
  a <- ex (imin - O) ;; omin <- shiftm a od ;;
  b <- ex (imax - O) ;; omax0 <- shiftm b od ;;
  omax <- (if 0 <? od then (b1 <- ex (b + 1) ;; x <- shiftm b1 od ;; ex (x - 1)) else ret omax0) ;;
  ores <- shiftm 1 out ;; maxo <- ex (ores - 1) ;; mino <- ex (- ores) ;;
  ret (if (maxo <? omax) || (omin <? mino) then Err else Ok (omin, omax)).

Lemma bind_inv {A B} (m : M A) (k : A -> M B) b : bind m k = Some (b, true) -> exists a, m = Some (a, true) /\ k a = Some (b, true).
Proof.
  unfold bind. destruct m as [[a e]|]; [|discriminate]. destruct (k a) as [[b' e']|] eqn:Hk; [|discriminate].
  intros H. injection H as -> H. apply andb_true_iff in H. destruct H as [-> ->]. exists a. split; [reflexivity|exact Hk].
Qed.
Lemma ret_inv {A} (a b : A) : ret a = Some (b, true) -> a = b.
Proof. unfold ret. intros H. now injection H. Qed.
Lemma ex_inv x v : ex x = Some (v, true) -> v = x.
Proof. unfold ex. intros H. injection H as <- H. now apply w64_id. Qed.
Lemma div_pow_big i n : i64 i = true -> 64 <= n -> i / 2 ^ n = if i <? 0 then -1 else 0.
Proof.
  rewrite i64_spec. intros Hi Hn. assert (Hp : 2 ^ 64 <= 2 ^ n) by (apply Z.pow_le_mono_r; lia).
  assert (2 ^ 63 < 2 ^ 64) by (apply Z.pow_lt_mono_r; lia).
  destruct (Z.ltb_spec i 0).
  - symmetry. apply Z.div_unique with (r := i + 2 ^ n); lia.
  - apply Z.div_small. lia.
Qed.
Lemma shiftm_inv i s v : shiftm i s = Some (v, true) -> v = ashift i s.
Proof.
  unfold shiftm. destruct (Z.leb_spec 0 s) as [Hs|Hs].
  - rewrite ashift_nonneg by exact Hs. destruct (Z.leb_spec 64 s) as [Hb|Hb].
    + intros H. injection H as <- H. apply Z.eqb_eq in H. subst. reflexivity.
    + apply ex_inv.
  - rewrite ashift_neg by lia. intros H. apply bind_inv in H. destruct H as (n & Hn & H). apply ex_inv in Hn. subst n.
    destruct (Z.ltb_spec (- s) 0) as [Hn|Hn]; [discriminate|]. destruct (Z.leb_spec 64 (- s)) as [Hb|Hb].
    + injection H as <- H. symmetry. apply div_pow_big; assumption.
    + apply ret_inv in H. now subst.
Qed.

Ltac minv H :=
  repeat match type of H with
  | bind (shiftm _ _) _ = Some (_, true) => let a := fresh "v" in let E := fresh "E" in apply bind_inv in H; destruct H as (a & E & H); apply shiftm_inv in E; subst a
  | bind (ex _) _ = Some (_, true) => let a := fresh "v" in let E := fresh "E" in apply bind_inv in H; destruct H as (a & E & H); apply ex_inv in E; subst a
  | bind (ret _) _ = Some (_, true) => let a := fresh "v" in let E := fresh "E" in apply bind_inv in H; destruct H as (a & E & H); apply ret_inv in E; subst a
  end.

Lemma validatem_inv i z neg v : validatem i z neg = Some (v, true) -> v = index_exists i z neg.
Proof.
  unfold validatem, index_exists. intros H. minv H. destruct neg; minv H; apply ret_inv in H; now subst.
Qed.

(* with the flag set, the int64 computation IS the unbounded model *)
Theorem z2key64m_exact f z out E O r : z2key64m f z out E O = Some (r, true) -> r = z2key f z out E O.
Proof.
  unfold z2key64m, z2key, z2key_raw. intros H.
  destruct (negb (zoom_ok z) || negb (zoom_ok out)); [apply ret_inv in H; now subst|].
  apply bind_inv in H. destruct H as (ok & E0 & H). apply validatem_inv in E0. subst ok.
  destruct (negb (index_exists f z true)); [apply ret_inv in H; now subst|].
  minv H.
  apply bind_inv in H. destruct H as (ok1 & E1 & H). apply validatem_inv in E1. subst ok1.
  apply bind_inv in H. destruct H as (ok2 & E2 & H). apply ret_inv in H. subst r.
  set (fr := if z - zorigin <? 0 then 0 else z - zorigin) in *. cbv zeta.
  destruct (index_exists _ out false) eqn:V1.
  - apply validatem_inv in E2. subst ok2. cbn [andb]. reflexivity.
  - apply ret_inv in E2. subst ok2. reflexivity.
Qed.
Theorem z2minkey64m_exact f z out E O r : z2minkey64m f z out E O = Some (r, true) -> r = z2minkey f z out E O.
Proof.
  unfold z2minkey64m, z2minkey. intros H.
  apply bind_inv in H. destruct H as (ok & E0 & H). apply validatem_inv in E0. subst ok.
  destruct (negb (index_exists f z true)); [apply ret_inv in H; now subst|].
  minv H.
  apply bind_inv in H. destruct H as (ok1 & E1 & H). apply validatem_inv in E1. subst ok1.
  apply ret_inv in H. subst r. reflexivity.
Qed.
Theorem key2z64m_exact k kz out E O r : key2z64m k kz out E O = Some (r, true) -> r = key2z k kz out E O.
Proof.
  unfold key2z64m, key2z. intros H.
  destruct (negb (zoom_ok kz) || negb (zoom_ok out)); [apply ret_inv in H; now subst|]. minv H.
  destruct ((ashift 1 kz - 1 <? k) || (k <? 0)); [apply ret_inv in H; now subst|].
  minv H. cbv zeta.
  apply bind_inv in H. destruct H as (imax & E1 & H).
  assert (Eimax : imax = if 0 <? E - kz then ashift (k + 1) (E - kz) - 1 else ashift k (E - kz)).
  { destruct (0 <? E - kz); [minv E1; now apply ex_inv in E1|now apply ret_inv in E1]. }
  clear E1. subst imax. minv H.
  apply bind_inv in H. destruct H as (omax & E2 & H).
  set (imax := if 0 <? E - kz then ashift (k + 1) (E - kz) - 1 else ashift k (E - kz)) in *.
  assert (Eomax : omax = if 0 <? out - zorigin then ashift (imax - O + 1) (out - zorigin) - 1 else ashift (imax - O) (out - zorigin)).
  { destruct (0 <? out - zorigin); [minv E2; now apply ex_inv in E2|now apply ret_inv in E2]. }
  clear E2. subst omax. minv H. apply ret_inv in H. subst r. reflexivity.
Qed.

(* the Go-visible result: Some r = returns r, None = panics; `exact64` = no operation wrapped *)
Definition go_result {A} (m : M A) : option A := match m with Some (a, _) => Some a | None => None end.
Definition exact64 {A} (m : M A) : bool := match m with Some (_, e) => e | None => false end.

Corollary z2key64_meets_spec f z out E O : exact64 (z2key64m f z out E O) = true ->
  exists r, go_result (z2key64m f z out E O) = Some r /\ r = z2key f z out E O /\ conv_spec (sid_scale z) f (key_scale out E O) r.
Proof.
  destruct (z2key64m f z out E O) as [[r e]|] eqn:H; cbn; [|discriminate]. intros ->. exists r. split; [reflexivity|].
  apply z2key64m_exact in H. subst r. split; [reflexivity|apply z2key_conv].
Qed.
Corollary key2z64_meets_spec k kz out E O : exact64 (key2z64m k kz out E O) = true ->
  exists r, go_result (key2z64m k kz out E O) = Some r /\ r = key2z k kz out E O /\ conv_spec (key_scale kz E O) k (sid_scale out) r.
Proof.
  destruct (key2z64m k kz out E O) as [[r e]|] eqn:H; cbn; [|discriminate]. intros ->. exists r. split; [reflexivity|].
  apply key2z64m_exact in H. subst r. split; [reflexivity|apply key2z_conv].
Qed.

(* ------------------------------------------------------------------------------------------------------------------------------ *)
(** * 7. No int64 operation wraps on the documented domain (zooms and base exponent 0..35) with |offset| <= 2^27 (forward),
         resp. |offset| <= 2^50 (backward): there the Go computation is the unbounded model.                                       *)

Lemma bind_ok {A B} (m : M A) (k : A -> M B) a : m = Some (a, true) -> bind m k = k a.
Proof. intros ->. unfold bind. destruct (k a) as [[b e]|]; reflexivity. Qed.
Lemma ex_ok x : - 2 ^ 63 <= x < 2 ^ 63 -> ex x = Some (x, true).
Proof. intros H. apply i64_spec in H. unfold ex. now rewrite H, w64_id. Qed.
Lemma shiftm_ok i s : - 64 < s < 64 -> - 2 ^ 63 <= ashift i s < 2 ^ 63 -> shiftm i s = Some (ashift i s, true).
Proof.
  intros Hs Hr. unfold shiftm. destruct (Z.leb_spec 0 s) as [H0|H0].
  - destruct (Z.leb_spec 64 s) as [H1|H1]; [lia|]. rewrite <- ashift_nonneg by lia. now apply ex_ok.
  - rewrite (bind_ok _ _ (- s)) by (apply ex_ok; lia).
    destruct (Z.ltb_spec (- s) 0) as [H1|H1]; [lia|]. destruct (Z.leb_spec 64 (- s)) as [H2|H2]; [lia|].
    rewrite <- (ashift_neg i s) by lia. reflexivity.
Qed.
Lemma pow2_le a b : 0 <= a <= b -> 0 < 2 ^ a <= 2 ^ b.
Proof. intros H. split; [apply Z.pow_pos_nonneg; lia|apply Z.pow_le_mono_r; lia]. Qed.
Lemma validatem_ok i z neg : 0 <= z <= 62 -> validatem i z neg = Some (index_exists i z neg, true).
Proof.
  intros Hz. unfold validatem, index_exists. pose proof (pow2_le z 62 ltac:(lia)) as Hp.
  rewrite (shiftm_ok 1 z) by (rewrite ?ashift_1; lia). rewrite (bind_ok _ _ _ eq_refl). rewrite ashift_1 in *.
  rewrite (bind_ok _ _ (2 ^ z - 1)) by (apply ex_ok; lia).
  destruct neg.
  - rewrite (bind_ok _ _ (- 2 ^ z)) by (apply ex_ok; lia). reflexivity.
  - rewrite (bind_ok _ _ 0 eq_refl). reflexivity.
Qed.

(* |x| <= c * 2^q  is preserved, with the exponent raised by max 0 t, by the signed shift *)
Lemma ashift_bound c x q t : 0 <= c -> 0 <= q -> - (c * 2 ^ q) <= x <= c * 2 ^ q ->
  - (c * 2 ^ (q + Z.max 0 t)) <= ashift x t <= c * 2 ^ (q + Z.max 0 t).
Proof.
  intros Hc Hq Hx. pose proof (Z.pow_pos_nonneg 2 q ltac:(lia) Hq) as Hpq. destruct (Z.le_gt_cases 0 t) as [Ht|Ht].
  - rewrite ashift_nonneg by exact Ht. replace (Z.max 0 t) with t by lia. rewrite Z.pow_add_r by lia.
    pose proof (Z.pow_pos_nonneg 2 t ltac:(lia) Ht). nia.
  - rewrite ashift_neg by lia. replace (Z.max 0 t) with 0 by lia. rewrite Z.add_0_r.
    pose proof (Z.pow_pos_nonneg 2 (- t) ltac:(lia) ltac:(lia)) as Hm. set (m := 2 ^ (- t)) in *. set (B := c * 2 ^ q) in *.
    assert (0 <= B) by (unfold B; nia). split.
    + apply Z.div_le_lower_bound; [lia|]. nia.
    + assert (x / m < B + 1); [|lia]. apply Z.div_lt_upper_bound; [lia|]. nia.
Qed.

Theorem z2key64m_domain f z out E O :
  0 <= z <= 35 -> 0 <= out <= 35 -> 0 <= E <= 35 -> - 2 ^ 27 <= O <= 2 ^ 27 ->
  z2key64m f z out E O = Some (z2key f z out E O, true).
Proof.
  intros Hz Hout HE HO. unfold z2key64m, z2key, z2key_raw.
  rewrite (proj2 (zoom_ok_spec z) Hz), (proj2 (zoom_ok_spec out) Hout). cbn [negb orb].
  rewrite (bind_ok _ _ _ (validatem_ok f z true ltac:(lia))).
  destruct (index_exists f z true) eqn:V; cbn [negb]; [|reflexivity].
  apply index_exists_spec in V.
  rewrite (bind_ok _ _ (z - zorigin)) by (apply ex_ok; unfold zorigin; lia).
  set (p := if z - zorigin <? 0 then 0 else z - zorigin).
  assert (Hp : 0 <= p <= 10 /\ p = Z.max 0 (z - 25)) by (unfold p, zorigin; destruct (Z.ltb_spec (z - 25) 0); lia).
  rewrite (bind_ok _ _ (zorigin - z)) by (apply ex_ok; unfold zorigin; lia).
  rewrite (bind_ok _ _ (zorigin - z + p)) by (apply ex_ok; unfold zorigin; lia).
  set (u := zorigin - z + p). assert (Hu : 0 <= u <= 25 /\ z + u = 25 + p) by (unfold u, zorigin; lia).
  pose proof (pow2_le z 35 ltac:(lia)) as Hpz.
  (* lower, upper *)
  assert (Bf : forall g, - 2 ^ z <= g <= 2 ^ z -> - (1 * 2 ^ (25 + p)) <= ashift g u <= 1 * 2 ^ (25 + p)).
  { intros g Hg. pose proof (ashift_bound 1 g z u ltac:(lia) ltac:(lia) ltac:(lia)) as B.
    replace (z + Z.max 0 u) with (25 + p) in B by lia. exact B. }
  pose proof (pow2_le (25 + p) 35 ltac:(lia)) as Hp35.
  pose proof (Bf f ltac:(lia)) as Bl. pose proof (Bf (f + 1) ltac:(lia)) as Bu.
  rewrite (bind_ok _ _ _ (shiftm_ok f u ltac:(lia) ltac:(lia))).
  rewrite (bind_ok _ _ (f + 1)) by (apply ex_ok; lia).
  rewrite (bind_ok _ _ _ (shiftm_ok (f + 1) u ltac:(lia) ltac:(lia))).
  (* offset *)
  pose proof (ashift_bound 1 O 27 p ltac:(lia) ltac:(lia) ltac:(lia)) as Bo. replace (27 + Z.max 0 p) with (27 + p) in Bo by lia.
  assert (E27 : 2 ^ (27 + p) = 4 * 2 ^ (25 + p)) by (replace (27 + p) with (2 + (25 + p)) by lia; rewrite Z.pow_add_r by lia; reflexivity).
  rewrite (bind_ok _ _ _ (shiftm_ok O p ltac:(lia) ltac:(lia))).
  rewrite (bind_ok _ _ (out - E)) by (apply ex_ok; lia).
  rewrite (bind_ok _ _ (out - E - p)) by (apply ex_ok; lia).
  set (t := out - E - p). assert (Ht : - 64 < t < 64 /\ p + Z.max 0 t <= 35) by (unfold t; lia).
  set (lower := ashift f u) in *. set (upper := ashift (f + 1) u) in *. set (offset := ashift O p) in *.
  assert (B5 : forall x, - (5 * 2 ^ (25 + p)) <= x <= 5 * 2 ^ (25 + p) -> - (5 * 2 ^ 60) <= ashift x t <= 5 * 2 ^ 60).
  { intros x Hx. pose proof (ashift_bound 5 x (25 + p) t ltac:(lia) ltac:(lia) Hx) as B.
    pose proof (pow2_le (25 + p + Z.max 0 t) 60 ltac:(lia)). lia. }
  rewrite (bind_ok _ _ (lower + offset)) by (apply ex_ok; lia).
  pose proof (B5 (lower + offset) ltac:(lia)) as Bmn.
  rewrite (bind_ok _ _ _ (shiftm_ok (lower + offset) t ltac:(lia) ltac:(lia))).
  rewrite (bind_ok _ _ (upper + offset)) by (apply ex_ok; lia).
  rewrite (bind_ok _ _ (- (upper + offset))) by (apply ex_ok; lia).
  pose proof (B5 (- (upper + offset)) ltac:(lia)) as Bb.
  rewrite (bind_ok _ _ _ (shiftm_ok (- (upper + offset)) t ltac:(lia) ltac:(lia))).
  rewrite (bind_ok _ _ (- ashift (- (upper + offset)) t)) by (apply ex_ok; lia).
  rewrite (bind_ok _ _ (- ashift (- (upper + offset)) t - 1)) by (apply ex_ok; lia).
  rewrite (bind_ok _ _ _ (validatem_ok _ out false ltac:(lia))).
  destruct (index_exists (ashift (lower + offset) t) out false).
  - rewrite (bind_ok _ _ _ (validatem_ok _ out false ltac:(lia))). reflexivity.
  - rewrite (bind_ok _ _ false eq_refl). reflexivity.
Qed.

Theorem key2z64m_domain k kz out E O :
  0 <= kz <= 35 -> 0 <= out <= 35 -> 0 <= E <= 35 -> - 2 ^ 50 <= O <= 2 ^ 50 ->
  key2z64m k kz out E O = Some (key2z k kz out E O, true).
Proof.
  intros Hkz Hout HE HO. unfold key2z64m, key2z.
  rewrite (proj2 (zoom_ok_spec kz) Hkz), (proj2 (zoom_ok_spec out) Hout). cbn [negb orb].
  pose proof (pow2_le kz 35 ltac:(lia)) as Hpk. pose proof (pow2_le out 35 ltac:(lia)) as Hpo.
  rewrite (bind_ok _ _ _ (shiftm_ok 1 kz ltac:(lia) ltac:(rewrite ashift_1; lia))).
  rewrite !ashift_1.
  rewrite (bind_ok _ _ (2 ^ kz - 1)) by (apply ex_ok; lia).
  destruct (Z.ltb_spec (2 ^ kz - 1) k) as [K1|K1]; cbn [orb]; [reflexivity|].
  destruct (Z.ltb_spec k 0) as [K0|K0]; [reflexivity|].
  rewrite (bind_ok _ _ (E - kz)) by (apply ex_ok; lia).
  set (zd := E - kz). assert (Hzd : - 64 < zd < 64 /\ kz + Z.max 0 zd <= 35) by (unfold zd; lia).
  assert (Bk : forall g, - 2 ^ kz <= g <= 2 ^ kz -> - 2 ^ 35 <= ashift g zd <= 2 ^ 35).
  { intros g Hg. pose proof (ashift_bound 1 g kz zd ltac:(lia) ltac:(lia) ltac:(lia)) as B.
    pose proof (pow2_le (kz + Z.max 0 zd) 35 ltac:(lia)). lia. }
  pose proof (Bk k ltac:(lia)) as B1. pose proof (Bk (k + 1) ltac:(lia)) as B2.
  rewrite (bind_ok _ _ _ (shiftm_ok k zd ltac:(lia) ltac:(lia))).
  set (imax := if 0 <? zd then ashift (k + 1) zd - 1 else ashift k zd).
  assert (Eimax : (if 0 <? zd then k1 <- ex (k + 1);; x <- shiftm k1 zd;; ex (x - 1) else ret (ashift k zd)) = Some (imax, true)).
  { unfold imax. destruct (0 <? zd); [|reflexivity].
    rewrite (bind_ok _ _ (k + 1)) by (apply ex_ok; lia).
    rewrite (bind_ok _ _ _ (shiftm_ok (k + 1) zd ltac:(lia) ltac:(lia))). apply ex_ok. lia. }
  rewrite (bind_ok _ _ _ Eimax).
  assert (Bi : - 2 ^ 35 - 1 <= imax <= 2 ^ 35) by (unfold imax; destruct (0 <? zd); lia).
  rewrite (bind_ok _ _ (out - zorigin)) by (apply ex_ok; unfold zorigin; lia).
  set (od := out - zorigin). assert (Hod : - 64 < od < 64 /\ Z.max 0 od <= 10) by (unfold od, zorigin; lia).
  assert (E51 : 2 * 2 ^ 50 = 2 ^ 51) by reflexivity.
  assert (B3 : forall x, - (2 * 2 ^ 50) <= x <= 2 * 2 ^ 50 -> - 2 ^ 61 <= ashift x od <= 2 ^ 61).
  { intros x Hx. pose proof (ashift_bound 2 x 50 od ltac:(lia) ltac:(lia) Hx) as B.
    pose proof (pow2_le (50 + Z.max 0 od) 60 ltac:(lia)). replace (2 ^ 61) with (2 * 2 ^ 60) by reflexivity. lia. }
  assert (H35 : 2 ^ 35 + 1 < 2 ^ 50) by reflexivity.
  rewrite (bind_ok _ _ (ashift k zd - O)) by (apply ex_ok; lia).
  pose proof (B3 (ashift k zd - O) ltac:(lia)) as Ba.
  rewrite (bind_ok _ _ _ (shiftm_ok (ashift k zd - O) od ltac:(lia) ltac:(lia))).
  rewrite (bind_ok _ _ (imax - O)) by (apply ex_ok; lia).
  pose proof (B3 (imax - O) ltac:(lia)) as Bb.
  rewrite (bind_ok _ _ _ (shiftm_ok (imax - O) od ltac:(lia) ltac:(lia))).
  set (omax := if 0 <? od then ashift (imax - O + 1) od - 1 else ashift (imax - O) od).
  assert (Eomax : (if 0 <? od then b1 <- ex (imax - O + 1);; x <- shiftm b1 od;; ex (x - 1) else ret (ashift (imax - O) od)) = Some (omax, true)).
  { unfold omax. destruct (0 <? od); [|reflexivity].
    rewrite (bind_ok _ _ (imax - O + 1)) by (apply ex_ok; lia).
    pose proof (B3 (imax - O + 1) ltac:(lia)) as Bc.
    rewrite (bind_ok _ _ _ (shiftm_ok (imax - O + 1) od ltac:(lia) ltac:(lia))). apply ex_ok. lia. }
  rewrite (bind_ok _ _ _ Eomax).
  rewrite (bind_ok _ _ _ (shiftm_ok 1 out ltac:(lia) ltac:(rewrite ashift_1; lia))). rewrite ashift_1.
  rewrite (bind_ok _ _ (2 ^ out - 1)) by (apply ex_ok; lia).
  rewrite (bind_ok _ _ (- 2 ^ out)) by (apply ex_ok; lia).
  reflexivity.
Qed.

(* hence, on that domain, what the Go code returns meets the specification *)
Corollary z2key64_domain_spec f z out E O :
  0 <= z <= 35 -> 0 <= out <= 35 -> 0 <= E <= 35 -> - 2 ^ 27 <= O <= 2 ^ 27 ->
  exists r, go_result (z2key64m f z out E O) = Some r /\ conv_spec (sid_scale z) f (key_scale out E O) r.
Proof. intros. rewrite z2key64m_domain by assumption. eexists. split; [reflexivity|apply z2key_conv]. Qed.
Corollary key2z64_domain_spec k kz out E O :
  0 <= kz <= 35 -> 0 <= out <= 35 -> 0 <= E <= 35 -> - 2 ^ 50 <= O <= 2 ^ 50 ->
  exists r, go_result (key2z64m k kz out E O) = Some r /\ conv_spec (key_scale kz E O) k (sid_scale out) r.
Proof. intros. rewrite key2z64m_domain by assumption. eexists. split; [reflexivity|apply key2z_conv]. Qed.

(* beyond it the forward direction can return a wrong answer: with offset 2^29, base exponent 0 and key zoom 35 the product
   (lower + offset) << toKey = 2^64 wraps to 0 and a full-range answer is returned although the exact cover starts at key 2^64 *)
Theorem int64_overflow_refuted :
  exists f z out E O, 0 <= z <= 35 /\ 0 <= out <= 35 /\ 0 <= E <= 35 /\ O = 2 ^ 29 /\
    go_result (z2key64m f z out E O) = Some (Ok (0, 2 ^ 35 - 1)) /\ z2key f z out E O = Err /\
    ~ conv_spec (sid_scale z) f (key_scale out E O) (Ok (0, 2 ^ 35 - 1)).
Proof.
  exists 0, 25, 35, 0, (2 ^ 29).
  split; [lia|]. split; [lia|]. split; [lia|]. split; [reflexivity|].
  split; [vm_compute; reflexivity|]. split; [vm_compute; reflexivity|].
  intros C. apply check_conv_sound in C. vm_compute in C. discriminate.
Qed.

(* ------------------------------------------------------------------------------------------------------------------------------ *)
(** * 8. Zoom guard of the exported conversions on int64, and where a panic remains reachable                                        *)

(* a zoom outside 0..35 (any int64, MinInt64 included) is answered with an error before any shift is computed: no wrap, no panic *)
Theorem z2key64m_bad_zoom f z out E O : ~ (0 <= z <= 35 /\ 0 <= out <= 35) -> z2key64m f z out E O = Some (Err, true).
Proof.
  intros N. unfold z2key64m. destruct (zoom_ok z) eqn:H1; [destruct (zoom_ok out) eqn:H2|]; cbn [negb orb]; try reflexivity.
  exfalso. apply N. apply zoom_ok_spec in H1, H2. tauto.
Qed.
Theorem key2z64m_bad_zoom k kz out E O : ~ (0 <= kz <= 35 /\ 0 <= out <= 35) -> key2z64m k kz out E O = Some (Err, true).
Proof.
  intros N. unfold key2z64m. destruct (zoom_ok kz) eqn:H1; [destruct (zoom_ok out) eqn:H2|]; cbn [negb orb]; try reflexivity.
  exfalso. apply N. apply zoom_ok_spec in H1, H2. tauto.
Qed.

Lemma bind_any {A B} (m : M A) (k : A -> M B) : m <> None -> (forall a, k a <> None) -> bind m k <> None.
Proof. unfold bind. destruct m as [[a e]|]; [|congruence]. intros _ H. specialize (H a). destruct (k a) as [[b e']|]; congruence. Qed.
Lemma bind_ex (x : Z) {B} (k : Z -> M B) : k (w64 x) <> None -> bind (ex x) k <> None.
Proof. unfold bind, ex. destruct (k (w64 x)) as [[b e']|]; congruence. Qed.
Lemma shiftm_some i s : - 2 ^ 63 < s < 2 ^ 63 -> shiftm i s <> None.
Proof.
  intros Hs. unfold shiftm. destruct (0 <=? s) eqn:H0.
  - destruct (64 <=? s); unfold ex; discriminate.
  - apply Z.leb_gt in H0. apply bind_ex. rewrite w64_id by (apply i64_spec; lia).
    destruct (Z.ltb_spec (- s) 0); [lia|]. destruct (64 <=? - s); unfold ret; discriminate.
Qed.
Lemma validatem_some i z neg : - 2 ^ 63 < z < 2 ^ 63 -> validatem i z neg <> None.
Proof.
  intros Hz. unfold validatem. apply bind_any; [now apply shiftm_some|]. intros r. apply bind_ex.
  apply bind_any; [destruct neg; unfold ex, ret; discriminate|]. intros mn. unfold ret. discriminate.
Qed.

(* the exported conversions cannot panic as long as the base exponent is not astronomically negative/positive ... *)
Theorem z2key64m_no_panic f z out E O : - 2 ^ 62 <= E <= 2 ^ 62 -> z2key64m f z out E O <> None.
Proof.
  intros HE. unfold z2key64m.
  destruct (zoom_ok z) eqn:Hz; [destruct (zoom_ok out) eqn:Ho|]; cbn [negb orb]; try (unfold ret; discriminate).
  apply zoom_ok_spec in Hz, Ho.
  apply bind_any; [apply validatem_some; lia|]. intros ok. destruct (negb ok); [unfold ret; discriminate|].
  apply bind_ex. rewrite (w64_id (z - zorigin)) by (apply i64_spec; unfold zorigin; lia).
  set (p := if z - zorigin <? 0 then 0 else z - zorigin). cbv zeta. fold p.
  assert (Hp : 0 <= p <= 10) by (unfold p, zorigin; destruct (Z.ltb_spec (z - 25) 0); lia).
  apply bind_ex. rewrite (w64_id (zorigin - z)) by (apply i64_spec; unfold zorigin; lia).
  apply bind_ex. rewrite (w64_id (zorigin - z + p)) by (apply i64_spec; unfold zorigin; lia).
  apply bind_any; [apply shiftm_some; unfold zorigin; lia|]. intros lower.
  apply bind_ex. apply bind_any; [apply shiftm_some; unfold zorigin; lia|]. intros upper.
  apply bind_any; [apply shiftm_some; lia|]. intros offset.
  apply bind_ex. rewrite (w64_id (out - E)) by (apply i64_spec; lia).
  apply bind_ex. rewrite (w64_id (out - E - p)) by (apply i64_spec; lia).
  apply bind_ex. apply bind_any; [apply shiftm_some; lia|]. intros mn.
  apply bind_ex. apply bind_ex. apply bind_any; [apply shiftm_some; lia|]. intros b.
  apply bind_ex. apply bind_ex.
  apply bind_any; [apply validatem_some; lia|]. intros ok1.
  apply bind_any; [destruct ok1; [apply validatem_some; lia|unfold ret; discriminate]|]. intros ok2. unfold ret. discriminate.
Qed.
Theorem key2z64m_no_panic k kz out E O : - 2 ^ 62 <= E <= 2 ^ 62 -> key2z64m k kz out E O <> None.
Proof.
  intros HE. unfold key2z64m.
  destruct (zoom_ok kz) eqn:Hz; [destruct (zoom_ok out) eqn:Ho|]; cbn [negb orb]; try (unfold ret; discriminate).
  apply zoom_ok_spec in Hz, Ho.
  apply bind_any; [apply shiftm_some; lia|]. intros inres. apply bind_ex.
  destruct (_ || _); [unfold ret; discriminate|].
  apply bind_ex. rewrite (w64_id (E - kz)) by (apply i64_spec; lia).
  apply bind_any; [apply shiftm_some; lia|]. intros imin.
  apply bind_any.
  { destruct (0 <? E - kz); [|unfold ret; discriminate]. apply bind_ex. apply bind_any; [apply shiftm_some; lia|]. intros x. unfold ex. discriminate. }
  intros imax. apply bind_ex. rewrite (w64_id (out - zorigin)) by (apply i64_spec; unfold zorigin; lia).
  apply bind_ex. apply bind_any; [apply shiftm_some; unfold zorigin; lia|]. intros omin.
  apply bind_ex. apply bind_any; [apply shiftm_some; unfold zorigin; lia|]. intros omax0.
  apply bind_any.
  { destruct (0 <? out - zorigin); [|unfold ret; discriminate]. apply bind_ex. apply bind_any; [apply shiftm_some; unfold zorigin; lia|]. intros x. unfold ex. discriminate. }
  intros omax. apply bind_any; [apply shiftm_some; lia|]. intros ores. apply bind_ex. apply bind_ex. unfold ret. discriminate.
Qed.
(* ... but zBaseExponent is not validated: with zBaseExponent = MinInt64 + outputZoom (forward) or MinInt64 + key zoom (backward)
   the shift count is MinInt64, its negation wraps, and Go panics with "negative shift amount" *)
Theorem exponent_panic_refuted :
  go_result (z2key64m 0 25 10 (- 2 ^ 63 + 10) 0) = None /\ go_result (key2z64m 0 3 25 (- 2 ^ 63 + 3) 0) = None.
Proof. split; vm_compute; reflexivity. Qed.

(* the backward direction wraps too, much later: with key zoom 0, base exponent 0, offset 2^54 and target zoom 35 the key cell is
   [-2^54, -2^54+1) m, far below the spatial-ID range, but (imin - O) << 10 = -2^64 wraps to 0 and (0, 1023) is returned *)
Theorem int64_overflow_refuted_backward :
  exists k kz out E O, 0 <= kz <= 35 /\ 0 <= out <= 35 /\ 0 <= E <= 35 /\ O = 2 ^ 54 /\
    go_result (key2z64m k kz out E O) = Some (Ok (0, 1023)) /\ key2z k kz out E O = Err /\
    ~ conv_spec (key_scale kz E O) k (sid_scale out) (Ok (0, 1023)).
Proof.
  exists 0, 0, 35, 0, (2 ^ 54).
  split; [lia|]. split; [lia|]. split; [lia|]. split; [reflexivity|].
  split; [vm_compute; reflexivity|]. split; [vm_compute; reflexivity|].
  intros C. apply check_conv_sound in C. vm_compute in C. discriminate.
Qed.
(* the bounds 2^27 / 2^50 of section 7 are sufficient, not tight: the first forward wrap inside the zoom/exponent domain is at offset 7*2^25 *)
Example first_forward_wrap :
  exact64 (z2key64m (2 ^ 35 - 1) 35 35 0 (7 * 2 ^ 25)) = false /\ exact64 (z2key64m (2 ^ 35 - 1) 35 35 0 (7 * 2 ^ 25 - 1)) = true.
Proof. split; vm_compute; reflexivity. Qed.
