(* LineA1.v — assumption A1 of the chain theorem (Line.mids_chain), axis by axis, at the level of real numbers:
   when the recursion stops because all three spans are below the thresholds, the voxels of start, midpoint and end are
   pairwise equal or neighbours on every axis.
   - longitude and altitude: from the six thresholds against the cell sizes (2^h * thr <= 360, thr <= 2^(25-v)), all zooms 0..35;
   - latitude: from the mean-value bound |L b - L a| <= max(1/cos) * |b - a| for the Mercator northing L, with
     1/cos <= 11.6 on |lat| <= 85.0511287798 (Coquelicot + Interval).
   The index functions here are the exact ones (floor of the real-number formula) and the midpoint is the exact midpoint;
   the float code's rounding (a few ulps, against margins of 1.45x and more) is the stated gap: see meta/C06.json. *)
From Coq Require Import ZArith Reals Lra Lia Psatz.
From Flocq Require Import Core.
From Coquelicot Require Import Coquelicot.
From Interval Require Import Tactic.
From SID Require Import Base Ids Line.
Open Scope R_scope.

(* ---- floors of nearby reals ---- *)
Lemma Zfloor_close a b : Rabs (a - b) <= 1 -> (-1 <= Zfloor a - Zfloor b <= 1)%Z.
Proof.
  intros H. apply Rabs_le_inv in H.
  pose proof (Zfloor_lb a). pose proof (Zfloor_ub a). pose proof (Zfloor_lb b). pose proof (Zfloor_ub b).
  split.
  - assert (IZR (Zfloor b) < IZR (Zfloor a) + 2) by lra.
    assert (Zfloor b < Zfloor a + 2)%Z by (apply lt_IZR; rewrite plus_IZR; simpl; lra). lia.
  - assert (IZR (Zfloor a) < IZR (Zfloor b) + 2) by lra.
    assert (Zfloor a < Zfloor b + 2)%Z by (apply lt_IZR; rewrite plus_IZR; simpl; lra). lia.
Qed.
(* two points at most two cells apart: the midpoint's cell is equal or adjacent to both end cells *)
Lemma mid_cells a b : Rabs (b - a) <= 2 ->
  (-1 <= Zfloor ((a + b) / 2) - Zfloor a <= 1)%Z /\ (-1 <= Zfloor b - Zfloor ((a + b) / 2) <= 1)%Z.
Proof.
  intros H. apply Rabs_le_inv in H. split; apply Zfloor_close; apply Rabs_le; lra.
Qed.

Lemma pow2_le_35 h : (0 <= h <= 35)%Z -> 1 <= IZR (2 ^ h) <= IZR (2 ^ 35).
Proof.
  intros Hh. split.
  - apply IZR_le. pose proof (Z.pow_le_mono_r 2 0 h ltac:(lia) ltac:(lia)). simpl in *. lia.
  - apply IZR_le. apply Z.pow_le_mono_r; lia.
Qed.

(* ---- thresholds (shape/line.go) as real numbers ---- *)
Definition thr_lon (h : Z) : R := if (31 <=? h)%Z then 5 / 1000000000 else 2 / 100000000.
Definition thr_lat (h : Z) : R := if (31 <=? h)%Z then 5 / 10000000000 else 2 / 100000000.
Definition thr_alt (v : Z) : R := if (34 <=? v)%Z then 5 / 10000 else 3 / 1000.

(* ---- exact index functions of shape/point.go ---- *)
Definition Xr (h : Z) (lon : R) : Z := Zfloor (IZR (2 ^ h) * ((lon + 180) / 360)).
Definition Fr (v : Z) (alt : R) : Z := Zfloor (alt * IZR (2 ^ v) / IZR (2 ^ 25)).
Definition Lm (phi : R) : R := ln (tan phi + 1 / cos phi).                 (* Mercator northing of a latitude in radians *)
Definition Yr (h : Z) (lat : R) : Z := Zfloor (IZR (2 ^ h) * (1 - Lm (lat * (PI / 180)) / PI) / 2).

(* ---- longitude: 2^h * thr <= 360 (<= 2 cells would be enough) ---- *)
Lemma lon_cells h : (0 <= h <= 35)%Z -> IZR (2 ^ h) * thr_lon h <= 360.
Proof.
  intros Hh. unfold thr_lon. destruct (Z.leb_spec 31 h).
  - pose proof (pow2_le_35 h Hh) as [_ H1]. change (2 ^ 35)%Z with 34359738368%Z in H1. lra.
  - assert (IZR (2 ^ h) <= IZR (2 ^ 30)) by (apply IZR_le; apply Z.pow_le_mono_r; lia).
    change (2 ^ 30)%Z with 1073741824%Z in *. lra.
Qed.
Theorem A1_lon h s e : (0 <= h <= 35)%Z -> Rabs (e - s) < thr_lon h ->
  (-1 <= Xr h ((s + e) / 2) - Xr h s <= 1)%Z /\ (-1 <= Xr h e - Xr h ((s + e) / 2) <= 1)%Z.
Proof.
  intros Hh Hd. unfold Xr. pose proof (lon_cells h Hh) as Hc. pose proof (pow2_le_35 h Hh) as [Hp _].
  set (w := IZR (2 ^ h)) in *.
  replace (w * (((s + e) / 2 + 180) / 360)) with ((w * ((s + 180) / 360) + w * ((e + 180) / 360)) / 2) by field.
  apply mid_cells.
  replace (w * ((e + 180) / 360) - w * ((s + 180) / 360)) with (w * (e - s) / 360) by field.
  apply Rabs_le. apply Rabs_lt_inv in Hd. split; nra.
Qed.

(* ---- altitude: thr <= 2^(25-v) ---- *)
Lemma alt_cells v : (0 <= v <= 35)%Z -> thr_alt v * IZR (2 ^ v) <= IZR (2 ^ 25).
Proof.
  intros Hv. unfold thr_alt. change (2 ^ 25)%Z with 33554432%Z. destruct (Z.leb_spec 34 v).
  - pose proof (pow2_le_35 v Hv) as [_ H1]. change (2 ^ 35)%Z with 34359738368%Z in H1. lra.
  - assert (IZR (2 ^ v) <= IZR (2 ^ 33)) by (apply IZR_le; apply Z.pow_le_mono_r; lia).
    change (2 ^ 33)%Z with 8589934592%Z in *. lra.
Qed.
Theorem A1_alt v s e : (0 <= v <= 35)%Z -> Rabs (e - s) < thr_alt v ->
  (-1 <= Fr v ((s + e) / 2) - Fr v s <= 1)%Z /\ (-1 <= Fr v e - Fr v ((s + e) / 2) <= 1)%Z.
Proof.
  intros Hv Hd. unfold Fr. pose proof (alt_cells v Hv) as Hc. pose proof (pow2_le_35 v Hv) as [Hp _].
  change (2 ^ 25)%Z with 33554432%Z in *. set (w := IZR (2 ^ v)) in *.
  replace ((s + e) / 2 * w / 33554432) with ((s * w / 33554432 + e * w / 33554432) / 2) by field.
  apply mid_cells.
  replace (e * w / 33554432 - s * w / 33554432) with ((e - s) * w / 33554432) by field.
  apply Rabs_le. apply Rabs_lt_inv in Hd. split; nra.
Qed.

(* ---- latitude: mean-value bound ---- *)
Lemma cos_pos_dom phi : - (PI/2) < phi < PI/2 -> 0 < cos phi.
Proof. intros H. apply cos_gt_0; lra. Qed.
Lemma sec_plus_tan_pos phi : - (PI / 2) < phi < PI / 2 -> 0 < tan phi + 1 / cos phi.
Proof.
  intros H. pose proof (cos_pos_dom phi H) as Hc.
  unfold tan. replace (sin phi / cos phi + 1 / cos phi) with ((1 + sin phi) / cos phi) by (field; lra).
  apply Rdiv_lt_0_compat; [|exact Hc].
  pose proof (SIN_bound phi) as [Hs _].
  destruct (Req_dec (sin phi) (-1)) as [E|N]; [|lra].
  exfalso. pose proof (sin2_cos2 phi) as S. unfold Rsqr in S. rewrite E in S. nra.
Qed.
Lemma Lm_derive phi : - (PI/2) < phi < PI/2 -> is_derive Lm phi (1 / cos phi).
Proof.
  intros H. pose proof (cos_pos_dom phi H) as Hc. pose proof (sec_plus_tan_pos phi H) as Hp.
  unfold Lm. unfold tan.
  auto_derive.
  - unfold tan, Rdiv in Hp. repeat split; lra.
  - pose proof (sin2_cos2 phi) as S. unfold Rsqr in S.
    assert (H1 : 0 < 1 + sin phi).
    { unfold tan in Hp. replace (sin phi / cos phi + 1 / cos phi) with ((1 + sin phi) / cos phi) in Hp by (field; lra).
      apply Rmult_lt_reg_r with (/ cos phi); [apply Rinv_0_lt_compat; lra|]. unfold Rdiv in Hp. lra. }
    field_simplify_eq; [|repeat split; nra].
    nra.
Qed.
(* |Lm b - Lm a| <= K (b - a) when 1/cos <= K between a and b *)
Lemma Lm_lipschitz a b K : - (PI/2) < a -> a <= b -> b < PI/2 ->
  (forall x, a <= x <= b -> 1 / cos x <= K) -> Rabs (Lm b - Lm a) <= K * (b - a).
Proof.
  intros Ha Hab Hb HK.
  destruct (MVT_gen Lm a b (fun x => 1 / cos x)) as (c & Hc & E).
  - intros x Hx. rewrite Rmin_left, Rmax_right in Hx by lra. apply Lm_derive. lra.
  - intros x Hx. rewrite Rmin_left, Rmax_right in Hx by lra.
    apply derivable_continuous_pt. exists (1 / cos x). apply is_derive_Reals. apply Lm_derive. lra.
  - rewrite Rmin_left, Rmax_right in Hc by lra. rewrite E.
    assert (0 < cos c) by (apply cos_pos_dom; lra).
    assert (0 < 1 / cos c) by (apply Rdiv_lt_0_compat; lra).
    rewrite Rabs_pos_eq by nra. specialize (HK c Hc). nra.
Qed.

Definition lat_max : R := 850511287798 / 10000000000.      (* 85.0511287798 *)
(* the derivative of the northing is at most 11.6 on the documented latitude domain *)
Lemma sec_bound lat : Rabs lat <= lat_max -> 1 / cos (lat * (PI / 180)) <= 116 / 10.
Proof.
  unfold lat_max. intros H. apply Rabs_le_inv in H.
  interval with (i_bisect lat, i_prec 40).
Qed.
Lemma lat_rad_dom lat : Rabs lat <= lat_max -> - (PI / 2) < lat * (PI / 180) < PI / 2.
Proof.
  unfold lat_max. intros H. apply Rabs_le_inv in H. pose proof PI_RGT_0. split; nra.
Qed.

(* difference of the real-number rows of two latitudes of the domain, in cells *)
Lemma row_lipschitz h a b : Rabs a <= lat_max -> Rabs b <= lat_max -> a <= b ->
  Rabs (IZR (2 ^ h) * (1 - Lm (b * (PI / 180)) / PI) / 2 - IZR (2 ^ h) * (1 - Lm (a * (PI / 180)) / PI) / 2)
  <= Rabs (IZR (2 ^ h)) * (116 / 10) / 360 * (b - a).
Proof.
  intros Ha Hb Hab. pose proof PI_RGT_0 as Hpi.
  pose proof (lat_rad_dom a Ha) as Da. pose proof (lat_rad_dom b Hb) as Db.
  assert (HL : Rabs (Lm (b * (PI / 180)) - Lm (a * (PI / 180))) <= 116 / 10 * (b * (PI / 180) - a * (PI / 180))).
  { apply Lm_lipschitz; try lra; [nra|].
    intros x Hx. replace x with ((x * (180 / PI)) * (PI / 180)) by (field; lra). apply sec_bound.
    apply Rabs_le_inv in Ha, Hb. apply Rabs_le.
    assert (a <= x * (180 / PI) <= b).
    { split.
      - apply Rmult_le_reg_r with (PI / 180); [lra|]. replace (x * (180 / PI) * (PI / 180)) with x by (field; lra). lra.
      - apply Rmult_le_reg_r with (PI / 180); [lra|]. replace (x * (180 / PI) * (PI / 180)) with x by (field; lra). lra. }
    lra. }
  set (w := IZR (2 ^ h)) in *. set (la := Lm (a * (PI / 180))) in *. set (lb := Lm (b * (PI / 180))) in *.
  replace (w * (1 - lb / PI) / 2 - w * (1 - la / PI) / 2) with (w * (- (lb - la) / (2 * PI))) by (field; lra).
  rewrite Rabs_mult. unfold Rdiv at 1. rewrite Rabs_mult, Rabs_Ropp.
  rewrite (Rabs_pos_eq (/ (2 * PI))) by (left; apply Rinv_0_lt_compat; lra).
  pose proof (Rabs_pos w) as Hw.
  replace (Rabs w * (116 / 10) / 360 * (b - a)) with (Rabs w * ((116 / 10 * (b * (PI / 180) - a * (PI / 180))) * / (2 * PI))) by (field; lra).
  apply Rmult_le_compat_l; [exact Hw|]. apply Rmult_le_compat_r; [left; apply Rinv_0_lt_compat; lra|exact HL].
Qed.

(* 2^h * thr * 11.6 / 360 <= 1 (0.69 for h <= 30, 0.55 for h = 35): below the threshold the real row moves by less than a cell *)
Lemma lat_cells h : (0 <= h <= 35)%Z -> IZR (2 ^ h) * (116 / 10) / 360 * thr_lat h <= 1.
Proof.
  intros Hh. unfold thr_lat. destruct (Z.leb_spec 31 h).
  - pose proof (pow2_le_35 h Hh) as [P0 P1]. change (2 ^ 35)%Z with 34359738368%Z in P1. lra.
  - assert (P1 : IZR (2 ^ h) <= IZR (2 ^ 30)) by (apply IZR_le; apply Z.pow_le_mono_r; lia).
    pose proof (pow2_le_35 h Hh) as [P0 _]. change (2 ^ 30)%Z with 1073741824%Z in *. lra.
Qed.
(* rows of two latitudes below the threshold, and of any latitude between them, are equal or adjacent *)
Theorem A1_lat h s e m : (0 <= h <= 35)%Z -> Rabs s <= lat_max -> Rabs e <= lat_max ->
  Rabs (e - s) < thr_lat h -> Rmin s e <= m <= Rmax s e ->
  (-1 <= Yr h m - Yr h s <= 1)%Z /\ (-1 <= Yr h e - Yr h m <= 1)%Z.
Proof.
  intros Hh Hs He Hd Hm. pose proof (lat_cells h Hh) as Hc. pose proof (pow2_le_35 h Hh) as [Hp _].
  assert (Hmd : Rabs m <= lat_max).
  { apply Rabs_le_inv in Hs, He. apply Rabs_le. unfold Rmin, Rmax in Hm. destruct (Rle_dec s e); lra. }
  assert (Habs : Rabs (IZR (2 ^ h)) = IZR (2 ^ h)) by (apply Rabs_pos_eq; lra).
  assert (Hrow : forall a b, Rabs a <= lat_max -> Rabs b <= lat_max -> Rabs (b - a) < thr_lat h ->
            (-1 <= Yr h b - Yr h a <= 1)%Z).
  { intros a b Ha Hb Hab. unfold Yr. apply Zfloor_close.
    destruct (Rle_dec a b) as [L|L].
    - eapply Rle_trans; [apply (row_lipschitz h a b Ha Hb L)|]. rewrite Habs.
      rewrite Rabs_pos_eq in Hab by lra. nra.
    - rewrite Rabs_minus_sym. eapply Rle_trans; [apply (row_lipschitz h b a Hb Ha ltac:(lra))|]. rewrite Habs.
      rewrite Rabs_left in Hab by lra. nra. }
  assert (Hsm : Rabs (m - s) < thr_lat h /\ Rabs (e - m) < thr_lat h).
  { apply Rabs_lt_inv in Hd. unfold Rmin, Rmax in Hm. split; apply Rabs_lt; destruct (Rle_dec s e); lra. }
  split; apply Hrow; tauto.
Qed.

(* ---- A1 for the exact (real-number) voxel function, all three axes together ---- *)
Definition voxR (h v : Z) (lon lat alt : R) : eid := mk h (Xr h lon) (Yr h lat) v (Fr v alt).
(* below the thresholds of shape/line.go, on the documented domain, the voxels of start, exact midpoint and end are equal or
   plain 26-neighbours (hence also neighbours in the code's modular sense) *)
Theorem A1_real h v ls ps zs le pe ze : (0 <= h <= 35)%Z -> (0 <= v <= 35)%Z ->
  Rabs ps <= lat_max -> Rabs pe <= lat_max ->
  Rabs (le - ls) < thr_lon h -> Rabs (pe - ps) < thr_lat h -> Rabs (ze - zs) < thr_alt v ->
  adjP (voxR h v ls ps zs) (voxR h v ((ls + le) / 2) ((ps + pe) / 2) ((zs + ze) / 2)) /\
  adjP (voxR h v ((ls + le) / 2) ((ps + pe) / 2) ((zs + ze) / 2)) (voxR h v le pe ze).
Proof.
  intros Hh Hv Ds De Hl Hp Hz.
  destruct (A1_lon h ls le Hh Hl) as [X1 X2]. destruct (A1_alt v zs ze Hv Hz) as [F1 F2].
  assert (Hm : Rmin ps pe <= (ps + pe) / 2 <= Rmax ps pe).
  { unfold Rmin, Rmax. destruct (Rle_dec ps pe); lra. }
  destruct (A1_lat h ps pe ((ps + pe) / 2) Hh Ds De Hp Hm) as [Y1 Y2].
  unfold adjP, voxR, mk; cbn [eh ev ex ey ef]. repeat split; lia.
Qed.
