(* YF.v — C01, latitude axis, binary64 side: whatever Go's math.Tan / Cos / Log answer (oracle), the row computed by
   getHorizontalTileIdOnPoint (PointF.y_f) is floor(2^h * m / 2) for the single float m = 1 - L/pi, because the zoom only
   scales m by an exact power of two.  Hence the rows of one latitude at all zooms are nested (y_h = anc (35-h) y_35) and
   0 <= y_35 < 2^35 implies 0 <= y_h < 2^h.  How close m/2 is to the real Mercator fraction is not proved here:
   it is certified per sample by interval arithmetic (meta step "latcert"). *)
From Coq Require Import ZArith Reals Lia Lra Floats List Bool.
From Flocq Require Import Core BinarySingleNaN Mult_error.
From Flocq Require PrimFloat.
From SID Require Import Base F64 PointF Voxel PtBridge.
Import ListNotations.
Open Scope Z_scope.

Lemma c2_val : fval 2%float = 2%R /\ ffin 2%float = true.
Proof. split; [unfold fval; vm_compute; lra | vm_compute; reflexivity]. Qed.

Section WithOracle.
  Variable m_tan m_cos m_log : pfloat -> pfloat.

  (* the float  1 - Log(Tan(r) + 1/Cos(r)) / Pi  of the code *)
  Definition merc_m (lat : pfloat) : pfloat :=
    let r := (lat * c_deg2rad)%float in (1 - m_log (m_tan r + 1 / m_cos r) / c_pi)%float.
  Lemma y_f_unfold lat h : y_f m_tan m_cos m_log lat h = Ztrunc_f (ffloor (pow2f h * merc_m lat / 2)).
  Proof. reflexivity. Qed.

  (* Go evaluates  Pow(2,h) * m / 2  as  (Pow(2,h) * m) / 2; both operations are exact *)
  Lemma y_f_exact lat h : 0 <= h <= 35 -> ffin (merc_m lat) = true -> (Rabs (fval (merc_m lat)) <= 4)%R ->
    (1 <= h \/ fval (merc_m lat) = 0%R \/ (bpow radix2 (-1021) <= Rabs (fval (merc_m lat)))%R) ->
    y_f m_tan m_cos m_log lat h = Some (Zfloor (bpow radix2 h * (fval (merc_m lat) / 2))).
  Proof.
    intros Hh Fm Bm Hu. rewrite y_f_unfold. set (m := merc_m lat) in *.
    destruct (pow2f_value h ltac:(lia)) as [Vp Fp]. destruct c2_val as [V2 F2].
    assert (P35 : (bpow radix2 h <= bpow radix2 35)%R) by (apply bpow_le; lia).
    assert (Ph : (0 < bpow radix2 h)%R) by apply bpow_gt_0.
    assert (B1 : (Rabs (bpow radix2 h * fval m) <= bpow radix2 37)%R).
    { rewrite Rabs_mult, (Rabs_pos_eq (bpow radix2 h)) by lra. replace 37 with (35 + 2) by lia. rewrite bpow_plus.
      apply Rmult_le_compat; [lra | apply Rabs_pos | exact P35 | simpl; lra]. }
    assert (G1 : fmt (bpow radix2 h * fval m)).
    { rewrite Rmult_comm. apply fmt_scale_pos; [apply fmt_fval | lia]. }
    destruct (mul_val (pow2f h) m Fp Fm) as [V1 F1].
    { rewrite Vp, (rnd_fmt _ G1). apply Rle_lt_trans with (1 := B1). apply bpow_lt. lia. }
    rewrite Vp, (rnd_fmt _ G1) in V1.
    assert (E2 : (bpow radix2 h * fval m / 2 = fval m * bpow radix2 (h - 1))%R).
    { replace (h - 1) with (h + -1) by lia. rewrite bpow_plus. replace (bpow radix2 (-1)) with (/ 2)%R by (simpl; lra). field. }
    assert (G2 : fmt (bpow radix2 h * fval m / 2)).
    { rewrite E2. destruct Hu as [H1 | [H0 | Hn]].
      - apply fmt_scale_pos; [apply fmt_fval | lia].
      - rewrite H0, Rmult_0_l. apply generic_format_0.
      - apply fmt_scale; [apply fmt_fval|].
        assert (M : -1020 <= mag radix2 (fval m)) by (apply mag_ge_bpow; exact Hn). lia. }
    assert (B2 : (Rabs (bpow radix2 h * fval m / 2) <= bpow radix2 37)%R).
    { unfold Rdiv. rewrite Rabs_mult, (Rabs_pos_eq (/ 2)) by lra. pose proof (Rabs_pos (bpow radix2 h * fval m)). lra. }
    destruct (div_val (pow2f h * m) 2 F1) as [V3 F3].
    { rewrite V2. lra. }
    { rewrite V1, V2, (rnd_fmt _ G2). apply Rle_lt_trans with (1 := B2). apply bpow_lt. lia. }
    rewrite V1, V2, (rnd_fmt _ G2) in V3.
    rewrite Ztrunc_ffloor; [| exact F3 | rewrite V3; apply Rle_lt_trans with (1 := B2); apply bpow_lt; lia].
    rewrite V3. f_equal. f_equal. lra.
  Qed.

  (* zoom 0 when m/2 would be a denormal number: still row 0 (monotone rounding) *)
  Lemma y_f_zoom0_small lat : ffin (merc_m lat) = true -> (0 < fval (merc_m lat) < bpow radix2 (-1021))%R ->
    y_f m_tan m_cos m_log lat 0 = Some 0.
  Proof.
    intros Fm [M0 M1]. rewrite y_f_unfold. set (m := merc_m lat) in *.
    destruct (pow2f_value 0 ltac:(lia)) as [Vp Fp]. destruct c2_val as [V2 F2]. simpl (bpow radix2 0) in Vp.
    assert (S : (bpow radix2 (-1021) < 1)%R) by (change 1%R with (bpow radix2 0); apply bpow_lt; lia).
    assert (G1 : rnd (1 * fval m) = fval m) by (rewrite Rmult_1_l; apply rnd_fmt, fmt_fval).
    destruct (mul_val (pow2f 0) m Fp Fm) as [V1 F1].
    { rewrite Vp, G1, Rabs_pos_eq by lra. apply Rlt_trans with 1%R; [lra|]. change 1%R with (bpow radix2 0). apply bpow_lt. lia. }
    rewrite Vp, G1 in V1.
    assert (R : (0 <= rnd (fval m / 2) <= bpow radix2 (-1022))%R).
    { split.
      - rewrite <- rnd_0. apply rnd_le. lra.
      - rewrite <- (rnd_fmt (bpow radix2 (-1022))).
        + apply rnd_le. replace (-1021) with (1 + -1022) in M1 by lia. rewrite bpow_plus in M1. simpl (bpow radix2 1) in M1. lra.
        + replace (bpow radix2 (-1022)) with (IZR 1 * bpow radix2 (-1022))%R by ring. apply fmt_int; simpl; lia. }
    assert (S2 : (bpow radix2 (-1022) < 1)%R) by (change 1%R with (bpow radix2 0); apply bpow_lt; lia).
    destruct (div_val (pow2f 0 * m) 2 F1) as [V3 F3].
    { rewrite V2. lra. }
    { rewrite V1, V2, Rabs_pos_eq by lra. apply Rlt_trans with 1%R; [lra|]. change 1%R with (bpow radix2 0). apply bpow_lt. lia. }
    rewrite V1, V2 in V3.
    rewrite Ztrunc_ffloor; [| exact F3 |].
    - f_equal. apply Zfloor_imp. rewrite V3. simpl. lra.
    - rewrite V3, Rabs_pos_eq by lra. apply Rlt_trans with 1%R; [lra|]. change 1%R with (bpow radix2 0). apply bpow_lt. lia.
  Qed.

  (* in range: 0 <= m < 2. Then every zoom returns the exact floor of 2^h * (m/2) *)
  Theorem y_f_inrange lat h : 0 <= h <= 35 -> ffin (merc_m lat) = true -> (0 <= fval (merc_m lat) < 2)%R ->
    y_f m_tan m_cos m_log lat h = Some (Zfloor (bpow radix2 h * (fval (merc_m lat) / 2))).
  Proof.
    intros Hh Fm [M0 M2].
    destruct (Z.eq_dec h 0) as [-> | Hn].
    - destruct (Rle_or_lt (bpow radix2 (-1021)) (fval (merc_m lat))) as [L|L].
      + apply y_f_exact; [lia | exact Fm | rewrite Rabs_pos_eq by lra; lra |]. right. right. rewrite Rabs_pos_eq by lra. exact L.
      + destruct (Req_dec (fval (merc_m lat)) 0) as [E|N].
        * apply y_f_exact; [lia | exact Fm | rewrite Rabs_pos_eq by lra; lra | tauto].
        * rewrite y_f_zoom0_small; [| exact Fm | lra]. f_equal. symmetry. apply Zfloor_imp. simpl. lra.
    - apply y_f_exact; [exact Hh | exact Fm | rewrite Rabs_pos_eq by lra; lra | left; lia].
  Qed.

  (* (4) nesting and range, from the zoom-35 row alone *)
  Theorem y_f_nested lat r : ffin (merc_m lat) = true -> (Rabs (fval (merc_m lat)) <= 4)%R ->
    y_f m_tan m_cos m_log lat 35 = Some r -> 0 <= r < 2 ^ 35 ->
    forall h, 0 <= h <= 35 -> y_f m_tan m_cos m_log lat h = Some (anc (35 - h) r) /\ 0 <= anc (35 - h) r < 2 ^ h.
  Proof.
    intros Fm Bm Y35 Hr h Hh.
    rewrite y_f_exact in Y35; [| lia | exact Fm | exact Bm | left; lia].
    assert (Y : Zfloor (bpow radix2 35 * (fval (merc_m lat) / 2)) = r) by congruence. clear Y35. rename Y into Y35.
    set (w := (fval (merc_m lat) / 2)%R) in *.
    assert (P : (0 < bpow radix2 35)%R) by apply bpow_gt_0.
    assert (W : (0 <= w < 1)%R).
    { split.
      - destruct (Rle_or_lt 0 w) as [L|L]; [exact L|]. exfalso.
        assert (Zfloor (bpow radix2 35 * w) < 0); [|lia].
        apply lt_IZR. apply Rle_lt_trans with (bpow radix2 35 * w)%R; [apply Zfloor_lb | simpl (IZR 0); nra].
      - destruct (Rle_or_lt 1 w) as [L|L]; [|exact L]. exfalso.
        assert (2 ^ 35 <= Zfloor (bpow radix2 35 * w)); [|lia].
        apply Zfloor_lub. rewrite (IZR_pow2 35) by lia. nra. }
    assert (M : (0 <= fval (merc_m lat) < 2)%R) by (unfold w in W; lra).
    rewrite (y_f_inrange lat h Hh Fm M). fold w.
    rewrite (nested_floor w h 35) by lia. rewrite Y35. split; [reflexivity|].
    pose proof (anc_range (35 - h) 35 r ltac:(lia) Hr) as A. replace (35 - (35 - h)) with h in A by lia. exact A.
  Qed.
End WithOracle.
