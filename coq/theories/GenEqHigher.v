(* GenEqHigher.v — generated ExtendedSpatialID.Higher = ZoomCore.higher *)
From Coq Require Import ZArith Bool Lia.
From SIDGen Require Import Generated.
From SID Require Import Base Ids ZoomCore AltKeyCore GenTac.
Open Scope Z_scope.
Opaque Generated.CalculateArithmeticShift.

(* object.ExtendedSpatialID.Higher = ZoomCore.higher (receiver and result as field tuples, in the order of the Go struct) *)
Lemma gen_ExtendedSpatialID_Higher_eq : forall h x y v f hd vd,
  Generated.ExtendedSpatialID_Higher h x y v f hd vd = eid_tuple (higher (mk h x y v f) hd vd).
Proof. gen_eq models_higher. Qed.

Transparent Generated.CalculateArithmeticShift.
