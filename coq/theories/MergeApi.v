(* MergeApi.v — the string-level functions (MergeExtendedSpatialIds, MergeSpatialIds) on printed valid IDs, their error
   paths, and the property verdict computed by the dispatch entries (`prop_ext`, `prop_sid`) with its meaning. *)
From Coq Require Import ZArith String List Bool Lia Permutation.
From SID Require Import Base Str Ids ZoomCore Wire Merge MergeCheck MergeProof MergeRegion MergeIdem MergeCheckProof.
Import ListNotations.
Open Scope Z_scope.

Lemma valid_all_fields_ok l : (forall i, In i l -> valid i) -> forallb fields_ok l = true.
Proof. intros Hv. apply forallb_forall. intros i Hi. apply valid_fields_ok. now apply Hv. Qed.

(* MergeExtendedSpatialIds on ANY spelling of IDs that parse (canonical or "+1", "007", "-0"): the printed form of the code-level
   merge (int64 threshold) of the parsed records, and no error *)
Theorem merge_ext_api_parsed s l H V : 0 <= H <= 35 -> 0 <= V <= 35 -> parse_all s = Some l ->
  merge_ext_api s H V = Ok (map print_eid (merge_x64 H V l)).
Proof.
  intros HH HV P. unfold merge_ext_api.
  rewrite (proj2 (check_zoom_spec H) HH), (proj2 (check_zoom_spec V) HV). cbn [andb]. now rewrite P.
Qed.
(* as long as the threshold exponent 2*(MH-H) + (MV-V) stays below 63 the code-level merge is the mathematical one *)
Lemma merge_x64_merge_x H V l : fits64 H V l -> merge_x64 H V l = merge_x H V l.
Proof. apply merge64_merge. Qed.
(* MergeExtendedSpatialIds on the printed form of valid IDs returns the printed form of the model's merge, and no error *)
Theorem merge_ext_api_ok l H V : 0 <= H <= 35 -> 0 <= V <= 35 -> (forall i, In i l -> valid i) -> fits64 H V l ->
  merge_ext_api (map print_eid l) H V = Ok (map print_eid (merge_x H V l)).
Proof.
  intros HH HV Hv F. rewrite (merge_ext_api_parsed _ l H V HH HV (parse_all_print l (valid_all_fields_ok l Hv))).
  now rewrite merge_x64_merge_x.
Qed.
(* error paths: a target zoom outside 0..35, or any member that is not five '/'-separated int64 fields *)
Theorem merge_ext_api_bad_zoom ids H V : ~ (0 <= H <= 35 /\ 0 <= V <= 35) -> merge_ext_api ids H V = Err.
Proof.
  intros N. unfold merge_ext_api. destruct (check_zoom H) eqn:A; [|reflexivity]. destruct (check_zoom V) eqn:B; [|reflexivity].
  exfalso. apply N. split; now apply check_zoom_spec.
Qed.
Theorem merge_ext_api_malformed ids H V s : In s ids -> parse_eid s = None -> merge_ext_api ids H V = Err.
Proof.
  intros Hs Hp. unfold merge_ext_api. rewrite (parse_all_None ids s Hs Hp). now destruct (check_zoom H && check_zoom V).
Qed.

(* ---- spatial-ID notation z/f/x/y ---- *)
Definition print_sid (i : eid) : string := join [print (eh i); print (ef i); print (ex i); print (ey i)].
Lemma sid_to_eid_print i : ev i = eh i -> sid_to_eid_str (print_sid i) = Some (print_eid i).
Proof.
  intros E. unfold sid_to_eid_str, print_sid. rewrite split_join.
  - unfold print_eid. now rewrite E.
  - discriminate.
  - cbn. now rewrite !print_noslash.
Qed.
Lemma eid_to_sid_print i : eid_to_sid_str (print_eid i) = Some (print_sid i).
Proof.
  unfold eid_to_sid_str, print_eid. rewrite split_join.
  - reflexivity.
  - discriminate.
  - cbn. now rewrite !print_noslash.
Qed.
Lemma map_opt_map {A B C} (g : A -> B) (f : B -> option C) (h : A -> C) l :
  (forall a, In a l -> f (g a) = Some (h a)) -> map_opt f (map g l) = Some (map h l).
Proof.
  induction l as [|a r IH]; intros E; cbn [map map_opt]; [reflexivity|].
  rewrite (E a (or_introl eq_refl)), IH; [reflexivity|]. intros b Hb. apply E. now right.
Qed.

(* MergeSpatialIds on printed valid spatial IDs (h = v) = the merge at target (z, z), printed back in spatial-ID notation *)
Theorem merge_sid_api_ok l z : 0 <= z <= 35 -> (forall i, In i l -> valid i /\ ev i = eh i) -> fits64 z z l ->
  merge_sid_api (map print_sid l) z = Ok (map print_sid (merge_x z z l)).
Proof.
  intros Hz Hv F. unfold merge_sid_api, sids_to_eids.
  rewrite (map_opt_map print_sid sid_to_eid_str print_eid l) by (intros a Ha; apply sid_to_eid_print, Hv, Ha).
  rewrite (merge_ext_api_ok l z z Hz Hz (fun i Hi => proj1 (Hv i Hi)) F).
  unfold eids_to_sids. rewrite (map_opt_map print_eid eid_to_sid_str print_sid) by (intros; apply eid_to_sid_print). reflexivity.
Qed.
(* every ID returned for spatial-ID inputs has equal zooms again, so the spatial-ID notation loses nothing *)
Theorem merge_sid_zooms l z : 0 <= z -> (forall i, In i l -> valid i /\ ev i = eh i) ->
  forall o, In o (merge_x z z l) -> ev o = eh o.
Proof.
  intros Hz Hv o Ho.
  destruct (merge_only _ id_perm z z Hz Hz l (fun a Ha => valid_wfz a (proj1 (Hv a Ha))) o Ho) as [Hi|(j & _ & _ & -> & _)].
  - now apply Hv.
  - reflexivity.
Qed.

(* ---- the property verdict of the dispatch entries ---- *)
Definition in_domain (l : list eid) (H V : Z) : bool := check_zoom H && check_zoom V && forallb validb l.
Lemma in_domain_spec l H V : in_domain l H V = true <-> 0 <= H <= 35 /\ 0 <= V <= 35 /\ (forall i, In i l -> valid i).
Proof.
  unfold in_domain. rewrite !andb_true_iff, !check_zoom_spec, forallb_forall.
  split.
  - intros [[A B] C]. split; [exact A|]. split; [exact B|]. intros i Hi. apply validb_spec. now apply C.
  - intros (A & B & C). split; [split; assumption|]. intros i Hi. apply validb_spec. now apply C.
Qed.

(* on the property's domain (valid IDs, zooms 0..35): the observed value is a list of strings, no error, that parses to an
   output accepted by check_merge; outside the domain the property says nothing *)
Definition prop_ext (ids : list string) (H V : Z) (obs : val) : bool :=
  match parse_all ids with
  | Some l =>
      if in_domain l H V then
        match obs with
        | VE _ => false
        | _ => match as_LS obs with
               | Some o => match parse_all o with
                           | Some oo => list_eqb String.eqb (map print_eid oo) o && check_merge H V l oo   (* printed by ID(): canonical *)
                           | None => false
                           end
               | None => false
               end
        end
      else true
  | None => true
  end.

Definition prop_sid (ids : list string) (z : Z) (obs : val) : bool :=
  match sids_to_eids ids with
  | Ok e =>
      match obs with
      | VE _ => prop_ext e z z obs
      | _ => match as_LS obs with
             | Some o => match sids_to_eids o with Ok oe => prop_ext e z z (of_LS oe) | Err => prop_ext e z z (VE VNil) end
             | None => prop_ext e z z (VE VNil)
             end
      end
  | Err => true
  end.

Lemma as_LS_of_LS o : as_LS (of_LS o) = Some o.
Proof. unfold as_LS, of_LS. cbn [as_L]. induction o as [|a r IH]; cbn; [reflexivity|]. cbn in IH. now rewrite IH. Qed.

(* meaning of the verdict: a list of strings is accepted for valid inputs exactly when it parses to a duplicate-free list
   whose members are the specification set S (filled targets replaced, every other input unchanged) *)
Theorem prop_ext_correct l H V o : 0 <= H <= 35 -> 0 <= V <= 35 -> (forall i, In i l -> valid i) ->
  (prop_ext (map print_eid l) H V (of_LS o) = true <->
   exists oo, parse_all o = Some oo /\ map print_eid oo = o /\ NoDup oo /\ forall x, In x oo <-> S H V (fun i => In i l) x).
Proof.
  intros HH HV Hv. unfold prop_ext. rewrite (parse_all_print l (valid_all_fields_ok l Hv)).
  rewrite (proj2 (in_domain_spec l H V) (conj HH (conj HV Hv))).
  assert (Hwf : forall i, In i l -> wfz i) by (intros i Hi; apply valid_wfz, Hv, Hi).
  unfold of_LS at 1. rewrite as_LS_of_LS. destruct (parse_all o) as [oo|]; split.
  - intros C. apply andb_true_iff in C. destruct C as [K C]. exists oo. split; [reflexivity|].
    split; [now destruct (list_eqb_spec String.eqb String.eqb_spec (map print_eid oo) o)|].
    apply (check_merge_correct H V ltac:(lia) ltac:(lia) l Hwf oo). exact C.
  - intros (oo' & [= <-] & K & R). apply andb_true_iff. split.
    + now destruct (list_eqb_spec String.eqb String.eqb_spec (map print_eid oo) o).
    + apply (check_merge_correct H V ltac:(lia) ltac:(lia) l Hwf oo). exact R.
  - discriminate.
  - intros (oo' & [=] & _).
Qed.
(* an error, a panic or a non-list answer for valid inputs is rejected *)
Theorem prop_ext_rejects_error l H V v : 0 <= H <= 35 -> 0 <= V <= 35 -> (forall i, In i l -> valid i) ->
  prop_ext (map print_eid l) H V (VE v) = false.
Proof.
  intros HH HV Hv. unfold prop_ext. rewrite (parse_all_print l (valid_all_fields_ok l Hv)).
  now rewrite (proj2 (in_domain_spec l H V) (conj HH (conj HV Hv))).
Qed.
(* the model's own answer is always accepted: no false alarm on an implementation that agrees with the model *)
Theorem prop_ext_accepts_model l H V : 0 <= H <= 35 -> 0 <= V <= 35 -> (forall i, In i l -> valid i) -> fits64 H V l ->
  prop_ext (map print_eid l) H V (of_LS (map print_eid (merge_x64 H V l))) = true.
Proof.
  intros HH HV Hv F. rewrite (merge_x64_merge_x H V l F). apply (prop_ext_correct l H V _ HH HV Hv).
  assert (Hwf : forall i, In i l -> wfz i) by (intros i Hi; apply valid_wfz, Hv, Hi).
  exists (merge_x H V l). split; [|split; [reflexivity|split]].
  - apply parse_all_print. apply valid_all_fields_ok. intros o Ho.
    apply (merge_valid _ id_perm H V l ltac:(lia) ltac:(lia) Hv o Ho).
  - apply merge_NoDup, id_perm.
  - intros x. apply (merge_is_S _ id_perm H V ltac:(lia) ltac:(lia) l Hwf).
Qed.
