(* GenEq64Quadkey.v — the two bit loops of transform.convertHorizontalIDToQuadkey (`for i = 0; t > 0 && i < hZoom; i++ { m := t % 2; t = t / 2;
   quadkey += (m [* 2]) << (i * 2) }`), found by their role (the n-th top-level for loop: its condition, and its body followed by its post
   statement) and regenerated over Z (Generated.convertHorizontalIDToQuadkey_condX/_stepX/_condY/_stepY) and in int64 mode (Generated64.…):
   C11's model Quadkey.loopbits advances by the generated step while the generated condition holds; (b) bridge; the step is exact while the
   level i is at most 30 (quadkey zoom <= 31) and the key so far at most 2^62; at level 31 (zoom 32) the y bit is shifted out of range
   ([stepY_wraps_at_zoom_32]: C11 caps the zoom at 31 for this reason). Not regenerated: the string handling around the loops, the
   decoder (a walk over a base-4 string). *)
From Coq Require Import ZArith Bool Lia.
From SIDGen Require Import Generated Generated64.
From SID Require Import I64 GenEq64Tac Quadkey.
Open Scope Z_scope.

(* ---- the unbounded kernels and C11's model ---- *)
Lemma loopbits_over_generated_stepX : forall f i h t q,
  loopbits (S f) i h t 1 q =
  if Generated.convertHorizontalIDToQuadkey_condX q i t h
  then let '(q', i', t') := Generated.convertHorizontalIDToQuadkey_stepX q i t h in loopbits f i' h t' 1 q'
  else q.
Proof.
  intros. cbn [loopbits]. repeat autounfold with sidgen. cbv zeta. rewrite ?Z.gtb_ltb.
  destruct ((0 <? t) && (i <? h)); [|reflexivity]. repeat (f_equal; try lia).
Qed.
Lemma loopbits_over_generated_stepY : forall f i h t q,
  loopbits (S f) i h t 2 q =
  if Generated.convertHorizontalIDToQuadkey_condY q i t h
  then let '(q', i', t') := Generated.convertHorizontalIDToQuadkey_stepY q i t h in loopbits f i' h t' 2 q'
  else q.
Proof.
  intros. cbn [loopbits]. repeat autounfold with sidgen. cbv zeta. rewrite ?Z.gtb_ltb.
  destruct ((0 <? t) && (i <? h)); [|reflexivity]. repeat (f_equal; try lia).
Qed.

(* ---- (b) bridge ---- *)
Lemma gen64_convertHorizontalIDToQuadkey_condX_eq : forall q i t h,
  Generated64.convertHorizontalIDToQuadkey_condX q i t h = ret (Generated.convertHorizontalIDToQuadkey_condX q i t h).
Proof. reflexivity. Qed.
Lemma gen64_convertHorizontalIDToQuadkey_condY_eq : forall q i t h,
  Generated64.convertHorizontalIDToQuadkey_condY q i t h = ret (Generated.convertHorizontalIDToQuadkey_condY q i t h).
Proof. reflexivity. Qed.
Lemma gen64_convertHorizontalIDToQuadkey_stepX_exact : forall q i t h r,
  Generated64.convertHorizontalIDToQuadkey_stepX q i t h = Some (r, true) -> r = Generated.convertHorizontalIDToQuadkey_stepX q i t h.
Proof. bridge no_callee. Qed.
Lemma gen64_convertHorizontalIDToQuadkey_stepY_exact : forall q i t h r,
  Generated64.convertHorizontalIDToQuadkey_stepY q i t h = Some (r, true) -> r = Generated.convertHorizontalIDToQuadkey_stepY q i t h.
Proof. bridge no_callee. Qed.

(* ---- fits: levels 0..30, i.e. quadkey zooms up to 31 ---- *)
Lemma rem2_bounds t : 0 <= t -> 0 <= Z.rem t 2 <= 1.
Proof. intros H. pose proof (Z.rem_bound_pos t 2 H ltac:(lia)). lia. Qed.
Lemma shl_bit m k : 0 <= m <= 2 -> 0 <= k <= 60 -> 0 <= m * 2 ^ k <= 2 ^ 61.
Proof.
  intros Hm Hk. assert (1 <= 2 ^ k <= 2 ^ 60) by (split; [apply (Z.pow_le_mono_r 2 0 k); lia | apply Z.pow_le_mono_r; lia]).
  change (2 ^ 61) with (2 * 2 ^ 60). nia.
Qed.
Ltac okq slv :=
  first [ rewrite quot64_ok by slv | rewrite mul64_ok by slv | rewrite add64_ok by slv | rewrite shl64_ok by slv ];
  rewrite ?bind_ret_l; cbv beta zeta.
Theorem gen64_convertHorizontalIDToQuadkey_stepX_fits : forall q i t h,
  0 <= i <= 30 -> 0 <= t < 2 ^ 63 -> 0 <= q <= 2 ^ 62 ->
  Generated64.convertHorizontalIDToQuadkey_stepX q i t h = Some (Generated.convertHorizontalIDToQuadkey_stepX q i t h, true).
Proof.
  intros q i t h Hi Ht Hq. repeat autounfold with sidgen64. repeat autounfold with sidgen. cbv zeta. rewrite ?(Z.mul_comm 2 i).
  pose proof (rem2_bounds t ltac:(lia)) as Hr.
  assert (Hd : 0 <= Z.quot t 2 <= t) by (split; [apply Z.quot_pos; lia | apply Z.quot_le_upper_bound; lia]).
  pose proof (shl_bit (Z.rem t 2) (i * 2) ltac:(lia) ltac:(lia)) as Hs.
  assert (2 ^ 62 + 2 ^ 61 < 2 ^ 63) by (change (2 ^ 63) with (4 * 2 ^ 61); change (2 ^ 62) with (2 * 2 ^ 61); lia).
  unfold rem64. cbn [Z.eqb]. rewrite ?bind_ret_l.
  repeat (okq ltac:(rewrite ?Z.shiftl_mul_pow2 by lia; lia); rewrite ?(Z.mul_comm 2 i)). reflexivity.
Qed.
Theorem gen64_convertHorizontalIDToQuadkey_stepY_fits : forall q i t h,
  0 <= i <= 30 -> 0 <= t < 2 ^ 63 -> 0 <= q <= 2 ^ 62 ->
  Generated64.convertHorizontalIDToQuadkey_stepY q i t h = Some (Generated.convertHorizontalIDToQuadkey_stepY q i t h, true).
Proof.
  intros q i t h Hi Ht Hq. repeat autounfold with sidgen64. repeat autounfold with sidgen. cbv zeta. rewrite ?(Z.mul_comm 2 i).
  pose proof (rem2_bounds t ltac:(lia)) as Hr.
  assert (Hd : 0 <= Z.quot t 2 <= t) by (split; [apply Z.quot_pos; lia | apply Z.quot_le_upper_bound; lia]).
  pose proof (shl_bit (Z.rem t 2 * 2) (i * 2) ltac:(lia) ltac:(lia)) as Hs.
  assert (2 ^ 62 + 2 ^ 61 < 2 ^ 63) by (change (2 ^ 63) with (4 * 2 ^ 61); change (2 ^ 62) with (2 * 2 ^ 61); lia).
  unfold rem64. cbn [Z.eqb]. rewrite ?bind_ret_l.
  repeat (okq ltac:(rewrite ?Z.shiftl_mul_pow2 by lia; lia); rewrite ?(Z.mul_comm 2 i)). reflexivity.
Qed.
(* level 31 (a zoom-32 ID with an odd y at that level): 2 << 62 leaves the range; Go returns MinInt64, the unbounded model 2^63 *)
Theorem stepY_wraps_at_zoom_32 :
  Generated64.convertHorizontalIDToQuadkey_stepY 0 31 1 32 = Some ((- 2 ^ 63, 32, 0), false) /\
  Generated.convertHorizontalIDToQuadkey_stepY 0 31 1 32 = (2 ^ 63, 32, 0).
Proof. split; vm_compute; reflexivity. Qed.
