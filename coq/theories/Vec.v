(* Vec.v — real-number model of common/spatial: Vector3 (= gonum r3.Vec), Point3, Line3, Matrix3.
   This is what the float64 code approximates; the float64 code itself is modelled operation by operation in VecF.v.
   All identities here are exact (ring / field) and hold for all real arguments. *)
From Coq Require Import Reals Lra Psatz.
Open Scope R_scope.

Record vec := V { vx : R; vy : R; vz : R }.
Lemma vec_eq a b : vx a = vx b -> vy a = vy b -> vz a = vz b -> a = b.
Proof. destruct a, b; cbn; intros -> -> ->; reflexivity. Qed.

(* r3.Add / Sub / Scale / Dot / Cross / Norm / Unit / Cos *)
Definition vadd (p q : vec) : vec := V (vx p + vx q) (vy p + vy q) (vz p + vz q).
Definition vsub (p q : vec) : vec := V (vx p - vx q) (vy p - vy q) (vz p - vz q).
Definition vscale (f : R) (p : vec) : vec := V (f * vx p) (f * vy p) (f * vz p).
Definition vdot (p q : vec) : R := vx p * vx q + vy p * vy q + vz p * vz q.
Definition vcross (p q : vec) : vec :=
  V (vy p * vz q - vz p * vy q) (vz p * vx q - vx p * vz q) (vx p * vy q - vy p * vx q).
(* math.Hypot(x, math.Hypot(y, z)) over the reals *)
Definition hypot (x y : R) : R := sqrt (x * x + y * y).
Definition vnorm (p : vec) : R := hypot (vx p) (hypot (vy p) (vz p)).
Definition vl1norm (p : vec) : R := Rabs (vx p) + Rabs (vy p) + Rabs (vz p).
Definition vunit (p : vec) : vec := vscale (1 / vnorm p) p.        (* the zero vector gives NaN in the code: excluded below *)
Definition vcos (p q : vec) : R := vdot p q / (vnorm p * vnorm q).
Definition vneg (p : vec) : vec := V (- vx p) (- vy p) (- vz p).
Definition vzero : vec := V 0 0 0.

(* Point3: NewVectorFromPoints(p, q) = q - p; Translate; DistancePoint *)
Definition vec_from_points (p q : vec) : vec := vsub q p.
Definition translate (p a : vec) : vec := vadd p a.
Definition distance (p q : vec) : R := vnorm (vec_from_points p q).

(* Line3 *)
Record line := L { lpoint : vec; ldir : vec }.
Definition line_from_points (s e : vec) : line := L s (vec_from_points s e).
Definition line_to_point (l : line) (t : R) : vec := translate (lpoint l) (vscale t (ldir l)).
Definition line_end (l : line) : vec := translate (lpoint l) (ldir l).
Definition line_start (l : line) : vec := lpoint l.

(* Matrix3, row major *)
Record mat := M { m00 : R; m01 : R; m02 : R; m10 : R; m11 : R; m12 : R; m20 : R; m21 : R; m22 : R }.
Definition munit : mat := M 1 0 0 0 1 0 0 0 1.
Definition mmul (a b : mat) : mat :=
  M (m00 a * m00 b + m01 a * m10 b + m02 a * m20 b) (m00 a * m01 b + m01 a * m11 b + m02 a * m21 b) (m00 a * m02 b + m01 a * m12 b + m02 a * m22 b)
    (m10 a * m00 b + m11 a * m10 b + m12 a * m20 b) (m10 a * m01 b + m11 a * m11 b + m12 a * m21 b) (m10 a * m02 b + m11 a * m12 b + m12 a * m22 b)
    (m20 a * m00 b + m21 a * m10 b + m22 a * m20 b) (m20 a * m01 b + m21 a * m11 b + m22 a * m21 b) (m20 a * m02 b + m21 a * m12 b + m22 a * m22 b).
Definition mulvec (a : mat) (v : vec) : vec :=
  V (vx v * m00 a + vy v * m01 a + vz v * m02 a) (vx v * m10 a + vy v * m11 a + vz v * m12 a) (vx v * m20 a + vy v * m21 a + vz v * m22 a).
Lemma mat_eq a b : m00 a = m00 b -> m01 a = m01 b -> m02 a = m02 b -> m10 a = m10 b -> m11 a = m11 b -> m12 a = m12 b ->
  m20 a = m20 b -> m21 a = m21 b -> m22 a = m22 b -> a = b.
Proof. destruct a, b; cbn; intros; subst; reflexivity. Qed.

Ltac vec_ring := apply vec_eq; cbn; ring.
Ltac mat_ring := apply mat_eq; cbn; ring.

(* ---- lines: parameter 0 / 1 give the end points ---- *)
Theorem line_at_0 p q : line_to_point (line_from_points p q) 0 = p.
Proof. destruct p, q. vec_ring. Qed.
Theorem line_at_1 p q : line_to_point (line_from_points p q) 1 = q.
Proof. destruct p, q. vec_ring. Qed.
Theorem line_start_end p q : line_start (line_from_points p q) = p /\ line_end (line_from_points p q) = q.
Proof. split; [reflexivity|]. destruct p, q. vec_ring. Qed.
Theorem line_affine p q t : line_to_point (line_from_points p q) t = vadd (vscale (1 - t) p) (vscale t q).
Proof. destruct p, q. vec_ring. Qed.
Theorem line_any l : line_to_point l 0 = line_start l /\ line_to_point l 1 = line_end l.
Proof. destruct l as [[? ? ?] [? ? ?]]. split; vec_ring. Qed.

(* ---- matrices ---- *)
Theorem mmul_assoc a b c : mmul (mmul a b) c = mmul a (mmul b c).
Proof. destruct a, b, c. mat_ring. Qed.
Theorem mulvec_mmul a b v : mulvec (mmul a b) v = mulvec a (mulvec b v).
Proof. destruct a, b, v. vec_ring. Qed.
Theorem mmul_unit_l a : mmul munit a = a.
Proof. destruct a. mat_ring. Qed.
Theorem mmul_unit_r a : mmul a munit = a.
Proof. destruct a. mat_ring. Qed.
Theorem mulvec_unit v : mulvec munit v = v.
Proof. destruct v. vec_ring. Qed.
Theorem mulvec_linear a u v s : mulvec a (vadd (vscale s u) v) = vadd (vscale s (mulvec a u)) (mulvec a v).
Proof. destruct a, u, v. vec_ring. Qed.

(* ---- vectors ---- *)
Theorem vadd_comm a b : vadd a b = vadd b a.                           Proof. destruct a, b. vec_ring. Qed.
Theorem vadd_assoc a b c : vadd (vadd a b) c = vadd a (vadd b c).      Proof. destruct a, b, c. vec_ring. Qed.
Theorem vadd_sub a b : vadd a (vsub b a) = b.                          Proof. destruct a, b. vec_ring. Qed.
Theorem vsub_self a : vsub a a = vzero.                                Proof. destruct a. vec_ring. Qed.
Theorem translate_from_points p q : translate p (vec_from_points p q) = q.   Proof. apply vadd_sub. Qed.
Theorem vdot_comm a b : vdot a b = vdot b a.                           Proof. unfold vdot. ring. Qed.
Theorem vdot_scale_l f a b : vdot (vscale f a) b = f * vdot a b.       Proof. unfold vdot; cbn. ring. Qed.
Theorem vdot_add_l a b c : vdot (vadd a b) c = vdot a c + vdot b c.    Proof. unfold vdot; cbn. ring. Qed.
Theorem vcross_anticomm a b : vcross a b = vneg (vcross b a).          Proof. destruct a, b. vec_ring. Qed.
Theorem vcross_self a : vcross a a = vzero.                            Proof. destruct a. vec_ring. Qed.
Theorem vcross_perp_l a b : vdot a (vcross a b) = 0.                   Proof. unfold vdot; cbn. ring. Qed.
Theorem vcross_perp_r a b : vdot b (vcross a b) = 0.                   Proof. unfold vdot; cbn. ring. Qed.
Theorem vcross_scale_l f a b : vcross (vscale f a) b = vscale f (vcross a b).   Proof. destruct a, b. vec_ring. Qed.
(* Lagrange: |a x b|^2 = |a|^2 |b|^2 - (a.b)^2 *)
Theorem lagrange a b : vdot (vcross a b) (vcross a b) = vdot a a * vdot b b - vdot a b * vdot a b.
Proof. unfold vdot; cbn. ring. Qed.
(* a x (b x c) = b (a.c) - c (a.b) *)
Theorem triple_cross a b c : vcross a (vcross b c) = vsub (vscale (vdot a c) b) (vscale (vdot a b) c).
Proof. destruct a, b, c. apply vec_eq; unfold vdot; cbn; ring. Qed.

(* ---- norms ---- *)
Lemma hypot_sq x y : hypot x y * hypot x y = x * x + y * y.
Proof. unfold hypot. apply sqrt_sqrt. nra. Qed.
Lemma hypot_nonneg x y : 0 <= hypot x y.
Proof. apply sqrt_pos. Qed.
Theorem vnorm_sq a : vnorm a * vnorm a = vdot a a.
Proof. unfold vnorm. rewrite hypot_sq, hypot_sq. unfold vdot. ring. Qed.
Theorem vnorm_nonneg a : 0 <= vnorm a.
Proof. apply hypot_nonneg. Qed.
Theorem vnorm_sqrt a : vnorm a = sqrt (vdot a a).
Proof. symmetry. rewrite <- vnorm_sq. apply sqrt_square, vnorm_nonneg. Qed.

Definition nonzero (a : vec) : Prop := a <> vzero.
Lemma nonzero_dot a : nonzero a -> 0 < vdot a a.
Proof.
  intros H. destruct a as [x y z]. unfold vdot; cbn.
  destruct (Req_dec x 0) as [->|Hx]; [|nra]. destruct (Req_dec y 0) as [->|Hy]; [|nra].
  destruct (Req_dec z 0) as [->|Hz]; [|nra]. exfalso. apply H. reflexivity.
Qed.
Lemma dot_pos_nonzero a : 0 < vdot a a -> nonzero a.
Proof. intros H E. rewrite E in H. unfold vdot, vzero in H; cbn in H. lra. Qed.
Lemma nonzero_norm a : nonzero a -> 0 < vnorm a.
Proof.
  intros H. pose proof (nonzero_dot a H) as D. rewrite <- vnorm_sq in D. pose proof (vnorm_nonneg a). nra.
Qed.
Theorem vunit_norm a : nonzero a -> vdot (vunit a) (vunit a) = 1.
Proof.
  intros H. pose proof (nonzero_norm a H) as N. unfold vunit. rewrite vdot_scale_l, vdot_comm, vdot_scale_l, <- vnorm_sq. field. lra.
Qed.
Theorem vunit_vnorm a : nonzero a -> vnorm (vunit a) = 1.
Proof. intros H. rewrite vnorm_sqrt, (vunit_norm a H). apply sqrt_1. Qed.
Theorem vunit_nonzero a : nonzero a -> nonzero (vunit a).
Proof. intros H. apply dot_pos_nonzero. rewrite (vunit_norm a H). lra. Qed.
Theorem vnorm_scale f a : 0 <= f -> vnorm (vscale f a) = f * vnorm a.
Proof.
  intros Hf. rewrite !vnorm_sqrt, vdot_scale_l, vdot_comm, vdot_scale_l.
  replace (f * (f * vdot a a)) with ((f * f) * vdot a a) by ring.
  assert (0 <= vdot a a) by (rewrite <- vnorm_sq; pose proof (vnorm_nonneg a); nra).
  rewrite sqrt_mult by nra. rewrite sqrt_square by exact Hf. reflexivity.
Qed.
Theorem vunit_scale k a : 0 < k -> nonzero a -> vunit (vscale k a) = vunit a.
Proof.
  intros Hk Ha. pose proof (nonzero_norm a Ha) as N. unfold vunit. rewrite vnorm_scale by lra.
  destruct a as [x y z]. apply vec_eq; cbn; field; lra.
Qed.
(* cosine of two unit vectors is their dot product; Cauchy-Schwarz bounds it *)
Theorem vcos_unit a b : vnorm a = 1 -> vnorm b = 1 -> vcos a b = vdot a b.
Proof. intros Ha Hb. unfold vcos. rewrite Ha, Hb. field. Qed.
Theorem cauchy_schwarz a b : vdot a b * vdot a b <= vdot a a * vdot b b.
Proof.
  pose proof (lagrange a b) as L. assert (0 <= vdot (vcross a b) (vcross a b)) by (unfold vdot; nra). lra.
Qed.
Theorem distance_sym p q : distance p q = distance q p.
Proof. unfold distance, vec_from_points. rewrite !vnorm_sqrt. f_equal. unfold vdot; cbn. ring. Qed.
Theorem distance_self p : distance p p = 0.
Proof. unfold distance, vec_from_points. rewrite vnorm_sqrt, vsub_self.
  replace (vdot vzero vzero) with 0 by (unfold vdot, vzero; cbn; ring). apply sqrt_0. Qed.

(* conjunctions quoted by properties/C20.v *)
Theorem line_end_points p q :
  line_to_point (line_from_points p q) 0 = p /\ line_to_point (line_from_points p q) 1 = q /\
  line_start (line_from_points p q) = p /\ line_end (line_from_points p q) = q.
Proof. exact (conj (line_at_0 p q) (conj (line_at_1 p q) (line_start_end p q))). Qed.
Theorem munit_neutral a v : mmul munit a = a /\ mmul a munit = a /\ mulvec munit v = v.
Proof. exact (conj (mmul_unit_l a) (conj (mmul_unit_r a) (mulvec_unit v))). Qed.
Theorem vcross_perp a b : vdot a (vcross a b) = 0 /\ vdot b (vcross a b) = 0.
Proof. exact (conj (vcross_perp_l a b) (vcross_perp_r a b)). Qed.
Theorem vnorm_sq_nonneg a : vnorm a * vnorm a = vdot a a /\ 0 <= vnorm a.
Proof. exact (conj (vnorm_sq a) (vnorm_nonneg a)). Qed.
