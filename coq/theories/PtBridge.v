(* PtBridge.v — bridge between the executable binary64 layer (F64.v, Coq primitive floats) and Flocq's real-number semantics:
   value and finiteness of + - * / on primitive floats, the power-of-two constants, the executable floor (Zfloor_f),
   float64(int64) (of_Z), math.Floor (ffloor) and Go's int64() conversion (Ztrunc_f).  Used by FF.v, XF.v, YF.v (property C01). *)
From Coq Require Import ZArith Reals Lia Lra Floats List Bool.
From Flocq Require Import Core BinarySingleNaN Mult_error.
From Flocq Require PrimFloat.
From SID Require Import Base F64.
Import ListNotations.
Open Scope Z_scope.

#[local] Instance Hprec : Prec_gt_0 FloatOps.prec := eq_refl _.
#[local] Instance Hmax : Prec_lt_emax FloatOps.prec FloatOps.emax := eq_refl _.

Notation pfloat := PrimFloat.float.
Notation b64 := (binary_float FloatOps.prec FloatOps.emax).
Notation fexp64 := (FLT_exp (-1074) 53).
Notation fmt := (generic_format radix2 fexp64).
Notation rnd := (round radix2 fexp64 ZnearestE).

(* the real value of a primitive float (0 for infinities and NaN) and its finiteness *)
Definition fval (x : pfloat) : R := B2R (PrimFloat.Prim2B x).
Definition ffin (x : pfloat) : bool := is_finite (PrimFloat.Prim2B x).

Lemma IZR_pow2 d : 0 <= d -> IZR (2 ^ d) = bpow radix2 d.
Proof. intros H. rewrite <- IZR_Zpower by exact H. reflexivity. Qed.

Lemma fmt_fval x : fmt (fval x).
Proof. apply (generic_format_B2R FloatOps.prec FloatOps.emax). Qed.

Lemma rnd_le x y : (x <= y)%R -> (rnd x <= rnd y)%R.
Proof. apply round_le; [apply (fexp_correct 53 1024); exact Hprec | apply valid_rnd_N]. Qed.
Lemma rnd_fmt x : fmt x -> rnd x = x.
Proof. intros H. apply round_generic; [apply valid_rnd_N | exact H]. Qed.
Lemma rnd_0 : rnd 0 = 0%R.
Proof. apply round_0. apply valid_rnd_N. Qed.
Lemma rnd_fmt_out x : fmt (rnd x).
Proof. apply generic_format_round; [apply (fexp_correct 53 1024); exact Hprec | apply valid_rnd_N]. Qed.

(* an integer multiple of a power of two with a 53-bit multiplier is representable *)
Lemma fmt_int (m e : Z) : Z.abs m < 2 ^ 53 -> -1074 <= e -> fmt (IZR m * bpow radix2 e).
Proof.
  intros Hm He. apply generic_format_FLT. exists (Float radix2 m e); [reflexivity | exact Hm | exact He].
Qed.
Lemma fmt_IZR (m : Z) : Z.abs m <= 2 ^ 53 -> fmt (IZR m).
Proof.
  intros Hm. destruct (Z.eq_dec (Z.abs m) (2 ^ 53)) as [E|N].
  - assert (M : m = 2 ^ 53 \/ m = - 2 ^ 53) by lia.
    destruct M as [-> | ->].
    + replace (IZR (2 ^ 53)) with (IZR 1 * bpow radix2 53)%R by (rewrite (IZR_pow2 53) by lia; simpl; ring).
      apply fmt_int; simpl; lia.
    + replace (IZR (- 2 ^ 53)) with (IZR (-1) * bpow radix2 53)%R by (rewrite opp_IZR, (IZR_pow2 53) by lia; simpl; ring).
      apply fmt_int; simpl; lia.
  - replace (IZR m) with (IZR m * bpow radix2 0)%R by (simpl; ring). apply fmt_int; lia.
Qed.

Lemma abs_lt_emax r k : (Rabs r < bpow radix2 k)%R -> k <= 1024 -> (Rabs r < bpow radix2 FloatOps.emax)%R.
Proof. intros H Hk. apply Rlt_le_trans with (1 := H). apply bpow_le. exact Hk. Qed.

(* ---- arithmetic on primitive floats: value = correctly rounded real result, when that is below 2^1024 ---- *)
Lemma add_val x y : ffin x = true -> ffin y = true -> (Rabs (rnd (fval x + fval y)) < bpow radix2 1024)%R ->
  fval (x + y) = rnd (fval x + fval y) /\ ffin (x + y) = true.
Proof.
  intros Fx Fy Hov. unfold fval, ffin in *.
  assert (E : PrimFloat.Prim2B (x + y)%float = @Bplus _ _ Hprec Hmax mode_NE (PrimFloat.Prim2B x) (PrimFloat.Prim2B y))
    by exact (PrimFloat.add_equiv x y).
  pose proof (Bplus_correct _ _ Hprec Hmax mode_NE _ _ Fx Fy) as H.
  change (SpecFloat.fexp FloatOps.prec FloatOps.emax) with fexp64 in H. change (round_mode mode_NE) with ZnearestE in H.
  rewrite Rlt_bool_true in H by exact Hov.
  destruct H as (H1 & H2 & _). rewrite E. auto.
Qed.
Lemma sub_val x y : ffin x = true -> ffin y = true -> (Rabs (rnd (fval x - fval y)) < bpow radix2 1024)%R ->
  fval (x - y) = rnd (fval x - fval y) /\ ffin (x - y) = true.
Proof.
  intros Fx Fy Hov. unfold fval, ffin in *.
  assert (E : PrimFloat.Prim2B (x - y)%float = @Bminus _ _ Hprec Hmax mode_NE (PrimFloat.Prim2B x) (PrimFloat.Prim2B y))
    by exact (PrimFloat.sub_equiv x y).
  pose proof (Bminus_correct _ _ Hprec Hmax mode_NE _ _ Fx Fy) as H.
  change (SpecFloat.fexp FloatOps.prec FloatOps.emax) with fexp64 in H. change (round_mode mode_NE) with ZnearestE in H.
  rewrite Rlt_bool_true in H by exact Hov.
  destruct H as (H1 & H2 & _). rewrite E. auto.
Qed.
Lemma mul_val x y : ffin x = true -> ffin y = true -> (Rabs (rnd (fval x * fval y)) < bpow radix2 1024)%R ->
  fval (x * y) = rnd (fval x * fval y) /\ ffin (x * y) = true.
Proof.
  intros Fx Fy Hov. unfold fval, ffin in *.
  assert (E : PrimFloat.Prim2B (x * y)%float = @Bmult _ _ Hprec Hmax mode_NE (PrimFloat.Prim2B x) (PrimFloat.Prim2B y))
    by exact (PrimFloat.mul_equiv x y).
  pose proof (Bmult_correct _ _ Hprec Hmax mode_NE (PrimFloat.Prim2B x) (PrimFloat.Prim2B y)) as H.
  change (SpecFloat.fexp FloatOps.prec FloatOps.emax) with fexp64 in H. change (round_mode mode_NE) with ZnearestE in H.
  rewrite Rlt_bool_true in H by exact Hov.
  destruct H as (H1 & H2 & _). rewrite E, H2, Fx, Fy. auto.
Qed.
Lemma div_val x y : ffin x = true -> fval y <> 0%R -> (Rabs (rnd (fval x / fval y)) < bpow radix2 1024)%R ->
  fval (x / y) = rnd (fval x / fval y) /\ ffin (x / y) = true.
Proof.
  intros Fx Hy Hov. unfold fval, ffin in *.
  assert (E : PrimFloat.Prim2B (x / y)%float = @Bdiv _ _ Hprec Hmax mode_NE (PrimFloat.Prim2B x) (PrimFloat.Prim2B y))
    by exact (PrimFloat.div_equiv x y).
  pose proof (Bdiv_correct _ _ Hprec Hmax mode_NE (PrimFloat.Prim2B x) (PrimFloat.Prim2B y) Hy) as H.
  change (SpecFloat.fexp FloatOps.prec FloatOps.emax) with fexp64 in H. change (round_mode mode_NE) with ZnearestE in H.
  rewrite Rlt_bool_true in H by exact Hov.
  destruct H as (H1 & H2 & _). rewrite E, H2. auto.
Qed.
Lemma opp_val x : fval (- x) = (- fval x)%R /\ ffin (- x) = ffin x.
Proof.
  unfold fval, ffin. rewrite PrimFloat.opp_equiv. split; [apply B2R_Bopp | apply is_finite_Bopp].
Qed.
Lemma abs_val x : fval (abs x) = Rabs (fval x) /\ ffin (abs x) = ffin x.
Proof.
  unfold fval, ffin. rewrite PrimFloat.abs_equiv. split; [apply B2R_Babs | apply is_finite_Babs].
Qed.
Lemma ltb_val x y : ffin x = true -> ffin y = true -> (x <? y)%float = Rlt_bool (fval x) (fval y).
Proof. intros Fx Fy. rewrite PrimFloat.ltb_equiv. apply Bltb_correct; assumption. Qed.
Lemma leb_val x y : ffin x = true -> ffin y = true -> (x <=? y)%float = Rle_bool (fval x) (fval y).
Proof. intros Fx Fy. rewrite PrimFloat.leb_equiv. apply Bleb_correct; assumption. Qed.
Lemma eqb_val x y : ffin x = true -> ffin y = true -> (x =? y)%float = Req_bool (fval x) (fval y).
Proof. intros Fx Fy. rewrite PrimFloat.eqb_equiv. apply Beqb_correct; assumption. Qed.
Lemma ffin_not_nan x : ffin x = true -> PrimFloat.is_nan x = false.
Proof. unfold ffin. rewrite PrimFloat.is_nan_equiv. now destruct (PrimFloat.Prim2B x). Qed.
Lemma ffin_not_inf x : ffin x = true -> PrimFloat.is_infinity x = false.
Proof. unfold ffin. rewrite PrimFloat.is_infinity_equiv. now destruct (PrimFloat.Prim2B x). Qed.

(* ---- value of a float given by its decomposition ---- *)
Lemma fval_SF x : fval x = SF2R radix2 (Prim2SF x).
Proof. unfold fval. rewrite <- SF2R_B2SF, PrimFloat.B2SF_Prim2B. reflexivity. Qed.
Lemma ffin_SF x : ffin x = is_finite_SF (Prim2SF x).
Proof. unfold ffin. rewrite <- PrimFloat.B2SF_Prim2B. now destruct (PrimFloat.Prim2B x). Qed.

(* ---- the power-of-two constants math.Pow(2, k), by complete evaluation over the exponents in use ---- *)
Definition pow2_ok (k : Z) : bool :=
  match Prim2SF (pow2f k) with
  | S754_finite false m e => (e <=? k) && (Zpos m =? 2 ^ (k - e))
  | _ => false
  end.
Lemma pow2_ok_value k : pow2_ok k = true -> fval (pow2f k) = bpow radix2 k /\ ffin (pow2f k) = true.
Proof.
  unfold pow2_ok. intros H. rewrite fval_SF, ffin_SF.
  destruct (Prim2SF (pow2f k)) as [s|s| |s m e]; try discriminate. destruct s; [discriminate|].
  apply andb_true_iff in H. destruct H as [He Hm]. apply Z.leb_le in He. apply Z.eqb_eq in Hm.
  split; [|reflexivity]. cbn [SF2R cond_Zopp]. unfold F2R. cbn [Fnum Fexp]. rewrite Hm.
  rewrite IZR_pow2 by lia. rewrite <- bpow_plus. f_equal. lia.
Qed.
Definition krange : list Z := map (fun n => Z.of_nat n - 10) (seq 0 63).      (* -10 .. 52 *)
Lemma pow2_all : forallb pow2_ok krange = true.
Proof. vm_compute. reflexivity. Qed.
Lemma pow2f_value k : -10 <= k <= 52 -> fval (pow2f k) = bpow radix2 k /\ ffin (pow2f k) = true.
Proof.
  intros Hk. apply pow2_ok_value. apply (proj1 (forallb_forall _ _) pow2_all k).
  unfold krange. apply in_map_iff. exists (Z.to_nat (k + 10)). split; [lia|]. apply in_seq. lia.
Qed.
(* the deep-underflow thresholds 2^k, k in -1035 .. -990 (finding class alt_underflow); these are denormal numbers *)
Definition krange_lo : list Z := map (fun n => Z.of_nat n - 1035) (seq 0 46).
Lemma pow2_all_lo : forallb pow2_ok krange_lo = true.
Proof. vm_compute. reflexivity. Qed.
Lemma pow2f_value_lo k : -1035 <= k <= -990 -> fval (pow2f k) = bpow radix2 k /\ ffin (pow2f k) = true.
Proof.
  intros Hk. apply pow2_ok_value. apply (proj1 (forallb_forall _ _) pow2_all_lo k).
  unfold krange_lo. apply in_map_iff. exists (Z.to_nat (k + 1035)). split; [lia|]. apply in_seq. lia.
Qed.

(* ---- the executable floor is the real floor of the float's value ---- *)
Lemma floor_F2R (v e : Z) :
  Zfloor (IZR v * bpow radix2 e) =
  match e with Z0 => v | Zpos p => v * Z.pow_pos 2 p | Zneg p => v / Z.pow_pos 2 p end.
Proof.
  destruct e as [|p|p].
  - cbn. rewrite Rmult_1_r. apply Zfloor_IZR.
  - rewrite <- IZR_pow2 by lia. rewrite <- mult_IZR, Zfloor_IZR. reflexivity.
  - change (Z.pow_pos 2 p) with (2 ^ Zpos p).
    assert (Hp : 0 < 2 ^ Zpos p) by (apply Z.pow_pos_nonneg; lia).
    apply Zfloor_imp.
    pose proof (Z.div_mod v (2 ^ Zpos p) ltac:(lia)) as Hdm.
    pose proof (Z.mod_pos_bound v (2 ^ Zpos p) Hp) as Hm.
    set (q := v / 2 ^ Zpos p) in *.
    assert (E : bpow radix2 (Zneg p) = (/ IZR (2 ^ Zpos p))%R).
    { rewrite IZR_pow2 by lia. rewrite <- bpow_opp. reflexivity. }
    rewrite E. assert (Hpr : (0 < IZR (2 ^ Zpos p))%R) by (apply IZR_lt; exact Hp).
    assert (H1 : (IZR q * IZR (2 ^ Zpos p) <= IZR v)%R) by (rewrite <- mult_IZR; apply IZR_le; lia).
    assert (H2 : (IZR v < IZR (q + 1) * IZR (2 ^ Zpos p))%R) by (rewrite <- mult_IZR; apply IZR_lt; lia).
    split.
    + apply Rmult_le_reg_r with (1 := Hpr). rewrite Rmult_assoc, Rinv_l by lra. lra.
    + apply Rmult_lt_reg_r with (1 := Hpr). rewrite Rmult_assoc, Rinv_l by lra. lra.
Qed.

Theorem Zfloor_f_spec (f : pfloat) : ffin f = true -> Zfloor_f f = Some (Zfloor (fval f)).
Proof.
  unfold ffin, fval. intros Hfin. unfold Zfloor_f. rewrite <- PrimFloat.B2SF_Prim2B.
  destruct (PrimFloat.Prim2B f) as [s|s| |s m e Hb]; try discriminate; cbn [B2SF B2R].
  - now rewrite Zfloor_IZR.
  - f_equal. unfold F2R. cbn [Fnum Fexp]. rewrite floor_F2R.
    destruct s; reflexivity.
Qed.
Lemma Zfloor_f_None (f : pfloat) : ffin f = false -> Zfloor_f f = None.
Proof.
  unfold ffin. intros Hfin. unfold Zfloor_f. rewrite <- PrimFloat.B2SF_Prim2B.
  destruct (PrimFloat.Prim2B f) as [s|s| |s m e Hb]; try discriminate; reflexivity.
Qed.

(* ---- float64(int64) ---- *)
Lemma of_uint63_val (z : Z) : 0 <= z <= 2 ^ 53 ->
  fval (of_uint63 (Uint63.of_Z z)) = IZR z /\ ffin (of_uint63 (Uint63.of_Z z)) = true.
Proof.
  intros Hz. unfold fval, ffin.
  assert (E : PrimFloat.Prim2B (of_uint63 (Uint63.of_Z z)) =
              @binary_normalize _ _ Hprec Hmax mode_NE (Uint63.to_Z (Uint63.of_Z z)) 0 false)
    by exact (PrimFloat.of_int63_equiv (Uint63.of_Z z)).
  assert (T : Uint63.to_Z (Uint63.of_Z z) = z).
  { rewrite Uint63.of_Z_spec. apply Z.mod_small. split; [lia|].
    apply Z.le_lt_trans with (2 ^ 53); [lia|]. reflexivity. }
  rewrite T in E.
  pose proof (binary_normalize_correct _ _ Hprec Hmax mode_NE z 0 false) as H.
  cbv zeta in H.
  change (SpecFloat.fexp FloatOps.prec FloatOps.emax) with fexp64 in H. change (round_mode mode_NE) with ZnearestE in H.
  assert (V : F2R (Float radix2 z 0) = IZR z) by (unfold F2R; simpl; ring).
  rewrite V in H.
  rewrite (rnd_fmt (IZR z)) in H by (apply fmt_IZR; lia).
  rewrite Rlt_bool_true in H.
  - destruct H as (H1 & H2 & _). rewrite E. auto.
  - rewrite <- abs_IZR. apply Rle_lt_trans with (IZR (2 ^ 53)); [apply IZR_le; lia|].
    rewrite (IZR_pow2 53) by lia. apply bpow_lt. reflexivity.
Qed.
Lemma of_Z_val (z : Z) : Z.abs z <= 2 ^ 53 -> fval (of_Z z) = IZR z /\ ffin (of_Z z) = true.
Proof.
  intros Hz. destruct z as [|p|p]; unfold of_Z.
  - split; vm_compute; reflexivity.
  - apply of_uint63_val. lia.
  - destruct (of_uint63_val (Zpos p) ltac:(lia)) as [V F].
    destruct (opp_val (of_uint63 (Uint63.of_Z (Zpos p)))) as [V' F'].
    rewrite V', F', V, F. split; [|reflexivity]. now rewrite <- opp_IZR.
Qed.

(* ---- math.Floor on values below 2^52 ---- *)
Lemma two52_val : fval two52 = bpow radix2 52 /\ ffin two52 = true.
Proof. exact (pow2f_value 52 ltac:(lia)). Qed.
Lemma zero_val : fval 0%float = 0%R /\ ffin 0%float = true.
Proof. split; vm_compute; reflexivity. Qed.

Lemma Zfloor_abs_le r k : 0 <= k -> (Rabs r <= bpow radix2 k)%R -> Z.abs (Zfloor r) <= 2 ^ k.
Proof.
  intros Hk Hr. apply Rabs_le_inv in Hr. destruct Hr as [H1 H2].
  rewrite <- IZR_pow2 in H1, H2 by exact Hk. rewrite <- opp_IZR in H1.
  assert (A : - 2 ^ k <= Zfloor r).
  { apply Zfloor_lub. exact H1. }
  assert (B : Zfloor r <= 2 ^ k).
  { apply le_IZR. apply Rle_trans with r; [apply Zfloor_lb | exact H2]. }
  lia.
Qed.

Theorem ffloor_val (f : pfloat) : ffin f = true -> (Rabs (fval f) < bpow radix2 52)%R ->
  fval (ffloor f) = IZR (Zfloor (fval f)) /\ ffin (ffloor f) = true.
Proof.
  intros Ff Hf. unfold ffloor.
  destruct zero_val as [Z0v Z0f]. destruct two52_val as [Tv Tf].
  rewrite (eqb_val f 0 Ff Z0f), Z0v.
  destruct (Req_bool_spec (fval f) 0) as [E0|N0].
  - cbn [orb]. rewrite E0, Zfloor_IZR. auto.
  - cbn [orb]. rewrite (ffin_not_nan f Ff), (ffin_not_inf f Ff). cbn [orb].
    destruct (abs_val f) as [Av Af].
    rewrite (leb_val two52 (abs f) Tf ltac:(rewrite Af; exact Ff)), Tv, Av.
    rewrite Rle_bool_false by exact Hf.
    rewrite (Zfloor_f_spec f Ff).
    apply of_Z_val.
    apply Z.le_trans with (2 ^ 52); [|apply Z.pow_le_mono_r; lia].
    apply Zfloor_abs_le; [lia|]. now apply Rlt_le.
Qed.

(* ---- Go's int64(f) on an integral float ---- *)
Theorem Ztrunc_f_int (g : pfloat) (n : Z) : ffin g = true -> fval g = IZR n -> Ztrunc_f g = Some n.
Proof.
  intros Fg Vg. unfold Ztrunc_f. destruct zero_val as [Z0v Z0f].
  rewrite (ltb_val g 0 Fg Z0f), Z0v, Vg.
  destruct (Rlt_bool (IZR n) 0).
  - unfold Zceil_f. destruct (opp_val g) as [Vo Fo].
    rewrite Zfloor_f_spec by (rewrite Fo; exact Fg).
    rewrite Vo, Vg, <- opp_IZR, Zfloor_IZR. cbn. f_equal. lia.
  - rewrite Zfloor_f_spec by exact Fg. now rewrite Vg, Zfloor_IZR.
Qed.
Corollary Ztrunc_ffloor (f : pfloat) : ffin f = true -> (Rabs (fval f) < bpow radix2 52)%R ->
  Ztrunc_f (ffloor f) = Some (Zfloor (fval f)).
Proof. intros Ff Hf. destruct (ffloor_val f Ff Hf) as [V F]. now apply Ztrunc_f_int. Qed.

(* exact scaling by a power of two *)
Lemma fmt_scale_pos x e : fmt x -> 0 <= e -> fmt (x * bpow radix2 e).
Proof. intros Fx He. apply mult_bpow_pos_exact_FLT; [exact Fx | exact He]. Qed.
Lemma fmt_scale x e : fmt x -> -1074 + 53 - mag radix2 x <= e -> fmt (x * bpow radix2 e).
Proof. intros Fx He. apply mult_bpow_exact_FLT; [exact Fx | exact He]. Qed.

(* more rounding facts *)
Lemma fmt_bpow k : -1074 <= k -> fmt (bpow radix2 k).
Proof. intros H. replace (bpow radix2 k) with (IZR 1 * bpow radix2 k)%R by ring. apply fmt_int; [simpl; lia | exact H]. Qed.
Lemma rnd_opp x : rnd (- x) = (- rnd x)%R.
Proof. apply round_NE_opp. Qed.
Lemma rnd_abs_le x k : -1074 <= k -> (Rabs x <= bpow radix2 k)%R -> (Rabs (rnd x) <= bpow radix2 k)%R.
Proof.
  intros Hk H. apply Rabs_le_inv in H. apply Rabs_le. split.
  - rewrite <- (rnd_fmt (bpow radix2 k)) by (apply fmt_bpow, Hk). rewrite <- rnd_opp. apply rnd_le. lra.
  - rewrite <- (rnd_fmt (bpow radix2 k)) by (apply fmt_bpow, Hk). apply rnd_le. lra.
Qed.
Lemma rnd_nonneg x : (0 <= x)%R -> (0 <= rnd x)%R.
Proof. intros H. rewrite <- rnd_0. apply rnd_le, H. Qed.
