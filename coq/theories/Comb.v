(* Comb.v — common.Combinations(n, k, f): model of the iterative successor, and the specification
   "every k-subset of 0..n-1, exactly once, in lexicographic order".
   The specification list `spec n k` is characterised for ALL n, k (membership, no duplicates, strictly lexicographically increasing).
   The successor model equals it for all 0 <= k <= n <= 12 — the bound is the one in the property — by complete evaluation. *)
From Coq Require Import ZArith Lia List Bool Sorting.Sorted.
From SID Require Import Base.
Import ListNotations.
Open Scope Z_scope.

(* ---- faithful model: the sequence of patterns passed to f ---- *)
(* inner `for` of the code: walk pos = k-1, k-2, ... while pattern[pos] == n+pos-k; rev_prefix = pattern[0..pos] reversed.
   None = "pos == -1: return"; Some rp = reversed prefix after `pattern[pos]++`. *)
Fixpoint bump (n k : Z) (rev_prefix : list Z) (pos : Z) : option (list Z) :=
  match rev_prefix with
  | [] => None
  | old :: r => if old =? n + pos - k then bump n k r (pos - 1) else Some ((old + 1) :: r)
  end.
(* `for pos++; pos < k; pos++ { pattern[pos] = pattern[pos-1] + 1 }` *)
Fixpoint refill (cnt : nat) (last : Z) : list Z :=
  match cnt with O => [] | S c => (last + 1) :: refill c (last + 1) end.
Definition next (n k : Z) (p : list Z) : option (list Z) :=
  match bump n k (rev p) (k - 1) with
  | None => None
  | Some rp => let pre := rev rp in Some (pre ++ refill (length p - length pre) (hd 0 rp))
  end.
(* outer `for`: f(pattern); successor or return *)
Fixpoint run (fuel : nat) (n k : Z) (p : list Z) : option (list (list Z)) :=
  match fuel with
  | O => None
  | S f => match next n k p with
           | None => Some [p]
           | Some q => option_map (cons p) (run f n k q)
           end
  end.
Fixpoint iota (lo : Z) (cnt : nat) : list Z := match cnt with O => [] | S c => lo :: iota (lo + 1) c end.
Definition comb_fuel : nat := 5000.
(* `pattern[i] = i` for i < k, then the loop. None = fuel exhausted (never on the property's domain, see all_ok) *)
Definition combinations (n k : Z) : option (list (list Z)) := run comb_fuel n k (iota 0 (Z.to_nat k)).

(* ---- specification: the k-element subsequences of an increasing list, first element first ---- *)
Fixpoint subsets (l : list Z) (k : nat) : list (list Z) :=
  match k, l with
  | O, _ => [[]]
  | S _, [] => []
  | S k', x :: r => map (cons x) (subsets r k') ++ subsets r (S k')
  end.
Definition spec (n k : Z) : list (list Z) := subsets (iota 0 (Z.to_nat n)) (Z.to_nat k).

(* a k-subset of 0..n-1, written as its increasing list of members *)
Definition is_ksubset (n k : Z) (s : list Z) : Prop :=
  Z.of_nat (length s) = k /\ StronglySorted Z.lt s /\ Forall (fun x => 0 <= x < n) s.
(* lexicographic order on lists (first difference decides; a proper prefix is smaller) *)
Fixpoint lex_lt (a b : list Z) : Prop :=
  match a, b with
  | _, [] => False
  | [], _ :: _ => True
  | x :: a', y :: b' => x < y \/ (x = y /\ lex_lt a' b')
  end.

Lemma subsets_cons_S x r k s :
  In s (subsets (x :: r) (S k)) <-> (exists t, s = x :: t /\ In t (subsets r k)) \/ In s (subsets r (S k)).
Proof.
  cbn [subsets]. rewrite in_app_iff, in_map_iff. split; intros [H|H]; auto; left; destruct H as (t & H1 & H2); exists t; auto.
Qed.
Lemma subsets_0 l s : In s (subsets l 0) <-> s = [].
Proof. destruct l; cbn; intuition congruence. Qed.

Lemma SS_lt_inv x l : StronglySorted Z.lt (x :: l) -> StronglySorted Z.lt l /\ Forall (Z.lt x) l.
Proof. intros H. inversion H; subst. auto. Qed.

Theorem subsets_spec l : StronglySorted Z.lt l -> forall k s,
  In s (subsets l k) <-> length s = k /\ StronglySorted Z.lt s /\ Forall (fun y => In y l) s.
Proof.
  induction l as [|x r IH]; intros Hl k s.
  - destruct k as [|k].
    + rewrite subsets_0. split.
      * intros ->. repeat split; constructor.
      * intros (H & _). destruct s; [reflexivity|discriminate].
    + cbn. split; [tauto|]. intros (H1 & _ & H3). destruct s as [|y t]; [discriminate|]. inversion H3; subst. contradiction.
  - destruct (SS_lt_inv _ _ Hl) as [Hr Hx]. specialize (IH Hr). rewrite Forall_forall in Hx.
    destruct k as [|k].
    + rewrite subsets_0. split.
      * intros ->. repeat split; constructor.
      * intros (H & _). destruct s; [reflexivity|discriminate].
    + rewrite subsets_cons_S. split.
      * intros [(t & -> & Ht)|Hs].
        -- apply IH in Ht. destruct Ht as (H1 & H2 & H3). rewrite Forall_forall in H3. repeat split.
           ++ cbn. now rewrite H1.
           ++ constructor; [exact H2|]. apply Forall_forall. intros y Hy. apply Hx, H3, Hy.
           ++ constructor; [now left|]. apply Forall_forall. intros y Hy. right. apply H3, Hy.
        -- apply IH in Hs. destruct Hs as (H1 & H2 & H3). repeat split; [exact H1|exact H2|].
           eapply Forall_impl; [|exact H3]. intros y Hy. now right.
      * intros (H1 & H2 & H3). destruct s as [|y t]; [discriminate|].
        destruct (SS_lt_inv _ _ H2) as [Ht Hy]. rewrite Forall_forall in Hy.
        inversion H3 as [|? ? Hyl Htl]; subst. rewrite Forall_forall in Htl.
        destruct Hyl as [<-|Hyr].
        -- left. exists t. split; [reflexivity|]. apply IH. repeat split; [now injection H1|exact Ht|].
           apply Forall_forall. intros z Hz. destruct (Htl z Hz) as [<-|Hzr]; [|exact Hzr].
           pose proof (Hy _ Hz). lia.
        -- right. apply IH. repeat split; [exact H1|exact H2|].
           constructor; [exact Hyr|]. apply Forall_forall. intros z Hz. destruct (Htl z Hz) as [<-|Hzr]; [|exact Hzr].
           pose proof (Hy _ Hz). pose proof (Hx _ Hyr). lia.
Qed.

Lemma subsets_length l : forall k s, In s (subsets l k) -> length s = k.
Proof.
  induction l as [|x r IH]; intros [|k] s; try (rewrite subsets_0; intros ->; reflexivity).
  - cbn. tauto.
  - rewrite subsets_cons_S. intros [(t & -> & Ht)|Hs]; [cbn; f_equal; eauto|eauto].
Qed.
Lemma subsets_members l : forall k s, In s (subsets l k) -> forall y, In y s -> In y l.
Proof.
  induction l as [|x r IH]; intros [|k] s; try (rewrite subsets_0; intros -> y []).
  - cbn. tauto.
  - rewrite subsets_cons_S. intros [(t & -> & Ht)|Hs] y Hy.
    + destruct Hy as [<-|Hy]; [now left|right; eauto].
    + right. eauto.
Qed.

Theorem subsets_NoDup l : NoDup l -> forall k, NoDup (subsets l k).
Proof.
  induction l as [|x r IH]; intros Hl [|k]; try (cbn; constructor; [tauto|constructor]); [cbn; constructor|].
  inversion Hl as [|? ? Hx Hr]; subst. cbn [subsets]. apply NoDup_app'.
  - apply FinFun.Injective_map_NoDup; [|now apply IH]. intros a b [= ->]. reflexivity.
  - now apply IH.
  - intros s H1 H2. apply in_map_iff in H1. destruct H1 as (t & <- & _).
    apply Hx. eapply subsets_members; [exact H2|now left].
Qed.

Lemma SS_app {A} (R : A -> A -> Prop) (l1 l2 : list A) :
  StronglySorted R l1 -> StronglySorted R l2 -> (forall a b, In a l1 -> In b l2 -> R a b) -> StronglySorted R (l1 ++ l2).
Proof.
  induction 1 as [|a l H1 IH H2]; cbn; intros Hl2 Hc; [exact Hl2|].
  constructor.
  - apply IH; [exact Hl2|]. intros x y Hx Hy. apply Hc; [now right|exact Hy].
  - apply Forall_app. split; [exact H2|]. apply Forall_forall. intros y Hy. apply Hc; [now left|exact Hy].
Qed.
Lemma SS_map_cons x (l : list (list Z)) : StronglySorted lex_lt l -> StronglySorted lex_lt (map (cons x) l).
Proof.
  induction 1 as [|a l H1 IH H2]; cbn; constructor; [exact IH|].
  apply Forall_forall. intros s Hs. apply in_map_iff in Hs. destruct Hs as (t & <- & Ht).
  rewrite Forall_forall in H2. cbn. right. split; [reflexivity|auto].
Qed.
Theorem subsets_lex_sorted l : StronglySorted Z.lt l -> forall k, StronglySorted lex_lt (subsets l k).
Proof.
  induction l as [|x r IH]; intros Hl [|k]; try (cbn; repeat constructor).
  destruct (SS_lt_inv _ _ Hl) as [Hr Hx]. rewrite Forall_forall in Hx.
  cbn [subsets]. apply SS_app; [apply SS_map_cons; auto | auto |].
  intros a b Ha Hb. apply in_map_iff in Ha. destruct Ha as (t & <- & _).
  pose proof (subsets_length _ _ _ Hb) as Lb. destruct b as [|y b]; [discriminate|].
  cbn. left. apply Hx. eapply subsets_members; [exact Hb|now left].
Qed.

Lemma iota_In lo c y : In y (iota lo c) <-> lo <= y < lo + Z.of_nat c.
Proof.
  revert lo. induction c as [|c IH]; intros lo; cbn [iota In]; [lia|]. rewrite IH. lia.
Qed.
Lemma iota_sorted lo c : StronglySorted Z.lt (iota lo c).
Proof.
  revert lo. induction c as [|c IH]; intros lo; cbn; constructor; [apply IH|].
  apply Forall_forall. intros y Hy. apply iota_In in Hy. lia.
Qed.
Lemma SS_lt_NoDup l : StronglySorted Z.lt l -> NoDup l.
Proof.
  induction 1 as [|a l H1 IH H2]; constructor; [|exact IH]. intros Hin. rewrite Forall_forall in H2. specialize (H2 _ Hin). lia.
Qed.

(* the specification list is what the property says, for all n and k *)
Theorem spec_members n k s : 0 <= n -> 0 <= k -> (In s (spec n k) <-> is_ksubset n k s).
Proof.
  intros Hn Hk. unfold spec, is_ksubset. rewrite (subsets_spec _ (iota_sorted 0 _)).
  split; intros (H1 & H2 & H3); (repeat split; [lia|exact H2|]); eapply Forall_impl; try exact H3;
    intros y Hy; cbv beta in *; [apply iota_In in Hy|apply iota_In]; lia.
Qed.
Theorem spec_NoDup n k : NoDup (spec n k).
Proof. apply subsets_NoDup, SS_lt_NoDup, iota_sorted. Qed.
Theorem spec_lex_sorted n k : StronglySorted lex_lt (spec n k).
Proof. apply subsets_lex_sorted, iota_sorted. Qed.

(* ---- the code's successor enumerates exactly that list: complete evaluation over the property's domain ---- *)
Definition lz_eqb (a b : list Z) : bool := (length a =? length b)%nat && forallb (fun p => fst p =? snd p) (combine a b).
Definition ll_eqb (a b : list (list Z)) : bool := (length a =? length b)%nat && forallb (fun p => lz_eqb (fst p) (snd p)) (combine a b).
Lemma lz_eqb_eq a : forall b, lz_eqb a b = true -> a = b.
Proof.
  unfold lz_eqb. induction a as [|x a IH]; intros [|y b]; cbn; try discriminate; [reflexivity|].
  rewrite !andb_true_iff, Nat.eqb_eq, Z.eqb_eq. intros (H1 & H2 & H3). f_equal; [exact H2|].
  apply IH. rewrite andb_true_iff, Nat.eqb_eq. auto.
Qed.
Lemma lz_eqb_refl a : lz_eqb a a = true.
Proof. unfold lz_eqb. induction a as [|x a IH]; cbn; [reflexivity|]. rewrite Z.eqb_refl. exact IH. Qed.
Lemma ll_eqb_eq a : forall b, ll_eqb a b = true -> a = b.
Proof.
  unfold ll_eqb. induction a as [|x a IH]; intros [|y b]; cbn; try discriminate; [reflexivity|].
  rewrite !andb_true_iff, Nat.eqb_eq. intros (H1 & H2 & H3). f_equal; [apply lz_eqb_eq, H2|].
  apply IH. rewrite andb_true_iff, Nat.eqb_eq. auto.
Qed.
Lemma ll_eqb_refl a : ll_eqb a a = true.
Proof. unfold ll_eqb. induction a as [|x a IH]; cbn; [reflexivity|]. rewrite lz_eqb_refl. exact IH. Qed.

Definition ok (nk : Z * Z) : bool :=
  match combinations (fst nk) (snd nk) with Some l => ll_eqb l (spec (fst nk) (snd nk)) | None => false end.
Definition pairs : list (Z * Z) :=
  flat_map (fun n => map (fun k => (Z.of_nat n, Z.of_nat k)) (seq 0 (S n))) (seq 0 13).
Lemma pairs_length : length pairs = 91%nat.
Proof. reflexivity. Qed.
Lemma all_ok : forallb ok pairs = true.
Proof. vm_compute. reflexivity. Qed.
Lemma pairs_complete n k : 0 <= k <= n -> n <= 12 -> In (n, k) pairs.
Proof.
  intros H1 H2. unfold pairs. apply in_flat_map. exists (Z.to_nat n). split; [apply in_seq; lia|].
  apply in_map_iff. exists (Z.to_nat k). split; [f_equal; lia|apply in_seq; lia].
Qed.

Theorem combinations_spec_12 n k : 0 <= k <= n -> n <= 12 -> combinations n k = Some (spec n k).
Proof.
  intros H1 H2. pose proof (proj1 (forallb_forall ok pairs) all_ok (n, k) (pairs_complete n k H1 H2)) as H.
  unfold ok in H. cbn [fst snd] in H. destruct (combinations n k) as [l|]; [|discriminate]. f_equal. apply ll_eqb_eq, H.
Qed.
(* the statement of the property: the visited sequence contains exactly the k-subsets, each once, lexicographically increasing *)
Theorem combinations_visits_12 n k : 0 <= k <= n -> n <= 12 ->
  exists v, combinations n k = Some v /\ (forall s, In s v <-> is_ksubset n k s) /\ NoDup v /\ StronglySorted lex_lt v.
Proof.
  intros H1 H2. exists (spec n k). split; [now apply combinations_spec_12|]. split; [|split].
  - intros s. apply spec_members; lia.
  - apply spec_NoDup.
  - apply spec_lex_sorted.
Qed.

(* checker on an observed visit sequence: it is the independently computed lexicographic enumeration *)
Definition check_comb (n k : Z) (o : list (list Z)) : bool := ll_eqb o (spec n k).
Theorem check_comb_spec n k o : check_comb n k o = true <-> o = spec n k.
Proof. unfold check_comb. split; [apply ll_eqb_eq|intros ->; apply ll_eqb_refl]. Qed.
(* a sequence with the three stated properties IS that enumeration: strictly sorted lists with the same members are equal *)
Lemma lex_lt_irrefl a : ~ lex_lt a a.
Proof. induction a as [|x a IH]; cbn; [tauto|]. intros [H|[_ H]]; [lia|auto]. Qed.
Lemma lex_lt_trans a : forall b c, lex_lt a b -> lex_lt b c -> lex_lt a c.
Proof.
  induction a as [|x a IH]; intros [|y b] [|z c]; cbn; try tauto.
  intros [H1|[-> H1]] [H2|[-> H2]]; try (left; lia). right. split; [reflexivity|eauto].
Qed.
Lemma SS_lex_unique (u v : list (list Z)) :
  StronglySorted lex_lt u -> StronglySorted lex_lt v -> (forall s, In s u <-> In s v) -> u = v.
Proof.
  intros Hu. revert v. induction Hu as [|a u Hu IH Ha]; intros v Hv Hm.
  - destruct v as [|b v]; [reflexivity|]. exfalso. apply (Hm b). now left.
  - destruct Hv as [|b v Hv Hb]; [exfalso; apply (Hm a); now left|].
    rewrite Forall_forall in Ha, Hb.
    assert (a = b) as ->.
    { destruct (proj1 (Hm a) (or_introl eq_refl)) as [E|Hav]; [now symmetry|].
      destruct (proj2 (Hm b) (or_introl eq_refl)) as [E|Hbu]; [exact E|].
      exfalso. apply (lex_lt_irrefl a). eapply lex_lt_trans; [apply Ha, Hbu|apply Hb, Hav]. }
    f_equal. apply IH; [exact Hv|]. intros s. split; intros Hs.
    + destruct (proj1 (Hm s) (or_intror Hs)) as [<-|H]; [|exact H]. exfalso. apply (lex_lt_irrefl b), Ha, Hs.
    + destruct (proj2 (Hm s) (or_intror Hs)) as [<-|H]; [|exact H]. exfalso. apply (lex_lt_irrefl b), Hb, Hs.
Qed.
Theorem visits_unique n k v : 0 <= n -> 0 <= k ->
  (forall s, In s v <-> is_ksubset n k s) -> StronglySorted lex_lt v -> v = spec n k.
Proof.
  intros Hn Hk Hm Hs. apply SS_lex_unique; [exact Hs|apply spec_lex_sorted|].
  intros s. rewrite Hm. symmetry. now apply spec_members.
Qed.

(* ================= general proof (no bound on n): the successor walks the reference enumeration ================= *)
Lemma refill_iota c last : refill c last = iota (last + 1) c.
Proof. revert last. induction c as [|c IH]; intros last; cbn; [reflexivity|]. now rewrite IH. Qed.

(* the bound tested at position pos depends on pos - k only *)
Lemma bump_shift n k l : forall pos, bump n (k - 1) l (pos - 1) = bump n k l pos.
Proof.
  induction l as [|old r IH]; intros pos; cbn; [reflexivity|].
  replace (n + (pos - 1) - (k - 1)) with (n + pos - k) by lia. destruct (old =? n + pos - k); [apply IH|reflexivity].
Qed.
Lemma bump_app n k l m : forall pos,
  bump n k (l ++ m) pos = match bump n k l pos with Some l' => Some (l' ++ m) | None => bump n k m (pos - Z.of_nat (length l)) end.
Proof.
  induction l as [|old r IH]; intros pos; cbn [app bump length].
  - f_equal. cbn. lia.
  - destruct (old =? n + pos - k); [|reflexivity]. rewrite IH. destruct (bump n k r (pos - 1)); [reflexivity|]. f_equal. lia.
Qed.
Lemma bump_some n k l : forall pos l', bump n k l pos = Some l' -> l' <> [] /\ (length l' <= length l)%nat.
Proof.
  induction l as [|old r IH]; intros pos l'; cbn; [discriminate|].
  destruct (old =? n + pos - k).
  - intros H. destruct (IH _ _ H). split; [assumption|lia].
  - intros [= <-]. split; [discriminate|cbn; lia].
Qed.

(* the successor of x :: t is x :: successor(t), or, when t is exhausted, (x+1) followed by consecutive values — unless x is at its bound *)
Lemma next_cons n k x t : Z.of_nat (length t) = k - 1 ->
  next n k (x :: t) = match next n (k - 1) t with
                      | Some t' => Some (x :: t')
                      | None => if x =? n - k then None else Some ((x + 1) :: refill (length t) (x + 1))
                      end.
Proof.
  intros L. unfold next. cbn [rev]. rewrite bump_app, <- bump_shift.
  destruct (bump n (k - 1) (rev t) (k - 1 - 1)) as [l'|] eqn:E.
  - destruct (bump_some _ _ _ _ _ E) as [Hne Hlen]. rewrite rev_length in Hlen.
    destruct l' as [|y l'']; [contradiction|]. rewrite rev_app_distr. cbn [rev app hd]. reflexivity.
  - rewrite rev_length. replace (k - 1 - Z.of_nat (length t)) with 0 by lia. cbn [bump].
    replace (n + 0 - k) with (n - k) by lia. destruct (x =? n - k); [reflexivity|].
    cbn [rev app length hd]. f_equal. f_equal. f_equal. lia.
Qed.
Lemma next_nil n : next n 0 [] = None.
Proof. reflexivity. Qed.

(* consecutive elements of l are related by nxt; the successor of the last one is `after` *)
Fixpoint chain (nxt : list Z -> option (list Z)) (l : list (list Z)) (after : option (list Z)) : Prop :=
  match l with
  | [] => True
  | a :: r => match r with [] => nxt a = after | b :: _ => nxt a = Some b /\ chain nxt r after end
  end.
Lemma chain_app nxt l1 : forall l2 after, l1 <> [] ->
  chain nxt l1 (match l2 with [] => after | b :: _ => Some b end) -> chain nxt l2 after -> chain nxt (l1 ++ l2) after.
Proof.
  induction l1 as [|a r IH]; intros l2 after Hne H1 H2; [contradiction|].
  destruct r as [|b r'].
  - cbn in H1. cbn [app]. destruct l2 as [|c l2']; [exact H1|]. cbn [chain]. split; [exact H1|exact H2].
  - cbn [chain] in H1. destruct H1 as [Ha Hr]. change ((a :: b :: r') ++ l2) with (a :: (b :: r') ++ l2).
    cbn [chain app]. split; [exact Ha|]. apply (IH l2 after); [discriminate|exact Hr|exact H2].
Qed.
Lemma chain_map_cons n k x T : forall after, (forall t, In t T -> Z.of_nat (length t) = k - 1) ->
  chain (next n (k - 1)) T after ->
  chain (next n k) (map (cons x) T)
        (match after with Some t' => Some (x :: t') | None => if x =? n - k then None else Some ((x + 1) :: refill (Z.to_nat (k - 1)) (x + 1)) end).
Proof.
  induction T as [|a r IH]; intros after HL H; [exact I|].
  assert (La : Z.of_nat (length a) = k - 1) by (apply HL; now left).
  destruct r as [|b r'].
  - cbn in H. cbn [map chain]. rewrite (next_cons n k x a La), H. destruct after; [reflexivity|].
    destruct (x =? n - k); [reflexivity|]. do 3 f_equal. lia.
  - cbn [chain] in H. destruct H as [Ha Hr]. cbn [map chain]. split.
    + rewrite (next_cons n k x a La), Ha. reflexivity.
    + apply (IH after); [|exact Hr]. intros t Ht. apply HL. now right.
Qed.

Lemma subsets_chain n : forall m lo k, lo + Z.of_nat m = n ->
  chain (next n (Z.of_nat k)) (subsets (iota lo m) k) None /\
  ((k <= m)%nat -> exists rest, subsets (iota lo m) k = iota lo k :: rest) /\
  ((m < k)%nat -> subsets (iota lo m) k = []).
Proof.
  induction m as [|m IH]; intros lo k Hn.
  - destruct k as [|k].
    + split; [reflexivity|]. split; [intros _; now exists []|intros H; inversion H].
    + split; [exact I|]. split; [intros H; inversion H|reflexivity].
  - destruct k as [|k].
    + split; [reflexivity|]. split; [intros _; now exists []|intros H; inversion H].
    + cbn [iota subsets].
      destruct (IH (lo + 1) k ltac:(lia)) as (C1 & F1 & E1).
      destruct (IH (lo + 1) (S k) ltac:(lia)) as (C2 & F2 & E2).
      set (T := subsets (iota (lo + 1) m) k) in *. set (U := subsets (iota (lo + 1) m) (S k)) in *.
      destruct (Nat.le_gt_cases k m) as [Hkm|Hkm].
      * destruct (F1 Hkm) as (rest1 & HT).
        assert (HL : forall t, In t T -> Z.of_nat (length t) = Z.of_nat (S k) - 1).
        { intros t Ht. unfold T in Ht. apply subsets_length in Ht. lia. }
        assert (C1' : chain (next n (Z.of_nat (S k) - 1)) T None) by (replace (Z.of_nat (S k) - 1) with (Z.of_nat k) by lia; exact C1).
        pose proof (chain_map_cons n (Z.of_nat (S k)) lo T None HL C1') as CM. cbv beta iota in CM.
        replace (Z.to_nat (Z.of_nat (S k) - 1)) with k in CM by lia.
        split; [|split].
        -- apply chain_app; [rewrite HT; discriminate| |exact C2].
           destruct (Nat.eq_dec k m) as [->|Hne].
           ++ rewrite (E2 ltac:(lia)). replace (lo =? n - Z.of_nat (S m)) with true in CM by (symmetry; apply Z.eqb_eq; lia). exact CM.
           ++ destruct (F2 ltac:(lia)) as (rest2 & HU). rewrite HU.
              replace (lo =? n - Z.of_nat (S k)) with false in CM by (symmetry; apply Z.eqb_neq; lia).
              rewrite refill_iota in CM. exact CM.
        -- intros _. rewrite HT. cbn [map app]. now eexists.
        -- lia.
      * split; [|split].
        -- rewrite (E1 Hkm), (E2 ltac:(lia)). exact I.
        -- lia.
        -- intros _. rewrite (E1 Hkm), (E2 ltac:(lia)). reflexivity.
Qed.

Lemma run_chain n k : forall l p fuel, chain (next n k) (p :: l) None -> (length (p :: l) <= fuel)%nat -> run fuel n k p = Some (p :: l).
Proof.
  induction l as [|b l IH]; intros p fuel H Hf; (destruct fuel as [|f]; [cbn in Hf; lia|]); cbn [run].
  - cbn in H. now rewrite H.
  - cbn [chain] in H. destruct H as [Hp Hr]. rewrite Hp. rewrite (IH b f Hr); [reflexivity|cbn in *; lia].
Qed.

(* for every n and k: given enough fuel, the code's loop visits exactly the reference enumeration, in its order *)
Theorem run_enumerates n k fuel : 0 <= k <= n -> (length (spec n k) <= fuel)%nat ->
  run fuel n k (iota 0 (Z.to_nat k)) = Some (spec n k).
Proof.
  intros Hk Hf. unfold spec in *.
  destruct (subsets_chain n (Z.to_nat n) 0 (Z.to_nat k) ltac:(lia)) as (C & F & _).
  destruct (F ltac:(lia)) as (rest & HS). rewrite HS in *.
  replace (Z.of_nat (Z.to_nat k)) with k in C by lia.
  now apply run_chain.
Qed.
Theorem combinations_general n k : 0 <= k <= n -> (length (spec n k) <= comb_fuel)%nat -> combinations n k = Some (spec n k).
Proof. intros Hk Hf. unfold combinations. now apply run_enumerates. Qed.
(* whatever the fuel, the model never returns a wrong sequence: None (out of fuel) or the enumeration *)
Theorem run_sound n k fuel v : 0 <= k <= n -> run fuel n k (iota 0 (Z.to_nat k)) = Some v -> v = spec n k.
Proof.
  intros Hk H. destruct (Nat.le_gt_cases (length (spec n k)) fuel) as [Hf|Hf].
  - rewrite (run_enumerates n k fuel Hk Hf) in H. now injection H.
  - exfalso. (* with less fuel than elements the loop cannot finish *)
    unfold spec in *. destruct (subsets_chain n (Z.to_nat n) 0 (Z.to_nat k) ltac:(lia)) as (C & F & _).
    destruct (F ltac:(lia)) as (rest & HS). rewrite HS in *. replace (Z.of_nat (Z.to_nat k)) with k in C by lia.
    clear HS F. revert H C Hf. generalize (iota 0 (Z.to_nat k)) as p. revert v rest.
    induction fuel as [|f IH]; intros v rest p H C Hf; [discriminate|].
    cbn [run] in H. destruct rest as [|b rest'].
    + cbn in Hf. lia.
    + cbn [chain] in C. destruct C as [Hp Hr]. rewrite Hp in H.
      destruct (run f n k b) as [w|] eqn:E; [|discriminate].
      apply (IH w rest' b E Hr). cbn in *. lia.
Qed.

(* ---- outside the property's quantifier (k > n): the loop of the code does not stop ----
   Combinations(1, 2, f): the pattern starts as [0, 1]; position 1 is never at its bound n+1-k = 0, so it is incremented for ever and
   f is called with [0, 1], [0, 2], [0, 3], ... (indices outside 0..n-1). The harness never generates k > n. *)
Lemma next_k_gt_n j : 1 <= j -> next 1 2 [0; j] = Some [0; j + 1].
Proof.
  intros H. unfold next. cbn [rev app bump]. replace (1 + (2 - 1) - 2) with 0 by lia.
  destruct (Z.eqb_spec j 0) as [E|_]; [lia|]. reflexivity.
Qed.
Theorem combinations_k_gt_n_never_returns : forall fuel j, 1 <= j -> run fuel 1 2 [0; j] = None.
Proof.
  induction fuel as [|f IH]; intros j Hj; [reflexivity|]. cbn [run]. rewrite (next_k_gt_n j Hj), (IH (j + 1)) by lia. reflexivity.
Qed.
