(* BitAltV.v — C17, reverse direction (convertBitToVerticalID) on the bit-exact model:
   - the vertical index of a computed cell bound is the EXACT floor of bound * 2^oz / 2^25 (the division by a power of two and math.Floor
     introduce no error) — lifted from the validated fragments FloorBridge / FF;
   - the two computed bounds are ordered (every float operation is monotone);
   - hence the emitted list is, as a set, the contiguous run between the two indices and covers every altitude between the two bounds. *)
From Coq Require Import ZArith Reals Lia Lra Psatz Floats List Bool String.
From Flocq Require Import Core BinarySingleNaN Mult_error.
From Flocq Require PrimFloat.
From SID Require Import Base Str Ids F64 ExactRef PointF BitAlt BitAltRef BitAltR BitAltF.
Import ListNotations.
Open Scope Z_scope.

#[local] Instance Hprec : Prec_gt_0 FloatOps.prec := eq_refl _.
#[local] Instance Hmax : Prec_lt_emax FloatOps.prec FloatOps.emax := eq_refl _.

(* ---- the executable floor on primitive floats is the real floor of the float's value ---- *)
Lemma floor_F2R (v e : Z) :
  Zfloor (IZR v * bpow radix2 e) =
  match e with Z0 => v | Zpos p => v * Z.pow_pos 2 p | Zneg p => v / Z.pow_pos 2 p end.
Proof.
  destruct e as [|p|p].
  - rewrite bpow0. apply Zfloor_IZR.
  - rewrite <- IZR_pow2' by lia. rewrite <- mult_IZR, Zfloor_IZR. reflexivity.
  - change (Z.pow_pos 2 p) with (2 ^ Zpos p).
    replace (bpow radix2 (Zneg p)) with (/ IZR (2 ^ Zpos p))%R.
    + change (IZR v * / IZR (2 ^ Z.pos p))%R with (IZR v / IZR (2 ^ Z.pos p))%R. apply Zfloor_div. apply Z.pow_nonzero; lia.
    + rewrite IZR_pow2' by lia. rewrite <- bpow_opp. reflexivity.
Qed.
Theorem Zfloor_f_spec (f : pfloat) : fin f -> Zfloor_f f = Some (Zfloor (val f)).
Proof.
  unfold fin, val. intros Hfin. unfold Zfloor_f. rewrite <- Flocq.IEEE754.PrimFloat.B2SF_Prim2B.
  destruct (P2B f) as [s|s| |s m e Hb]; try discriminate; cbn [B2SF B2R].
  - now rewrite Zfloor_IZR.
  - f_equal. unfold F2R. cbn [Fnum Fexp]. rewrite floor_F2R. destruct s; reflexivity.
Qed.

(* an integer-valued float converts to that integer (Go's int64(x) after math.Floor) *)
Lemma Ztrunc_int (y : pfloat) (z : Z) : fin y -> val y = IZR z -> Ztrunc_f y = Some z.
Proof.
  intros Fy Vy. unfold Ztrunc_f. destruct (y <? 0)%float.
  - unfold Zceil_f. rewrite Zfloor_f_spec by (now apply fin_opp). rewrite val_opp, Vy, <- opp_IZR, Zfloor_IZR. cbn. f_equal. lia.
  - rewrite Zfloor_f_spec by exact Fy. now rewrite Vy, Zfloor_IZR.
Qed.

(* ---- math.Floor below 2^52 ---- *)
Lemma val_two52 : val two52 = bpow radix2 52 /\ fin two52.
Proof.
  unfold fin. rewrite val_Prim2SF, fin_Prim2SF. unfold two52.
  change (Prim2SF 0x1p+52%float) with (S754_finite false 4503599627370496 0).
  split; [|reflexivity]. cbn [SF2R cond_Zopp]. unfold F2R. cbn [Fnum Fexp]. rewrite bpow0.
  change (IZR (Z.pos 4503599627370496)) with (IZR (2 ^ 52)). now rewrite IZR_pow2' by lia.
Qed.
Lemma fin_not_nan x : fin x -> PrimFloat.is_nan x = false /\ is_infinity x = false.
Proof.
  unfold fin. rewrite Flocq.IEEE754.PrimFloat.is_nan_equiv, Flocq.IEEE754.PrimFloat.is_infinity_equiv.
  destruct (P2B x); try discriminate; auto.
Qed.
Lemma val_abs x : val (abs x) = Rabs (val x) /\ (fin x -> fin (abs x)).
Proof.
  unfold val, fin. rewrite Flocq.IEEE754.PrimFloat.abs_equiv. split; [apply B2R_Babs|]. now rewrite is_finite_Babs.
Qed.
Lemma val_zero : val 0%float = 0%R /\ fin 0%float.
Proof. unfold fin. rewrite val_Prim2SF, fin_Prim2SF. change (Prim2SF 0%float) with (S754_zero false). split; reflexivity. Qed.
Lemma eqb_zero x : fin x -> (x =? 0)%float = true -> val x = 0%R.
Proof.
  intros Fx H. destruct val_zero as [V0 F0].
  rewrite Flocq.IEEE754.PrimFloat.eqb_equiv in H. rewrite Beqb_correct in H by assumption.
  destruct (Req_bool_spec (B2R (P2B x)) (B2R (P2B 0%float))) as [E|E]; [|discriminate].
  unfold val in *. now rewrite E.
Qed.

Lemma Zfloor_abs_lt (r : R) (k : Z) : 0 <= k -> (Rabs r < bpow radix2 k)%R -> Z.abs (Zfloor r) <= 2 ^ k.
Proof.
  intros Hk H. rewrite <- IZR_pow2' in H by exact Hk.
  pose proof (Zfloor_lb r) as Flb. pose proof (Zfloor_ub r) as Fub.
  assert (Hr : (- IZR (2 ^ k) < r < IZR (2 ^ k))%R) by (apply Rabs_def2 in H; lra).
  assert (Zfloor r < 2 ^ k) by (apply lt_IZR; lra).
  assert (- 2 ^ k - 1 < Zfloor r) by (apply lt_IZR; rewrite minus_IZR, opp_IZR; lra).
  lia.
Qed.

(* math.Floor: exact (the integer is below 2^53, hence representable) *)
Lemma ffloor_spec x : fin x -> (Rabs (val x) < bpow radix2 52)%R -> val (ffloor x) = IZR (Zfloor (val x)) /\ fin (ffloor x).
Proof.
  intros Fx Hx. unfold ffloor. destruct (fin_not_nan x Fx) as [Hn Hi]. rewrite Hn, Hi.
  destruct val_two52 as [V52 F52]. destruct (val_abs x) as [Va Fa]. specialize (Fa Fx).
  assert (L : (two52 <=? abs x)%float = false).
  { rewrite Flocq.IEEE754.PrimFloat.leb_equiv, Bleb_correct by assumption. fold (val two52) (val (abs x)).
    rewrite V52, Va. apply Rle_bool_false. exact Hx. }
  rewrite L. destruct (x =? 0)%float eqn:E0; cbn [orb].
  - rewrite (eqb_zero x Fx E0). change 0%R with (IZR 0). rewrite Zfloor_IZR. split; [reflexivity|exact Fx].
  - rewrite Zfloor_f_spec by exact Fx. apply of_Z_exact.
    pose proof (Zfloor_abs_lt (val x) 52 ltac:(lia) Hx). lia.
Qed.

(* altResolution = 2^25 / 2^oz, exactly *)
Lemma vres_exact oz : 0 <= oz <= 35 -> val (pow2f 25 / pow2f oz)%float = bpow radix2 (25 - oz) /\ fin (pow2f 25 / pow2f oz)%float.
Proof.
  intros Hz. destruct (pow2f_value 25 ltac:(lia)) as [V25 F25]. destruct (pow2f_value oz ltac:(lia)) as [Vo Fo].
  assert (D : (bpow radix2 25 / bpow radix2 oz = IZR 1 * bpow radix2 (25 - oz))%R).
  { unfold Rdiv, Zminus. rewrite bpow_plus, bpow_opp. ring. }
  destruct (div_exact (pow2f 25) (pow2f oz) F25) as [Vd Fd].
  { rewrite Vo. apply Rgt_not_eq, bpow_gt_0. }
  { rewrite V25, Vo, D. apply fmt_int; [cbn; lia | lia]. }
  { rewrite V25, Vo, D. apply abs_int_lt; [cbn; lia|]. unfold FloatOps.emax. lia. }
  rewrite V25, Vo, D in Vd. split; [|exact Fd]. rewrite Vd. ring.
Qed.

(* the altitudes the theorem speaks about: zero, or not so tiny that the division by the cell size could underflow; and the index fits 52 bits *)
Definition alt_ok (a : pfloat) (oz : Z) : Prop :=
  fin a /\ (val a = 0%R \/ (bpow radix2 (-900) <= Rabs (val a))%R) /\ (Rabs (val a * bpow radix2 (oz - 25)) < bpow radix2 52)%R.

(* getVerticalTileIdOnAltitude: the index is the exact floor of alt * 2^oz / 2^25 — floor, not truncation, no rounding *)
Theorem f_f_exact (a : pfloat) (oz : Z) : 0 <= oz <= 35 -> alt_ok a oz -> f_f a oz = Some (Zfloor (val a * bpow radix2 (oz - 25))).
Proof.
  intros Hz (Fa & Hu & Hb). unfold f_f. destruct (vres_exact oz Hz) as [Vr Fr].
  assert (D : (val a / bpow radix2 (25 - oz) = val a * bpow radix2 (oz - 25))%R).
  { unfold Rdiv. rewrite <- bpow_opp. f_equal. f_equal. lia. }
  destruct (div_exact a (pow2f 25 / pow2f oz)%float Fa) as [Vq Fq].
  { rewrite Vr. apply Rgt_not_eq, bpow_gt_0. }
  { rewrite Vr, D. destruct Hu as [Z0|Hbig].
    - rewrite Z0, Rmult_0_l. apply generic_format_0.
    - change fexp with (FLT_exp (-1074) 53). apply mult_bpow_exact_FLT; [apply (generic_format_B2R FloatOps.prec FloatOps.emax)|].
      assert (-899 <= mag radix2 (val a)).
      { apply mag_ge_bpow. replace (-899 - 1) with (-900) by lia. exact Hbig. }
      unfold val in *. lia. }
  { rewrite Vr, D. eapply Rlt_trans; [exact Hb|]. apply bpow_lt. unfold FloatOps.emax. lia. }
  rewrite Vr, D in Vq.
  destruct (ffloor_spec (a / (pow2f 25 / pow2f oz))%float Fq ltac:(rewrite Vq; exact Hb)) as [Vf Ff].
  rewrite Vq in Vf. now apply Ztrunc_int.
Qed.

(* ---- rounding is monotone: the computed bounds of a cell are ordered ---- *)
Notation rnd := (round radix2 fexp (round_mode mode_NE)).
Lemma overflow_not_finite (z : b64) s : B2SF z = binary_overflow FloatOps.prec FloatOps.emax mode_NE s -> is_finite z = false.
Proof. unfold binary_overflow. cbn [overflow_to_inf]. destruct z; cbn; intros H; try discriminate; reflexivity. Qed.

Lemma mul_rnd x y : fin x -> fin y -> fin (x * y)%float -> val (x * y)%float = rnd (val x * val y).
Proof.
  unfold fin, val. intros Fx Fy Fm.
  assert (E : P2B (x * y)%float = @Bmult _ _ Hprec Hmax mode_NE (P2B x) (P2B y)) by exact (Flocq.IEEE754.PrimFloat.mul_equiv x y).
  rewrite E in *. pose proof (Bmult_correct _ _ Hprec Hmax mode_NE (P2B x) (P2B y)) as H.
  destruct (Rlt_bool _ _) in H; [tauto|]. apply overflow_not_finite in H. congruence.
Qed.
Lemma add_rnd x y : fin x -> fin y -> fin (x + y)%float -> val (x + y)%float = rnd (val x + val y).
Proof.
  unfold fin, val. intros Fx Fy Fm.
  assert (E : P2B (x + y)%float = @Bplus _ _ Hprec Hmax mode_NE (P2B x) (P2B y)) by exact (Flocq.IEEE754.PrimFloat.add_equiv x y).
  rewrite E in *. pose proof (Bplus_correct _ _ Hprec Hmax mode_NE (P2B x) (P2B y) Fx Fy) as H.
  destruct (Rlt_bool _ _) in H; [tauto|]. destruct H as [H _]. apply overflow_not_finite in H. congruence.
Qed.
Lemma sub_rnd x y : fin x -> fin y -> fin (x - y)%float -> val (x - y)%float = rnd (val x - val y).
Proof.
  unfold fin, val. intros Fx Fy Fm.
  assert (E : P2B (x - y)%float = @Bminus _ _ Hprec Hmax mode_NE (P2B x) (P2B y)) by exact (Flocq.IEEE754.PrimFloat.sub_equiv x y).
  rewrite E in *. pose proof (Bminus_correct _ _ Hprec Hmax mode_NE (P2B x) (P2B y) Fx Fy) as H.
  destruct (Rlt_bool _ _) in H; [tauto|]. destruct H as [H _]. apply overflow_not_finite in H. congruence.
Qed.
Lemma div_rnd x y : fin x -> val y <> 0%R -> fin (x / y)%float -> val (x / y)%float = rnd (val x / val y).
Proof.
  unfold fin, val. intros Fx Hy Fm.
  assert (E : P2B (x / y)%float = @Bdiv _ _ Hprec Hmax mode_NE (P2B x) (P2B y)) by exact (Flocq.IEEE754.PrimFloat.div_equiv x y).
  rewrite E in *. pose proof (Bdiv_correct _ _ Hprec Hmax mode_NE (P2B x) (P2B y) Hy) as H.
  destruct (Rlt_bool _ _) in H; [tauto|]. apply overflow_not_finite in H. congruence.
Qed.
Lemma rnd_le a b : (a <= b)%R -> (rnd a <= rnd b)%R.
Proof. apply round_le; [apply (fexp_correct FloatOps.prec FloatOps.emax); exact Hprec | apply valid_rnd_round_mode]. Qed.
Lemma rnd_0 : rnd 0 = 0%R.
Proof. apply round_0. apply valid_rnd_round_mode. Qed.

(* the cell height is not negative when max > min *)
Lemma cell_height_nonneg vz mx mn : 0 <= vz <= 35 -> fin mx -> fin mn -> (val mn <= val mx)%R ->
  fin (mx - mn)%float -> fin (cell_height vz mx mn) -> (0 <= val (cell_height vz mx mn))%R.
Proof.
  intros Hv Fx Fn Hle Fd Fh. unfold cell_height in *. destruct (pow2f_value vz ltac:(lia)) as [Vp Fp].
  rewrite div_rnd; [|exact Fd|rewrite Vp; apply Rgt_not_eq, bpow_gt_0|exact Fh].
  rewrite <- rnd_0. apply rnd_le. rewrite Vp, sub_rnd by assumption.
  apply Rmult_le_pos; [|left; apply Rinv_0_lt_compat, bpow_gt_0].
  rewrite <- rnd_0. apply rnd_le. lra.
Qed.

(* consecutive bounds are ordered *)
Lemma cell_alt_le k h mn : Z.abs k < 2 ^ 52 -> fin h -> fin mn -> (0 <= val h)%R ->
  fin (of_Z k * h)%float -> fin (of_Z (k + 1) * h)%float -> fin (cell_alt k h mn) -> fin (cell_alt (k + 1) h mn) ->
  (val (cell_alt k h mn) <= val (cell_alt (k + 1) h mn))%R.
Proof.
  intros Hk Fh Fn Hh Fm0 Fm1 Fc0 Fc1. unfold cell_alt in *.
  destruct (of_Z_exact k ltac:(lia)) as [V0 F0]. destruct (of_Z_exact (k + 1) ltac:(lia)) as [V1 F1].
  rewrite !add_rnd by assumption. apply rnd_le. apply Rplus_le_compat_r.
  rewrite !mul_rnd by assumption. apply rnd_le. rewrite V0, V1. apply Rmult_le_compat_r; [exact Hh|]. apply IZR_le. lia.
Qed.

(* REVERSE DIRECTION. For cell k of a range with max > min: when the two computed bounds are in the domain (finite, no underflow, index
   below 2^52), the emitted IDs are "oz/i" for i in the list [hi; lo; lo+1 .. hi-1], where lo and hi are the exact floors of the two bounds
   times 2^oz/2^25; lo <= hi; as a set the list is exactly the contiguous run lo..hi; and every altitude between the two bounds has its
   vertical index in the run (the run covers the cell's altitude interval as computed). *)
Theorem bit_to_vid_run vz k oz mx mn :
  0 <= vz <= 35 -> 0 <= oz <= 35 -> Z.abs k < 2 ^ 52 -> fin mx -> fin mn -> (val mn <= val mx)%R ->
  let h := cell_height vz mx mn in
  let blo := cell_alt k h mn in let bhi := cell_alt (k + 1) h mn in
  fin (mx - mn)%float -> fin h -> fin (of_Z k * h)%float -> fin (of_Z (k + 1) * h)%float -> alt_ok blo oz -> alt_ok bhi oz ->
  let lo := Zfloor (val blo * bpow radix2 (oz - 25)) in
  let hi := Zfloor (val bhi * bpow radix2 (oz - 25)) in
  bit_to_vid vz k oz mx mn = Some (map (vstr oz) (vid_run hi lo)) /\
  lo <= hi /\
  (forall x, In x (vid_run hi lo) <-> lo <= x <= hi) /\
  (forall a : R, (val blo <= a <= val bhi)%R -> lo <= Zfloor (a * bpow radix2 (oz - 25)) <= hi).
Proof.
  intros Hv Hz Hk Fx Fn Hle h blo bhi Fd Fh Fm0 Fm1 Ok0 Ok1 lo hi.
  assert (Hh : (0 <= val h)%R) by (apply cell_height_nonneg; assumption).
  assert (Hb : (val blo <= val bhi)%R).
  { apply cell_alt_le; try assumption; [apply Ok0 | apply Ok1]. }
  assert (Mono : forall a b : R, (a <= b)%R -> Zfloor (a * bpow radix2 (oz - 25)) <= Zfloor (b * bpow radix2 (oz - 25))).
  { intros a b Hab. apply Zfloor_le. apply Rmult_le_compat_r; [apply bpow_ge_0|exact Hab]. }
  assert (Hlh : lo <= hi) by (apply Mono; exact Hb).
  split.
  - unfold bit_to_vid, bit_to_vid_idx. fold h. fold blo bhi.
    rewrite (f_f_exact bhi oz Hz Ok1), (f_f_exact blo oz Hz Ok0). reflexivity.
  - split; [exact Hlh|]. split; [intros x; now apply vid_run_In|].
    intros a [H1 H2]. split; now apply Mono.
Qed.

(* ------------------------------------------------------------------------------------------------------------------ *)
(* REVERSE DIRECTION ON DYADIC RANGES: bounds a 2^e < b 2^e with (|a|+|b|) 2^(vz+2) < 2^53: the four operations
   (max-min, /2^vz, float64(k)*h, +min) are exact, the computed bound is the exact bound of the cell, and the emitted run is the reference run *)
Lemma cell_alt_dyadic (vz g oz : Z) (mx mn : pfloat) (a b e : Z) :
  0 <= vz <= 35 -> fin mx -> fin mn -> val mn = (IZR a * bpow radix2 e)%R -> val mx = (IZR b * bpow radix2 e)%R ->
  Z.abs g <= 2 ^ (vz + 1) + 1 -> (Z.abs a + Z.abs b) * 2 ^ (vz + 2) < 2 ^ 53 -> -900 <= e - vz -> e + 60 <= 1024 ->
  (IZR (Z.abs a + Z.abs b) * bpow radix2 (e + 2 + (oz - 25)) < bpow radix2 52)%R ->
  let x := cell_alt g (cell_height vz mx mn) mn in
  val x = dval (cell_dy g vz (a, e) (b, e)) /\ alt_ok x oz.
Proof.
  intros Hv Fx Fn Vn Vx Hg HM He1 He2 Hidx x.
  assert (P1 : 0 < 2 ^ vz) by (apply Z.pow_pos_nonneg; lia).
  assert (P2 : 2 ^ (vz + 1) = 2 * 2 ^ vz) by (rewrite Z.pow_add_r by lia; lia).
  assert (P3 : 2 ^ (vz + 2) = 4 * 2 ^ vz) by (rewrite Z.pow_add_r by lia; lia).
  assert (P35 : 2 ^ vz <= 2 ^ 35) by (apply Z.pow_le_mono_r; lia).
  set (P := 2 ^ vz) in *. set (S := Z.abs a + Z.abs b) in *.
  assert (HS : 0 <= S) by (unfold S; lia).
  assert (Hba : Z.abs (b - a) <= S) by (unfold S; lia).
  (* d = mx - mn *)
  destruct (sub_exact mx mn Fx Fn) as [Vd Fd].
  { rewrite Vx, Vn, <- Rmult_minus_distr_r, <- minus_IZR. apply fmt_int; [nia|lia]. }
  { rewrite Vx, Vn, <- Rmult_minus_distr_r, <- minus_IZR. apply abs_int_lt; [nia|]. unfold FloatOps.emax. lia. }
  rewrite Vx, Vn, <- Rmult_minus_distr_r, <- minus_IZR in Vd.
  (* h = d / 2^vz *)
  destruct (pow2f_value vz ltac:(lia)) as [Vp Fp].
  assert (D : (IZR (b - a) * bpow radix2 e / bpow radix2 vz = IZR (b - a) * bpow radix2 (e - vz))%R).
  { unfold Rdiv, Zminus. rewrite bpow_plus, bpow_opp. ring. }
  destruct (div_exact (mx - mn)%float (pow2f vz) Fd) as [Vh Fh].
  { rewrite Vp. apply Rgt_not_eq, bpow_gt_0. }
  { rewrite Vd, Vp, D. apply fmt_int; [nia|lia]. }
  { rewrite Vd, Vp, D. apply abs_int_lt; [nia|]. unfold FloatOps.emax. lia. }
  rewrite Vd, Vp, D in Vh. fold (cell_height vz mx mn) in Vh, Fh.
  (* p = float64(g) * h *)
  destruct (of_Z_exact g ltac:(lia)) as [Vg Fg].
  assert (Hgb : Z.abs (g * (b - a)) <= (2 * P + 1) * S) by (rewrite Z.abs_mul; nia).
  destruct (mul_exact (of_Z g) (cell_height vz mx mn) Fg Fh) as [Vm Fm].
  { rewrite Vg, Vh, <- Rmult_assoc, <- mult_IZR. apply fmt_int; [nia|lia]. }
  { rewrite Vg, Vh, <- Rmult_assoc, <- mult_IZR. apply abs_int_lt; [nia|]. unfold FloatOps.emax. lia. }
  rewrite Vg, Vh, <- Rmult_assoc, <- mult_IZR in Vm.
  (* bound = p + mn *)
  set (m := a * P + g * (b - a)).
  assert (Hm : Z.abs m <= 4 * P * S).
  { unfold m. assert (Z.abs (a * P) <= S * P) by (rewrite Z.abs_mul, (Z.abs_eq P) by lia; unfold S; nia).
    assert (S <= P * S) by nia. lia. }
  assert (Sum : (IZR (g * (b - a)) * bpow radix2 (e - vz) + IZR a * bpow radix2 e = IZR m * bpow radix2 (e - vz))%R).
  { unfold m. rewrite plus_IZR, (mult_IZR a P). unfold P. rewrite IZR_pow2' by lia.
    replace (bpow radix2 e) with (bpow radix2 vz * bpow radix2 (e - vz))%R by (rewrite <- bpow_plus; f_equal; lia). ring. }
  destruct (add_exact (of_Z g * cell_height vz mx mn)%float mn Fm Fn) as [Vs Fs].
  { rewrite Vm, Vn, Sum. apply fmt_int; [nia|lia]. }
  { rewrite Vm, Vn, Sum. apply abs_int_lt; [nia|]. unfold FloatOps.emax. lia. }
  rewrite Vm, Vn, Sum in Vs. fold (cell_alt g (cell_height vz mx mn) mn) in Vs, Fs. fold x in Vs, Fs.
  assert (Ec : dval (cell_dy g vz (a, e) (b, e)) = (IZR m * bpow radix2 (e - vz))%R).
  { unfold cell_dy, dval, dnum. cbn [fst snd]. rewrite Z.min_id, Z.sub_diag. change (2 ^ 0) with 1. rewrite !Z.mul_1_r. reflexivity. }
  split; [now rewrite Ec|]. unfold alt_ok. split; [exact Fs|]. rewrite Vs. split.
  - destruct (Z.eq_dec m 0) as [->|Hne]; [left; now rewrite Rmult_0_l|]. right.
    rewrite Rabs_mult, (Rabs_pos_eq (bpow radix2 (e - vz))) by apply bpow_ge_0.
    apply Rle_trans with (1 * bpow radix2 (e - vz))%R.
    + rewrite Rmult_1_l. apply bpow_le. lia.
    + apply Rmult_le_compat_r; [apply bpow_ge_0|]. rewrite <- abs_IZR. apply IZR_le. lia.
  - rewrite Rmult_assoc, <- bpow_plus, Rabs_mult, (Rabs_pos_eq (bpow radix2 _)) by apply bpow_ge_0.
    eapply Rle_lt_trans; [|exact Hidx].
    replace (e + 2 + (oz - 25)) with ((vz + 2) + (e - vz + (oz - 25))) by lia. rewrite (bpow_plus radix2 (vz + 2)), <- Rmult_assoc.
    apply Rmult_le_compat_r; [apply bpow_ge_0|]. rewrite <- abs_IZR, <- IZR_pow2', <- mult_IZR by lia. apply IZR_le. fold S. lia.
Qed.

Theorem bit_to_vid_dyadic_exact (vz k oz : Z) (mx mn : pfloat) (a b e : Z) :
  0 <= vz <= 35 -> 0 <= oz <= 35 -> fin mx -> fin mn -> val mn = (IZR a * bpow radix2 e)%R -> val mx = (IZR b * bpow radix2 e)%R ->
  Z.abs k <= 2 ^ (vz + 1) -> (Z.abs a + Z.abs b) * 2 ^ (vz + 2) < 2 ^ 53 -> -900 <= e - vz -> e + 60 <= 1024 ->
  (IZR (Z.abs a + Z.abs b) * bpow radix2 (e + 2 + (oz - 25)) < bpow radix2 52)%R ->
  let '(lo, hi) := rev_ref vz k oz (a, e) (b, e) in
  bit_to_vid vz k oz mx mn = Some (map (vstr oz) (vid_run hi lo)).
Proof.
  intros Hv Hz Fx Fn Vn Vx Hk HM He1 He2 Hidx. unfold rev_ref.
  destruct (cell_alt_dyadic vz k oz mx mn a b e Hv Fx Fn Vn Vx ltac:(lia) HM He1 He2 Hidx) as [V0 Ok0].
  destruct (cell_alt_dyadic vz (k + 1) oz mx mn a b e Hv Fx Fn Vn Vx ltac:(lia) HM He1 He2 Hidx) as [V1 Ok1].
  unfold bit_to_vid, bit_to_vid_idx. rewrite (f_f_exact _ oz Hz Ok1), (f_f_exact _ oz Hz Ok0).
  rewrite V0, V1, <- !vidx_ref_real. reflexivity.
Qed.
