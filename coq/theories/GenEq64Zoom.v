(* GenEq64Zoom.v — zoom-change kernels (integrate/change_zoom.go: HorizontalZoomMinMax, VerticalZoom; object.ExtendedSpatialID.Higher) in int64 mode:
   (b) bridge to the unbounded kernels of Generated.v, and [fits] on the documented domains: there the int64 code IS the unbounded kernel. *)
From Coq Require Import ZArith Bool Lia.
From SIDGen Require Import Generated Generated64.
From SID Require Import I64 GenEq64Tac.
Open Scope Z_scope.

Opaque Generated.CalculateArithmeticShift Generated64.CalculateArithmeticShift.
Lemma gen64_HorizontalZoomMinMax_exact : forall iz x y oz r,
  Generated64.HorizontalZoomMinMax iz x y oz = Some (r, true) -> r = Generated.HorizontalZoomMinMax iz x y oz.
Proof. bridge base_callees. Qed.
Lemma gen64_VerticalZoom_minmax_exact : forall iz v oz r,
  Generated64.VerticalZoom_minmax iz v oz = Some (r, true) -> r = Generated.VerticalZoom_minmax iz v oz.
Proof. bridge base_callees. Qed.
Lemma gen64_ExtendedSpatialID_Higher_exact : forall h x y v f hd vd r,
  Generated64.ExtendedSpatialID_Higher h x y v f hd vd = Some (r, true) -> r = Generated.ExtendedSpatialID_Higher h x y v f hd vd.
Proof. bridge base_callees. Qed.
Transparent Generated.CalculateArithmeticShift Generated64.CalculateArithmeticShift.

(* ---- fits ---- *)
Lemma pow2_bounds k : 0 <= k <= 61 -> 1 <= 2 ^ k <= 2 ^ 61.
Proof. intros H. split; [apply (Z.pow_le_mono_r 2 0 k); lia | apply Z.pow_le_mono_r; lia]. Qed.
Lemma quot_small x p : 1 <= p -> - Z.abs x <= Z.quot x p <= Z.abs x.
Proof.
  intros Hp. assert (H : Z.abs (Z.quot x p) <= Z.abs x).
  { rewrite <- Z.quot_abs by lia. rewrite (Z.abs_eq p) by lia. apply Z.quot_le_upper_bound; [lia|]. pose proof (Z.abs_nonneg x). nia. }
  lia.
Qed.

(* one operation that stays in range: replace it by its value *)
Ltac ok1 slv :=
  first [ rewrite sub64_ok by slv | rewrite add64_ok by slv | rewrite mul64_ok by slv | rewrite neg64_ok by slv
        | rewrite pow2abs_64_ok by slv | rewrite pow2_64_ok by slv | rewrite shr64_ok by slv | rewrite shr64u_ok by slv ];
  rewrite ?bind_ret_l; cbv beta zeta.

(* the arithmetic shift, exact whenever the count is below 64 in absolute value and a left shift stays in range *)
Lemma gen64_CalculateArithmeticShift_fits : forall i s,
  - 63 <= s <= 63 -> - 2 ^ 63 <= i * 2 ^ Z.max 0 s < 2 ^ 63 ->
  Generated64.CalculateArithmeticShift i s = Some (Generated.CalculateArithmeticShift i s, true).
Proof.
  intros i s Hs Hi. repeat autounfold with sidgen64. repeat autounfold with sidgen. rewrite ?bind_ret_r.
  zcases; try lia.
  all: try (rewrite Z.max_r in Hi by lia; rewrite shl64_ok by (try lia; assumption); reflexivity).
  all: first [ rewrite neg64_ok by lia | rewrite sub64_ok by lia ]; rewrite bind_ret_l; rewrite shr64_ok by lia; reflexivity.
Qed.

Opaque Generated.CalculateArithmeticShift Generated64.CalculateArithmeticShift.
(* HorizontalZoomMinMax: zoom difference up to 61 either way; when zooming in, the scaled indices stay within 2^61 *)
Lemma gen64_HorizontalZoomMinMax_fits_gen : forall iz x y oz,
  - 61 <= oz - iz <= 61 ->
  Z.abs x * 2 ^ Z.max 0 (oz - iz) <= 2 ^ 61 -> Z.abs y * 2 ^ Z.max 0 (oz - iz) <= 2 ^ 61 ->
  Generated64.HorizontalZoomMinMax iz x y oz = Some (Generated.HorizontalZoomMinMax iz x y oz, true).
Proof.
  intros iz x y oz Hd Hx Hy. repeat autounfold with sidgen64. repeat autounfold with sidgen. cbv zeta. unfold pow2abs_64.
  ok1 lia. ok1 lia. rewrite ?bind_ret_l; cbv beta zeta.
  pose proof (pow2_bounds (Z.abs (oz - iz)) ltac:(lia)) as Hp.
  pose proof (pow2_bounds (Z.max 0 (oz - iz)) ltac:(lia)) as Hq.
  assert (Hx' : Z.abs x <= 2 ^ 61) by nia. assert (Hy' : Z.abs y <= 2 ^ 61) by nia.
  destruct (Z.gtb_spec (oz - iz) 0).
  - rewrite Z.max_r in Hx, Hy by lia. rewrite Z.abs_eq in * by lia. set (p := 2 ^ (oz - iz)) in *.
    assert (Hxp : - 2 ^ 61 <= x * p <= 2 ^ 61) by nia. assert (Hyp : - 2 ^ 61 <= y * p <= 2 ^ 61) by nia.
    repeat ok1 ltac:(lia). reflexivity.
  - destruct (oz - iz <? 0); [|reflexivity]. set (p := 2 ^ Z.abs (oz - iz)) in *.
    pose proof (quot_small x p ltac:(lia)). pose proof (quot_small y p ltac:(lia)).
    rewrite !quot64_ok by lia. rewrite !bind_ret_l. reflexivity.
Qed.
(* the property's domain: zooms 0..35, indices of a valid ID (at most 2^zoom in absolute value) *)
Lemma pow2_split a b : 0 <= a -> 0 <= b -> 2 ^ a * 2 ^ b = 2 ^ (a + b).
Proof. intros. now rewrite Z.pow_add_r. Qed.
Lemma valid_scaled iz oz x : 0 <= iz <= 35 -> 0 <= oz <= 35 -> Z.abs x <= 2 ^ iz -> Z.abs x * 2 ^ Z.max 0 (oz - iz) <= 2 ^ 61.
Proof.
  intros Hi Ho Hx.
  assert (B : 2 ^ iz * 2 ^ Z.max 0 (oz - iz) <= 2 ^ 61).
  { rewrite pow2_split by lia. apply Z.pow_le_mono_r; lia. }
  pose proof (pow2_bounds (Z.max 0 (oz - iz)) ltac:(lia)). nia.
Qed.
Theorem gen64_HorizontalZoomMinMax_fits : forall iz x y oz,
  0 <= iz <= 35 -> 0 <= oz <= 35 -> Z.abs x <= 2 ^ iz -> Z.abs y <= 2 ^ iz ->
  Generated64.HorizontalZoomMinMax iz x y oz = Some (Generated.HorizontalZoomMinMax iz x y oz, true).
Proof.
  intros iz x y oz Hi Ho Hx Hy. apply gen64_HorizontalZoomMinMax_fits_gen; [lia| |]; now apply valid_scaled.
Qed.

(* VerticalZoom (bounds of its result loop) *)
Lemma gen64_VerticalZoom_minmax_fits_gen : forall iz v oz,
  - 61 <= oz - iz <= 61 -> Z.abs v * 2 ^ Z.max 0 (oz - iz) <= 2 ^ 61 ->
  Generated64.VerticalZoom_minmax iz v oz = Some (Generated.VerticalZoom_minmax iz v oz, true).
Proof.
  intros iz v oz Hd Hv. repeat autounfold with sidgen64. repeat autounfold with sidgen. cbv zeta. unfold pow2abs_64.
  ok1 lia. ok1 lia. rewrite ?bind_ret_l; cbv beta zeta.
  pose proof (pow2_bounds (Z.abs (oz - iz)) ltac:(lia)) as Hp.
  pose proof (pow2_bounds (Z.max 0 (oz - iz)) ltac:(lia)) as Hq.
  assert (Hv' : Z.abs v <= 2 ^ 61) by nia.
  destruct (Z.gtb_spec (oz - iz) 0).
  - rewrite Z.max_r in Hv by lia. rewrite Z.abs_eq in * by lia. set (p := 2 ^ (oz - iz)) in *.
    assert (Hvp : - 2 ^ 61 <= v * p <= 2 ^ 61) by nia.
    repeat ok1 ltac:(lia). reflexivity.
  - destruct (Z.ltb_spec (oz - iz) 0); [|reflexivity].
    rewrite gen64_CalculateArithmeticShift_fits; [rewrite bind_Some; reflexivity|lia|].
    rewrite Z.max_l by lia. change (2 ^ 0) with 1. lia.
Qed.
Theorem gen64_VerticalZoom_minmax_fits : forall iz v oz,
  0 <= iz <= 35 -> 0 <= oz <= 35 -> Z.abs v <= 2 ^ iz ->
  Generated64.VerticalZoom_minmax iz v oz = Some (Generated.VerticalZoom_minmax iz v oz, true).
Proof.
  intros iz v oz Hi Ho Hv. apply gen64_VerticalZoom_minmax_fits_gen; [lia|]; now apply valid_scaled.
Qed.

Transparent Generated.CalculateArithmeticShift Generated64.CalculateArithmeticShift.
(* Higher: differences 0..61 (below 0 the shift panics: [None]; from 63 on the divisor saturates), any int64 indices *)
Theorem gen64_ExtendedSpatialID_Higher_fits : forall h x y v f hd vd,
  - 2 ^ 62 <= h <= 2 ^ 62 -> - 2 ^ 62 <= v <= 2 ^ 62 -> 0 <= hd <= 61 -> 0 <= vd <= 61 ->
  - 2 ^ 63 <= x < 2 ^ 63 -> - 2 ^ 63 <= y < 2 ^ 63 ->
  Generated64.ExtendedSpatialID_Higher h x y v f hd vd = Some (Generated.ExtendedSpatialID_Higher h x y v f hd vd, true).
Proof.
  intros h x y v f hd vd Hh Hv Hhd Hvd Hx Hy. unfold Generated64.ExtendedSpatialID_Higher, Generated.ExtendedSpatialID_Higher. cbv zeta.
  assert (2 ^ 62 < 2 ^ 63) by (apply Z.pow_lt_mono_r; lia).
  ok1 lia. ok1 lia. ok1 lia.
  pose proof (pow2_bounds hd ltac:(lia)) as Hp. set (p := 2 ^ hd) in *.
  pose proof (quot_small x p ltac:(lia)). pose proof (quot_small y p ltac:(lia)).
  assert (Hq : forall a, - 2 ^ 63 <= a < 2 ^ 63 -> - 2 ^ 63 <= Z.quot a p < 2 ^ 63).
  { intros a Ha. pose proof (quot_small a p ltac:(lia)). destruct (Z.eq_dec a (- 2 ^ 63)) as [->|]; [|lia].
    split; [lia|]. apply Z.le_lt_trans with 0; [|lia]. apply Z.quot_le_upper_bound; lia. }
  rewrite !quot64_ok by (try lia; apply Hq; lia). rewrite !bind_ret_l. ok1 lia. reflexivity.
Qed.
(* a negative vertical difference is NOT a panic: the count is written uint64(vDiff), i.e. 2^64 + vDiff, and the shift fills with the sign
   (the unbounded kernel, which reads the count as vDiff, shifts left instead: the flag is off) *)
Theorem gen64_ExtendedSpatialID_Higher_negative_vDiff : forall h x y v f hd vd, 0 <= hd <= 61 -> vd < 0 ->
  exists hz xx yy vz e, Generated64.ExtendedSpatialID_Higher h x y v f hd vd = Some ((hz, xx, yy, vz, if f <? 0 then -1 else 0), e).
Proof.
  intros h x y v f hd vd Hhd Hvd. unfold Generated64.ExtendedSpatialID_Higher.
  pose proof (pow2_bounds hd ltac:(lia)).
  unfold sub64, ex, quot64, pow2_64, shr64u, ret.
  destruct (Z.ltb_spec hd 63); [|lia]. destruct (Z.ltb_spec vd 0); [|lia].
  rewrite !bind_Some. destruct (Z.eqb_spec (2 ^ hd) 0); [lia|]. unfold ex. rewrite !bind_Some. eauto 10.
Qed.
(* a negative horizontal difference is a division by zero: int64(math.Pow(2, negative)) = 0 *)
Theorem gen64_ExtendedSpatialID_Higher_panics : forall h x y v f hd vd, hd < 0 ->
  Generated64.ExtendedSpatialID_Higher h x y v f hd vd = None.
Proof.
  intros h x y v f hd vd Hhd. unfold Generated64.ExtendedSpatialID_Higher.
  unfold sub64, ex, quot64, pow2_64, ret. destruct (Z.ltb_spec hd 63); [|lia].
  rewrite !bind_Some. rewrite Z.pow_neg_r by lia. reflexivity.
Qed.
