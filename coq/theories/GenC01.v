(* GenC01.v — the main results of property C01 restated over the float kernels REGENERATED from /repo's Go source on every run
   (coq/generated/GeneratedF.v, module SIDGen.GeneratedF): the locals lonIndex / latIndex of getHorizontalTileIdOnPoint, the local vIndex of
   getVerticalTileIdOnAltitude, common.DegreeToRadian, Point.SetLon / Point.SetLat.  Each statement is the corresponding theorem of
   FF / XF / YF / PointProofs / PointSetters / SetLatProofs rewritten with the equivalence lemma of GenEqFPoint.v, so that an edit of the Go
   kernel that changes the generated term breaks these theorems (through the gen_ lemma) and not only the differential tie.
   int64(.) of the Go code is F64.Ztrunc_f; M : libm is the record of Go's math functions (Tan, Cos, Log are used here), universally quantified. *)
From Coq Require Import ZArith Reals Lia Lra Floats List Bool String.
From Flocq Require Import Core.
From SIDGen Require GeneratedF.
From SID Require Import Base Str Ids F64 ExactRef PointF Voxel PtBridge FF XF YF PtMerc PointCheck PointProofs SetLatProofs PointSetters GenEqFPoint.
Import ListNotations.
Open Scope Z_scope.

Notation g_lonIndex := GeneratedF.getHorizontalTileIdOnPoint_lonIndex.
Notation g_latIndex := GeneratedF.getHorizontalTileIdOnPoint_latIndex.
Notation g_vIndex := GeneratedF.getVerticalTileIdOnAltitude_vIndex.

(* ---------------- longitude: int64(lonIndex) ---------------- *)
Theorem gen_x_in_range lon lat h : 0 <= h <= 35 -> ffin lon = true -> (-180 <= fval lon <= 180)%R ->
  exists x, Ztrunc_f (g_lonIndex lon lat h) = Some x /\ 0 <= x < 2 ^ h.
Proof. rewrite gen_getHorizontalTileIdOnPoint_lonIndex_eq. apply x_f_range. Qed.
Theorem gen_x_exact_outside_class lon lat h : 0 <= h <= 35 -> ffin lon = true -> (-180 <= fval lon <= 180)%R ->
  ~ x_rounding (fval lon) h -> Ztrunc_f (g_lonIndex lon lat h) = Some (X_exact h (fval lon)).
Proof. rewrite gen_getHorizontalTileIdOnPoint_lonIndex_eq. apply x_f_exact_outside_class. Qed.
Theorem gen_x_within_one lon lat h x : 0 <= h <= 35 -> ffin lon = true -> (-180 <= fval lon <= 180)%R ->
  Ztrunc_f (g_lonIndex lon lat h) = Some x -> X_exact h (fval lon) - 1 <= x <= X_exact h (fval lon) + 1.
Proof. rewrite gen_getHorizontalTileIdOnPoint_lonIndex_eq. apply x_f_within_one. Qed.
Theorem gen_x_180_is_minus_180 lat h : 0 <= h <= 35 ->
  Ztrunc_f (g_lonIndex 180%float lat h) = Some 0 /\ Ztrunc_f (g_lonIndex (-180)%float lat h) = Some 0.
Proof. rewrite !gen_getHorizontalTileIdOnPoint_lonIndex_eq. apply x_f_180_is_minus_180. Qed.
Theorem gen_x_monotone a b la lb h xa xb : 0 <= h <= 35 ->
  ffin a = true -> ffin b = true -> (-180 <= fval a <= 180)%R -> (-180 <= fval b <= 180)%R ->
  (lon_fold (fval a) <= lon_fold (fval b))%R ->
  Ztrunc_f (g_lonIndex a la h) = Some xa -> Ztrunc_f (g_lonIndex b lb h) = Some xb -> xa <= xb.
Proof. rewrite !gen_getHorizontalTileIdOnPoint_lonIndex_eq. apply x_f_monotone. Qed.
Theorem gen_x_on_boundary lon lat h j k : 0 <= h <= 35 -> 0 <= j <= 44 -> 0 <= k < 2 ^ j -> ffin lon = true ->
  fval lon = (IZR k * 360 / bpow radix2 j - 180)%R ->
  Ztrunc_f (g_lonIndex lon lat h) = Some (Zfloor (IZR k * bpow radix2 (h - j))).
Proof. intros. rewrite gen_getHorizontalTileIdOnPoint_lonIndex_eq. now apply x_f_on_boundary. Qed.
Theorem gen_x_rounding_refuted :
  exists lon h, 0 <= h <= 35 /\ ffin lon = true /\ (-180 <= fval lon <= 180)%R /\ x_rounding (fval lon) h /\
                (forall lat, Ztrunc_f (g_lonIndex lon lat h) = Some 4) /\ X_exact h (fval lon) = 3.
Proof.
  destruct x_f_rounding_refuted as (lon & h & H1 & H2 & H3 & H4 & H5 & H6). exists lon, h.
  split; [exact H1|]. split; [exact H2|]. split; [exact H3|]. split; [exact H4|]. split; [|exact H6].
  intros lat. rewrite gen_getHorizontalTileIdOnPoint_lonIndex_eq. exact H5.
Qed.

(* ---------------- altitude: int64(vIndex) ---------------- *)
Theorem gen_f_exact alt v : 0 <= v <= 35 -> ffin alt = true -> (Rabs (fval alt) <= bpow radix2 40)%R -> ~ alt_underflow alt v ->
  Ztrunc_f (g_vIndex alt v) = Some (Zfloor (fval alt * bpow radix2 v / bpow radix2 25)).
Proof. rewrite gen_getVerticalTileIdOnAltitude_vIndex_eq. apply f_f_exact. Qed.
Theorem gen_f_underflow_refuted :
  exists alt v, 0 <= v <= 35 /\ ffin alt = true /\ (Rabs (fval alt) <= bpow radix2 25)%R /\ alt_underflow alt v /\
                Ztrunc_f (g_vIndex alt v) = Some 0 /\ F_exact v (fval alt) = -1.
Proof.
  destruct f_f_underflow_refuted as (alt & v & H). exists alt, v. now rewrite gen_getVerticalTileIdOnAltitude_vIndex_eq.
Qed.
Theorem gen_f_top_edge v : 0 <= v <= 35 -> Ztrunc_f (g_vIndex 33554432%float v) = Some (2 ^ v).
Proof. intros Hv. rewrite gen_getVerticalTileIdOnAltitude_vIndex_eq. apply f_f_top_edge, Hv. Qed.

(* ---------------- latitude: int64(latIndex), for every libm record ---------------- *)
(* the float m = 1 - Log(Tan r + 1/Cos r)/Pi of the code, with r the GENERATED DegreeToRadian *)
Lemma merc_m_over_generated M lat :
  merc_m (GeneratedF.m_tan M) (GeneratedF.m_cos M) (GeneratedF.m_log M) lat =
  (let r := GeneratedF.DegreeToRadian lat in 1 - GeneratedF.m_log M (GeneratedF.m_tan M r + 1 / GeneratedF.m_cos M r) / c_pi)%float.
Proof. unfold merc_m. cbv zeta. now rewrite gen_DegreeToRadian_eq. Qed.
Notation g_m M lat := (merc_m (GeneratedF.m_tan M) (GeneratedF.m_cos M) (GeneratedF.m_log M) lat).

Theorem gen_y_nested M lon lat r : ffin (g_m M lat) = true -> (Rabs (fval (g_m M lat)) <= 4)%R ->
  Ztrunc_f (g_latIndex M lon lat 35) = Some r -> 0 <= r < 2 ^ 35 ->
  forall h, 0 <= h <= 35 -> Ztrunc_f (g_latIndex M lon lat h) = Some (anc (35 - h) r) /\ 0 <= anc (35 - h) r < 2 ^ h.
Proof.
  intros Fm Bm Y35 Hr h Hh. rewrite gen_getHorizontalTileIdOnPoint_latIndex_eq in *.
  exact (y_f_nested _ _ _ lat r Fm Bm Y35 Hr h Hh).
Qed.
Theorem gen_y_inrange M lon lat h : 0 <= h <= 35 -> ffin (g_m M lat) = true -> (0 <= fval (g_m M lat) < 2)%R ->
  Ztrunc_f (g_latIndex M lon lat h) = Some (Zfloor (bpow radix2 h * (fval (g_m M lat) / 2))).
Proof. rewrite gen_getHorizontalTileIdOnPoint_latIndex_eq. apply y_f_inrange. Qed.
Theorem gen_y_all_zooms_from_35 M lon lat (latR : R) : ffin (g_m M lat) = true -> (Rabs (fval (g_m M lat)) <= 4)%R ->
  (Rabs latR <= lat_limit)%R -> Ztrunc_f (g_latIndex M lon lat 35) = Some (Y_exact 35 latR) ->
  forall h, 0 <= h <= 35 -> Ztrunc_f (g_latIndex M lon lat h) = Some (Y_exact h latR) /\ 0 <= Y_exact h latR < 2 ^ h.
Proof.
  intros Fm Bm Hl Y35 h Hh. rewrite gen_getHorizontalTileIdOnPoint_latIndex_eq in *.
  exact (y_f_all_zooms_from_35 _ _ _ lat latR Fm Bm Hl Y35 h Hh).
Qed.
Theorem gen_y_close M lon lat (latR : R) h : 0 <= h <= 35 -> ffin (g_m M lat) = true -> (Rabs latR <= lat_limit)%R ->
  (Rabs (fval (g_m M lat) / 2 - wfrac latR) <= bpow radix2 (-45))%R ->
  exists y, Ztrunc_f (g_latIndex M lon lat h) = Some y /\ 0 <= y < 2 ^ h /\ Y_exact h latR - 1 <= y <= Y_exact h latR + 1 /\
            (~ y_rounding latR h -> y = Y_exact h latR).
Proof. rewrite gen_getHorizontalTileIdOnPoint_latIndex_eq. apply y_f_close. Qed.

(* ---------------- the voxel of a point, assembled from the three generated kernels ---------------- *)
(* PointF.point_eid is exactly the three generated indices put into an ID *)
Lemma point_eid_over_generated M p h v :
  point_eid (GeneratedF.m_tan M) (GeneratedF.m_cos M) (GeneratedF.m_log M) p h v =
  match Ztrunc_f (g_lonIndex (plon p) (plat p) h), Ztrunc_f (g_latIndex M (plon p) (plat p) h), Ztrunc_f (g_vIndex (palt p) v) with
  | Some x, Some y, Some f => Some (mk h x y v f)
  | _, _, _ => None
  end.
Proof.
  unfold point_eid. now rewrite gen_getHorizontalTileIdOnPoint_lonIndex_eq, gen_getHorizontalTileIdOnPoint_latIndex_eq, gen_getVerticalTileIdOnAltitude_vIndex_eq.
Qed.
Theorem gen_point_voxel_partial M p h v : 0 <= h <= 35 -> 0 <= v <= 35 ->
  pt_domain p -> ~ x_rounding (fval (plon p)) h -> ~ alt_underflow (palt p) v ->
  ffin (g_m M (plat p)) = true -> (0 <= fval (g_m M (plat p)) < 2)%R ->
  Ztrunc_f (g_lonIndex (plon p) (plat p) h) = Some (X_exact h (fval (plon p))) /\
  Ztrunc_f (g_latIndex M (plon p) (plat p) h) = Some (Zfloor (bpow radix2 h * (fval (g_m M (plat p)) / 2))) /\
  Ztrunc_f (g_vIndex (palt p) v) = Some (F_exact v (fval (palt p))).
Proof.
  intros Hh Hv (Fl & Hl & Fa & Ha) Cx Cf Fm Hm. split; [|split].
  - now apply gen_x_exact_outside_class.
  - now apply gen_y_inrange.
  - apply gen_f_exact; try assumption. apply Rle_trans with (1 := Ha). apply bpow_le. lia.
Qed.

(* ---------------- Point.SetLon / Point.SetLat as regenerated (receiver fields passed and returned as a tuple) ---------------- *)
Definition tup (r : point * bool) : pfloat * pfloat * pfloat * bool := (plon (fst r), plat (fst r), palt (fst r), snd r).
Lemma gen_SetLon_is_model p lon : GeneratedF.Point_SetLon (plon p) (plat p) (palt p) lon = tup (set_lon p lon).
Proof. rewrite gen_Point_SetLon_eq. unfold set_lon, tup. destruct (180 <? abs lon)%float; reflexivity. Qed.
Lemma gen_SetLat_is_model p lat : GeneratedF.Point_SetLat (plon p) (plat p) (palt p) lat = tup (set_lat p lat).
Proof. rewrite gen_Point_SetLat_eq. unfold set_lat, tup. cbv zeta. destruct (c_latmax <? abs (setlat_trunc lat))%float; reflexivity. Qed.

(* SetLon: refused iff |lon| > 180; refused = the three fields unchanged; accepted = lon stored, lat and alt unchanged *)
Theorem gen_SetLon_frame a b c lon : ffin lon = true ->
  ((180 < Rabs (fval lon))%R -> GeneratedF.Point_SetLon a b c lon = (a, b, c, true)) /\
  ((Rabs (fval lon) <= 180)%R -> GeneratedF.Point_SetLon a b c lon = (lon, b, c, false)).
Proof.
  intros Fl. pose (p := {| plon := a; plat := b; palt := c |}).
  pose proof (set_lon_refuses_iff p lon Fl) as R. pose proof (gen_SetLon_is_model p lon) as E. cbn [plon plat palt p] in E.
  rewrite E. unfold tup. destruct (set_lon_frame p lon) as (A & B & _).
  destruct (snd (set_lon p lon)) eqn:S.
  - split; intros H; [|exfalso; pose proof (proj1 R eq_refl); lra]. now rewrite (B eq_refl).
  - split; intros H; [exfalso; pose proof (proj2 R H); discriminate|]. destruct (A eq_refl) as (-> & -> & ->). reflexivity.
Qed.
(* SetLat: an accepted call stores a latitude whose magnitude is within [-2^-46, 1e-10 + 2^-46] of the request and leaves lon, alt alone;
   a refused call leaves the three fields unchanged *)
Theorem gen_SetLat_frame a b c lat a' b' c' e : GeneratedF.Point_SetLat a b c lat = (a', b', c', e) ->
  a' = a /\ c' = c /\ (e = true -> b' = b) /\
  (e = false -> ffin lat = true -> (Rabs (fval lat) <= 90)%R ->
   b' = setlat_trunc lat /\ (- bpow radix2 (-46) <= Rabs (fval lat) - Rabs (fval b') <= 1 / 10 ^ 10 + bpow radix2 (-46))%R).
Proof.
  rewrite gen_Point_SetLat_eq. destruct (c_latmax <? abs (setlat_trunc lat))%float; intros [= <- <- <- <-].
  - split; [reflexivity|]. split; [reflexivity|]. split; [reflexivity | discriminate].
  - split; [reflexivity|]. split; [reflexivity|]. split; [discriminate|]. intros _ Fl Hl. split; [reflexivity | now apply setlat_cut_bounds].
Qed.
(* NewPoint (the hand-written sequence SetLon; SetLat; SetAlt over the GENERATED setters) on valid input: the longitude and altitude bits
   are stored unchanged and the latitude is the request cut by at most 1e-10 + 2^-46 *)
Theorem gen_NewPoint_stores lon lat alt p : ffin lat = true -> (Rabs (fval lat) <= 90)%R ->
  (let '(a, b, c, e1) := GeneratedF.Point_SetLon 0 0 0 lon in
   if e1 then ({| plon := a; plat := b; palt := c |}, true)
   else let '(a, b, c, e2) := GeneratedF.Point_SetLat a b c lat in
        if e2 then ({| plon := a; plat := b; palt := c |}, true) else ({| plon := a; plat := b; palt := alt |}, false)) = (p, false) ->
  plon p = lon /\ palt p = alt /\ plat p = setlat_trunc lat /\
  (- bpow radix2 (-46) <= Rabs (fval lat) - Rabs (fval (plat p)) <= 1 / 10 ^ 10 + bpow radix2 (-46))%R.
Proof.
  intros Fl Hl. rewrite <- new_point_over_generated_setters. unfold new_point.
  destruct (180 <? abs lon)%float; [discriminate|]. cbv zeta.
  destruct (c_latmax <? abs (setlat_trunc lat))%float; [discriminate|]. intros [= <-]. cbn.
  split; [reflexivity|]. split; [reflexivity|]. split; [reflexivity | now apply setlat_cut_bounds].
Qed.

(* ---------------- non-vacuity: the generated kernels evaluated ---------------- *)
Example gen_kernels_example :
  Ztrunc_f (g_lonIndex 0x1.1788c154c985fp+7%float 0%float 25) = Some 29804453 /\
  Ztrunc_f (g_lonIndex 0x1.67fffffffffffp+7%float 0%float 35) = Some (2 ^ 35 - 1) /\
  Ztrunc_f (g_vIndex (-0.5)%float 25) = Some (-1) /\ Ztrunc_f (g_vIndex (-33554432)%float 0) = Some (-1) /\
  GeneratedF.Point_SetLon 1 2 3 181 = (1, 2, 3, true)%float /\ GeneratedF.Point_SetLon 1 2 3 (-180) = (-180, 2, 3, false)%float /\
  GeneratedF.Point_SetLat 1 2 3 0x1.9d13e90a263bdp+3 = (1, 0x1.9d13e90a187d6p+3, 3, false)%float.
Proof. vm_compute. repeat split. Qed.
