(* Determinism.v — property C16: the result of a set-valued operation depends only on the SET of its inputs.

   Go randomises the iteration order of every map on every `range` (per run and per map); it is the library's only source of
   nondeterminism.  The models carry it as an order oracle `ord : list A -> list A` whose single hypothesis is
   `Permutation (ord l) l` (DESIGN.md §3).  "For all runs" is therefore "for all such ord", and "two runs" is "two oracles ord, ord'".

   Part A  generic layer.  Most set-valued operations have the shape  F ord l = ord (dedupe (flat_map g l))  (expand every input,
           then common.Unique / a map used as a set).  For every de-duplicating function (any map order, any dedupe algorithm):
           same members in => same members out, no ID twice, hence the two results are permutations of each other — whatever the two
           map orders, for permuted inputs, for inputs with entries repeated in place or appended.
   Part B  instances for the finished models: zoom change (C03), merge (C04), N-layer neighbourhoods (C08), the expansion of one
           extended ID (C10), common.Unique / Union / Difference / Intersect (C20).
   (Overlap, key conversions and the corridor: DeterminismMore.v and DeterminismTile.v.)

   What a model of immutable values cannot express — the caller's slices are left unmodified, genuinely repeated calls in one
   process, state kept between calls — is validated at run time by the Det:<Function> entries (DC16.v, harness/props/c16). *)
From Coq Require Import ZArith Lia List Bool Permutation String.
From SID Require Import Base Str Ids ZoomCore Shift ChangeZoom Merge MergeProof MergeRegion MergeIdem MergeApi Neighbour Notation SetOps.
Import ListNotations.
Open Scope Z_scope.

(* ================================================================================================================== *)
(* Part A. Generic layer                                                                                              *)
(* ================================================================================================================== *)

(* two lists with the same members (order and multiplicity forgotten) *)
Definition same_members {A} (l l' : list A) : Prop := forall a, In a l <-> In a l'.

Lemma same_members_refl {A} (l : list A) : same_members l l.
Proof. intros a. tauto. Qed.
Lemma same_members_sym {A} (l l' : list A) : same_members l l' -> same_members l' l.
Proof. intros H a. symmetry. apply H. Qed.
Lemma same_members_trans {A} (l1 l2 l3 : list A) : same_members l1 l2 -> same_members l2 l3 -> same_members l1 l3.
Proof. intros H1 H2 a. rewrite (H1 a). apply H2. Qed.

(* the input transformations of the property: permuting the list, appending the list to itself, repeating some entries at the end,
   repeating every entry in place, repeating one entry in place *)
Lemma perm_same_members {A} (l l' : list A) : Permutation l l' -> same_members l l'.
Proof. intros P a. split; apply Permutation_in; [exact P|apply Permutation_sym, P]. Qed.
Lemma app_self_same_members {A} (l : list A) : same_members (l ++ l) l.
Proof. intros a. rewrite in_app_iff. tauto. Qed.
Lemma app_incl_same_members {A} (l extra : list A) : incl extra l -> same_members (l ++ extra) l.
Proof. intros Hi a. rewrite in_app_iff. split; [intros [H|H]; auto|auto]. Qed.
Definition stutter {A} (l : list A) : list A := flat_map (fun a => [a; a]) l.
Lemma stutter_same_members {A} (l : list A) : same_members (stutter l) l.
Proof.
  intros a. unfold stutter. rewrite in_flat_map. split.
  - intros (b & Hb & [<-|[<-|[]]]); exact Hb.
  - intros Ha. exists a. split; [exact Ha|now left].
Qed.
Lemma repeat_in_place_same_members {A} (l1 l2 : list A) (a : A) (k : nat) :
  same_members (l1 ++ repeat a (Datatypes.S k) ++ l2) (l1 ++ a :: l2).
Proof.
  intros b. rewrite !in_app_iff. cbn [In repeat]. split.
  - intros [H|[[H|H]|H]]; auto. apply repeat_spec in H. subst. auto.
  - intros [H|[H|H]]; auto.
Qed.
Lemma flat_map_same_members {A B} (g : A -> list B) (l l' : list A) :
  same_members l l' -> same_members (flat_map g l) (flat_map g l').
Proof. intros H b. rewrite !in_flat_map. split; intros (a & Ha & Hb); exists a; (split; [now apply H|exact Hb]). Qed.
Lemma app_same_members {A} (a a' b b' : list A) : same_members a a' -> same_members b b' -> same_members (a ++ b) (a' ++ b').
Proof. intros H1 H2 x. rewrite !in_app_iff, (H1 x), (H2 x). tauto. Qed.
Lemma map_same_members {A B} (f : A -> B) (l l' : list A) : same_members l l' -> same_members (map f l) (map f l').
Proof. intros H b. rewrite !in_map_iff. split; intros (a & <- & Ha); exists a; (split; [reflexivity|now apply H]). Qed.

(* a Go map iteration order applied to a result changes nothing but the order *)
Lemma perm_ord {A} (ord ord' : list A -> list A) (a b : list A) :
  (forall l, Permutation (ord l) l) -> (forall l, Permutation (ord' l) l) -> Permutation a b -> Permutation (ord a) (ord' b).
Proof. intros P P' H. eapply Permutation_trans; [apply P|]. eapply Permutation_trans; [exact H|]. apply Permutation_sym, P'. Qed.

Section Generic.
  Context {I O : Type}.

  (* what "the result is de-duplicated" means for a function on lists, whatever algorithm and whatever map order it uses *)
  Definition dedupe_spec (dd : list O -> list O) : Prop :=
    (forall l a, In a (dd l) <-> In a l) /\ (forall l, NoDup (dd l)).

  (* the core fact: two de-duplications (two runs, two map orders) of lists with the same members are permutations of each other *)
  Theorem dedupe_set_only dd dd' (l l' : list O) :
    dedupe_spec dd -> dedupe_spec dd' -> same_members l l' -> Permutation (dd l) (dd' l').
  Proof.
    intros [M N] [M' N'] E. apply NoDup_Permutation; [apply N|apply N'|].
    intros a. rewrite M, M'. apply E.
  Qed.

  (* the shape of most set-valued operations: expand each input with g, then de-duplicate *)
  Definition set_valued (dd : list O -> list O) (g : I -> list O) (l : list I) : list O := dd (flat_map g l).

  Variables (dd dd' : list O -> list O) (g : I -> list O).
  Hypothesis dd_ok : dedupe_spec dd.
  Hypothesis dd'_ok : dedupe_spec dd'.

  Theorem sv_exact l o : In o (set_valued dd g l) <-> exists i, In i l /\ In o (g i).
  Proof. unfold set_valued. rewrite (proj1 dd_ok), in_flat_map. reflexivity. Qed.

  (* results documented as de-duplicated contain no ID twice *)
  Theorem sv_NoDup l : NoDup (set_valued dd g l).
  Proof. apply (proj2 dd_ok). Qed.

  (* the result depends on the input only as a set, whatever the two de-duplications (map orders) *)
  Theorem sv_set_only l l' : same_members l l' -> Permutation (set_valued dd g l) (set_valued dd' g l').
  Proof. intros E. apply dedupe_set_only; [exact dd_ok|exact dd'_ok|]. now apply flat_map_same_members. Qed.

  (* the same call in two runs *)
  Corollary sv_order_blind l : Permutation (set_valued dd g l) (set_valued dd' g l).
  Proof. apply sv_set_only, same_members_refl. Qed.
  (* a permuted input list *)
  Corollary sv_perm l l' : Permutation l l' -> Permutation (set_valued dd g l) (set_valued dd' g l').
  Proof. intros P. apply sv_set_only, perm_same_members, P. Qed.
  (* the list appended to itself; some entries appended again; every entry twice in place; one entry k+1 times in place *)
  Corollary sv_app_self l : Permutation (set_valued dd g (l ++ l)) (set_valued dd' g l).
  Proof. apply sv_set_only, app_self_same_members. Qed.
  Corollary sv_app_again l extra : incl extra l -> Permutation (set_valued dd g (l ++ extra)) (set_valued dd' g l).
  Proof. intros H. apply sv_set_only, app_incl_same_members, H. Qed.
  Corollary sv_stutter l : Permutation (set_valued dd g (stutter l)) (set_valued dd' g l).
  Proof. apply sv_set_only, stutter_same_members. Qed.
  Corollary sv_repeat_in_place l1 l2 a k :
    Permutation (set_valued dd g (l1 ++ repeat a (Datatypes.S k) ++ l2)) (set_valued dd' g (l1 ++ a :: l2)).
  Proof. apply sv_set_only, repeat_in_place_same_members. Qed.
End Generic.

(* common.Unique and every "map used as a set" of the library: first-occurrence de-duplication followed by a map order *)
Lemma map_order_dedupe {O} (eqb : O -> O -> bool) (eqb_spec : forall a b, reflect (a = b) (eqb a b)) (ord : list O -> list O) :
  (forall l, Permutation (ord l) l) -> dedupe_spec (fun l => ord (nodupb eqb l)).
Proof.
  intros P. split.
  - intros l a. rewrite <- (nodupb_In eqb eqb_spec a l). split; apply Permutation_in; [apply P|apply Permutation_sym, P].
  - intros l. eapply Permutation_NoDup; [apply Permutation_sym, P|apply (nodupb_NoDup eqb eqb_spec)].
Qed.
(* a map order applied after any de-duplication is a de-duplication *)
Lemma ord_after_dedupe {O} (dd ord : list O -> list O) :
  dedupe_spec dd -> (forall l, Permutation (ord l) l) -> dedupe_spec (fun l => ord (dd l)).
Proof.
  intros [M N] P. split.
  - intros l a. rewrite <- (M l a). split; apply Permutation_in; [apply P|apply Permutation_sym, P].
  - intros l. eapply Permutation_NoDup; [apply Permutation_sym, P|apply N].
Qed.
Lemma id_is_order {O} (l : list O) : Permutation ((fun x => x) l) l.
Proof. apply Permutation_refl. Qed.

(* the generic statement in the form quoted by DESIGN.md §6 C16: F ord l := ord (dedupe (flat_map g l)) *)
Section MapOrder.
  Context {I O : Type} (eqb : O -> O -> bool) (eqb_spec : forall a b, reflect (a = b) (eqb a b)).
  Variable g : I -> list O.
  Definition F (ord : list O -> list O) (l : list I) : list O := ord (nodupb eqb (flat_map g l)).
  Variables ord ord' : list O -> list O.
  Hypothesis P : forall l, Permutation (ord l) l.
  Hypothesis P' : forall l, Permutation (ord' l) l.

  Theorem F_same_set_whatever_the_map_order l : Permutation (F ord l) (F ord' l).
  Proof. apply (sv_order_blind _ _ g (map_order_dedupe eqb eqb_spec ord P) (map_order_dedupe eqb eqb_spec ord' P')). Qed.
  Theorem F_input_set_only l l' : same_members l l' -> Permutation (F ord l) (F ord' l').
  Proof. apply (sv_set_only _ _ g (map_order_dedupe eqb eqb_spec ord P) (map_order_dedupe eqb eqb_spec ord' P')). Qed.
  Theorem F_permuted_input l l' : Permutation l l' -> Permutation (F ord l) (F ord' l').
  Proof. intros H. apply F_input_set_only, perm_same_members, H. Qed.
  Theorem F_appended_twice l : Permutation (F ord (l ++ l)) (F ord' l).
  Proof. apply F_input_set_only, app_self_same_members. Qed.
  Theorem F_repeated_in_place l : Permutation (F ord (stutter l)) (F ord' l).
  Proof. apply F_input_set_only, stutter_same_members. Qed.
  Theorem F_one_entry_repeated l1 l2 a k : Permutation (F ord (l1 ++ repeat a (Datatypes.S k) ++ l2)) (F ord' (l1 ++ a :: l2)).
  Proof. apply F_input_set_only, repeat_in_place_same_members. Qed.
  Theorem F_NoDup l : NoDup (F ord l).
  Proof. apply (sv_NoDup _ g (map_order_dedupe eqb eqb_spec ord P)). Qed.
  Theorem F_members l o : In o (F ord l) <-> exists i, In i l /\ In o (g i).
  Proof. apply (sv_exact _ g (map_order_dedupe eqb eqb_spec ord P)). Qed.
End MapOrder.

(* ================================================================================================================== *)
(* Part B. Instances                                                                                                  *)
(* ================================================================================================================== *)

(* ---- B1. zoom change (integrate.ChangeExtendedSpatialIdsZoom / ChangeSpatialIdsZoom): flat_map one, then common.Unique ---- *)
Definition change_run (ord : list eid -> list eid) (ids : list eid) (H V : Z) : list eid :=
  F eid_eqb (ChangeZoom.one H V) ord ids.
(* the executable model of ChangeZoom.v is the run with the first-occurrence order *)
Lemma change_run_id ids H V : change_run (fun l => l) ids H V = change_eids ids H V.
Proof. reflexivity. Qed.
Lemma change_run_ord ord ids H V : change_run ord ids H V = ord (change_eids ids H V).
Proof. reflexivity. Qed.

Theorem change_deterministic ord ord' : (forall l, Permutation (ord l) l) -> (forall l, Permutation (ord' l) l) ->
  forall ids ids' H V, same_members ids ids' -> Permutation (change_run ord ids H V) (change_run ord' ids' H V).
Proof. intros P P' ids ids' H V E. apply (F_input_set_only eid_eqb eid_eqb_spec _ ord ord' P P'), E. Qed.
Theorem change_no_duplicates ord : (forall l, Permutation (ord l) l) -> forall ids H V, NoDup (change_run ord ids H V).
Proof. intros P ids H V. apply (F_NoDup eid_eqb eid_eqb_spec _ ord P). Qed.

(* the exported functions on printed valid IDs: a list with the same members gives a permutation of the same strings *)
Lemma map_perm_ok {A B} (f : A -> B) a b : Permutation a b -> Permutation (map f a) (map f b).
Proof. apply Permutation_map. Qed.
Lemma same_members_valid {A} (Q : A -> Prop) (l l' : list A) : same_members l l' -> (forall i, In i l -> Q i) -> forall i, In i l' -> Q i.
Proof. intros E H i Hi. apply H, E, Hi. Qed.

Theorem change_ext_api_deterministic ids ids' H V :
  (forall i, In i ids -> valid i) -> 0 <= H <= 35 -> 0 <= V <= 35 -> same_members ids ids' ->
  exists r r', change_ext_api (map print_eid ids) H V = Ok r /\ change_ext_api (map print_eid ids') H V = Ok r' /\
               Permutation r r' /\ NoDup r.
Proof.
  intros Hv HH HV E.
  exists (map print_eid (change_eids ids H V)), (map print_eid (change_eids ids' H V)).
  split; [apply change_ext_api_spec; assumption|]. split; [apply change_ext_api_spec; try assumption; apply (same_members_valid _ _ _ E Hv)|].
  split.
  - apply Permutation_map. apply (change_deterministic (fun l => l) (fun l => l) id_is_order id_is_order ids ids' H V E).
  - apply NoDup_map_in; [|apply change_NoDup]. intros a b Ha Hb.
    apply ChangeZoom.print_eid_inj; apply valid_fields_ok.
    + apply (change_valid ids H V a Hv HH HV Ha).
    + apply (change_valid ids H V b Hv HH HV Hb).
Qed.
Theorem change_sid_api_deterministic ids ids' z :
  (forall i, In i ids -> valid i /\ ev i = eh i) -> 0 <= z <= 35 -> same_members ids ids' ->
  exists r r', change_sid_api (map ChangeZoom.print_sid ids) z = Ok r /\ change_sid_api (map ChangeZoom.print_sid ids') z = Ok r' /\
               Permutation r r' /\ NoDup r.
Proof.
  intros Hv Hz E.
  exists (map ChangeZoom.print_sid (change_eids ids z z)), (map ChangeZoom.print_sid (change_eids ids' z z)).
  split; [apply change_sid_api_spec; assumption|]. split; [apply change_sid_api_spec; try assumption; apply (same_members_valid _ _ _ E Hv)|].
  split; [apply Permutation_map; apply (change_deterministic (fun l => l) (fun l => l) id_is_order id_is_order ids ids' z z E)|].
  apply NoDup_map_in; [|apply change_NoDup]. intros a b Ha Hb Hab.
  assert (Va : valid a) by (apply (change_valid ids z z a (fun i Hi => proj1 (Hv i Hi)) Hz Hz Ha)).
  assert (Vb : valid b) by (apply (change_valid ids z z b (fun i Hi => proj1 (Hv i Hi)) Hz Hz Hb)).
  destruct (change_at_zoom ids z z a Ha) as [A1 A2], (change_at_zoom ids z z b Hb) as [B1 B2].
  pose proof (ChangeZoom.parse_print_sid a (valid_fields_ok a Va) ltac:(congruence)) as Pa.
  pose proof (ChangeZoom.parse_print_sid b (valid_fields_ok b Vb) ltac:(congruence)) as Pb.
  rewrite Hab in Pa. congruence.
Qed.

(* ---- B2. merge (integrate.MergeExtendedSpatialIds): two maps (dictionary of target voxels, final Unique) ---- *)
Theorem merge_deterministic ord ord' : (forall l, Permutation (ord l) l) -> (forall l, Permutation (ord' l) l) ->
  forall H V l l', 0 <= H -> 0 <= V -> (forall i, In i l -> wfz i) -> same_members l l' ->
  Permutation (merge ord H V l) (merge ord' H V l').
Proof.
  intros P P' H V l l' HH HV Hwf E. apply NoDup_Permutation; [apply merge_NoDup, P|apply merge_NoDup, P'|].
  apply (merge_set_ext ord ord' P P' H V l l' HH HV Hwf E).
Qed.
Theorem merge_no_duplicates ord : (forall l, Permutation (ord l) l) -> forall H V l, NoDup (merge ord H V l).
Proof. exact (merge_NoDup ord). Qed.

(* the exported functions on printed valid IDs (the executable model = first-occurrence order; any other map order only permutes) *)
Theorem merge_ext_api_deterministic l l' H V :
  0 <= H <= 35 -> 0 <= V <= 35 -> (forall i, In i l -> valid i) -> fits64 H V l -> fits64 H V l' -> same_members l l' ->
  exists r r', merge_ext_api (map print_eid l) H V = Ok r /\ merge_ext_api (map print_eid l') H V = Ok r' /\ Permutation r r' /\ NoDup r.
Proof.
  intros HH HV Hv F F' E. pose proof (same_members_valid _ _ _ E Hv) as Hv'.
  exists (map print_eid (merge_x H V l)), (map print_eid (merge_x H V l')).
  split; [exact (merge_ext_api_ok l H V HH HV Hv F)|]. split; [exact (merge_ext_api_ok l' H V HH HV Hv' F')|]. split.
  - apply Permutation_map. apply (merge_deterministic (fun x => x) (fun x => x) id_is_order id_is_order); try lia; [|exact E].
    intros i Hi. apply valid_wfz, Hv, Hi.
  - apply NoDup_map_in; [|apply (merge_NoDup (fun x => x) id_is_order)]. intros a b Ha Hb.
    apply ChangeZoom.print_eid_inj; apply valid_fields_ok;
      apply (merge_valid (fun x => x) id_is_order H V l ltac:(lia) ltac:(lia) Hv); assumption.
Qed.
Theorem merge_sid_api_deterministic l l' z :
  0 <= z <= 35 -> (forall i, In i l -> valid i /\ ev i = eh i) -> fits64 z z l -> fits64 z z l' -> same_members l l' ->
  exists r r', merge_sid_api (map MergeApi.print_sid l) z = Ok r /\ merge_sid_api (map MergeApi.print_sid l') z = Ok r' /\ Permutation r r' /\ NoDup r.
Proof.
  intros Hz Hv F F' E. pose proof (same_members_valid _ _ _ E Hv) as Hv'.
  exists (map MergeApi.print_sid (merge_x z z l)), (map MergeApi.print_sid (merge_x z z l')).
  split; [exact (merge_sid_api_ok l z Hz Hv F)|]. split; [exact (merge_sid_api_ok l' z Hz Hv' F')|]. split.
  - apply Permutation_map. apply (merge_deterministic (fun x => x) (fun x => x) id_is_order id_is_order); try lia; [|exact E].
    intros i Hi. apply valid_wfz, Hv, Hi.
  - apply NoDup_map_in; [|apply (merge_NoDup (fun x => x) id_is_order)]. intros a b Ha Hb Hab.
    assert (Va : valid a) by (apply (merge_valid (fun x => x) id_is_order z z l ltac:(lia) ltac:(lia) (fun i Hi => proj1 (Hv i Hi))); exact Ha).
    assert (Vb : valid b) by (apply (merge_valid (fun x => x) id_is_order z z l ltac:(lia) ltac:(lia) (fun i Hi => proj1 (Hv i Hi))); exact Hb).
    pose proof (merge_sid_zooms l z ltac:(lia) Hv a Ha) as Za. pose proof (merge_sid_zooms l z ltac:(lia) Hv b Hb) as Zb.
    pose proof (ChangeZoom.parse_print_sid a (valid_fields_ok a Va) Za) as Pa.
    pose proof (ChangeZoom.parse_print_sid b (valid_fields_ok b Vb) Zb) as Pb.
    change (ChangeZoom.print_sid a) with (MergeApi.print_sid a) in Pa. change (ChangeZoom.print_sid b) with (MergeApi.print_sid b) in Pb.
    rewrite Hab in Pa. congruence.
Qed.

(* ---- B3. neighbourhoods (operated.GetNspatialIdsAroundVoxcels): for every offset, for every ID, shift; then Unique ---- *)
Lemma nN_api_ok_inv ids H V r : nN_api ids H V = Ok r ->
  NoDup r /\ forall s, In s r <-> exists o id, In o (stencil H V) /\ In id ids /\ s = shift_str id o.
Proof.
  unfold nN_api. destruct ((H <? 0) || (V <? 0)); [discriminate|]. destruct (negb (forallb well_formed ids)); [discriminate|].
  intros [= <-]. split; [apply Neighbour.unique_NoDup|]. intros s. rewrite Neighbour.unique_In, loops_stencil, in_flat_map. split.
  - intros (o & Ho & Hs). apply in_map_iff in Hs. destruct Hs as (id & <- & Hid). eauto.
  - intros (o & id & Ho & Hid & ->). exists o. split; [exact Ho|]. apply in_map_iff. eauto.
Qed.
Lemma forallb_same_members {A} (f : A -> bool) l l' : same_members l l' -> forallb f l = forallb f l'.
Proof.
  intros E. apply eq_true_iff_eq. rewrite !forallb_forall. split; intros H x Hx; apply H, E, Hx.
Qed.
(* any lists of strings (also malformed ones): both calls fail, or both succeed with permutations of one duplicate-free list *)
Theorem nN_deterministic ord ord' : (forall l, Permutation (ord l) l) -> (forall l, Permutation (ord' l) l) ->
  forall ids ids' H V, same_members ids ids' ->
  match nN_api ids H V, nN_api ids' H V with
  | Ok a, Ok a' => Permutation (ord a) (ord' a') /\ NoDup (ord a)
  | Err, Err => True
  | _, _ => False
  end.
Proof.
  intros P P' ids ids' H V E.
  destruct (nN_api ids H V) as [a|] eqn:E1, (nN_api ids' H V) as [a'|] eqn:E2.
  - destruct (nN_api_ok_inv _ _ _ _ E1) as [N1 M1], (nN_api_ok_inv _ _ _ _ E2) as [N2 M2]. split.
    + apply perm_ord; [exact P|exact P'|]. apply NoDup_Permutation; [exact N1|exact N2|].
      intros s. rewrite M1, M2. split; intros (o & id & Ho & Hid & ->); exists o, id; (split; [exact Ho|split; [now apply E|reflexivity]]).
    + eapply Permutation_NoDup; [apply Permutation_sym, P|exact N1].
  - unfold nN_api in E1, E2. rewrite (forallb_same_members well_formed ids ids' E) in E1.
    destruct ((H <? 0) || (V <? 0)); [discriminate|]. destruct (negb (forallb well_formed ids')); discriminate.
  - unfold nN_api in E1, E2. rewrite (forallb_same_members well_formed ids ids' E) in E1.
    destruct ((H <? 0) || (V <? 0)); [discriminate|]. destruct (negb (forallb well_formed ids')); discriminate.
  - exact I.
Qed.

(* ---- B4. expansion of one extended ID (transform.ConvertExtendedSpatialIDToSpatialIDs): no map, one argument ---- *)
Theorem expand_no_duplicates i : valid i -> NoDup (expand_eid i).
Proof. exact (expand_eid_NoDup i). Qed.

(* ---- B5. common.Unique / Union / Difference / Intersect (generic over the element type) ---- *)
Section Helpers.
  Context {A : Type} (eqb : A -> A -> bool) (eqb_spec : forall a b, reflect (a = b) (eqb a b)).
  Variables ord ord' : list A -> list A.
  Hypothesis P : forall l, Permutation (ord l) l.
  Hypothesis P' : forall l, Permutation (ord' l) l.

  Theorem unique_deterministic l l' : same_members l l' -> Permutation (SetOps.unique eqb ord l) (SetOps.unique eqb ord' l').
  Proof.
    intros E. apply NoDup_Permutation; [apply (unique_NoDup eqb eqb_spec ord P)|apply (unique_NoDup eqb eqb_spec ord' P')|].
    intros a. rewrite (unique_spec eqb eqb_spec ord P), (unique_spec eqb eqb_spec ord' P'). apply E.
  Qed.
  Theorem union_deterministic l1 l1' l2 l2' : same_members l1 l1' -> same_members l2 l2' ->
    Permutation (SetOps.union eqb ord l1 l2) (SetOps.union eqb ord' l1' l2').
  Proof.
    intros E1 E2. apply NoDup_Permutation; [apply (union_NoDup eqb eqb_spec ord P)|apply (union_NoDup eqb eqb_spec ord' P')|].
    intros a. rewrite (union_spec eqb eqb_spec ord P), (union_spec eqb eqb_spec ord' P'), (E1 a), (E2 a). tauto.
  Qed.
  (* Difference keeps the order and the multiplicity of its first list (documented, C20): the second list matters only as a set;
     permuting the first list permutes the result; repeating entries of the first list keeps the members *)
  Lemma memb_same_members x l l' : same_members l l' -> memb eqb x l = memb eqb x l'.
  Proof. intros E. apply eq_true_iff_eq. rewrite !(memb_In eqb eqb_spec). apply E. Qed.
  Theorem difference_second_list_as_set l1 l2 l2' : same_members l2 l2' -> difference eqb l1 l2 = difference eqb l1 l2'.
  Proof. intros E. unfold difference. apply filter_ext. intros x. now rewrite (memb_same_members x l2 l2' E). Qed.
  Lemma filter_perm (f : A -> bool) l l' : Permutation l l' -> Permutation (filter f l) (filter f l').
  Proof.
    induction 1 as [|x l l' _ IH|x y l|l l' l'' _ IH1 _ IH2]; cbn [filter].
    - constructor.
    - destruct (f x); [now constructor|exact IH].
    - destruct (f x), (f y); try apply Permutation_refl. apply perm_swap.
    - eapply Permutation_trans; eassumption.
  Qed.
  Theorem difference_first_list_permuted l1 l1' l2 l2' : Permutation l1 l1' -> same_members l2 l2' ->
    Permutation (difference eqb l1 l2) (difference eqb l1' l2').
  Proof. intros H E. rewrite (difference_second_list_as_set l1 l2 l2' E). apply filter_perm, H. Qed.
  Theorem difference_members_only l1 l1' l2 l2' : same_members l1 l1' -> same_members l2 l2' ->
    same_members (difference eqb l1 l2) (difference eqb l1' l2').
  Proof. intros E1 E2 a. rewrite !(difference_spec eqb eqb_spec), (E1 a), (E2 a). tauto. Qed.
  (* Intersect keeps the order and multiplicity of its second list *)
  Theorem intersect_first_list_as_set l1 l1' l2 : same_members l1 l1' -> intersect eqb l1 l2 = intersect eqb l1' l2.
  Proof. intros E. unfold intersect. apply filter_ext. intros x. apply (memb_same_members x l1 l1' E). Qed.
  Theorem intersect_second_list_permuted l1 l1' l2 l2' : same_members l1 l1' -> Permutation l2 l2' ->
    Permutation (intersect eqb l1 l2) (intersect eqb l1' l2').
  Proof. intros E H. rewrite (intersect_first_list_as_set l1 l1' l2 E). apply filter_perm, H. Qed.
  Theorem intersect_members_only l1 l1' l2 l2' : same_members l1 l1' -> same_members l2 l2' ->
    same_members (intersect eqb l1 l2) (intersect eqb l1' l2').
  Proof. intros E1 E2 a. rewrite !(intersect_spec eqb eqb_spec), (E1 a), (E2 a). tauto. Qed.
End Helpers.

(* ---- a boolean answer computed by "some pair satisfies ..." is blind to order and repetition of either list (overlap) ---- *)
Lemma existsb_same_members {A} (f f' : A -> bool) l l' : same_members l l' -> (forall x, f x = f' x) -> existsb f l = existsb f' l'.
Proof.
  intros E Hf. apply eq_true_iff_eq. rewrite !existsb_exists. split; intros (x & Hx & Hfx); exists x.
  - split; [now apply E|now rewrite <- Hf].
  - split; [now apply E|now rewrite Hf].
Qed.
Theorem exists_pair_set_only {A B} (rel : A -> B -> bool) l1 l1' l2 l2' : same_members l1 l1' -> same_members l2 l2' ->
  existsb (fun a => existsb (rel a) l2) l1 = existsb (fun a => existsb (rel a) l2') l1'.
Proof. intros E1 E2. apply existsb_same_members; [exact E1|]. intros a. apply existsb_same_members; [exact E2|reflexivity]. Qed.

(* non-vacuity: a concrete order oracle other than the identity, and a concrete instance *)
Example rev_is_order {A} (l : list A) : Permutation (rev l) l.
Proof. apply Permutation_sym, Permutation_rev. Qed.
Example change_run_two_orders :
  change_run (fun l => l) [mk 1 0 0 1 0; mk 2 1 1 2 1; mk 1 0 0 1 0] 2 2 <> change_run (@rev eid) [mk 2 1 1 2 1; mk 1 0 0 1 0] 2 2 /\
  Permutation (change_run (fun l => l) [mk 1 0 0 1 0; mk 2 1 1 2 1; mk 1 0 0 1 0] 2 2) (change_run (@rev eid) [mk 2 1 1 2 1; mk 1 0 0 1 0] 2 2).
Proof.
  split; [vm_compute; discriminate|].
  apply change_deterministic; [apply id_is_order|apply rev_is_order|].
  intros a. cbn [In]. tauto.
Qed.
