(* GenEqConstSetLat.v — generated constants = the literals the models use: the latitude limit (exact decimal) and the 10^10 scale read from
   object.Point.SetLat (cited by C01). *)
From Coq Require Import ZArith Bool Lia.
From SIDGen Require Import Generated.
Open Scope Z_scope.

Lemma gen_SetLat_eq : Generated.SetLat_limit = (850511287798, -10) /\ Generated.SetLat_scale = 10 ^ 10. Proof. split; reflexivity. Qed.
