(* GenEqConstCrs.v — generated constants = the literals the models use: the CRS codes of common/consts (cited by C18).
   One file per group of constants, so that a constant the translator cannot read (or an edited one) breaks only the properties that cite it. *)
From Coq Require Import ZArith Bool Lia.
From SIDGen Require Import Generated.
Open Scope Z_scope.

Lemma gen_GeoCrs_eq : Generated.GeoCrs = 4326. Proof. reflexivity. Qed.
Lemma gen_OrthCrs_eq : Generated.OrthCrs = 3857. Proof. reflexivity. Qed.
