(* GenEqZoom.v — generated per-axis zoom arithmetic (integrate/change_zoom.go) = ZoomCore models *)
From Coq Require Import ZArith Bool Lia.
From SIDGen Require Import Generated.
From SID Require Import Base Ids ZoomCore AltKeyCore GenTac.
Open Scope Z_scope.
Opaque Generated.CalculateArithmeticShift.

(* integrate.HorizontalZoomMinMax = ZoomCore.hzoom_minmax *)
Lemma gen_HorizontalZoomMinMax_eq : forall zin x y zout,
  Generated.HorizontalZoomMinMax zin x y zout = hzoom_minmax zin x y zout.
Proof. gen_eq models_base. Qed.

(* integrate.VerticalZoom, the bounds of its output loop = ZoomCore.vzoom_minmax *)
Lemma gen_VerticalZoom_minmax_eq : forall zin f zout,
  Generated.VerticalZoom_minmax zin f zout = vzoom_minmax zin f zout.
Proof. gen_eq models_base. Qed.


Transparent Generated.CalculateArithmeticShift.
