(* ChangeZoom.v — integrate/change_zoom.go: ChangeExtendedSpatialIdsZoom, ChangeSpatialIdsZoom and the exported per-axis helpers
   HorizontalZoom / HorizontalZoomMinMax / VerticalZoom (property C03; imported by C05, C09, C10, C11).
   The per-axis index arithmetic is ZoomCore.v (hzoom_minmax, hzoom, vzoom); this file adds the cross product, common.Unique, the string level
   with its error paths, the notation wrapper, the specification (exactly the target-grid voxels that meet an input) and the proofs. *)
From Coq Require Import ZArith Lia String List Bool Permutation Reals.
From Flocq Require Import Core.
From SID Require Import Base Str Ids Voxel ZoomCore.
Import ListNotations.
Open Scope Z_scope.

(* ================================================================================================================== *)
(* 1. Executable models                                                                                               *)
(* ================================================================================================================== *)

(* one input ID: `for _, h := range hComponents { for _, v := range vComponents { ... } }` *)
Definition one (H V : Z) (i : eid) : list eid :=
  flat_map (fun xy => map (fun f => mk H (fst xy) (snd xy) V f) (vzoom (ev i) (ef i) V)) (hzoom (eh i) (ex i) (ey i) H).

(* list level: all inputs, then common.Unique (Go map order; the executable model keeps one fixed order, results are compared as sets) *)
Definition change_eids (ids : list eid) (H V : Z) : list eid := nodupb eid_eqb (flat_map (one H V) ids).

(* the exported helpers, returning what the Go functions return *)
Definition hstr (zout x y : Z) : string := (print zout ++ "/" ++ print x ++ "/" ++ print y)%string.   (* FormatInt + "/" + ... *)
Definition vstr (zout f : Z) : string := (print zout ++ "/" ++ print f)%string.
Definition hzoom_strs (zin x y zout : Z) : list string := map (fun xy => hstr zout (fst xy) (snd xy)) (hzoom zin x y zout).
Definition vzoom_strs (zin f zout : Z) : list string := map (vstr zout) (vzoom zin f zout).
Definition hzoom_minmax_l (zin x y zout : Z) : list Z :=
  let '(x0, y0, x1, y1) := hzoom_minmax zin x y zout in [x0; y0; x1; y1].

(* one input ID at the string level: strings.Join([]string{h, v}, "/") for every pair *)
Definition one_strs (H V : Z) (i : eid) : list string :=
  flat_map (fun h => map (fun v => join [h; v]) (vzoom_strs (ev i) (ef i) V)) (hzoom_strs (eh i) (ex i) (ey i) H).

(* ChangeExtendedSpatialIdsZoom: zoom check first; IDs parsed in order, the first malformed one ends the call with an error;
   common.Unique on the result strings *)
Definition change_ext_api (ids : list string) (H V : Z) : result (list string) :=
  if check_zoom H && check_zoom V then
    match parse_all ids with
    | Some es => Ok (nodupb String.eqb (flat_map (one_strs H V) es))
    | None => Err
    end
  else Err.

(* shape.ConvertExtendedSpatialIdsToSpatialIds as used by ChangeSpatialIdsZoom (`resultIDList, _ = ...`: the error is dropped and the
   converted prefix is kept) *)
Fixpoint conv_prefix (l : list string) : list string :=
  match l with
  | [] => []
  | s :: r => match eid_to_sid_str s with Some t => t :: conv_prefix r | None => [] end
  end.

(* ChangeSpatialIdsZoom: notation change, extended-form change at (zoom, zoom), notation change back *)
Definition change_sid_api (sids : list string) (z : Z) : result (list string) :=
  match sids_to_eids sids with
  | Err => Err
  | Ok es => match change_ext_api es z z with
             | Err => Err
             | Ok r => Ok (conv_prefix r)
             end
  end.

(* ================================================================================================================== *)
(* 2. Specification                                                                                                   *)
(* ================================================================================================================== *)

(* o is a voxel of the (H,V) grid that meets one of the inputs (integer form; `zspec_region` below gives the region form) *)
Definition zspec (ids : list eid) (H V : Z) (o : eid) : Prop :=
  eh o = H /\ ev o = V /\ exists i, In i ids /\ overlaps i o.

(* what the per-ID proofs need of an input (weaker than `valid`) *)
Definition wf (i : eid) : Prop := 0 <= eh i /\ 0 <= ev i /\ 0 <= ex i /\ 0 <= ey i.
Lemma valid_wf i : valid i -> wf i.
Proof. unfold valid, wf. intros (A & B & C & D & E). lia. Qed.

(* ================================================================================================================== *)
(* 3. General list lemmas                                                                                             *)
(* ================================================================================================================== *)

Lemma NoDup_flat_map {A B} (f : A -> list B) l : NoDup l -> (forall a, In a l -> NoDup (f a)) ->
  (forall a b x, In a l -> In b l -> In x (f a) -> In x (f b) -> a = b) -> NoDup (flat_map f l).
Proof.
  induction 1 as [|a r Ha Hr IH]; cbn [flat_map]; intros Hf Hd; [constructor|]. apply NoDup_app'.
  - apply Hf. now left.
  - apply IH; [intros; apply Hf; now right|]. intros a0 b x Ha0 Hb. apply Hd; now right.
  - intros x Hx Hx'. apply in_flat_map in Hx'. destruct Hx' as (b & Hb & Hxb).
    assert (a = b) by (apply (Hd a b x); [now left|now right|exact Hx|exact Hxb]). subst. contradiction.
Qed.

Lemma flat_map_length_const {A B} (f : A -> list B) k l : (forall a, In a l -> length (f a) = k) ->
  length (flat_map f l) = (length l * k)%nat.
Proof.
  induction l as [|a r IH]; cbn [flat_map length]; intros Hk; [reflexivity|].
  rewrite app_length, Hk by (now left). rewrite IH by (intros; apply Hk; now right). lia.
Qed.

Lemma nodupb_map_inj {A B} (ea : A -> A -> bool) (eb : B -> B -> bool)
  (sa : forall a b, reflect (a = b) (ea a b)) (sb : forall a b, reflect (a = b) (eb a b)) (f : A -> B) l :
  (forall a b, In a l -> In b l -> f a = f b -> a = b) -> nodupb eb (map f l) = map f (nodupb ea l).
Proof.
  induction l as [|a r IH]; cbn [map nodupb]; intros Hinj; [reflexivity|].
  assert (E : memb eb (f a) (map f r) = memb ea a r).
  { apply eq_true_iff_eq. rewrite (memb_In eb sb), (memb_In ea sa), in_map_iff. split.
    - intros (b & Hb & Hin). assert (b = a) by (apply Hinj; [now right|now left|exact Hb]). now subst.
    - intros Hin. now exists a. }
  rewrite E, IH by (intros; apply Hinj; auto; now right). destruct (memb ea a r); reflexivity.
Qed.

Lemma map_opt_map {A B C} (f : B -> option C) (g : A -> B) (k : A -> C) l :
  (forall a, In a l -> f (g a) = Some (k a)) -> map_opt f (map g l) = Some (map k l).
Proof.
  induction l as [|a r IH]; cbn [map map_opt]; intros Hf; [reflexivity|].
  rewrite Hf by (now left). rewrite IH by (intros; apply Hf; now right). reflexivity.
Qed.

(* ================================================================================================================== *)
(* 4. One input: exactness, counts, the product structure                                                             *)
(* ================================================================================================================== *)

Lemma one_exact H V i o : wf i -> 0 <= H -> 0 <= V ->
  In o (one H V i) <-> eh o = H /\ ev o = V /\ overlaps i o.
Proof.
  intros (Hh & Hv & Hx & Hy) HH HV. unfold one. rewrite in_flat_map. split.
  - intros ([x y] & Hxy & Hm). apply in_map_iff in Hm. destruct Hm as (f & <- & Hf).
    apply hzoom_exact in Hxy; try lia. apply vzoom_exact in Hf; try lia. unfold overlaps; cbn. tauto.
  - intros (E1 & E2 & (R1 & R2 & R3)). exists (ex o, ey o). split.
    + apply hzoom_exact; try lia. subst. tauto.
    + apply in_map_iff. exists (ef o). split; [destruct o; cbn in *; subst; reflexivity|].
      apply vzoom_exact; try lia. subst. exact R3.
Qed.

(* the result for one input is the product of the horizontal and the vertical result: the axes do not interact *)
Definition glue (H V : Z) (q : Z * Z * Z) : eid := mk H (fst (fst q)) (snd (fst q)) V (snd q).
Theorem one_product H V i :
  one H V i = map (glue H V) (list_prod (hzoom (eh i) (ex i) (ey i) H) (vzoom (ev i) (ef i) V)).
Proof.
  unfold one. induction (hzoom (eh i) (ex i) (ey i) H) as [|xy r IH]; cbn [flat_map list_prod map]; [reflexivity|].
  rewrite map_app, map_map, IH. reflexivity.
Qed.
Corollary one_product_In H V i x y f :
  In (mk H x y V f) (one H V i) <-> In (x, y) (hzoom (eh i) (ex i) (ey i) H) /\ In f (vzoom (ev i) (ef i) V).
Proof.
  rewrite one_product, in_map_iff. split.
  - intros ([[x' y'] f'] & E & Hin). unfold glue, mk in E; cbn in E. injection E as -> -> ->. now apply in_prod_iff in Hin.
  - intros [A B]. exists (x, y, f). split; [reflexivity|]. now apply in_prod_iff.
Qed.

(* lengths of the per-axis results *)
Lemma vzoom_length zin f zout : length (vzoom zin f zout) = Z.to_nat (2 ^ Z.max 0 (zout - zin)).
Proof.
  unfold vzoom, vzoom_minmax, vnum.
  destruct (Z.ltb_spec 0 (zout - zin)).
  - rewrite zrange_length, Z.abs_eq, Z.max_r by lia. f_equal. lia.
  - rewrite Z.max_l by lia. destruct (Z.ltb_spec (zout - zin) 0); rewrite zrange_single; reflexivity.
Qed.
Lemma hzoom_length zin x y zout : length (hzoom zin x y zout) = Z.to_nat (4 ^ Z.max 0 (zout - zin)).
Proof.
  unfold hzoom, hzoom_minmax, vnum.
  destruct (Z.ltb_spec 0 (zout - zin)).
  - rewrite (flat_map_length_const _ (Z.to_nat (2 ^ (zout - zin)))).
    + rewrite zrange_length, Z.abs_eq, Z.max_r by lia.
      replace (y * 2 ^ (zout - zin) + 2 ^ (zout - zin) - 1 - y * 2 ^ (zout - zin) + 1) with (2 ^ (zout - zin)) by lia.
      change 4 with (2 * 2). rewrite Z.pow_mul_l. pose proof (pow2_pos (zout - zin) ltac:(lia)). lia.
    + intros a _. rewrite map_length, zrange_length, Z.abs_eq by lia. f_equal. lia.
  - rewrite Z.max_l by lia. destruct (Z.ltb_spec (zout - zin) 0); rewrite !zrange_single; reflexivity.
Qed.
Theorem one_length H V i :
  length (one H V i) = Z.to_nat (4 ^ Z.max 0 (H - eh i) * 2 ^ Z.max 0 (V - ev i)).
Proof.
  rewrite one_product, map_length, prod_length, hzoom_length, vzoom_length.
  assert (0 < 4 ^ Z.max 0 (H - eh i)) by (apply Z.pow_pos_nonneg; lia).
  assert (0 < 2 ^ Z.max 0 (V - ev i)) by (apply Z.pow_pos_nonneg; lia). lia.
Qed.

(* no index twice on either axis, hence no ID twice for one input *)
Lemma vzoom_NoDup zin f zout : NoDup (vzoom zin f zout).
Proof. unfold vzoom. destruct (vzoom_minmax zin f zout). apply zrange_NoDup. Qed.
Lemma hzoom_NoDup zin x y zout : NoDup (hzoom zin x y zout).
Proof.
  unfold hzoom. destruct (hzoom_minmax zin x y zout) as [[[x0 y0] x1] y1].
  apply NoDup_flat_map.
  - apply zrange_NoDup.
  - intros a _. apply FinFun.Injective_map_NoDup; [|apply zrange_NoDup]. intros u v [= ->]. reflexivity.
  - intros a b [u v] _ _ Ha Hb. apply in_map_iff in Ha, Hb. destruct Ha as (? & [= _ <-] & _), Hb as (? & [= _ <-] & _). reflexivity.
Qed.
Theorem one_NoDup H V i : NoDup (one H V i).
Proof.
  rewrite one_product. apply FinFun.Injective_map_NoDup.
  - intros [[a b] c] [[a' b'] c']. unfold glue, mk; cbn. intros [= -> -> ->]. reflexivity.
  - apply NoDup_list_prod; [apply hzoom_NoDup|apply vzoom_NoDup].
Qed.

(* lowering (or keeping) the zoom on an axis gives the single ancestor *)
Lemma vzoom_down zin f zout : zout <= zin -> vzoom zin f zout = [anc (zin - zout) f].
Proof.
  intros Hle. unfold vzoom, vzoom_minmax.
  destruct (Z.ltb_spec 0 (zout - zin)); [lia|]. destruct (Z.ltb_spec (zout - zin) 0).
  - rewrite ashift_neg by lia. rewrite zrange_single. unfold anc. do 3 f_equal. lia.
  - replace (zin - zout) with 0 by lia. rewrite anc_0. apply zrange_single.
Qed.
Lemma hzoom_down zin x y zout : zout <= zin -> 0 <= x -> 0 <= y ->
  hzoom zin x y zout = [(anc (zin - zout) x, anc (zin - zout) y)].
Proof.
  intros Hle Hx Hy. unfold hzoom, hzoom_minmax, vnum.
  destruct (Z.ltb_spec 0 (zout - zin)); [lia|]. destruct (Z.ltb_spec (zout - zin) 0).
  - rewrite Z.abs_neq by lia. replace (- (zout - zin)) with (zin - zout) by lia.
    pose proof (pow2_pos (zin - zout) ltac:(lia)). rewrite !Z.quot_div_nonneg by lia.
    rewrite !zrange_single. reflexivity.
  - replace (zin - zout) with 0 by lia. rewrite !anc_0, !zrange_single. reflexivity.
Qed.

(* ================================================================================================================== *)
(* 5. List level: exactness, no duplicates, requested zooms, order/duplication blindness                               *)
(* ================================================================================================================== *)

Lemma change_In ids H V o : In o (change_eids ids H V) <-> exists i, In i ids /\ In o (one H V i).
Proof. unfold change_eids. rewrite (nodupb_In eid_eqb eid_eqb_spec), in_flat_map. reflexivity. Qed.

Theorem change_exact ids H V o : (forall i, In i ids -> wf i) -> 0 <= H -> 0 <= V ->
  In o (change_eids ids H V) <-> zspec ids H V o.
Proof.
  intros Hwf HH HV. rewrite change_In. unfold zspec. split.
  - intros (i & Hi & Ho). apply one_exact in Ho; auto. destruct Ho as (A & B & C). eauto.
  - intros (A & B & i & Hi & C). exists i. split; [exact Hi|]. apply one_exact; auto.
Qed.

Theorem change_NoDup ids H V : NoDup (change_eids ids H V).
Proof. apply (nodupb_NoDup eid_eqb eid_eqb_spec). Qed.

Theorem change_at_zoom ids H V o : In o (change_eids ids H V) -> eh o = H /\ ev o = V.
Proof.
  rewrite change_In. intros (i & _ & Ho). unfold one in Ho. apply in_flat_map in Ho. destruct Ho as (xy & _ & Hm).
  apply in_map_iff in Hm. destruct Hm as (f & <- & _). split; reflexivity.
Qed.

(* C16-style facts: the result set depends only on the set of inputs *)
Theorem change_set_only ids ids' H V : (forall i, In i ids <-> In i ids') ->
  forall o, In o (change_eids ids H V) <-> In o (change_eids ids' H V).
Proof. intros E o. rewrite !change_In. split; intros (i & Hi & Ho); exists i; (split; [now apply E|exact Ho]). Qed.
Corollary change_perm ids ids' H V : Permutation ids ids' ->
  Permutation (change_eids ids H V) (change_eids ids' H V).
Proof.
  intros P. apply NoDup_Permutation; try apply change_NoDup. apply change_set_only.
  intros i. split; apply Permutation_in; [exact P|now apply Permutation_sym].
Qed.
Corollary change_dup ids extra H V : incl extra ids ->
  Permutation (change_eids (ids ++ extra) H V) (change_eids ids H V).
Proof.
  intros Hinc. apply NoDup_Permutation; try apply change_NoDup. apply change_set_only.
  intros i. rewrite in_app_iff. split; [intros [A|A]; auto|auto].
Qed.
(* a list is the union of its parts: converting a concatenation = union of the conversions *)
Corollary change_app ids ids' H V o :
  In o (change_eids (ids ++ ids') H V) <-> In o (change_eids ids H V) \/ In o (change_eids ids' H V).
Proof.
  rewrite !change_In. split.
  - intros (i & Hi & Ho). apply in_app_iff in Hi. destruct Hi; [left|right]; eauto.
  - intros [(i & Hi & Ho)|(i & Hi & Ho)]; exists i; (split; [apply in_app_iff; auto|exact Ho]).
Qed.

(* ================================================================================================================== *)
(* 6. Validity is preserved; regions                                                                                  *)
(* ================================================================================================================== *)

Lemma rel1_range zi xi zo xo : 0 <= zi -> 0 <= zo -> rel1 zi xi zo xo -> 0 <= xi < 2 ^ zi -> 0 <= xo < 2 ^ zo.
Proof.
  intros Hzi Hzo. unfold rel1. destruct (Z.leb_spec zi zo) as [L|L]; intros E Hr.
  - apply desc_iff in E; [|lia]. pose proof (pow2_pos (zo - zi) ltac:(lia)) as Hp.
    assert (E2 : 2 ^ zo = 2 ^ zi * 2 ^ (zo - zi)) by (rewrite <- Z.pow_add_r by lia; f_equal; lia). nia.
  - subst xo. pose proof (anc_range (zi - zo) zi xi ltac:(lia) Hr) as A. replace (zi - (zi - zo)) with zo in A by lia. exact A.
Qed.
Lemma rel1_range_signed zi xi zo xo : 0 <= zi -> 0 <= zo -> rel1 zi xi zo xo -> - 2 ^ zi <= xi < 2 ^ zi -> - 2 ^ zo <= xo < 2 ^ zo.
Proof.
  intros Hzi Hzo. unfold rel1. destruct (Z.leb_spec zi zo) as [L|L]; intros E Hr.
  - apply desc_iff in E; [|lia]. pose proof (pow2_pos (zo - zi) ltac:(lia)) as Hp.
    assert (E2 : 2 ^ zo = 2 ^ zi * 2 ^ (zo - zi)) by (rewrite <- Z.pow_add_r by lia; f_equal; lia). nia.
  - subst xo. pose proof (anc_range_signed (zi - zo) zi xi ltac:(lia) Hr) as A. replace (zi - (zi - zo)) with zo in A by lia. exact A.
Qed.
(* every voxel of a valid grid that meets a valid voxel is itself a valid ID *)
Lemma overlaps_valid i o : valid i -> 0 <= eh o <= 35 -> 0 <= ev o <= 35 -> overlaps i o -> valid o.
Proof.
  intros (Hh & Hv & Hx & Hy & Hf) Ho Hov (R1 & R2 & R3). unfold valid. repeat split; try lia.
  - eapply (rel1_range (eh i)); eauto; lia.
  - eapply (rel1_range (eh i)); eauto; lia.
  - eapply (rel1_range (eh i) (ey i)); eauto; lia.
  - eapply (rel1_range (eh i) (ey i)); eauto; lia.
  - eapply (rel1_range_signed (ev i)); eauto; lia.
  - eapply (rel1_range_signed (ev i)); eauto; lia.
Qed.
Theorem change_valid ids H V o : (forall i, In i ids -> valid i) -> 0 <= H <= 35 -> 0 <= V <= 35 ->
  In o (change_eids ids H V) -> valid o.
Proof.
  intros Hval HH HV Ho. apply change_exact in Ho; try lia; [|intros; apply valid_wf; auto].
  destruct Ho as (E1 & E2 & i & Hi & Hov). apply (overlaps_valid i); auto; lia.
Qed.

(* region form of the specification: the target-grid voxels whose region meets the region of some input *)
Theorem zspec_region ids H V o : (forall i, In i ids -> wf i) -> 0 <= H -> 0 <= V ->
  zspec ids H V o <-> eh o = H /\ ev o = V /\ exists i, In i ids /\ exists p, inR i p /\ inR o p.
Proof.
  intros Hwf HH HV. unfold zspec. split; intros (A & B & i & Hi & C); (split; [exact A|split; [exact B|]]); exists i; (split; [exact Hi|]);
    destruct (Hwf i Hi) as (W1 & W2 & _); apply (overlaps_iff_meet i o) in C; auto; lia.
Qed.

(* a finer voxel related to a coarser one lies inside it *)
Lemma inR_coarser i o p : 0 <= eh i <= eh o -> 0 <= ev i <= ev o -> overlaps i o -> inR o p -> inR i p.
Proof.
  destruct p as [[u w] a]. unfold overlaps, rel1, inR. intros Hh Hv (R1 & R2 & R3) (X & Y & F).
  destruct (Z.leb_spec (eh i) (eh o)); [|lia]. destruct (Z.leb_spec (ev i) (ev o)); [|lia].
  rewrite (nested_floor u (eh i) (eh o)), (nested_floor w (eh i) (eh o)), (nested_floor a (ev i) (ev o)) by lia.
  rewrite X, Y, F. auto.
Qed.
(* two voxels of the same grid whose regions share a point are the same voxel *)
Lemma inR_same_grid o o' p : eh o = eh o' -> ev o = ev o' -> inR o p -> inR o' p -> o = o'.
Proof.
  destruct p as [[u w] a]. destruct o, o'; cbn. intros -> -> (X & Y & F) (X' & Y' & F'). congruence.
Qed.

(* raising both zooms: 4^dh * 2^dv pairwise distinct descendants, each inside the input, pairwise disjoint, covering the input *)
Theorem raise_partition i H V : wf i -> eh i <= H -> ev i <= V ->
  length (one H V i) = Z.to_nat (4 ^ (H - eh i) * 2 ^ (V - ev i)) /\
  NoDup (one H V i) /\
  (forall o, In o (one H V i) -> eh o = H /\ ev o = V /\ forall p, inR o p -> inR i p) /\
  (forall p, inR i p -> exists o, In o (one H V i) /\ inR o p) /\
  (forall o o' p, In o (one H V i) -> In o' (one H V i) -> inR o p -> inR o' p -> o = o').
Proof.
  intros Hwf HH HV. pose proof Hwf as (W1 & W2 & W3 & W4).
  split; [|split; [|split; [|split]]].
  - rewrite one_length, !Z.max_r by lia. reflexivity.
  - apply one_NoDup.
  - intros o Ho. apply one_exact in Ho; try lia; auto. destruct Ho as (A & B & C). split; [exact A|split; [exact B|]].
    intros p Hp. apply (inR_coarser i o p); auto; lia.
  - intros [[u w] a] Hp.
    set (o := mk H (Zfloor (bpow radix2 H * u)) (Zfloor (bpow radix2 H * w)) V (Zfloor (bpow radix2 V * a))).
    assert (Ho : inR o (u, w, a)) by (cbn; auto).
    exists o. split; [|exact Ho]. apply one_exact; try lia; auto. split; [reflexivity|split; [reflexivity|]].
    apply (meet_overlaps i o (u, w, a)); cbn; auto; lia.
  - intros o o' p Ho Ho' Hp Hp'. apply one_exact in Ho, Ho'; try lia; auto.
    apply (inR_same_grid o o' p); auto; lia.
Qed.

(* lowering (or keeping) both zooms: the single ancestor, whose region contains the input's *)
Definition ancestor (i : eid) (H V : Z) : eid :=
  mk H (anc (eh i - H) (ex i)) (anc (eh i - H) (ey i)) V (anc (ev i - V) (ef i)).
Theorem lower_single i H V : wf i -> 0 <= H <= eh i -> 0 <= V <= ev i ->
  one H V i = [ancestor i H V] /\ forall p, inR i p -> inR (ancestor i H V) p.
Proof.
  intros (W1 & W2 & W3 & W4) HH HV. split.
  - unfold one. rewrite hzoom_down, vzoom_down by lia. reflexivity.
  - intros p. apply inR_coarser; cbn; try lia.
    unfold overlaps, rel1; cbn. destruct (Z.leb_spec H (eh i)); [|lia]. destruct (Z.leb_spec V (ev i)); [|lia]. auto.
Qed.

(* the one-axis relation read in each direction *)
Lemma rel1_le zi xi zo xo : zi <= zo -> rel1 zi xi zo xo <-> anc (zo - zi) xo = xi.
Proof. intros L. unfold rel1. destruct (Z.leb_spec zi zo); [reflexivity|lia]. Qed.
Lemma rel1_ge zi xi zo xo : zo <= zi -> rel1 zi xi zo xo <-> xo = anc (zi - zo) xi.
Proof.
  intros L. unfold rel1. destruct (Z.leb_spec zi zo).
  - assert (E : zi = zo) by lia. subst zo. rewrite Z.sub_diag, !anc_0. split; congruence.
  - split; congruence.
Qed.

(* mixed case: the horizontal zoom is raised and the vertical one lowered (or the reverse) — each axis follows its own rule *)
Theorem mixed_up_down i H V : wf i -> eh i <= H -> 0 <= V <= ev i ->
  forall o, In o (one H V i) <->
    eh o = H /\ ev o = V /\ anc (H - eh i) (ex o) = ex i /\ anc (H - eh i) (ey o) = ey i /\ ef o = anc (ev i - V) (ef i).
Proof.
  intros Hwf HH HV o. pose proof Hwf as (W1 & W2 & W3 & W4). rewrite one_exact by (auto; lia).
  unfold overlaps. split.
  - intros (A & B & C). rewrite A, B in C. rewrite !rel1_le, rel1_ge in C by lia. tauto.
  - intros (A & B & C). rewrite A, B. rewrite !rel1_le, rel1_ge by lia. tauto.
Qed.
Theorem mixed_down_up i H V : wf i -> 0 <= H <= eh i -> ev i <= V ->
  forall o, In o (one H V i) <->
    eh o = H /\ ev o = V /\ ex o = anc (eh i - H) (ex i) /\ ey o = anc (eh i - H) (ey i) /\ anc (V - ev i) (ef o) = ef i.
Proof.
  intros Hwf HH HV o. pose proof Hwf as (W1 & W2 & W3 & W4). rewrite one_exact by (auto; lia).
  unfold overlaps. split.
  - intros (A & B & C). rewrite A, B in C. rewrite !rel1_ge, rel1_le in C by lia. tauto.
  - intros (A & B & C). rewrite A, B. rewrite !rel1_ge, rel1_le by lia. tauto.
Qed.

(* floor semantics below ground: the ancestor of f = -1 is -1 at every coarser zoom *)
Theorem vzoom_neg1 zin zout : zout <= zin -> vzoom zin (-1) zout = [-1].
Proof. intros Hle. rewrite vzoom_down by exact Hle. rewrite anc_neg1 by lia. reflexivity. Qed.
Theorem change_neg1 h x y v H V o : 0 <= h -> 0 <= x -> 0 <= y -> V <= v ->
  In o (change_eids [mk h x y v (-1)] H V) -> ef o = -1.
Proof.
  intros Hh Hx Hy HV. rewrite change_In. intros (i & [<-|[]] & Ho). destruct o as [oh ox oy ov of_].
  unfold one in Ho. apply in_flat_map in Ho. destruct Ho as (xy & _ & Hm). apply in_map_iff in Hm.
  destruct Hm as (f & E & Hf). cbn in Hf. rewrite vzoom_neg1 in Hf by exact HV. destruct Hf as [<-|[]].
  unfold mk in E. injection E as _ _ _ _ <-. reflexivity.
Qed.
(* the pinned code divided with truncation: its answer for f = -1, two zooms up, was 0 — not related to the input *)
Example truncation_refuted : ~ rel1 3 (-1) 1 (Z.quot (-1) (vnum (1 - 3))).
Proof. vm_compute. discriminate. Qed.

(* ================================================================================================================== *)
(* 7. String level                                                                                                    *)
(* ================================================================================================================== *)
Open Scope string_scope.

Lemma sapp_assoc (a b c : string) : (a ++ b) ++ c = a ++ (b ++ c).
Proof. induction a as [|ch a IH]; cbn; [reflexivity|now rewrite IH]. Qed.

Lemma hstr_join zout x y : hstr zout x y = join [print zout; print x; print y].
Proof. reflexivity. Qed.
Lemma vstr_join zout f : vstr zout f = join [print zout; print f].
Proof. reflexivity. Qed.
(* strings.Join([]string{h, v}, "/") of the two helper strings is the ID() string of the glued ID *)
Lemma glue_str H V x y f : join [hstr H x y; vstr V f] = print_eid (mk H x y V f).
Proof. unfold hstr, vstr, print_eid. cbn [join mk eh ex ey ev ef]. rewrite !sapp_assoc. reflexivity. Qed.

Lemma one_strs_print H V i : one_strs H V i = map print_eid (one H V i).
Proof.
  unfold one_strs, one, hzoom_strs, vzoom_strs.
  induction (hzoom (eh i) (ex i) (ey i) H) as [|xy r IH]; cbn [map flat_map]; [reflexivity|].
  rewrite map_app, IH. f_equal. rewrite !map_map. apply map_ext. intros f. apply glue_str.
Qed.
Lemma flat_one_strs_print H V es : flat_map (one_strs H V) es = map print_eid (flat_map (one H V) es).
Proof. induction es as [|i r IH]; cbn [flat_map map]; [reflexivity|]. now rewrite map_app, IH, one_strs_print. Qed.

Lemma print_eid_inj a b : fields_ok a = true -> fields_ok b = true -> print_eid a = print_eid b -> a = b.
Proof. intros Ha Hb E. apply parse_print_eid in Ha, Hb. rewrite E in Ha. congruence. Qed.

Lemma valid_forallb_fields ids : (forall i, In i ids -> valid i) -> forallb fields_ok ids = true.
Proof. intros Hv. apply forallb_forall. intros i Hi. apply valid_fields_ok. auto. Qed.

(* the exported function on the printed form of valid IDs: never an error, and exactly the printed list-level result *)
Theorem change_ext_api_spec ids H V : (forall i, In i ids -> valid i) -> (0 <= H <= 35)%Z -> (0 <= V <= 35)%Z ->
  change_ext_api (map print_eid ids) H V = Ok (map print_eid (change_eids ids H V)).
Proof.
  intros Hval HH HV. unfold change_ext_api.
  assert (Z1 : check_zoom H = true) by (apply check_zoom_spec; lia).
  assert (Z2 : check_zoom V = true) by (apply check_zoom_spec; lia).
  rewrite Z1, Z2. cbn [andb]. rewrite parse_all_print by (apply valid_forallb_fields; exact Hval).
  f_equal. rewrite flat_one_strs_print. unfold change_eids.
  apply (nodupb_map_inj eid_eqb String.eqb eid_eqb_spec String.eqb_spec).
  assert (F : forall o, In o (flat_map (one H V) ids) -> fields_ok o = true).
  { intros o Ho. apply valid_fields_ok. apply (change_valid ids H V); auto.
    apply change_In. apply in_flat_map in Ho. exact Ho. }
  intros a b Ha Hb. apply print_eid_inj; auto.
Qed.

(* error paths *)
Theorem change_ext_api_bad_zoom ids H V : ~ ((0 <= H <= 35)%Z /\ (0 <= V <= 35)%Z) -> change_ext_api ids H V = Err.
Proof.
  intros Hn. unfold change_ext_api. destruct (check_zoom H) eqn:E1; [|reflexivity]. destruct (check_zoom V) eqn:E2; [|reflexivity].
  apply check_zoom_spec in E1, E2. tauto.
Qed.
Theorem change_ext_api_malformed ids s H V : In s ids -> parse_eid s = None -> change_ext_api ids H V = Err.
Proof.
  intros Hin Hs. unfold change_ext_api. rewrite (parse_all_None ids s Hin Hs). destruct (check_zoom H && check_zoom V); reflexivity.
Qed.
(* every string of a successful result is the ID() string of some ID *)
Lemma change_ext_api_printed ids H V r s : change_ext_api ids H V = Ok r -> In s r -> exists o, s = print_eid o.
Proof.
  unfold change_ext_api. destruct (check_zoom H && check_zoom V); [|discriminate]. destruct (parse_all ids) as [es|]; [|discriminate].
  intros [= <-] Hs. apply -> (nodupb_In String.eqb String.eqb_spec) in Hs. rewrite flat_one_strs_print in Hs.
  apply in_map_iff in Hs. destruct Hs as (o & <- & _). now exists o.
Qed.

(* ---- the spatial-ID wrapper ---- *)
Definition print_sid (i : eid) : string := join [print (eh i); print (ef i); print (ex i); print (ey i)].

Lemma eid_to_sid_print o : eid_to_sid_str (print_eid o) = Some (print_sid o).
Proof.
  unfold eid_to_sid_str, print_eid. rewrite split_join; [reflexivity|discriminate|].
  cbn. rewrite !print_noslash. reflexivity.
Qed.
Lemma sid_to_eid_print i : ev i = eh i -> sid_to_eid_str (print_sid i) = Some (print_eid i).
Proof.
  intros E. unfold sid_to_eid_str, print_sid. rewrite split_join; [|discriminate|cbn; rewrite !print_noslash; reflexivity].
  unfold print_eid. rewrite E. reflexivity.
Qed.
Lemma conv_prefix_print l : conv_prefix (map print_eid l) = map print_sid l.
Proof. induction l as [|o r IH]; cbn [map conv_prefix]; [reflexivity|]. now rewrite eid_to_sid_print, IH. Qed.

(* the error that ChangeSpatialIdsZoom drops can never occur: the back conversion succeeds on every successful result *)
Theorem change_sid_back_never_fails es H V r : change_ext_api es H V = Ok r -> eids_to_sids r = Ok (conv_prefix r).
Proof.
  intros E. assert (F : forall s, In s r -> exists o, s = print_eid o) by (intros s; apply (change_ext_api_printed es H V r s E)).
  clear E. unfold eids_to_sids. induction r as [|s r IH]; cbn [map_opt conv_prefix]; [reflexivity|].
  destruct (F s (or_introl eq_refl)) as (o & ->). rewrite eid_to_sid_print.
  assert (IH' := IH (fun s Hs => F s (or_intror Hs))). destruct (map_opt eid_to_sid_str r); [|discriminate]. now injection IH' as <-.
Qed.

(* wrapper = conjugation of the extended-form change at (z, z) by the notation change *)
Theorem change_sid_api_spec ids z : (forall i, In i ids -> valid i /\ ev i = eh i) -> (0 <= z <= 35)%Z ->
  change_sid_api (map print_sid ids) z = Ok (map print_sid (change_eids ids z z)).
Proof.
  intros Hval Hz. unfold change_sid_api, sids_to_eids.
  rewrite (map_opt_map sid_to_eid_str print_sid print_eid) by (intros a Ha; apply sid_to_eid_print; now apply Hval).
  rewrite change_ext_api_spec by (auto; intros i Hi; now apply Hval). now rewrite conv_prefix_print.
Qed.
Theorem change_sid_api_conjugation sids z :
  change_sid_api sids z =
  match sids_to_eids sids with
  | Err => Err
  | Ok es => match change_ext_api es z z with Err => Err | Ok r => eids_to_sids r end
  end.
Proof.
  unfold change_sid_api. destruct (sids_to_eids sids) as [es|]; [|reflexivity].
  destruct (change_ext_api es z z) as [r|] eqn:E; [|reflexivity]. symmetry. eapply change_sid_back_never_fails; eauto.
Qed.
Theorem change_sid_api_bad_arity sids s z : In s sids -> length (split s) <> 4%nat -> change_sid_api sids z = Err.
Proof.
  intros Hin Hl. unfold change_sid_api, sids_to_eids. rewrite (map_opt_None sid_to_eid_str sids s Hin); [reflexivity|].
  unfold sid_to_eid_str. destruct (split s) as [|a [|b [|c [|d [|e t]]]]]; cbn in Hl; try reflexivity. congruence.
Qed.

Close Scope string_scope.

(* ================================================================================================================== *)
(* 8. Run-time checkers (decide the specification on the implementation's observed output) and their soundness         *)
(* ================================================================================================================== *)

(* dyadic-box reference in floor arithmetic only: the indices at zoom zout related to index i of zoom zin form the interval [lo1, hi1] *)
Definition lo1 (zin i zout : Z) : Z := if zin <=? zout then i * 2 ^ (zout - zin) else anc (zin - zout) i.
Definition hi1 (zin i zout : Z) : Z := if zin <=? zout then (i + 1) * 2 ^ (zout - zin) - 1 else anc (zin - zout) i.
Lemma box_exact zin i zout o : 0 <= zin -> 0 <= zout -> lo1 zin i zout <= o <= hi1 zin i zout <-> rel1 zin i zout o.
Proof.
  intros H1 H2. unfold lo1, hi1, rel1. destruct (Z.leb_spec zin zout).
  - rewrite <- desc_iff by lia. lia.
  - lia.
Qed.
Lemma box_nonempty zin i zout : 0 <= zin -> 0 <= zout -> lo1 zin i zout <= hi1 zin i zout.
Proof.
  intros H1 H2. unfold lo1, hi1. destruct (Z.leb_spec zin zout); [|lia].
  pose proof (pow2_pos (zout - zin) ltac:(lia)). lia.
Qed.
Definition box1 (zin i zout : Z) : list Z := zrange (lo1 zin i zout) (hi1 zin i zout).
Lemma box1_exact zin i zout o : 0 <= zin -> 0 <= zout -> In o (box1 zin i zout) <-> rel1 zin i zout o.
Proof. intros. unfold box1. rewrite in_zrange. now apply box_exact. Qed.

Definition ref_one (H V : Z) (i : eid) : list eid :=
  flat_map (fun x => flat_map (fun y => map (fun f => mk H x y V f) (box1 (ev i) (ef i) V)) (box1 (eh i) (ey i) H)) (box1 (eh i) (ex i) H).
Definition ref_expected (ins : list eid) (H V : Z) : list eid := nodupb eid_eqb (flat_map (ref_one H V) ins).

Lemma ref_one_exact H V i o : 0 <= eh i -> 0 <= ev i -> 0 <= H -> 0 <= V ->
  In o (ref_one H V i) <-> eh o = H /\ ev o = V /\ overlaps i o.
Proof.
  intros Hh Hv HH HV. unfold ref_one, overlaps. rewrite in_flat_map. split.
  - intros (x & Hx & Hm). apply in_flat_map in Hm. destruct Hm as (y & Hy & Hm). apply in_map_iff in Hm. destruct Hm as (f & <- & Hf).
    apply box1_exact in Hx, Hy, Hf; try lia. cbn. tauto.
  - intros (E1 & E2 & R1 & R2 & R3). subst H V. exists (ex o). split; [apply box1_exact; auto|].
    apply in_flat_map. exists (ey o). split; [apply box1_exact; auto|]. apply in_map_iff. exists (ef o).
    split; [destruct o; reflexivity|apply box1_exact; auto].
Qed.
Lemma ref_expected_exact ins H V o : (forall i, In i ins -> 0 <= eh i /\ 0 <= ev i) -> 0 <= H -> 0 <= V ->
  In o (ref_expected ins H V) <-> zspec ins H V o.
Proof.
  intros Hz HH HV. unfold ref_expected, zspec. rewrite (nodupb_In eid_eqb eid_eqb_spec), in_flat_map. split.
  - intros (i & Hi & Ho). destruct (Hz i Hi). apply ref_one_exact in Ho; auto. destruct Ho as (A & B & C). eauto.
  - intros (A & B & i & Hi & C). exists i. split; [exact Hi|]. destruct (Hz i Hi). apply ref_one_exact; auto.
Qed.
(* the executable model and the reference enumerate the same set *)
Corollary model_is_reference ins H V : (forall i, In i ins -> wf i) -> 0 <= H -> 0 <= V ->
  Permutation (change_eids ins H V) (ref_expected ins H V).
Proof.
  intros Hwf HH HV. apply NoDup_Permutation; [apply change_NoDup|apply (nodupb_NoDup eid_eqb eid_eqb_spec)|].
  intros o. rewrite change_exact, ref_expected_exact; auto; [reflexivity|]. intros i Hi. destruct (Hwf i Hi) as (A & B & _). auto.
Qed.

Definition in_specb (ins : list eid) (H V : Z) (o : eid) : bool :=
  (eh o =? H) && (ev o =? V) && existsb (fun i => overlapsb i o) ins.
Lemma in_specb_spec ins H V o : in_specb ins H V o = true <-> zspec ins H V o.
Proof.
  unfold in_specb, zspec. rewrite !andb_true_iff, !Z.eqb_eq, existsb_exists.
  split; intros ((A & B) & i & Hi & C) || intros (A & B & i & Hi & C); repeat split; auto; exists i; (split; [exact Hi|]); now apply overlapsb_spec.
Qed.

(* ---- a generic checker: "the observed strings are, without repetition, exactly the printed members of a finite set" ---- *)
Section SetChecker.
  Context {T : Type} (teqb : T -> T -> bool) (teqb_spec : forall a b, reflect (a = b) (teqb a b)).
  Variables (pr : T -> string) (pa : string -> option T) (ok : T -> Prop).
  Hypothesis pa_pr : forall t, ok t -> pa (pr t) = Some t.
  Variables (P : T -> Prop) (Pb : T -> bool).
  Hypothesis Pb_spec : forall t, Pb t = true <-> P t.
  Hypothesis P_ok : forall t, P t -> ok t.
  Variables (enum : list T) (n : nat).
  Hypothesis enum_NoDup : NoDup enum.
  Hypothesis enum_spec : forall t, In t enum <-> P t.
  Hypothesis enum_len : length enum = n.

  Fixpoint nodup_ok (l : list T) : bool := match l with [] => true | a :: r => negb (memb teqb a r) && nodup_ok r end.
  Lemma nodup_ok_spec l : nodup_ok l = true <-> NoDup l.
  Proof.
    induction l as [|a r IH]; cbn [nodup_ok]; [split; [constructor|reflexivity]|].
    rewrite andb_true_iff, negb_true_iff, IH. split.
    - intros [A B]. constructor; [|exact B]. intros Hin. apply (memb_In teqb teqb_spec) in Hin. congruence.
    - intros Hnd. inversion Hnd as [|? ? A B]; subst. split; [|exact B].
      destruct (memb teqb a r) eqn:E; [|reflexivity]. apply (memb_In teqb teqb_spec) in E. contradiction.
  Qed.

  Definition gcheck (obs : list string) : bool :=
    match map_opt pa obs with
    | None => false
    | Some ts => list_eqb String.eqb (map pr ts) obs && nodup_ok ts && forallb Pb ts && Nat.eqb (length ts) n
    end.
  Definition gspec (obs : list string) : Prop := NoDup obs /\ forall s, In s obs <-> exists t, s = pr t /\ P t.

  Lemma pr_inj a b : ok a -> ok b -> pr a = pr b -> a = b.
  Proof. intros Ha Hb E. apply pa_pr in Ha, Hb. rewrite E in Ha. congruence. Qed.
  Lemma NoDup_map_on (l : list T) : (forall t, In t l -> ok t) -> NoDup l -> NoDup (map pr l).
  Proof.
    induction l as [|a r IH]; cbn [map]; intros Hok Hnd; [constructor|]. inversion Hnd as [|? ? A B]; subst. constructor.
    - intros Hin. apply in_map_iff in Hin. destruct Hin as (b & Eb & Hb). apply A.
      assert (b = a) by (apply pr_inj; auto; [apply Hok; now right|apply Hok; now left]). now subst.
    - apply IH; [intros; apply Hok; now right|exact B].
  Qed.

  Theorem gcheck_sound obs : gcheck obs = true <-> gspec obs.
  Proof.
    unfold gcheck, gspec. split.
    - destruct (map_opt pa obs) as [ts|]; [|discriminate].
      rewrite !andb_true_iff. intros (((E & N) & F) & L).
      destruct (list_eqb_spec String.eqb String.eqb_spec (map pr ts) obs) as [E'|]; [|discriminate]. subst obs.
      apply nodup_ok_spec in N. rewrite forallb_forall in F. apply Nat.eqb_eq in L.
      assert (FP : forall t, In t ts -> P t) by (intros t Ht; apply Pb_spec; auto).
      split.
      + apply NoDup_map_on; auto.
      + assert (Inc : incl enum ts).
        { apply NoDup_length_incl; [exact N|lia|]. intros t Ht. apply enum_spec. auto. }
        intros s. rewrite in_map_iff. split.
        * intros (t & <- & Ht). exists t. auto.
        * intros (t & -> & Ht). exists t. split; [reflexivity|]. apply Inc. now apply enum_spec.
    - intros (Hnd & Hmem).
      assert (Ex : exists ts, obs = map pr ts /\ forall t, In t ts -> P t).
      { assert (Hall : forall s, In s obs -> exists t, s = pr t /\ P t) by (intros s Hs; now apply Hmem).
        clear Hnd Hmem. induction obs as [|s r IH].
        - exists []. split; [reflexivity|intros t []].
        - destruct (Hall s (or_introl eq_refl)) as (t & -> & Ht). destruct (IH (fun s Hs => Hall s (or_intror Hs))) as (ts & -> & Hts).
          exists (t :: ts). split; [reflexivity|]. intros t' [<-|H']; auto. }
      destruct Ex as (ts & -> & Hts).
      rewrite (map_opt_map pa pr (fun t => t)) by (intros t Ht; apply pa_pr; auto). rewrite map_id.
      assert (N : NoDup ts) by (eapply NoDup_map_inv; eauto).
      rewrite !andb_true_iff. repeat split.
      + destruct (list_eqb_spec String.eqb String.eqb_spec (map pr ts) (map pr ts)); congruence.
      + now apply nodup_ok_spec.
      + apply forallb_forall. intros t Ht. apply Pb_spec. auto.
      + apply Nat.eqb_eq. rewrite <- enum_len. apply Permutation_length. apply NoDup_Permutation; auto.
        intros t. rewrite enum_spec. split; [auto|]. intros Ht.
        assert (Hin : In (pr t) (map pr ts)) by (apply Hmem; eauto).
        apply in_map_iff in Hin. destruct Hin as (t' & E & Ht'). assert (t' = t) by (apply pr_inj; auto). now subst.
  Qed.
End SetChecker.

(* ---- ChangeExtendedSpatialIdsZoom / ChangeSpatialIdsZoom (the latter after the notation change of inputs and outputs) ---- *)
Definition check_change (ins : list eid) (H V : Z) (obs : list string) : bool :=
  gcheck eid_eqb print_eid parse_eid (in_specb ins H V) (length (ref_expected ins H V)) obs.
Definition spec_obs (ins : list eid) (H V : Z) (obs : list string) : Prop :=
  NoDup obs /\ forall s, In s obs <-> exists o, s = print_eid o /\ zspec ins H V o.

Theorem check_change_sound ins H V obs : (forall i, In i ins -> valid i) -> 0 <= H <= 35 -> 0 <= V <= 35 ->
  check_change ins H V obs = true <-> spec_obs ins H V obs.
Proof.
  intros Hval HH HV. unfold check_change, spec_obs.
  apply (gcheck_sound eid_eqb eid_eqb_spec print_eid parse_eid (fun o => fields_ok o = true) parse_print_eid
           (zspec ins H V) (in_specb ins H V) (in_specb_spec ins H V)) with (enum := ref_expected ins H V).
  - intros o (A & B & i & Hi & C). apply valid_fields_ok. apply (overlaps_valid i); auto; lia.
  - apply (nodupb_NoDup eid_eqb eid_eqb_spec).
  - intros o. apply ref_expected_exact; try lia. intros i Hi. destruct (Hval i Hi) as (A & B & _). lia.
  - reflexivity.
Qed.
(* the model's own output passes the checker: the implementation is held to nothing the model does not do *)
Corollary model_passes_check ids H V : (forall i, In i ids -> valid i) -> 0 <= H <= 35 -> 0 <= V <= 35 ->
  check_change ids H V (map print_eid (change_eids ids H V)) = true.
Proof.
  intros Hval HH HV. apply check_change_sound; auto. split.
  - apply (NoDup_map_on print_eid parse_eid (fun o => fields_ok o = true) parse_print_eid).
    + intros o Ho. apply valid_fields_ok. apply (change_valid ids H V); auto.
    + apply change_NoDup.
  - intros s. rewrite in_map_iff. split.
    + intros (o & <- & Ho). exists o. split; [reflexivity|]. apply change_exact in Ho; try lia; auto. intros; apply valid_wf; auto.
    + intros (o & -> & Ho). exists o. split; [reflexivity|]. apply change_exact; try lia; auto. intros; apply valid_wf; auto.
Qed.

(* ---- the exported per-axis helpers ---- *)
Definition parse3 (s : string) : option (Z * Z * Z) :=
  match split s with
  | [a; b; c] => match parse a, parse b, parse c with Some z, Some x, Some y => Some (z, x, y) | _, _, _ => None end
  | _ => None
  end.
Definition parse2 (s : string) : option (Z * Z) :=
  match split s with
  | [a; b] => match parse a, parse b with Some z, Some f => Some (z, f) | _, _ => None end
  | _ => None
  end.
Definition print3 (t : Z * Z * Z) : string := hstr (fst (fst t)) (snd (fst t)) (snd t).
Definition print2 (t : Z * Z) : string := vstr (fst t) (snd t).
Definition ok3 (t : Z * Z * Z) : Prop := int64_ok (fst (fst t)) = true /\ int64_ok (snd (fst t)) = true /\ int64_ok (snd t) = true.
Definition ok2 (t : Z * Z) : Prop := int64_ok (fst t) = true /\ int64_ok (snd t) = true.
Lemma parse3_print3 t : ok3 t -> parse3 (print3 t) = Some t.
Proof.
  destruct t as [[z x] y]. intros (A & B & C). cbn in A, B, C. unfold parse3, print3. cbn [fst snd]. rewrite hstr_join, split_join.
  - now rewrite !parse_print.
  - discriminate.
  - cbn. now rewrite !print_noslash.
Qed.
Lemma parse2_print2 t : ok2 t -> parse2 (print2 t) = Some t.
Proof.
  destruct t as [z f]. intros (A & B). cbn in A, B. unfold parse2, print2. cbn [fst snd]. rewrite vstr_join, split_join.
  - now rewrite !parse_print.
  - discriminate.
  - cbn. now rewrite !print_noslash.
Qed.
Definition eqb3 (a b : Z * Z * Z) : bool := (fst (fst a) =? fst (fst b)) && (snd (fst a) =? snd (fst b)) && (snd a =? snd b).
Definition eqb2 (a b : Z * Z) : bool := (fst a =? fst b) && (snd a =? snd b).
Lemma eqb3_spec a b : reflect (a = b) (eqb3 a b).
Proof.
  destruct a as [[a1 a2] a3], b as [[b1 b2] b3]. unfold eqb3; cbn.
  destruct (Z.eqb_spec a1 b1), (Z.eqb_spec a2 b2), (Z.eqb_spec a3 b3); cbn; constructor; congruence.
Qed.
Lemma eqb2_spec a b : reflect (a = b) (eqb2 a b).
Proof.
  destruct a as [a1 a2], b as [b1 b2]. unfold eqb2; cbn.
  destruct (Z.eqb_spec a1 b1), (Z.eqb_spec a2 b2); cbn; constructor; congruence.
Qed.

Lemma small_int64 z : - 2 ^ 35 <= z <= 2 ^ 35 -> int64_ok z = true.
Proof.
  intros Hz. unfold int64_ok. assert (2 ^ 35 < 2 ^ 63) by (apply Z.pow_lt_mono_r; lia).
  rewrite andb_true_iff, Z.leb_le, Z.ltb_lt. lia.
Qed.
Lemma pow2_le35 z : 0 <= z <= 35 -> 2 ^ z <= 2 ^ 35.
Proof. intros. apply Z.pow_le_mono_r; lia. Qed.

(* HorizontalZoom *)
Definition hP (zin x y zout : Z) (t : Z * Z * Z) : Prop :=
  fst (fst t) = zout /\ rel1 zin x zout (snd (fst t)) /\ rel1 zin y zout (snd t).
Definition hPb (zin x y zout : Z) (t : Z * Z * Z) : bool :=
  (fst (fst t) =? zout) && rel1b zin x zout (snd (fst t)) && rel1b zin y zout (snd t).
Definition check_hzoom (zin x y zout : Z) (obs : list string) : bool :=
  gcheck eqb3 print3 parse3 (hPb zin x y zout) (Z.to_nat (4 ^ Z.max 0 (zout - zin))) obs.
Definition spec_hzoom (zin x y zout : Z) (obs : list string) : Prop :=
  NoDup obs /\ forall s, In s obs <-> exists ox oy, s = hstr zout ox oy /\ rel1 zin x zout ox /\ rel1 zin y zout oy.

Theorem check_hzoom_sound zin x y zout obs : 0 <= zin <= 35 -> 0 <= zout <= 35 -> 0 <= x < 2 ^ zin -> 0 <= y < 2 ^ zin ->
  check_hzoom zin x y zout obs = true <-> spec_hzoom zin x y zout obs.
Proof.
  intros Hin Hout Hx Hy. unfold check_hzoom.
  rewrite (gcheck_sound eqb3 eqb3_spec print3 parse3 ok3 parse3_print3 (hP zin x y zout) (hPb zin x y zout))
    with (enum := map (fun xy => (zout, fst xy, snd xy)) (hzoom zin x y zout)).
  - unfold gspec, spec_hzoom, hP, print3. split; intros (A & B); (split; [exact A|]); intros s; rewrite B; split.
    + intros ([[z ox] oy] & E & Z0 & R1 & R2). cbn in *. subst z. eauto.
    + intros (ox & oy & E & R1 & R2). exists (zout, ox, oy). cbn. auto.
    + intros (ox & oy & E & R1 & R2). exists (zout, ox, oy). cbn. auto.
    + intros ([[z ox] oy] & E & Z0 & R1 & R2). cbn in *. subst z. eauto.
  - intros t. unfold hPb, hP. rewrite !andb_true_iff, Z.eqb_eq, !rel1b_spec. tauto.
  - intros [[z ox] oy] (Z0 & R1 & R2). cbn in *. subst z.
    pose proof (rel1_range zin x zout ox ltac:(lia) ltac:(lia) R1 Hx). pose proof (rel1_range zin y zout oy ltac:(lia) ltac:(lia) R2 Hy).
    pose proof (pow2_le35 zout Hout). assert (35 < 2 ^ 35) by (vm_compute; reflexivity).
    repeat split; cbn; apply small_int64; lia.
  - apply FinFun.Injective_map_NoDup; [|apply hzoom_NoDup]. intros [a b] [a' b']; cbn. intros [= -> ->]. reflexivity.
  - intros [[z ox] oy]. rewrite in_map_iff. unfold hP; cbn. split.
    + intros ([a b] & [= <- <- <-] & Hin'). apply hzoom_exact in Hin'; try lia. tauto.
    + intros (<- & R1 & R2). exists (ox, oy). split; [reflexivity|]. apply hzoom_exact; try lia. tauto.
  - rewrite map_length. apply hzoom_length.
Qed.
(* the model of HorizontalZoom meets the specification the checker decides *)
Theorem hzoom_strs_spec zin x y zout : 0 <= zin <= 35 -> 0 <= zout <= 35 -> 0 <= x < 2 ^ zin -> 0 <= y < 2 ^ zin ->
  spec_hzoom zin x y zout (hzoom_strs zin x y zout).
Proof.
  intros Hin Hout Hx Hy. split.
  - unfold hzoom_strs.
    replace (map (fun xy => hstr zout (fst xy) (snd xy)) (hzoom zin x y zout))
      with (map print3 (map (fun xy => (zout, fst xy, snd xy)) (hzoom zin x y zout))) by (rewrite map_map; reflexivity).
    apply (NoDup_map_on print3 parse3 ok3 parse3_print3).
    + intros [[z ox] oy] Ht. apply in_map_iff in Ht. destruct Ht as ([a b] & [= <- <- <-] & Hin'). apply hzoom_exact in Hin'; try lia.
      destruct Hin' as [R1 R2]. cbn [fst snd] in *.
      pose proof (rel1_range zin x zout a ltac:(lia) ltac:(lia) R1 Hx). pose proof (rel1_range zin y zout b ltac:(lia) ltac:(lia) R2 Hy).
      pose proof (pow2_le35 zout Hout). assert (35 < 2 ^ 35) by (vm_compute; reflexivity).
      repeat split; cbn; apply small_int64; lia.
    + apply FinFun.Injective_map_NoDup; [|apply hzoom_NoDup]. intros [a b] [a' b']; cbn. intros [= -> ->]. reflexivity.
  - intros s. unfold hzoom_strs. rewrite in_map_iff. split.
    + intros ([ox oy] & <- & Hin'). apply hzoom_exact in Hin'; try lia. exists ox, oy. cbn. tauto.
    + intros (ox & oy & -> & R1 & R2). exists (ox, oy). split; [reflexivity|]. apply hzoom_exact; try lia. tauto.
Qed.

(* VerticalZoom *)
Definition vP (zin f zout : Z) (t : Z * Z) : Prop := fst t = zout /\ rel1 zin f zout (snd t).
Definition vPb (zin f zout : Z) (t : Z * Z) : bool := (fst t =? zout) && rel1b zin f zout (snd t).
Definition check_vzoom (zin f zout : Z) (obs : list string) : bool :=
  gcheck eqb2 print2 parse2 (vPb zin f zout) (Z.to_nat (2 ^ Z.max 0 (zout - zin))) obs.
Definition spec_vzoom (zin f zout : Z) (obs : list string) : Prop :=
  NoDup obs /\ forall s, In s obs <-> exists o, s = vstr zout o /\ rel1 zin f zout o.

Theorem check_vzoom_sound zin f zout obs : 0 <= zin <= 35 -> 0 <= zout <= 35 -> - 2 ^ zin <= f < 2 ^ zin ->
  check_vzoom zin f zout obs = true <-> spec_vzoom zin f zout obs.
Proof.
  intros Hin Hout Hf. unfold check_vzoom.
  rewrite (gcheck_sound eqb2 eqb2_spec print2 parse2 ok2 parse2_print2 (vP zin f zout) (vPb zin f zout))
    with (enum := map (fun o => (zout, o)) (vzoom zin f zout)).
  - unfold gspec, spec_vzoom, vP, print2. split; intros (A & B); (split; [exact A|]); intros s; rewrite B; split.
    + intros ([z o] & E & Z0 & R1). cbn in *. subst z. eauto.
    + intros (o & E & R1). exists (zout, o). cbn. auto.
    + intros (o & E & R1). exists (zout, o). cbn. auto.
    + intros ([z o] & E & Z0 & R1). cbn in *. subst z. eauto.
  - intros t. unfold vPb, vP. rewrite !andb_true_iff, Z.eqb_eq, !rel1b_spec. tauto.
  - intros [z o] (Z0 & R1). cbn in *. subst z.
    pose proof (rel1_range_signed zin f zout o ltac:(lia) ltac:(lia) R1 Hf).
    pose proof (pow2_le35 zout Hout). assert (35 < 2 ^ 35) by (vm_compute; reflexivity).
    repeat split; cbn; apply small_int64; lia.
  - apply FinFun.Injective_map_NoDup; [|apply vzoom_NoDup]. intros a a'. intros [= ->]. reflexivity.
  - intros [z o]. rewrite in_map_iff. unfold vP; cbn. split.
    + intros (a & [= <- <-] & Hin'). apply vzoom_exact in Hin'; try lia. tauto.
    + intros (<- & R1). exists o. split; [reflexivity|]. apply vzoom_exact; try lia. tauto.
  - rewrite map_length. apply vzoom_length.
Qed.
Theorem vzoom_strs_spec zin f zout : 0 <= zin <= 35 -> 0 <= zout <= 35 -> - 2 ^ zin <= f < 2 ^ zin ->
  spec_vzoom zin f zout (vzoom_strs zin f zout).
Proof.
  intros Hin Hout Hf. split.
  - unfold vzoom_strs.
    replace (map (vstr zout) (vzoom zin f zout)) with (map print2 (map (fun o => (zout, o)) (vzoom zin f zout))) by (rewrite map_map; reflexivity).
    apply (NoDup_map_on print2 parse2 ok2 parse2_print2).
    + intros [z o] Ht. apply in_map_iff in Ht. destruct Ht as (a & [= <- <-] & Hin'). apply vzoom_exact in Hin'; try lia.
      pose proof (rel1_range_signed zin f zout a ltac:(lia) ltac:(lia) Hin' Hf).
      pose proof (pow2_le35 zout Hout). assert (35 < 2 ^ 35) by (vm_compute; reflexivity).
      repeat split; cbn; apply small_int64; lia.
    + apply FinFun.Injective_map_NoDup; [|apply vzoom_NoDup]. intros a a'. intros [= ->]. reflexivity.
  - intros s. unfold vzoom_strs. rewrite in_map_iff. split.
    + intros (o & <- & Hin'). apply vzoom_exact in Hin'; try lia. eauto.
    + intros (o & -> & R1). exists o. split; [reflexivity|]. apply vzoom_exact; try lia. tauto.
Qed.

(* HorizontalZoomMinMax *)
Definition check_minmax (zin x y zout : Z) (obs : list Z) : bool :=
  match obs with
  | [a; b; c; d] => (a =? lo1 zin x zout) && (b =? lo1 zin y zout) && (c =? hi1 zin x zout) && (d =? hi1 zin y zout)
  | _ => false
  end.
Definition spec_minmax (zin x y zout : Z) (obs : list Z) : Prop :=
  exists a b c d, obs = [a; b; c; d] /\
    (forall ox, a <= ox <= c <-> rel1 zin x zout ox) /\ (forall oy, b <= oy <= d <-> rel1 zin y zout oy).
Lemma interval_eq lo hi a c : lo <= hi -> (forall o, a <= o <= c <-> lo <= o <= hi) <-> a = lo /\ c = hi.
Proof.
  intros Hle. split.
  - intros Hi. pose proof (proj2 (Hi lo) ltac:(lia)). pose proof (proj2 (Hi hi) ltac:(lia)).
    pose proof (proj1 (Hi a) ltac:(lia)). pose proof (proj1 (Hi c) ltac:(lia)). lia.
  - intros [-> ->] o. reflexivity.
Qed.
Theorem check_minmax_sound zin x y zout obs : 0 <= zin -> 0 <= zout ->
  check_minmax zin x y zout obs = true <-> spec_minmax zin x y zout obs.
Proof.
  intros Hin Hout. unfold check_minmax, spec_minmax. split.
  - destruct obs as [|a [|b [|c [|d [|e t]]]]]; try discriminate.
    rewrite !andb_true_iff, !Z.eqb_eq. intros (((-> & ->) & ->) & ->). eexists _, _, _, _. split; [reflexivity|].
    split; intros o; apply box_exact; auto.
  - intros (a & b & c & d & -> & Hx & Hy). rewrite !andb_true_iff, !Z.eqb_eq.
    assert (Ex : a = lo1 zin x zout /\ c = hi1 zin x zout).
    { apply interval_eq; [now apply box_nonempty|]. intros o. rewrite Hx. symmetry. now apply box_exact. }
    assert (Ey : b = lo1 zin y zout /\ d = hi1 zin y zout).
    { apply interval_eq; [now apply box_nonempty|]. intros o. rewrite Hy. symmetry. now apply box_exact. }
    tauto.
Qed.
Theorem hzoom_minmax_spec zin x y zout : 0 <= zin -> 0 <= zout -> 0 <= x -> 0 <= y ->
  spec_minmax zin x y zout (hzoom_minmax_l zin x y zout).
Proof.
  intros Hin Hout Hx Hy. unfold spec_minmax, hzoom_minmax_l.
  pose proof (fun ox => hzoom_minmax_x zin x y zout ox Hin Hout Hx) as A.
  pose proof (fun oy => hzoom_minmax_y zin x y zout oy Hin Hout Hy) as B.
  destruct (hzoom_minmax zin x y zout) as [[[x0 y0] x1] y1]. eexists _, _, _, _. split; [reflexivity|]. split; assumption.
Qed.

(* ================================================================================================================== *)
(* 9. The APIs on every accepted input string (not only the canonical print), and the spatial-ID checker               *)
(* ================================================================================================================== *)

Theorem change_ext_api_parsed sl es H V : parse_all sl = Some es -> (forall i, In i es -> valid i) -> 0 <= H <= 35 -> 0 <= V <= 35 ->
  change_ext_api sl H V = Ok (map print_eid (change_eids es H V)).
Proof.
  intros Hp Hval HH HV. unfold change_ext_api.
  assert (Z1 : check_zoom H = true) by (apply check_zoom_spec; lia).
  assert (Z2 : check_zoom V = true) by (apply check_zoom_spec; lia).
  rewrite Z1, Z2, Hp. cbn [andb]. f_equal. rewrite flat_one_strs_print. unfold change_eids.
  apply (nodupb_map_inj eid_eqb String.eqb eid_eqb_spec String.eqb_spec).
  assert (F : forall o, In o (flat_map (one H V) es) -> fields_ok o = true).
  { intros o Ho. apply valid_fields_ok. apply (change_valid es H V); auto.
    apply change_In. apply in_flat_map in Ho. exact Ho. }
  intros a b Ha Hb. apply print_eid_inj; auto.
Qed.

(* a spatial ID "z/f/x/y" read as the extended ID z/x/y/z/f *)
Definition parse_sid (s : string) : option eid :=
  match split s with
  | [a; b; c; d] =>
      match parse a, parse b, parse c, parse d with
      | Some z, Some f, Some x, Some y => Some (mk z x y z f)
      | _, _, _, _ => None
      end
  | _ => None
  end.
Lemma parse_print_sid o : fields_ok o = true -> ev o = eh o -> parse_sid (print_sid o) = Some o.
Proof.
  unfold fields_ok. rewrite !andb_true_iff. intros ((((H1 & H2) & H3) & H4) & H5) E.
  unfold parse_sid, print_sid. rewrite split_join; [|discriminate|cbn; now rewrite !print_noslash].
  rewrite !parse_print by assumption. destruct o; cbn in *; subst; reflexivity.
Qed.
Lemma split_fields_noslash s : forallb noslash (split s) = true.
Proof.
  induction s as [|c r IH]; [reflexivity|]. cbn [split]. destruct (Ascii.eqb c slash) eqn:E; [exact IH|].
  destruct (split r) as [|h t]; cbn in *; rewrite E; cbn; [reflexivity|]. exact IH.
Qed.
Lemma parse_sid_factors s i : parse_sid s = Some i -> exists t, sid_to_eid_str s = Some t /\ parse_eid t = Some i.
Proof.
  unfold parse_sid, sid_to_eid_str. pose proof (split_fields_noslash s) as Hn.
  destruct (split s) as [|a [|b [|c [|d [|e t]]]]]; try discriminate.
  cbn in Hn. rewrite !andb_true_iff in Hn. destruct Hn as (Na & Nb & Nc & Nd & _).
  destruct (parse a) as [z|] eqn:Pa; [|discriminate]. destruct (parse b) as [f|] eqn:Pb; [|discriminate].
  destruct (parse c) as [x|] eqn:Pc; [|discriminate]. destruct (parse d) as [y|] eqn:Pd; [|discriminate].
  intros [= <-]. eexists. split; [reflexivity|]. unfold parse_eid. rewrite split_join; [|discriminate|cbn; now rewrite Na, Nb, Nc, Nd].
  now rewrite Pa, Pb, Pc, Pd.
Qed.
Lemma parse_sids_factor sl es : map_opt parse_sid sl = Some es -> exists el, sids_to_eids sl = Ok el /\ parse_all el = Some es.
Proof.
  unfold sids_to_eids. revert es. induction sl as [|s r IH]; cbn [map_opt]; intros es.
  - intros [= <-]. exists []. split; reflexivity.
  - destruct (parse_sid s) as [i|] eqn:Ps; [|discriminate]. destruct (map_opt parse_sid r) as [er|]; [|discriminate]. intros [= <-].
    destruct (parse_sid_factors s i Ps) as (t & T1 & T2). destruct (IH er eq_refl) as (el & E1 & E2).
    rewrite T1. destruct (map_opt sid_to_eid_str r) as [el'|]; [|discriminate]. injection E1 as ->.
    exists (t :: el). split; [reflexivity|]. cbn [parse_all]. now rewrite T2, E2.
Qed.
Theorem change_sid_api_parsed sl es z : map_opt parse_sid sl = Some es -> (forall i, In i es -> valid i) -> 0 <= z <= 35 ->
  change_sid_api sl z = Ok (map print_sid (change_eids es z z)).
Proof.
  intros Hp Hval Hz. destruct (parse_sids_factor sl es Hp) as (el & E1 & E2). unfold change_sid_api. rewrite E1.
  rewrite (change_ext_api_parsed el es z z E2 Hval Hz Hz). now rewrite conv_prefix_print.
Qed.

(* checker for the observed output of ChangeSpatialIdsZoom: same set specification, spatial-ID notation *)
Definition check_change_sid (ins : list eid) (z : Z) (obs : list string) : bool :=
  gcheck eid_eqb print_sid parse_sid (in_specb ins z z) (length (ref_expected ins z z)) obs.
Definition spec_obs_sid (ins : list eid) (z : Z) (obs : list string) : Prop :=
  NoDup obs /\ forall s, In s obs <-> exists o, s = print_sid o /\ zspec ins z z o.
Theorem check_change_sid_sound ins z obs : (forall i, In i ins -> valid i) -> 0 <= z <= 35 ->
  check_change_sid ins z obs = true <-> spec_obs_sid ins z obs.
Proof.
  intros Hval Hz. unfold check_change_sid, spec_obs_sid.
  apply (gcheck_sound eid_eqb eid_eqb_spec print_sid parse_sid (fun o => fields_ok o = true /\ ev o = eh o)
           (fun o Ho => parse_print_sid o (proj1 Ho) (proj2 Ho))
           (zspec ins z z) (in_specb ins z z) (in_specb_spec ins z z)) with (enum := ref_expected ins z z).
  - intros o (A & B & i & Hi & C). split; [|congruence]. apply valid_fields_ok. apply (overlaps_valid i); auto; lia.
  - apply (nodupb_NoDup eid_eqb eid_eqb_spec).
  - intros o. apply ref_expected_exact; try lia. intros i Hi. destruct (Hval i Hi) as (A & B & _). lia.
  - reflexivity.
Qed.

(* ================================================================================================================== *)
(* 10. The statements of properties/C03.v in the vocabulary of the property (`valid` inputs, zooms 0..35)                *)
(* ================================================================================================================== *)
Theorem change_exact_valid ids H V o : (forall i, In i ids -> valid i) -> 0 <= H <= 35 -> 0 <= V <= 35 ->
  (In o (change_eids ids H V) <-> eh o = H /\ ev o = V /\ exists i, In i ids /\ overlaps i o).
Proof. intros Hv HH HV. apply change_exact; try lia. intros i Hi. apply valid_wf. auto. Qed.
Theorem change_region_valid ids H V o : (forall i, In i ids -> valid i) -> 0 <= H <= 35 -> 0 <= V <= 35 ->
  (In o (change_eids ids H V) <-> eh o = H /\ ev o = V /\ exists i, In i ids /\ exists p, inR i p /\ inR o p).
Proof.
  intros Hv HH HV. assert (W : forall i, In i ids -> wf i) by (intros i Hi; apply valid_wf; auto).
  rewrite change_exact by (auto; lia). apply zspec_region; auto; lia.
Qed.
Theorem raise_partition_valid i H V : valid i -> eh i <= H -> ev i <= V ->
  length (one H V i) = Z.to_nat (4 ^ (H - eh i) * 2 ^ (V - ev i)) /\
  NoDup (one H V i) /\
  (forall o, In o (one H V i) -> eh o = H /\ ev o = V /\ forall p, inR o p -> inR i p) /\
  (forall p, inR i p -> exists o, In o (one H V i) /\ inR o p) /\
  (forall o o' p, In o (one H V i) -> In o' (one H V i) -> inR o p -> inR o' p -> o = o').
Proof. intros Hv. apply raise_partition. now apply valid_wf. Qed.
Theorem lower_single_valid i H V : valid i -> 0 <= H <= eh i -> 0 <= V <= ev i ->
  one H V i = [mk H (anc (eh i - H) (ex i)) (anc (eh i - H) (ey i)) V (anc (ev i - V) (ef i))] /\
  forall p, inR i p -> inR (mk H (anc (eh i - H) (ex i)) (anc (eh i - H) (ey i)) V (anc (ev i - V) (ef i))) p.
Proof. intros Hv. apply lower_single. now apply valid_wf. Qed.
Theorem mixed_up_down_valid i H V : valid i -> eh i <= H -> 0 <= V <= ev i -> forall o,
  In o (one H V i) <->
  eh o = H /\ ev o = V /\ anc (H - eh i) (ex o) = ex i /\ anc (H - eh i) (ey o) = ey i /\ ef o = anc (ev i - V) (ef i).
Proof. intros Hv. apply mixed_up_down. now apply valid_wf. Qed.
Theorem mixed_down_up_valid i H V : valid i -> 0 <= H <= eh i -> ev i <= V -> forall o,
  In o (one H V i) <->
  eh o = H /\ ev o = V /\ ex o = anc (eh i - H) (ex i) /\ ey o = anc (eh i - H) (ey i) /\ anc (V - ev i) (ef o) = ef i.
Proof. intros Hv. apply mixed_down_up. now apply valid_wf. Qed.

(* ================================================================================================================== *)
(* 11. One input ID through the list-level function and through the exported API: `one` is what the API returns        *)
(* ================================================================================================================== *)
Theorem change_single i H V : change_eids [i] H V = one H V i.
Proof.
  unfold change_eids. cbn [flat_map]. rewrite app_nil_r. apply (nodupb_id eid_eqb eid_eqb_spec). apply one_NoDup.
Qed.
Theorem change_ext_api_single i H V : valid i -> 0 <= H <= 35 -> 0 <= V <= 35 ->
  change_ext_api [print_eid i] H V = Ok (map print_eid (one H V i)).
Proof.
  intros Hv HH HV. rewrite <- change_single. apply (change_ext_api_spec [i] H V); auto. intros j [<-|[]]. exact Hv.
Qed.

(* ================================================================================================================== *)
(* 12. Histories: the model has no state — every answer is a function of the call's own arguments                      *)
(* ================================================================================================================== *)
(* one call of an exported function, and what the model answers *)
Inductive call :=
| CallExt (ids : list string) (H V : Z)
| CallSid (ids : list string) (z : Z)
| CallHorizontal (zin x y zout : Z)
| CallVertical (zin f zout : Z)
| CallMinMax (zin x y zout : Z).
Inductive answer := AnsIds (r : result (list string)) | AnsBox (l : list Z).
Definition answer_of (c : call) : answer :=
  match c with
  | CallExt ids H V => AnsIds (change_ext_api ids H V)
  | CallSid ids z => AnsIds (change_sid_api ids z)
  | CallHorizontal zin x y zout => AnsIds (Ok (hzoom_strs zin x y zout))
  | CallVertical zin f zout => AnsIds (Ok (vzoom_strs zin f zout))
  | CallMinMax zin x y zout => AnsBox (hzoom_minmax_l zin x y zout)
  end.
(* running a sequence of calls after an arbitrary past: the only thing a step could consult is the log of earlier calls, and it does not *)
Definition model_step (log : list call) (c : call) : list call * answer := (c :: log, answer_of c).
Fixpoint run_from (log : list call) (h : list call) : list answer :=
  match h with
  | [] => []
  | c :: r => snd (model_step log c) :: run_from (fst (model_step log c)) r
  end.
Theorem history_irrelevant log h : run_from log h = map answer_of h.
Proof. revert log. induction h as [|c r IH]; intros log; cbn [run_from map]; [reflexivity|]. now rewrite IH. Qed.
(* the answer to a call is the same after any two pasts and whatever follows *)
Theorem answer_after_any_history log log' before before' after after' c :
  nth_error (run_from log (before ++ c :: after)) (length before) = Some (answer_of c) /\
  nth_error (run_from log (before ++ c :: after)) (length before) =
  nth_error (run_from log' (before' ++ c :: after')) (length before').
Proof.
  assert (E : forall lg b a, nth_error (run_from lg (b ++ c :: a)) (length b) = Some (answer_of c)).
  { intros lg b a. rewrite history_irrelevant, map_app, nth_error_app2 by (rewrite map_length; lia).
    rewrite map_length, Nat.sub_diag. reflexivity. }
  split; [apply E|]. now rewrite !E.
Qed.
(* repeating a call, in particular, repeats the answer *)
Corollary repeated_call_same_answer log c between :
  nth_error (run_from log (c :: between ++ [c])) 0 = nth_error (run_from log (c :: between ++ [c])) (S (length between)).
Proof.
  rewrite history_irrelevant. cbn [map nth_error]. rewrite map_app, nth_error_app2 by (rewrite map_length; lia).
  rewrite map_length, Nat.sub_diag. reflexivity.
Qed.
