(* DC02.v — dispatch entries of property C02 (ID ↦ geometry of its voxel, tiling).
   corr = the bit-exact model (VertexF / PointF, transcendental functions answered by Go's math package) equals the observed output;
   prop = the checkers of VertexCheck.v accept the observed output; prop is a function of the arguments and the observed output only
   (exact integer references for longitude/altitude, corner order, edge latitudes tied to their rows through the library's own row formula,
   centre latitude = truncated midpoint of the reported edges and strictly between them, round trip, shared faces incl. the antimeridian).
   Domain: the property quantifies over valid IDs. Every entry is TOTAL on well-shaped arguments (lemmas *_total at the end): a well-formed ID
   with zooms in 0..35 whose x, y or f is outside the grid is outside the quantifier but is still judged — through the documented clamp of the row
   and wrap of the column (the same check as the hook entries, on the normalised ID) — as long as |x|, |y|, |f| <= 2^40 and x >= -2^16 * 2^h
   (there float64(x) is exact, so the model's closed form of the wrap is the code's loop, and the loop is short); beyond that bound the entry
   answers class "skipped" (counted separately, neither an evaluation nor a pass): the model's wrap is not faithful for |x| >= 2^53 and the
   library's loop costs |x| / 2^h turns. *)
From Coq Require Import ZArith String List Bool Floats.
From SID Require Import Base Str Ids Wire F64 ExactRef PointF VertexF VertexCheck.
Import ListNotations.
Open Scope string_scope.

  Definition c02_ofun (oracle : oracle_t) (name : string) (x : float) : float :=
    match oracle name [VF x] with VF r => r | _ => nan end.
  Definition c02_of_point (p : point) : val := VL [VF (plon p); VF (plat p); VF (palt p)].
  Definition c02_of_points (l : list point) : val := VL (map c02_of_point l).
  Definition c02_as_point (v : val) : option point :=
    match v with
    | VL [VF a; VF b; VF c] => Some {| plon := a; plat := b; palt := c |}
    | _ => None
    end.
  Definition c02_as_points (v : val) : option (list point) :=
    match v with
    | VL l => all_opt (map c02_as_point l)
    | _ => None
    end.
  Definition c02_point_eqb (p q : point) : bool := point_eqb_bits p q.
  Fixpoint c02_points_eqb (a b : list point) : bool :=
    match a, b with
    | [], [] => true
    | p :: a', q :: b' => c02_point_eqb p q && c02_points_eqb a' b'
    | _, _ => false
    end.
  Definition c02_res_points (m : result (list point)) : val :=
    match m with Ok l => c02_of_points l | Err => VE VNil end.
  (* an error comes with the empty list (documented) *)
  Definition c02_err_empty (obs : val) : bool :=
    match obs with VE p => match as_L p with Some [] => true | _ => false end | _ => false end.
  Definition c02_corr_points (m : result (list point)) (obs : val) : bool :=
    match m, obs with
    | Err, _ => c02_err_empty obs
    | Ok l, _ => match c02_as_points obs with Some o => c02_points_eqb l o | None => false end
    end.

  (* GetPointOnExtendedSpatialId / GetPointOnSpatialId *)
  Definition c02_parse (sid : bool) (id : string) : option eid :=
    if sid then match sid_to_eid_str id with Some e => parse_eid e | None => None end else parse_eid id.
  Definition c02_rowf (oracle : oracle_t) (h : Z) (lat : float) : option Z :=
    y_f (c02_ofun oracle "tan") (c02_ofun oracle "cos") (c02_ofun oracle "log") lat h.
  (* what the property says about the corner list of a valid ID *)
  Definition c02_prop_vertices (oracle : oracle_t) (i : eid) (o : list point) : bool :=
    check_vertices i o && check_rows (c02_rowf oracle (eh i)) i o.
  (* outside the grid: the voxel the helpers actually describe (column wrapped, row clamped), and the bound inside which it is judged *)
  Definition c02_norm (i : eid) : eid :=
    mk (eh i) (ex i mod 2 ^ eh i) (Z.max 0 (Z.min (ey i) (2 ^ eh i - 1))) (ev i) (ef i).
  Definition c02_ext_dom (i : eid) : bool :=
    (Z.abs (ex i) <=? 2 ^ 40)%Z && (Z.abs (ey i) <=? 2 ^ 40)%Z && (Z.abs (ef i) <=? 2 ^ 40)%Z && (- (2 ^ 16 * 2 ^ eh i) <=? ex i)%Z.
  Definition c02_skipped : verdict := mkv true true "skipped" VNil.
  Definition d_point_on_id (oracle : oracle_t) (sid : bool) (args : list val) (obs : val) : verdict :=
    match args with
    | [VS id; VZ opt] =>
        let sinhf := c02_ofun oracle "sinh" in let atanf := c02_ofun oracle "atan" in
        let m := if sid then point_on_sid_api sinhf atanf id opt else point_on_eid_api sinhf atanf id opt in
        let corr := c02_corr_points m obs in
        let out := c02_res_points m in
        match c02_parse sid id with
        | None => mkv corr (c02_err_empty obs) "-" out
        | Some i =>
            if negb (check_zoom (eh i) && check_zoom (ev i)) then mkv corr (c02_err_empty obs) "-" out
            else if negb ((opt =? 0)%Z || (opt =? 1)%Z) then mkv corr (c02_err_empty obs) "-" out
            else if negb (validb i) && negb (c02_ext_dom i) then c02_skipped
            else let j := if validb i then i else c02_norm i in      (* outside the grid: the wrapped / clamped voxel *)
                 let prop := match c02_as_points obs with
                             | None => false
                             | Some o => if (opt =? 0)%Z then c02_prop_vertices oracle j o else check_centre j o
                             end in
                 mkv corr prop "-" out
        end
    | _ => bad_case
    end.

  (* CentreRoundTrip: [id; sid?] ↦ [centre; ID of the centre at the same zooms; the eight vertices of the same ID] *)
  Definition d_roundtrip (oracle : oracle_t) (args : list val) (obs : val) : verdict :=
    match args with
    | [VS id; VB sid] =>
        let sinhf := c02_ofun oracle "sinh" in let atanf := c02_ofun oracle "atan" in
        let tanf := c02_ofun oracle "tan" in let cosf := c02_ofun oracle "cos" in let logf := c02_ofun oracle "log" in
        match c02_parse sid id with
        | None => mkv (is_err obs) (is_err obs) "-" (VE VNil)
        | Some i =>
            if negb (check_zoom (eh i) && check_zoom (ev i)) then mkv (is_err obs) (is_err obs) "-" (VE VNil)
            else if negb (validb i) && negb (c02_ext_dom i) then c02_skipped
            else
              let j := if validb i then i else c02_norm i in
              let api o := if sid then point_on_sid_api sinhf atanf id o else point_on_eid_api sinhf atanf id o in
              let model :=
                match api 1, api 0 with
                | Ok [c], Ok mv =>
                    match (if sid then points_sid_api tanf cosf logf false [c] (eh i) else points_api tanf cosf logf false [c] (eh i) (ev i)) with
                    | Ok [b] => Some (c, b, mv)
                    | _ => None
                    end
                | _, _ => None
                end in
              let mval := match model with Some (c, b, mv) => VL [c02_of_point c; VS b; c02_of_points mv] | None => VE VNil end in
              match obs with
              | VL [pc; VS ob; pv] =>
                  match c02_as_point pc, c02_as_points pv with
                  | Some oc, Some ov =>
                      let corr := match model with
                                  | Some (c, b, mv) => c02_point_eqb c oc && String.eqb b ob && c02_points_eqb mv ov
                                  | None => false end in
                      let back := if sid then match sid_to_eid_str ob with Some e => e | None => EmptyString end else ob in
                      let prop := check_roundtrip j back && check_centre j [oc] && c02_prop_vertices oracle j ov &&
                                  match ov with
                                  | p0 :: _ :: p2 :: _ => check_centre_lat (plat p0) (plat p2) (plat oc)
                                  | _ => false end in
                      mkv corr prop "-" mval
                  | _, _ => mkv false false "-" mval
                  end
              | _ => mkv false false "-" mval
              end
        end
    | _ => bad_case
    end.

  (* SharedFaces: [idA; idB; axis] with B the neighbour of A along the axis (3 = across the antimeridian) ↦ [vertices of A; vertices of B] *)
  Definition d_shared (oracle : oracle_t) (args : list val) (obs : val) : verdict :=
    match args with
    | [VS ida; VS idb; VZ axis] =>
        let sinhf := c02_ofun oracle "sinh" in let atanf := c02_ofun oracle "atan" in
        match parse_eid ida, parse_eid idb with
        | Some a, Some b =>
            if negb (validb a && validb b && neighbour_ok axis a && eid_eqb b (neighbour axis a)) then bad_case
            else
              let model := match point_on_eid_api sinhf atanf ida 0, point_on_eid_api sinhf atanf idb 0 with
                           | Ok ma, Ok mb => Some (ma, mb) | _, _ => None end in
              let mval := match model with Some (ma, mb) => VL [c02_of_points ma; c02_of_points mb] | None => VE VNil end in
              match obs with
              | VL [oa; ob] =>
                  match c02_as_points oa, c02_as_points ob with
                  | Some pa, Some pb =>
                      mkv (match model with Some (ma, mb) => c02_points_eqb ma pa && c02_points_eqb mb pb | None => false end)
                          (check_shared axis pa pb && c02_prop_vertices oracle a pa && c02_prop_vertices oracle b pb) "-" mval
                  | _, _ => mkv false false "-" mval
                  end
              | _ => mkv false false "-" mval
              end
        | _, _ => bad_case
        end
    | _ => bad_case
    end.

  (* hooks: the unexported helpers getVertexOnVoxelOffset / getCenterPointOnVoxelOffset applied to (x, y, h) and the vertical point of (f, v),
     also outside the grid (clamp of the row, wrap of the column). Judged for zooms 0..35, |x|, |y|, |f| <= 2^40, x >= -2^16 * 2^h (the wrap loop
     costs |x|/2^h turns and float64(x) is exact there); anything else is class "skipped". prop: exact longitudes of column x mod 2^h, exact altitudes,
     latitude pattern and the rows of the clamped row index. *)
  Definition c02_hook_dom (x y h f v : Z) : bool :=
    check_zoom h && check_zoom v && c02_ext_dom (mk h x y v f).
  Definition c02_hook_id (x y h f v : Z) : eid :=
    mk h (x mod 2 ^ h) (Z.max 0 (Z.min y (2 ^ h - 1))) v f.
  Definition d_vertex_hook (oracle : oracle_t) (centre_q : bool) (args : list val) (obs : val) : verdict :=
    match args with
    | [VZ x; VZ y; VZ h; VZ f; VZ v] =>
        if negb (c02_hook_dom x y h f v) then c02_skipped
        else
          let sinhf := c02_ofun oracle "sinh" in let atanf := c02_ofun oracle "atan" in
          let alt := valt f v in let res := vres v in
          let m := if centre_q then [centre sinhf atanf h x y alt res] else vertices sinhf atanf h x y alt res in
          let corr := c02_corr_points (Ok m) obs in
          let i := c02_hook_id x y h f v in
          let prop := match (if is_err obs then None else c02_as_points obs) with
                      | Some o => if centre_q then check_centre i o else c02_prop_vertices oracle i o
                      | None => false end in
          mkv corr prop "-" (c02_of_points m)
    | _ => bad_case
    end.
  Definition d_alt_hook (args : list val) (obs : val) : verdict :=
    match args with
    | [VZ f; VZ v] =>
        if negb (check_zoom v && (Z.abs f <=? 2 ^ 40)%Z) then c02_skipped
        else
          let a := valt f v in let r := vres v in
          match obs with
          | VL [VF oa; VF or] =>
              mkv (feqb_bits a oa && feqb_bits r or) (is_bottom v f oa && dy_eq or (2 ^ 25) v) "-" (VL [VF a; VF r])
          | _ => mkv false false "-" (VL [VF a; VF r])
          end
    | _ => bad_case
    end.
  (* getExtendedSpatialIdAttrs: the only property is the parse relation itself (five int64 fields or an error), so prop = corr here *)
  Definition d_attrs_hook (args : list val) (obs : val) : verdict :=
    match args with
    | [VS id] =>
        match parse_eid id with
        | None => mkv (is_err obs) (is_err obs) "-" (VE VNil)
        | Some i =>
            let m := [eh i; ex i; ey i; ev i; ef i] in
            let corr := match (if is_err obs then None else as_LZ obs) with Some o => list_eqb Z.eqb m o | None => false end in
            mkv corr corr "-" (of_LZ m)
        end
    | _ => bad_case
    end.

(* ---- totality: on well-shaped arguments every entry returns a verdict whose class is "-" or "skipped", never "bad-case" (which the runner
   reports as "the model cannot process this case"), whatever the observed value is ---- *)
  Lemma d_point_on_id_total oracle sid id opt obs : v_class (d_point_on_id oracle sid [VS id; VZ opt] obs) <> "bad-case".
  Proof.
    unfold d_point_on_id. destruct (c02_parse sid id) as [i|]; [|cbn; discriminate].
    destruct (negb (check_zoom (eh i) && check_zoom (ev i))); [cbn; discriminate|].
    destruct (negb ((opt =? 0)%Z || (opt =? 1)%Z)); [cbn; discriminate|].
    destruct (negb (validb i) && negb (c02_ext_dom i)); cbn; discriminate.
  Qed.
  Lemma d_roundtrip_total oracle id sid obs : v_class (d_roundtrip oracle [VS id; VB sid] obs) <> "bad-case".
  Proof.
    unfold d_roundtrip. destruct (c02_parse sid id) as [i|]; [|cbn; discriminate].
    destruct (negb (check_zoom (eh i) && check_zoom (ev i))); [cbn; discriminate|].
    destruct (negb (validb i) && negb (c02_ext_dom i)); [cbn; discriminate|].
    cbv zeta. destruct obs as [| | | |[|pc [|[| ob | | | | | | |] [|pv [|? ?]]]]| | | |]; try (cbn; discriminate).
    destruct (c02_as_point pc); [|cbn; discriminate]. destruct (c02_as_points pv); cbn; discriminate.
  Qed.
  Lemma d_vertex_hook_total oracle cq x y h f v obs : v_class (d_vertex_hook oracle cq [VZ x; VZ y; VZ h; VZ f; VZ v] obs) <> "bad-case".
  Proof. unfold d_vertex_hook. destruct (negb (c02_hook_dom x y h f v)); cbn; discriminate. Qed.
  Lemma d_alt_hook_total f v obs : v_class (d_alt_hook [VZ f; VZ v] obs) <> "bad-case".
  Proof.
    unfold d_alt_hook. destruct (negb (check_zoom v && (Z.abs f <=? 2 ^ 40)%Z)); [cbn; discriminate|].
    destruct obs as [| | | |[|[| |oa| | | | | |] [|[| |orr| | | | | |] [|? ?]]]| | | |]; cbn; discriminate.
  Qed.
  Lemma d_attrs_hook_total id obs : v_class (d_attrs_hook [VS id] obs) <> "bad-case".
  Proof. unfold d_attrs_hook. destruct (parse_eid id); cbn; discriminate. Qed.

(* every entry that judges one call (or one fixed composite of calls) on its own *)
Definition table_C02_base : table :=
  [("GetPointOnExtendedSpatialId", fun o => d_point_on_id o false); ("GetPointOnSpatialId", fun o => d_point_on_id o true);
   ("CentreRoundTrip", d_roundtrip); ("SharedFaces", d_shared);
   ("VertexHook", fun o => d_vertex_hook o false); ("CentreHook", fun o => d_vertex_hook o true);
   ("AltHook", fun _ => d_alt_hook); ("AttrsHook", fun _ => d_attrs_hook)].

  (* ---- histories. PointSequence: [steps], step = [function name; its arguments; mutate?]. The harness performs the steps back to back in one
     process; after a step with mutate? = true it scribbles on everything that call returned (and on the point objects it passed in); at the end it
     reads the results of the other steps once more. Observed: one [answer; answer read again at the end | Nil] per step.
     The model is a pure function of a step's own arguments (VertexProofs.history_independent), so every step is judged exactly like the
     standalone call, whatever came before; in addition an answer handed to the caller must not change afterwards (second reading = first). ---- *)
  Fixpoint c02_val_eqb (a b : val) {struct a} : bool :=
    match a, b with
    | VZ x, VZ y => (x =? y)%Z
    | VS x, VS y => String.eqb x y
    | VF x, VF y => feqb_bits x y
    | VB x, VB y => Bool.eqb x y
    | VL x, VL y => (fix go (l : list val) (m : list val) {struct l} : bool :=
                       match l, m with
                       | [], [] => true
                       | u :: l', w :: m' => c02_val_eqb u w && go l' m'
                       | _, _ => false
                       end) x y
    | VE x, VE y => c02_val_eqb x y
    | VNil, VNil => true
    | VPanic, VPanic => true
    | VTimeout, VTimeout => true
    | _, _ => false
    end.
  Definition c02_step (oracle : oracle_t) (step out : val) : verdict :=
    match step, out with
    | VL [VS fn; VL args; VB _], VL [o; again] =>
        let v := run_table table_C02_base oracle fn args o in
        let stable := match again with VNil => true | _ => c02_val_eqb again o end in
        mkv (v_corr v && stable) (v_prop v && stable) (v_class v) (VL [v_model v; VNil])
    | _, _ => bad_case
    end.
  Fixpoint c02_steps (oracle : oracle_t) (steps outs : list val) : option (list verdict) :=
    match steps, outs with
    | [], [] => Some []
    | s :: steps', o :: outs' =>
        match c02_steps oracle steps' outs' with
        | Some r => Some (c02_step oracle s o :: r)
        | None => None
        end
    | _, _ => None
    end.
  (* each step's verdict is a function of that step and of its own observed answer only: position n of the result is the standalone verdict *)
  Lemma c02_steps_stepwise oracle steps outs vs : c02_steps oracle steps outs = Some vs ->
    forall n s o, nth_error steps n = Some s -> nth_error outs n = Some o -> nth_error vs n = Some (c02_step oracle s o).
  Proof.
    revert outs vs. induction steps as [|s0 steps IH]; intros [|o0 outs] vs H n s o Hs Ho; try (destruct n; discriminate).
    cbn in H. destruct (c02_steps oracle steps outs) as [r|] eqn:E; [|discriminate]. injection H as <-.
    destruct n as [|n]; cbn in *.
    - injection Hs as <-. injection Ho as <-. reflexivity.
    - eapply IH; eauto.
  Qed.

  (* every sequence starts with this fixed, unrelated call: it puts one-entry caches of the library into a known state, so that a shrunk or
     replayed sequence behaves in a fresh process as it did in the process that found it; a sequence without it is refused (the shrinker cannot drop it) *)
  Definition c02_priming : val := VL [VS "GetPointOnExtendedSpatialId"; VL [VS "5/3/7/4/-2"; VZ 0]; VB false].
  Definition d_sequence (oracle : oracle_t) (args : list val) (obs : val) : verdict :=
    match args, obs with
    | [VL steps], VL outs =>
        if negb (match steps with first :: _ => c02_val_eqb first c02_priming | [] => false end) then bad_case else
        match c02_steps oracle steps outs with
        | Some vs =>
            match find (fun v => negb (String.eqb (v_class v) "-")) vs with
            | Some v => mkv false false (v_class v) VNil          (* a step outside its entry's domain: the whole case is refused, never a pass *)
            | None => mkv (forallb v_corr vs) (forallb v_prop vs) "-" (VL (map v_model vs))
            end
        | None => bad_case
        end
    | _, _ => bad_case
    end.

Definition table_C02 : table := (table_C02_base ++ [("PointSequence", d_sequence)])%list.
