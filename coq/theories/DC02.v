(* DC02.v — dispatch entries of property C02 (ID ↦ geometry of its voxel, tiling).
   corr = the bit-exact model (VertexF / PointF, transcendental functions answered by Go's math package) equals the observed output;
   prop = the checkers of VertexCheck.v (exact integer references, corner order, midpoint, round trip, shared faces) accept the observed output. *)
From Coq Require Import ZArith String List Bool Floats.
From SID Require Import Base Str Ids Wire F64 ExactRef PointF VertexF VertexCheck.
Import ListNotations.
Open Scope string_scope.

  Definition c02_ofun (oracle : oracle_t) (name : string) (x : float) : float :=
    match oracle name [VF x] with VF r => r | _ => nan end.
  Definition c02_of_point (p : point) : val := VL [VF (plon p); VF (plat p); VF (palt p)].
  Definition c02_of_points (l : list point) : val := VL (map c02_of_point l).
  Definition c02_as_point (v : val) : option point :=
    match v with
    | VL [VF a; VF b; VF c] => Some {| plon := a; plat := b; palt := c |}
    | _ => None
    end.
  Definition c02_as_points (v : val) : option (list point) :=
    match v with
    | VL l => all_opt (map c02_as_point l)
    | _ => None
    end.
  Definition c02_point_eqb (p q : point) : bool := point_eqb_bits p q.
  Fixpoint c02_points_eqb (a b : list point) : bool :=
    match a, b with
    | [], [] => true
    | p :: a', q :: b' => c02_point_eqb p q && c02_points_eqb a' b'
    | _, _ => false
    end.
  Definition c02_res_points (m : result (list point)) : val :=
    match m with Ok l => c02_of_points l | Err => VE VNil end.
  Definition c02_corr_points (m : result (list point)) (obs : val) : bool :=
    match m, obs with
    | Err, VE _ => true
    | Ok l, _ => match c02_as_points obs with Some o => c02_points_eqb l o | None => false end
    | _, _ => false
    end.

  (* GetPointOnExtendedSpatialId / GetPointOnSpatialId *)
  Definition c02_parse (sid : bool) (id : string) : option eid :=
    if sid then match sid_to_eid_str id with Some e => parse_eid e | None => None end else parse_eid id.
  Definition d_point_on_id (oracle : oracle_t) (sid : bool) (args : list val) (obs : val) : verdict :=
    match args with
    | [VS id; VZ opt] =>
        let sinhf := c02_ofun oracle "sinh" in let atanf := c02_ofun oracle "atan" in
        let m := if sid then point_on_sid_api sinhf atanf id opt else point_on_eid_api sinhf atanf id opt in
        let corr := c02_corr_points m obs in
        let prop :=
          match c02_parse sid id with
          | None => is_err obs
          | Some i =>
              if negb (check_zoom (eh i) && check_zoom (ev i)) then is_err obs
              else if negb ((opt =? 0)%Z || (opt =? 1)%Z) then is_err obs
              else match c02_as_points obs with
                   | None => false
                   | Some o =>
                       if validb i then (if (opt =? 0)%Z then check_vertices i o else check_centre i o)
                       else (length o =? (if (opt =? 0)%Z then 8 else 1))%nat     (* outside the grid only the shape is claimed *)
                   end
          end in
        mkv corr prop "-" (c02_res_points m)
    | _ => bad_case
    end.

  (* CentreRoundTrip: [id; sid?] ↦ [centre; ID of the centre at the same zooms] *)
  Definition d_roundtrip (oracle : oracle_t) (args : list val) (obs : val) : verdict :=
    match args with
    | [VS id; VB sid] =>
        let sinhf := c02_ofun oracle "sinh" in let atanf := c02_ofun oracle "atan" in
        let tanf := c02_ofun oracle "tan" in let cosf := c02_ofun oracle "cos" in let logf := c02_ofun oracle "log" in
        match c02_parse sid id with
        | None => mkv (is_err obs) (is_err obs) "-" (VE VNil)
        | Some i =>
            let mc := if sid then point_on_sid_api sinhf atanf id 1 else point_on_eid_api sinhf atanf id 1 in
            match mc with
            | Ok [c] =>
                let mb := if sid then points_sid_api tanf cosf logf false [c] (eh i)
                          else points_api tanf cosf logf false [c] (eh i) (ev i) in
                match mb with
                | Ok [b] =>
                    let model := VL [c02_of_point c; VS b] in
                    match obs with
                    | VL [pc; VS ob] =>
                        let corr := match c02_as_point pc with Some oc => c02_point_eqb c oc | None => false end && String.eqb b ob in
                        let back := if sid then match sid_to_eid_str ob with Some e => e | None => EmptyString end else ob in
                        let prop := if validb i
                                    then check_roundtrip i back &&
                                         match c02_as_point pc with Some oc => check_centre i [oc] | None => false end
                                    else true in
                        mkv corr prop "-" model
                    | _ => mkv false false "-" model
                    end
                | _ => mkv (is_err obs) (is_err obs) "-" (VE VNil)
                end
            | _ => mkv (is_err obs) (is_err obs) "-" (VE VNil)
            end
        end
    | _ => bad_case
    end.

  (* SharedFaces: [idA; idB; axis] with B the neighbour of A along the axis ↦ [vertices of A; vertices of B] *)
  Definition d_shared (oracle : oracle_t) (args : list val) (obs : val) : verdict :=
    match args with
    | [VS ida; VS idb; VZ axis] =>
        let sinhf := c02_ofun oracle "sinh" in let atanf := c02_ofun oracle "atan" in
        match parse_eid ida, parse_eid idb with
        | Some a, Some b =>
            if negb (validb a && validb b && eid_eqb b (neighbour axis a)) then bad_case
            else match point_on_eid_api sinhf atanf ida 0, point_on_eid_api sinhf atanf idb 0 with
                 | Ok ma, Ok mb =>
                     let model := VL [c02_of_points ma; c02_of_points mb] in
                     match obs with
                     | VL [oa; ob] =>
                         match c02_as_points oa, c02_as_points ob with
                         | Some pa, Some pb =>
                             mkv (c02_points_eqb ma pa && c02_points_eqb mb pb)
                                 (check_shared axis pa pb && check_vertices a pa && check_vertices b pb) "-" model
                         | _, _ => mkv false false "-" model
                         end
                     | _ => mkv false false "-" model
                     end
                 | _, _ => bad_case
                 end
        | _, _ => bad_case
        end
    | _ => bad_case
    end.

  (* hooks: the unexported helpers, also outside the grid (clamp / wrap branches) *)
  Definition d_vertex_hook (oracle : oracle_t) (centre_q : bool) (args : list val) (obs : val) : verdict :=
    match args with
    | [VZ x; VZ y; VZ h; VF alt; VF res] =>
        let sinhf := c02_ofun oracle "sinh" in let atanf := c02_ofun oracle "atan" in
        let m := if centre_q then [centre sinhf atanf h x y alt res] else vertices sinhf atanf h x y alt res in
        let corr := c02_corr_points (Ok m) obs in
        mkv corr corr "-" (c02_of_points m)
    | _ => bad_case
    end.
  Definition d_alt_hook (args : list val) (obs : val) : verdict :=
    match args with
    | [VZ f; VZ v] =>
        let a := valt f v in let r := vres v in
        match obs with
        | VL [VF oa; VF or] =>
            let corr := feqb_bits a oa && feqb_bits r or in
            let prop := if check_zoom v && (- 2 ^ v <=? f)%Z && (f <? 2 ^ v)%Z
                        then is_bottom v f oa && dy_eq or (2 ^ 25) v else corr in
            mkv corr prop "-" (VL [VF a; VF r])
        | _ => mkv false false "-" (VL [VF a; VF r])
        end
    | _ => bad_case
    end.
  Definition d_attrs_hook (args : list val) (obs : val) : verdict :=
    match args with
    | [VS id] =>
        match parse_eid id with
        | None => mkv (is_err obs) (is_err obs) "-" (VE VNil)
        | Some i =>
            let m := [eh i; ex i; ey i; ev i; ef i] in
            let corr := match (if is_err obs then None else as_LZ obs) with Some o => list_eqb Z.eqb m o | None => false end in
            mkv corr corr "-" (of_LZ m)
        end
    | _ => bad_case
    end.

Definition table_C02 : table :=
  [("GetPointOnExtendedSpatialId", fun o => d_point_on_id o false); ("GetPointOnSpatialId", fun o => d_point_on_id o true);
   ("CentreRoundTrip", d_roundtrip); ("SharedFaces", d_shared);
   ("VertexHook", fun o => d_vertex_hook o false); ("CentreHook", fun o => d_vertex_hook o true);
   ("AltHook", fun _ => d_alt_hook); ("AttrsHook", fun _ => d_attrs_hook)].
