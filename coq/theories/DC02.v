(* DC02.v — dispatch entries of property C02 (ID ↦ geometry) *)
From Coq Require Import ZArith String List Bool Floats.
From SID Require Import Base Str Ids Wire F64 ExactRef PointF VertexF DC01.
Import ListNotations.
Open Scope string_scope.

  Definition of_points (l : list point) : val := VL (map of_point l).
  Fixpoint points_eqb (a : list point) (b : list val) : bool :=
    match a, b with
    | [], [] => true
    | p :: a', VL [VF x; VF y; VF z] :: b' => feqb_val x (plon p) && feqb_val y (plat p) && feqb_val z (palt p) && points_eqb a' b'
    | _, _ => false
    end.
  Definition d_point_on_id (oracle : oracle_t) (sid : bool) (args : list val) (obs : val) : verdict :=
    match args with
    | [VS id; VZ opt] =>
        let sinhf := ofun oracle "sinh" in let atanf := ofun oracle "atan" in
        let m := if sid then point_on_sid_api sinhf atanf id opt else point_on_eid_api sinhf atanf id opt in
        let corr := match m, obs with
                    | Err, VE _ => true
                    | Ok l, VL o => points_eqb l o
                    | _, _ => false end in
        mkv corr corr "-" (match m with Ok l => of_points l | Err => VE VNil end)
    | _ => bad_case
    end.


Definition table_C02 : table :=
  [("GetPointOnExtendedSpatialId", fun o => d_point_on_id o false); ("GetPointOnSpatialId", fun o => d_point_on_id o true)].
