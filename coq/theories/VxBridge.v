(* VxBridge.v — toolbox for exactness proofs on Coq primitive floats (binary64) through Flocq:
   the real value of a float, "this operation did not round" lemmas for + - * /, the constants of F64.v
   (pow2f, of_Z), the executable floor, comparisons, and equality of floats from equality of values. *)
From Coq Require Import ZArith Reals Lia Lra Floats List Bool Psatz.
From Flocq Require Import Core BinarySingleNaN Mult_error.
From Flocq Require PrimFloat.
From SID Require Import F64.
Import ListNotations.
Open Scope Z_scope.

#[local] Instance Hprec : Prec_gt_0 FloatOps.prec := eq_refl _.
#[local] Instance Hmax : Prec_lt_emax FloatOps.prec FloatOps.emax := eq_refl _.
Notation b64 := (binary_float FloatOps.prec FloatOps.emax).
Notation fexp64 := (FLT_exp (-1074) 53).
Notation fmt := (generic_format radix2 fexp64).
Notation P2B := PrimFloat.Prim2B.
Notation pfloat := Coq.Floats.PrimFloat.float.

(* real value / finiteness of a primitive float *)
Definition FR (x : pfloat) : R := B2R (P2B x).
Definition Ffin (x : pfloat) : Prop := is_finite (P2B x) = true.
(* "x is the finite float whose value is r" *)
Definition isR (x : pfloat) (r : R) : Prop := FR x = r /\ Ffin x.
(* dyadic reals *)
Definition dyR (m e : Z) : R := (IZR m * bpow radix2 e)%R.

Lemma IZR_pow2 d : 0 <= d -> IZR (2 ^ d) = bpow radix2 d.
Proof. intros H. rewrite <- IZR_Zpower by exact H. reflexivity. Qed.

Lemma fmt_dy (m e : Z) : Z.abs m < 2 ^ 53 -> -1074 <= e -> fmt (dyR m e).
Proof.
  intros Hm He. apply generic_format_FLT. exists (Float radix2 m e); [reflexivity | exact Hm | exact He].
Qed.

Lemma dy_small (m e : Z) : Z.abs m < 2 ^ 53 -> e <= 900 -> (Rabs (dyR m e) < bpow radix2 FloatOps.emax)%R.
Proof.
  intros Hm He. unfold dyR. rewrite Rabs_mult, (Rabs_pos_eq (bpow radix2 e)) by apply bpow_ge_0.
  apply Rlt_le_trans with (bpow radix2 53 * bpow radix2 e)%R.
  - apply Rmult_lt_compat_r; [apply bpow_gt_0|]. rewrite <- abs_IZR. rewrite <- IZR_pow2 by lia. apply IZR_lt. exact Hm.
  - rewrite <- bpow_plus. apply bpow_le. change FloatOps.emax with 1024. lia.
Qed.

(* ---- operations that do not round ---- *)
Section Ops.
  Variables (a b : pfloat) (ra rb : R).
  Hypothesis Ha : isR a ra.
  Hypothesis Hb : isR b rb.

  Lemma mul_exact m e : (ra * rb)%R = dyR m e -> Z.abs m < 2 ^ 53 -> -1074 <= e <= 900 -> isR (a * b)%float (ra * rb).
  Proof.
    intros E Hm He. destruct Ha as [Ea Fa], Hb as [Eb Fb]. unfold isR, FR, Ffin in *.
    assert (Q : P2B (a * b)%float = @Bmult _ _ Hprec Hmax mode_NE (P2B a) (P2B b)) by exact (PrimFloat.mul_equiv a b).
    pose proof (Bmult_correct _ _ Hprec Hmax mode_NE (P2B a) (P2B b)) as H.
    rewrite Ea, Eb, E in H.
    change (SpecFloat.fexp FloatOps.prec FloatOps.emax) with fexp64 in H.
    rewrite round_generic in H; [|apply valid_rnd_round_mode|apply fmt_dy; lia].
    rewrite Rlt_bool_true in H by (apply dy_small; lia).
    destruct H as (H1 & H2 & _). rewrite Q, H1, H2, Fa, Fb, E. auto.
  Qed.

  Lemma add_exact m e : (ra + rb)%R = dyR m e -> Z.abs m < 2 ^ 53 -> -1074 <= e <= 900 -> isR (a + b)%float (ra + rb).
  Proof.
    intros E Hm He. destruct Ha as [Ea Fa], Hb as [Eb Fb]. unfold isR, FR, Ffin in *.
    assert (Q : P2B (a + b)%float = @Bplus _ _ Hprec Hmax mode_NE (P2B a) (P2B b)) by exact (PrimFloat.add_equiv a b).
    pose proof (Bplus_correct _ _ Hprec Hmax mode_NE (P2B a) (P2B b) Fa Fb) as H.
    rewrite Ea, Eb, E in H.
    change (SpecFloat.fexp FloatOps.prec FloatOps.emax) with fexp64 in H.
    rewrite round_generic in H; [|apply valid_rnd_round_mode|apply fmt_dy; lia].
    rewrite Rlt_bool_true in H by (apply dy_small; lia).
    destruct H as (H1 & H2 & _). rewrite Q, H1, H2, E. auto.
  Qed.

  Lemma sub_exact m e : (ra - rb)%R = dyR m e -> Z.abs m < 2 ^ 53 -> -1074 <= e <= 900 -> isR (a - b)%float (ra - rb).
  Proof.
    intros E Hm He. destruct Ha as [Ea Fa], Hb as [Eb Fb]. unfold isR, FR, Ffin in *.
    assert (Q : P2B (a - b)%float = @Bminus _ _ Hprec Hmax mode_NE (P2B a) (P2B b)) by exact (PrimFloat.sub_equiv a b).
    pose proof (Bminus_correct _ _ Hprec Hmax mode_NE (P2B a) (P2B b) Fa Fb) as H.
    rewrite Ea, Eb, E in H.
    change (SpecFloat.fexp FloatOps.prec FloatOps.emax) with fexp64 in H.
    rewrite round_generic in H; [|apply valid_rnd_round_mode|apply fmt_dy; lia].
    rewrite Rlt_bool_true in H by (apply dy_small; lia).
    destruct H as (H1 & H2 & _). rewrite Q, H1, H2, E. auto.
  Qed.

  Lemma div_exact m e : rb <> 0%R -> (ra / rb)%R = dyR m e -> Z.abs m < 2 ^ 53 -> -1074 <= e <= 900 -> isR (a / b)%float (ra / rb).
  Proof.
    intros Nz E Hm He. destruct Ha as [Ea Fa], Hb as [Eb Fb]. unfold isR, FR, Ffin in *.
    assert (Q : P2B (a / b)%float = @Bdiv _ _ Hprec Hmax mode_NE (P2B a) (P2B b)) by exact (PrimFloat.div_equiv a b).
    assert (Nz' : B2R (P2B b) <> 0%R) by (rewrite Eb; exact Nz).
    pose proof (Bdiv_correct _ _ Hprec Hmax mode_NE (P2B a) (P2B b) Nz') as H.
    rewrite Ea, Eb, E in H.
    change (SpecFloat.fexp FloatOps.prec FloatOps.emax) with fexp64 in H.
    rewrite round_generic in H; [|apply valid_rnd_round_mode|apply fmt_dy; lia].
    rewrite Rlt_bool_true in H by (apply dy_small; lia).
    destruct H as (H1 & H2 & _). rewrite Q, H1, H2, Fa, E. auto.
  Qed.

  (* comparisons of finite floats are comparisons of their values *)
  Lemma ltb_R : (a <? b)%float = Rlt_bool ra rb.
  Proof.
    destruct Ha as [Ea Fa], Hb as [Eb Fb]. unfold FR, Ffin in *.
    rewrite PrimFloat.ltb_equiv, Bltb_correct by assumption. now rewrite Ea, Eb.
  Qed.
  Lemma leb_R : (a <=? b)%float = Rle_bool ra rb.
  Proof.
    destruct Ha as [Ea Fa], Hb as [Eb Fb]. unfold FR, Ffin in *.
    rewrite PrimFloat.leb_equiv, Bleb_correct by assumption. now rewrite Ea, Eb.
  Qed.
  Lemma eqb_R : (a =? b)%float = Req_bool ra rb.
  Proof.
    destruct Ha as [Ea Fa], Hb as [Eb Fb]. unfold FR, Ffin in *.
    rewrite PrimFloat.eqb_equiv, Beqb_correct by assumption. now rewrite Ea, Eb.
  Qed.
End Ops.

Lemma ltb_true a b ra rb : isR a ra -> isR b rb -> (ra < rb)%R -> (a <? b)%float = true.
Proof. intros Ha Hb H. rewrite (ltb_R a b ra rb Ha Hb). now apply Rlt_bool_true. Qed.
Lemma ltb_false a b ra rb : isR a ra -> isR b rb -> (rb <= ra)%R -> (a <? b)%float = false.
Proof. intros Ha Hb H. rewrite (ltb_R a b ra rb Ha Hb). now apply Rlt_bool_false. Qed.
Lemma leb_true a b ra rb : isR a ra -> isR b rb -> (ra <= rb)%R -> (a <=? b)%float = true.
Proof. intros Ha Hb H. rewrite (leb_R a b ra rb Ha Hb). now apply Rle_bool_true. Qed.
Lemma leb_false a b ra rb : isR a ra -> isR b rb -> (rb < ra)%R -> (a <=? b)%float = false.
Proof. intros Ha Hb H. rewrite (leb_R a b ra rb Ha Hb). now apply Rle_bool_false. Qed.
Lemma eqb_false a b ra rb : isR a ra -> isR b rb -> ra <> rb -> (a =? b)%float = false.
Proof. intros Ha Hb H. rewrite (eqb_R a b ra rb Ha Hb). now apply Req_bool_false. Qed.

Lemma opp_isR a ra : isR a ra -> isR (- a)%float (- ra).
Proof.
  intros [Ea Fa]. unfold isR, FR, Ffin in *. rewrite PrimFloat.opp_equiv, B2R_Bopp, is_finite_Bopp, Ea. auto.
Qed.
Lemma abs_isR a ra : isR a ra -> isR (abs a) (Rabs ra).
Proof.
  intros [Ea Fa]. unfold isR, FR, Ffin in *. rewrite PrimFloat.abs_equiv, B2R_Babs, is_finite_Babs, Ea. auto.
Qed.

(* two finite floats with the same non-zero value are the same float *)
Lemma isR_inj a b r : isR a r -> isR b r -> r <> 0%R -> a = b.
Proof.
  intros [Ea Fa] [Eb Fb] Nz. apply PrimFloat.Prim2B_inj. unfold FR, Ffin in *.
  assert (S : forall x : b64, is_finite x = true -> B2R x <> 0%R -> is_finite_strict x = true).
  { intros [s|s| |s m e Hbd]; cbn; intros; try easy. }
  apply B2R_inj; [apply S; [exact Fa | now rewrite Ea] | apply S; [exact Fb | now rewrite Eb] | now rewrite Ea, Eb].
Qed.

(* ---- special values are excluded by finiteness ---- *)
Lemma Ffin_not_nan a : Ffin a -> Coq.Floats.PrimFloat.is_nan a = false.
Proof.
  unfold Ffin. intros H. rewrite PrimFloat.is_nan_equiv. now destruct (P2B a).
Qed.
Lemma Ffin_not_inf a : Ffin a -> Coq.Floats.PrimFloat.is_infinity a = false.
Proof.
  unfold Ffin. intros H. rewrite PrimFloat.is_infinity_equiv. now destruct (P2B a).
Qed.

(* ---- the executable floor is the real floor of the value ---- *)
Lemma floor_F2R (v e : Z) :
  Zfloor (IZR v * bpow radix2 e) =
  match e with Z0 => v | Zpos p => v * Z.pow_pos 2 p | Zneg p => v / Z.pow_pos 2 p end.
Proof.
  destruct e as [|p|p].
  - cbn. rewrite Rmult_1_r. apply Zfloor_IZR.
  - change (Z.pow_pos 2 p) with (2 ^ Zpos p). rewrite <- IZR_pow2 by lia. rewrite <- mult_IZR, Zfloor_IZR. reflexivity.
  - change (Z.pow_pos 2 p) with (2 ^ Zpos p).
    assert (Hp : 0 < 2 ^ Zpos p) by (apply Z.pow_pos_nonneg; lia).
    apply Zfloor_imp.
    pose proof (Z.div_mod v (2 ^ Zpos p) ltac:(lia)) as Hdm.
    pose proof (Z.mod_pos_bound v (2 ^ Zpos p) Hp) as Hm.
    set (q := v / 2 ^ Zpos p) in *.
    assert (E : bpow radix2 (Zneg p) = (/ IZR (2 ^ Zpos p))%R).
    { rewrite IZR_pow2 by lia. rewrite <- bpow_opp. reflexivity. }
    rewrite E. assert (Hpr : (0 < IZR (2 ^ Zpos p))%R) by (apply IZR_lt; exact Hp).
    assert (H1 : (IZR q * IZR (2 ^ Zpos p) <= IZR v)%R) by (rewrite <- mult_IZR; apply IZR_le; lia).
    assert (H2 : (IZR v < IZR (q + 1) * IZR (2 ^ Zpos p))%R) by (rewrite <- mult_IZR; apply IZR_lt; lia).
    split.
    + apply Rmult_le_reg_r with (1 := Hpr). rewrite Rmult_assoc, Rinv_l by lra. lra.
    + apply Rmult_lt_reg_r with (1 := Hpr). rewrite Rmult_assoc, Rinv_l by lra. lra.
Qed.

Theorem Zfloor_f_spec (f : pfloat) : Ffin f -> Zfloor_f f = Some (Zfloor (FR f)).
Proof.
  unfold Ffin, FR. intros Hfin. unfold Zfloor_f. rewrite <- PrimFloat.B2SF_Prim2B.
  destruct (P2B f) as [s|s| |s m e Hb]; try discriminate; cbn [B2SF B2R].
  - now rewrite Zfloor_IZR.
  - f_equal. unfold F2R. cbn [Fnum Fexp]. rewrite floor_F2R.
    destruct s; reflexivity.
Qed.
Lemma Zfloor_f_isR f r : isR f r -> Zfloor_f f = Some (Zfloor r).
Proof. intros [E F]. rewrite Zfloor_f_spec by exact F. now rewrite E. Qed.

(* ---- constants ---- *)
Lemma B2R_Prim2B x : B2R (P2B x) = SF2R radix2 (Prim2SF x).
Proof. rewrite <- SF2R_B2SF, PrimFloat.B2SF_Prim2B. reflexivity. Qed.
Lemma fin_Prim2B x : is_finite (P2B x) = is_finite_SF (Prim2SF x).
Proof. rewrite <- PrimFloat.B2SF_Prim2B. now destruct (P2B x). Qed.

(* a float given by its decomposition *)
Lemma isR_of_SF x (s : bool) m e : Prim2SF x = S754_finite s m e -> isR x (dyR (if s then Z.neg m else Z.pos m) e).
Proof.
  intros H. unfold isR, FR, Ffin. rewrite B2R_Prim2B, fin_Prim2B, H. split; [|reflexivity].
  cbn [SF2R]. unfold F2R, dyR. cbn [Fnum Fexp]. destruct s; reflexivity.
Qed.

Definition pow2_ok (k : Z) : bool :=
  match Prim2SF (pow2f k) with
  | S754_finite false m e => (Zpos m =? 2 ^ 52) && (e =? k - 52)
  | _ => false
  end.
Definition krange : list Z := map (fun n => Z.of_nat n - 10) (seq 0 47).      (* -10 .. 36 *)
Lemma pow2_all : forallb pow2_ok krange = true.
Proof. vm_compute. reflexivity. Qed.
Lemma in_krange k : -10 <= k <= 36 -> In k krange.
Proof. intros H. unfold krange. apply in_map_iff. exists (Z.to_nat (k + 10)). split; [lia|]. apply in_seq. lia. Qed.

Lemma pow2f_isR k : -10 <= k <= 36 -> isR (pow2f k) (bpow radix2 k).
Proof.
  intros Hk. pose proof (proj1 (forallb_forall _ _) pow2_all k (in_krange k Hk)) as H.
  unfold pow2_ok in H.
  destruct (Prim2SF (pow2f k)) as [s|s| |s m e] eqn:E; try discriminate. destruct s; [discriminate|].
  apply andb_true_iff in H. destruct H as [Hm He]. apply Z.eqb_eq in Hm, He.
  pose proof (isR_of_SF _ _ _ _ E) as [V F]. split; [|exact F].
  rewrite V. unfold dyR. rewrite Hm, He, IZR_pow2 by lia. rewrite <- bpow_plus. f_equal. lia.
Qed.

(* float64(int64) is exact below 2^53 *)
Lemma of_uint63_isR z : 0 <= z < 2 ^ 53 -> isR (of_uint63 (Uint63.of_Z z)) (IZR z).
Proof.
  intros Hz. unfold isR, FR, Ffin.
  assert (Q : P2B (of_uint63 (Uint63.of_Z z)) =
              binary_normalize FloatOps.prec FloatOps.emax Hprec Hmax mode_NE (Uint63.to_Z (Uint63.of_Z z)) 0 false)
    by exact (PrimFloat.of_int63_equiv (Uint63.of_Z z)).
  assert (T : Uint63.to_Z (Uint63.of_Z z) = z).
  { rewrite Uint63.of_Z_spec. apply Z.mod_small. change Uint63.wB with (2 ^ 63).
    assert (2 ^ 53 < 2 ^ 63) by (apply Z.pow_lt_mono_r; lia). lia. }
  rewrite T in Q.
  pose proof (binary_normalize_correct FloatOps.prec FloatOps.emax Hprec Hmax mode_NE z 0 false) as H.
  cbv zeta in H.
  assert (V : F2R (Float radix2 z 0) = dyR z 0) by reflexivity.
  rewrite V in H.
  change (SpecFloat.fexp FloatOps.prec FloatOps.emax) with fexp64 in H.
  rewrite round_generic in H; [|apply valid_rnd_round_mode|apply fmt_dy; lia].
  rewrite Rlt_bool_true in H by (apply dy_small; lia).
  destruct H as (H1 & H2 & _). rewrite Q, H1, H2. split; [|reflexivity]. unfold dyR. cbn. ring.
Qed.

Lemma of_Z_isR z : Z.abs z < 2 ^ 53 -> isR (of_Z z) (IZR z).
Proof.
  intros Hz. destruct z as [|p|p].
  - unfold of_Z. split; [vm_compute; reflexivity | vm_compute; reflexivity].
  - unfold of_Z. apply of_uint63_isR. lia.
  - unfold of_Z. change (IZR (Z.neg p)) with (IZR (- Z.pos p)). rewrite opp_IZR. apply opp_isR. apply of_uint63_isR. lia.
Qed.

(* small integer constants written as literals *)
Lemma lit_isR (c : pfloat) (z : Z) : Z.abs z < 2 ^ 53 -> c = of_Z z -> isR c (IZR z).
Proof. intros H ->. now apply of_Z_isR. Qed.

(* dyadic forms used everywhere *)
Lemma dyR_int z : IZR z = dyR z 0.
Proof. unfold dyR. cbn. ring. Qed.
Lemma dyR_div m k : 0 <= k -> (IZR m / IZR (2 ^ k))%R = dyR m (- k).
Proof. intros Hk. unfold dyR. rewrite IZR_pow2 by exact Hk. rewrite bpow_opp. reflexivity. Qed.
Lemma dyR_mul m k : 0 <= k -> (IZR m * IZR (2 ^ k))%R = dyR m k.
Proof. intros Hk. unfold dyR. now rewrite IZR_pow2. Qed.
Lemma pow2R_pos k : 0 <= k -> (0 < IZR (2 ^ k))%R.
Proof. intros H. apply IZR_lt. apply Z.pow_pos_nonneg; lia. Qed.
