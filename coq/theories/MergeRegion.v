(* MergeRegion.v — the merge read on regions of space (Voxel.inR): the set-level specification S, the glue
   `merge ≡ S` for every input list, region equality, and the statement-level corollaries of property C04. *)
From Coq Require Import ZArith Reals Lia Lra List Bool Permutation.
From Flocq Require Import Core.
From SID Require Import Base Str Ids Voxel ZoomCore Merge MergeCheck MergeProof.
Import ListNotations.
Open Scope Z_scope.

(* ---- points and unit cells ---- *)
Definition cell_of (MH MV : Z) (p : pt) : eid :=
  let '(u, w, a) := p in
  {| eh := MH; ex := Zfloor (bpow radix2 MH * u); ey := Zfloor (bpow radix2 MH * w);
     ev := MV; ef := Zfloor (bpow radix2 MV * a) |}.

Lemma inR_units MH MV i p : 0 <= eh i <= MH -> 0 <= ev i <= MV ->
  (inR i p <-> In (cell_of MH MV p) (units MH MV i)).
Proof.
  intros Hh Hv. destruct p as [[u w] a]. rewrite in_units by lia. unfold cell_of, inR. cbn [eh ex ey ev ef].
  rewrite (nested_floor u (eh i) MH), (nested_floor w (eh i) MH), (nested_floor a (ev i) MV) by lia.
  tauto.
Qed.

(* a point inside a given cell: its lower corner *)
Definition corner (c : eid) : pt :=
  ((IZR (ex c) * bpow radix2 (- eh c))%R, (IZR (ey c) * bpow radix2 (- eh c))%R, (IZR (ef c) * bpow radix2 (- ev c))%R).
Lemma floor_corner z n : Zfloor (bpow radix2 z * (IZR n * bpow radix2 (- z))) = n.
Proof.
  replace (bpow radix2 z * (IZR n * bpow radix2 (- z)))%R with (IZR n * (bpow radix2 z * bpow radix2 (- z)))%R by ring.
  rewrite <- bpow_plus. replace (z + - z) with 0 by lia. cbn. rewrite Rmult_1_r. apply Zfloor_IZR.
Qed.
Lemma cell_of_corner c : cell_of (eh c) (ev c) (corner c) = c.
Proof. destruct c as [h x y v f]. unfold cell_of, corner. cbn [eh ex ey ev ef]. now rewrite !floor_corner. Qed.
Lemma inR_corner c : inR c (corner c).
Proof. destruct c as [h x y v f]. unfold inR, corner. cbn [eh ex ey ev ef]. now rewrite !floor_corner. Qed.

(* a voxel is determined by its zooms and any one of its points *)
Lemma inR_unique T T' p : eh T = eh T' -> ev T = ev T' -> inR T p -> inR T' p -> T = T'.
Proof.
  destruct T as [h x y v f], T' as [h' x' y' v' f'], p as [[u w] a]. unfold inR. cbn [eh ex ey ev ef].
  intros -> -> (A & B & C) (A' & B' & C'). congruence.
Qed.

(* covering by unit cells = covering by points, for any family of voxels whose zooms are dominated by (MH, MV) *)
Lemma cover_cells_points MH MV (P : eid -> Prop) T :
  0 <= eh T <= MH -> 0 <= ev T <= MV ->
  (forall j, P j -> 0 <= eh j <= MH /\ 0 <= ev j <= MV) ->
  ((forall c, In c (units MH MV T) -> exists j, P j /\ In c (units MH MV j)) <->
   (forall p, inR T p -> exists j, P j /\ inR j p)).
Proof.
  intros TH TV HP. split.
  - intros F p Hp. apply (inR_units MH MV) in Hp; [|exact TH|exact TV].
    destruct (F _ Hp) as (j & Hj & Hc). exists j. split; [exact Hj|].
    destruct (HP j Hj). now apply (inR_units MH MV).
  - intros F c Hc. pose proof Hc as Hc'. apply in_units in Hc'; [|lia|lia].
    destruct Hc' as (E1 & E2 & _).
    assert (EC : cell_of MH MV (corner c) = c) by (rewrite <- E1, <- E2; apply cell_of_corner).
    assert (Hp : inR T (corner c)).
    { apply (inR_units MH MV); [exact TH|exact TV|]. now rewrite EC. }
    destruct (F _ Hp) as (j & Hj & Hjp). exists j. split; [exact Hj|].
    destruct (HP j Hj). apply (inR_units MH MV) in Hjp; [|assumption|assumption]. now rewrite EC in Hjp.
Qed.

(* ---- the specification of merging, on sets of voxels and regions of space ---- *)
Section SetSpec.
  Variables H V : Z.
  (* equal or finer than the target on both axes *)
  Definition elig (i : eid) : Prop := H <= eh i /\ V <= ev i.
  (* the voxel T is completely filled by members of `ids` of equal or finer zoom *)
  Definition fullS (ids : eid -> Prop) (T : eid) : Prop :=
    forall p, inR T p -> exists j, ids j /\ elig j /\ inR j p.
  (* what merging must return: ineligible inputs unchanged; the target voxel of an eligible input if it is completely filled;
     the eligible input itself otherwise *)
  Definition S (ids : eid -> Prop) (o : eid) : Prop :=
    (ids o /\ ~ elig o) \/
    (exists i, ids i /\ elig i /\ tgt H V i = o /\ fullS ids o) \/
    (ids o /\ elig o /\ ~ fullS ids (tgt H V o)).

  Lemma eligible_elig i : eligible H V i = true <-> elig i.
  Proof. unfold eligible, elig. now rewrite andb_true_iff, !Z.leb_le. Qed.
  Lemma eligible_false i : eligible H V i = false <-> ~ elig i.
  Proof. rewrite <- eligible_elig. destruct (eligible H V i); split; congruence. Qed.

  Hypothesis H0 : 0 <= H.
  Hypothesis V0 : 0 <= V.

  (* a point of an eligible voxel lies in its ancestor at the target zooms *)
  Lemma inR_tgt i p : elig i -> inR i p -> inR (tgt H V i) p.
  Proof.
    intros [A B]. destruct p as [[u w] a]. unfold inR, tgt. cbn [eh ex ey ev ef]. intros (X & Y & F).
    rewrite (nested_floor u H (eh i)), (nested_floor w H (eh i)), (nested_floor a V (ev i)) by lia.
    rewrite X, Y, F. tauto.
  Qed.
  Lemma tgt_of_point T j p : eh T = H -> ev T = V -> elig j -> inR j p -> inR T p -> tgt H V j = T.
  Proof.
    intros E1 E2 Ej Hj HT. apply (inR_unique _ _ p); [now rewrite E1|now rewrite E2|now apply inR_tgt|exact HT].
  Qed.
  Lemma tgt_elig i : elig (tgt H V i).
  Proof. unfold elig, tgt. cbn. lia. Qed.
  Lemma tgt_at_zoom T : eh T = H -> ev T = V -> tgt H V T = T.
  Proof. intros E1 E2. destruct T as [h x y v f]. cbn in *. subst. unfold tgt. cbn [eh ex ey ev ef]. rewrite !Z.sub_diag, !anc_0. reflexivity. Qed.
  Lemma tgt_tgt i : tgt H V (tgt H V i) = tgt H V i.
  Proof. apply tgt_at_zoom; reflexivity. Qed.

  Lemma fullS_ext (P Q : eid -> Prop) T : (forall j, P j <-> Q j) -> (fullS P T <-> fullS Q T).
  Proof.
    intros E. split; intros F p Hp; destruct (F p Hp) as (j & A & B & C); exists j; (split; [now apply E|tauto]).
  Qed.
  Lemma S_ext (P Q : eid -> Prop) o : (forall j, P j <-> Q j) -> (S P o <-> S Q o).
  Proof.
    intros E. unfold S. rewrite (E o), (fullS_ext P Q (tgt H V o) E).
    assert (X : (exists i, P i /\ elig i /\ tgt H V i = o /\ fullS P o) <-> (exists i, Q i /\ elig i /\ tgt H V i = o /\ fullS Q o)).
    { split; intros (i & A & B & C & D); exists i; (split; [now apply E|]); (split; [exact B|]); (split; [exact C|]); now apply (fullS_ext P Q o E). }
    rewrite X. tauto.
  Qed.
End SetSpec.

Section Glue.
  Variable ord : list eid -> list eid.
  Hypothesis ord_perm : forall l, Permutation (ord l) l.
  Variables H V : Z.
  Hypothesis H0 : 0 <= H.
  Hypothesis V0 : 0 <= V.
  Variable ids : list eid.
  Hypothesis ids_wf : forall i, In i ids -> wfz i.

  Let MH := maxz eh ids.
  Let MV := maxz ev ids.
  Notation inI := (fun i => In i ids).

  (* the integer-level covering used by the algorithm is the covering of the region *)
  Lemma full_fullS i : In i (el H V ids) -> (full H V ids (tgt H V i) <-> fullS H V inI (tgt H V i)).
  Proof.
    intros Hi. pose proof Hi as Hi'. apply el_In in Hi'. destruct Hi' as (Hin & Hh & Hv).
    destruct (ids_wf i Hin) as (Zh & Zv & _). pose proof (maxz_ge eh ids i Hin). pose proof (maxz_ge ev ids i Hin).
    set (T := tgt H V i).
    assert (TH : 0 <= eh T <= MH) by (unfold T, MH; cbn; lia).
    assert (TV : 0 <= ev T <= MV) by (unfold T, MV; cbn; lia).
    assert (HP : forall j, In j (group H V (el H V ids) T) -> 0 <= eh j <= MH /\ 0 <= ev j <= MV).
    { intros j Hj. apply (grp_In H V ids ids_wf) in Hj. destruct Hj as [Hj _]. apply el_In in Hj. destruct Hj as (Hjin & _ & _).
      destruct (ids_wf j Hjin) as (? & ? & _). pose proof (maxz_ge eh ids j Hjin). pose proof (maxz_ge ev ids j Hjin). unfold MH, MV. lia. }
    pose proof (cover_cells_points MH MV (fun j => In j (group H V (el H V ids) T)) T TH TV HP) as CP.
    unfold full. fold MH MV. split.
    - intros F p Hp.
      assert (F' : forall c, In c (units MH MV T) -> exists j, In j (group H V (el H V ids) T) /\ In c (units MH MV j)).
      { intros c Hc. apply F in Hc. apply in_flat_map in Hc. exact Hc. }
      destruct (proj1 CP F' p Hp) as (j & Hj & Hjp). apply (grp_In H V ids ids_wf) in Hj. destruct Hj as [Hj _].
      apply el_In in Hj. exists j. unfold elig. tauto.
    - intros F c Hc. apply in_flat_map. apply (proj2 CP); [|exact Hc].
      intros p Hp. destruct (F p Hp) as (j & Hj & Ej & Hjp). exists j. split; [|exact Hjp].
      apply (grp_In H V ids ids_wf). split; [apply el_In; unfold elig in Ej; tauto|].
      apply (tgt_of_point H V H0 V0 T j p); auto.
  Qed.

  (* C04, glue: for every input list the model returns exactly the specification set *)
  Theorem merge_is_S o : In o (merge ord H V ids) <-> S H V inI o.
  Proof.
    rewrite (merge_spec_int ord ord_perm H V ids ids_wf). unfold S. rewrite eligible_false. split.
    - intros [A|[(i & Hi & E & F)|[Ho NF]]].
      + left. exact A.
      + right; left. exists i. pose proof Hi as Hi'. apply el_In in Hi'. unfold elig. repeat split; try tauto.
        rewrite <- E. apply (full_fullS i Hi). now rewrite E.
      + right; right. pose proof Ho as Ho'. apply el_In in Ho'. unfold elig. repeat split; try tauto.
        intros F. apply NF. now apply (full_fullS o Ho).
    - intros [A|[(i & Hi & Ei & E & F)|(Ho & Eo & NF)]].
      + left. exact A.
      + right; left. assert (Hel : In i (el H V ids)) by (apply el_In; unfold elig in Ei; tauto).
        exists i. repeat split; auto. rewrite <- E. apply (full_fullS i Hel). now rewrite E.
      + right; right. assert (Hel : In o (el H V ids)) by (apply el_In; unfold elig in Eo; tauto).
        split; [exact Hel|]. intros F. apply NF. now apply (full_fullS o Hel).
  Qed.

  (* "completely filled" is decidable for the targets of the input *)
  Lemma fullS_dec i : In i ids -> elig H V i -> fullS H V inI (tgt H V i) \/ ~ fullS H V inI (tgt H V i).
  Proof.
    intros Hi Ei. assert (Hel : In i (el H V ids)) by (apply el_In; unfold elig in Ei; tauto).
    destruct (full_dec H V ids ids_wf (tgt H V i)) as [F|NF]; [exists i; auto| |].
    - left. now apply (full_fullS i Hel).
    - right. intros F. apply NF. now apply (full_fullS i Hel).
  Qed.

  (* C04: merging never changes the covered region *)
  Theorem merge_region p :
    (exists o, In o (merge ord H V ids) /\ inR o p) <-> (exists i, In i ids /\ inR i p).
  Proof.
    split.
    - intros (o & Ho & Hp). apply merge_is_S in Ho.
      destruct Ho as [[Ho _]|[(i & Hi & Ei & <- & F)|(Ho & _)]].
      + exists o. auto.
      + destruct (F p Hp) as (j & Hj & _ & Hjp). exists j. auto.
      + exists o. auto.
    - intros (i & Hi & Hp). destruct (eligible H V i) eqn:E.
      + apply eligible_elig in E. destruct (fullS_dec i Hi E) as [F|NF].
        * exists (tgt H V i). split; [|now apply inR_tgt].
          apply merge_is_S. right; left. exists i. auto.
        * exists i. split; [|exact Hp]. apply merge_is_S. right; right. auto.
      + apply eligible_false in E. exists i. split; [|exact Hp]. apply merge_is_S. left. auto.
  Qed.

  (* ---- the property, clause by clause ---- *)
  (* every input that is coarser than the target on some axis is returned unchanged *)
  Corollary merge_keeps_ineligible i : In i ids -> ~ elig H V i -> In i (merge ord H V ids).
  Proof. intros Hi N. apply merge_is_S. left. auto. Qed.
  (* every completely filled target voxel is returned, and the inputs it replaces are not (unless the input is that voxel itself) *)
  Corollary merge_replaces_filled i : In i ids -> elig H V i -> fullS H V inI (tgt H V i) ->
    In (tgt H V i) (merge ord H V ids) /\ (i <> tgt H V i -> ~ In i (merge ord H V ids)).
  Proof.
    intros Hi Ei F. split.
    - apply merge_is_S. right; left. exists i. auto.
    - intros Ne Ho. apply merge_is_S in Ho. destruct Ho as [[_ N]|[(j & _ & _ & E & _)|(_ & _ & NF)]]; try contradiction.
      apply Ne. rewrite <- E. symmetry. apply tgt_tgt.
  Qed.
  (* every member of an incompletely filled target voxel is returned unchanged, and that target voxel is not produced
     (unless it is itself an input that is returned unchanged) *)
  Corollary merge_keeps_unfilled i : In i ids -> elig H V i -> ~ fullS H V inI (tgt H V i) -> In i (merge ord H V ids).
  Proof. intros Hi Ei NF. apply merge_is_S. right; right. auto. Qed.
  (* nothing else is returned: every output is an input or the filled target voxel of an input *)
  Corollary merge_only o : In o (merge ord H V ids) ->
    In o ids \/ exists i, In i ids /\ elig H V i /\ o = tgt H V i /\ fullS H V inI o.
  Proof.
    intros Ho. apply merge_is_S in Ho. destruct Ho as [[Ho _]|[(i & Hi & Ei & E & F)|(Ho & _)]]; auto.
    right. exists i. auto.
  Qed.

  Lemma tgt_wfz i : wfz i -> elig H V i -> wfz (tgt H V i).
  Proof.
    intros (A & B & C & D) [Eh Ev]. unfold wfz, tgt, anc. cbn [eh ex ey ev ef].
    pose proof (pow2_pos (eh i - H) ltac:(lia)). repeat split; try lia; apply Z.div_pos; lia.
  Qed.
  Lemma merge_wfz o : In o (merge ord H V ids) -> wfz o.
  Proof.
    intros Ho. destruct (merge_only o Ho) as [Hi|(i & Hi & Ei & -> & _)]; [now apply ids_wf|].
    apply tgt_wfz; [now apply ids_wf|exact Ei].
  Qed.
End Glue.

(* outputs of valid inputs are valid IDs *)
Lemma tgt_valid H V i : 0 <= H -> 0 <= V -> valid i -> elig H V i -> valid (tgt H V i).
Proof.
  intros H0 V0 (Hh & Hv & Hx & Hy & Hf) [Eh Ev]. unfold valid, tgt. cbn [eh ex ey ev ef].
  pose proof (anc_range (eh i - H) (eh i) (ex i) ltac:(lia) Hx) as X.
  pose proof (anc_range (eh i - H) (eh i) (ey i) ltac:(lia) Hy) as Y.
  pose proof (anc_range_signed (ev i - V) (ev i) (ef i) ltac:(lia) Hf) as F.
  replace (eh i - (eh i - H)) with H in * by lia. replace (ev i - (ev i - V)) with V in * by lia.
  repeat split; lia.
Qed.
Theorem merge_valid ord (ord_perm : forall l, Permutation (ord l) l) H V ids :
  0 <= H -> 0 <= V -> (forall i, In i ids -> valid i) -> forall o, In o (merge ord H V ids) -> valid o.
Proof.
  intros H0 V0 Hv o Ho.
  destruct (merge_only ord ord_perm H V H0 V0 ids (fun i Hi => valid_wfz i (Hv i Hi)) o Ho) as [Hi|(i & Hi & Ei & -> & _)]; [now apply Hv|].
  apply tgt_valid; auto.
Qed.

(* why the floor matters (the defect repaired by 27792ec): Go's truncating division sends the vertical index -1 to 0, and the
   voxel 1/0/0/0/0 it would name as "ancestor" shares no point with 1/0/0/1/-1 — fusing them changes the covered region;
   the floor ancestor 1/0/0/0/-1 contains it *)
Theorem truncation_refuted :
  Z.quot (-1) (2 ^ 1) = 0 /\ anc 1 (-1) = -1 /\
  (forall p, inR (mk 1 0 0 1 (-1)) p -> ~ inR (mk 1 0 0 0 0) p) /\
  (forall p, inR (mk 1 0 0 1 (-1)) p -> inR (mk 1 0 0 0 (-1)) p).
Proof.
  split; [reflexivity|]. split; [reflexivity|]. split.
  - intros [[u w] a]. unfold inR, mk. cbn [eh ex ey ev ef]. intros (_ & _ & F) (_ & _ & G).
    rewrite (nested_floor a 0 1) in G by lia. rewrite F in G. discriminate.
  - intros [[u w] a]. unfold inR, mk. cbn [eh ex ey ev ef]. intros (X & Y & F).
    rewrite (nested_floor a 0 1) by lia. rewrite F. repeat split; auto.
Qed.
