(* PointSetters.v — object.Point as an object: SetLon / SetLat / SetAlt (common/object/coordinate.go) as functions on the stored triple,
   their frame laws (each setter writes its own field only; a refused value leaves the object unchanged; SetAlt stores the bits unchanged
   and cannot fail), NewPoint as the composition of the three setters on the zero object, arbitrary setter sequences, and the string
   returned by getVerticalTileIdOnAltitude (hook VerifGetVerticalTileIdOnAltitude) on top of PointF.f_f. *)
From Coq Require Import ZArith Reals Lia Lra Floats List Bool String.
From Flocq Require Import Core.
From SID Require Import Base Str Ids F64 ExactRef PointF PtBridge FF XF SetLatProofs.
Import ListNotations.
Open Scope Z_scope.

(* ---- the three setters: new object state and the error flag ---- *)
Definition set_lon (p : point) (lon : pfloat) : point * bool :=
  if (180 <? abs lon)%float then (p, true) else ({| plon := lon; plat := plat p; palt := palt p |}, false).
Definition set_lat (p : point) (lat : pfloat) : point * bool :=
  let l := setlat_trunc lat in
  if (c_latmax <? abs l)%float then (p, true) else ({| plon := plon p; plat := l; palt := palt p |}, false).
Definition set_alt (p : point) (alt : pfloat) : point := {| plon := plon p; plat := plat p; palt := alt |}.

(* ---- SetAlt: stores the argument unchanged (the same float, hence the same bits, NaN and -0 included), touches nothing else,
        cannot fail; the last write wins; it commutes with the other two setters ---- *)
Lemma feqb_bits_refl a : feqb_bits a a = true.
Proof.
  unfold feqb_bits. destruct (Prim2SF a) as [s|s| |s m e]; try reflexivity.
  - apply Bool.eqb_reflx.
  - apply Bool.eqb_reflx.
  - rewrite Bool.eqb_reflx, Pos.eqb_refl, Z.eqb_refl. reflexivity.
Qed.
Theorem set_alt_frame p alt :
  palt (set_alt p alt) = alt /\ feqb_bits (palt (set_alt p alt)) alt = true /\
  plon (set_alt p alt) = plon p /\ plat (set_alt p alt) = plat p.
Proof. cbn. rewrite feqb_bits_refl. auto. Qed.
Theorem set_alt_last_wins p a b : set_alt (set_alt p a) b = set_alt p b.
Proof. reflexivity. Qed.
Theorem set_alt_commutes_lon p a lon : fst (set_lon (set_alt p a) lon) = set_alt (fst (set_lon p lon)) a /\
                                        snd (set_lon (set_alt p a) lon) = snd (set_lon p lon).
Proof. unfold set_lon. destruct (180 <? abs lon)%float; cbn; auto. Qed.
Theorem set_alt_commutes_lat p a lat : fst (set_lat (set_alt p a) lat) = set_alt (fst (set_lat p lat)) a /\
                                        snd (set_lat (set_alt p a) lat) = snd (set_lat p lat).
Proof. unfold set_lat. cbv zeta. destruct (c_latmax <? abs (setlat_trunc lat))%float; cbn; auto. Qed.

(* ---- SetLon: accepted iff not (|lon| > 180); accepted: the bits are stored, lat and alt untouched; refused: object unchanged ---- *)
Theorem set_lon_frame p lon :
  (snd (set_lon p lon) = false -> plon (fst (set_lon p lon)) = lon /\ plat (fst (set_lon p lon)) = plat p /\ palt (fst (set_lon p lon)) = palt p) /\
  (snd (set_lon p lon) = true -> fst (set_lon p lon) = p) /\
  snd (set_lon p lon) = (180 <? abs lon)%float.
Proof. unfold set_lon. destruct (180 <? abs lon)%float; cbn; repeat split; auto; discriminate. Qed.
(* on finite longitudes the refusal is the real-number comparison of the documentation *)
Theorem set_lon_refuses_iff p lon : ffin lon = true -> snd (set_lon p lon) = true <-> (180 < Rabs (fval lon))%R.
Proof.
  intros Fl. destruct (set_lon_frame p lon) as (_ & _ & ->). destruct c180_val as [V F]. destruct (abs_val lon) as [Va Fa].
  rewrite (ltb_val 180 (abs lon) F ltac:(rewrite Fa; exact Fl)), V, Va.
  destruct (Rlt_bool_spec 180 (Rabs (fval lon))); split; intros; try discriminate; try reflexivity; lra.
Qed.

(* ---- SetLat: the value is first cut to ten decimals (setlat_trunc, as modelled in F64.v), then refused iff the CUT value exceeds
        85.0511287798; accepted: the cut value is stored, lon and alt untouched; refused: object unchanged ---- *)
Theorem set_lat_frame p lat :
  (snd (set_lat p lat) = false -> plat (fst (set_lat p lat)) = setlat_trunc lat /\ plon (fst (set_lat p lat)) = plon p /\ palt (fst (set_lat p lat)) = palt p) /\
  (snd (set_lat p lat) = true -> fst (set_lat p lat) = p) /\
  snd (set_lat p lat) = (c_latmax <? abs (setlat_trunc lat))%float.
Proof. unfold set_lat. cbv zeta. destruct (c_latmax <? abs (setlat_trunc lat))%float; cbn; repeat split; auto; discriminate. Qed.
(* what is stored is within [-2^-46, 1e-10 + 2^-46] of the request, in absolute value (SetLatProofs.setlat_cut_bounds) *)
Theorem set_lat_stored_cut p lat : ffin lat = true -> (Rabs (fval lat) <= 90)%R -> snd (set_lat p lat) = false ->
  (- bpow radix2 (-46) <= Rabs (fval lat) - Rabs (fval (plat (fst (set_lat p lat)))) <= 1 / 10 ^ 10 + bpow radix2 (-46))%R.
Proof.
  intros Fl Hl Ok. destruct (set_lat_frame p lat) as (A & _ & _). destruct (A Ok) as (-> & _). now apply setlat_cut_bounds.
Qed.

(* ---- NewPoint = SetLon; SetLat; SetAlt on the zero object, stopping at the first refusal (the partially filled object is returned) ---- *)
Theorem new_point_is_setters lon lat alt :
  new_point lon lat alt =
  let '(p1, e1) := set_lon zero_point lon in
  if e1 then (p1, true)
  else let '(p2, e2) := set_lat p1 lat in
       if e2 then (p2, true) else (set_alt p2 alt, false).
Proof.
  unfold new_point, set_lon, set_lat, set_alt. destruct (180 <? abs lon)%float; [reflexivity|].
  cbv zeta. destruct (c_latmax <? abs (setlat_trunc lat))%float; reflexivity.
Qed.

(* ---- setter sequences in any order ---- *)
Inductive setter := SLon (x : pfloat) | SLat (x : pfloat) | SAlt (x : pfloat).
Definition step (p : point) (s : setter) : point * bool :=
  match s with SLon x => set_lon p x | SLat x => set_lat p x | SAlt x => (set_alt p x, false) end.
(* final object and the error flag of every call, in order *)
Fixpoint run_setters (p : point) (l : list setter) : point * list bool :=
  match l with
  | [] => (p, [])
  | s :: r => let '(q, e) := step p s in let '(z, es) := run_setters q r in (z, e :: es)
  end.
Definition touches_alt (s : setter) : bool := match s with SAlt _ => true | _ => false end.
Definition touches_lon (s : setter) : bool := match s with SLon _ => true | _ => false end.
Definition touches_lat (s : setter) : bool := match s with SLat _ => true | _ => false end.

Lemma step_frame p s :
  (touches_lon s = false -> plon (fst (step p s)) = plon p) /\
  (touches_lat s = false -> plat (fst (step p s)) = plat p) /\
  (touches_alt s = false -> palt (fst (step p s)) = palt p).
Proof.
  destruct s as [x|x|x]; cbn [step touches_lon touches_lat touches_alt].
  - unfold set_lon. destruct (180 <? abs x)%float; cbn; repeat split; auto; discriminate.
  - unfold set_lat. cbv zeta. destruct (c_latmax <? abs (setlat_trunc x))%float; cbn; repeat split; auto; discriminate.
  - cbn. repeat split; auto; discriminate.
Qed.
(* a sequence that contains no call of a setter leaves that field exactly as it was, whatever else is called and refused *)
Theorem run_setters_frame l : forall p,
  (forallb (fun s => negb (touches_lon s)) l = true -> plon (fst (run_setters p l)) = plon p) /\
  (forallb (fun s => negb (touches_lat s)) l = true -> plat (fst (run_setters p l)) = plat p) /\
  (forallb (fun s => negb (touches_alt s)) l = true -> palt (fst (run_setters p l)) = palt p).
Proof.
  induction l as [|s r IH]; intros p; [cbn; auto|].
  cbn [run_setters forallb]. destruct (step p s) as [q e] eqn:E. specialize (IH q).
  destruct (run_setters q r) as [z es]. cbn [fst] in *.
  pose proof (step_frame p s) as (F1 & F2 & F3). rewrite E in F1, F2, F3. cbn [fst] in *.
  destruct IH as (I1 & I2 & I3). rewrite !andb_true_iff, !negb_true_iff.
  repeat split; intros [A B]; [rewrite (I1 B) | rewrite (I2 B) | rewrite (I3 B)]; auto.
Qed.
(* the altitude after a sequence is the argument of the LAST SetAlt in it (SetAlt is never refused) *)
Theorem run_setters_last_alt l1 a l2 p :
  forallb (fun s => negb (touches_alt s)) l2 = true -> palt (fst (run_setters p (l1 ++ SAlt a :: l2))) = a.
Proof.
  revert p. induction l1 as [|s r IH]; intros p H2.
  - cbn [app run_setters step]. destruct (run_setters (set_alt p a) l2) as [z es] eqn:E. cbn [fst].
    pose proof (run_setters_frame l2 (set_alt p a)) as (_ & _ & F). rewrite E in F. cbn [fst] in F. now rewrite (F H2).
  - cbn [app run_setters]. destruct (step p s) as [q e]. specialize (IH q H2).
    destruct (run_setters q (r ++ SAlt a :: l2)) as [z es]. exact IH.
Qed.
(* one flag per call, in order *)
Theorem run_setters_flags l p : List.length (snd (run_setters p l)) = List.length l.
Proof.
  revert p. induction l as [|s r IH]; intros p; [reflexivity|]. cbn [run_setters]. destruct (step p s) as [q e].
  specialize (IH q). destruct (run_setters q r) as [z es]. cbn in *. now rewrite IH.
Qed.

(* ---- getVerticalTileIdOnAltitude: "vZoom/f" ---- *)
Definition vertical_tile_id (alt : pfloat) (v : Z) : option string :=
  match f_f alt v with Some f => Some (join [print v; print f]) | None => None end.
Theorem vertical_tile_id_exact alt v : 0 <= v <= 35 -> ffin alt = true -> (Rabs (fval alt) <= bpow radix2 40)%R -> ~ alt_underflow alt v ->
  vertical_tile_id alt v = Some (join [print v; print (F_exact v (fval alt))]).
Proof. intros Hv Fa Ha Hu. unfold vertical_tile_id. now rewrite (f_f_exact alt v Hv Fa Ha Hu). Qed.
(* the string splits back into the zoom and the index *)
Theorem vertical_tile_id_fields alt v f : int64_ok v = true -> int64_ok f = true -> f_f alt v = Some f ->
  exists s, vertical_tile_id alt v = Some s /\ map parse (split s) = [Some v; Some f].
Proof.
  intros Iv If E. unfold vertical_tile_id. rewrite E. eexists. split; [reflexivity|].
  rewrite split_join; [| discriminate | cbn; rewrite !print_noslash; reflexivity].
  cbn [map]. now rewrite !parse_print.
Qed.

(* ---- non-vacuity ---- *)
Example setters_example :
  let p0 := fst (new_point 139.75%float 35.6812%float 10%float) in
  let '(p, flags) := run_setters p0 [SAlt (-0.5)%float; SLon 181%float; SLat 12.9086804579%float; SLon (-180)%float; SLat 90%float; SAlt (-3)%float] in
  flags = [false; true; false; false; true; false] /\ feqb_bits (plon p) (-180)%float = true /\ feqb_bits (palt p) (-3)%float = true /\
  feqb_bits (plat p) 12.9086804578%float = true.
Proof. vm_compute. auto. Qed.
Example vertical_tile_id_example :
  vertical_tile_id (-0.5)%float 25 = Some "25/-1"%string /\ vertical_tile_id 33554432%float 3 = Some "3/8"%string /\
  vertical_tile_id (-33554432)%float 0 = Some "0/-1"%string.
Proof. vm_compute. auto. Qed.
