(* GenEqConstQuadkey.v — generated constants = the literals the models use: the positions of quadkey and altitude key in an inner ID (cited by C11;
   the quadkey zoom bounds read from quadkeyCheckZoom are in GenEqCheck.v). *)
From Coq Require Import ZArith Bool Lia.
From SIDGen Require Import Generated.
Open Scope Z_scope.

Lemma gen_InnerID_eq : (Generated.InnerIDQuadkeyIndex, Generated.InnerIDAltitudekeyIndex) = (0, 1). Proof. reflexivity. Qed.
