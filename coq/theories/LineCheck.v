(* LineCheck.v — the boolean checker of property C06 that is run on the implementation's observed ID set, and its soundness.
   Parts: no duplicates, zooms, both end voxels present, single voxel when the ends share one, slab test of every voxel against
   the segment (exact rational arithmetic on the floats' dyadic values for longitude and altitude; latitude through the rows of
   the two extreme sample points of the parameter interval, within a documented tolerance band), breadth-first connectivity
   under 26-adjacency from the start voxel. *)
From Coq Require Import ZArith Lia List Bool String Floats QArith Qround Lqa Psatz.
From SID Require Import Base Str Ids Shift F64 ExactRef PointF Line.
Import ListNotations.
Close Scope Q_scope.
Open Scope Z_scope.
Open Scope list_scope.

(* ---- breadth-first search over the observed voxels ---- *)
Section BFS.
  Variable adjb : eid -> eid -> bool.
  Variable adj : eid -> eid -> Prop.
  Hypothesis adjb_adj : forall a b, adjb a b = true -> adj a b.
  Fixpoint bfs (fuel : nat) (queue rest : list eid) : list eid :=
    match fuel with
    | O => rest
    | S n => match queue with
             | [] => rest
             | a :: q => let '(nb, far) := partition (adjb a) rest in bfs n (q ++ nb) far
             end
    end.
  (* every member of l is reached from a *)
  Definition connected_from (a : eid) (l : list eid) : bool :=
    memb eid_eqb a l &&
    match bfs (S (List.length l)) [a] (filter (fun b => negb (eid_eqb a b)) l) with [] => true | _ => false end.

  Lemma partition_true {A} (f : A -> bool) l : forall a b, partition f l = (a, b) -> forall x, In x a -> In x l /\ f x = true.
  Proof.
    induction l as [|y r IH]; cbn [partition]; intros a b.
    - intros [= <- <-] x [].
    - destruct (partition f r) as [g d]. destruct (f y) eqn:E; intros [= <- <-] x Hx.
      + destruct Hx as [<-|Hx]; [split; [now left|exact E]|]. destruct (IH _ _ eq_refl x Hx). split; [now right|assumption].
      + destruct (IH _ _ eq_refl x Hx). split; [now right|assumption].
  Qed.
  Lemma bfs_sound l a0 fuel : forall queue rest,
    (forall q, In q queue -> reach adj l a0 q) -> incl rest l -> bfs fuel queue rest = [] ->
    forall v, In v rest -> reach adj l a0 v.
  Proof.
    induction fuel as [|n IH]; intros queue rest Hq Ir; cbn [bfs].
    - intros -> v [].
    - destruct queue as [|a q]; [intros -> v []|].
      destruct (partition (adjb a) rest) as [nb far] eqn:Hp. intros Hb v Hv.
      assert (Hnb : forall x, In x nb -> In x rest /\ adjb a x = true).
      { intros x Hx. exact (partition_true _ _ _ _ Hp x Hx). }
      assert (Hfar : forall x, In x far -> In x rest).
      { intros x Hx. apply (elements_in_partition _ _ Hp). now right. }
      assert (Ra : reach adj l a0 a) by (apply Hq; now left).
      assert (Hq' : forall x, In x (q ++ nb) -> reach adj l a0 x).
      { intros x Hx. apply in_app_or in Hx. destruct Hx as [Hx|Hx]; [apply Hq; now right|].
        destruct (Hnb x Hx) as [H1 H2]. apply reachS with a; [exact Ra|now apply Ir|now apply adjb_adj]. }
      apply (elements_in_partition _ _ Hp) in Hv. destruct Hv as [Hv|Hv].
      + apply Hq'. apply in_or_app. now right.
      + apply (IH (q ++ nb) far Hq'); [|exact Hb|exact Hv].
        intros x Hx. apply Ir. now apply Hfar.
  Qed.
  Theorem connected_from_sound a l : connected_from a l = true -> forall v, In v l -> reach adj l a v.
  Proof.
    intros H. unfold connected_from in H. apply andb_true_iff in H. destruct H as [Ha Hb].
    apply (memb_In eid_eqb eid_eqb_spec) in Ha.
    destruct (bfs (S (List.length l)) [a] (filter (fun b => negb (eid_eqb a b)) l)) eqn:E; [|discriminate].
    intros v Hv. destruct (eid_eqb_spec a v) as [<-|N]; [now apply reach0|].
    apply (bfs_sound l a _ _ _) with (v := v) in E.
    - exact E.
    - intros q [<-|[]]. now apply reach0.
    - intros x Hx. apply filter_In in Hx. tauto.
    - apply filter_In. split; [exact Hv|]. now destruct (eid_eqb_spec a v).
  Qed.
End BFS.

(* ---- exact rational geometry ---- *)
Definition pow2q (k : Z) : Q := if 0 <=? k then inject_Z (2 ^ k) else (1 # Z.to_pos (2 ^ (- k)))%Q.
(* the exact value of a finite float *)
Definition f2q (f : float) : option Q :=
  match dyadic f with Some (m, e) => Some (inject_Z m * pow2q e)%Q | None => None end.
(* a float within 2^-50 of a rational of magnitude below 2^12 (used for latitudes only) *)
Definition q2f (q : Q) : float := (of_Z (Qfloor (q * pow2q 50)%Q) * pow2f (-50))%float.

Definition qmin (a b : Q) : Q := if Qle_bool a b then a else b.
Definition qmax (a b : Q) : Q := if Qle_bool a b then b else a.
Definition qabs (a : Q) : Q := if Qle_bool 0 a then a else (- a)%Q.
(* closed parameter interval; None = empty *)
Definition tint := option (Q * Q).
Definition t_meet (a b : tint) : tint :=
  match a, b with
  | Some (a0, a1), Some (b0, b1) =>
      let lo := qmax a0 b0 in let hi := qmin a1 b1 in if Qle_bool lo hi then Some (lo, hi) else None
  | _, _ => None
  end.
(* { t | lo <= cs + t (ce - cs) <= hi } as an interval (all of [0,1] when the coordinate does not move and lies inside) *)
Definition trange (cs ce lo hi : Q) : tint :=
  let d := (ce - cs)%Q in
  if Qeq_bool d 0 then (if Qle_bool lo cs && Qle_bool cs hi then Some (0, 1)%Q else None)
  else let t1 := ((lo - cs) / d)%Q in let t2 := ((hi - cs) / d)%Q in
       if Qle_bool t1 t2 then Some (t1, t2) else Some (t2, t1).

(* tolerances of the slab test (see meta/C06.json):
   longitude: 2^-38 degrees absolute (x is computed from lon + 180 with an absolute rounding error up to 2^-45, and the float
              midpoints drift from the exact dyadic interpolation points by at most one ulp(180) = 2^-45 per recursion level);
   altitude:  2^-44 relative to the larger end altitude (the division by the cell height is exact); 2^-1000 when both end
              altitudes are below 2^-900 (the quotient underflows: class alt_underflow of C01);
   latitude:  2^-33 = 1.16e-10 degrees: every voxel is computed after SetLat cut the latitude toward zero by up to 1e-10 degrees. *)
Definition tol_lon : Q := pow2q (-38).
Definition tol_alt (a b : Q) : Q :=
  let m := qmax (qabs a) (qabs b) in
  if Qle_bool (pow2q (-900)) m then (pow2q (-44) * m)%Q else pow2q (-1000).
Definition tol_lat : Q := pow2q (-33).
(* strict latitude band: float rounding of the midpoints only (64 levels of one ulp(90) = 2^-46 degrees) *)
Definition tol_lat0 : Q := pow2q (-40).

Record segq := { q_ls : Q; q_le : Q; q_as : Q; q_ae : Q; q_ps : Q; q_pe : Q }.   (* lon, alt, lat (phi) of start and end *)
Definition seg_of (s e : point) : option segq :=
  match f2q (plon s), f2q (plon e), f2q (palt s), f2q (palt e), f2q (plat s), f2q (plat e) with
  | Some a, Some b, Some c, Some d, Some p, Some q => Some {| q_ls := a; q_le := b; q_as := c; q_ae := d; q_ps := p; q_pe := q |}
  | _, _, _, _, _, _ => None
  end.

(* parameter interval on which the segment is inside the (tolerance-widened) longitude box of column x shifted by k turns,
   and inside the altitude box of index f *)
Definition t_lon (g : segq) (h x k : Z) : tint :=
  let w := (360 * pow2q (- h))%Q in
  trange (q_ls g) (q_le g) (inject_Z x * w - 180 + 360 * inject_Z k - tol_lon)%Q
                            (inject_Z (x + 1) * w - 180 + 360 * inject_Z k + tol_lon)%Q.
Definition t_alt (g : segq) (v f : Z) : tint :=
  let c := pow2q (25 - v) in let tl := tol_alt (q_as g) (q_ae g) in
  trange (q_as g) (q_ae g) (inject_Z f * c - tl)%Q (inject_Z (f + 1) * c + tl)%Q.
Definition at_t (a b t : Q) : Q := (a + t * (b - a))%Q.

Section Slab.
  Variable rowf : float -> option Z.       (* the code's own latitude row function at zoom h (PointF.y_f through the oracle) *)
  (* the voxel passes if for a turn k in {0, 1} (k = 1 only matters for lon = 180, which the code folds onto -180) the three
     slabs have a common parameter t in [0,1]; the latitude slab is tested on the rows of the two extreme latitudes of the
     common longitude/altitude interval, widened by tol_lat (the row is monotone in the latitude) *)
  Variable tl : Q.                         (* latitude tolerance: tol_lat0 (strict) or tol_lat (the SetLat cut excused) *)
  (* the test for one turn k: the longitude box of column x is shifted by 360 k degrees. Longitude is cyclic (the code's own
     convention: 180 is folded onto -180), so column 0 is ALSO the set of longitudes [180, 180 + cell): k = 1. A point within
     the rounding band tol_lon of the meridian 180 — an end point at 180, or a float midpoint that rounds to 180 — is accepted in
     column 0 exactly like a point within the band of any other column boundary is accepted in the next column. *)
  Definition slab_at (g : segq) (h v : Z) (i : eid) (k : Z) : bool :=
    match t_meet (Some (0, 1)%Q) (t_meet (t_lon g h (ex i) k) (t_alt g v (ef i))) with
    | Some (t0, t1) =>
        let la := at_t (q_ps g) (q_pe g) t0 in
        let lb := at_t (q_ps g) (q_pe g) t1 in
        match rowf (q2f (qmax la lb + tl)%Q), rowf (q2f (qmin la lb - tl)%Q) with
        | Some r1, Some r2 => (r1 <=? ey i) && (ey i <=? r2)
        | _, _ => false
        end
    | None => false
    end.
  Definition slab_voxel (g : segq) (h v : Z) (i : eid) : bool := existsb (slab_at g h v i) [0; 1].
  (* voxels of column 0 that the segment meets on the meridian 180 (turn k = 1): across that meridian they touch the last column.
     Only these are identified cyclically; a segment that does not come within the band of 180 gets plain adjacency. *)
  Definition meridian_folds (g : segq) (h v : Z) (ids : list eid) : list eid :=
    filter (fun i => (ex i =? 0) && slab_at g h v i 1) ids.
End Slab.

(* ---- the checker ---- *)
Fixpoint nodup_eids (l : list eid) : bool :=
  match l with [] => true | a :: r => negb (memb eid_eqb a r) && nodup_eids r end.
Lemma nodup_eids_spec l : nodup_eids l = true <-> NoDup l.
Proof.
  induction l as [|a r IH]; cbn; [split; [constructor|reflexivity]|].
  rewrite andb_true_iff, negb_true_iff, IH. split.
  - intros [H1 H2]. constructor; [|exact H2]. intros H. apply (memb_In eid_eqb eid_eqb_spec) in H. congruence.
  - intros H. inversion H as [|? ? H1 H2]. subst. split; [|exact H2].
    destruct (memb eid_eqb a r) eqn:E; [|reflexivity]. apply (memb_In eid_eqb eid_eqb_spec) in E. contradiction.
Qed.

(* structural part (everything except the slab test and connectivity) *)
Definition check_struct (vs ve : eid) (h v : Z) (obs : list eid) : bool :=
  nodup_eids obs && forallb (fun i => (eh i =? h) && (ev i =? v)) obs &&
  memb eid_eqb vs obs && memb eid_eqb ve obs &&
  (if eid_eqb vs ve then match obs with [_] => true | _ => false end else true).
Definition check_line (vs ve : eid) (folds : list eid) (slab : eid -> bool) (h v : Z) (obs : list eid) : bool :=
  check_struct vs ve h v obs && forallb slab obs && connected_from (adjFb folds) vs obs.

(* the property on an observed ID set, as a proposition *)
Definition line_spec (vs ve : eid) (folds : list eid) (slab : eid -> bool) (h v : Z) (obs : list eid) : Prop :=
  NoDup obs /\ (forall i, In i obs -> eh i = h /\ ev i = v) /\ In vs obs /\ In ve obs /\ (vs = ve -> obs = [vs]) /\
  (forall i, In i obs -> slab i = true) /\ (forall i, In i obs -> reach (adjF folds) obs vs i).

Theorem check_line_sound vs ve folds slab h v obs :
  check_line vs ve folds slab h v obs = true -> line_spec vs ve folds slab h v obs.
Proof.
  intros H. unfold check_line, check_struct in H. rewrite !andb_true_iff in H.
  destruct H as [[[[[[N Z] A] B] S] L] C].
  apply nodup_eids_spec in N. rewrite forallb_forall in Z, L.
  apply (memb_In eid_eqb eid_eqb_spec) in A, B.
  assert (Hz : forall i, In i obs -> eh i = h /\ ev i = v).
  { intros i Hi. specialize (Z i Hi). apply andb_true_iff in Z. rewrite !Z.eqb_eq in Z. exact Z. }
  repeat split; try assumption; try (now apply Hz).
  - intros E. destruct (eid_eqb_spec vs ve) as [_|]; [|contradiction].
    destruct obs as [|x [|y r]]; try discriminate. destruct A as [<-|[]]. reflexivity.
  - apply (connected_from_sound (adjFb folds) (adjF folds)); [|exact C]. intros a b. apply adjFb_spec.
Qed.

(* ---- what the slab test means (longitude and altitude exactly; latitude through the code's row function) ---- *)
Open Scope Q_scope.
Lemma qle_bool_false a b : Qle_bool a b = false -> b < a.
Proof. intros H. apply Qnot_le_lt. intros C. apply Qle_bool_iff in C. congruence. Qed.

Lemma trange_sound cs ce lo hi t0 t1 : lo <= hi -> trange cs ce lo hi = Some (t0, t1) ->
  forall t, t0 <= t <= t1 -> lo <= at_t cs ce t <= hi.
Proof.
  intros Hb. unfold trange, at_t.
  destruct (Qeq_bool (ce - cs) 0) eqn:E.
  - apply Qeq_bool_iff in E.
    destruct (Qle_bool lo cs && Qle_bool cs hi) eqn:B; [|discriminate].
    apply andb_true_iff in B. destruct B as [B1 B2]. apply Qle_bool_iff in B1, B2.
    intros _ t _. assert (Ht : t * (ce - cs) == 0) by (rewrite E; ring). lra.
  - assert (Hd : ~ ce - cs == 0) by (intros C; apply Qeq_bool_iff in C; congruence).
    set (d := ce - cs) in *.
    assert (M1 : (lo - cs) / d * d == lo - cs) by (field; exact Hd).
    assert (M2 : (hi - cs) / d * d == hi - cs) by (field; exact Hd).
    set (q1 := (lo - cs) / d) in *. set (q2 := (hi - cs) / d) in *.
    destruct (Qle_bool q1 q2) eqn:L.
    + apply Qle_bool_iff in L. intros [= <- <-] t [Ht0 Ht1].
      destruct (Qlt_le_dec 0 d) as [P|N].
      * split; nra.
      * assert (d < 0) by (destruct (Qle_lt_or_eq _ _ N); [assumption|contradiction]).
        assert (q1 == q2) by nra. split; nra.
    + apply qle_bool_false in L. intros [= <- <-] t [Ht0 Ht1].
      destruct (Qlt_le_dec 0 d) as [P|N].
      * exfalso. nra.
      * assert (d < 0) by (destruct (Qle_lt_or_eq _ _ N); [assumption|contradiction]).
        split; nra.
Qed.

Lemma qmax_ub a b : a <= qmax a b /\ b <= qmax a b.
Proof. unfold qmax. destruct (Qle_bool a b) eqn:E; [apply Qle_bool_iff in E|apply qle_bool_false in E]; split; lra. Qed.
Lemma qmin_lb a b : qmin a b <= a /\ qmin a b <= b.
Proof. unfold qmin. destruct (Qle_bool a b) eqn:E; [apply Qle_bool_iff in E|apply qle_bool_false in E]; split; lra. Qed.
Lemma qabs_nonneg a : 0 <= qabs a.
Proof. unfold qabs. destruct (Qle_bool 0 a) eqn:E; [apply Qle_bool_iff in E|apply qle_bool_false in E]; lra. Qed.
Lemma pow2q_pos k : 0 < pow2q k.
Proof.
  unfold pow2q. destruct (0 <=? k)%Z eqn:E.
  - apply Z.leb_le in E. assert (0 < 2 ^ k)%Z by (apply Z.pow_pos_nonneg; lia).
    unfold Qlt. cbn. lia.
  - reflexivity.
Qed.
Lemma tol_alt_pos a b : 0 < tol_alt a b.
Proof.
  unfold tol_alt. destruct (Qle_bool (pow2q (-900)) (qmax (qabs a) (qabs b))) eqn:E; [|apply pow2q_pos].
  apply Qle_bool_iff in E. pose proof (pow2q_pos (-900)). pose proof (pow2q_pos (-44)). nra.
Qed.

Lemma t_meet_sound a b lo hi : t_meet a b = Some (lo, hi) ->
  exists a0 a1 b0 b1, a = Some (a0, a1) /\ b = Some (b0, b1) /\ a0 <= lo /\ hi <= a1 /\ b0 <= lo /\ hi <= b1 /\ lo <= hi.
Proof.
  unfold t_meet. destruct a as [[a0 a1]|]; [|discriminate]. destruct b as [[b0 b1]|]; [|discriminate].
  destruct (Qle_bool (qmax a0 b0) (qmin a1 b1)) eqn:E; [|discriminate]. apply Qle_bool_iff in E.
  intros [= <- <-]. exists a0, a1, b0, b1. pose proof (qmax_ub a0 b0). pose proof (qmin_lb a1 b1). intuition.
Qed.

(* the longitude box of column x shifted by k turns, and the altitude box of index f, widened by the tolerances *)
Definition in_lon_box (g : segq) (h x k : Z) (t : Q) : Prop :=
  inject_Z x * (360 * pow2q (- h)) - 180 + 360 * inject_Z k - tol_lon <= at_t (q_ls g) (q_le g) t /\
  at_t (q_ls g) (q_le g) t <= inject_Z (x + 1) * (360 * pow2q (- h)) - 180 + 360 * inject_Z k + tol_lon.
Definition in_alt_box (g : segq) (v f : Z) (t : Q) : Prop :=
  inject_Z f * pow2q (25 - v) - tol_alt (q_as g) (q_ae g) <= at_t (q_as g) (q_ae g) t /\
  at_t (q_as g) (q_ae g) t <= inject_Z (f + 1) * pow2q (25 - v) + tol_alt (q_as g) (q_ae g).

Theorem slab_voxel_sound rowf tl g h v i : slab_voxel rowf tl g h v i = true ->
  exists (k : Z) (t0 t1 : Q), (k = 0 \/ k = 1)%Z /\ 0 <= t0 /\ t0 <= t1 /\ t1 <= 1 /\
    (forall t, t0 <= t <= t1 -> in_lon_box g h (ex i) k t /\ in_alt_box g v (ef i) t) /\
    exists r1 r2,
      rowf (q2f (qmax (at_t (q_ps g) (q_pe g) t0) (at_t (q_ps g) (q_pe g) t1) + tl)) = Some r1 /\
      rowf (q2f (qmin (at_t (q_ps g) (q_pe g) t0) (at_t (q_ps g) (q_pe g) t1) - tl)) = Some r2 /\
      (r1 <= ey i <= r2)%Z.
Proof.
  unfold slab_voxel. rewrite existsb_exists. intros (k & Hk & H). unfold slab_at in H.
  destruct (t_meet (Some (0, 1)) (t_meet (t_lon g h (ex i) k) (t_alt g v (ef i)))) as [[t0 t1]|] eqn:M; [|discriminate].
  destruct (t_meet_sound _ _ _ _ M) as (a0 & a1 & b0 & b1 & E1 & E2 & A0 & A1 & B0 & B1 & L).
  injection E1 as <- <-.
  destruct (t_meet_sound _ _ _ _ E2) as (x0 & x1 & f0 & f1 & X & F & X0 & X1 & F0 & F1 & L2).
  destruct (rowf (q2f (qmax (at_t (q_ps g) (q_pe g) t0) (at_t (q_ps g) (q_pe g) t1) + tl))) as [r1|] eqn:R1; [|discriminate].
  destruct (rowf (q2f (qmin (at_t (q_ps g) (q_pe g) t0) (at_t (q_ps g) (q_pe g) t1) - tl))) as [r2|] eqn:R2; [|discriminate].
  apply andb_true_iff in H. destruct H as [H1 H2]. apply Z.leb_le in H1, H2.
  exists k, t0, t1. split; [destruct Hk as [<-|[<-|[]]]; [now left|now right]|]. split; [exact A0|]. split; [exact L|]. split; [exact A1|]. split.
  - intros t [T0 T1]. split.
    + unfold t_lon in X. unfold in_lon_box.
      pose proof (pow2q_pos (- h)) as Pw. pose proof (pow2q_pos (-38)) as Pt. fold tol_lon in Pt.
      apply (trange_sound _ _ _ _ _ _) with (t := t) in X.
      * exact X.
      * rewrite inject_Z_plus. change (inject_Z 1) with 1. nra.
      * split; lra.
    + unfold t_alt in F. unfold in_alt_box.
      pose proof (pow2q_pos (25 - v)) as Pc. pose proof (tol_alt_pos (q_as g) (q_ae g)) as Pt.
      apply (trange_sound _ _ _ _ _ _) with (t := t) in F.
      * exact F.
      * rewrite inject_Z_plus. change (inject_Z 1) with 1. nra.
      * split; lra.
  - exists r1, r2. split; [exact R1|]. split; [exact R2|]. lia.
Qed.
