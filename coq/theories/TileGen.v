(* TileGen.v — C13: the zoom domain of TileXYZ stated through the constant regenerated from /repo (generated/Generated.v,
   consts.MaxTileXYZZoom). An edit of that constant in /repo changes Generated.MaxTileXYZZoom: GenEqCheck.gen_MaxTileXYZZoom_check_zoom
   (proved by reflexivity against Ids.check_zoom) stops compiling, and with it these obligations of C13. *)
From Coq Require Import ZArith Bool Lia List.
From SIDGen Require Generated.
From SID Require Import Base Ids AltKeyCore GenEqCheck Tile.
Import ListNotations.
Open Scope Z_scope.

Lemma tile_zoom_ok_generated z : tile_zoom_ok z = (0 <=? z) && (z <=? Generated.MaxTileXYZZoom).
Proof. rewrite <- gen_MaxTileXYZZoom_check_zoom. reflexivity. Qed.

(* NewTileXYZ accepts exactly the zooms of [0, consts.MaxTileXYZZoom] on both axes *)
Theorem new_tile_generated_limit h x y v z :
  new_tile h x y v z = Ok (mkt h x y v z) <-> 0 <= h <= Generated.MaxTileXYZZoom /\ 0 <= v <= Generated.MaxTileXYZZoom.
Proof.
  unfold new_tile. rewrite !tile_zoom_ok_generated.
  destruct (Z.leb_spec 0 h), (Z.leb_spec h Generated.MaxTileXYZZoom), (Z.leb_spec 0 v), (Z.leb_spec v Generated.MaxTileXYZZoom);
    cbn; split; try discriminate; try reflexivity; lia.
Qed.
(* ... and so do the two zoom setters; a refused call leaves the object unchanged *)
Theorem set_zoom_generated_limit t z :
  (fst (apply_op t (SetH z)) = false <-> 0 <= z <= Generated.MaxTileXYZZoom) /\
  (fst (apply_op t (SetV z)) = false <-> 0 <= z <= Generated.MaxTileXYZZoom).
Proof.
  cbn [apply_op]. rewrite !tile_zoom_ok_generated.
  destruct (Z.leb_spec 0 z), (Z.leb_spec z Generated.MaxTileXYZZoom); cbn; split; split; try discriminate; try reflexivity; lia.
Qed.
(* the window the conversions check (extendedSpatialIDCheckZoom) is the same window: every zoom a TileXYZ can hold passes it *)
Theorem tile_zoom_domain_is_the_conversion_window h v :
  ext_check_zoom h v = ((0 <=? h) && (h <=? Generated.MaxTileXYZZoom)) && ((0 <=? v) && (v <=? Generated.MaxTileXYZZoom)).
Proof. reflexivity. Qed.
