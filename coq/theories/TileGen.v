(* TileGen.v — C13: the zoom domain of TileXYZ stated through the constant regenerated from /repo (generated/Generated.v,
   consts.MaxTileXYZZoom). An edit of that constant in /repo changes Generated.MaxTileXYZZoom: GenEqCheck.gen_MaxTileXYZZoom_check_zoom
   (proved by reflexivity against Ids.check_zoom) stops compiling, and with it these obligations of C13. *)
From Coq Require Import ZArith Bool Lia List.
From SIDGen Require Generated.
From SID Require Import Base Ids AltKeyCore GenEqCheck Tile.
Import ListNotations.
Open Scope Z_scope.

Lemma tile_zoom_ok_generated z : tile_zoom_ok z = (0 <=? z) && (z <=? Generated.MaxTileXYZZoom).
Proof. rewrite <- gen_MaxTileXYZZoom_check_zoom. reflexivity. Qed.

(* NewTileXYZ accepts exactly the zooms of [0, consts.MaxTileXYZZoom] on both axes *)
Theorem new_tile_generated_limit h x y v z :
  new_tile h x y v z = Ok (mkt h x y v z) <-> 0 <= h <= Generated.MaxTileXYZZoom /\ 0 <= v <= Generated.MaxTileXYZZoom.
Proof.
  unfold new_tile. rewrite !tile_zoom_ok_generated.
  destruct (Z.leb_spec 0 h), (Z.leb_spec h Generated.MaxTileXYZZoom), (Z.leb_spec 0 v), (Z.leb_spec v Generated.MaxTileXYZZoom);
    cbn; split; try discriminate; try reflexivity; lia.
Qed.
(* ... and so do the two zoom setters; a refused call leaves the object unchanged *)
Theorem set_zoom_generated_limit t z :
  (fst (apply_op t (SetH z)) = false <-> 0 <= z <= Generated.MaxTileXYZZoom) /\
  (fst (apply_op t (SetV z)) = false <-> 0 <= z <= Generated.MaxTileXYZZoom).
Proof.
  cbn [apply_op]. rewrite !tile_zoom_ok_generated.
  destruct (Z.leb_spec 0 z), (Z.leb_spec z Generated.MaxTileXYZZoom); cbn; split; split; try discriminate; try reflexivity; lia.
Qed.
(* the window the conversions check (extendedSpatialIDCheckZoom) is the same window: every zoom a TileXYZ can hold passes it *)
Theorem tile_zoom_domain_is_the_conversion_window h v :
  ext_check_zoom h v = ((0 <=? h) && (h <=? Generated.MaxTileXYZZoom)) && ((0 <=? v) && (v <=? Generated.MaxTileXYZZoom)).
Proof. reflexivity. Qed.

(* =====================================================================================================================
   INT64. The kernels regenerated from /repo with Go's int64 semantics explicit (generated/Generated64.v, vocabulary I64.v:
   Some (r, true) = returns r and no intermediate left the int64 range; None = run-time panic). On the domain of C13 the int64 code
   of every kernel the tile conversions execute IS the unbounded model the theorems of Tile.v speak about.
   ===================================================================================================================== *)
From Coq Require Import Reals.
From Flocq Require Import Core.
From SIDGen Require Generated64.
From SID Require Import I64 GenTac GenEqAlt GenEqZoom GenEq64Tac GenEq64Alt GenEq64Zoom AltKey Voxel ZoomCore.

(* the zoom test of the loop: comparisons only, never inexact *)
Theorem generated64_zoom_check h v : Generated64.extendedSpatialIDCheckZoom h v = I64.ret (ext_check_zoom h v).
Proof. rewrite gen64_extendedSpatialIDCheckZoom_eq, gen_extendedSpatialIDCheckZoom_eq. reflexivity. Qed.

(* THE PER-TILE RANGE: for a tile NewTileXYZ returns, an output zoom in 0..35, a base exponent in 0..35 and |offset| <= 2^50 the int64
   code of ConvertAltitudekeyToMinMaxZ neither panics nor wraps, and what it returns is the specification of C13 in the words that do not
   mention the conversion: an error exactly when the tile does not fit, otherwise the metre-widened cover of the tile's altitude interval *)
Theorem generated64_tile_range_spec h x y v z t E O outV : new_tile h x y v z = Ok t -> 0 <= outV <= 35 ->
  0 <= E <= 35 -> - 2 ^ 50 <= O <= 2 ^ 50 ->
  exists r, Generated64.ConvertAltitudekeyToMinMaxZ (tz t) (tv t) outV E O = Some (enc_zz r, true) /\
    match r with
    | Ok (mn, mx) => tile_fits E O outV t /\ mn = wid_min (sid_scale outV) (tile_lo E O t) /\ mx = wid_max (sid_scale outV) (tile_hi E O t)
    | Err => ~ tile_fits E O outV t
    end.
Proof.
  intros Hn Hz HE HO. apply new_tile_ok in Hn. destruct Hn as (Hh & Hv & _).
  exists (key2z (tz t) (tv t) outV E O). split.
  - rewrite gen64_ConvertAltitudekeyToMinMaxZ_fits by lia. now rewrite gen_ConvertAltitudekeyToMinMaxZ_eq.
  - assert (Zc : ext_check_zoom (th t) outV = true) by (apply ext_check_zoom_spec; lia).
    destruct (key2z (tz t) (tv t) outV E O) as [[mn mx]|] eqn:K.
    + apply tile_accepted_iff. split; assumption.
    + apply tile_rejected_iff. right. exact K.
Qed.
(* ... and it never panics, whatever the int64 arguments (base exponent up to 2^62 in absolute value) *)
Theorem generated64_tile_range_no_panic k kz out E O : - 2 ^ 62 <= E <= 2 ^ 62 -> Generated64.ConvertAltitudekeyToMinMaxZ k kz out E O <> None.
Proof. apply gen64_ConvertAltitudekeyToMinMaxZ_no_panic. Qed.

(* THE EXPANSION of the spatial variant (ConvertExtendedSpatialIDToSpatialIDs calls HorizontalZoomMinMax when hZoom < vZoom and VerticalZoom
   when hZoom > vZoom): for every extended ID the conversion returns for tiles whose x, y are indices of their horizontal zoom, the int64
   code of both kernels neither panics nor wraps and returns what the model (ZoomCore.hzoom_minmax / vzoom_minmax) returns *)
Theorem generated64_expansion_fits_on_results l E O outV r i : tiles_to_eids l E O outV = Ok r -> (forall t, In t l -> footprint_ok t) -> In i r ->
  Generated64.HorizontalZoomMinMax (eh i) (Ids.ex i) (ey i) (ev i) = Some (hzoom_minmax (eh i) (Ids.ex i) (ey i) (ev i), true) /\
  Generated64.VerticalZoom_minmax (ev i) (ef i) (eh i) = Some (vzoom_minmax (ev i) (ef i) (eh i), true).
Proof.
  intros H Hf Hi. pose proof (tiles_to_eids_valid _ _ _ _ _ H Hf i Hi) as (Vh & Vv & Vx & Vy & Vf). split.
  - rewrite gen64_HorizontalZoomMinMax_fits by lia. now rewrite gen_HorizontalZoomMinMax_eq.
  - rewrite gen64_VerticalZoom_minmax_fits by lia. now rewrite gen_VerticalZoom_minmax_eq.
Qed.
(* OUTSIDE THE GRID THE INT64 CODE WRAPS: the tile (hZoom 0, x = 2^62) expanded to zoom 2 — the regenerated int64 kernel returns the
   columns 0..3 with the flag off (x * 4 = 2^64 wrapped to 0), the unbounded kernel 2^64 .. 2^64 + 3. This is why the spatial variant
   is claimed for footprints of the grid only (request [(0, 2^62, 0, 25, 0)], E 25, O 0, outV 2: Go returns 2/0/0/0 .. 2/0/3/3) *)
Theorem generated64_expansion_wraps_outside_the_grid :
  Generated64.HorizontalZoomMinMax 0 (2 ^ 62) 0 2 = Some ((0, 0, 3, 3), false) /\
  Generated.HorizontalZoomMinMax 0 (2 ^ 62) 0 2 = (2 ^ 64, 0, 2 ^ 64 + 3, 3) /\
  tiles_to_eids [mkt 0 (2 ^ 62) 0 25 0] 25 0 2 = Ok [mk 0 (2 ^ 62) 0 2 0].
Proof. vm_compute. repeat split; reflexivity. Qed.
