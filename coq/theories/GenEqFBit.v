(* GenEqFBit.v — the float layer of the bit-form altitude conversions (transform/convert_quadkey_and_Vertical_id.go): the definitions
   regenerated from the Go source = the pieces of BitAlt.v (part 3). Regenerated: the two face altitudes of convertVerticallIDToBit (with the
   package-level variable alt25, which nothing assigns), the cell height and the two cell altitudes of convertBitToVerticalID, one pass
   through the loop body of calcBitIndex. Not regenerated: the loop header of calcBitIndex (`for i = 0; i < outputZoom; i++`, start value 0,
   returned variable), the gap filling and the string handling of the two conversions. *)
From Coq Require Import ZArith Bool Floats Lia.
From SIDGen Require Import GeneratedF.
From SID Require Import F64 BitAlt GenFTac.
Open Scope float_scope.

Lemma gen_convertVerticallIDToBit_spatialIDMaxHeight_eq : forall v f oz mx mn,
  GeneratedF.convertVerticallIDToBit_spatialIDMaxHeight v f oz mx mn = vox_alt (f + 1) v.
Proof. gen_feq ltac:(unfold vox_alt). Qed.
Lemma gen_convertVerticallIDToBit_spatialIDMinHeight_eq : forall v f oz mx mn,
  GeneratedF.convertVerticallIDToBit_spatialIDMinHeight v f oz mx mn = vox_alt f v.
Proof. gen_feq ltac:(unfold vox_alt). Qed.

Lemma gen_convertBitToVerticalID_voxelHeight_eq : forall vz k oz mx mn,
  GeneratedF.convertBitToVerticalID_voxelHeight vz k oz mx mn = cell_height vz mx mn.
Proof. gen_feq ltac:(unfold cell_height). Qed.
Lemma gen_convertBitToVerticalID_maxAltitude_eq : forall vz k oz mx mn,
  GeneratedF.convertBitToVerticalID_maxAltitude vz k oz mx mn = cell_alt (k + 1) (cell_height vz mx mn) mn.
Proof. gen_feq ltac:(unfold cell_alt, cell_height). Qed.
Lemma gen_convertBitToVerticalID_minAltitude_eq : forall vz k oz mx mn,
  GeneratedF.convertBitToVerticalID_minAltitude vz k oz mx mn = cell_alt k (cell_height vz mx mn) mn.
Proof. gen_feq ltac:(unfold cell_alt, cell_height). Qed.

(* one pass through the loop body of calcBitIndex: (maxHeight, minHeight, bitIndex) -> their new values; neither the loop counter nor the
   zoom enters *)
Lemma gen_calcBitIndex_step_eq : forall alt oz mx mn acc i,
  GeneratedF.calcBitIndex_step alt oz mx mn acc i =
  let b := halfF mx mn in if geF alt b then (mx, b, (2 * acc + 1)%Z) else (b, mn, (2 * acc)%Z).
Proof.
  intros. repeat autounfold with sidgenf. unfold geF, halfF. cbv beta iota zeta.
  rewrite Z.shiftl_mul_pow2 by lia. change (2 ^ 1)%Z with 2%Z.
  fsplit; f_equal; lia.
Qed.
(* BitAlt.bits (the model of calcBitIndex's loop) advances by the generated step *)
Lemma bits_over_generated_step : forall n alt oz mx mn acc i,
  bits float geF halfF (S n) alt mx mn acc =
  let '(mx', mn', acc') := GeneratedF.calcBitIndex_step alt oz mx mn acc i in bits float geF halfF n alt mx' mn' acc'.
Proof.
  intros. rewrite gen_calcBitIndex_step_eq. cbn [bits]. cbv zeta. destruct (geF alt (halfF mx mn)); reflexivity.
Qed.
