(* PointCheck.v — the run-time checker of property C01 (executable part only; its soundness is proved in PointProofs.v):
   for each stored point and returned ID: the requested zooms, x and f equal to the independent exact rational references
   (ExactRef.exact_x / exact_f, big-integer arithmetic on the float's dyadic value), y and x inside 0 .. 2^h - 1;
   lists are compared position by position (same length, same order). *)
From Coq Require Import ZArith String List Bool Floats.
From SID Require Import Base Str Ids F64 ExactRef.
Import ListNotations.
Open Scope Z_scope.

Definition check_point_id (p : point) (h v : Z) (s : string) : bool :=
  match parse_eid s, exact_x (plon p) h, exact_f (palt p) v with
  | Some i, Some x, Some f =>
      (eh i =? h) && (ev i =? v) && (ex i =? x) && (ef i =? f) && (0 <=? ey i) && (ey i <? 2 ^ h) &&
      (0 <=? ex i) && (ex i <? 2 ^ h)
  | _, _, _ => false
  end.
Fixpoint check_point_ids (ps : list point) (h v : Z) (o : list string) : bool :=
  match ps, o with
  | [], [] => true
  | p :: ps', s :: o' => check_point_id p h v s && check_point_ids ps' h v o'
  | _, _ => false
  end.
