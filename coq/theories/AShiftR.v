(* AShiftR.v — common.CalculateArithmeticShift read over the reals: index << shift / index >> -shift is floor(index * 2^shift)
   for every index and every shift of either sign (Flocq's Zfloor; powerRZ from the standard library). *)
From Coq Require Import ZArith Reals Lia Lra.
From Flocq Require Import Core.
From SID Require Import Base SetOps.

Theorem ashift_floor_real i s : ashift i s = Zfloor (IZR i * powerRZ 2 s).
Proof.
  change 2%R with (IZR (radix_val radix2)). rewrite <- (bpow_powerRZ radix2 s).
  destruct (Z_le_gt_dec 0 s) as [H|H].
  - rewrite ashift_nonneg by exact H. rewrite <- IZR_Zpower by exact H.
    change (radix_val radix2) with 2%Z. rewrite <- mult_IZR. symmetry. apply Zfloor_IZR.
  - rewrite ashift_neg by lia. replace s with (- (- s))%Z at 2 by lia. rewrite bpow_opp.
    rewrite <- IZR_Zpower by lia. change (radix_val radix2) with 2%Z.
    symmetry. apply Zfloor_div. pose proof (pow2_pos (- s)). lia.
Qed.
(* the same, as the two inequalities that define a floor *)
Theorem ashift_floor_bounds i s : (IZR (ashift i s) <= IZR i * powerRZ 2 s < IZR (ashift i s) + 1)%R.
Proof.
  rewrite ashift_floor_real. split; [apply Zfloor_lb | apply Zfloor_ub].
Qed.
