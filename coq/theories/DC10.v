(* DC10.v — dispatch entries of property C10: (arguments, observed output) ↦ verdict.
   corr = the executable model's output equals the implementation's observed output (ordered equality for the order-preserving
          conversions and the object; for the expansion equality as sorted sets + equal length, tried first as ordered equality
          because sorting 1024 strings is the dominant cost; error as a flag);
   prop = the boolean checker of Notation.v (proved equivalent to the Prop-level statement) accepts the observed output. *)
(* Entries: the six API entries; ResetSequence (one object reset with each string of a list); ExpandSequence and CallSequence (several
   calls made one after the other inside one harness call — the API has no state, so each call must satisfy its own statement whatever
   was called before; a verdict of a sequence is the conjunction of the verdicts of its calls). *)
From Coq Require Import ZArith String List Bool.
From SID Require Import Base Str Ids Wire ZoomCore StrSpec Notation.
Import ListNotations.
Open Scope string_scope.

(* observed value of an error-returning call: Some None = error, Some (Some v) = value, None = unexpected shape *)
Definition obs_strs (v : val) : option (option (list string)) :=
  match v with
  | VE _ => Some None
  | VPanic | VTimeout => None
  | _ => match as_LS v with Some l => Some (Some l) | None => None end
  end.
Definition res_val (r : result (list string)) : val := match r with Ok l => of_LS l | Err => VE VNil end.
Definition opt_list_eqb (m o : option (list string)) : bool :=
  match m, o with Some a, Some b => same_list a b | None, None => true | _, _ => false end.

(* the value returned together with an error (correspondence only): the conversions of the elements before the first bad one *)
Definition err_payload_ok (pre : list string) (obs : val) : bool :=
  match obs with
  | VE p => match as_LS p with Some o => same_list pre o | None => false end
  | _ => true
  end.
Definition d_s2e (args : list val) (obs : val) : verdict :=
  match args with
  | [a] => match as_LS a, obs_strs obs with
           | Some l, Some o =>
               let m := sids_to_eids l in
               mkv (opt_list_eqb (res_opt m) o && err_payload_ok (map_opt_prefix sid_to_eid_str l) obs) (check_s2e l o) "-"
                   (match m with Ok r => of_LS r | Err => VE (of_LS (map_opt_prefix sid_to_eid_str l)) end)
           | _, _ => bad_case
           end
  | _ => bad_case
  end.
Definition d_e2s (args : list val) (obs : val) : verdict :=
  match args with
  | [a] => match as_LS a, obs_strs obs with
           | Some l, Some o =>
               let m := eids_to_sids l in
               mkv (opt_list_eqb (res_opt m) o && err_payload_ok (map_opt_prefix eid_to_sid_str l) obs) (check_e2s l o) "-"
                   (match m with Ok r => of_LS r | Err => VE (of_LS (map_opt_prefix eid_to_sid_str l)) end)
           | _, _ => bad_case
           end
  | _ => bad_case
  end.

(* both directions in one call: observed [r1; r2] or an error *)
Definition obs_pair (v : val) : option (option (list string * list string)) :=
  match v with
  | VE _ => Some None
  | VL [a; b] => match as_LS a, as_LS b with Some r1, Some r2 => Some (Some (r1, r2)) | _, _ => None end
  | _ => None
  end.
Definition d_roundtrip (args : list val) (obs : val) : verdict :=
  match args with
  | [VB dir; a] =>
      match as_LS a, obs_pair obs with
      | Some l, Some o =>
          let m := roundtrip_model dir l in
          let c := match res_opt m, o with
                   | Some (r1, r2), Some (o1, o2) => same_list r1 o1 && same_list r2 o2
                   | None, None => true
                   | _, _ => false
                   end in
          mkv c (check_roundtrip dir l o) "-" (match m with Ok (r1, r2) => VL [of_LS r1; of_LS r2] | Err => VE VNil end)
      | _, _ => bad_case
      end
  | _ => bad_case
  end.

(* NewExtendedSpatialID(s) observed as [ID(); [HZoom(); X(); Y(); VZoom(); Z()]; FieldParams()] or an error *)
Definition obs_obj (v : val) : option (option (string * list Z * list Z)) :=
  match v with
  | VE _ => Some None
  | VL [VS id; a; b] => match as_LZ a, as_LZ b with Some acc, Some fp => Some (Some (id, acc, fp)) | _, _ => None end
  | _ => None
  end.
Definition d_parseprint (args : list val) (obs : val) : verdict :=
  match args with
  | [VS s] =>
      match obs_obj obs with
      | Some o =>
          let m := parseprint_model s in
          let c := match res_opt m, o with
                   | Some (id, acc, fp), Some (id', acc', fp') => String.eqb id id' && list_eqb Z.eqb acc acc' && list_eqb Z.eqb fp fp'
                   | None, None => match obs with VE (VS id0) => String.eqb id0 (print_eid zero_eid) | _ => false end
                   | _, _ => false
                   end in
          mkv c (check_parseprint s o) "-"
              (match m with Ok (id, acc, fp) => VL [VS id; of_LZ acc; of_LZ fp] | Err => VE (VS (print_eid zero_eid)) end)
      | None => bad_case
      end
  | _ => bad_case
  end.

(* Size / domain guard of the expansion entry. The invoker does not call the library (it answers VB false) when the parsed ID is not a
   valid ID of the grid (off-grid indices make the Go loops wrap around int64 or never end) or when the result would exceed the caps:
   hZoom < vZoom: 4^d results, d <= 6; hZoom > vZoom: 2^d results, d <= 12. The entry recomputes the predicate from the arguments:
   guard answer + predicate true = class "skipped" (neither an evaluation nor a pass); any other combination = bad_case. *)
Definition expand_guard (s : string) : bool :=
  match parse_eid s with
  | Some i => negb (validb i && (ev i - eh i <=? 6)%Z && (eh i - ev i <=? 12)%Z)
  | None => false
  end.
Definition skipped_case : verdict := mkv true true "skipped" VNil.
(* equality of the model's and the observed strings as sets (plus equal length). Ordered equality is tried first; otherwise the observed
   strings must be the canonical spatial IDs of their records and the sorted integer keys (Notation.eid_key, injective on valid voxels) of
   the observed and of the model's records must coincide — string-set equality without sorting strings, in O(n log n) *)
Definition expand_corr (s : string) (r r' : list string) : bool :=
  if same_list r r' then true
  else Nat.eqb (length r) (length r') &&
       match parse_eid s, map_opt parse_sid r' with
       | Some i, Some js' =>
           forall2b (fun t j => String.eqb t (print_sid j)) r' js' &&
           forallb (fun j => (eh j =? tzoom i)%Z && (ev j =? tzoom i)%Z && (0 <=? ey j)%Z && (ey j <? 2 ^ 36)%Z && (- 2 ^ 36 <=? ef j)%Z && (ef j <? 2 ^ 36)%Z) js' &&
           list_eqb Z.eqb (ZSort.sort (map eid_key js')) (ZSort.sort (map eid_key (expand_rec i)))
       | _, _ => false
       end.
Definition d_expand (args : list val) (obs : val) : verdict :=
  match args with
  | [VS s] =>
      if expand_guard s then match obs with VB false => skipped_case | _ => bad_case end
      else
        match obs with
        | VB _ => bad_case
        | _ =>
          match obs_strs obs with
          | Some o =>
              let m := expand_api s in
              let c := match res_opt m, o with
                       | Some r, Some r' => expand_corr s r r'
                       | None, None => true
                       | _, _ => false
                       end in
              mkv c (check_expand_fast s o) "-" (res_val m)
          | None => bad_case
          end
        end
  | _ => bad_case
  end.

(* GetVoxelIDfromSpatialID has no error result: observed [x; y; f], or the empty list for fewer than five fields (a panic is never accepted) *)
Definition d_voxel (args : list val) (obs : val) : verdict :=
  match args with
  | [VS s] =>
      match obs with
      | VPanic | VTimeout | VE _ => bad_case
      | _ =>
        match as_LZ obs with
        | Some o => let m := voxel_id s in mkv (list_eqb Z.eqb m o) (check_voxel s o) "-" (of_LZ m)
        | None => bad_case
        end
      end
  | _ => bad_case
  end.

(* ResetExtendedSpatialID applied to one object for each string of the list; observed per step [error?; ID(); FieldParams()] *)
Definition obs_reset_step (v : val) : option (bool * string * list Z) :=
  match v with
  | VL [VB e; VS id; fp] => match as_LZ fp with Some l => Some (e, id, l) | None => None end
  | _ => None
  end.
Definition d_resetseq (args : list val) (obs : val) : verdict :=
  match args with
  | [a] =>
      match as_LS a, as_L obs with
      | Some l, Some outs =>
          match all_opt (map obs_reset_step outs) with
          | Some o =>
              let m := map (fun st => (fst st, print_eid (snd st), field_params (snd st))) (reset_seq zero_eid l) in
              let c := forall2b (fun x y => let '(e, id, fp) := x in let '(e', id', fp') := y in
                                            Bool.eqb e e' && String.eqb id id' && list_eqb Z.eqb fp fp') m o in
              mkv c (check_reset_seq l o) "-" (VL (map (fun x => let '(e, id, fp) := x in VL [VB e; VS id; of_LZ fp]) m))
          | None => bad_case
          end
      | _, _ => bad_case
      end
  | _ => bad_case
  end.

(* ObjectSetters: a script of SetX / SetY / SetZ / SetZoom / ResetExtendedSpatialID applied to one fresh object;
   a command is VL [VS "X"; x] | [VS "Y"; y] | [VS "Z"; z] | [VS "Zoom"; h; v] | [VS "Reset"; s] | [VS "New"; s] (continue on the object
   returned by NewExtendedSpatialID(s): a fresh one per call);
   observed per step [error?; ID(); FieldParams(); [HZoom(); X(); Y(); VZoom(); Z()]] *)
Definition dec_setter (v : val) : option setter :=
  match v with
  | VL [VS "X"; VZ x] => Some (SX x)
  | VL [VS "Y"; VZ y] => Some (SY y)
  | VL [VS "Z"; VZ z] => Some (SZ z)
  | VL [VS "Zoom"; VZ h; VZ v] => Some (SZoom h v)
  | VL [VS "Reset"; VS s] => Some (SReset s)
  | VL [VS "New"; VS s] => Some (SNew s)
  | _ => None
  end.
Definition obs_setter_step (v : val) : option (bool * string * list Z * list Z) :=
  match v with
  | VL [VB e; VS id; fp; acc] => match as_LZ fp, as_LZ acc with Some a, Some b => Some (e, id, a, b) | _, _ => None end
  | _ => None
  end.
Definition d_setters (args : list val) (obs : val) : verdict :=
  match args with
  | [VL cmds] =>
      match all_opt (map dec_setter cmds), as_L obs with
      | Some l, Some outs =>
          match all_opt (map obs_setter_step outs) with
          | Some o =>
              let m := map (fun st => (fst st, print_eid (snd st), field_params (snd st), field_params (snd st))) (run_setters zero_eid l) in
              let c := forall2b (fun x y => let '(e, id, fp, acc) := x in let '(e', id', fp', acc') := y in
                                            Bool.eqb e e' && String.eqb id id' && list_eqb Z.eqb fp fp' && list_eqb Z.eqb acc acc') m o in
              mkv c (check_setters l o) "-" (VL (map (fun x => let '(e, id, fp, acc) := x in VL [VB e; VS id; of_LZ fp; of_LZ acc]) m))
          | None => bad_case
          end
      | _, _ => bad_case
      end
  | _ => bad_case
  end.

(* ObjectAliasing: NewExtendedSpatialID(s) twice (objects A, B), a setter script on A, a third parse (C); observed the read-backs
   [ID(); FieldParams(); five getters] of A, B, C, or an error when s is malformed. B and C must be the parsed record. *)
Definition obs_readback (v : val) : option readback :=
  match v with
  | VL [VS id; fp; acc] => match as_LZ fp, as_LZ acc with Some a, Some b => Some (id, a, b) | _, _ => None end
  | _ => None
  end.
Definition readback_eqb (x y : readback) : bool :=
  let '(id, fp, acc) := x in let '(id', fp', acc') := y in String.eqb id id' && list_eqb Z.eqb fp fp' && list_eqb Z.eqb acc acc'.
Definition val_readback (r : readback) : val := let '(id, fp, acc) := r in VL [VS id; of_LZ fp; of_LZ acc].
Definition d_alias (args : list val) (obs : val) : verdict :=
  match args with
  | [VS s; VL cmds] =>
      match all_opt (map dec_setter cmds) with
      | Some l =>
          let o := match obs with
                   | VE _ => Some None
                   | VL [a; b; c] => match obs_readback a, obs_readback b, obs_readback c with
                                     | Some ra, Some rb, Some rc => Some (Some (ra, rb, rc))
                                     | _, _, _ => None
                                     end
                   | _ => None
                   end in
          match o with
          | Some o' =>
              let m := alias_model s l in
              let c := match m, o' with
                       | Some (a, b, c0), Some (ra, rb, rc) => readback_eqb (rb_of a) ra && readback_eqb (rb_of b) rb && readback_eqb (rb_of c0) rc
                       | None, None => true
                       | _, _ => false
                       end in
              mkv c (check_alias s l o') "-"
                  (match m with Some (a, b, c0) => VL [val_readback (rb_of a); val_readback (rb_of b); val_readback (rb_of c0)] | None => VE VNil end)
          | None => bad_case
          end
      | None => bad_case
      end
  | _ => bad_case
  end.

(* ---- the string layer itself: the four operations /repo applies to ID strings, called directly ----
   ParseInt / Atoi: strconv.ParseInt(s, 10, 64) resp. strconv.Atoi(s) (= ParseInt(s, 10, 0), int = int64): observed the value, or VE v with the
   value returned together with the error. corr: Str.parse (and the discarded-error value, Notation.parse_failed_value);
   prop: StrSpec.check_parseint (reference scanner, proved = the declarative language ParseInt_accepts) *)
Definition d_parseint (args : list val) (obs : val) : verdict :=
  match args with
  | [VS s] =>
      let m := parse s in
      let mv := match m with Some z => VZ z | None => VE (VZ (parse_failed_value s)) end in
      match obs with
      | VZ z => mkv (opt_Z_eqb m (Some z)) (check_parseint s (Some z)) "-" mv
      | VE (VZ v) => mkv (opt_Z_eqb m None && (v =? parse_failed_value s)%Z) (check_parseint s None) "-" mv
      | _ => bad_case
      end
  | _ => bad_case
  end.
(* FormatInt / Itoa: strconv.FormatInt(z, 10) resp. strconv.Itoa(int(z)); corr: Str.print; prop: parses back to z and is canonical *)
Definition d_formatint (args : list val) (obs : val) : verdict :=
  match args, obs with
  | [VZ z], VS o => if int64_ok z then mkv (String.eqb (print z) o) (check_format z o) "-" (VS (print z)) else bad_case
  | _, _ => bad_case
  end.
(* Split: strings.Split(s, "/"); Join: strings.Join(l, "/") *)
Definition d_split (args : list val) (obs : val) : verdict :=
  match args with
  | [VS s] => match obs with
              | VL _ => match as_LS obs with Some o => mkv (same_list (split s) o) (check_split s o) "-" (of_LS (split s)) | None => bad_case end
              | _ => bad_case
              end
  | _ => bad_case
  end.
Definition d_join (args : list val) (obs : val) : verdict :=
  match args, obs with
  | [a], VS o => match as_LS a with Some l => mkv (String.eqb (join l) o) (check_join l o) "-" (VS (join l)) | None => bad_case end
  | _, _ => bad_case
  end.

(* ExpandObject: the caller keeps the parsed object: it is expanded, read back (ID(), accessors, FieldParams()) and expanded again; observed
   [first result; [ID; accessors; FieldParams]; second result]. The expansion is a function of the ID's VALUE and must leave the object
   alone: both results are judged as the plain expansion of the argument string, the read-back as the plain parse/print of it. A parse
   error or a refused size is observed and judged exactly as in the plain entry. *)
Definition d_expand_object (args : list val) (obs : val) : verdict :=
  match args, obs with
  | [VS s], VL [(VL _) as o1; VL [VS id; acc; fp]; (VL _) as o2] =>
      let v1 := d_expand [VS s] o1 in
      let vb := d_parseprint [VS s] (VL [VS id; acc; fp]) in
      let v2 := d_expand [VS s] o2 in
      if String.eqb (v_class v1) "bad-case" || String.eqb (v_class vb) "bad-case" || String.eqb (v_class v2) "bad-case" then bad_case
      else if String.eqb (v_class v1) "skipped" || String.eqb (v_class v2) "skipped" then bad_case   (* a refused size is observed as VB false, not as a triple *)
      else mkv (v_corr v1 && v_corr vb && v_corr v2) (v_prop v1 && v_prop vb && v_prop v2) "-" (VL [v_model v1; v_model vb; v_model v2])
  | [VS s], _ => d_expand [VS s] obs
  | _, _ => bad_case
  end.

Definition base_C10 : table :=
  [("ConvertSpatialIdsToExtendedSpatialIds", fun _ => d_s2e); ("ConvertExtendedSpatialIdsToSpatialIds", fun _ => d_e2s);
   ("NotationRoundTrip", fun _ => d_roundtrip); ("ParsePrint", fun _ => d_parseprint);
   ("ConvertExtendedSpatialIDToSpatialIDs", fun _ => d_expand); ("ExpandObject", fun _ => d_expand_object);
   ("GetVoxelIDfromSpatialID", fun _ => d_voxel);
   ("ResetSequence", fun _ => d_resetseq); ("ObjectSetters", fun _ => d_setters); ("ObjectAliasing", fun _ => d_alias);
   ("ParseInt", fun _ => d_parseint); ("Atoi", fun _ => d_parseint); ("FormatInt", fun _ => d_formatint); ("Itoa", fun _ => d_formatint);
   ("Split", fun _ => d_split); ("Join", fun _ => d_join)].

(* ---- sequences of calls made one after the other inside one harness call (the API is stateless: every call must satisfy its own
        statement whatever was called before). A call is VL (VS function :: arguments); observed: the list of the observed outputs. ---- *)
Fixpoint zip_verdicts (oracle : oracle_t) (calls outs : list val) : option (list verdict) :=
  match calls, outs with
  | [], [] => Some []
  | VL (VS fn :: a) :: calls', o :: outs' =>
      match zip_verdicts oracle calls' outs' with
      | Some vs => Some (run_table base_C10 oracle fn a o :: vs)
      | None => None
      end
  | _, _ => None
  end.
Definition d_callseq (oracle : oracle_t) (args : list val) (obs : val) : verdict :=
  match args, obs with
  | [VL calls], VL outs =>
      match zip_verdicts oracle calls outs with
      | Some vs =>
          if existsb (fun v => String.eqb (v_class v) "bad-case") vs then bad_case
          else if existsb (fun v => String.eqb (v_class v) "skipped") vs then skipped_case   (* a refused call inside: the sequence is not scored *)
          else mkv (forallb v_corr vs) (forallb v_prop vs) "-" (VL (map v_model vs))
      | None => bad_case
      end
  | _, _ => bad_case
  end.
(* ExpandSequence: the same extended-ID expansion on 2..4 IDs in a row; observed: the list of result lists *)
Definition d_expandseq (oracle : oracle_t) (args : list val) (obs : val) : verdict :=
  match args with
  | [VL ids] => d_callseq oracle [VL (map (fun s => VL [VS "ConvertExtendedSpatialIDToSpatialIDs"; s]) ids)] obs
  | _ => bad_case
  end.

Definition table_C10 : table :=
  (base_C10 ++ [("ExpandSequence", d_expandseq); ("CallSequence", d_callseq)])%list.

(* What the ExpandObject entry demands (soundness of the entry's shape): a triple is accepted only if BOTH expansions are accepted as the
   plain expansion of the argument string and the object read back between them is accepted as the plain parse/print of that string —
   i.e. the caller's object is unchanged and the second call sees the same ID. *)
Lemma expand_object_accepts_only_unchanged_objects s l1 id acc fp l2 :
  v_prop (d_expand_object [VS s] (VL [VL l1; VL [VS id; acc; fp]; VL l2])) = true ->
  v_prop (d_expand [VS s] (VL l1)) = true /\ v_prop (d_parseprint [VS s] (VL [VS id; acc; fp])) = true /\ v_prop (d_expand [VS s] (VL l2)) = true.
Proof.
  cbv beta iota zeta delta [d_expand_object].
  set (v1 := d_expand [VS s] (VL l1)). set (vb := d_parseprint [VS s] (VL [VS id; acc; fp])). set (v2 := d_expand [VS s] (VL l2)).
  destruct (_ || _ || _); [intros H; vm_compute in H; discriminate H|].
  destruct (_ || _); [intros H; vm_compute in H; discriminate H|].
  cbn [v_prop mkv]. intros H. apply andb_prop in H. destruct H as [H H2]. apply andb_prop in H. destruct H as [H1 Hb]. auto.
Qed.
Lemma expand_object_other_shapes s obs :
  (forall l1 id acc fp l2, obs <> VL [VL l1; VL [VS id; acc; fp]; VL l2]) -> d_expand_object [VS s] obs = d_expand [VS s] obs.
Proof.
  intros H. unfold d_expand_object.
  destruct obs as [| | | |l| | | |]; try reflexivity.
  destruct l as [|o1 [|b [|o2 [|x r]]]]; try reflexivity.
  all: destruct o1; try reflexivity.
  all: try (destruct b as [| | | |lb| | | |]; try reflexivity).
  all: try (destruct lb as [|i0 [|acc [|fp [|y r']]]]; try reflexivity).
  all: try (destruct i0; try reflexivity).
  all: try (destruct o2; try reflexivity).
  exfalso. eapply H. reflexivity.
Qed.
