(* GenEqFSQuat.v — common/spatial/quat.go regenerated = VecF.v. *)
From Coq Require Import ZArith Bool Floats.
From SIDGen Require Import GeneratedF GeneratedFS.
From SID Require Import F64 VecF GenFTac GenEqFSTac GenEqFSVector.
Open Scope float_scope.

(* quat.go *)
Lemma gen_QuatFromAxisAngle_eq : forall M axis angle,
  GeneratedFS.QuatFromAxisAngle M (tv axis) angle = tq (fquat_axis_angle (m_hypot M) (m_sin M) (m_cos M) axis angle).
Proof. gen_fs ltac:(unfold fquat_axis_angle, funit, fnanv, fscale, fnorm, c_half). Qed.
(* RotateBetweenVector: the callees are rewritten into the models (lemmas above), then the two conditions are decided *)
Lemma gen_RotateBetweenVector_eq : forall M a b,
  GeneratedFS.RotateBetweenVector M (tv a) (tv b) = tq (frotate_between (m_hypot M) (m_sin M) (m_cos M) a b).
Proof.
  intros M a b. unfold GeneratedFS.RotateBetweenVector. cbv zeta.
  rewrite !gen_Vector3_Unit_eq, !gen_Vector3_Cos_eq, !gen_Vector3_Cross_eq.
  change ((0x0p+0)%float, (0x0p+0)%float, (0x1p+0)%float) with (tv (FV 0 0 1)).
  change ((0x1p+0)%float, (0x0p+0)%float, (0x0p+0)%float) with (tv (FV 1 0 0)).
  rewrite !gen_Vector3_Cross_eq, ?gen_Vector3_Norm_eq.
  unfold frotate_between. cbv zeta.
  change (0x1.b7cdfd9d7bdbbp-34)%float with c_minima.
  destruct (fcosv (m_hypot M) (funit (m_hypot M) a) (funit (m_hypot M) b) + 1 <? c_minima).
  - destruct (fnorm (m_hypot M) (fcross (funit (m_hypot M) a) (FV 0 0 1)) <? c_minima); rewrite gen_QuatFromAxisAngle_eq; reflexivity.
  - reflexivity.
Qed.
