(* LineGen.v — ties the model's own constants of shape/line.go (Line.v: binary64 literals, zoom switches; LineA1.v: real thresholds)
   to the values regenerated from /repo's source on every run (generated/Generated.v: exact decimals (m, e) = m * 10^e). *)
From Coq Require Import ZArith Floats Reals Lra Lia.
From SIDGen Require Generated.
From SID Require Import F64 Line LineA1.

(* the binary64 value of a decimal literal m * 10^e with m and 10^|e| below 2^53: one correctly rounded division (e < 0) —
   the nearest double of the exact quotient, which is what the Go compiler stores for the literal *)
Definition dec2f (d : Z * Z) : float :=
  let '(m, e) := d in
  if (e <? 0)%Z then (of_Z m / of_Z (10 ^ (- e)))%float else of_Z (m * 10 ^ e).
Definition dec2r (d : Z * Z) : R :=
  let '(m, e) := d in if (e <? 0)%Z then (IZR m / IZR (10 ^ (- e)))%R else IZR (m * 10 ^ e).

Lemma line_float_constants_are_generated :
  feqb_bits c_lon_min (dec2f Generated.LonMinima) = true /\ feqb_bits c_lat_min (dec2f Generated.LatMinima) = true /\
  feqb_bits c_alt_min (dec2f Generated.AltMinima) = true /\
  feqb_bits c_hz_lon_min (dec2f Generated.HightZoomLonMinima) = true /\
  feqb_bits c_hz_lat_min (dec2f Generated.HightZoomLatMinima) = true /\
  feqb_bits c_hz_alt_min (dec2f Generated.HightZoomAltMinima) = true.
Proof. repeat split; vm_compute; reflexivity. Qed.
Lemma line_switches_are_generated : hz_switch = Generated.LineSwitch_hZoom /\ vz_switch = Generated.LineSwitch_vZoom.
Proof. split; reflexivity. Qed.
Lemma line_real_thresholds_are_generated h v :
  thr_lon h = (if (Generated.LineSwitch_hZoom <=? h)%Z then dec2r Generated.HightZoomLonMinima else dec2r Generated.LonMinima) /\
  thr_lat h = (if (Generated.LineSwitch_hZoom <=? h)%Z then dec2r Generated.HightZoomLatMinima else dec2r Generated.LatMinima) /\
  thr_alt v = (if (Generated.LineSwitch_vZoom <=? v)%Z then dec2r Generated.HightZoomAltMinima else dec2r Generated.AltMinima).
Proof.
  unfold thr_lon, thr_lat, thr_alt, dec2r, Generated.LineSwitch_hZoom, Generated.LineSwitch_vZoom,
    Generated.HightZoomLonMinima, Generated.LonMinima, Generated.HightZoomLatMinima, Generated.LatMinima,
    Generated.HightZoomAltMinima, Generated.AltMinima.
  split; [|split]; [destruct (31 <=? h)%Z|destruct (31 <=? h)%Z|destruct (34 <=? v)%Z]; cbn; lra.
Qed.
