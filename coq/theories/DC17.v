(* DC17.v — dispatch entries of property C17 (binary-subdivision altitude IDs).
   corr  = the bit-exact model's output equals the implementation's observed output (hooks: the list in order; exported conversions:
           groups in order, pairs / IDs as sorted sets, error as a flag);
   prop  = the observed output is inside 0..2^zoom-1 and is, as a set, exactly the contiguous run demanded by the EXACT reference
           (integer arithmetic on the floats' dyadic values, BitAltRef.v); maxHeight < minHeight must be an error;
   class = `bit_rounding` when the (faithful) float answer differs from the exact one but stays inside the rounding band
           (an altitude within 2^-45 (|min|+|max|) of a cell border); anything farther away is a violation. *)
From Coq Require Import ZArith String List Bool Floats.
From SID Require Import Base Str Ids Wire F64 ExactRef PointF BitAlt BitAltRef.
Import ListNotations.
Open Scope string_scope.

  Definition zlist_eqb (a b : list Z) : bool := list_eqb Z.eqb a b.
  Definition in_range (oz : Z) (l : list Z) : bool := forallb (fun x => (0 <=? x)%Z && (x <? 2 ^ oz)%Z) l.
  (* contiguity of a list on its own: as a set it is the run from its least to its greatest member *)
  Definition contiguous (l : list Z) : bool :=
    match sort_Z l with
    | [] => false
    | x :: r => chain x r (last r x)
    end.
  Definition dy_pair (mx mn : float) : option (dy * dy) :=
    match dyadic mn, dyadic mx with Some a, Some b => Some (a, b) | _, _ => None end.
  Definition pos_zoom (z : Z) : bool := (0 <=? z)%Z && (z <=? 35)%Z.

  (* ---- calcBitIndex ---- *)
  Definition d_calc (args : list val) (obs : val) : verdict :=
    match args, obs with
    | [VF alt; VZ zoom; VF mx; VF mn], VZ o =>
        let m := calc_bit_index alt zoom mx mn in
        let corr := (m =? o)%Z in
        let rng := if (0 <=? zoom)%Z then (0 <=? o)%Z && (o <? 2 ^ zoom)%Z else (o =? 0)%Z in
        match dy_pair mx mn, dyadic alt with
        | Some (dmn, dmx), Some a =>
            if range_ok dmn dmx && pos_zoom zoom then
              let prop := rng && (o =? idx_ref a dmn dmx zoom)%Z in
              mkv corr prop (if corr && negb prop && rng && idx_band o a dmn dmx zoom then "bit_rounding" else "-") (VZ m)
            else mkv corr rng "-" (VZ m)
        | _, _ => mkv corr rng "-" (VZ m)
        end
    | _, _ => bad_case
    end.

  (* ---- convertVerticallIDToBit ---- *)
  Definition voxel_ok (v f : Z) : bool := pos_zoom v && (- 2 ^ v <=? f)%Z && (f <? 2 ^ v)%Z.
  Definition d_vid_to_bit (args : list val) (obs : val) : verdict :=
    match args, as_LZ obs with
    | [VZ v; VZ f; VZ oz; VF mx; VF mn], Some o =>
        let m := vid_to_bit v f oz mx mn in
        let corr := zlist_eqb m o in
        let basic := in_range oz o && contiguous o in
        match dy_pair mx mn with
        | Some (dmn, dmx) =>
            if range_ok dmn dmx && pos_zoom oz && voxel_ok v f then
              let prop := basic && check_fwd v f oz dmn dmx o in
              let p := calc_bit_index (vox_alt f v) oz mx mn in
              let q := calc_bit_index (vox_alt (f + 1) v) oz mx mn in
              mkv corr prop (if corr && negb prop && basic && band_fwd v f oz dmn dmx p q then "bit_rounding" else "-") (of_LZ m)
            else mkv corr basic "-" (of_LZ m)
        | None => mkv corr basic "-" (of_LZ m)
        end
    | _, _ => bad_case
    end.

  (* ---- convertBitToVerticalID ---- *)
  Definition d_bit_to_vid (args : list val) (obs : val) : verdict :=
    match args, as_LS obs with
    | [VZ vz; VZ k; VZ oz; VF mx; VF mn], Some o =>
        match bit_to_vid vz k oz mx mn, bit_to_vid_idx vz k oz mx mn with
        | Some m, Some (q, p) =>
            let corr := same_list m o in
            match all_opt (map (parse_vstr oz) o) with
            | Some oi =>
                (* with reversed or equal heights the helper is never called by the exported conversion: nothing is claimed *)
                let basic := if (mn <? mx)%float then contiguous oi else true in
                match dy_pair mx mn with
                | Some (dmn, dmx) =>
                    if range_ok_rev dmn dmx vz k && pos_zoom oz then
                      let prop := basic && check_rev vz k oz dmn dmx oi in
                      mkv corr prop (if corr && negb prop && basic && band_rev vz k oz dmn dmx p q then "bit_rounding" else "-") (of_LS m)
                    else mkv corr basic "-" (of_LS m)
                | None => mkv corr basic "-" (of_LS m)
                end
            | None => mkv corr false "-" (of_LS m)
            end
        | _, _ => bad_case
        end
    | _, _ => bad_case
    end.

  (* ---- exported conversions ---- *)
  Definition o_hkeys (oracle : oracle_t) (h x y outH : Z) : list Z :=
    match as_LZ (oracle "hkeys" [VZ h; VZ x; VZ y; VZ outH]) with Some l => l | None => [] end.
  Definition o_hids (oracle : oracle_t) (qz qk outH : Z) : list string :=
    match as_LS (oracle "hids" [VZ qz; VZ qk; VZ outH]) with Some l => l | None => [] end.

  (* pairs are compared as finite sets *)
  Definition pset (l : list (Z * Z)) : PS.t := fold_left (fun s p => PS.add p s) l PS.empty.
  Definition same_pairs (a b : list (Z * Z)) : bool := PS.equal (pset a) (pset b).
  Definition as_pair (v : val) : option (Z * Z) := match v with VL [VZ a; VZ b] => Some (a, b) | _ => None end.
  (* observed group: [quadkeyZoom; vZoom; maxHeight; minHeight; pairs] *)
  Record ogroup := { g_hz : Z; g_vz : Z; g_max : float; g_min : float; g_pairs : list (Z * Z) }.
  Definition as_group (v : val) : option ogroup :=
    match v with
    | VL [VZ a; VZ b; VF c; VF d; l] =>
        match as_L l with
        | Some ps => match all_opt (map as_pair ps) with
                     | Some r => Some {| g_hz := a; g_vz := b; g_max := c; g_min := d; g_pairs := r |}
                     | None => None end
        | None => None end
    | _ => None
    end.
  Definition as_groups (v : val) : option (list ogroup) :=
    match as_L v with Some l => all_opt (map as_group l) | None => None end.
  Fixpoint groups_eq (outH outV : Z) (mx mn : float) (m : list (list (Z * Z))) (o : list ogroup) : bool :=
    match m, o with
    | [], [] => true
    | a :: m', g :: o' =>
        (g_hz g =? outH)%Z && (g_vz g =? outV)%Z && feqb_bits (g_max g) mx && feqb_bits (g_min g) mn &&
        same_pairs a (g_pairs g) && groups_eq outH outV mx mn m' o'
    | _, _ => false
    end.
  Definition of_groups (m : list (list (Z * Z))) : val := VL (map (fun a => VL (map (fun p => VL [VZ (fst p); VZ (snd p)]) a)) m).

  (* exact expectation: all (quadkey, index) pairs of all IDs, vertical part from the exact reference *)
  Definition ref_pairs (oracle : oracle_t) (ids : list eid) (outH outV : Z) (dmn dmx : dy) : list (Z * Z) :=
    flat_map (fun i => let '(lo, hi) := fwd_ref (ev i) (ef i) outV dmn dmx in
                       flat_map (fun q => map (fun v => (q, v)) (zrange lo hi)) (o_hkeys oracle (eh i) (ex i) (ey i) outH)) ids.
  Definition band_ids (ids : list eid) (outV : Z) (mx mn : float) (dmn dmx : dy) : bool :=
    forallb (fun i => band_fwd (ev i) (ef i) outV dmn dmx (calc_bit_index (vox_alt (ef i) (ev i)) outV mx mn)
                                (calc_bit_index (vox_alt (ef i + 1) (ev i)) outV mx mn)) ids.

  (* the harness refuses (with a string) to call the implementation on inputs whose output would be enormous: not a case *)
  Definition is_refusal (obs : val) : bool := match obs with VS _ => true | _ => false end.
  Definition d_to_qv (sid : bool) (oracle : oracle_t) (args : list val) (obs : val) : verdict :=
    if is_refusal obs then bad_case else
    match args with
    | [idsv; VZ outH; VZ outV; VF mx; VF mn] =>
        match as_LS idsv with
        | Some ids =>
            let hk := o_hkeys oracle in
            let m := if sid then sid_to_qv hk ids outH outV mx mn else ext_to_qv hk ids outH outV mx mn in
            let og := if is_err obs then None else as_groups obs in
            let corr := match m, og with
                        | Err, None => is_err obs
                        | Ok a, Some o => groups_eq outH outV mx mn a o
                        | _, _ => false end in
            let mval := match m with Ok a => of_groups a | Err => VE VNil end in
            if (mx <? mn)%float then
              (* reversed heights: an error as soon as there is an ID to convert *)
              mkv corr (match ids with [] => true | _ => is_err obs end) "-" mval
            else if (mn <? mx)%float then
              match m, og with
              | Ok a, Some o =>
                  let eids := if sid then match map_opt sid_to_eid_str ids with Some e => e | None => [] end else ids in
                  let allp := flat_map g_pairs o in
                  let basic := in_range outV (map snd allp) in
                  match dy_pair mx mn, parse_all eids with
                  | Some (dmn, dmx), Some pids =>
                      if range_ok dmn dmx && forallb (fun i => voxel_ok (ev i) (ef i)) pids then
                        let prop := basic && same_pairs allp (ref_pairs oracle pids outH outV dmn dmx) in
                        mkv corr prop (if corr && negb prop && basic && band_ids pids outV mx mn dmn dmx then "bit_rounding" else "-") mval
                      else mkv corr basic "-" mval
                  | _, _ => mkv corr basic "-" mval
                  end
              | Ok _, None => mkv corr false "-" mval        (* valid input, height range given: the conversion must succeed *)
              | Err, _ => mkv corr true "-" mval             (* malformed input / zoom out of range: the subject of C15 *)
              end
            else mkv corr true "-" mval                      (* equal heights (plain zoom change) or NaN: not this property *)
        | None => bad_case
        end
    | _ => bad_case
    end.

  Definition as_qvid (v : val) : option qvid :=
    match v with
    | VL [VZ a; VZ b; VZ c; VZ d; VF e; VF f] => Some {| q_hz := a; q_key := b; q_vz := c; q_idx := d; q_max := e; q_min := f |}
    | _ => None
    end.
  Definition ref_ids (oracle : oracle_t) (l : list qvid) (outH outV : Z) : option (list string) :=
    match all_opt (map (fun q => match dy_pair (q_max q) (q_min q) with
                                 | Some (dmn, dmx) =>
                                     if range_ok_rev dmn dmx (q_vz q) (q_idx q) then
                                       let '(lo, hi) := rev_ref (q_vz q) (q_idx q) outV dmn dmx in
                                       let vs := map (vstr outV) (zrange lo hi) in
                                       Some (flat_map (fun hs => map (fun v => hs ++ "/" ++ v) vs) (o_hids oracle (q_hz q) (q_key q) outH))
                                     else None
                                 | None => None end) l) with
    | Some ll => Some (concat ll)
    | None => None
    end.
  Definition band_qvids (l : list qvid) (outV : Z) : bool :=
    forallb (fun q => match dy_pair (q_max q) (q_min q), bit_to_vid_idx (q_vz q) (q_idx q) outV (q_max q) (q_min q) with
                      | Some (dmn, dmx), Some (hi, lo) => band_rev (q_vz q) (q_idx q) outV dmn dmx lo hi
                      | _, _ => false end) l.
  (* sid = true: ConvertQuadkeysAndVerticalIDsToSpatialIDs, arguments [items; outputZoom], IDs in the notation z/f/x/y *)
  Definition to_sids (sid : bool) (l : list string) : option (list string) := if sid then map_opt eid_to_sid_str l else Some l.
  Definition d_from_qv (sid : bool) (oracle : oracle_t) (args : list val) (obs : val) : verdict :=
    if is_refusal obs then bad_case else
    match (match args, sid with
           | [VL lv; VZ outH; VZ outV], false => Some (lv, outH, outV)
           | [VL lv; VZ z], true => Some (lv, z, z)
           | _, _ => None end) with
    | Some (lv, outH, outV) =>
        match all_opt (map as_qvid lv) with
        | Some l =>
            match (if sid then qv_to_sid (o_hids oracle) l outH else qv_to_ext (o_hids oracle) l outH outV) with
            | None => bad_case
            | Some m =>
                let os := if is_err obs then None else as_LS obs in
                let corr := match m, os with
                            | Err, None => is_err obs
                            | Ok a, Some o => same_strings a o
                            | _, _ => false end in
                let mval := match m with Ok a => of_LS a | Err => VE VNil end in
                if existsb (fun q => (q_max q <? q_min q)%float) l then mkv corr (is_err obs) "-" mval
                else match m, os with
                     | Ok a, Some o =>
                         match (match ref_ids oracle l outH outV with Some r => to_sids sid r | None => None end) with
                         | Some r =>
                             (* the observed set must be the WHOLE reference run of every element: both bounds of the cell's interval *)
                             let prop := same_strings o r in
                             mkv corr prop (if corr && negb prop && band_qvids l outV then "bit_rounding" else "-") mval
                         | None => mkv corr true "-" mval     (* equal heights or a range outside the claimed domain *)
                         end
                     | Ok _, None => mkv corr false "-" mval
                     | Err, _ => mkv corr true "-" mval
                     end
            end
        | None => bad_case
        end
    | None => bad_case
    end.

Definition table_C17 : table :=
  [("calcBitIndex", fun _ => d_calc); ("convertVerticallIDToBit", fun _ => d_vid_to_bit); ("convertBitToVerticalID", fun _ => d_bit_to_vid);
   ("ConvertExtendedSpatialIDsToQuadkeysAndVerticalIDs", d_to_qv false); ("ConvertSpatialIDsToQuadkeysAndVerticalIDs", d_to_qv true);
   ("ConvertQuadkeysAndVerticalIDsToExtendedSpatialIDs", d_from_qv false); ("ConvertQuadkeysAndVerticalIDsToSpatialIDs", d_from_qv true)].
