(* DC17.v — dispatch entries of property C17 (binary-subdivision altitude IDs).
   corr  = the bit-exact model's output equals the implementation's observed output (hooks: the list in order; exported conversions:
           groups in order, pairs / IDs as sorted sets, error as a flag);
   prop  = the observed output is inside 0..2^zoom-1 and is, as a set, exactly the contiguous run demanded by the EXACT reference
           (integer arithmetic on the floats' dyadic values, BitAltRef.v); maxHeight < minHeight must be an error;
   class = `bit_rounding` (forward) / `bit_rounding_reverse` when the (faithful) float answer differs from the exact one but stays inside the
           rounding band of BitAltRef.v ((zoom+1) resp. 4 units of 2^-52 (|min|+|max|)); anything farther away is a violation;
   Outside the property's quantifier (|index| >= 2^62, zooms the helpers are never called with, a helper called with max <= min) the entry
   answers bad_case: such a case must not be generated. *)
From Coq Require Import ZArith String List Bool Floats.
From SID Require Import Base Str Ids Wire F64 ExactRef PointF BitAlt BitAltRef.
Import ListNotations.
Open Scope string_scope.

  Definition zlist_eqb (a b : list Z) : bool := list_eqb Z.eqb a b.
  Definition in_range (oz : Z) (l : list Z) : bool := forallb (fun x => (0 <=? x)%Z && (x <? 2 ^ oz)%Z) l.
  (* contiguity of a list on its own: as a set it is the run from its least to its greatest member *)
  Definition contiguous (l : list Z) : bool :=
    match sort_Z l with
    | [] => false
    | x :: r => chain x r (last r x)
    end.
  Definition dy_pair (mx mn : float) : option (dy * dy) :=
    match dyadic mn, dyadic mx with Some a, Some b => Some (a, b) | _, _ => None end.
  Definition pos_zoom (z : Z) : bool := (0 <=? z)%Z && (z <=? 35)%Z.
  (* F64.of_Z models float64(int64) below 2^63 only; vIndex+1 must not wrap *)
  Definition int_ok (z : Z) : bool := (Z.abs z <? 2 ^ 62)%Z.

  (* ---- calcBitIndex ---- *)
  Definition d_calc (args : list val) (obs : val) : verdict :=
    match args, obs with
    | [VF alt; VZ zoom; VF mx; VF mn], VZ o =>
        if (62 <? zoom)%Z then bad_case else     (* the int64 accumulator wraps: outside every zoom the library accepts *)
        let m := calc_bit_index alt zoom mx mn in
        let corr := (m =? o)%Z in
        let rng := if (0 <=? zoom)%Z then (0 <=? o)%Z && (o <? 2 ^ zoom)%Z else (o =? 0)%Z in
        match dy_pair mx mn, dyadic alt with
        | Some (dmn, dmx), Some a =>
            if range_ok dmn dmx && pos_zoom zoom then
              let prop := rng && (o =? idx_ref a dmn dmx zoom)%Z in
              mkv corr prop (if corr && negb prop && rng && idx_band o a dmn dmx zoom then "bit_rounding" else "-") (VZ m)
            else mkv corr rng "-" (VZ m)
        | _, _ => mkv corr rng "-" (VZ m)
        end
    | _, _ => bad_case
    end.

  (* ---- convertVerticallIDToBit ---- *)
  Definition voxel_ok (v f : Z) : bool := pos_zoom v && (- 2 ^ v <=? f)%Z && (f <? 2 ^ v)%Z.
  Definition d_vid_to_bit (args : list val) (obs : val) : verdict :=
    match args, as_LZ obs with
    | [VZ v; VZ f; VZ oz; VF mx; VF mn], Some o =>
        if negb (pos_zoom v && int_ok f && (oz <=? 62)%Z) then bad_case else
        let m := vid_to_bit v f oz mx mn in
        let corr := zlist_eqb m o in
        let basic := in_range oz o && contiguous o in
        match dy_pair mx mn with
        | Some (dmn, dmx) =>
            if range_ok dmn dmx && pos_zoom oz && voxel_ok v f then
              let prop := basic && check_fwd v f oz dmn dmx o in
              let p := calc_bit_index (vox_alt f v) oz mx mn in
              let q := calc_bit_index (vox_alt (f + 1) v) oz mx mn in
              mkv corr prop (if corr && negb prop && basic && band_fwd v f oz dmn dmx p q then "bit_rounding" else "-") (of_LZ m)
            else mkv corr basic "-" (of_LZ m)
        | None => mkv corr basic "-" (of_LZ m)
        end
    | _, _ => bad_case
    end.

  (* ---- convertBitToVerticalID ---- *)
  Definition d_bit_to_vid (args : list val) (obs : val) : verdict :=
    match args, as_LS obs with
    | [VZ vz; VZ k; VZ oz; VF mx; VF mn], Some o =>
        (* the exported conversion calls the helper only with max > min and checked zooms: anything else is outside the quantifier *)
        if negb (pos_zoom vz && pos_zoom oz && int_ok k && (mn <? mx)%float) then bad_case else
        match bit_to_vid vz k oz mx mn, bit_to_vid_idx vz k oz mx mn with
        | Some m, Some (q, p) =>
            let corr := same_list m o in
            match all_opt (map (parse_vstr oz) o) with
            | Some oi =>
                let basic := contiguous oi in
                match dy_pair mx mn with
                | Some (dmn, dmx) =>
                    if range_ok_rev dmn dmx vz k then
                      (* the observed set must be the whole exact run: from the floor of the exact lower bound to the floor of the exact upper bound *)
                      let prop := basic && check_rev vz k oz dmn dmx oi in
                      mkv corr prop (if corr && negb prop && basic && band_rev vz k oz dmn dmx p q then "bit_rounding_reverse" else "-") (of_LS m)
                    else mkv corr basic "-" (of_LS m)
                | None => bad_case
                end
            | None => mkv corr false "-" (of_LS m)
            end
        | _, _ => bad_case
        end
    | _, _ => bad_case
    end.

  (* ---- exported conversions ---- *)
  Definition o_hkeys (oracle : oracle_t) (h x y outH : Z) : list Z :=
    match as_LZ (oracle "hkeys" [VZ h; VZ x; VZ y; VZ outH]) with Some l => l | None => [] end.
  Definition o_hids (oracle : oracle_t) (qz qk outH : Z) : list string :=
    match as_LS (oracle "hids" [VZ qz; VZ qk; VZ outH]) with Some l => l | None => [] end.

  Definition hkeys_ok (oracle : oracle_t) (outH : Z) (i : eid) : bool :=
    match as_LZ (oracle "hkeys" [VZ (eh i); VZ (ex i); VZ (ey i); VZ outH]) with Some _ => true | None => false end.
  Definition hids_ok (oracle : oracle_t) (outH : Z) (qz qk : Z) : bool :=
    match as_LS (oracle "hids" [VZ qz; VZ qk; VZ outH]) with Some _ => true | None => false end.

  (* pairs are compared as finite sets *)
  Definition pset (l : list (Z * Z)) : PS.t := fold_left (fun s p => PS.add p s) l PS.empty.
  Definition same_pairs (a b : list (Z * Z)) : bool := PS.equal (pset a) (pset b).
  Definition as_pair (v : val) : option (Z * Z) := match v with VL [VZ a; VZ b] => Some (a, b) | _ => None end.
  (* observed group: [quadkeyZoom; vZoom; maxHeight; minHeight; pairs] *)
  Record ogroup := { g_hz : Z; g_vz : Z; g_max : float; g_min : float; g_pairs : list (Z * Z) }.
  Definition as_group (v : val) : option ogroup :=
    match v with
    | VL [VZ a; VZ b; VF c; VF d; l] =>
        match as_L l with
        | Some ps => match all_opt (map as_pair ps) with
                     | Some r => Some {| g_hz := a; g_vz := b; g_max := c; g_min := d; g_pairs := r |}
                     | None => None end
        | None => None end
    | _ => None
    end.
  Definition as_groups (v : val) : option (list ogroup) :=
    match as_L v with Some l => all_opt (map as_group l) | None => None end.
  Fixpoint groups_eq (outH outV : Z) (mx mn : float) (m : list (list (Z * Z))) (o : list ogroup) : bool :=
    match m, o with
    | [], [] => true
    | a :: m', g :: o' =>
        (g_hz g =? outH)%Z && (g_vz g =? outV)%Z && feqb_bits (g_max g) mx && feqb_bits (g_min g) mn &&
        same_pairs a (g_pairs g) && groups_eq outH outV mx mn m' o'
    | _, _ => false
    end.
  Definition of_groups (m : list (list (Z * Z))) : val := VL (map (fun a => VL (map (fun p => VL [VZ (fst p); VZ (snd p)]) a)) m).

  (* exact expectation: all (quadkey, index) pairs of all IDs, vertical part from the exact reference *)
  Definition ref_pairs (oracle : oracle_t) (ids : list eid) (outH outV : Z) (dmn dmx : dy) : list (Z * Z) :=
    flat_map (fun i => let '(lo, hi) := fwd_ref (ev i) (ef i) outV dmn dmx in
                       flat_map (fun q => map (fun v => (q, v)) (zrange lo hi)) (o_hkeys oracle (eh i) (ex i) (ey i) outH)) ids.
  Definition band_ids (ids : list eid) (outV : Z) (mx mn : float) (dmn dmx : dy) : bool :=
    forallb (fun i => band_fwd (ev i) (ef i) outV dmn dmx (calc_bit_index (vox_alt (ef i) (ev i)) outV mx mn)
                                (calc_bit_index (vox_alt (ef i + 1) (ev i)) outV mx mn)) ids.

  (* the harness refuses (with a string) to call the implementation on inputs whose output would be enormous: not a case *)
  Definition is_refusal (obs : val) : bool := match obs with VS _ => true | _ => false end.
  Definition d_to_qv (sid : bool) (oracle : oracle_t) (args : list val) (obs : val) : verdict :=
    if is_refusal obs then bad_case else
    match args with
    | [idsv; VZ outH; VZ outV; VF mx; VF mn] =>
        match as_LS idsv with
        | Some ids =>
            let eids := if sid then match map_opt sid_to_eid_str ids with Some e => e | None => [] end else ids in
            let zooms_ok := quadkey_check_zoom outH outV in
            (* well-formed IDs whose horizontal part the code will expand: indices must be in the model's domain and the oracle must answer *)
            let wf := flat_map (fun s => match parse_eid s with Some i => if ext_check_zoom (eh i) (ev i) then [i] else [] | None => [] end) eids in
            if negb (forallb (fun i => int_ok (ef i)) wf) then bad_case
            else if zooms_ok && negb (forallb (hkeys_ok oracle outH) wf) then bad_case
            else
            let hk := o_hkeys oracle in
            let m := if sid then sid_to_qv hk ids outH outV mx mn else ext_to_qv hk ids outH outV mx mn in
            let og := if is_err obs then None else as_groups obs in
            let corr := match m, og with
                        | Err, None => is_err obs
                        | Ok a, Some o => groups_eq outH outV mx mn a o
                        | _, _ => false end in
            let mval := match m with Ok a => of_groups a | Err => VE VNil end in
            if (mx <? mn)%float then
              (* reversed heights must be an error for every NON-empty list. With an empty list no voxel is interpreted: the property (which quantifies
                 over voxels) demands nothing, either outcome is accepted; corr still compares with the model (which returns Ok [] like the code) *)
              mkv corr (match ids with [] => true | _ => is_err obs end) "-" mval
            else if (mn <? mx)%float then
              match m, og with
              | Ok a, Some o =>
                  let allp := flat_map g_pairs o in
                  let basic := in_range outV (map snd allp) in
                  match dy_pair mx mn, parse_all eids with
                  | Some (dmn, dmx), Some pids =>
                      if range_ok dmn dmx && forallb (fun i => voxel_ok (ev i) (ef i)) pids then
                        let prop := basic && same_pairs allp (ref_pairs oracle pids outH outV dmn dmx) in
                        mkv corr prop (if corr && negb prop && basic && band_ids pids outV mx mn dmn dmx then "bit_rounding" else "-") mval
                      else mkv corr basic "-" mval
                  | _, _ => mkv corr basic "-" mval
                  end
              | Ok _, None => mkv corr false "-" mval        (* valid input, height range given: the conversion must succeed *)
              | Err, _ => mkv corr true "-" mval             (* malformed input / zoom out of range: the subject of C15; corr compares the flag *)
              end
            else mkv corr true "-" mval                      (* equal heights (plain zoom change) or NaN: not this property; corr still compares *)
        | None => bad_case
        end
    | _ => bad_case
    end.

  Definition as_qvid (v : val) : option qvid :=
    match v with
    | VL [VZ a; VZ b; VZ c; VZ d; VF e; VF f] => Some {| q_hz := a; q_key := b; q_vz := c; q_idx := d; q_max := e; q_min := f |}
    | _ => None
    end.
  (* exact expectation of ONE element: None when the element is outside the domain of the reference (equal heights, non-finite or huge bounds,
     |k| > 2^(vz+1)) *)
  Definition ref_one (oracle : oracle_t) (outH outV : Z) (q : qvid) : option (list string) :=
    match dy_pair (q_max q) (q_min q) with
    | Some (dmn, dmx) =>
        if range_ok_rev dmn dmx (q_vz q) (q_idx q) then
          let '(lo, hi) := rev_ref (q_vz q) (q_idx q) outV dmn dmx in
          let vs := map (vstr outV) (zrange lo hi) in
          Some (flat_map (fun hs => map (fun v => hs ++ "/" ++ v) vs) (o_hids oracle (q_hz q) (q_key q) outH))
        else None
    | None => None
    end.
  Definition band_qvids (l : list qvid) (outV : Z) : bool :=
    forallb (fun q => match dy_pair (q_max q) (q_min q), bit_to_vid_idx (q_vz q) (q_idx q) outV (q_max q) (q_min q) with
                      | Some (dmn, dmx), Some (hi, lo) => band_rev (q_vz q) (q_idx q) outV dmn dmx lo hi
                      | _, _ => false end) l.
  (* sid = true: ConvertQuadkeysAndVerticalIDsToSpatialIDs, arguments [items; outputZoom], IDs in the notation z/f/x/y *)
  Definition to_sids (sid : bool) (l : list string) : option (list string) := if sid then map_opt eid_to_sid_str l else Some l.
  (* an observed ID as (horizontal part "h/x/y", vertical zoom, vertical index) *)
  Definition split_id (sid : bool) (s : string) : option (string * Z * Z) :=
    match split s, sid with
    | [h; x; y; v; f], false => match parse v, parse f with Some vz, Some i => Some (join [h; x; y], vz, i) | _, _ => None end
    | [z; f; x; y], true => match parse z, parse f with Some vz, Some i => Some (join [z; x; y], vz, i) | _, _ => None end
    | _, _ => None
    end.
  Definition smemb (s : string) (l : list string) : bool := existsb (String.eqb s) l.
  (* fallback for the elements the reference does not cover: every ID that no in-domain element explains parses, carries the output zoom and the
     horizontal part of one of those elements; and when a horizontal part belongs to a single element of the call, its indices are contiguous *)
  Definition basic_rest (sid : bool) (oracle : oracle_t) (l outdom : list qvid) (outH outV : Z) (obs rest : list string) : bool :=
    let hs_out := flat_map (fun q => o_hids oracle (q_hz q) (q_key q) outH) outdom in
    let hs_all := flat_map (fun q => o_hids oracle (q_hz q) (q_key q) outH) l in
    match all_opt (map (split_id sid) obs) with
    | None => false
    | Some po =>
        forallb (fun s => match split_id sid s with
                          | Some (hs, vz, _) => (vz =? outV)%Z && smemb hs hs_out
                          | None => false end) rest &&
        forallb (fun hs => if (1 <? Z.of_nat (List.length (filter (String.eqb hs) hs_all)))%Z then true
                           else let vs := flat_map (fun t => let '(h, _, i) := t in if String.eqb h hs then [i] else []) po in
                                contiguous vs) hs_out
    end.
  Definition d_from_qv (sid : bool) (oracle : oracle_t) (args : list val) (obs : val) : verdict :=
    if is_refusal obs then bad_case else
    match (match args, sid with
           | [VL lv; VZ outH; VZ outV], false => Some (lv, outH, outV)
           | [VL lv; VZ z], true => Some (lv, z, z)
           | _, _ => None end) with
    | Some (lv, outH, outV) =>
        match all_opt (map as_qvid lv) with
        | Some l =>
            let expanded := filter (fun q => quadkey_check_zoom (q_hz q) (q_vz q)) l in
            if negb (forallb (fun q => int_ok (q_idx q)) l) then bad_case
            else if ext_check_zoom outH outV && negb (forallb (fun q => hids_ok oracle outH (q_hz q) (q_key q)) expanded) then bad_case
            else
            match (if sid then qv_to_sid (o_hids oracle) l outH else qv_to_ext (o_hids oracle) l outH outV) with
            | None => bad_case
            | Some m =>
                let os := if is_err obs then None else as_LS obs in
                let corr := match m, os with
                            | Err, None => is_err obs
                            | Ok a, Some o => same_strings a o
                            | _, _ => false end in
                let mval := match m with Ok a => of_LS a | Err => VE VNil end in
                if existsb (fun q => (q_max q <? q_min q)%float) l then mkv corr (is_err obs) "-" mval
                else match m, os with
                     | Ok a, Some o =>
                         (* element by element: in-domain elements must contribute exactly their whole reference run (both bounds of the cell);
                            the others fall back to the basic check *)
                         let refs := map (fun q => (q, ref_one oracle outH outV q)) l in
                         let indom := flat_map (fun t => match snd t with Some r => r | None => [] end) refs in
                         let outdom := flat_map (fun t => match snd t with Some _ => [] | None => [fst t] end) refs in
                         match to_sids sid indom with
                         | Some r =>
                             let prop := match outdom with
                                         | [] => same_strings o r          (* every element in the domain: the observed set is exactly the reference *)
                                         | _ => forallb (fun s => smemb s o) r &&
                                                basic_rest sid oracle l outdom outH outV o (filter (fun s => negb (smemb s r)) o)
                                         end in
                             let indom_q := flat_map (fun t => match snd t with Some _ => [fst t] | None => [] end) refs in
                             mkv corr prop (if corr && negb prop && match outdom with [] => true | _ => false end && band_qvids indom_q outV
                                            then "bit_rounding_reverse" else "-") mval
                         | None => bad_case
                         end
                     | Ok _, None => mkv corr false "-" mval
                     | Err, _ => mkv corr true "-" mval          (* zoom / quadkey / index errors: the subject of C15; corr compares the flag *)
                     end
            end
        | None => bad_case
        end
    | None => bad_case
    end.

(* the seven entries judged call by call *)
Definition table_C17_calls : table :=
  [("calcBitIndex", fun _ => d_calc); ("convertVerticallIDToBit", fun _ => d_vid_to_bit); ("convertBitToVerticalID", fun _ => d_bit_to_vid);
   ("ConvertExtendedSpatialIDsToQuadkeysAndVerticalIDs", d_to_qv false); ("ConvertSpatialIDsToQuadkeysAndVerticalIDs", d_to_qv true);
   ("ConvertQuadkeysAndVerticalIDsToExtendedSpatialIDs", d_from_qv false); ("ConvertQuadkeysAndVerticalIDsToSpatialIDs", d_from_qv true)].

(* ---- histories: a case "Sequence" is a list of steps [function; arguments; scribble?] executed back to back in one process (after a fixed
   priming call), with the caller overwriting its own argument slices / objects and the returned slices after the steps marked `scribble`.
   The model is a pure function, so every step is judged exactly like a standalone call on its own arguments and its own observed output
   (seq_judge_independent below); on top of that the results the caller kept must still read the same after the later calls (`stable`). ---- *)
Definition judge (oracle : oracle_t) (step obs : val) : verdict :=
  match step with
  | VL [VS fn; VL args; VB _] => run_table table_C17_calls oracle fn args obs
  | _ => bad_case
  end.
Fixpoint seq_judge (oracle : oracle_t) (steps obs : list val) : list verdict :=
  match steps, obs with
  | s :: steps', o :: obs' => judge oracle s o :: seq_judge oracle steps' obs'
  | _, _ => []
  end.
Definition is_bad (v : verdict) : bool := String.eqb (v_class v) "bad-case".
Definition excused (v : verdict) : bool := negb (String.eqb (v_class v) "-") && negb (is_bad v).
Definition d_sequence (oracle : oracle_t) (args : list val) (obs : val) : verdict :=
  match args, obs with
  | [VL steps], VL [VL results; VB stable] =>
      if negb (Nat.eqb (List.length steps) (List.length results)) then bad_case
      else let vs := seq_judge oracle steps results in
           if existsb is_bad vs then bad_case
           else mkv (forallb v_corr vs)
                    (stable && forallb (fun v => v_prop v || excused v) vs)   (* a step inside a listed finding class is excused, that step only *)
                    "-" (VL (map v_model vs))
  | _, _ => bad_case
  end.

(* the verdict on a step of a history is the verdict of the standalone call with that step's own arguments and observed output,
   whatever calls precede or follow it *)
Lemma seq_judge_independent oracle : forall pre opre s o post opost, List.length pre = List.length opre ->
  nth_error (seq_judge oracle (pre ++ s :: post) (opre ++ o :: opost)) (List.length pre) = Some (judge oracle s o).
Proof.
  induction pre as [|a pre IH]; intros [|b opre] s o post opost H; try discriminate; [reflexivity|].
  cbn [app seq_judge List.length nth_error]. apply IH. now inversion H.
Qed.
Lemma seq_judge_length oracle : forall steps obs, List.length steps = List.length obs -> List.length (seq_judge oracle steps obs) = List.length steps.
Proof. induction steps as [|a r IH]; intros [|b obs] H; try discriminate; [reflexivity|]. cbn. f_equal. apply IH. now inversion H. Qed.

Definition table_C17 : table := (table_C17_calls ++ [("Sequence", d_sequence)])%list.
