(* DC03.v — dispatch entries of property C03 (zoom change): (arguments, observed output) ↦ verdict.
   corr = the executable model's output equals the implementation's observed output (ID lists as sets without repetition, tuples exactly,
          error as a flag);
   prop = the boolean checker of ChangeZoom.v (proved equivalent to the specification) accepts the implementation's observed output.
   Inputs that parse but are not valid IDs lie outside the property's quantifier: where every zoom field is in 0..35 and every index is below
   2^36 in absolute value the correspondence and a basic well-formedness check of the output are judged, otherwise the case is answered
   "skipped" (not judged, counted separately). A call refused by the invoker (marker value) is "skipped" only if the entry's own estimate
   confirms it is over the cap, otherwise bad_case. *)
From Coq Require Import ZArith String List Bool.
From SID Require Import Base Str Ids Wire ZoomCore ChangeZoom.
Import ListNotations.
Open Scope Z_scope.

Definition skip_marker : string := "skipped-too-large"%string.
Definition is_skip (obs : val) : bool := match obs with VS s => String.eqb s skip_marker | _ => false end.
(* a case that is not judged: counted separately by the runner (guard_skips), neither an evaluation nor a pass *)
Definition skipped : verdict := mkv true true "skipped"%string VNil.
(* the Go invokers refuse a call whose estimated result exceeds go_cap (harness/props/c03: goCap, 20000 for the helpers); the entries below
   recompute the estimate and accept the refusal only when it is justified *)
Definition go_cap : Z := 8000.
Definition helper_cap : Z := 20000.

(* number of IDs produced before de-duplication *)
Definition est_one (H V : Z) (i : eid) : Z := 4 ^ Z.max 0 (H - eh i) * 2 ^ Z.max 0 (V - ev i).
Definition est (es : list eid) (H V : Z) : Z := fold_right (fun i acc => est_one H V i + acc) 0 es.
(* fields small enough that the int64 code cannot wrap and 2^|dz| is exact *)
Definition small_eid (i : eid) : bool :=
  check_zoom (eh i) && check_zoom (ev i) && (Z.abs (ex i) <? 2 ^ 36) && (Z.abs (ey i) <? 2 ^ 36) && (Z.abs (ef i) <? 2 ^ 36).

(* compare a list-valued model result with the observed value *)
Definition verdict_ids (m : result (list string)) (obs : val) (chk : list string -> bool) : verdict :=
  match m with
  | Err => let e := is_err obs in mkv e e "-"%string (VE VNil)
  | Ok ml =>
      match obs with
      | VE _ => mkv false false "-"%string (of_LS ml)
      | _ => match as_LS obs with
             | Some ol => mkv (same_set ml ol && Nat.eqb (length ml) (length ol)) (chk ol) "-"%string (of_LS ml)
             | None => bad_case
             end
      end
  end.

(* what holds of every successful result whatever the inputs are (used where the inputs parse but are not valid IDs, i.e. outside the
   property's quantifier): every string is the ID() string of an ID at the requested zooms, no repetition *)
Definition check_basic (pr : eid -> string) (pa : string -> option eid) (H V : Z) (obs : list string) : bool :=
  match map_opt pa obs with
  | None => false
  | Some ts => list_eqb String.eqb (map pr ts) obs && nodup_ok eid_eqb ts && forallb (fun o => (eh o =? H) && (ev o =? V)) ts
  end.

Definition decide (zoom_ok : bool) (parsed : option (list eid)) (H V : Z) (slow : unit -> result (list string))
    (pr : eid -> string) (pa : string -> option eid) (chk : list eid -> list string -> bool) (obs : val) : verdict :=
  match parsed with
  | Some es =>
      if negb (forallb small_eid es) then (if zoom_ok then skipped else verdict_ids Err obs (fun _ => false))   (* absurd fields: not comparable with int64 code *)
      else if negb zoom_ok then (if is_skip obs then bad_case else verdict_ids (slow tt) obs (fun _ => false))
      else if is_skip obs then (if go_cap <? est es H V then skipped else bad_case)
      else if go_cap <? est es H V then bad_case      (* never generated; the invoker must have refused it *)
      else if forallb validb es then verdict_ids (Ok (map pr (change_eids es H V))) obs (chk es)   (* = the API model: change_*_api_parsed *)
      else verdict_ids (slow tt) obs (check_basic pr pa H V)
  | None => if is_skip obs then bad_case else verdict_ids (slow tt) obs (fun _ => false)
  end.

(* ChangeExtendedSpatialIdsZoom(ids, hZoom, vZoom) *)
Definition d_ext (args : list val) (obs : val) : verdict :=
  match args with
  | [ids; VZ H; VZ V] =>
      match as_LS ids with
      | Some sl => decide (check_zoom H && check_zoom V) (parse_all sl) H V (fun _ => change_ext_api sl H V) print_eid parse_eid
                     (fun es => check_change es H V) obs
      | None => bad_case
      end
  | _ => bad_case
  end.

(* ChangeSpatialIdsZoom(ids, zoom) *)
Definition d_sid (args : list val) (obs : val) : verdict :=
  match args with
  | [ids; VZ z] =>
      match as_LS ids with
      | Some sl => decide (check_zoom z) (map_opt parse_sid sl) z z (fun _ => change_sid_api sl z) print_sid parse_sid
                     (fun es => check_change_sid es z) obs
      | None => bad_case
      end
  | _ => bad_case
  end.

(* HorizontalZoom(inputZoom, x, y, outputZoom) *)
Definition small_idx (z : Z) : bool := Z.abs z <? 2 ^ 36.
Definition d_hzoom (args : list val) (obs : val) : verdict :=
  match args with
  | [VZ zin; VZ x; VZ y; VZ zout] =>
      if negb (check_zoom zin && check_zoom zout && small_idx x && small_idx y) then skipped
      else
        let n := 4 ^ Z.max 0 (zout - zin) in
        if is_skip obs then (if helper_cap <? n then skipped else bad_case)
        else if helper_cap <? n then bad_case
        else
          let m := hzoom_strs zin x y zout in
          let dom := (0 <=? x) && (x <? 2 ^ zin) && (0 <=? y) && (y <? 2 ^ zin) in
          verdict_ids (Ok m) obs (fun ol => if dom then check_hzoom zin x y zout ol else nodup_strings ol && Nat.eqb (length ol) (Z.to_nat n))
  | _ => bad_case
  end.

(* VerticalZoom(inputZoom, f, outputZoom) *)
Definition d_vzoom (args : list val) (obs : val) : verdict :=
  match args with
  | [VZ zin; VZ f; VZ zout] =>
      if negb (check_zoom zin && check_zoom zout && small_idx f) then skipped
      else
        let n := 2 ^ Z.max 0 (zout - zin) in
        if is_skip obs then (if helper_cap <? n then skipped else bad_case)
        else if helper_cap <? n then bad_case
        else
          let m := vzoom_strs zin f zout in
          let dom := (- 2 ^ zin <=? f) && (f <? 2 ^ zin) in
          verdict_ids (Ok m) obs (fun ol => if dom then check_vzoom zin f zout ol else nodup_strings ol && Nat.eqb (length ol) (Z.to_nat n))
  | _ => bad_case
  end.

(* HorizontalZoomMinMax(inputZoom, x, y, outputZoom) = (minX, minY, maxX, maxY) *)
Definition d_minmax (args : list val) (obs : val) : verdict :=
  match args with
  | [VZ zin; VZ x; VZ y; VZ zout] =>
      if negb (check_zoom zin && check_zoom zout && small_idx x && small_idx y) then skipped
      else match as_LZ obs with
           | Some ol =>
               let m := hzoom_minmax_l zin x y zout in
               let dom := (0 <=? x) && (x <? 2 ^ zin) && (0 <=? y) && (y <? 2 ^ zin) in
               mkv (list_eqb Z.eqb m ol)
                   (if dom then check_minmax zin x y zout ol
                    else match ol with [a; b; c; d] => (a <=? c) && (b <=? d) | _ => false end) "-"%string (of_LZ m)
           | None => bad_case
           end
  | _ => bad_case
  end.

Definition single_table : table :=
  [("ChangeExtendedSpatialIdsZoom"%string, fun _ => d_ext); ("ChangeSpatialIdsZoom"%string, fun _ => d_sid);
   ("HorizontalZoom"%string, fun _ => d_hzoom); ("VerticalZoom"%string, fun _ => d_vzoom);
   ("HorizontalZoomMinMax"%string, fun _ => d_minmax)].

(* Sequence: calls performed back to back by one invoker (exposes state kept between calls); every call is judged as above *)
(* class of a sequence: a refused element does not excuse a failing one *)
Definition seq_class (v r : verdict) : string :=
  if String.eqb (v_class v) "bad-case" || String.eqb (v_class r) "bad-case" then "bad-case"%string
  else if v_corr v && v_corr r && v_prop v && v_prop r
       then (if String.eqb (v_class v) "skipped" then "skipped"%string else v_class r)
       else "-"%string.
Fixpoint seq_verdict (o : oracle_t) (calls obs : list val) : verdict :=
  match calls, obs with
  | [], [] => mkv true true "-"%string (VL [])
  | VL (VS fn :: VL a :: _) :: cr, ob :: obr =>      (* a third component (the invoker's mode of a History step) is not the model's business *)
      let v := run_table single_table o fn a ob in
      let r := seq_verdict o cr obr in
      mkv (v_corr v && v_corr r) (v_prop v && v_prop r) (seq_class v r)
          (match v_model r with VL l => VL (v_model v :: l) | _ => VNil end)
  | _, _ => bad_case
  end.
Definition d_seq (o : oracle_t) (args : list val) (obs : val) : verdict :=
  match args, obs with
  | [VL calls], VL results => seq_verdict o calls results
  | _, _ => bad_case
  end.

(* History: a sequence of calls performed back to back by one invoker, each step with a mode that says what the *caller* does around the
   call (overwrite its own argument slice after the call, scribble over the returned slice after reading it). The observed value lists
   every step's result twice: as read immediately and as read again after the whole sequence. The model has no state (ChangeZoom.history_irrelevant),
   so both readings of every step are judged exactly like a standalone call with the step's own arguments. *)
Definition combine (v r : verdict) : verdict :=
  mkv (v_corr v && v_corr r) (v_prop v && v_prop r) (seq_class v r) (VL [v_model v; v_model r]).
Definition d_hist (o : oracle_t) (args : list val) (obs : val) : verdict :=
  match args, obs with
  | [VL calls], VL results =>
      let n := length calls in
      if Nat.eqb (length results) (2 * n)
      then combine (seq_verdict o calls (firstn n results)) (seq_verdict o calls (skipn n results))
      else bad_case
  | _, _ => bad_case
  end.

Definition table_C03 : table := single_table ++ [("Sequence"%string, d_seq); ("History"%string, d_hist)].

(* every step of a sequence is judged by the single-call entry of its function on its own arguments and its own observed value *)
Lemma seq_verdict_cons o fn a extra cr ob obr :
  let v := run_table single_table o fn a ob in
  let r := seq_verdict o cr obr in
  v_corr (seq_verdict o (VL (VS fn :: VL a :: extra) :: cr) (ob :: obr)) = v_corr v && v_corr r /\
  v_prop (seq_verdict o (VL (VS fn :: VL a :: extra) :: cr) (ob :: obr)) = v_prop v && v_prop r.
Proof. cbn. split; reflexivity. Qed.
