(* DC03.v — dispatch entries of property C03 (zoom change): (arguments, observed output) ↦ verdict.
   corr = the executable model's output equals the implementation's observed output (ID lists as sets without repetition, tuples exactly,
          error as a flag);
   prop = the boolean checker of ChangeZoom.v (proved equivalent to the specification) accepts the implementation's observed output.
   Inputs that are parseable but not valid IDs lie outside the property's quantifier: only the correspondence is checked there (and only
   where int64 arithmetic cannot wrap); calls whose result would be huge are never generated and are refused here (the shrinker may propose them). *)
From Coq Require Import ZArith String List Bool.
From SID Require Import Base Str Ids Wire ZoomCore ChangeZoom.
Import ListNotations.
Open Scope Z_scope.

Definition skip_marker : string := "skipped-too-large"%string.
Definition is_skip (obs : val) : bool := match obs with VS s => String.eqb s skip_marker | _ => false end.
Definition pass : verdict := mkv true true "-"%string VNil.
Definition cap : Z := 20000.

(* number of IDs produced before de-duplication *)
Definition est_one (H V : Z) (i : eid) : Z := 4 ^ Z.max 0 (H - eh i) * 2 ^ Z.max 0 (V - ev i).
Definition est (es : list eid) (H V : Z) : Z := fold_right (fun i acc => est_one H V i + acc) 0 es.
(* fields small enough that the int64 code cannot wrap and 2^|dz| is exact *)
Definition small_eid (i : eid) : bool :=
  check_zoom (eh i) && check_zoom (ev i) && (Z.abs (ex i) <? 2 ^ 36) && (Z.abs (ey i) <? 2 ^ 36) && (Z.abs (ef i) <? 2 ^ 36).

(* compare a list-valued model result with the observed value *)
Definition verdict_ids (m : result (list string)) (obs : val) (chk : list string -> bool) : verdict :=
  match m with
  | Err => let e := is_err obs in mkv e e "-"%string (VE VNil)
  | Ok ml =>
      match obs with
      | VE _ => mkv false false "-"%string (of_LS ml)
      | _ => match as_LS obs with
             | Some ol => mkv (same_set ml ol && Nat.eqb (length ml) (length ol)) (chk ol) "-"%string (of_LS ml)
             | None => bad_case
             end
      end
  end.

Definition decide (zoom_ok : bool) (parsed : option (list eid)) (H V : Z) (slow : unit -> result (list string))
    (pr : eid -> string) (chk : list eid -> list string -> bool) (obs : val) : verdict :=
  if is_skip obs then pass
  else if negb zoom_ok then verdict_ids (slow tt) obs (fun _ => false)
  else match parsed with
       | None => verdict_ids (slow tt) obs (fun _ => false)
       | Some es =>
           if negb (forallb small_eid es) then pass
           else if cap <? est es H V then bad_case
           else if forallb validb es then verdict_ids (Ok (map pr (change_eids es H V))) obs (chk es)   (* = the API model: change_*_api_parsed *)
           else verdict_ids (slow tt) obs (fun _ => true)
       end.

(* ChangeExtendedSpatialIdsZoom(ids, hZoom, vZoom) *)
Definition d_ext (args : list val) (obs : val) : verdict :=
  match args with
  | [ids; VZ H; VZ V] =>
      match as_LS ids with
      | Some sl => decide (check_zoom H && check_zoom V) (parse_all sl) H V (fun _ => change_ext_api sl H V) print_eid
                     (fun es => check_change es H V) obs
      | None => bad_case
      end
  | _ => bad_case
  end.

(* ChangeSpatialIdsZoom(ids, zoom) *)
Definition d_sid (args : list val) (obs : val) : verdict :=
  match args with
  | [ids; VZ z] =>
      match as_LS ids with
      | Some sl => decide (check_zoom z) (map_opt parse_sid sl) z z (fun _ => change_sid_api sl z) print_sid
                     (fun es => check_change_sid es z) obs
      | None => bad_case
      end
  | _ => bad_case
  end.

(* HorizontalZoom(inputZoom, x, y, outputZoom) *)
Definition small_idx (z : Z) : bool := Z.abs z <? 2 ^ 36.
Definition d_hzoom (args : list val) (obs : val) : verdict :=
  match args with
  | [VZ zin; VZ x; VZ y; VZ zout] =>
      if is_skip obs then pass
      else if negb (check_zoom zin && check_zoom zout && small_idx x && small_idx y) then pass
      else if 7 <? zout - zin then bad_case
      else
        let m := hzoom_strs zin x y zout in
        let dom := (0 <=? x) && (x <? 2 ^ zin) && (0 <=? y) && (y <? 2 ^ zin) in
        verdict_ids (Ok m) obs (fun ol => if dom then check_hzoom zin x y zout ol else true)
  | _ => bad_case
  end.

(* VerticalZoom(inputZoom, f, outputZoom) *)
Definition d_vzoom (args : list val) (obs : val) : verdict :=
  match args with
  | [VZ zin; VZ f; VZ zout] =>
      if is_skip obs then pass
      else if negb (check_zoom zin && check_zoom zout && small_idx f) then pass
      else if 14 <? zout - zin then bad_case
      else
        let m := vzoom_strs zin f zout in
        let dom := (- 2 ^ zin <=? f) && (f <? 2 ^ zin) in
        verdict_ids (Ok m) obs (fun ol => if dom then check_vzoom zin f zout ol else true)
  | _ => bad_case
  end.

(* HorizontalZoomMinMax(inputZoom, x, y, outputZoom) = (minX, minY, maxX, maxY) *)
Definition d_minmax (args : list val) (obs : val) : verdict :=
  match args with
  | [VZ zin; VZ x; VZ y; VZ zout] =>
      if negb (check_zoom zin && check_zoom zout && small_idx x && small_idx y) then pass
      else match as_LZ obs with
           | Some ol =>
               let m := hzoom_minmax_l zin x y zout in
               let dom := (0 <=? x) && (x <? 2 ^ zin) && (0 <=? y) && (y <? 2 ^ zin) in
               mkv (list_eqb Z.eqb m ol) (if dom then check_minmax zin x y zout ol else true) "-"%string (of_LZ m)
           | None => bad_case
           end
  | _ => bad_case
  end.

Definition single_table : table :=
  [("ChangeExtendedSpatialIdsZoom"%string, fun _ => d_ext); ("ChangeSpatialIdsZoom"%string, fun _ => d_sid);
   ("HorizontalZoom"%string, fun _ => d_hzoom); ("VerticalZoom"%string, fun _ => d_vzoom);
   ("HorizontalZoomMinMax"%string, fun _ => d_minmax)].

(* Sequence: calls performed back to back by one invoker (exposes state kept between calls); every call is judged as above *)
Fixpoint seq_verdict (o : oracle_t) (calls obs : list val) : verdict :=
  match calls, obs with
  | [], [] => mkv true true "-"%string (VL [])
  | VL [VS fn; VL a] :: cr, ob :: obr =>
      let v := run_table single_table o fn a ob in
      let r := seq_verdict o cr obr in
      mkv (v_corr v && v_corr r) (v_prop v && v_prop r)
          (if String.eqb (v_class v) "-" then v_class r else v_class v)
          (match v_model r with VL l => VL (v_model v :: l) | _ => VNil end)
  | _, _ => bad_case
  end.
Definition d_seq (o : oracle_t) (args : list val) (obs : val) : verdict :=
  match args, obs with
  | [VL calls], VL results => seq_verdict o calls results
  | _, _ => bad_case
  end.

Definition table_C03 : table := single_table ++ [("Sequence"%string, d_seq)].
