(* GenEq64Tac.v — int64 mode of the translator: tactics, and the kernels everything else calls.
   generated/Generated64.v holds the integer kernels of generated/Generated.v once more, written by the translator with Go's int64 semantics
   explicit (vocabulary: I64.v). Two kinds of lemma, per kernel k:
   (b) the bridge [gen64_k_exact]: Generated64.k args = Some (r, true) -> r = Generated.k args — whenever no intermediate leaves the int64
       range ([I64.fits (Generated64.k args) = true], a computed boolean), the code computes what the unbounded kernel computes, so every theorem
       about the unbounded model is a theorem about the int64 code there ([exact_of_fits]);
   (a) where a property owner wrote an int64 model by hand (AltKey.v, Merge.v), Generated64.k = that model (GenEq64Alt.v, GenEq64Merge.v).
   [minv H] runs a computation backwards: H : m = Some (r, true) is taken apart operation by operation ([I64.*_inv]); every intermediate is
   replaced by its unbounded value, every condition is decided in H and in the goal at once. No proof mentions a Go variable name. *)
From Coq Require Import ZArith Bool Lia.
From SIDGen Require Import Generated Generated64.
From SID Require Import I64.
Open Scope Z_scope.

Lemma exact_of_fits {A} (m : M A) (a : A) : (forall r, m = Some (r, true) -> r = a) -> fits m = true -> go_value m = Some a.
Proof. intros H F. destruct (fits_exact m F) as (r & E). rewrite E. cbn. f_equal. now apply H. Qed.

(* a pair that is the result of a callee is named component by component *)
Ltac split_pairs :=
  repeat match goal with
         | x : (_ * _)%type |- _ => destruct x
         end.

(* [lem]: tactic that rewrites a hypothesis [Generated64.callee args = Some (v, true)] into [v = Generated.callee args] (fails otherwise) *)
Ltac minv_with lem H :=
  lazymatch type of H with
  | bind _ _ = Some (_, true) =>
      let a := fresh "a" in let E := fresh "E" in
      apply bind_inv in H; destruct H as (a & E & H); minv_with lem E; split_pairs; cbv beta iota zeta in H; minv_with lem H
  | ret _ = Some (_, true) => apply ret_inv in H; try (injection H as H); subst
  | add64 _ _ = Some (_, true) => apply add64_inv in H; subst
  | sub64 _ _ = Some (_, true) => apply sub64_inv in H; subst
  | mul64 _ _ = Some (_, true) => apply mul64_inv in H; subst
  | neg64 _ = Some (_, true) => apply neg64_inv in H; subst
  | shl64 _ _ = Some (_, true) => apply shl64_inv in H; subst
  | shr64 _ _ = Some (_, true) => apply shr64_inv in H; subst
  | shl64u _ _ = Some (_, true) => apply shl64u_inv in H; subst
  | shr64u _ _ = Some (_, true) => apply shr64u_inv in H; subst
  | quot64 _ _ = Some (_, true) => apply quot64_inv in H; subst
  | rem64 _ _ = Some (_, true) => apply rem64_inv in H; subst
  | pow2_64 _ = Some (_, true) => apply pow2_64_inv in H; subst
  | pow2abs_64 _ = Some (_, true) => apply pow2abs_64_inv in H; subst
  | or64 _ _ = Some (_, true) =>
      let Ha := fresh "Ha" in
      apply or64_inv in H; destruct H as [[Ha H]|[Ha H]];
      [ rewrite ?Ha; cbn [orb andb negb]; minv_with lem H | rewrite ?Ha; cbn [orb andb negb]; subst ]
  | and64 _ _ = Some (_, true) =>
      let Ha := fresh "Ha" in
      apply and64_inv in H; destruct H as [[Ha H]|[Ha H]];
      [ rewrite ?Ha; cbn [orb andb negb]; minv_with lem H | rewrite ?Ha; cbn [orb andb negb]; subst ]
  | (if ?c then _ else _) = Some (_, true) =>
      cbn [negb andb orb] in H;
      lazymatch type of H with
      | (if ?c' then _ else _) = Some (_, true) =>
          destruct c' eqn:?; first [ solve [ exfalso; cbn [negb andb orb] in *; congruence ] | minv_with lem H ]
      | _ => minv_with lem H
      end
  | (let _ := _ in _) = Some (_, true) => cbv zeta in H; minv_with lem H
  | (match ?x with pair _ _ => _ end) = Some (_, true) => destruct x eqn:?; minv_with lem H
  | _ => first [ lem H | idtac ]
  end.

(* the bridge of a kernel: unfold it on both sides (callees stay folded: they are opaque while the tactic runs), run the int64 side backwards *)
Ltac bridge lem :=
  intros;
  match goal with H : _ = Some (_, true) |- _ =>
    repeat autounfold with sidgen64 in H; repeat autounfold with sidgen; cbv beta zeta in H; cbv beta zeta;
    minv_with lem H; try reflexivity
  end.

Ltac no_callee H := fail.

(* common.CalculateArithmeticShift *)
Lemma gen64_CalculateArithmeticShift_exact : forall i s r,
  Generated64.CalculateArithmeticShift i s = Some (r, true) -> r = Generated.CalculateArithmeticShift i s.
Proof. bridge no_callee. Qed.

(* shape.CheckZoom, transform.quadkeyCheckZoom, transform.extendedSpatialIDCheckZoom: comparisons only, never inexact *)
Lemma gen64_CheckZoom_eq : forall z, Generated64.CheckZoom z = ret (Generated.CheckZoom z).
Proof. reflexivity. Qed.
Lemma gen64_quadkeyCheckZoom_eq : forall h v, Generated64.quadkeyCheckZoom h v = ret (Generated.quadkeyCheckZoom h v).
Proof. reflexivity. Qed.
Lemma gen64_extendedSpatialIDCheckZoom_eq : forall h v, Generated64.extendedSpatialIDCheckZoom h v = ret (Generated.extendedSpatialIDCheckZoom h v).
Proof. reflexivity. Qed.

Ltac base_callees H :=
  first [ apply gen64_CalculateArithmeticShift_exact in H; subst
        | rewrite gen64_CheckZoom_eq in H; apply ret_inv in H; subst
        | rewrite gen64_quadkeyCheckZoom_eq in H; apply ret_inv in H; subst
        | rewrite gen64_extendedSpatialIDCheckZoom_eq in H; apply ret_inv in H; subst ].

(* ---- running two computations forward, side by side ([Generated64.k = hand-written int64 model]) ----
   [+ - * neg] are opened to [Some (w64 t, i64 t)]; the calls that may panic (named by [isop]) and the conditions are decided one at a time
   as they come to the surface, a condition before a call; both sides are then [Some (value, conjunction of flags)]. *)
Lemma bind_Some {A B} (a : A) e (k : A -> M B) :
  bind (Some (a, e)) k = match k a with None => None | Some (b, e') => Some (b, e && e') end.
Proof. reflexivity. Qed.
Lemma bind_None {A B} (k : A -> M B) : bind None k = None.
Proof. reflexivity. Qed.

From Coq Require Import Btauto.
Ltac mfin :=
  repeat match goal with H : Some _ = Some _ |- _ => injection H as ? ?; subst end;
  unfold ret; cbv beta iota;
  first [ reflexivity
        | solve [ exfalso; cbn [negb andb orb] in *; congruence ]
        | rewrite ?andb_true_r, ?andb_true_l, <- ?andb_assoc; rewrite ?andb_true_r; reflexivity
        | f_equal; f_equal; first [ reflexivity | btauto ]
        | f_equal; btauto ].
Ltac msimp := unfold ret; rewrite ?bind_Some, ?bind_None; cbv beta iota; cbn [fst snd andb orb negb].
Ltac mrun rw isop :=
  repeat first
    [ progress msimp
    | progress (rewrite ?Z.gtb_ltb, ?Z.geb_leb)
    | progress rw
    | match goal with |- context [if ?c then _ else _] => lazymatch c with context [if _ then _ else _] => fail | _ => idtac end; destruct c eqn:? end
    | match goal with |- context [bind ?m _] => isop m; destruct m as [[? ?]|] eqn:? end ].
Ltac open_ops := unfold add64, sub64, mul64, neg64, ex.

(* decide every integer comparison in sight, with its arithmetic meaning in the context *)
Ltac zcases :=
  repeat match goal with
         | |- context [Z.ltb ?a ?b] => destruct (Z.ltb_spec a b)
         | |- context [Z.leb ?a ?b] => destruct (Z.leb_spec a b)
         | |- context [Z.gtb ?a ?b] => rewrite (Z.gtb_ltb a b)
         | |- context [Z.geb ?a ?b] => rewrite (Z.geb_leb a b)
         end.
