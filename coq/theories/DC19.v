(* DC19.v — dispatch entry of property C19.

   "ParallelMix" [pool seed; batch seed; k; g; focus; (repeats)]: the Go side builds a pool of shared argument slices and objects from the pool seed
   (three regions at three zooms, grid-edge IDs, empty and malformed inputs), draws k call instances (exported function + argument seed; focus 1 =
   only wrapping shifts and neighbourhoods at the grid edges) from the batch seed, runs each instance alone (the reference), then lets every one of
   g goroutines run the whole batch in its own random order on the shared pool, then runs each instance alone again, and reports
       [ [equal_1; ...; equal_k] ; inputs_unmodified ; [names of the offending calls] ]
   where equal_i says that every concurrent execution of instance i and the second solo run returned the reference result (rendered values and
   error texts; as a multiset of the result list for the set-valued functions whose order follows map iteration), and inputs_unmodified is a
   byte comparison of the rendered pool before and after each phase. Each case runs in a fresh child process of the harness, and equal_i also requires
   that call i returns the same result when other fresh processes make the calls alone: the batch in reverse order, and one call as the only call of
   its process (the run-time check of the hypothesis of Conc.v's history theorems). There is no executable model of any Go function here.

   The model's answer is what the non-interference theorem (Conc.v) predicts for a library whose steps do not write shared memory: every flag true,
   inputs unmodified, no offending call — `predict k`. `predict_is_equal_flags` ties the prediction to the theorem: for every machine that satisfies
   the frame condition, every schedule and every k, the flags "thread i in the parallel run = thread i alone" computed on the machine are `repeat true k`.

   corr = the observed value is exactly the predicted one; prop = the boolean checker `check_mix` accepts the observed value. *)
From Coq Require Import ZArith String List Bool.
From SID Require Import Base Str Wire Conc.
Import ListNotations.
Open Scope string_scope.

Definition flags_val (l : list bool) : val := VL (map VB l).

Definition predict (k : nat) : val := VL [flags_val (repeat true k); VB true; VL []].

(* all flags true *)
Fixpoint all_true (l : list val) : bool :=
  match l with
  | [] => true
  | VB true :: r => all_true r
  | _ => false
  end.

Definition is_empty_list (v : val) : bool := match v with VL [] => true | VNil => true | _ => false end.

(* the property's checker on the observed value: k flags, all true; inputs unmodified; nobody offended *)
Definition check_mix (k : nat) (obs : val) : bool :=
  match obs with
  | VL [VL fl; VB unmodified; bad] => Nat.eqb (List.length fl) k && all_true fl && unmodified && is_empty_list bad
  | VL [VNil; VB unmodified; bad] => Nat.eqb k 0 && unmodified && is_empty_list bad
  | _ => false
  end.

Lemma all_true_spec l : all_true l = true <-> l = map VB (repeat true (List.length l)).
Proof.
  induction l as [|a r IH]; cbn [all_true List.length repeat map]; [split; reflexivity|].
  split.
  - destruct a as [ | | |b| | | | | ]; try discriminate. destruct b; try discriminate.
    intro H. f_equal. apply IH. exact H.
  - intro H. injection H as Ha Hr. subst a. apply IH. exact Hr.
Qed.

(* the checker decides exactly: "the observation is the predicted one" (up to the two renderings of an empty list) *)
Lemma check_mix_sound k obs : check_mix k obs = true ->
  exists fl bad, obs = VL [fl; VB true; bad] /\ (fl = flags_val (repeat true k) \/ (k = 0%nat /\ fl = VNil)) /\ is_empty_list bad = true.
Proof.
  intro H. unfold check_mix in H.
  repeat match type of H with
         | context [match ?x with _ => _ end] => destruct x; try discriminate H
         end.
  - apply andb_prop in H as [H Hbad]. apply andb_prop in H as [H Hu]. apply andb_prop in H as [Hlen Hall].
    apply Nat.eqb_eq in Hlen. apply all_true_spec in Hall. rewrite Hlen in Hall. subst b.
    exists (VL l0), v. split; [reflexivity|]. split; [left; unfold flags_val; now rewrite Hall | exact Hbad].
  - apply andb_prop in H as [H Hbad]. apply andb_prop in H as [Hk Hu]. apply Nat.eqb_eq in Hk. subst b.
    exists VNil, v. split; [reflexivity|]. split; [right; split; [exact Hk | reflexivity] | exact Hbad].
Qed.

Lemma check_mix_predict k : check_mix k (predict k) = true.
Proof.
  unfold check_mix, predict, flags_val. rewrite map_length, repeat_length, Nat.eqb_refl. cbn [andb is_empty_list].
  rewrite andb_true_r, andb_true_r. induction k as [|k IH]; [reflexivity | exact IH].
Qed.

(* the prediction is the theorem: on any machine with the frame condition, for any schedule, the equality flags are all true *)
Theorem predict_is_equal_flags :
  forall (Shared Local : Type) (step : Shared -> Local -> Shared * Local),
    (forall s l, fst (step s l) = s) ->
    forall (leqb : Local -> Local -> bool), (forall l, leqb l l = true) ->
    forall sched s ls k,
      predict k = VL [flags_val (equal_flags Shared Local step leqb sched s ls k); VB true; VL []] /\
      fst (run Shared Local step sched s ls) = s.
Proof.
  intros Sh Lo step frame leqb Hrefl sched s ls k. split.
  - unfold predict. now rewrite (equal_flags_all_true Sh Lo step frame leqb Hrefl sched s ls k).
  - exact (shared_unchanged Sh Lo step frame sched s ls).
Qed.

Fixpoint val_eqb (a b : val) {struct a} : bool :=
  match a, b with
  | VB x, VB y => Bool.eqb x y
  | VNil, VNil => true
  | VL l, VL m =>
      (fix go (l m : list val) {struct l} : bool :=
         match l, m with
         | [], [] => true
         | x :: l', y :: m' => val_eqb x y && go l' m'
         | _, _ => false
         end) l m
  | VL [], VNil => true
  | VNil, VL [] => true
  | _, _ => false
  end.

Definition d_parallel_mix (args : list val) (obs : val) : verdict :=
  match args with
  | VZ _ :: VZ _ :: VZ k :: VZ _ :: _ =>
      let kn := Z.to_nat k in
      let m := predict kn in
      mkv (val_eqb m obs) (check_mix kn obs) "-" m
  | _ => bad_case
  end.

Definition table_C19 : table := [("ParallelMix", fun _ => d_parallel_mix)].
