(* Digits.v — the branch digits of a radix-tree key (f', x, y) at zoom z, as KeyInfo.BranchPath / pickup of
   multidimensional-radix-tree compute them for the table {{1,1,1}}, and the key lemma of property C05:
   the key of a is a prefix of the key of b  <->  a is the floor-ancestor of b on all three coordinates. *)
From Coq Require Import ZArith Lia List Bool.
From SID Require Import Base Radix.
Import ListNotations.
Open Scope Z_scope.
Ltac Zify.zify_post_hook ::= Z.div_mod_to_equations.

(* ---- the library's digit extraction ---- *)
(* pickup(index, length, base, digit): `cmask := 1<<(length-base+digit) - 1; index &= cmask; index >>= length-base` *)
Definition pickup (index length base digit : Z) : Z :=
  Z.shiftr (Z.land index (Z.shiftl 1 (length - base + digit) - 1)) (length - base).
Definition bit (i p : Z) : Z := Z.b2z (Z.testbit i p).
(* with one bit per level (digit = 1, base = level + 1, length = zoom) pickup reads the bit z-1-l of the index, for every int64 (two's complement) *)
Lemma pickup_bit i z l : 0 <= l < z -> pickup i z (l + 1) 1 = bit i (z - 1 - l).
Proof.
  intros H. unfold pickup, bit.
  replace (z - (l + 1) + 1) with (z - l) by lia. replace (z - (l + 1)) with (z - 1 - l) by lia.
  rewrite Z.shiftl_1_l. replace (2 ^ (z - l) - 1) with (Z.ones (z - l)) by (rewrite Z.ones_equiv; lia).
  rewrite Z.land_ones by lia. rewrite Z.shiftr_div_pow2 by lia.
  rewrite Z.testbit_spec' by lia.
  set (k := z - 1 - l). replace (z - l) with (k + 1) by (unfold k; lia).
  rewrite Z.pow_add_r by (unfold k; lia). change (2 ^ 1) with 2.
  pose proof (pow2_pos k ltac:(unfold k; lia)) as Hp.
  rewrite Z.rem_mul_r by lia. rewrite (Z.mul_comm (2 ^ k)), Z.div_add by lia.
  rewrite Z.div_small by (apply Z.mod_pos_bound; lia). lia.
Qed.
(* KeyInfo.BranchPath(level) for a 3-dimensional key: `branch = branch<<1 | n` over the dimensions f', x, y *)
Definition branch_path (z f x y l : Z) : Z :=
  Z.lor (Z.shiftl (Z.lor (Z.shiftl (pickup f z (l + 1) 1) 1) (pickup x z (l + 1) 1)) 1) (pickup y z (l + 1) 1).
Lemma bit_01 i p : bit i p = 0 \/ bit i p = 1.
Proof. unfold bit. destruct (Z.testbit i p); auto. Qed.
Lemma branch_path_bits z f x y l : 0 <= l < z ->
  branch_path z f x y l = 4 * bit f (z - 1 - l) + 2 * bit x (z - 1 - l) + bit y (z - 1 - l).
Proof.
  intros H. unfold branch_path. rewrite !pickup_bit by exact H.
  destruct (bit_01 f (z - 1 - l)) as [-> | ->], (bit_01 x (z - 1 - l)) as [-> | ->], (bit_01 y (z - 1 - l)) as [-> | ->]; reflexivity.
Qed.

(* ---- digit lists ---- *)
(* branch digits of a key (f', x, y) at zoom n, least significant level first *)
Fixpoint dig_lsb (n : nat) (f x y : Z) : list Z :=
  match n with
  | O => []
  | S m => (4 * (f mod 2) + 2 * (x mod 2) + y mod 2) :: dig_lsb m (f / 2) (x / 2) (y / 2)
  end.
Definition digits (n : nat) (f x y : Z) : list Z := rev (dig_lsb n f x y).   (* BranchPath order: most significant level first *)

Lemma bit_succ i p : 0 <= p -> bit (i / 2) p = bit i (p + 1).
Proof. intros H. unfold bit. rewrite Z.div2_bits by exact H. now rewrite Z.add_1_r. Qed.
Lemma dig_lsb_bits n : forall f x y,
  dig_lsb n f x y = map (fun l => 4 * bit f (Z.of_nat l) + 2 * bit x (Z.of_nat l) + bit y (Z.of_nat l)) (seq 0 n).
Proof.
  induction n as [|n IH]; intros f x y; [reflexivity|].
  cbn [dig_lsb seq map]. f_equal.
  - unfold bit. change (Z.of_nat 0) with 0. now rewrite !Z.bit0_mod.
  - rewrite IH, <- seq_shift, map_map. apply map_ext. intros l.
    rewrite !bit_succ by lia. now rewrite Nat2Z.inj_succ, <- !Z.add_1_r.
Qed.
(* the digit list is the list of the library's branch numbers, level 0 .. n-1 *)
Theorem digits_branch_path n f x y :
  digits n f x y = map (fun l => branch_path (Z.of_nat n) f x y (Z.of_nat l)) (seq 0 n).
Proof.
  unfold digits. rewrite dig_lsb_bits, <- map_rev.
  assert (R : forall m, rev (seq 0 m) = map (fun l => (m - 1 - l)%nat) (seq 0 m)).
  { induction m as [|m IHm]; [reflexivity|]. rewrite seq_S at 1. rewrite rev_app_distr. cbn [rev app plus].
    cbn [seq map]. f_equal; [lia|]. rewrite IHm, <- seq_shift, map_map.
    apply map_ext_in. intros l Hl. apply in_seq in Hl. lia. }
  rewrite R, map_map. apply map_ext_in. intros l Hl. apply in_seq in Hl.
  rewrite branch_path_bits by lia. replace (Z.of_nat (n - 1 - l)) with (Z.of_nat n - 1 - Z.of_nat l) by lia. reflexivity.
Qed.

Lemma prefix_app_r a b : prefix a (a ++ b).
Proof. induction a; cbn; auto. Qed.
Lemma prefix_app_same_length a a' b : length a = length a' -> prefix a (a' ++ b) -> a = a'.
Proof.
  revert a'. induction a as [|x r IH]; intros [|y r'] H P; cbn in *; try lia; [reflexivity|].
  destruct P as [-> P]. f_equal. apply IH; [lia|exact P].
Qed.
Lemma prefix_length a b : prefix a b -> (length a <= length b)%nat.
Proof. revert b. induction a as [|x a IH]; intros [|y b]; cbn; try lia; try tauto. intros [_ P]. apply IH in P. lia. Qed.

Lemma dig_length n : forall f x y, length (dig_lsb n f x y) = n.
Proof. induction n; intros; cbn; [reflexivity|]. now rewrite IHn. Qed.
Lemma digits_length n f x y : length (digits n f x y) = n.
Proof. unfold digits. now rewrite rev_length, dig_length. Qed.

(* split: the low d levels, then the digits of the ancestor *)
Lemma dig_split d : forall m f x y,
  dig_lsb (d + m) f x y = dig_lsb d f x y ++ dig_lsb m (f / 2 ^ Z.of_nat d) (x / 2 ^ Z.of_nat d) (y / 2 ^ Z.of_nat d).
Proof.
  induction d as [|d IH]; intros m f x y.
  - cbn. now rewrite !Z.div_1_r.
  - cbn [Nat.add dig_lsb app]. f_equal. rewrite IH.
    rewrite Nat2Z.inj_succ, Z.pow_succ_r by lia.
    rewrite !Z.div_div by (try apply Z.pow_pos_nonneg; lia). reflexivity.
Qed.

(* digits determine the coordinates inside [0, 2^n) *)
Lemma dig_inj n : forall f x y f' x' y',
  0 <= f < 2 ^ Z.of_nat n -> 0 <= x < 2 ^ Z.of_nat n -> 0 <= y < 2 ^ Z.of_nat n ->
  0 <= f' < 2 ^ Z.of_nat n -> 0 <= x' < 2 ^ Z.of_nat n -> 0 <= y' < 2 ^ Z.of_nat n ->
  dig_lsb n f x y = dig_lsb n f' x' y' -> f = f' /\ x = x' /\ y = y'.
Proof.
  induction n as [|n IH]; intros f x y f' x' y' Hf Hx Hy Hf' Hx' Hy' E.
  - cbn in *. lia.
  - rewrite Nat2Z.inj_succ, Z.pow_succ_r in * by lia. cbn [dig_lsb] in E.
    set (d1 := 4 * (f mod 2) + 2 * (x mod 2) + y mod 2) in E. set (d2 := 4 * (f' mod 2) + 2 * (x' mod 2) + y' mod 2) in E.
    injection E as E0 E. subst d1 d2.
    apply IH in E; try (split; [apply Z.div_pos; lia | apply Z.div_lt_upper_bound; lia]).
    destruct E as (Ef & Ex & Ey).
    assert (f mod 2 = f' mod 2 /\ x mod 2 = x' mod 2 /\ y mod 2 = y' mod 2) as (Mf & Mx & My).
    { pose proof (Z.mod_pos_bound f 2 ltac:(lia)) as B1. pose proof (Z.mod_pos_bound f' 2 ltac:(lia)) as B2.
      pose proof (Z.mod_pos_bound x 2 ltac:(lia)) as B3. pose proof (Z.mod_pos_bound x' 2 ltac:(lia)) as B4.
      pose proof (Z.mod_pos_bound y 2 ltac:(lia)) as B5. pose proof (Z.mod_pos_bound y' 2 ltac:(lia)) as B6.
      revert E0 B1 B2 B3 B4 B5 B6.
      generalize (f mod 2) (f' mod 2) (x mod 2) (x' mod 2) (y mod 2) (y' mod 2).
      clear. intros a a' b b' c c' E0 B1 B2 B3 B4 B5 B6. lia. }
    pose proof (Z.div_mod f 2 ltac:(lia)). pose proof (Z.div_mod f' 2 ltac:(lia)).
    pose proof (Z.div_mod x 2 ltac:(lia)). pose proof (Z.div_mod x' 2 ltac:(lia)).
    pose proof (Z.div_mod y 2 ltac:(lia)). pose proof (Z.div_mod y' 2 ltac:(lia)).
    repeat split; congruence.
Qed.

(* the key of a is a prefix of the key of b (za <= zb) iff a is the ancestor of b on all three axes *)
Theorem prefix_iff_anc (za d : nat) fa xa ya fb xb yb :
  0 <= fa < 2 ^ Z.of_nat za -> 0 <= xa < 2 ^ Z.of_nat za -> 0 <= ya < 2 ^ Z.of_nat za ->
  0 <= fb < 2 ^ Z.of_nat (d + za) -> 0 <= xb < 2 ^ Z.of_nat (d + za) -> 0 <= yb < 2 ^ Z.of_nat (d + za) ->
  (prefix (digits za fa xa ya) (digits (d + za) fb xb yb) <->
   fb / 2 ^ Z.of_nat d = fa /\ xb / 2 ^ Z.of_nat d = xa /\ yb / 2 ^ Z.of_nat d = ya).
Proof.
  intros Hfa Hxa Hya Hfb Hxb Hyb. unfold digits. rewrite dig_split, rev_app_distr.
  assert (P : 0 < 2 ^ Z.of_nat d) by (apply Z.pow_pos_nonneg; lia).
  assert (B : forall v, 0 <= v < 2 ^ Z.of_nat (d + za) -> 0 <= v / 2 ^ Z.of_nat d < 2 ^ Z.of_nat za).
  { intros v Hv. rewrite Nat2Z.inj_add, Z.pow_add_r in Hv by lia.
    split; [apply Z.div_pos; lia | apply Z.div_lt_upper_bound; lia]. }
  split.
  - intros H. apply prefix_app_same_length in H; [|now rewrite !rev_length, !dig_length].
    apply (f_equal (@rev Z)) in H. rewrite !rev_involutive in H.
    apply dig_inj in H; auto. intuition congruence.
  - intros (<- & <- & <-). apply prefix_app_r.
Qed.

(* a longer key is never a prefix of a shorter one *)
Lemma prefix_longer za zb fa xa ya fb xb yb : (zb < za)%nat -> ~ prefix (digits za fa xa ya) (digits zb fb xb yb).
Proof. intros H P. apply prefix_length in P. rewrite !digits_length in P. lia. Qed.
