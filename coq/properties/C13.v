(* C13 — 3D tile keys convert to IDs that cover the tile and keep its footprint.
   Only statements, `exact` proofs and Print Assumptions live here. Models and proofs: theories/Tile.v; run-time checkers: theories/DC13.v.

   Vocabulary. A tile t = (th, tx, ty, tv, tz) = (hZoom, x, y, vZoom, z); a request is a list of tiles with the altitude reference
   (E, O) = (zBaseExponent, zBaseOffset) and the requested vertical zoom outV.
     new_tile h x y v z            = object.NewTileXYZ
     tiles_to_eids l E O outV      = transform.ConvertTileXYZsToExtendedSpatialIDs   (result: records eid = (eh, ex, ey, ev, ef))
     tiles_to_sids l E O outV      = transform.ConvertTileXYZsToSpatialIDs           (result: strings "z/f/x/y")
     tiles_to_sids_rec             = the same as records (both zooms equal)
     key2z k kz out E O            = ConvertAltitudekeyToMinMaxZ (C12, AltKeyCore.v / AltKey.v);  expand_rec / expand_eid = the C10 expansion
     tile_accepted E O outV t mn mx := 0 <= th t <= 35, 0 <= outV <= 35 and key2z (tz t) (tv t) outV E O = Ok (mn, mx)
     tile_rejected E O outV t       := the zoom check fails or key2z returns an error
     from_tile E O outV t j         := t accepted with [mn, mx] /\ eh j = th t /\ ex j = tx t /\ ey j = ty t /\ ev j = outV /\ mn <= ef j <= mx
     tile_lo / tile_hi E O t        = ends (metres) of the altitude interval of the tile: cell tz of the key scale (tv, E, O)
     inT E O t (u, w, a)            := (u, w) in the footprint of t and altitude a * 2^25 m in the tile's altitude interval
     Voxel.inR j (u, w, a)          := the point lies in voxel j  (a = altitude / 2^25)
     tile_fits E O outV t           := zooms th, tv, outV in 0..35 /\ 0 <= tz < 2^tv /\ the metre-widened cover [wid_min, wid_max] of the tile's
                                       altitude interval on the spatial-ID axis at zoom outV lies inside [-2^outV, 2^outV)   (no conversion function)
     stems_from E O outV t j        := tile_fits /\ footprint and vertical zoom as in from_tile /\ wid_min <= ef j <= wid_max
   STATUS. Every theorem below is a theorem about the Gallina MODEL (Tile.v) over unbounded integers, for ALL integer arguments (no bound
   on the list, on x, y, z, E, O). What ties the model to the Go code:
     - the differential run (harness/props/c13) on every check;
     - the regenerated kernels: C13_generated_* below (an edit of ConvertAltitudekeyToMinMaxZ, extendedSpatialIDCheckZoom,
       HorizontalZoomMinMax / VerticalZoom in /repo breaks these obligations);
     - int64: theorems over the kernels regenerated with Go's int64 semantics (Generated64): C13_int64_tile_range_meets_spec (the per-tile
       range: zooms 0..35, 0 <= E <= 35, |O| <= 2^50), C13_int64_zoom_check_is_the_model, C13_int64_expansion_kernels_fit_on_results (the
       expansion arithmetic of the spatial variant for 0 <= x, y < 2^hZoom) and C13_int64_expansion_wraps_outside_the_grid (x = 2^62: the
       int64 kernel wraps; outside the grid the spatial variant is not claimed and the dispatcher answers bad_case). The extended variant
       copies x, y unchanged, so it is the code for every int64 x, y. Still assumed, not proved: the Go loops, map and slices around the
       kernels (`for z := zMin; z <= zMax; z++`, the nested loops of the expansion, strconv) behave as Base.zrange / flat_map / Str.print.
     - "no partial result on error" is not a theorem (the model's Err carries no payload): it is checked on every run (DC13.obs_list).
     - C13_spatial_variant_is_the_expansion, C13_single_tile_is_exactly_the_range, C13_empty_request hold by unfolding the model's definition
       (the Go body of ConvertTileXYZsToSpatialIDs is literally that composition); the content of the spatial clause is in the C10 theorems
       it is composed with (C13_spatial_members / _same_region / _covers_every_tile). *)
From Coq Require Import ZArith String List Bool Permutation Reals.
From Flocq Require Import Core.
From SID Require Import Base Str AltKeyCore AltKey Ids Voxel ZoomCore Notation Tile DC13.
Import ListNotations.
Open Scope list_scope.
Open Scope Z_scope.

(* ---- NewTileXYZ: zooms 0..35 accepted with all five numbers stored unchanged, anything else (negative zooms included) refused ---- *)
Theorem C13_new_tile_validates_zooms : forall h x y v z,
  (0 <= h <= 35 /\ 0 <= v <= 35 -> new_tile h x y v z = Ok (mkt h x y v z)) /\
  (~ (0 <= h <= 35 /\ 0 <= v <= 35) -> new_tile h x y v z = Err).
Proof. exact new_tile_spec. Qed.
Print Assumptions C13_new_tile_validates_zooms.

Theorem C13_new_tile_keeps_fields : forall h x y v z t, new_tile h x y v z = Ok t ->
  0 <= th t <= 35 /\ 0 <= tv t <= 35 /\ th t = h /\ tx t = x /\ ty t = y /\ tv t = v /\ tz t = z.
Proof. exact new_tile_ok. Qed.
Print Assumptions C13_new_tile_keeps_fields.

(* ---- the result, member by member: hZoom, x, y of a tile of the request untouched, the requested vertical zoom, a vertical index of
        that tile's C12 range — and nothing else ---- *)
Theorem C13_members_stem_from_tiles : forall l E O outV r, tiles_to_eids l E O outV = Ok r ->
  forall j, In j r <-> exists t, In t l /\ from_tile E O outV t j.
Proof. exact tiles_to_eids_members. Qed.
Print Assumptions C13_members_stem_from_tiles.

Theorem C13_footprint_untouched_vertical_zoom_as_requested : forall l E O outV r j, tiles_to_eids l E O outV = Ok r -> In j r ->
  ev j = outV /\ exists t, In t l /\ eh j = th t /\ ex j = tx t /\ ey j = ty t.
Proof. exact tiles_to_eids_footprint. Qed.
Print Assumptions C13_footprint_untouched_vertical_zoom_as_requested.

(* every tile of a successful call was accepted and its COMPLETE C12 range is in the result *)
Theorem C13_complete_range_of_every_tile : forall l E O outV r t, tiles_to_eids l E O outV = Ok r -> In t l ->
  exists mn mx, tile_accepted E O outV t mn mx /\ forall f, mn <= f <= mx -> In (mk (th t) (tx t) (ty t) outV f) r.
Proof. exact tiles_to_eids_complete. Qed.
Print Assumptions C13_complete_range_of_every_tile.

(* per tile: the vertical indices present for the tile's footprint contain its whole range and only indices of ranges of tiles sharing
   that footprint *)
Theorem C13_vertical_indices_per_tile : forall l E O outV r t, tiles_to_eids l E O outV = Ok r -> In t l ->
  exists mn mx, key2z (tz t) (tv t) outV E O = Ok (mn, mx) /\
    (forall f, mn <= f <= mx -> In (mk (th t) (tx t) (ty t) outV f) r) /\
    (forall f, In (mk (th t) (tx t) (ty t) outV f) r ->
       exists t' mn' mx', In t' l /\ th t' = th t /\ tx t' = tx t /\ ty t' = ty t /\ key2z (tz t') (tv t') outV E O = Ok (mn', mx') /\ mn' <= f <= mx').
Proof. exact tiles_to_eids_per_tile. Qed.
Print Assumptions C13_vertical_indices_per_tile.

(* a single tile: exactly zrange of the C12 range (Base.zrange lo hi = lo, lo+1, ..., hi) *)
Theorem C13_single_tile_is_exactly_the_range : forall t E O outV,
  tiles_to_eids [t] E O outV =
  if ext_check_zoom (th t) outV then
    match key2z (tz t) (tv t) outV E O with
    | Ok (mn, mx) => Ok (map (fun f => mk (th t) (tx t) (ty t) outV f) (zrange mn mx))
    | Err => Err
    end
  else Err.
Proof. exact tiles_to_eids_single. Qed.
Print Assumptions C13_single_tile_is_exactly_the_range.

(* what the per-tile range is, in the terms of C12: z exists at vZoom; [mn, mx] is the metre-widened cover of the tile's altitude interval
   on the spatial-ID axis at zoom outV, contains the exact cover, equals it when tile cells (vZoom <= E) or target cells (outV <= 25) are
   at least one metre tall, and lies inside the index range of outV *)
Theorem C13_range_is_the_C12_cover : forall E O outV t mn mx, tile_accepted E O outV t mn mx ->
  let s := tile_scale E O t in let g := sid_scale outV in
  0 <= th t <= 35 /\ 0 <= outV <= 35 /\ 0 <= tz t < 2 ^ tv t /\
  mn = wid_min g (tile_lo E O t) /\ mx = wid_max g (tile_hi E O t) /\
  mn <= cov_min g (tile_lo E O t) /\ cov_max g (tile_hi E O t) <= mx /\ mn <= mx /\
  ((tv t <= E \/ outV <= zorigin) -> mn = cov_min g (tile_lo E O t) /\ mx = cov_max g (tile_hi E O t)) /\
  - 2 ^ outV <= mn /\ mx < 2 ^ outV /\ 0 <= tv t <= 35.
Proof. exact tile_accepted_C12. Qed.
Print Assumptions C13_range_is_the_C12_cover.

(* ---- duplicates across tiles are removed ---- *)
Theorem C13_no_duplicates : forall l E O outV r, tiles_to_eids l E O outV = Ok r -> NoDup r.
Proof. exact tiles_to_eids_NoDup. Qed.
Print Assumptions C13_no_duplicates.

(* ---- all or nothing: an error iff the requested vertical zoom is outside 0..35 (for EVERY request, the empty one included) or some tile
        (at any position) is rejected; the error carries no result (the Go `return nil, err` is checked on every run by DC13) ---- *)
Theorem C13_error_iff_bad_zoom_or_some_tile_rejected : forall l E O outV,
  tiles_to_eids l E O outV = Err <-> ~ (0 <= outV <= 35) \/ exists t, In t l /\ tile_rejected E O outV t.
Proof. exact tiles_to_eids_err_iff. Qed.
Print Assumptions C13_error_iff_bad_zoom_or_some_tile_rejected.

(* the same without the conversion function: WHEN a tile is accepted, WHICH range it gets, and when the call fails *)
Theorem C13_tile_rejected_in_independent_words : forall E O outV t, tile_rejected E O outV t <-> ~ tile_fits E O outV t.
Proof. exact tile_rejected_iff. Qed.
Print Assumptions C13_tile_rejected_in_independent_words.

Theorem C13_tile_accepted_in_independent_words : forall E O outV t mn mx,
  tile_accepted E O outV t mn mx <->
  tile_fits E O outV t /\ mn = wid_min (sid_scale outV) (tile_lo E O t) /\ mx = wid_max (sid_scale outV) (tile_hi E O t).
Proof. exact tile_accepted_iff. Qed.
Print Assumptions C13_tile_accepted_in_independent_words.

Theorem C13_members_in_independent_words : forall l E O outV r, tiles_to_eids l E O outV = Ok r ->
  (forall t, In t l -> tile_fits E O outV t) /\ forall j, In j r <-> exists t, In t l /\ stems_from E O outV t j.
Proof. exact tiles_to_eids_members_ind. Qed.
Print Assumptions C13_members_in_independent_words.

Theorem C13_error_iff_in_independent_words : forall l E O outV,
  tiles_to_eids l E O outV = Err <-> ~ (0 <= outV <= 35) \/ exists t, In t l /\ ~ tile_fits E O outV t.
Proof. exact tiles_to_eids_err_iff_ind. Qed.
Print Assumptions C13_error_iff_in_independent_words.

Theorem C13_succeeds_iff_every_tile_fits : forall l E O outV,
  (exists r, tiles_to_eids l E O outV = Ok r) <-> 0 <= outV <= 35 /\ forall t, In t l -> tile_fits E O outV t.
Proof. exact tiles_to_eids_ok_iff_ind. Qed.
Print Assumptions C13_succeeds_iff_every_tile_fits.

Theorem C13_invalid_output_zoom_fails_every_request : forall l E O outV, ~ (0 <= outV <= 35) -> tiles_to_eids l E O outV = Err.
Proof. exact tiles_to_eids_bad_output_zoom. Qed.
Print Assumptions C13_invalid_output_zoom_fails_every_request.

Theorem C13_empty_request : forall E O outV, tiles_to_eids [] E O outV = if ext_check_zoom 0 outV then Ok [] else Err.
Proof. exact tiles_to_eids_empty. Qed.
Print Assumptions C13_empty_request.

(* ---- results are IDs of the grid when the tiles' x, y are indices of their horizontal zoom ---- *)
Theorem C13_results_are_valid_ids : forall l E O outV r, tiles_to_eids l E O outV = Ok r -> (forall t, In t l -> footprint_ok t) ->
  forall j, In j r -> valid j.
Proof. exact tiles_to_eids_valid. Qed.
Print Assumptions C13_results_are_valid_ids.

(* ---- the union of the results contains every tile: footprint and altitude interval ---- *)
Theorem C13_results_cover_every_tile : forall l E O outV r t p, tiles_to_eids l E O outV = Ok r -> In t l -> inT E O t p ->
  exists j, In j r /\ inR j p.
Proof. exact tiles_cover. Qed.
Print Assumptions C13_results_cover_every_tile.

(* ... and nothing strays: every result has the footprint of a tile whose altitude interval, widened outward to whole metres, it meets;
   the interval itself when tile cells or target cells are at least one metre tall *)
Theorem C13_nothing_strays : forall l E O outV r j, tiles_to_eids l E O outV = Ok r -> In j r ->
  exists t, In t l /\ eh j = th t /\ ex j = tx t /\ ey j = ty t /\ ev j = outV /\
    (exists a, (IZR (Zfloor (tile_lo E O t)) <= a < IZR (Zceil (tile_hi E O t)))%R /\ in_cell (sid_scale outV) (ef j) a) /\
    ((tv t <= E \/ outV <= zorigin) -> exists a, (tile_lo E O t <= a < tile_hi E O t)%R /\ in_cell (sid_scale outV) (ef j) a).
Proof. exact tiles_no_stray. Qed.
Print Assumptions C13_nothing_strays.

(* ---- the order of the request and repeated tiles do not matter (C16) ---- *)
Theorem C13_same_tiles_same_result : forall l1 l2 E O outV, (forall t, In t l1 <-> In t l2) ->
  match tiles_to_eids l1 E O outV, tiles_to_eids l2 E O outV with
  | Ok r1, Ok r2 => Permutation r1 r2
  | Err, Err => True
  | _, _ => False
  end.
Proof. exact tiles_to_eids_set_invariant. Qed.
Print Assumptions C13_same_tiles_same_result.

Theorem C13_permuted_request : forall l1 l2 E O outV, Permutation l1 l2 ->
  match tiles_to_eids l1 E O outV, tiles_to_eids l2 E O outV with
  | Ok r1, Ok r2 => Permutation r1 r2 | Err, Err => True | _, _ => False end.
Proof. exact tiles_to_eids_permutation. Qed.
Print Assumptions C13_permuted_request.

Theorem C13_duplicated_request : forall l E O outV,
  match tiles_to_eids (l ++ l) E O outV, tiles_to_eids l E O outV with
  | Ok r1, Ok r2 => Permutation r1 r2 | Err, Err => True | _, _ => False end.
Proof. exact tiles_to_eids_duplication. Qed.
Print Assumptions C13_duplicated_request.

(* ---- the spatial-ID variant: precisely the C10 expansion of those extended IDs ---- *)
Theorem C13_spatial_variant_is_the_expansion : forall l E O outV,
  tiles_to_sids l E O outV = match tiles_to_eids l E O outV with Ok r => Ok (flat_map expand_eid r) | Err => Err end.
Proof. exact tiles_to_sids_is_expansion. Qed.
Print Assumptions C13_spatial_variant_is_the_expansion.

Theorem C13_spatial_variant_fails_iff_extended_variant_fails : forall l E O outV,
  tiles_to_sids l E O outV = Err <-> tiles_to_eids l E O outV = Err.
Proof. exact tiles_to_sids_err_iff. Qed.
Print Assumptions C13_spatial_variant_fails_iff_extended_variant_fails.

Theorem C13_spatial_strings_are_the_records_printed : forall l E O outV,
  tiles_to_sids l E O outV = match tiles_to_sids_rec l E O outV with Ok js => Ok (map print_sid js) | Err => Err end.
Proof. exact tiles_to_sids_print. Qed.
Print Assumptions C13_spatial_strings_are_the_records_printed.

(* members: exactly the voxels at the single zoom max(hZoom, outV) — on both axes — that overlap an extended ID of the result *)
Theorem C13_spatial_members : forall l E O outV r js, tiles_to_eids l E O outV = Ok r -> tiles_to_sids_rec l E O outV = Ok js ->
  (forall t, In t l -> 0 <= tx t /\ 0 <= ty t) ->
  forall j, In j js <-> exists i, In i r /\ eh j = Z.max (eh i) outV /\ ev j = Z.max (eh i) outV /\ overlaps i j.
Proof. exact tiles_to_sids_members. Qed.
Print Assumptions C13_spatial_members.

(* the same region *)
Theorem C13_spatial_variant_same_region : forall l E O outV r js, tiles_to_eids l E O outV = Ok r -> tiles_to_sids_rec l E O outV = Ok js ->
  (forall t, In t l -> 0 <= tx t /\ 0 <= ty t) ->
  forall p, (exists j, In j js /\ inR j p) <-> (exists i, In i r /\ inR i p).
Proof. exact tiles_to_sids_region. Qed.
Print Assumptions C13_spatial_variant_same_region.

Theorem C13_spatial_variant_covers_every_tile : forall l E O outV js t p, tiles_to_sids_rec l E O outV = Ok js ->
  (forall t, In t l -> 0 <= tx t /\ 0 <= ty t) -> In t l -> inT E O t p -> exists j, In j js /\ inR j p.
Proof. exact tiles_to_sids_cover. Qed.
Print Assumptions C13_spatial_variant_covers_every_tile.

(* the strings returned: canonical notation of valid spatial IDs *)
Theorem C13_spatial_strings_are_valid_ids : forall l E O outV ss, tiles_to_sids l E O outV = Ok ss -> (forall t, In t l -> footprint_ok t) ->
  forall s, In s ss -> exists j, parse_sid s = Some j /\ s = print_sid j /\ valid j /\ eh j = ev j /\
                                 exists js, tiles_to_sids_rec l E O outV = Ok js /\ In j js.
Proof. exact tiles_to_sids_strings. Qed.
Print Assumptions C13_spatial_strings_are_valid_ids.

Theorem C13_spatial_variant_same_tiles_same_multiset : forall l1 l2 E O outV, (forall t, In t l1 <-> In t l2) ->
  match tiles_to_sids l1 E O outV, tiles_to_sids l2 E O outV with
  | Ok s1, Ok s2 => Permutation s1 s2
  | Err, Err => True
  | _, _ => False
  end.
Proof. exact tiles_to_sids_set_invariant. Qed.
Print Assumptions C13_spatial_variant_same_tiles_same_multiset.

(* the spatial-ID variant does not de-duplicate (the property does not ask it to): no repetition when the request has one horizontal
   zoom; with nested footprints at different horizontal zooms the same spatial ID is returned twice (example below) *)
Theorem C13_spatial_variant_no_repetition_with_one_hzoom : forall l E O outV h js, tiles_to_sids_rec l E O outV = Ok js ->
  (forall t, In t l -> th t = h /\ 0 <= tx t /\ 0 <= ty t) -> NoDup js.
Proof. exact tiles_to_sids_NoDup_one_hzoom. Qed.
Print Assumptions C13_spatial_variant_no_repetition_with_one_hzoom.

(* ---- the model is what the code executes: no int64 wrap-around on the property's domain ---- *)
Theorem C13_range_computation_is_exact_on_domain : forall h x y v z t E O outV, new_tile h x y v z = Ok t -> ext_check_zoom (th t) outV = true ->
  0 <= E <= 35 -> - 2 ^ 50 <= O <= 2 ^ 50 ->
  key2z64m (tz t) (tv t) outV E O = Some (key2z (tz t) (tv t) outV E O, true).
Proof. exact tile_range_int64_exact. Qed.
Print Assumptions C13_range_computation_is_exact_on_domain.

(* ---- the run-time checkers decide the specification on the OBSERVED output (DC13.v) ---- *)
(* eids_spec l E O outV (Some r) := 0 <= outV <= 35 /\ every tile fits /\ NoDup r /\ (In j r <-> exists t in l, stems_from E O outV t j);
   eids_spec l E O outV None     := outV outside 0..35 \/ some tile does not fit     (None = an error together with an empty result).
   The specification fixes the result up to order, so on ACCEPTED observations the checker and the comparison with the model agree; what the
   checker adds is that its verdict is proved to be the Prop-level property (stated without the conversion function), computed from AltKey's
   integer formulas of the widened cover (wid_min_z / wid_max_z), a sorted duplicate test and per-tile counting — not from key2z. *)
Theorem C13_checker_decides_the_spec : forall l E O outV obs, check_eids l E O outV obs = true <-> eids_spec l E O outV obs.
Proof. exact check_eids_decides. Qed.
Print Assumptions C13_checker_decides_the_spec.

(* what an accepted observation of the EXTENDED variant guarantees, in the words of the property *)
Theorem C13_accepted_extended_observation : forall l E O outV r, check_eids l E O outV (Some r) = true ->
  0 <= outV <= 35 /\ (forall t, In t l -> tile_fits E O outV t) /\ NoDup r /\
  (forall j, In j r -> ev j = outV /\ exists t, In t l /\ eh j = th t /\ ex j = tx t /\ ey j = ty t) /\
  (forall t p, In t l -> inT E O t p -> exists j, In j r /\ inR j p) /\
  (forall j, In j r -> exists t, In t l /\ eh j = th t /\ ex j = tx t /\ ey j = ty t /\
     exists a, (IZR (Zfloor (tile_lo E O t)) <= a < IZR (Zceil (tile_hi E O t)))%R /\ in_cell (sid_scale outV) (ef j) a).
Proof. exact eids_accepted_observation. Qed.
Print Assumptions C13_accepted_extended_observation.

Theorem C13_accepted_error_observation : forall l E O outV, check_eids l E O outV None = true ->
  ~ (0 <= outV <= 35) \/ exists t, In t l /\ ~ tile_fits E O outV t.
Proof. exact eids_rejected_observation. Qed.
Print Assumptions C13_accepted_error_observation.

Theorem C13_model_meets_spec : forall l E O outV, eids_spec l E O outV (res_opt (tiles_to_eids l E O outV)).
Proof. exact eids_spec_of_model. Qed.
Print Assumptions C13_model_meets_spec.

Theorem C13_spec_fixes_the_result_up_to_order : forall l E O outV obs, eids_spec l E O outV obs ->
  match obs, tiles_to_eids l E O outV with
  | Some r, Ok r' => Permutation r r'
  | None, Err => True
  | _, _ => False
  end.
Proof. exact eids_spec_fixes_result. Qed.
Print Assumptions C13_spec_fixes_the_result_up_to_order.

(* the sorted duplicate test and the sorted de-duplication used at run time (n log n) are what they stand for *)
Theorem C13_sorted_duplicate_test : forall l, nodup_sortb l = true <-> NoDup l.
Proof. exact nodup_sortb_spec. Qed.
Print Assumptions C13_sorted_duplicate_test.

Theorem C13_run_time_model_is_the_model_up_to_order : forall l E O outV,
  match tiles_to_eids_fast l E O outV, tiles_to_eids l E O outV with
  | Ok a, Ok b => Permutation a b
  | Err, Err => True
  | _, _ => False
  end.
Proof. exact tiles_to_eids_fast_spec. Qed.
Print Assumptions C13_run_time_model_is_the_model_up_to_order.

(* the reference the checker uses is independent of the model function: AltKey's integer formulas of the widened cover *)
Theorem C13_reference_range_is_the_accepted_range : forall E O outV t mn mx,
  tile_ref E O outV t = Some (mn, mx) <-> tile_accepted E O outV t mn mx.
Proof. exact tile_ref_Some. Qed.
Print Assumptions C13_reference_range_is_the_accepted_range.

(* sids_spec l E O outV (Some ss) := exists r, eids_spec l E O outV (Some r) /\ ss is a permutation of the printed expansion of r *)
Theorem C13_spatial_checker_sound : forall l E O outV obs, check_sids l E O outV obs = true -> sids_spec l E O outV obs.
Proof. exact check_sids_sound. Qed.
Print Assumptions C13_spatial_checker_sound.

Theorem C13_spatial_model_meets_spec : forall l E O outV, sids_spec l E O outV (res_opt (tiles_to_sids l E O outV)).
Proof. exact sids_spec_model. Qed.
Print Assumptions C13_spatial_model_meets_spec.

Theorem C13_spatial_checker_accepts_the_model : forall l E O outV, (forall t, In t l -> footprint_ok t) ->
  check_sids l E O outV (res_opt (tiles_to_sids l E O outV)) = true.
Proof. exact check_sids_model. Qed.
Print Assumptions C13_spatial_checker_accepts_the_model.

Theorem C13_accepted_spatial_observation : forall l E O outV ss, sids_spec l E O outV (Some ss) -> (forall t, In t l -> footprint_ok t) ->
  exists r js, tiles_to_eids l E O outV = Ok r /\ tiles_to_sids_rec l E O outV = Ok js /\ Permutation ss (map print_sid js) /\
    (forall s, In s ss -> exists j, parse_sid s = Some j /\ s = print_sid j /\ valid j /\ eh j = ev j /\ In j js) /\
    (forall p, (exists j, In j js /\ inR j p) <-> (exists i, In i r /\ inR i p)) /\
    (forall t p, In t l -> inT E O t p -> exists j, In j js /\ inR j p).
Proof. exact sids_spec_consequences. Qed.
Print Assumptions C13_accepted_spatial_observation.

(* both variants called on the same arguments: an accepted pair is a permutation of the expansion of the observed extended IDs *)
Theorem C13_pair_law_sound : forall ss r, sids_match ss (flat_map expand_rec r) || multiset_eqb ss (flat_map expand_eid r) = true ->
  Permutation ss (flat_map expand_eid r).
Proof. exact pair_law_sound. Qed.
Print Assumptions C13_pair_law_sound.

Theorem C13_new_tile_checker_sound : forall h x y v z obs, check_new_tile h x y v z obs = true <-> new_tile_spec_obs h x y v z obs.
Proof. exact check_new_tile_sound. Qed.
Print Assumptions C13_new_tile_checker_sound.

(* the finding-class guard of the dispatcher: with every per-tile int64 computation exact the executed function is key2z; on the
   property's domain the guard always holds *)
Theorem C13_exactness_guard_meaning : forall ts E O outV t, exact_tiles ts E O outV = true -> In t ts -> ext_check_zoom (th t) outV = true ->
  go_result (key2z64m (tz t) (tv t) outV E O) = Some (key2z (tz t) (tv t) outV E O).
Proof. exact exact_tiles_meaning. Qed.
Print Assumptions C13_exactness_guard_meaning.

Theorem C13_exactness_guard_holds_on_domain : forall tiles ts E O outV, build tiles = Some (Ok ts) -> 0 <= E <= 35 -> - 2 ^ 50 <= O <= 2 ^ 50 ->
  exact_tiles ts E O outV = true.
Proof. exact exact_tiles_on_domain. Qed.
Print Assumptions C13_exactness_guard_holds_on_domain.

(* ---- tie to the source by regeneration (DESIGN.md 4.2): the kernels translated from /repo's current source (generated/Generated.v) are
        the models the theorems above are composed of; an edit of these functions in /repo breaks these obligations ---- *)
From SIDGen Require Generated.
From SID Require GenTac GenEqAlt GenEqCheck GenEqZoom.
Theorem C13_generated_range_kernel_is_the_model : forall k kz out E O,
  Generated.ConvertAltitudekeyToMinMaxZ k kz out E O = GenTac.enc_zz (AltKeyCore.key2z k kz out E O).
Proof. exact GenEqAlt.gen_ConvertAltitudekeyToMinMaxZ_eq. Qed.
Print Assumptions C13_generated_range_kernel_is_the_model.

Theorem C13_generated_zoom_check_is_the_model : forall h v, Generated.extendedSpatialIDCheckZoom h v = ext_check_zoom h v.
Proof. exact GenEqCheck.gen_extendedSpatialIDCheckZoom_eq. Qed.
Print Assumptions C13_generated_zoom_check_is_the_model.

Theorem C13_generated_tile_zoom_limit : Generated.MaxTileXYZZoom = max_tile_zoom.
Proof. exact GenEqCheck.gen_MaxTileXYZZoom_eq. Qed.
Print Assumptions C13_generated_tile_zoom_limit.

Theorem C13_generated_expansion_kernels_are_the_model : forall zin x y f zout,
  Generated.HorizontalZoomMinMax zin x y zout = hzoom_minmax zin x y zout /\ Generated.VerticalZoom_minmax zin f zout = vzoom_minmax zin f zout.
Proof. exact (fun zin x y f zout => conj (GenEqZoom.gen_HorizontalZoomMinMax_eq zin x y zout) (GenEqZoom.gen_VerticalZoom_minmax_eq zin f zout)). Qed.
Print Assumptions C13_generated_expansion_kernels_are_the_model.

(* ---- the TileXYZ object: setters and getters (model: record update). (e, t') := apply_op t (SetX x) is "error?, object afterwards" ---- *)
Theorem C13_SetX_get_set_and_frame : forall t x,
  let '(e, t') := apply_op t (SetX x) in e = false /\ tx t' = x /\ th t' = th t /\ ty t' = ty t /\ tv t' = tv t /\ tz t' = tz t.
Proof. exact set_x_spec. Qed.
Print Assumptions C13_SetX_get_set_and_frame.
Theorem C13_SetY_get_set_and_frame : forall t y,
  let '(e, t') := apply_op t (SetY y) in e = false /\ ty t' = y /\ th t' = th t /\ tx t' = tx t /\ tv t' = tv t /\ tz t' = tz t.
Proof. exact set_y_spec. Qed.
Print Assumptions C13_SetY_get_set_and_frame.
Theorem C13_SetZ_get_set_and_frame : forall t z,
  let '(e, t') := apply_op t (SetZ z) in e = false /\ tz t' = z /\ th t' = th t /\ tx t' = tx t /\ ty t' = ty t /\ tv t' = tv t.
Proof. exact set_z_spec. Qed.
Print Assumptions C13_SetZ_get_set_and_frame.
Theorem C13_SetHZoom_get_set_frame_and_refusal : forall t h, let '(e, t') := apply_op t (SetH h) in
  (0 <= h <= 35 -> e = false /\ th t' = h /\ tx t' = tx t /\ ty t' = ty t /\ tv t' = tv t /\ tz t' = tz t) /\
  (~ 0 <= h <= 35 -> e = true /\ t' = t).
Proof. exact set_h_spec. Qed.
Print Assumptions C13_SetHZoom_get_set_frame_and_refusal.
Theorem C13_SetVZoom_get_set_frame_and_refusal : forall t v, let '(e, t') := apply_op t (SetV v) in
  (0 <= v <= 35 -> e = false /\ tv t' = v /\ th t' = th t /\ tx t' = tx t /\ ty t' = ty t /\ tz t' = tz t) /\
  (~ 0 <= v <= 35 -> e = true /\ t' = t).
Proof. exact set_v_spec. Qed.
Print Assumptions C13_SetVZoom_get_set_frame_and_refusal.
Theorem C13_refused_setter_leaves_the_object_unchanged : forall t o, fst (apply_op t o) = true -> snd (apply_op t o) = t.
Proof. exact apply_op_error_keeps_object. Qed.
Print Assumptions C13_refused_setter_leaves_the_object_unchanged.

(* whatever the sequence of setter calls, an object that started as the zero value or came from NewTileXYZ keeps both zooms in 0..35 and
   is a tile NewTileXYZ could have returned: the conversions never see another zoom *)
Theorem C13_setters_keep_zooms_valid : forall t ops, zooms_valid t -> zooms_valid (final_tile t ops).
Proof. exact setters_keep_zooms_valid. Qed.
Print Assumptions C13_setters_keep_zooms_valid.
Theorem C13_new_tile_and_zero_value_have_valid_zooms :
  zooms_valid zero_tile /\ forall h x y v z t, new_tile h x y v z = Ok t -> zooms_valid t.
Proof. exact (conj zero_tile_zooms_valid new_tile_zooms_valid). Qed.
Print Assumptions C13_new_tile_and_zero_value_have_valid_zooms.
Theorem C13_reachable_tile_is_constructible : forall t, zooms_valid t -> new_tile (th t) (tx t) (ty t) (tv t) (tz t) = Ok t.
Proof. exact reachable_tile_is_constructible. Qed.
Print Assumptions C13_reachable_tile_is_constructible.
(* the run-time checker of an observed setter trace (each call judged from the state observed before it) accepts exactly the model's trace *)
Theorem C13_setter_trace_checker : forall prev ops obs, check_trace prev ops obs = true <-> obs = run_ops prev ops.
Proof. exact check_trace_spec. Qed.
Print Assumptions C13_setter_trace_checker.

(* ---- the zoom domain through the constant regenerated from /repo (consts.MaxTileXYZZoom): an edit of the constant breaks these ---- *)
From SID Require TileGen.
Theorem C13_NewTileXYZ_accepts_exactly_the_generated_zoom_range : forall h x y v z,
  new_tile h x y v z = Ok (mkt h x y v z) <-> 0 <= h <= Generated.MaxTileXYZZoom /\ 0 <= v <= Generated.MaxTileXYZZoom.
Proof. exact TileGen.new_tile_generated_limit. Qed.
Print Assumptions C13_NewTileXYZ_accepts_exactly_the_generated_zoom_range.
Theorem C13_zoom_setters_accept_exactly_the_generated_zoom_range : forall t z,
  (fst (apply_op t (SetH z)) = false <-> 0 <= z <= Generated.MaxTileXYZZoom) /\
  (fst (apply_op t (SetV z)) = false <-> 0 <= z <= Generated.MaxTileXYZZoom).
Proof. exact TileGen.set_zoom_generated_limit. Qed.
Print Assumptions C13_zoom_setters_accept_exactly_the_generated_zoom_range.
Theorem C13_tile_zoom_domain_is_the_conversion_window : forall h v,
  ext_check_zoom h v = ((0 <=? h) && (h <=? Generated.MaxTileXYZZoom)) && ((0 <=? v) && (v <=? Generated.MaxTileXYZZoom)).
Proof. exact TileGen.tile_zoom_domain_is_the_conversion_window. Qed.
Print Assumptions C13_tile_zoom_domain_is_the_conversion_window.
Theorem C13_tile_zoom_test_is_the_generated_window : forall z, tile_zoom_ok z = (0 <=? z) && (z <=? Generated.MaxTileXYZZoom).
Proof. exact TileGen.tile_zoom_ok_generated. Qed.
Print Assumptions C13_tile_zoom_test_is_the_generated_window.

(* ---- INT64: the kernels regenerated from /repo with Go's int64 semantics explicit (generated/Generated64.v; Some (r, true) = returns r and no
        intermediate left the int64 range, None = panic). What used to be the assumption "int64 = Z on the domain" for the kernels: ---- *)
From SIDGen Require Generated64.
From SID Require I64.
Theorem C13_int64_zoom_check_is_the_model : forall h v, Generated64.extendedSpatialIDCheckZoom h v = I64.ret (ext_check_zoom h v).
Proof. exact TileGen.generated64_zoom_check. Qed.
Print Assumptions C13_int64_zoom_check_is_the_model.

(* the per-tile range as executed: on the domain it neither panics nor wraps and returns C13's specification (error exactly when the tile
   does not fit; otherwise the metre-widened cover of the tile's altitude interval) *)
Theorem C13_int64_tile_range_meets_spec : forall h x y v z t E O outV, new_tile h x y v z = Ok t -> 0 <= outV <= 35 ->
  0 <= E <= 35 -> - 2 ^ 50 <= O <= 2 ^ 50 ->
  exists r, Generated64.ConvertAltitudekeyToMinMaxZ (tz t) (tv t) outV E O = Some (GenTac.enc_zz r, true) /\
    match r with
    | Ok (mn, mx) => tile_fits E O outV t /\ mn = wid_min (sid_scale outV) (tile_lo E O t) /\ mx = wid_max (sid_scale outV) (tile_hi E O t)
    | Err => ~ tile_fits E O outV t
    end.
Proof. exact TileGen.generated64_tile_range_spec. Qed.
Print Assumptions C13_int64_tile_range_meets_spec.

Theorem C13_int64_tile_range_never_panics : forall k kz out E O, - 2 ^ 62 <= E <= 2 ^ 62 ->
  Generated64.ConvertAltitudekeyToMinMaxZ k kz out E O <> None.
Proof. exact TileGen.generated64_tile_range_no_panic. Qed.
Print Assumptions C13_int64_tile_range_never_panics.

(* the expansion kernels of the spatial variant on every extended ID the conversion returns for tiles with x, y inside their grid *)
Theorem C13_int64_expansion_kernels_fit_on_results : forall l E O outV r i, tiles_to_eids l E O outV = Ok r ->
  (forall t, In t l -> footprint_ok t) -> In i r ->
  Generated64.HorizontalZoomMinMax (eh i) (Ids.ex i) (ey i) (ev i) = Some (hzoom_minmax (eh i) (Ids.ex i) (ey i) (ev i), true) /\
  Generated64.VerticalZoom_minmax (ev i) (ef i) (eh i) = Some (vzoom_minmax (ev i) (ef i) (eh i), true).
Proof. exact TileGen.generated64_expansion_fits_on_results. Qed.
Print Assumptions C13_int64_expansion_kernels_fit_on_results.

(* outside the grid the int64 code wraps (evaluated on the regenerated kernel): x = 2^62 at hZoom 0 expanded to zoom 2 *)
Theorem C13_int64_expansion_wraps_outside_the_grid :
  Generated64.HorizontalZoomMinMax 0 (2 ^ 62) 0 2 = Some ((0, 0, 3, 3), false) /\
  Generated.HorizontalZoomMinMax 0 (2 ^ 62) 0 2 = (2 ^ 64, 0, 2 ^ 64 + 3, 3) /\
  tiles_to_eids [mkt 0 (2 ^ 62) 0 25 0] 25 0 2 = Ok [mk 0 (2 ^ 62) 0 2 0].
Proof. exact TileGen.generated64_expansion_wraps_outside_the_grid. Qed.
Print Assumptions C13_int64_expansion_wraps_outside_the_grid.

(* ---- the zoom window observed through the hook VerifExtendedSpatialIDCheckZoom: the checker says "true exactly on 0..35 x 0..35" ---- *)
Theorem C13_zoom_window_checker : forall h v b, zoom_window_b h v b = true <-> (b = true <-> 0 <= h <= 35 /\ 0 <= v <= 35).
Proof. exact zoom_window_b_spec. Qed.
Print Assumptions C13_zoom_window_checker.
Theorem C13_zoom_window_model : forall h v, zoom_window_b h v (ext_check_zoom h v) = true.
Proof. exact ext_check_zoom_window. Qed.
Print Assumptions C13_zoom_window_model.

(* ---- non-vacuity ---- *)
(* the documentation's examples 1 and 3 *)
Example C13_doc_example_1 : tiles_to_eids [mkt 20 85263 65423 23 0] 25 8 23 = Ok [mk 20 85263 65423 23 (-2)].
Proof. exact doc_example_1. Qed.
Example C13_doc_example_3 : tiles_to_eids [mkt 20 85263 65423 23 0] 25 7 23 = Ok [mk 20 85263 65423 23 (-2); mk 20 85263 65423 23 (-1)].
Proof. exact doc_example_3. Qed.
(* one request, the same z at two vertical zooms: each tile gets the range of its own zoom; an index that exists at vZoom 3 but not at
   vZoom 2 fails the whole call also when it comes last *)
Example C13_same_z_other_vzoom : tiles_to_eids [mkt 3 1 2 25 1; mkt 3 1 2 24 1] 25 0 25 = Ok [mk 3 1 2 25 1; mk 3 1 2 25 2; mk 3 1 2 25 3].
Proof. exact same_z_other_vzoom. Qed.
Example C13_same_z_invalid_at_other_vzoom :
  tiles_to_eids [mkt 3 1 2 3 5] 25 0 3 = Ok [mk 3 1 2 3 5] /\ tiles_to_eids [mkt 3 1 2 3 5; mkt 3 1 2 2 5] 25 0 3 = Err.
Proof. exact same_z_invalid_at_other_vzoom. Qed.
Example C13_overlapping_tiles_are_merged :
  tiles_to_eids [mkt 1 0 1 25 0; mkt 1 0 1 25 1; mkt 1 0 1 24 0] 25 0 25 = Ok [mk 1 0 1 25 0; mk 1 0 1 25 1].
Proof. exact overlapping_tiles. Qed.
Example C13_empty_request_bad_zoom : tiles_to_eids [] 25 0 36 = Err /\ tiles_to_eids [] 25 0 (-1) = Err /\ tiles_to_eids [] 25 0 35 = Ok [].
Proof. exact empty_request_bad_zoom. Qed.
(* a range that starts on a legal index and runs past the top of the target zoom is an error *)
Example C13_range_past_the_top_is_an_error :
  key2z (2 ^ 24 - 1) 24 25 25 (-1) = Err /\ tiles_to_eids [mkt 20 85263 65423 23 0; mkt 20 85263 65423 24 (2 ^ 24 - 1)] 25 (-1) 25 = Err.
Proof. exact range_past_the_top_is_an_error. Qed.
(* output vertical zoom 0 with hZoom 3: the expansion raises the vertical axis to zoom 3 *)
Example C13_output_zoom_0 : tiles_to_sids [mkt 3 5 2 3 3] 3 2 0 =
  Ok ["3/0/5/2"; "3/1/5/2"; "3/2/5/2"; "3/3/5/2"; "3/4/5/2"; "3/5/5/2"; "3/6/5/2"; "3/7/5/2"]%string.
Proof. exact output_zoom_0. Qed.
Example C13_spatial_variant_example : tiles_to_sids [mkt 2 1 3 25 4] 25 0 3 = Ok ["3/0/2/6"; "3/0/2/7"; "3/0/3/6"; "3/0/3/7"]%string.
Proof. exact spatial_variant_example. Qed.
Example C13_spatial_variant_may_repeat :
  tiles_to_sids [mkt 0 0 0 1 0; mkt 1 0 0 1 0] 25 0 1 = Ok ["1/0/0/0"; "1/0/0/1"; "1/0/1/0"; "1/0/1/1"; "1/0/0/0"]%string.
Proof. exact tiles_to_sids_may_repeat. Qed.
(* the hypotheses of the cover theorem are satisfiable: the point (u, w, altitude 2.5 m) of tile (1, 0, 1, 25, 2) with E = 25, O = 0 *)
Example C13_cover_hypotheses_satisfiable : inT 25 0 (mkt 1 0 1 25 2) (0.25, 0.75, 2.5 * / 33554432)%R.
Proof. exact cover_hypotheses_satisfiable. Qed.
(* a setter sequence on the zero value: refused calls (36, -1, 40) leave the object unchanged *)
Example C13_setter_sequence :
  run_ops zero_tile [SetH 36; SetH 20; SetX (-7); SetV (-1); SetV 23; SetZ 5; SetH 40] =
  [(true, mkt 0 0 0 0 0); (false, mkt 20 0 0 0 0); (false, mkt 20 (-7) 0 0 0); (true, mkt 20 (-7) 0 0 0); (false, mkt 20 (-7) 0 23 0);
   (false, mkt 20 (-7) 0 23 5); (true, mkt 20 (-7) 0 23 5)].
Proof. exact setter_sequence_example. Qed.
