From SID Require Import Tile DC13.
