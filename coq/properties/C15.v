(* C15 — placeholder while the harness is brought up; replaced below *)
From SID Require Import Api.
