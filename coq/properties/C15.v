(* C15 — Invalid input is rejected with an error, never a panic or a silent answer.
   Only statements, `exact` proofs and Print Assumptions live here. Predicates invalid_<fn> ("the documentation excludes this
   input"), the validation-prefix models and all proofs: theories/Api.v; the models of the individual functions belong to the
   properties named in each comment. A model result is `Ok _ | Err` (or a pair with an error flag): every model is a total
   function, so "no panic" is totality plus the Panic observable of the harness, which no model ever returns. *)
From Coq Require Import ZArith String List Bool Floats Reals.
From Flocq Require Import Core.
From SID Require Import Base Str Ids F64 ExactRef PtBridge ZoomCore AltKeyCore ChangeZoom Merge MergeApi Shift Neighbour Notation PointF VertexF Line
  Project Overlap QuadkeyConv Corridor SetLatProofs Api.
Import ListNotations.
Open Scope Z_scope.

(* ================= common/object ================= *)
(* NewPoint refuses |lon| > 180 and a latitude whose ten-decimal cut exceeds 85.0511287798 (and nothing else) *)
Theorem C15_new_point_error_iff_out_of_range : forall lon lat alt,
  snd (new_point lon lat alt) = ((180 <? abs lon)%float || (c_latmax <? abs (setlat_trunc lat))%float).
Proof. exact new_point_flag. Qed.
Print Assumptions C15_new_point_error_iff_out_of_range.
(* accepted points: longitude and altitude stored unchanged, latitude = the ten-decimal cut *)
Theorem C15_new_point_stores_lon_alt_unchanged : forall lon lat alt, invalid_new_point lon lat = false ->
  fst (new_point lon lat alt) = {| plon := lon; plat := setlat_trunc lat; palt := alt |}.
Proof. exact new_point_stores. Qed.
Print Assumptions C15_new_point_stores_lon_alt_unchanged.
Theorem C15_new_point_is_the_setters : forall lon lat alt,
  new_point lon lat alt =
  let '(p1, e1) := set_lon zero_point lon in
  if e1 then (p1, true)
  else let '(p2, e2) := set_lat p1 lat in
       if e2 then (p2, true) else ({| plon := plon p2; plat := plat p2; palt := alt |}, false).
Proof. exact new_point_is_setters. Qed.
Print Assumptions C15_new_point_is_the_setters.
Theorem C15_set_lon_rejects : forall p lon, (180 <? abs lon)%float = true -> set_lon p lon = (p, true).
Proof. exact set_lon_rejects. Qed.
Print Assumptions C15_set_lon_rejects.
Theorem C15_set_lat_rejects : forall p lat, (c_latmax <? abs (setlat_trunc lat))%float = true -> set_lat p lat = (p, true).
Proof. exact set_lat_rejects. Qed.
Print Assumptions C15_set_lat_rejects.
Theorem C15_set_lon_stores : forall p lon, invalid_set_lon lon = false ->
  set_lon p lon = ({| plon := lon; plat := plat p; palt := palt p |}, false).
Proof. exact set_lon_stores. Qed.
Print Assumptions C15_set_lon_stores.
Theorem C15_set_lat_stores : forall p lat, invalid_set_lat lat = false ->
  set_lat p lat = ({| plon := plon p; plat := setlat_trunc lat; palt := palt p |}, false).
Proof. exact set_lat_stores. Qed.
Print Assumptions C15_set_lat_stores.
(* "latitude cut toward zero by less than 1e-10 degrees" is FALSE of the bit-exact SetLat (finding class setlat_inexact, D20; proved
   by the C01 builder): witness float64(12.9086804579), stored as 12.9086804578 *)
Theorem C15_setlat_documented_cut_refuted :
  exists lat, ffin lat = true /\ (Rabs (fval lat) <= 85)%R /\
              ~ (0 <= Rabs (fval lat) - Rabs (fval (setlat_trunc lat)) < 1 / 10 ^ 10)%R.
Proof. exact setlat_inexact_refuted. Qed.
Print Assumptions C15_setlat_documented_cut_refuted.
(* what holds instead (partial: a slack of 2^-46 = 1.4e-14 degrees on both sides) *)
Theorem C15_setlat_cut_partial : forall lat, ffin lat = true -> (Rabs (fval lat) <= 90)%R ->
  (- bpow radix2 (-46) <= Rabs (fval lat) - Rabs (fval (setlat_trunc lat)) <= 1 / 10 ^ 10 + bpow radix2 (-46))%R.
Proof. exact setlat_cut_bounds. Qed.
Print Assumptions C15_setlat_cut_partial.
(* the same on the INPUT side of NewPoint: an accepted point stores a latitude within that band of the argument (partial) ... *)
Theorem C15_new_point_lat_band_partial : forall lon lat alt, ffin lat = true -> (Rabs (fval lat) <= 90)%R ->
  invalid_new_point lon lat = false ->
  (- bpow radix2 (-46) <= Rabs (fval lat) - Rabs (fval (F64.plat (fst (new_point lon lat alt)))) <= 1 / 10 ^ 10 + bpow radix2 (-46))%R.
Proof. exact new_point_lat_band_partial. Qed.
Print Assumptions C15_new_point_lat_band_partial.
(* ... and a latitude beyond the limit by more than the cut and the float dust is refused (values in between, e.g. 85.05112877985,
   are accepted and stored as the limit: "beyond the limit" is read after the documented cut) *)
Theorem C15_new_point_rejects_lat_beyond_limit : forall lon lat alt, ffin lat = true -> (Rabs (fval lat) <= 90)%R ->
  (fval c_latmax + 1 / 10 ^ 10 + bpow radix2 (-46) < Rabs (fval lat))%R -> snd (new_point lon lat alt) = true.
Proof. exact new_point_rejects_lat_beyond. Qed.
Print Assumptions C15_new_point_rejects_lat_beyond_limit.
(* the run-time reference of the dispatch entries decides the documented statement exactly *)
Theorem C15_setlat_checker_sound : forall lat s, ffin lat = true -> ffin s = true ->
  exact_cut_ok lat s = true <-> (0 <= Rabs (fval lat) - Rabs (fval s) < 1 / 10 ^ 10)%R.
Proof. exact exact_cut_ok_spec. Qed.
Print Assumptions C15_setlat_checker_sound.

(* NewExtendedSpatialID / ResetExtendedSpatialID (model Notation.new_eid, C10): error iff not five '/'-separated int64 fields *)
Theorem C15_new_eid_error_iff_malformed : forall s, is_ok (new_eid s) = negb (invalid_new_eid s).
Proof. exact new_eid_flag. Qed.
Print Assumptions C15_new_eid_error_iff_malformed.
Theorem C15_new_eid_rejects : forall s, parse_eid s = None -> new_eid s = Err.
Proof. exact new_eid_rejects_unparsed. Qed.
Print Assumptions C15_new_eid_rejects.
Theorem C15_reset_eid_rejects_and_keeps_the_object : forall old s, invalid_new_eid s = true -> reset_eid old s = (old, true).
Proof. exact reset_eid_rejects. Qed.
Print Assumptions C15_reset_eid_rejects_and_keeps_the_object.
(* NewTileXYZ / SetHZoom / SetVZoom: zooms outside 0..35 *)
Theorem C15_new_tile_error_iff_bad_zoom : forall h x y v z, is_ok (new_tile h x y v z) = negb (zoom_bad h || zoom_bad v).
Proof. exact new_tile_flag. Qed.
Print Assumptions C15_new_tile_error_iff_bad_zoom.
Theorem C15_tile_set_hzoom_rejects : forall t h, zoom_bad h = true -> tile_set_hzoom t h = (t, true).
Proof. exact tile_set_hzoom_rejects. Qed.
Print Assumptions C15_tile_set_hzoom_rejects.
Theorem C15_tile_set_vzoom_rejects : forall t v, zoom_bad v = true -> tile_set_vzoom t v = (t, true).
Proof. exact tile_set_vzoom_rejects. Qed.
Print Assumptions C15_tile_set_vzoom_rejects.

(* ================= shape ================= *)
(* point lookup (models of C01), for every oracle of the transcendental functions: a zoom outside 0..35 or a nil point is an error *)
Theorem C15_points_rejects : forall m_tan m_cos m_log has_nil l h v, invalid_points has_nil h v = true ->
  points_api m_tan m_cos m_log has_nil l h v = Err.
Proof. exact points_rejects. Qed.
Print Assumptions C15_points_rejects.
Theorem C15_points_sid_rejects : forall m_tan m_cos m_log has_nil l z, invalid_points has_nil z z = true ->
  points_sid_api m_tan m_cos m_log has_nil l z = Err.
Proof. exact points_sid_rejects. Qed.
Print Assumptions C15_points_sid_rejects.
(* and nothing else is refused (as long as every intermediate float is finite: the property's domain) *)
Theorem C15_points_error_flag : forall m_tan m_cos m_log has_nil l h v, points_eids m_tan m_cos m_log l h v <> None ->
  is_ok (points_api m_tan m_cos m_log has_nil l h v) = negb (invalid_points has_nil h v).
Proof. exact points_flag. Qed.
Print Assumptions C15_points_error_flag.
Theorem C15_points_sid_error_flag : forall m_tan m_cos m_log has_nil l z, points_eids m_tan m_cos m_log l z z <> None ->
  is_ok (points_sid_api m_tan m_cos m_log has_nil l z) = negb (invalid_points has_nil z z).
Proof. exact points_sid_flag. Qed.
Print Assumptions C15_points_sid_error_flag.
(* line (models of C06) *)
Theorem C15_line_rejects : forall m_tan m_cos m_log has_nil s e h v, invalid_points has_nil h v = true ->
  line_api m_tan m_cos m_log has_nil s e h v = Err.
Proof. exact line_rejects. Qed.
Print Assumptions C15_line_rejects.
Theorem C15_line_sid_rejects : forall m_tan m_cos m_log has_nil s e z, invalid_points has_nil z z = true ->
  line_sid_api m_tan m_cos m_log has_nil s e z = Err.
Proof. exact line_sid_rejects. Qed.
Print Assumptions C15_line_sid_rejects.
(* ID -> points (models of C02): error iff the ID is malformed, a zoom field is outside 0..35, or the option is not Vertex / Center *)
Theorem C15_point_on_eid_error_flag : forall m_sinh m_atan id opt,
  is_ok (point_on_eid_api m_sinh m_atan id opt) = negb (invalid_point_on_eid id opt).
Proof. exact point_on_eid_flag. Qed.
Print Assumptions C15_point_on_eid_error_flag.
Theorem C15_point_on_sid_error_flag : forall m_sinh m_atan id opt,
  is_ok (point_on_sid_api m_sinh m_atan id opt) = negb (invalid_point_on_sid id opt).
Proof. exact point_on_sid_flag. Qed.
Print Assumptions C15_point_on_sid_error_flag.
Theorem C15_point_on_eid_rejects : forall m_sinh m_atan id opt, invalid_point_on_eid id opt = true ->
  point_on_eid_api m_sinh m_atan id opt = Err.
Proof. exact point_on_eid_rejects. Qed.
Print Assumptions C15_point_on_eid_rejects.
Theorem C15_point_on_sid_rejects : forall m_sinh m_atan id opt, invalid_point_on_sid id opt = true ->
  point_on_sid_api m_sinh m_atan id opt = Err.
Proof. exact point_on_sid_rejects. Qed.
Print Assumptions C15_point_on_sid_rejects.
Theorem C15_point_on_sid_malformed_is_invalid : forall id opt, wf4 id = false -> invalid_point_on_sid id opt = true.
Proof. exact invalid_point_on_sid_malformed. Qed.
Print Assumptions C15_point_on_sid_malformed_is_invalid.
(* notation changes (models of C10): error iff a member has not exactly four / five fields; the fields are not interpreted *)
Theorem C15_s2e_error_iff_arity : forall l, is_ok (sids_to_eids l) = negb (some_bad ar4 l).
Proof. exact s2e_flag. Qed.
Print Assumptions C15_s2e_error_iff_arity.
Theorem C15_e2s_error_iff_arity : forall l, is_ok (eids_to_sids l) = negb (some_bad ar5 l).
Proof. exact e2s_flag. Qed.
Print Assumptions C15_e2s_error_iff_arity.
(* projections (validation prefix; the rest of the functions is C18's model): an EPSG code that the library's table does not hold is
   an error for every list, the empty one included, and only such a code is refused by the prefix *)
Theorem C15_unknown_epsg_rejected : forall (A : Type) crs (body : unit -> list A * bool),
  epsg_known crs = false -> project_prefix crs body = ([], true).
Proof. exact (@project_rejects_unknown). Qed.
Print Assumptions C15_unknown_epsg_rejected.
Theorem C15_known_epsg_passes_the_prefix : forall (A : Type) crs (body : unit -> list A * bool),
  invalid_project crs = false -> project_prefix crs body = body tt.
Proof. exact (@project_known). Qed.
Print Assumptions C15_known_epsg_passes_the_prefix.

(* ================= integrate ================= *)
(* zoom change and merge (models of C03, C04): error iff a target zoom is outside 0..35 or a member is malformed *)
Theorem C15_change_ext_error_flag : forall ids H V, is_ok (change_ext_api ids H V) = negb (zoom_bad H || zoom_bad V || some_bad wf5 ids).
Proof. exact change_ext_flag. Qed.
Print Assumptions C15_change_ext_error_flag.
Theorem C15_change_sid_error_flag : forall sids z, is_ok (change_sid_api sids z) = negb (zoom_bad z || some_bad wf4 sids).
Proof. exact change_sid_flag. Qed.
Print Assumptions C15_change_sid_error_flag.
Theorem C15_merge_ext_error_flag : forall ids H V, is_ok (merge_ext_api ids H V) = negb (zoom_bad H || zoom_bad V || some_bad wf5 ids).
Proof. exact merge_ext_flag. Qed.
Print Assumptions C15_merge_ext_error_flag.
Theorem C15_merge_sid_error_flag : forall sids z, is_ok (merge_sid_api sids z) = negb (zoom_bad z || some_bad wf4 sids).
Proof. exact merge_sid_flag. Qed.
Print Assumptions C15_merge_sid_error_flag.
Theorem C15_change_ext_rejects : forall ids H V, invalid_change_ext ids H V = true -> change_ext_api ids H V = Err.
Proof. exact change_ext_rejects. Qed.
Print Assumptions C15_change_ext_rejects.
Theorem C15_change_sid_rejects : forall sids z, invalid_change_sid sids z = true -> change_sid_api sids z = Err.
Proof. exact change_sid_rejects. Qed.
Print Assumptions C15_change_sid_rejects.
Theorem C15_merge_ext_rejects : forall ids H V, invalid_change_ext ids H V = true -> merge_ext_api ids H V = Err.
Proof. exact merge_ext_rejects. Qed.
Print Assumptions C15_merge_ext_rejects.
Theorem C15_merge_sid_rejects : forall sids z, invalid_change_sid sids z = true -> merge_sid_api sids z = Err.
Proof. exact merge_sid_rejects. Qed.
Print Assumptions C15_merge_sid_rejects.

(* ================= operated ================= *)
(* the shift helpers (models of C07, C08) have no error result: "" / 6, 8, 26 empty IDs on a malformed ID, and only then *)
Theorem C15_shift_rejects : forall s dx dy dv, invalid_shift s = true -> shift_api s dx dy dv = EmptyString.
Proof. exact shift_rejects. Qed.
Print Assumptions C15_shift_rejects.
Theorem C15_shift_accepts : forall s dx dy dv, invalid_shift s = false -> shift_api s dx dy dv <> EmptyString.
Proof. exact shift_accepts. Qed.
Print Assumptions C15_shift_accepts.
Theorem C15_n6_rejects : forall s, invalid_shift s = true -> n6_api s = repeat EmptyString 6.
Proof. exact n6_rejects. Qed.
Print Assumptions C15_n6_rejects.
Theorem C15_n8_rejects : forall s, invalid_shift s = true -> n8_api s = repeat EmptyString 8.
Proof. exact n8_rejects. Qed.
Print Assumptions C15_n8_rejects.
Theorem C15_n26_rejects : forall s, invalid_shift s = true -> n26_api s = repeat EmptyString 26.
Proof. exact n26_rejects. Qed.
Print Assumptions C15_n26_rejects.
Theorem C15_nN_error_flag : forall ids H V, is_ok (nN_api ids H V) = negb ((H <? 0) || (V <? 0) || some_bad wf5 ids).
Proof. exact nN_flag. Qed.
Print Assumptions C15_nN_error_flag.
Theorem C15_nN_rejects : forall ids H V, invalid_nN ids H V = true -> nN_api ids H V = Err.
Proof. exact nN_rejects. Qed.
Print Assumptions C15_nN_rejects.

(* ================= detector ================= *)
(* overlap checks (models of C05): a malformed argument is an error (the model's Err stands for (false, error)) *)
Theorem C15_ext_overlap_rejects : forall a b, invalid_ext_overlap a b = true -> ext_overlap a b = Err.
Proof. exact ext_overlap_rejects. Qed.
Print Assumptions C15_ext_overlap_rejects.
Theorem C15_sp_overlap_rejects : forall a b, invalid_sp_overlap a b = true -> sp_overlap a b = Err.
Proof. exact sp_overlap_rejects. Qed.
Print Assumptions C15_sp_overlap_rejects.
(* array forms: a malformed member, both lists non-empty, and no pair of members that overlaps: error (the member must have been
   interpreted). When a list is empty or an overlapping pair exists the functions may answer before reaching the member: not demanded. *)
Theorem C15_ext_array_rejects : forall l1 l2, invalid_ext_array l1 l2 = true -> ext_array l1 l2 = Err.
Proof. exact ext_array_rejects. Qed.
Print Assumptions C15_ext_array_rejects.
Theorem C15_sp_array_rejects : forall l1 l2, invalid_sp_array l1 l2 = true -> sp_array l1 l2 = Err.
Proof. exact sp_array_rejects. Qed.
Print Assumptions C15_sp_array_rejects.
(* the first list of the spatial form is always validated completely *)
Theorem C15_sp_array_first_list_validated : forall l1 l2 r, sp_array l1 l2 = Ok r -> some_bad wf4 l1 = false.
Proof. exact sp_array_first_list. Qed.
Print Assumptions C15_sp_array_first_list_validated.

(* ================= transform ================= *)
(* ID -> key conversions (models of C11, C12): exact error flags, and the documented exclusions imply them *)
Theorem C15_e2q_error_flag : forall (par : PrimFloat.float * PrimFloat.float) index ids oh ov, is_ok (e2q par index ids oh ov) = negb (err_e2q index ids oh ov).
Proof. exact (@e2q_flag (PrimFloat.float * PrimFloat.float)). Qed.
Print Assumptions C15_e2q_error_flag.
Theorem C15_e2q_rejects : forall (par : PrimFloat.float * PrimFloat.float) index ids oh ov, invalid_e2q index ids oh ov = true -> e2q par index ids oh ov = Err.
Proof. exact (@e2q_rejects (PrimFloat.float * PrimFloat.float)). Qed.
Print Assumptions C15_e2q_rejects.
Theorem C15_s2q_error_flag : forall (par : PrimFloat.float * PrimFloat.float) index sids oh ov, is_ok (s2q par index sids oh ov) = negb (err_s2q index sids oh ov).
Proof. exact (@s2q_flag (PrimFloat.float * PrimFloat.float)). Qed.
Print Assumptions C15_s2q_error_flag.
Theorem C15_s2q_rejects : forall (par : PrimFloat.float * PrimFloat.float) index sids oh ov, invalid_s2q index sids oh ov = true -> s2q par index sids oh ov = Err.
Proof. exact (@s2q_rejects (PrimFloat.float * PrimFloat.float)). Qed.
Print Assumptions C15_s2q_rejects.
Theorem C15_e2qa_error_flag : forall ids oq oa E O, is_ok (e2qa ids oq oa E O) = negb (err_e2qa ids oq oa E O).
Proof. exact e2qa_flag. Qed.
Print Assumptions C15_e2qa_error_flag.
Theorem C15_e2qa_rejects : forall ids oq oa E O, invalid_e2qa ids oq oa = true -> e2qa ids oq oa E O = Err.
Proof. exact e2qa_rejects. Qed.
Print Assumptions C15_e2qa_rejects.
(* key -> ID conversions (models of C11) *)
Theorem C15_q2e_error_flag : forall items oh ov, is_ok (q2e items oh ov) = negb (err_q2e items oh ov).
Proof. exact q2e_flag. Qed.
Print Assumptions C15_q2e_error_flag.
Theorem C15_q2e_rejects : forall items oh ov, invalid_q2e items oh ov = true -> q2e items oh ov = Err.
Proof. exact q2e_rejects. Qed.
Print Assumptions C15_q2e_rejects.
Theorem C15_q2s_error_flag : forall items z, is_ok (q2s items z) = negb (err_q2e items z z).
Proof. exact q2s_flag. Qed.
Print Assumptions C15_q2s_error_flag.
Theorem C15_q2s_rejects : forall items z, invalid_q2e items z z = true -> q2s items z = Err.
Proof. exact q2s_rejects. Qed.
Print Assumptions C15_q2s_rejects.
(* tiles (validation prefix of Api.v): an output zoom outside 0..35 is an error for every request, the empty one included; with a
   valid output zoom only the altitude conversion of some tile can refuse *)
Theorem C15_tiles_rejects : forall l E O outV, zoom_bad outV = true -> err_tiles l E O outV = true.
Proof. exact tiles_rejects. Qed.
Print Assumptions C15_tiles_rejects.
Theorem C15_tiles_error_flag_valid_zoom : forall l E O outV, zoom_bad outV = false -> forallb tile_ok l = true ->
  err_tiles l E O outV = existsb (fun t => negb (is_ok (key2z (tz t) (tv t) outV E O))) l.
Proof. exact tiles_flag_valid_zoom. Qed.
Print Assumptions C15_tiles_error_flag_valid_zoom.
(* altitude keys (models of C12, after fix 9dab435): a source or target zoom outside 0..35 is an error, whatever the other arguments *)
Theorem C15_z2key_rejects_bad_zoom : forall f z out E O, zoom_bad z || zoom_bad out = true -> z2key f z out E O = Err.
Proof. exact z2key_rejects. Qed.
Print Assumptions C15_z2key_rejects_bad_zoom.
Theorem C15_key2z_rejects_bad_zoom : forall k kz out E O, zoom_bad kz || zoom_bad out = true -> key2z k kz out E O = Err.
Proof. exact key2z_rejects. Qed.
Print Assumptions C15_key2z_rejects_bad_zoom.
(* clearance fit and corridor (models of C14): negative clearance / radius, malformed ID, nil point, zoom outside 0..35 *)
Theorem C15_fit_rejects : forall fuel dx dy id c, invalid_fit id c = true -> fit_model (S fuel) dx dy id c = Some Err.
Proof. exact fit_rejects. Qed.
Print Assumptions C15_fit_rejects.
Theorem C15_fit_accepts_zero_clearance : forall fuel dx dy i, valid i ->
  (dx (print_eid i) 1%Z <? 0)%float = false -> (dy (print_eid i) 1%Z <? 0)%float = false ->
  fit_model (S fuel) dx dy (print_eid i) 0%float = Some (Ok (0, 0)).
Proof. exact fit_accepts_zero. Qed.
Print Assumptions C15_fit_accepts_zero_clearance.
Theorem C15_corridor_rejects : forall ord_n ord_u ord_q m_tan m_cos m_log fuel dx dy (St : Type) (st0 : St)
    (measure : St -> string -> result (bool * St)) has_nil s e h v r skip,
  invalid_corridor has_nil h v r = true ->
  corridor ord_n ord_u ord_q (fit_of_model fuel dx dy r) St st0 measure (line_api m_tan m_cos m_log has_nil s e h v) skip = Err.
Proof. exact corridor_rejects. Qed.
Print Assumptions C15_corridor_rejects.
(* GetVoxelIDfromSpatialID has no error result (model of C10): fewer than five fields give the empty list, and only they *)
Theorem C15_voxel_id_short_gives_empty : forall s, invalid_voxel s = true -> voxel_id s = [].
Proof. exact voxel_rejects. Qed.
Print Assumptions C15_voxel_id_short_gives_empty.
Theorem C15_voxel_id_empty_only_if_short : forall s, voxel_id s = [] -> invalid_voxel s = true.
Proof. exact voxel_empty_only_if_short. Qed.
Print Assumptions C15_voxel_id_empty_only_if_short.

(* ================= the KIND of the error ================= *)
(* Api.kind_<fn> args = Some k: the call fails and the first failing check of the Go function produces an error of kind k (the code
   of a spatialIdError, or KPlain for a fmt.Errorf value); None: the call succeeds. Each family: kind_<fn> has the error flag of the
   owner's model (so the earlier `_rejects` theorems are corollaries), and a documented exclusion gives the stated kind. The run-time
   check compares the observed kind with kind_<fn> (correspondence only: the property asks for a non-nil error). *)
Theorem C15_error_text_starts_with_code : forall code detail, nocomma code = true -> before_comma (error_text code detail) = code.
Proof. exact error_text_code. Qed.
Print Assumptions C15_error_text_starts_with_code.
Theorem C15_error_text_of_kind : forall k detail, k <> KPlain -> before_comma (error_text (ecode_name k) detail) = ecode_name k.
Proof. exact error_text_of_kind. Qed.
Print Assumptions C15_error_text_of_kind.
(* common/object: InputValueError *)
Theorem C15_object_kind :
  (forall lon lat, invalid_new_point lon lat = true -> kind_new_point lon lat = Some KInputValue) /\
  (forall lon, invalid_set_lon lon = true -> kind_set_lon lon = Some KInputValue) /\
  (forall lat, invalid_set_lat lat = true -> kind_set_lat lat = Some KInputValue) /\
  (forall s, invalid_new_eid s = true -> kind_new_eid s = Some KInputValue) /\
  (forall h v, invalid_new_tile h v = true -> kind_new_tile h v = Some KInputValue) /\
  (forall z, zoom_bad z = true -> kind_tile_set z = Some KInputValue).
Proof. exact object_kind. Qed.
Print Assumptions C15_object_kind.
Theorem C15_kind_new_point_flag : forall lon lat alt, is_some (kind_new_point lon lat) = snd (new_point lon lat alt).
Proof. exact kind_new_point_flag. Qed.
Print Assumptions C15_kind_new_point_flag.
Theorem C15_kind_new_eid_flag : forall s, is_some (kind_new_eid s) = negb (is_ok (new_eid s)).
Proof. exact kind_new_eid_flag. Qed.
Print Assumptions C15_kind_new_eid_flag.
(* shape: points / line InputValueError; vertices: InputValueError for the ID (checked first), OptionFailedError for the option;
   notation changes InputValueError; unknown EPSG ValueConvertError *)
Theorem C15_points_kind : forall has_nil h v, invalid_points has_nil h v = true -> kind_points has_nil h v = Some KInputValue.
Proof. exact points_kind. Qed.
Print Assumptions C15_points_kind.
Theorem C15_kind_points_flag : forall m_tan m_cos m_log has_nil l h v, points_eids m_tan m_cos m_log l h v <> None ->
  is_some (kind_points has_nil h v) = negb (is_ok (points_api m_tan m_cos m_log has_nil l h v)).
Proof. exact kind_points_flag. Qed.
Print Assumptions C15_kind_points_flag.
Theorem C15_kind_point_on_eid_flag : forall m_sinh m_atan id opt,
  is_some (kind_point_on_eid id opt) = negb (is_ok (point_on_eid_api m_sinh m_atan id opt)).
Proof. exact kind_point_on_eid_model. Qed.
Print Assumptions C15_kind_point_on_eid_flag.
Theorem C15_point_on_eid_kind_input : forall id opt, invalid_point_on_eid id 0 = true -> kind_point_on_eid id opt = Some KInputValue.
Proof. exact point_on_eid_kind_input. Qed.
Print Assumptions C15_point_on_eid_kind_input.
Theorem C15_point_on_eid_kind_option : forall id opt, invalid_point_on_eid id 0 = false -> option_known opt = false ->
  kind_point_on_eid id opt = Some KOptionFailed.
Proof. exact point_on_eid_kind_option. Qed.
Print Assumptions C15_point_on_eid_kind_option.
Theorem C15_notation_and_epsg_kind :
  (forall l, invalid_s2e l = true -> kind_s2e l = Some KInputValue) /\ (forall l, invalid_e2s l = true -> kind_e2s l = Some KInputValue) /\
  (forall crs, invalid_project crs = true -> kind_project crs = Some KValueConvert).
Proof. exact notation_kind. Qed.
Print Assumptions C15_notation_and_epsg_kind.
(* integrate: InputValueError; same flag as the C03 / C04 models *)
Theorem C15_integrate_kind :
  (forall ids H V, invalid_change_ext ids H V = true -> kind_change_ext ids H V = Some KInputValue) /\
  (forall sids z, invalid_change_sid sids z = true -> kind_change_sid sids z = Some KInputValue).
Proof. exact integrate_kind. Qed.
Print Assumptions C15_integrate_kind.
Theorem C15_kind_change_ext_flag : forall ids H V, is_some (kind_change_ext ids H V) = negb (is_ok (change_ext_api ids H V)).
Proof. exact kind_change_ext_flag. Qed.
Print Assumptions C15_kind_change_ext_flag.
Theorem C15_kind_merge_ext_flag : forall ids H V, is_some (kind_change_ext ids H V) = negb (is_ok (merge_ext_api ids H V)).
Proof. exact kind_merge_ext_flag. Qed.
Print Assumptions C15_kind_merge_ext_flag.
Theorem C15_kind_change_sid_flag : forall sids z, is_some (kind_change_sid sids z) = negb (is_ok (change_sid_api sids z)).
Proof. exact kind_change_sid_flag. Qed.
Print Assumptions C15_kind_change_sid_flag.
Theorem C15_kind_merge_sid_flag : forall sids z, is_some (kind_change_sid sids z) = negb (is_ok (merge_sid_api sids z)).
Proof. exact kind_merge_sid_flag. Qed.
Print Assumptions C15_kind_merge_sid_flag.
(* operated: a negative layer count is checked first and is a plain error; a malformed member then gives InputValueError *)
Theorem C15_kind_nN_flag : forall ids H V, is_some (kind_nN ids H V) = negb (is_ok (nN_api ids H V)).
Proof. exact kind_nN_flag. Qed.
Print Assumptions C15_kind_nN_flag.
Theorem C15_nN_kind_negative : forall ids H V, (H <? 0) || (V <? 0) = true -> kind_nN ids H V = Some KPlain.
Proof. exact nN_kind_negative. Qed.
Print Assumptions C15_nN_kind_negative.
Theorem C15_nN_kind_malformed : forall ids H V, (H <? 0) || (V <? 0) = false -> some_bad wf5 ids = true -> kind_nN ids H V = Some KInputValue.
Proof. exact nN_kind_malformed. Qed.
Print Assumptions C15_nN_kind_malformed.
(* detector: extended pair: wrong field count = plain (checked first), any other malformed argument = InputValueError (out of
   ChangeExtendedSpatialIdsZoom); arrays: the kind of the first failing pair; spatial forms: always plain (wrapped) *)
Theorem C15_kind_ext_overlap_flag : forall a b, is_some (kind_ext_overlap a b) = negb (is_ok (ext_overlap a b)).
Proof. exact kind_ext_overlap_flag. Qed.
Print Assumptions C15_kind_ext_overlap_flag.
Theorem C15_ext_overlap_kind_arity : forall a b, negb (ar5 a) || negb (ar5 b) = true -> kind_ext_overlap a b = Some KPlain.
Proof. exact ext_overlap_kind_arity. Qed.
Print Assumptions C15_ext_overlap_kind_arity.
Theorem C15_ext_overlap_kind_field : forall a b, ar5 a = true -> ar5 b = true -> invalid_ext_overlap a b = true ->
  kind_ext_overlap a b = Some KInputValue.
Proof. exact ext_overlap_kind_field. Qed.
Print Assumptions C15_ext_overlap_kind_field.
Theorem C15_kind_ext_array_flag : forall l1 l2, is_some (kind_ext_array l1 l2) = negb (is_ok (ext_array l1 l2)).
Proof. exact kind_ext_array_flag. Qed.
Print Assumptions C15_kind_ext_array_flag.
Theorem C15_ext_array_kind : forall l1 l2, invalid_ext_array l1 l2 = true ->
  exists k, kind_ext_array l1 l2 = Some k /\ (k = KPlain \/ k = KInputValue).
Proof. exact ext_array_kind_some. Qed.
Print Assumptions C15_ext_array_kind.
Theorem C15_kind_sp_array_flag : forall l1 l2, is_some (kind_sp_array l1 l2) = negb (is_ok (sp_array l1 l2)).
Proof. exact kind_sp_array_flag. Qed.
Print Assumptions C15_kind_sp_array_flag.
Theorem C15_sp_kind :
  (forall a b, invalid_sp_overlap a b = true -> kind_sp_overlap a b = Some KPlain) /\
  (forall l1 l2, invalid_sp_array l1 l2 = true -> kind_sp_array l1 l2 = Some KPlain).
Proof. exact sp_kind. Qed.
Print Assumptions C15_sp_kind.
(* transform: conversions InputValueError, same flags as the C11 models *)
Theorem C15_kind_conversions_flag :
  (forall (par : PrimFloat.float * PrimFloat.float) index ids oh ov, is_some (kind_e2q index ids oh ov) = negb (is_ok (e2q par index ids oh ov))) /\
  (forall (par : PrimFloat.float * PrimFloat.float) index sids oh ov, is_some (kind_s2q index sids oh ov) = negb (is_ok (s2q par index sids oh ov))) /\
  (forall ids oq oa E O, is_some (kind_e2qa ids oq oa E O) = negb (is_ok (e2qa ids oq oa E O))) /\
  (forall items oh ov, is_some (kind_q2e items oh ov) = negb (is_ok (q2e items oh ov))) /\
  (forall items z, is_some (kind_q2e items z z) = negb (is_ok (q2s items z))).
Proof. exact kind_conversions_flag. Qed.
Print Assumptions C15_kind_conversions_flag.
Theorem C15_conversions_kind :
  (forall index ids oh ov, invalid_e2q index ids oh ov = true -> kind_e2q index ids oh ov = Some KInputValue) /\
  (forall index sids oh ov, invalid_s2q index sids oh ov = true -> kind_s2q index sids oh ov = Some KInputValue) /\
  (forall ids oq oa E O, invalid_e2qa ids oq oa = true -> kind_e2qa ids oq oa E O = Some KInputValue) /\
  (forall items oh ov, invalid_q2e items oh ov = true -> kind_q2e items oh ov = Some KInputValue) /\
  (forall l E O outV, invalid_tiles outV = true -> kind_tiles l E O outV = Some KInputValue) /\
  (forall f z out E O, invalid_altkey z out = true -> kind_z2key f z out E O = Some KInputValue) /\
  (forall k kz out E O, invalid_altkey kz out = true -> kind_key2z k kz out E O = Some KInputValue).
Proof. exact conversions_kind. Qed.
Print Assumptions C15_conversions_kind.
(* fit: clearance and field count are plain errors (checked first, in that order), the ID's fields and zooms InputValueError; corridor:
   the line's InputValueError first, then the fit's plain error for a negative radius *)
Theorem C15_kind_fit_flag : forall id c, is_some (kind_fit id c) = match fit_struct id c with Some Err => true | _ => false end.
Proof. exact kind_fit_struct. Qed.
Print Assumptions C15_kind_fit_flag.
Theorem C15_fit_kind_plain : forall id c, (c <? 0)%float || negb (ar5 id) = true -> kind_fit id c = Some KPlain.
Proof. exact fit_kind_plain. Qed.
Print Assumptions C15_fit_kind_plain.
Theorem C15_fit_kind_input : forall id c, (c <? 0)%float = false -> ar5 id = true -> vertex_ok id = false -> kind_fit id c = Some KInputValue.
Proof. exact fit_kind_input. Qed.
Print Assumptions C15_fit_kind_input.
Theorem C15_corridor_kind : forall has_nil h v r,
  (invalid_points has_nil h v = true -> kind_corridor has_nil h v r = Some KInputValue) /\
  (invalid_points has_nil h v = false -> (r <? 0)%float = true -> kind_corridor has_nil h v r = Some KPlain).
Proof. exact corridor_kind. Qed.
Print Assumptions C15_corridor_kind.
Example C15_kind_nonvacuous :
  kind_point_on_eid "x/0/0/1/0" 7 = Some KInputValue /\ kind_point_on_eid "1/0/0/1/0" 7 = Some KOptionFailed /\
  kind_point_on_eid "1/0/0/1/0" 1 = None /\ kind_nN ["x"]%string (-1) 0 = Some KPlain /\ kind_nN ["x"]%string 1 0 = Some KInputValue /\
  kind_ext_overlap "1/2" "1/0/0/1/0" = Some KPlain /\ kind_ext_overlap "1/0/0/1/x" "1/0/0/1/0" = Some KInputValue /\
  kind_ext_array ["1/0/0/1/0"; "1/2"]%string ["1/1/0/1/0"; "1/0/0/1/x"]%string = Some KInputValue /\
  kind_sp_overlap "1/b/0/0" "1/0/0/0" = Some KPlain /\ kind_fit "1/2" 0 = Some KPlain /\ kind_fit "1/0/0/1/x" 0 = Some KInputValue /\
  kind_fit "1/0/0/1/x" (-1) = Some KPlain /\ kind_corridor true 3 3 (-1) = Some KInputValue /\ kind_corridor false 3 3 (-1) = Some KPlain /\
  kind_project 99999 = Some KValueConvert /\ kind_project 3857 = None /\
  error_text "InputValueError" "spatialId: x" = "InputValueError,入力チェックエラー,spatialId: x"%string /\
  error_text "Foo" "" = "Foo,その他例外が発生"%string.
Proof. vm_compute. repeat split; reflexivity. Qed.

(* ================= non-vacuity ================= *)
Example C15_nonvacuous_malformed :
  invalid_change_ext ["1/0/0/1/0"; "1/0/0/1/"]%string 1 1 = true /\ invalid_change_ext ["1/0/0/1/0"]%string 36 1 = true /\
  invalid_change_ext ["1/0/0/1/0"]%string 1 1 = false /\ change_ext_api ["1/0/0/1/0"]%string 1 1 = Ok ["1/0/0/1/0"]%string /\
  invalid_change_sid ["1/b/0/0"]%string 1 = true /\ invalid_nN ["1/0/0/1/0"]%string (-1) 0 = true /\
  invalid_ext_overlap "1/0/0/1/0" "1/0/0/1" = true /\ invalid_sp_overlap "1/b/0/0" "1/0/0/0" = true /\
  invalid_q2e [mkq 0 0 0 0 true] 0 0 = true /\ invalid_q2e [mkq 1 0 0 0 true] 0 0 = false /\
  invalid_e2q true ["1/2"]%string 5 5 = true /\ invalid_fit "x/0/0/1/0" 0 = true /\ invalid_fit "1/0/0/1/0" 0 = false /\
  invalid_point_on_eid "1/0/0/1/0" 2 = true /\ invalid_point_on_eid "1/0/0/1/0" 1 = false /\
  invalid_new_point 180.00000000000003 0 = true /\ invalid_new_point 180 85.05112877989 = false /\
  invalid_new_point 0 85.0511287799 = true.
Proof. vm_compute. repeat split; reflexivity. Qed.
