(* C14 — The corridor around a line contains the line and stays within its search box.   PARTIAL BY DESIGN.
   Only statements, `exact` proofs and Print Assumptions live here. Models and proofs: theories/Corridor.v
   (on top of theories/Neighbour.v (C08), theories/SetOps.v (C20), theories/Shift.v (C07)).

   What is a theorem: everything that follows from the control flow and the set algebra of
   transform.GetExtendedSpatialIdsWithinRadiusOfLine, for EVERY answer of the three oracles
     line    = shape.GetExtendedSpatialIdsOnLine(start, end, hZoom, vZoom)            (C06; Err for nil points / invalid zooms)
     fit id  = transform.FitClearanceAroundExtendedSpatialID(id, radius)             (closest_go / geodesy_go)
     measure st id = one round of the measuring loop: vertex call (error?) and `dist < radius`, together with the next state of the
               ONE closest.Measure that the loop reuses (its search starts from what the previous candidate left behind); after fix
               915e48e the loop runs over the SORTED candidates
   and for every Go map order (ord_n, ord_u, ord_q: any permutations).  All theorems are about this MODEL; it is tied to the Go code by
   differential execution. "nil point / invalid zoom => the line call is an error" is C06_api_errors, not re-proved here.
   What is NOT a theorem (validated on every run by the harness): that the distance filter keeps no voxel whose footprint is farther from
   the segment than the radius (independent WGS84 chord distance with a documented margin), and that the fit terminates (D16). *)
From Coq Require Import ZArith String List Bool Permutation Floats.
From SID Require Import Base Str Ids Shift Neighbour SetOps Corridor.
Import ListNotations.
Open Scope Z_scope.

Section C14.
  Variables ord_n ord_u ord_q : list string -> list string.
  Hypothesis Pn : forall l, Permutation (ord_n l) l.
  Hypothesis Pu : forall l, Permutation (ord_u l) l.
  Hypothesis Pq : forall l, Permutation (ord_q l) l.
  Variable fit : string -> result (Z * Z).
  Variable St : Type.
  Variable st0 : St.
  Variable measure : St -> string -> result (bool * St).
  Let run := corridor ord_n ord_u ord_q fit St st0 measure.

  (* the returned IDs are duplicate-free *)
  Theorem C14_no_duplicates : forall line skip r, run line skip = Ok r -> NoDup r.
  Proof. exact (corridor_NoDup ord_n ord_u ord_q Pn Pu Pq fit St st0 measure). Qed.

  (* every ID of the line itself is returned, in both modes *)
  Theorem C14_contains_line : forall L skip r, run (Ok L) skip = Ok r -> forall s, In s L -> In s r.
  Proof. exact (corridor_contains_line ord_n ord_u ord_q Pn Pu Pq fit St st0 measure). Qed.

  (* exact membership: the line, plus the modular shifts of line voxels by the non-zero offsets of the (H,V) box that are not on the line
     and (measured mode) are in `kept`, the list the stateful measuring loop returns on the SORTED candidates (box minus line);
     (H,V) are the layer counts the fit reports for the first line ID in Go's string order *)
  Theorem C14_members : forall l skip r, okids l -> run (Ok (map print_eid l)) skip = Ok r ->
    exists p H V kept, pick (map print_eid l) = Some p /\ fit p = Ok (H, V) /\ 0 <= H /\ 0 <= V /\
      (skip = false -> exists cand,
         (forall s, In s cand <-> (exists i o, In i l /\ In o (stencil H V) /\ s = print_eid (shift_o i o)) /\ ~ In s (map print_eid l)) /\
         measure_all St measure st0 (sort_strings cand) = Ok kept) /\
      forall s, In s r <->
        In s (map print_eid l) \/
        ((exists i o, In i l /\ In o (stencil H V) /\ s = print_eid (shift_o i o)) /\ ~ In s (map print_eid l) /\
         (skip = true \/ In s kept)).
  Proof. exact (corridor_members ord_n ord_u ord_q Pn Pu Pq fit St st0 measure). Qed.

  (* every additional ID lies within the layer counts reported for a voxel of that line: |dx|,|dy| <= H, |dv| <= V around SOME line voxel *)
  Theorem C14_added_within_reported_box : forall l skip r, okids l -> run (Ok (map print_eid l)) skip = Ok r ->
    exists p H V, pick (map print_eid l) = Some p /\ In p (map print_eid l) /\ fit p = Ok (H, V) /\
      forall s, In s r -> In s (map print_eid l) \/
        exists i dx dy dv, In i l /\ - H <= dx <= H /\ - H <= dy <= H /\ - V <= dv <= V /\ s = print_eid (shift_spec i dx dy dv).
  Proof. exact (corridor_added_in_box ord_n ord_u ord_q Pn Pu Pq fit St st0 measure). Qed.

  (* all returned IDs are at the zooms of the line's IDs — which are the requested zooms by C06 (Line.line_api prints them); the run-time
     checker compares with the requested zooms themselves *)
  Theorem C14_all_at_requested_zooms : forall l h v skip r, okids l -> (forall i, In i l -> eh i = h /\ ev i = v) ->
    run (Ok (map print_eid l)) skip = Ok r -> forall s, In s r -> exists j, s = print_eid j /\ eh j = h /\ ev j = v.
  Proof. exact (corridor_zooms ord_n ord_u ord_q Pn Pu Pq fit St st0 measure). Qed.

  (* layer counts (0,0) give exactly the line's IDs *)
  Theorem C14_zero_layers_exactly_line : forall L p skip r, pick L = Some p -> fit p = Ok (0, 0) -> run (Ok L) skip = Ok r ->
    NoDup r /\ forall s, In s r <-> In s L.
  Proof. exact (corridor_zero_layers ord_n ord_u ord_q Pn Pu Pq fit St st0 measure). Qed.

  (* with the measurement enabled the result is a subset of the result with it skipped (which then succeeds too) *)
  Theorem C14_measured_subset_skipped : forall line r, run line false = Ok r ->
    exists r', run line true = Ok r' /\ forall s, In s r -> In s r'.
  Proof. exact (measured_subset_skipped ord_n ord_u ord_q Pn Pu Pq fit St st0 measure). Qed.

  (* error paths, by unfolding the model: the line call fails (nil point / invalid zoom: C06_api_errors); the fit fails *)
  Theorem C14_line_error : forall skip, run Err skip = Err.
  Proof. exact (corridor_line_error ord_n ord_u ord_q fit St st0 measure). Qed.
  Theorem C14_fit_error : forall L p skip, pick L = Some p -> fit p = Err -> run (Ok L) skip = Err.
  Proof. exact (corridor_fit_error ord_n ord_u ord_q fit St st0 measure). Qed.
  (* the result theorems above are not vacuous: a line of well-formed IDs, non-negative layer counts and a measuring loop that never
     fails give a result *)
  Theorem C14_succeeds : forall l p H V skip, okids l -> pick (map print_eid l) = Some p -> fit p = Ok (H, V) -> 0 <= H -> 0 <= V ->
    (forall st id, measure st id <> Err) -> exists r, run (Ok (map print_eid l)) skip = Ok r.
  Proof. exact (corridor_succeeds ord_n ord_u ord_q fit St st0 measure). Qed.
End C14.
Print Assumptions C14_no_duplicates.
Print Assumptions C14_contains_line.
Print Assumptions C14_members.
Print Assumptions C14_added_within_reported_box.
Print Assumptions C14_all_at_requested_zooms.
Print Assumptions C14_zero_layers_exactly_line.
Print Assumptions C14_measured_subset_skipped.
Print Assumptions C14_line_error.
Print Assumptions C14_fit_error.
Print Assumptions C14_succeeds.

(* a negative radius is an error whatever the geometry (dx, dy: the distances the fit measures), for every line and both modes *)
Theorem C14_negative_radius_error : forall ord_n ord_u ord_q fuel dx dy c St st0 measure line skip,
  (c <? 0)%float = true -> corridor ord_n ord_u ord_q (fit_of_model fuel dx dy c) St st0 measure line skip = Err.
Proof. exact corridor_negative_radius. Qed.
Print Assumptions C14_negative_radius_error.

(* radius 0: the first iteration of each fitting loop stops (0 > d is false for a distance that is not negative), the fit reports (0,0)
   and the result is exactly the line — for every line of valid IDs (altitude index within -2^v .. 2^v - 1), every geometry with
   non-negative first distances, both modes; radius is the literal +0 (the run-time check treats -0 alike: Go's `0 > d` and `-0 > d` agree) *)
Theorem C14_radius_zero_exactly_line : forall ord_n ord_u ord_q fuel dx dy St st0 measure l skip r,
  (forall l, Permutation (ord_n l) l) -> (forall l, Permutation (ord_u l) l) -> (forall l, Permutation (ord_q l) l) ->
  valids l ->
  (forall id, (dx id 1%Z <? 0)%float = false) -> (forall id, (dy id 1%Z <? 0)%float = false) ->
  corridor ord_n ord_u ord_q (fit_of_model (S fuel) dx dy 0%float) St st0 measure (Ok (map print_eid l)) skip = Ok r ->
  NoDup r /\ forall s, In s r <-> In s (map print_eid l).
Proof. exact corridor_radius_zero. Qed.
Print Assumptions C14_radius_zero_exactly_line.

(* the result depends neither on any map order nor on the order in which the line's IDs arrive (C16; D15 after fixes 70c64b2, 915e48e):
   same error flag, and the two ID lists are permutations of each other. Skip mode: unconditionally. Measured mode: BECAUSE the model (like
   the code since 915e48e) sorts the candidates before the stateful measuring loop; `measure` may use its state in any way. (Before that
   fix the loop ran in map order and the statement was false of the code: 32 different results in 300 identical calls.) *)
Theorem C14_order_blind : forall ord_n ord_u ord_q ord_n' ord_u' ord_q' fit St st0 measure L L' skip,
  (forall l, Permutation (ord_n l) l) -> (forall l, Permutation (ord_u l) l) -> (forall l, Permutation (ord_q l) l) ->
  (forall l, Permutation (ord_n' l) l) -> (forall l, Permutation (ord_u' l) l) -> (forall l, Permutation (ord_q' l) l) ->
  Permutation L L' ->
  match corridor ord_n ord_u ord_q fit St st0 measure (Ok L) skip, corridor ord_n' ord_u' ord_q' fit St st0 measure (Ok L') skip with
  | Ok r, Ok r' => Permutation r r'
  | Err, Err => True
  | _, _ => False
  end.
Proof. exact corridor_order_blind. Qed.
Print Assumptions C14_order_blind.
(* the voxel handed to the fit is the same for every arrival order of the line's IDs *)
Theorem C14_fitted_voxel_order_blind : forall L L', Permutation L L' -> pick L = pick L'.
Proof. exact pick_perm. Qed.
Print Assumptions C14_fitted_voxel_order_blind.
Theorem C14_fitted_voxel_is_least_line_id : forall L p, pick L = Some p -> In p L /\ forall x, In x L -> str_leb p x = true.
Proof. exact pick_spec. Qed.
Print Assumptions C14_fitted_voxel_is_least_line_id.

(* ---- the clearance fit itself (structure only; distances are oracle answers) ---- *)
Theorem C14_fit_negative_clearance_error : forall fuel dx dy id c, (c <? 0)%float = true -> fit_model fuel dx dy id c = Some Err.
Proof. exact fit_negative. Qed.
Print Assumptions C14_fit_negative_clearance_error.
(* on the model: an ID the vertex call refuses is an error for every clearance, clearance 0 included. (In Go the shift runs before the
   vertex call and spins for a NEGATIVE zoom field with a negative index, e.g. "-5/-2/0/0/0": zoom fields outside 0..35 together with
   negative indices are outside the quantifier of C14/C15 and are not sent to the implementation.) *)
Theorem C14_fit_malformed_id_error : forall fuel dx dy id c, vertex_ok id = false -> fit_model (S fuel) dx dy id c = Some Err.
Proof. exact fit_malformed. Qed.
Print Assumptions C14_fit_malformed_id_error.
Theorem C14_fit_zero_clearance : forall fuel dx dy i,
  valid i -> (dx (print_eid i) 1%Z <? 0)%float = false -> (dy (print_eid i) 1%Z <? 0)%float = false ->
  fit_model (S fuel) dx dy (print_eid i) 0%float = Some (Ok (0, 0)).
Proof. exact fit_zero_clearance_valid. Qed.
Print Assumptions C14_fit_zero_clearance.
(* more generally: when no first measured distance is below the clearance the fit reports (0,0) *)
Theorem C14_fit_first_iteration : forall fuel dx dy id c,
  (c <? 0)%float = false -> vertex_ok id = true ->
  vertex_ok (shift_api id 1 0 0) = true -> vertex_ok (shift_api id 0 1 0) = true ->
  (dx id 1%Z <? c)%float = false -> (dy id 1%Z <? c)%float = false ->
  fit_model (S fuel) dx dy id c = Some (Ok (0, 0)).
Proof. exact fit_first_iteration. Qed.
Print Assumptions C14_fit_first_iteration.

(* specification of the growth loop: the returned count k is the LEAST one whose probed voxel (shift k + 1) is not below the clearance,
   all earlier probes being below it — met by the loop for EVERY distance oracle (no monotonicity), with termination under fuel *)
Theorem C14_fit_loop_meets_spec : forall c ok d fuel k, (forall m, ok m = true) ->
  (fit_loop fuel c ok d 1 = Some (Ok k) <-> k < Z.of_nat fuel /\ least_stop c d k = true).
Proof. exact fit_loop_meets_spec. Qed.
Print Assumptions C14_fit_loop_meets_spec.
Theorem C14_least_stop_meaning : forall c d k, least_stop c d k = true <->
  0 <= k /\ (forall m, 1 <= m <= k -> (d m <? c)%float = true) /\ (d (k + 1)%Z <? c)%float = false.
Proof. exact least_stop_spec. Qed.
Print Assumptions C14_least_stop_meaning.
Theorem C14_least_stop_unique : forall c d k k', least_stop c d k = true -> least_stop c d k' = true -> k = k'.
Proof. exact least_stop_unique. Qed.
Print Assumptions C14_least_stop_unique.
(* the whole fit on a valid ID and a non-negative clearance: (H, V) = the least stops of the column loop and of the row loop *)
Theorem C14_fit_model_meets_spec : forall fuel dx dy i c H V, valid i -> (c <? 0)%float = false ->
  (fit_model fuel dx dy (print_eid i) c = Some (Ok (H, V)) <->
   H < Z.of_nat fuel /\ V < Z.of_nat fuel /\
   least_stop c (dx (print_eid i)) H = true /\ least_stop c (dy (print_eid i)) V = true).
Proof. exact fit_model_meets_spec. Qed.
Print Assumptions C14_fit_model_meets_spec.
Example C14_nonvacuous_loop :
  let d := fun n : Z => if (n <=? 1)%Z then 0%float else if (n =? 2)%Z then 38%float else 76%float in
  fit_loop 64 50%float (fun _ => true) d 1 = Some (Ok 2) /\ fit_loop 64 38%float (fun _ => true) d 1 = Some (Ok 1) /\
  least_stop 50%float d 2 = true /\ least_stop 50%float d 1 = false /\ least_stop 50%float d 3 = false.
Proof. vm_compute. repeat split; reflexivity. Qed.

(* ---- executable instance and run-time checker ---- *)
(* the extracted model (balanced-tree sets, filter = a function of the candidate alone) has the error flag and, up to order, the result of
   the model with a state-free measuring loop, for every map order *)
Theorem C14_executable_is_model : forall ord_n ord_u ord_q fit nearb line skip,
  (forall l, Permutation (ord_n l) l) -> (forall l, Permutation (ord_u l) l) -> (forall l, Permutation (ord_q l) l) ->
  match corridor_exec fit nearb line skip, corridor ord_n ord_u ord_q fit unit tt (stateless nearb) line skip with
  | Ok r, Ok r' => Permutation r r'
  | Err, Err => True
  | _, _ => False
  end.
Proof. exact corridor_exec_equiv. Qed.
Print Assumptions C14_executable_is_model.

(* ---- the measuring loop replayed (measured mode compared by equality at run time) ---- *)
(* the executable instance with the STATEFUL measuring loop has the model's error flag and, up to order, its result — for every map order
   and every state-dependent measure *)
Theorem C14_stateful_executable_is_model : forall ord_n ord_u ord_q fit St st0 measure line skip,
  (forall l, Permutation (ord_n l) l) -> (forall l, Permutation (ord_u l) l) -> (forall l, Permutation (ord_q l) l) ->
  match corridor_run fit St st0 measure line skip, corridor ord_n ord_u ord_q fit St st0 measure line skip with
  | Ok r, Ok r' => Permutation r r'
  | Err, Err => True
  | _, _ => False
  end.
Proof. exact corridor_run_equiv. Qed.
Print Assumptions C14_stateful_executable_is_model.
(* what the loop keeps depends on the candidates only through their multiset (they are sorted first), whatever the measure does with its state *)
Theorem C14_kept_determined_by_candidate_multiset : forall St (measure : St -> string -> result (bool * St)) st0 c c',
  Permutation c c' -> measure_all St measure st0 (sort_strings c) = measure_all St measure st0 (sort_strings c').
Proof. exact measure_all_sorted_perm. Qed.
Print Assumptions C14_kept_determined_by_candidate_multiset.
(* the measured run = line IDs (always kept) + what the loop keeps of `candidates`, the list that is sent to the real loop *)
Theorem C14_measured_run_is_line_plus_kept : forall fit St st0 measure L r, corridor_run fit St st0 measure (Ok L) false = Ok r ->
  exists kept, measure_all St measure st0 (candidates fit (Ok L)) = Ok kept /\
    NoDup r /\ (forall s, In s r <-> In s kept \/ In s L) /\ (forall s, In s kept -> In s (candidates fit (Ok L)) /\ ~ In s L).
Proof. exact corridor_run_measured. Qed.
Print Assumptions C14_measured_run_is_line_plus_kept.
Theorem C14_measured_run_subset_skipped_run : forall fit St st0 measure line r, corridor_run fit St st0 measure line false = Ok r ->
  exists r', corridor_run fit St st0 measure line true = Ok r' /\ forall s, In s r -> In s r'.
Proof. exact corridor_run_measured_subset. Qed.
Print Assumptions C14_measured_run_subset_skipped_run.
(* the run-time measure: replaying the recorded distances keeps exactly the candidates whose recorded distance is below the radius *)
Theorem C14_replay_keeps_recorded_below_radius : forall radius cs ds, List.length ds = List.length cs ->
  measure_all _ (replay radius) (map Ok ds) cs = Ok (map fst (filter (fun p => (snd p <? radius)%float) (combine cs ds))).
Proof. exact replay_all. Qed.
Print Assumptions C14_replay_keeps_recorded_below_radius.

(* "prop failed" means the property fails: what the boolean checker accepts on the implementation's output *)
Theorem C14_checker_sound : forall l h v zero H V o, okids l -> 0 <= H -> 0 <= V ->
  check_corridor h v zero (map print_eid l) H V o = true ->
  NoDup o /\
  (forall s, In s o -> exists j, parse_eid s = Some j /\ eh j = h /\ ev j = v) /\
  (forall s, In s (map print_eid l) -> In s o) /\
  (zero = true -> forall s, In s o <-> In s (map print_eid l)) /\
  (forall s, In s o -> In s (map print_eid l) \/
     exists i dx dy dv, In i l /\ - H <= dx <= H /\ - H <= dy <= H /\ - V <= dv <= V /\ s = print_eid (shift_spec i dx dy dv)).
Proof. exact check_corridor_sound. Qed.
Print Assumptions C14_checker_sound.
(* and it asks no more than the theorems give: the model's own output is accepted (both modes, every map order and filter) *)
Theorem C14_checker_accepts_model : forall ord_n ord_u ord_q fit St st0 measure l h v skip r p H V,
  (forall l, Permutation (ord_n l) l) -> (forall l, Permutation (ord_u l) l) -> (forall l, Permutation (ord_q l) l) ->
  valids l -> (forall i, In i l -> eh i = h /\ ev i = v) -> V <= 2 ^ 62 ->
  pick (map print_eid l) = Some p -> fit p = Ok (H, V) ->
  corridor ord_n ord_u ord_q fit St st0 measure (Ok (map print_eid l)) skip = Ok r ->
  check_corridor h v ((H =? 0) && (V =? 0)) (map print_eid l) H V r = true.
Proof. exact check_corridor_accepts_model. Qed.
Print Assumptions C14_checker_accepts_model.

(* ---- non-vacuity ---- *)
Definition ex_line : list string := ["20/931451/412943/20/0"; "20/931450/412943/20/0"]%string.
Definition ex_fit (H V : Z) : string -> result (Z * Z) := fun _ => Ok (H, V).
(* the least ID in Go's string order is fitted; one layer around two adjacent voxels: 2*27 - 18 - 2 = 34 added IDs in skip mode *)
Example C14_nonvacuous_pick : pick ex_line = Some "20/931450/412943/20/0"%string.
Proof. vm_compute. reflexivity. Qed.
Example C14_nonvacuous_skip :
  match corridor_exec (ex_fit 1 1) (fun _ => false) (Ok ex_line) true with Ok r => List.length r = 36%nat | Err => False end.
Proof. vm_compute. reflexivity. Qed.
Example C14_nonvacuous_measured_none_near :
  corridor_exec (ex_fit 1 1) (fun _ => false) (Ok ex_line) false = Ok ex_line.
Proof. vm_compute. reflexivity. Qed.
Example C14_nonvacuous_zero : corridor_exec (ex_fit 0 0) (fun _ => true) (Ok ex_line) true = Ok ex_line.
Proof. vm_compute. reflexivity. Qed.
(* replayed loop: the 34 candidates of the one-layer box get recorded distances 10, 20, 10, 20, ...; radius 15 keeps every other one *)
Example C14_nonvacuous_replay :
  let cs := candidates (ex_fit 1 1) (Ok ex_line) in
  let ds := map (fun k => if Nat.even k then 10%float else 20%float) (seq 0 (List.length cs)) in
  List.length cs = 34%nat /\
  match corridor_run (ex_fit 1 1) _ (map Ok ds) (replay 15%float) (Ok ex_line) false with Ok r => List.length r = 19%nat | Err => False end /\
  corridor_run (ex_fit 1 1) _ [] (replay 15%float) (Ok ex_line) false = Err.
Proof. vm_compute. repeat split; reflexivity. Qed.
Example C14_nonvacuous_checker :
  match corridor_exec (ex_fit 1 1) (fun _ => false) (Ok ex_line) true with
  | Ok r => check_corridor 20 20 false ex_line 1 1 r = true /\ check_corridor 20 20 false ex_line 0 0 r = false
  | Err => False end.
Proof. vm_compute. split; reflexivity. Qed.
Example C14_nonvacuous_fit_struct :
  fit_struct "20/1/1/20" 0%float = Some Err /\ fit_struct "20/1/1/20/0" 0%float = Some (Ok (0, 0)) /\
  fit_struct "20/1/1/20/0" (-1)%float = Some Err /\ fit_struct "36/1/1/20/0" 0%float = Some Err /\ fit_struct "20/1/1/20/0" 50%float = None.
Proof. vm_compute. repeat split; reflexivity. Qed.
Example C14_nonvacuous_valid : valids [mk 20 931451 412943 20 0; mk 20 931450 412943 20 0] /\
  map print_eid [mk 20 931451 412943 20 0; mk 20 931450 412943 20 0] = ex_line.
Proof.
  split; [|vm_compute; reflexivity]. intros i [<-|[<-|[]]]; unfold valid, mk; cbn [eh ex ey ev ef]; repeat split; try (vm_compute; congruence).
Qed.
