(* C16 — Results depend only on the input set: deterministic, order-blind, no duplicates.
   Only statements, `exact` proofs and Print Assumptions live here. Models: the finished per-operation files; proofs:
   theories/Determinism.v, theories/DeterminismMore.v, theories/DC16.v.

   Reading guide.  Go randomises the iteration order of every map, per run and per map; it is the library's only source of
   nondeterminism.  The models carry every such order as an oracle `ord` with the single hypothesis `Permutation (ord l) l`;
   "for all runs" is "for all ord", "two runs" is "two oracles".  `same_members l l'` (the two lists have the same members) covers
   every permutation of the input list and every repetition of its entries.  `Permutation r r'` between two results says: the same
   IDs, each the same number of times; together with `NoDup`: the same set, no ID twice.
   What a model of immutable values cannot express (the caller's slices are left unmodified; genuinely repeated calls in one
   process; state kept between calls) is validated at run time by the entries of DC16.v, whose checker is proved sound below. *)
From Coq Require Import ZArith String List Bool Permutation.
From SID Require Import Base Str Ids Wire ZoomCore ChangeZoom Merge MergeProof Neighbour Notation SetOps Overlap QuadkeyConv Corridor
  Determinism DeterminismMore DC16.
Import ListNotations.
Open Scope Z_scope.

(* ---- 1. the generic layer: every operation of the shape "expand each input with g, then de-duplicate through a Go map" ---- *)
(* F ord l = ord (first-occurrence dedupe (flat_map g l)) *)
Theorem C16_same_set_whatever_the_map_order :
  forall (I O : Type) (eqb : O -> O -> bool), (forall a b, reflect (a = b) (eqb a b)) -> forall (g : I -> list O) ord ord',
  (forall l, Permutation (ord l) l) -> (forall l, Permutation (ord' l) l) ->
  forall l, Permutation (F eqb g ord l) (F eqb g ord' l).
Proof. exact @F_same_set_whatever_the_map_order. Qed.
Print Assumptions C16_same_set_whatever_the_map_order.

Theorem C16_result_depends_on_the_input_set_only :
  forall (I O : Type) (eqb : O -> O -> bool), (forall a b, reflect (a = b) (eqb a b)) -> forall (g : I -> list O) ord ord',
  (forall l, Permutation (ord l) l) -> (forall l, Permutation (ord' l) l) ->
  forall l l', same_members l l' -> Permutation (F eqb g ord l) (F eqb g ord' l').
Proof. exact @F_input_set_only. Qed.
Print Assumptions C16_result_depends_on_the_input_set_only.

Theorem C16_permuted_input :
  forall (I O : Type) (eqb : O -> O -> bool), (forall a b, reflect (a = b) (eqb a b)) -> forall (g : I -> list O) ord ord',
  (forall l, Permutation (ord l) l) -> (forall l, Permutation (ord' l) l) ->
  forall l l', Permutation l l' -> Permutation (F eqb g ord l) (F eqb g ord' l').
Proof. exact @F_permuted_input. Qed.
Print Assumptions C16_permuted_input.

Theorem C16_list_appended_to_itself :
  forall (I O : Type) (eqb : O -> O -> bool), (forall a b, reflect (a = b) (eqb a b)) -> forall (g : I -> list O) ord ord',
  (forall l, Permutation (ord l) l) -> (forall l, Permutation (ord' l) l) ->
  forall l, Permutation (F eqb g ord (l ++ l)) (F eqb g ord' l).
Proof. exact @F_appended_twice. Qed.
Print Assumptions C16_list_appended_to_itself.

Theorem C16_entries_repeated_in_place :
  forall (I O : Type) (eqb : O -> O -> bool), (forall a b, reflect (a = b) (eqb a b)) -> forall (g : I -> list O) ord ord',
  (forall l, Permutation (ord l) l) -> (forall l, Permutation (ord' l) l) ->
  (forall l, Permutation (F eqb g ord (stutter l)) (F eqb g ord' l)) /\
  (forall l1 l2 a k, Permutation (F eqb g ord (l1 ++ repeat a (S k) ++ l2)) (F eqb g ord' (l1 ++ a :: l2))).
Proof. intros I O eqb S g ord ord' P P'. split; [exact (F_repeated_in_place eqb S g ord ord' P P')|exact (F_one_entry_repeated eqb S g ord ord' P P')]. Qed.
Print Assumptions C16_entries_repeated_in_place.

Theorem C16_no_ID_twice :
  forall (I O : Type) (eqb : O -> O -> bool), (forall a b, reflect (a = b) (eqb a b)) -> forall (g : I -> list O) ord,
  (forall l, Permutation (ord l) l) -> forall l, NoDup (F eqb g ord l).
Proof. exact @F_NoDup. Qed.
Print Assumptions C16_no_ID_twice.

(* the same for any two de-duplicating functions whatsoever (any algorithm, any order) *)
Theorem C16_any_two_deduplications_agree :
  forall (O : Type) (dd dd' : list O -> list O) l l', dedupe_spec dd -> dedupe_spec dd' -> same_members l l' -> Permutation (dd l) (dd' l').
Proof. exact @dedupe_set_only. Qed.
Print Assumptions C16_any_two_deduplications_agree.

(* ---- 2. zoom change ---- *)
Theorem C16_zoom_change :
  forall ord ord', (forall l, Permutation (ord l) l) -> (forall l, Permutation (ord' l) l) ->
  forall ids ids' H V, same_members ids ids' ->
  Permutation (ord (change_eids ids H V)) (ord' (change_eids ids' H V)) /\ NoDup (ord (change_eids ids H V)).
Proof. intros ord ord' P P' ids ids' H V E. split; [exact (change_deterministic ord ord' P P' ids ids' H V E)|exact (change_no_duplicates ord P ids H V)]. Qed.
Print Assumptions C16_zoom_change.

Theorem C16_ChangeExtendedSpatialIdsZoom_on_valid_ids :
  forall ids ids' H V, (forall i, In i ids -> valid i) -> 0 <= H <= 35 -> 0 <= V <= 35 -> same_members ids ids' ->
  exists r r', change_ext_api (map print_eid ids) H V = Ok r /\ change_ext_api (map print_eid ids') H V = Ok r' /\
               Permutation r r' /\ NoDup r.
Proof. exact change_ext_api_deterministic. Qed.
Print Assumptions C16_ChangeExtendedSpatialIdsZoom_on_valid_ids.

Theorem C16_ChangeSpatialIdsZoom_on_valid_ids :
  forall ids ids' z, (forall i, In i ids -> valid i /\ ev i = eh i) -> 0 <= z <= 35 -> same_members ids ids' ->
  exists r r', change_sid_api (map ChangeZoom.print_sid ids) z = Ok r /\ change_sid_api (map ChangeZoom.print_sid ids') z = Ok r' /\
               Permutation r r'.
Proof. exact change_sid_api_deterministic. Qed.
Print Assumptions C16_ChangeSpatialIdsZoom_on_valid_ids.

(* ---- 3. merge: two maps (the dictionary of target voxels, the final Unique) ---- *)
Theorem C16_merge :
  forall ord ord', (forall l, Permutation (ord l) l) -> (forall l, Permutation (ord' l) l) ->
  forall H V l l', 0 <= H -> 0 <= V -> (forall i, In i l -> wfz i) -> same_members l l' ->
  Permutation (merge ord H V l) (merge ord' H V l').
Proof. exact merge_deterministic. Qed.
Print Assumptions C16_merge.
Theorem C16_merge_no_duplicates :
  forall ord, (forall l, Permutation (ord l) l) -> forall H V l, NoDup (merge ord H V l).
Proof. exact merge_no_duplicates. Qed.
Print Assumptions C16_merge_no_duplicates.

(* ---- 4. N-layer neighbourhoods, for arbitrary strings: both calls fail, or both succeed with the same duplicate-free set ---- *)
Theorem C16_neighbourhoods :
  forall ord ord', (forall l, Permutation (ord l) l) -> (forall l, Permutation (ord' l) l) ->
  forall ids ids' H V, same_members ids ids' ->
  match nN_api ids H V, nN_api ids' H V with
  | Ok a, Ok a' => Permutation (ord a) (ord' a') /\ NoDup (ord a)
  | Err, Err => True
  | _, _ => False
  end.
Proof. exact nN_deterministic. Qed.
Print Assumptions C16_neighbourhoods.

(* ---- 5. expansion of one extended ID into spatial IDs ---- *)
Theorem C16_expansion_no_duplicates : forall i, valid i -> NoDup (expand_eid i).
Proof. exact expand_no_duplicates. Qed.
Print Assumptions C16_expansion_no_duplicates.

(* ---- 6. common.Unique / Union (sets), Difference / Intersect (filters that keep order and multiplicity of one list) ---- *)
Theorem C16_Unique_Union :
  forall (A : Type) (eqb : A -> A -> bool), (forall a b, reflect (a = b) (eqb a b)) ->
  forall ord ord', (forall l, Permutation (ord l) l) -> (forall l, Permutation (ord' l) l) ->
  (forall l l', same_members l l' -> Permutation (SetOps.unique eqb ord l) (SetOps.unique eqb ord' l')) /\
  (forall l1 l1' l2 l2', same_members l1 l1' -> same_members l2 l2' -> Permutation (SetOps.union eqb ord l1 l2) (SetOps.union eqb ord' l1' l2')).
Proof. intros A eqb S ord ord' P P'. split; [exact (unique_deterministic eqb S ord ord' P P')|exact (union_deterministic eqb S ord ord' P P')]. Qed.
Print Assumptions C16_Unique_Union.

Theorem C16_Difference_Intersect :
  forall (A : Type) (eqb : A -> A -> bool), (forall a b, reflect (a = b) (eqb a b)) ->
  (forall l1 l1' l2 l2', Permutation l1 l1' -> same_members l2 l2' -> Permutation (difference eqb l1 l2) (difference eqb l1' l2')) /\
  (forall l1 l1' l2 l2', same_members l1 l1' -> same_members l2 l2' -> same_members (difference eqb l1 l2) (difference eqb l1' l2')) /\
  (forall l1 l1' l2 l2', same_members l1 l1' -> Permutation l2 l2' -> Permutation (intersect eqb l1 l2) (intersect eqb l1' l2')) /\
  (forall l1 l1' l2 l2', same_members l1 l1' -> same_members l2 l2' -> same_members (intersect eqb l1 l2) (intersect eqb l1' l2')).
Proof.
  intros A eqb S. split; [exact (difference_first_list_permuted eqb S)|]. split; [exact (difference_members_only eqb S)|].
  split; [exact (intersect_second_list_permuted eqb S)|exact (intersect_members_only eqb S)].
Qed.
Print Assumptions C16_Difference_Intersect.

(* ---- 7. overlap of two lists: the answer is blind to order and repetition in either list ---- *)
Theorem C16_CheckExtendedSpatialIdsArrayOverlap :
  forall l1 l1' l2 l2' e1 e2, parse_all l1 = Some e1 -> parse_all l2 = Some e2 ->
  (forall i, In i e1 -> valid i) -> (forall j, In j e2 -> valid j) ->
  same_members l1 l1' -> same_members l2 l2' -> ext_array l1 l2 = ext_array l1' l2'.
Proof. exact ext_array_deterministic. Qed.
Print Assumptions C16_CheckExtendedSpatialIdsArrayOverlap.
Theorem C16_CheckSpatialIdsArrayOverlap :
  forall l1 l1' l2 l2' e1 e2, map_opt ChangeZoom.parse_sid l1 = Some e1 -> map_opt ChangeZoom.parse_sid l2 = Some e2 ->
  (forall i, In i e1 -> sdom i) -> (forall j, In j e2 -> sdom j) ->
  same_members l1 l1' -> same_members l2 l2' -> sp_array l1 l2 = sp_array l1' l2'.
Proof. exact sp_array_deterministic. Qed.
Print Assumptions C16_CheckSpatialIdsArrayOverlap.

(* ---- 8. key conversions: every pair once, whatever the order and repetition of the inputs (the grouping is order dependent) ---- *)
Theorem C16_key_conversion_pairs :
  forall pss pss', same_members pss pss' ->
  Permutation (List.concat (run [] pss)) (List.concat (run [] pss')) /\ NoDup (List.concat (run [] pss)).
Proof. intros pss pss' E. split; [exact (run_deterministic pss pss' E)|exact (proj1 (run_pairs pss))]. Qed.
Print Assumptions C16_key_conversion_pairs.

(* ---- 9. corridor (after fix 70c64b2; D15 was the refutation before it): any map orders, any arrival order of the line's IDs ---- *)
Theorem C16_corridor :
  forall on ou oq on' ou' oq',
  (forall l, Permutation (on l) l) -> (forall l, Permutation (ou l) l) -> (forall l, Permutation (oq l) l) ->
  (forall l, Permutation (on' l) l) -> (forall l, Permutation (ou' l) l) -> (forall l, Permutation (oq' l) l) ->
  forall fit measure L L' skip r r', Permutation L L' ->
  corridor on ou oq fit measure (Ok L) skip = Ok r -> corridor on' ou' oq' fit measure (Ok L') skip = Ok r' ->
  Permutation r r' /\ NoDup r.
Proof. exact corridor_deterministic. Qed.
Print Assumptions C16_corridor.

(* ---- 10. the run-time checker: an accepted observation [unmodified; repeats; permuted; duplicated] means what the property says ---- *)
Theorem C16_checker_sound :
  forall nodup obs, check_det nodup obs = true ->
  exists un reps perms dups r p d, obs = VL [VB un; VL reps; VL perms; VL dups] /\
    decode_all reps = Some r /\ decode_all perms = Some p /\ decode_all dups = Some d /\
    exists r0 rs, r = r0 :: rs /\ un = true /\
      (forall x, In x rs -> res_equal_bags r0 x) /\
      (forall x, In x (p ++ d) -> res_equal_sets r0 x) /\
      (nodup = true -> forall x, In x (r ++ p ++ d) -> res_NoDup x).
Proof. exact check_det_sound. Qed.
Print Assumptions C16_checker_sound.

(* ---- non-vacuity ---- *)
(* two different map orders really give different lists, and the theorem relates them *)
Example C16_nonvacuous_orders :
  change_run (fun l => l) [mk 1 0 0 1 0; mk 2 1 1 2 1; mk 1 0 0 1 0] 2 2 <> change_run (@rev eid) [mk 2 1 1 2 1; mk 1 0 0 1 0] 2 2 /\
  Permutation (change_run (fun l => l) [mk 1 0 0 1 0; mk 2 1 1 2 1; mk 1 0 0 1 0] 2 2) (change_run (@rev eid) [mk 2 1 1 2 1; mk 1 0 0 1 0] 2 2).
Proof. exact change_run_two_orders. Qed.
(* the grouping of the key conversions does depend on the input order; the pairs do not *)
Example C16_nonvacuous_groups :
  run [] [[(1, 0); (2, 0)]; [(2, 0)]] = [[(1, 0); (2, 0)]] /\ run [] [[(2, 0)]; [(1, 0); (2, 0)]] = [[(2, 0)]; [(1, 0)]].
Proof. exact run_groups_depend_on_order. Qed.
(* the seeded order dependence of merge, on the model: coarse-first and fine-first give the same single voxel *)
Example C16_nonvacuous_merge :
  merge (fun l => l) 0 0 ([mk 1 0 0 1 0; mk 1 0 1 1 0; mk 1 1 0 1 0; mk 1 1 1 1 0; mk 1 0 0 1 1; mk 1 0 1 1 1; mk 1 1 0 1 1] ++
                          [mk 2 2 2 2 2; mk 2 2 3 2 2; mk 2 3 2 2 2; mk 2 3 3 2 2; mk 2 2 2 2 3; mk 2 2 3 2 3; mk 2 3 2 2 3; mk 2 3 3 2 3]) = [mk 0 0 0 0 0] /\
  merge (@rev eid) 0 0 ([mk 2 2 2 2 2; mk 2 2 3 2 2; mk 2 3 2 2 2; mk 2 3 3 2 2; mk 2 2 2 2 3; mk 2 2 3 2 3; mk 2 3 2 2 3; mk 2 3 3 2 3] ++
                        [mk 1 0 0 1 0; mk 1 0 1 1 0; mk 1 1 0 1 0; mk 1 1 1 1 0; mk 1 0 0 1 1; mk 1 0 1 1 1; mk 1 1 0 1 1]) = [mk 0 0 0 0 0].
Proof. split; vm_compute; reflexivity. Qed.
(* the checker accepts consistent runs and rejects each kind of violation *)
Example C16_checker_examples :
  check_runs true true [ROk ["a"; "b"] ["a"; "b"]; ROk ["b"; "a"] ["b"; "a"]] [ROk ["b"; "a"] ["b"; "a"]] [ROk ["a"; "b"] ["a"; "b"]] = true /\
  check_runs false true [ROk ["a"; "b"] ["a"; "b"]] [ROk ["a"] ["a"]] [] = false /\
  check_runs true true [ROk ["a"; "a"] ["a"; "a"]] [] [] = false /\
  check_runs false false [ROk ["a"] ["a"]] [] [] = false.
Proof. repeat split; vm_compute; reflexivity. Qed.
